(* C04/TieGeneric.v — the general (non-perpendicular) code path, on the term regenerated from
   _scattering_angles_with_gravity_generic on this run, and what follows from it for the public
   function.  [generic_is_construction] depends on WHICH vector the path feeds to two_theta: with the
   beam lowered along gravity (finding F1, refuted in coq/C04/ProofsSpec.v: generic_sign_refuted) the
   componentwise equation `fed vector = b2 + delta e_y` below is not a field identity and this file
   stops there. *)
From Coq Require Import Reals ZArith String List Lra.
From Verif.Sem Require Import Field Val RInst RLemmas.
From Verif.C04 Require Import SemExt Vec Spec ProofsTrig ProofsGeom ProofsSpec.
From Run Require Import GenUtils GenBeamline Tie.
Import ListNotations.
Open Scope R_scope.

Section TieG.
Variables h mn : R.
Hypothesis Hh : h > 0.
Hypothesis Hm : mn > 0.
Notation O := (ROps h mn).
Notation vvec v s dm := (VVar O (EVec O (vx v) (vy v) (vz v)) (mkU O s dm) DVec3).
Notation vnum x s dm d := (VVar O (ENum O x None) (mkU O s dm) d).
(* the physical raised beam b2 + delta e_y *)
Notation raised_p b2 s2 g sg lam := (raised (vscal s2 b2) (vscal sg g) (drop h mn (vscal s2 b2) (vscal sg g) lam)).

(* generic_is_construction: for EVERY incident beam not parallel to gravity (any tilt), all units,
   both float classes of the wavelength: two_theta = angle(b1, b2 + delta e_y), phi = atan2(y_d + delta, x_d) *)
Theorem generic_is_construction ds (b1 b2 g : V3) s1 s2 sg l sl dl :
  s1 > 0 -> s2 > 0 -> sg > 0 -> is_float dl = true ->
  thr <= vnorm (zproj b1 g) -> 0 < vnorm g -> 0 < vnorm (raised_p b2 s2 g sg (l * sl)) ->
  exists v1 v2,
    p_scattering_angles_with_gravity_generic O ds (vvec b1 s1 d_m) (vvec b2 s2 d_m) (vnum l sl d_m dl) (vvec g sg d_mps2)
    = VDict O [("two_theta", v1); ("phi", v2)]%string
    /\ is_qty h mn v1 (two_theta_g h mn (vscal s1 b1) (vscal s2 b2) (l * sl) (vscal sg g)) 1 d_rad dl
    /\ is_qty h mn v2 (phi_g h mn (vscal s1 b1) (vscal s2 b2) (l * sl) (vscal sg g)) 1 d_rad dl.
Proof using Hh Hm.
  intros Hs1 Hs2 Hsg Hdl Hz Hg Hc.
  assert (Hz0 : 0 < vnorm (zproj b1 g)) by (unfold thr in Hz; lra).
  pose proof (b1_nonzero b1 g Hz0) as Hb1.
  rewrite raised_phys in Hc by (assumption || lra).
  rewrite vnorm_scal in Hc by lra. assert (Hc' : 0 < vnorm (raised b2 g (dnum h mn b2 g s2 sg (l * sl)))) by nra.
  rewrite two_theta_num, phi_num by (assumption || lra).
  rewrite <- (kahan_is_angle b1 _ Hb1 Hc').
  clear Hc Hc' Hb1. revert Hz Hg Hz0. unfold dnum.
  destruct b1 as [a1 a2 a3], b2 as [x2 y2 z2], g as [g1 g2 g3]; cbn [vx vy vz]. intros Hz Hg Hz0.
  assert (Hgn : sqrt (g1 * g1 + g2 * g2 + g3 * g3) <> 0) by (unfold vnorm in Hg; cbn [vx vy vz] in Hg; lra).
  unfold p_scattering_angles_with_gravity_generic.
  rewrite (bauv_eval h mn a1 a2 a3 s1 g1 g2 g3 sg Hz).
  change (sc_norm O (VVar O (EVec O x2 y2 z2) (mkU O s2 d_m) DVec3))
    with (VVar O (ENum O (vnorm (mkV x2 y2 z2)) None) (mkU O s2 d_m) DF64).
  rewrite (drop_eval h mn Hh Hm) by (assumption || lra).
  all_dtypes; sem_cbv_k; rewrite (two_theta_eval h mn); sem_cbv_k.
  all: eexists; eexists; split; [reflexivity|]; split.
  all: qty_intro; [unit_one |].
  all: rewrite Rmult_1_r.
  (* two_theta: the vector fed to two_theta is the RAISED beam b2 + delta e_y, component by component *)
  1,3: f_equal; apply V3_eq; unfold raised; cbn [vadd vscal vx vy vz];
       first [ ring | unfold e_y, vnorm; cbn [vdivs vneg vx vy vz]; field; exact Hgn ].
  (* phi *)
  all: unfold vdot; cbn [vx vy vz]; first [ reflexivity | apply (f_equal2 atan2); ring ].
Qed.

(* paths_agree: on the dispatch boundary (incident beam perpendicular to gravity) both code paths denote
   the same values *)
Theorem paths_agree ds (b1 b2 g : V3) s1 s2 sg l sl dl :
  s1 > 0 -> s2 > 0 -> sg > 0 -> is_float dl = true ->
  thr <= vnorm (zproj b1 g) -> 0 < vnorm g -> 0 < vnorm (raised_p b2 s2 g sg (l * sl)) ->
  vdot g b1 = 0 ->
  p_scattering_angles_with_gravity_generic O ds (vvec b1 s1 d_m) (vvec b2 s2 d_m) (vnum l sl d_m dl) (vvec g sg d_mps2)
  = p_scattering_angles_with_gravity_orthogonal_coords O ds (vvec b1 s1 d_m) (vvec b2 s2 d_m) (vnum l sl d_m dl) (vvec g sg d_mps2).
Proof using Hh Hm.
  intros Hs1 Hs2 Hsg Hdl Hz Hg Hc Hperp.
  destruct (generic_is_construction ds b1 b2 g s1 s2 sg l sl dl Hs1 Hs2 Hsg Hdl Hz Hg Hc) as (v1 & v2 & -> & Q1 & Q2).
  destruct (orthogonal_is_construction h mn Hh Hm ds b1 b2 g s1 s2 sg l sl dl Hs1 Hs2 Hsg Hdl Hz Hg Hperp Hc) as (w1 & w2 & -> & R1 & R2).
  rewrite (is_qty_unique h mn v1 w1 _ 1 _ _ R1_neq_R0 Q1 R1), (is_qty_unique h mn v2 w2 _ 1 _ _ R1_neq_R0 Q2 R2).
  reflexivity.
Qed.

(* the public function: the construction for every incident beam that is exactly perpendicular to
   gravity or tilted beyond the dispatch threshold.  (In the band 0 < |g.b1| <= 1e-10 |g| the optimised
   path is used for a beam that is not exactly perpendicular: see Tie.orthogonal_value — the angle is
   then taken to the horizontal direction of the beam, at most the tilt (<= 1e-10 rad) away.) *)
Theorem public_is_construction ds (b1 b2 g : V3) s1 s2 sg l sl dl :
  s1 > 0 -> s2 > 0 -> sg > 0 -> is_float dl = true ->
  thr <= vnorm (zproj b1 g) -> 0 < vnorm g -> 0 < vnorm (raised_p b2 s2 g sg (l * sl)) ->
  vdot g b1 = 0 \/ thr * vnorm g < Rabs (vdot g b1) ->
  exists v1 v2,
    scattering_angles_with_gravity O ds (vvec b1 s1 d_m) (vvec b2 s2 d_m) (vnum l sl d_m dl) (vvec g sg d_mps2)
    = VDict O [("two_theta", v1); ("phi", v2)]%string
    /\ is_qty h mn v1 (two_theta_g h mn (vscal s1 b1) (vscal s2 b2) (l * sl) (vscal sg g)) 1 d_rad dl
    /\ is_qty h mn v2 (phi_g h mn (vscal s1 b1) (vscal s2 b2) (l * sl) (vscal sg g)) 1 d_rad dl.
Proof using Hh Hm.
  intros Hs1 Hs2 Hsg Hdl Hz Hg Hc [Hperp | Htilt].
  - rewrite dispatch_orthogonal.
    + apply orthogonal_is_construction; assumption.
    + rewrite Hperp, Rabs_R0. unfold thr. apply Rmult_le_pos; lra.
  - rewrite dispatch_generic by exact Htilt.
    apply generic_is_construction; assumption.
Qed.

(* limit_no_gravity: wavelength 0 (delta = 0) gives the gravity-free angle *)
Theorem limit_no_gravity ds (b1 b2 g : V3) s1 s2 sg sl dl :
  s1 > 0 -> s2 > 0 -> sg > 0 -> is_float dl = true ->
  thr <= vnorm (zproj b1 g) -> 0 < vnorm g -> 0 < vnorm b2 ->
  vdot g b1 = 0 \/ thr * vnorm g < Rabs (vdot g b1) ->
  exists v1 v2,
    scattering_angles_with_gravity O ds (vvec b1 s1 d_m) (vvec b2 s2 d_m) (vnum 0 sl d_m dl) (vvec g sg d_mps2)
    = VDict O [("two_theta", v1); ("phi", v2)]%string
    /\ is_qty h mn v1 (angle (vscal s1 b1) (vscal s2 b2)) 1 d_rad dl.
Proof using Hh Hm.
  intros Hs1 Hs2 Hsg Hdl Hz Hg Hb2 Hd.
  assert (E : drop h mn (vscal s2 b2) (vscal sg g) (0 * sl) = 0)
    by (unfold drop; rewrite Rmult_0_l; apply delta_zero_wavelength).
  destruct (public_is_construction ds b1 b2 g s1 s2 sg 0 sl dl Hs1 Hs2 Hsg Hdl Hz Hg) as (v1 & v2 & Ev & Q1 & _); try assumption.
  - rewrite E, raised_zero, vnorm_scal by lra. nra.
  - exists v1, v2. split; [exact Ev|].
    unfold two_theta_g in Q1. rewrite E, raised_zero in Q1. exact Q1.
Qed.

(* raised_beam_larger: horizontal incident beam, detector above the beam axis (y_d > 0) and downstream
   (b1.b2 > 0), lambda > 0  =>  the gravity-corrected 2theta exceeds the gravity-free one *)
Theorem raised_beam_larger ds (b1 b2 g : V3) s1 s2 sg l sl dl :
  s1 > 0 -> s2 > 0 -> sg > 0 -> sl > 0 -> l > 0 -> is_float dl = true ->
  thr <= vnorm (zproj b1 g) -> 0 < vnorm g ->
  vdot g b1 = 0 -> 0 < vdot b2 (e_y g) -> 0 < vdot b1 b2 ->
  exists v1 v2 th_g th_free,
    scattering_angles_with_gravity O ds (vvec b1 s1 d_m) (vvec b2 s2 d_m) (vnum l sl d_m dl) (vvec g sg d_mps2)
    = VDict O [("two_theta", v1); ("phi", v2)]%string
    /\ is_qty h mn v1 th_g 1 d_rad dl
    /\ is_qty h mn (two_theta O (vvec b1 s1 d_m) (vvec b2 s2 d_m)) th_free 1 d_rad DF64
    /\ th_free < th_g.
Proof using Hh Hm.
  intros Hs1 Hs2 Hsg Hsl Hl Hdl Hz Hg Hperp Hy Hzd.
  assert (Hz0 : 0 < vnorm (zproj b1 g)) by (unfold thr in Hz; lra).
  pose proof (b1_nonzero b1 g Hz0) as Hb1.
  assert (Hb2 : 0 < vnorm b2).
  { apply vnorm_pos_iff. pose proof (vsq_nonneg b2).
    destruct (Req_dec (vsq b2) 0) as [E|E]; [exfalso|lra].
    unfold vsq in E. assert (vx b2 = 0) by nra. assert (vy b2 = 0) by nra. assert (vz b2 = 0) by nra.
    unfold vdot in Hzd. rewrite H0, H1, H2 in Hzd. lra. }
  set (d := dnum h mn b2 g s2 sg (l * sl)).
  assert (Hd : 0 < d).
  { unfold d, dnum. apply Rdiv_lt_0_compat; [|lra]. apply delta_pos; try assumption; nra. }
  pose proof (raised_beam_larger_spec b1 b2 g d Hg Hb1 Hb2 Hperp Hy Hzd Hd) as Hlt.
  assert (Hr : 0 < vnorm (raised b2 g d)).
  { apply vnorm_pos_iff. rewrite raised_sq by assumption. pose proof (vsq_nonneg b2). apply vnorm_pos_iff in Hb2. nra. }
  destruct (public_is_construction ds b1 b2 g s1 s2 sg l sl dl Hs1 Hs2 Hsg Hdl Hz Hg) as (v1 & v2 & Ev & Q1 & _).
  - rewrite raised_phys by (assumption || lra). rewrite vnorm_scal by lra. fold d. nra.
  - left; exact Hperp.
  - exists v1, v2, (angle b1 (raised b2 g d)), (angle b1 b2). split; [exact Ev|]. split; [|split; [|exact Hlt]].
    + rewrite two_theta_num in Q1 by (assumption || lra). exact Q1.
    + rewrite <- (angle_scal s1 s2 b1 b2) by lra. apply two_theta_is_angle; assumption.
Qed.
End TieG.
