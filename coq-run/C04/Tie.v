(* C04/Tie.v — obligations proved DIRECTLY ON THE TERMS REGENERATED from
   /repo/src/scippneutron/conversion/beamline.py on this run (Run.GenBeamline): everything that does
   not depend on which vector the general path feeds to two_theta (that is TieGeneric.v).

   Reading guide.  Vectors are numeric triples [V3] stored in a unit with multiplier s (ARBITRARY
   positive real): the physical vector is [vscal s v].  h, m_n are arbitrary positive reals.
   [ds : bool] is the answer to `set(distance.dims).issubset(drop.dims)` (array shapes, invisible to
   the element model): every statement holds for both answers.
   The evaluation lemmas (suffix _eval) rewrite a call of a helper into its canonical value; the theorems
   about the callers use them instead of unfolding the helper again. *)
From Coq Require Import Reals ZArith String List Lra.
From Verif.Sem Require Import Field Val RInst RLemmas.
From Verif.C04 Require Import SemExt Vec Spec ProofsTrig ProofsGeom ProofsSpec.
From Run Require Import GenUtils GenBeamline.
Import ListNotations.
Open Scope R_scope.

(* evaluate the value semantics, keeping the specification-level functions and the helpers folded *)
(* (own copy of RLemmas.sem_cbv that also keeps the rounding primitive Rrint of the R instance folded) *)
Ltac sem_cbv0 :=
  cbv -[Rplus Rminus Rmult Rdiv Rinv Ropp IZR sqrt sin cos atan2 atan asin exp Rabs PI
        Rleb Rltb Reqb Rle_dec Rlt_dec Req_EM_T Rrint].
Ltac sem_cbv_k :=
  cbv -[Rplus Rminus Rmult Rdiv Rinv Ropp IZR sqrt sin cos atan2 atan asin exp Rabs PI
        Rleb Rltb Reqb Rle_dec Rlt_dec Req_EM_T Rrint
        e_y e_z e_x zproj kahan delta vnorm vx vy vz
        two_theta beam_aligned_unit_vectors p_drop_due_to_gravity
        p_scattering_angles_with_gravity_generic p_scattering_angles_with_gravity_orthogonal_coords].
Ltac all_dtypes :=
  repeat match goal with
         | H : is_float ?d = true |- _ => destruct d; try discriminate H; clear H
         end.
Ltac fld := field; repeat split; lra.
Ltac unit_one := cbn [us]; match goal with |- @eq _ ?a ?b => change (@eq R a b) end; first [reflexivity | ring].

(* the dispatch / refusal threshold literal of the source *)
Definition thr : R := 1 / 10000000000.

Section Tie.
Variables h mn : R.
Hypothesis Hh : h > 0.
Hypothesis Hm : mn > 0.
Notation O := (ROps h mn).
Notation vvec v s dm := (VVar O (EVec O (vx v) (vy v) (vz v)) (mkU O s dm) DVec3).
Notation vnum x s dm d := (VVar O (ENum O x None) (mkU O s dm) d).

(* ------------------------------------------------------------------ helpers, evaluated once *)
Lemma two_theta_eval a1 a2 a3 sa c1 c2 c3 sc :
  two_theta O (VVar O (EVec O a1 a2 a3) (mkU O sa d_m) DVec3) (VVar O (EVec O c1 c2 c3) (mkU O sc d_m) DVec3)
  = VVar O (ENum O (kahan (mkV a1 a2 a3) (mkV c1 c2 c3)) None) (mkU O (1 * 1) d_rad) DF64.
Proof using.
  sem_cbv0.
  (* normally both sides are the same expression; after a harmless re-arrangement of the source
     (operand order, `2 * res`) compare under atan2 / sqrt by ring *)
  first [ reflexivity
        | repeat match goal with
                 | |- VVar _ _ _ _ = VVar _ _ _ _ => f_equal
                 | |- ENum _ _ _ = ENum _ _ _ => f_equal
                 | |- mkU _ _ _ = mkU _ _ _ => f_equal
                 end;
          match goal with |- @eq _ ?a ?b => change (@eq R a b) end;
          first [ reflexivity | ring
                | try rewrite (Rmult_comm 2); apply (f_equal2 Rmult); [apply (f_equal2 atan2); apply (f_equal sqrt); ring | reflexivity] ] ].
Qed.

Lemma bauv_eval a1 a2 a3 sa g1 g2 g3 sg :
  thr <= vnorm (zproj (mkV a1 a2 a3) (mkV g1 g2 g3)) ->
  beam_aligned_unit_vectors O (VVar O (EVec O a1 a2 a3) (mkU O sa d_m) DVec3) (VVar O (EVec O g1 g2 g3) (mkU O sg d_mps2) DVec3)
  = VDict O [("beam_aligned_unit_x", VVar O (EVec O (vx (e_x (mkV a1 a2 a3) (mkV g1 g2 g3))) (vy (e_x (mkV a1 a2 a3) (mkV g1 g2 g3))) (vz (e_x (mkV a1 a2 a3) (mkV g1 g2 g3))))
                                         (mkU O (sg / sg * (sa / sa)) dzero) DVec3);
             ("beam_aligned_unit_y", VVar O (EVec O (vx (e_y (mkV g1 g2 g3))) (vy (e_y (mkV g1 g2 g3))) (vz (e_y (mkV g1 g2 g3))))
                                         (mkU O (sg / sg) dzero) DVec3);
             ("beam_aligned_unit_z", VVar O (EVec O (vx (e_z (mkV a1 a2 a3) (mkV g1 g2 g3))) (vy (e_z (mkV a1 a2 a3) (mkV g1 g2 g3))) (vz (e_z (mkV a1 a2 a3) (mkV g1 g2 g3))))
                                         (mkU O (sa / sa) dzero) DVec3)]%string.
Proof using.
  intros Hz. unfold thr in Hz.
  apply Rltb_false in Hz. revert Hz. sem_cbv0. intros ->. reflexivity.
Qed.
(* incident beam (numerically, in its own unit) parallel to gravity: refused *)
Lemma bauv_refuses_parallel a1 a2 a3 sa g1 g2 g3 sg :
  vnorm (zproj (mkV a1 a2 a3) (mkV g1 g2 g3)) < thr ->
  beam_aligned_unit_vectors O (VVar O (EVec O a1 a2 a3) (mkU O sa d_m) DVec3) (VVar O (EVec O g1 g2 g3) (mkU O sg d_mps2) DVec3)
  = VErr O "ValueError".
Proof using.
  intros Hz. unfold thr in Hz.
  apply Rltb_true in Hz. revert Hz. sem_cbv0. intros ->. reflexivity.
Qed.

(* _drop_due_to_gravity: value delta / s and unit s of `distance` *)
Lemma drop_eval ds L sL l sl dl g1 g2 g3 sg :
  sL > 0 -> sg > 0 -> is_float dl = true ->
  p_drop_due_to_gravity O ds (VVar O (ENum O L None) (mkU O sL d_m) DF64) (VVar O (ENum O l None) (mkU O sl d_m) dl)
                        (VVar O (EVec O g1 g2 g3) (mkU O sg d_mps2) DVec3)
  = VVar O (ENum O (delta h mn (vnorm (mkV g1 g2 g3) * sg) (l * sl) (L * sL) / sL) None) (mkU O sL d_m) dl.
Proof using Hh Hm.
  intros HsL Hsg Hdl.
  assert (Hq : 0 < sL * (sg * (1 * 1 / (1 * (1 * 1))))) by (apply Rmult_lt_0_compat; lra).
  destruct dl; try discriminate Hdl; destruct ds; sem_cbv0.
  all: match goal with |- context [sqrt (1 / ?q)] =>
         set (S := sqrt (1 / q));
         assert (HS : S * S = 1 / q) by (unfold S; apply sqrt_sqrt, Rlt_le, Rdiv_lt_0_compat; lra);
         assert (HS0 : 0 < S) by (apply sqrt_lt_R0, Rdiv_lt_0_compat; lra)
       end.
  all: f_equal; [f_equal | f_equal].
  all: try (rewrite HS; fld).
  all: apply Rmult_eq_reg_r with (S * S); [|nra];
       match goal with |- ?lhs * ?ss = ?rhs * ?ss =>
         transitivity (rhs * (1 / (sL * (sg * (1 * 1 / (1 * (1 * 1))))))); [fld | rewrite <- HS; reflexivity] end.
Qed.

(* ------------------------------------------------------------------ drop_formula *)
(* for every unit of distance (sL), wavelength (sl), gravity (sg) and both float classes of the
   wavelength: the result is delta = |g| m_n^2 lambda^2 L2^2 / (2 h^2) in the unit of `distance` *)
Lemma drop_formula ds L sL l sl dl (g : V3) sg :
  sL > 0 -> sg > 0 -> is_float dl = true ->
  is_qty h mn (p_drop_due_to_gravity O ds (vnum L sL d_m DF64) (vnum l sl d_m dl) (vvec g sg d_mps2))
         (delta h mn (vnorm (vscal sg g)) (l * sl) (L * sL)) sL d_m dl.
Proof using Hh Hm.
  intros HsL Hsg Hdl. destruct g as [g1 g2 g3]; cbn [vx vy vz].
  rewrite drop_eval by assumption.
  qty_intro; [reflexivity|]. rewrite vnorm_scal by lra. unfold delta. fld.
Qed.

(* ------------------------------------------------------------------ two_theta = angle (gravity-free reference) *)
Lemma two_theta_is_angle (a c : V3) sa sc :
  sa > 0 -> sc > 0 -> 0 < vnorm a -> 0 < vnorm c ->
  is_qty h mn (two_theta O (vvec a sa d_m) (vvec c sc d_m)) (angle (vscal sa a) (vscal sc c)) 1 d_rad DF64.
Proof using.
  intros Hsa Hsc Ha Hc. destruct a as [a1 a2 a3], c as [c1 c2 c3]; cbn [vx vy vz].
  rewrite two_theta_eval. qty_intro; [unit_one|].
  rewrite kahan_is_angle by assumption. rewrite angle_scal by lra. ring.
Qed.

(* ------------------------------------------------------------------ the dispatch *)
Lemma dispatch_generic ds (b1 b2 g : V3) s1 s2 sg (wl : val O) :
  thr * vnorm g < Rabs (vdot g b1) ->
  scattering_angles_with_gravity O ds (vvec b1 s1 d_m) (vvec b2 s2 d_m) wl (vvec g sg d_mps2)
  = p_scattering_angles_with_gravity_generic O ds (vvec b1 s1 d_m) (vvec b2 s2 d_m) wl (vvec g sg d_mps2).
Proof using.
  intros Hc. unfold thr, vdot, vnorm in Hc. apply Rltb_true in Hc.
  unfold scattering_angles_with_gravity.
  match goal with |- vif _ ?c _ _ = _ =>
    assert (E : c = VBool O true) by (revert Hc; sem_cbv0; intros ->; reflexivity); rewrite E end.
  reflexivity.
Qed.
Lemma dispatch_orthogonal ds (b1 b2 g : V3) s1 s2 sg (wl : val O) :
  Rabs (vdot g b1) <= thr * vnorm g ->
  scattering_angles_with_gravity O ds (vvec b1 s1 d_m) (vvec b2 s2 d_m) wl (vvec g sg d_mps2)
  = p_scattering_angles_with_gravity_orthogonal_coords O ds (vvec b1 s1 d_m) (vvec b2 s2 d_m) wl (vvec g sg d_mps2).
Proof using.
  intros Hc. unfold thr, vdot, vnorm in Hc. apply Rltb_false in Hc.
  unfold scattering_angles_with_gravity.
  match goal with |- vif _ ?c _ _ = _ =>
    assert (E : c = VBool O false) by (revert Hc; sem_cbv0; intros ->; reflexivity); rewrite E end.
  reflexivity.
Qed.

(* ------------------------------------------------------------------ the optimised path *)
(* value for ANY tilt: phi of the construction, and the angle between the raised beam and the
   HORIZONTAL direction e_z of the incident beam *)
Lemma orthogonal_value ds (b1 b2 g : V3) s1 s2 sg l sl dl :
  s1 > 0 -> s2 > 0 -> sg > 0 -> is_float dl = true ->
  thr <= vnorm (zproj b1 g) -> 0 < vnorm g ->
  0 < vnorm (raised (vscal s2 b2) (vscal sg g) (drop h mn (vscal s2 b2) (vscal sg g) (l * sl))) ->
  exists v1 v2,
    p_scattering_angles_with_gravity_orthogonal_coords O ds (vvec b1 s1 d_m) (vvec b2 s2 d_m) (vnum l sl d_m dl) (vvec g sg d_mps2)
    = VDict O [("two_theta", v1); ("phi", v2)]%string
    /\ is_qty h mn v1 (angle (e_z b1 g) (raised (vscal s2 b2) (vscal sg g) (drop h mn (vscal s2 b2) (vscal sg g) (l * sl)))) 1 d_rad dl
    /\ is_qty h mn v2 (phi_g h mn (vscal s1 b1) (vscal s2 b2) (l * sl) (vscal sg g)) 1 d_rad dl.
Proof using Hh Hm.
  intros Hs1 Hs2 Hsg Hdl Hz Hg Hc.
  assert (Hz0 : 0 < vnorm (zproj b1 g)) by (unfold thr in Hz; lra).
  rewrite raised_phys in * by (assumption || lra).
  rewrite vnorm_scal in Hc by lra. assert (Hc' : 0 < vnorm (raised b2 g (dnum h mn b2 g s2 sg (l * sl)))) by nra.
  rewrite angle_scal_r by lra.
  rewrite phi_num by (assumption || lra).
  rewrite <- (inplane_general b1 b2 g _ Hg Hz0 Hc').
  clear Hc Hc'. revert Hz Hg Hz0. unfold dnum.
  destruct b1 as [a1 a2 a3], b2 as [x2 y2 z2], g as [g1 g2 g3]; cbn [vx vy vz]. intros Hz Hg Hz0.
  unfold p_scattering_angles_with_gravity_orthogonal_coords.
  rewrite (bauv_eval a1 a2 a3 s1 g1 g2 g3 sg Hz).
  change (sc_norm O (VVar O (EVec O x2 y2 z2) (mkU O s2 d_m) DVec3))
    with (VVar O (ENum O (vnorm (mkV x2 y2 z2)) None) (mkU O s2 d_m) DF64).
  rewrite drop_eval by (assumption || lra).
  all_dtypes; sem_cbv_k.
  all: eexists; eexists; split; [reflexivity|]; split.
  all: qty_intro; [unit_one |].
  all: rewrite Rmult_1_r; unfold vdot; cbn [vx vy vz].
  all: first [ reflexivity
             | apply (f_equal2 atan2); [ first [apply (f_equal sqrt) | apply (f_equal Rabs) | idtac] |]; ring ].
Qed.

(* orthogonal_is_construction: for an incident beam perpendicular to gravity the optimised path returns
   exactly the documented construction *)
Lemma orthogonal_is_construction ds (b1 b2 g : V3) s1 s2 sg l sl dl :
  s1 > 0 -> s2 > 0 -> sg > 0 -> is_float dl = true ->
  thr <= vnorm (zproj b1 g) -> 0 < vnorm g -> vdot g b1 = 0 ->
  0 < vnorm (raised (vscal s2 b2) (vscal sg g) (drop h mn (vscal s2 b2) (vscal sg g) (l * sl))) ->
  exists v1 v2,
    p_scattering_angles_with_gravity_orthogonal_coords O ds (vvec b1 s1 d_m) (vvec b2 s2 d_m) (vnum l sl d_m dl) (vvec g sg d_mps2)
    = VDict O [("two_theta", v1); ("phi", v2)]%string
    /\ is_qty h mn v1 (two_theta_g h mn (vscal s1 b1) (vscal s2 b2) (l * sl) (vscal sg g)) 1 d_rad dl
    /\ is_qty h mn v2 (phi_g h mn (vscal s1 b1) (vscal s2 b2) (l * sl) (vscal sg g)) 1 d_rad dl.
Proof using Hh Hm.
  intros Hs1 Hs2 Hsg Hdl Hz Hg Hperp Hc.
  destruct (orthogonal_value ds b1 b2 g s1 s2 sg l sl dl Hs1 Hs2 Hsg Hdl Hz Hg Hc) as (v1 & v2 & E & Q1 & Q2).
  exists v1, v2. split; [exact E|]. split; [|exact Q2].
  assert (Hz0 : 0 < vnorm (zproj b1 g)) by (unfold thr in Hz; lra).
  pose proof (b1_nonzero b1 g Hz0) as Hb1.
  unfold two_theta_g.
  rewrite e_z_horizontal in Q1 by assumption.
  rewrite vdivs_as_scal in Q1 by lra.
  rewrite angle_scal_l in Q1 by (apply Rdiv_lt_0_compat; lra).
  rewrite angle_scal_l by lra.
  exact Q1.
Qed.

(* ------------------------------------------------------------------ reflectometry variant *)
Lemma yz_plane_formula ds (b1 b2 g : V3) s1 s2 sg l sl dl :
  s1 > 0 -> s2 > 0 -> sg > 0 -> is_float dl = true ->
  thr <= vnorm (zproj b1 g) -> 0 < vnorm g ->
  Rabs (vdot g b1) <= thr * vnorm g ->
  is_qty h mn (scattering_angle_in_yz_plane O ds (vvec b1 s1 d_m) (vvec b2 s2 d_m) (vnum l sl d_m dl) (vvec g sg d_mps2))
         (gamma_yz h mn (vscal s1 b1) (vscal s2 b2) (l * sl) (vscal sg g)) 1 d_rad dl.
Proof using Hh Hm.
  intros Hs1 Hs2 Hsg Hdl Hz Hg Hc.
  assert (Hz0 : 0 < vnorm (zproj b1 g)) by (unfold thr in Hz; lra).
  rewrite gamma_num by (assumption || lra).
  unfold thr, vdot, vnorm in Hc. apply Rltb_false in Hc.
  revert Hz Hg Hz0 Hc. unfold dnum.
  destruct b1 as [a1 a2 a3], b2 as [x2 y2 z2], g as [g1 g2 g3]; cbn [vx vy vz]. intros Hz Hg Hz0 Hc.
  unfold scattering_angle_in_yz_plane.
  match goal with |- is_qty _ _ (vif _ ?c _ _) _ _ _ _ =>
    assert (E : c = VBool O false) by (revert Hc; sem_cbv0; intros ->; reflexivity); rewrite E end.
  rewrite (bauv_eval a1 a2 a3 s1 g1 g2 g3 sg Hz).
  change (sc_norm O (VVar O (EVec O x2 y2 z2) (mkU O s2 d_m) DVec3))
    with (VVar O (ENum O (vnorm (mkV x2 y2 z2)) None) (mkU O s2 d_m) DF64).
  rewrite drop_eval by (assumption || lra).
  all_dtypes; sem_cbv_k.
  all: qty_intro; [unit_one |].
  all: rewrite Rmult_1_r; unfold vdot; cbn [vx vy vz].
  all: first [ reflexivity | apply (f_equal2 atan2); [apply (f_equal Rabs)|]; ring ].
Qed.
Lemma yz_plane_refuses_nonorthogonal ds (b1 b2 g : V3) s1 s2 sg (wl : val O) :
  thr * vnorm g < Rabs (vdot g b1) ->
  scattering_angle_in_yz_plane O ds (vvec b1 s1 d_m) (vvec b2 s2 d_m) wl (vvec g sg d_mps2) = VErr O "ValueError".
Proof using.
  intros Hc. unfold thr, vdot, vnorm in Hc. apply Rltb_true in Hc.
  unfold scattering_angle_in_yz_plane.
  match goal with |- vif _ ?c _ _ = _ =>
    assert (E : c = VBool O true) by (revert Hc; sem_cbv0; intros ->; reflexivity); rewrite E end.
  reflexivity.
Qed.

(* two results with the same physical value, unit and dtype are the same value *)
Lemma is_qty_unique (r r' : val O) p s dm dt : s <> 0 -> is_qty h mn r p s dm dt -> is_qty h mn r' p s dm dt -> r = r'.
Proof using.
  intros Hs (v & u & E & Hd & Hu & Hv) (v' & u' & E' & Hd' & Hu' & Hv').
  subst r r'. destruct u as [su du], u' as [su' du']; cbn [us ud] in *.
  subst su su' du du'.
  assert (Ev : v = v') by (apply Rmult_eq_reg_r with s; [rewrite Hv, Hv'; reflexivity | exact Hs]).
  subst v'. reflexivity.
Qed.
End Tie.
