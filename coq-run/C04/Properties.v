(* C04/Properties.v — the property theorems (nothing else), each closed by a lemma of Tie.v /
   TieGeneric.v proved on the terms regenerated from beamline.py on this run (or, for the refutation
   of the pre-repair behaviour, by the static coq/C04/ProofsSpec.v), with Print Assumptions at the end.

   Reading guide.  b1, b2, g : V3 are the NUMERIC components of incident beam, scattered beam and
   gravity as stored, in units with arbitrary positive multipliers s1, s2, sg (lengths / acceleration);
   the physical vectors are vscal s1 b1 etc.  l, sl: wavelength value and unit multiplier; dl its float
   class.  ds: the (shape-dependent) answer of `set(distance.dims).issubset(drop.dims)`, both values.
   Spec (coq/C04/Spec.v):  delta h mn gn lam L2 = gn mn^2 lam^2 L2^2 / (2 h^2);  e_y g = -g/|g|;
   raised b2 g d = b2 + d e_y;  two_theta_g = angle b1 (raised b2 g delta);  phi_g = atan2 (b2'.e_y) (b2'.e_x);
   gamma_yz = atan2 |b2.e_y + delta| (b2.e_z).  [thr] = 1e-10 is the literal of the source: the guard
   `thr <= vnorm (zproj b1 g)` says the incident beam is not (numerically) parallel to gravity, as
   beam_aligned_unit_vectors demands. *)
From Coq Require Import Reals ZArith String List Lra.
From Verif.Sem Require Import Field Val RInst RLemmas.
From Verif.C04 Require Import SemExt Vec Spec ProofsTrig ProofsGeom ProofsSpec.
From Run Require Import GenUtils GenBeamline Tie TieGeneric.
Import ListNotations.
Open Scope R_scope.

Section P.
Variables h mn : R.
Hypothesis Hh : h > 0.
Hypothesis Hm : mn > 0.
Notation O := (ROps h mn).
Notation vvec v s dm := (VVar O (EVec O (vx v) (vy v) (vz v)) (mkU O s dm) DVec3).
Notation vnum x s dm d := (VVar O (ENum O x None) (mkU O s dm) d).
Notation raised_p b2 s2 g sg lam := (raised (vscal s2 b2) (vscal sg g) (drop h mn (vscal s2 b2) (vscal sg g) lam)).

Theorem C04_drop_formula : forall ds L sL l sl dl (g : V3) sg,
  sL > 0 -> sg > 0 -> is_float dl = true ->
  is_qty h mn (p_drop_due_to_gravity O ds (vnum L sL d_m DF64) (vnum l sl d_m dl) (vvec g sg d_mps2))
         (vnorm (vscal sg g) * (mn * mn) * ((l * sl) * (l * sl)) * ((L * sL) * (L * sL)) / (2 * (h * h))) sL d_m dl.
Proof using Hh Hm. exact (drop_formula h mn Hh Hm). Qed.

Theorem C04_generic_is_construction : forall ds (b1 b2 g : V3) s1 s2 sg l sl dl,
  s1 > 0 -> s2 > 0 -> sg > 0 -> is_float dl = true ->
  thr <= vnorm (zproj b1 g) -> 0 < vnorm g -> 0 < vnorm (raised_p b2 s2 g sg (l * sl)) ->
  exists v1 v2,
    p_scattering_angles_with_gravity_generic O ds (vvec b1 s1 d_m) (vvec b2 s2 d_m) (vnum l sl d_m dl) (vvec g sg d_mps2)
    = VDict O [("two_theta", v1); ("phi", v2)]%string
    /\ is_qty h mn v1 (angle (vscal s1 b1) (raised_p b2 s2 g sg (l * sl))) 1 d_rad dl
    /\ is_qty h mn v2 (atan2 (vdot (raised_p b2 s2 g sg (l * sl)) (e_y (vscal sg g)))
                             (vdot (raised_p b2 s2 g sg (l * sl)) (e_x (vscal s1 b1) (vscal sg g)))) 1 d_rad dl.
Proof using Hh Hm. exact (generic_is_construction h mn Hh Hm). Qed.

Theorem C04_orthogonal_is_construction : forall ds (b1 b2 g : V3) s1 s2 sg l sl dl,
  s1 > 0 -> s2 > 0 -> sg > 0 -> is_float dl = true ->
  thr <= vnorm (zproj b1 g) -> 0 < vnorm g -> vdot g b1 = 0 -> 0 < vnorm (raised_p b2 s2 g sg (l * sl)) ->
  exists v1 v2,
    p_scattering_angles_with_gravity_orthogonal_coords O ds (vvec b1 s1 d_m) (vvec b2 s2 d_m) (vnum l sl d_m dl) (vvec g sg d_mps2)
    = VDict O [("two_theta", v1); ("phi", v2)]%string
    /\ is_qty h mn v1 (two_theta_g h mn (vscal s1 b1) (vscal s2 b2) (l * sl) (vscal sg g)) 1 d_rad dl
    /\ is_qty h mn v2 (phi_g h mn (vscal s1 b1) (vscal s2 b2) (l * sl) (vscal sg g)) 1 d_rad dl.
Proof using Hh Hm. exact (orthogonal_is_construction h mn Hh Hm). Qed.

Theorem C04_paths_agree : forall ds (b1 b2 g : V3) s1 s2 sg l sl dl,
  s1 > 0 -> s2 > 0 -> sg > 0 -> is_float dl = true ->
  thr <= vnorm (zproj b1 g) -> 0 < vnorm g -> 0 < vnorm (raised_p b2 s2 g sg (l * sl)) ->
  vdot g b1 = 0 ->
  p_scattering_angles_with_gravity_generic O ds (vvec b1 s1 d_m) (vvec b2 s2 d_m) (vnum l sl d_m dl) (vvec g sg d_mps2)
  = p_scattering_angles_with_gravity_orthogonal_coords O ds (vvec b1 s1 d_m) (vvec b2 s2 d_m) (vnum l sl d_m dl) (vvec g sg d_mps2).
Proof using Hh Hm. exact (paths_agree h mn Hh Hm). Qed.

(* the public function: one expression — the construction — on both sides of the dispatch threshold *)
Theorem C04_public_is_construction : forall ds (b1 b2 g : V3) s1 s2 sg l sl dl,
  s1 > 0 -> s2 > 0 -> sg > 0 -> is_float dl = true ->
  thr <= vnorm (zproj b1 g) -> 0 < vnorm g -> 0 < vnorm (raised_p b2 s2 g sg (l * sl)) ->
  vdot g b1 = 0 \/ thr * vnorm g < Rabs (vdot g b1) ->
  exists v1 v2,
    scattering_angles_with_gravity O ds (vvec b1 s1 d_m) (vvec b2 s2 d_m) (vnum l sl d_m dl) (vvec g sg d_mps2)
    = VDict O [("two_theta", v1); ("phi", v2)]%string
    /\ is_qty h mn v1 (two_theta_g h mn (vscal s1 b1) (vscal s2 b2) (l * sl) (vscal sg g)) 1 d_rad dl
    /\ is_qty h mn v2 (phi_g h mn (vscal s1 b1) (vscal s2 b2) (l * sl) (vscal sg g)) 1 d_rad dl.
Proof using Hh Hm. exact (public_is_construction h mn Hh Hm). Qed.

(* continuity in the tilt, PARTIAL: inside the band 0 < |g.b1| <= 1e-10 |g| the optimised path is taken for
   a beam that is not exactly perpendicular; what it returns there is the angle of the raised beam to the
   HORIZONTAL direction e_z of the incident beam (phi is exact).  Missing for full continuity: the (true)
   bound |angle(e_z, c) - angle(b1, c)| <= angle(e_z, b1) <= 1e-10, not proved here; the correspondence
   run measures it. *)
Theorem C04_public_in_band_partial : forall ds (b1 b2 g : V3) s1 s2 sg l sl dl,
  s1 > 0 -> s2 > 0 -> sg > 0 -> is_float dl = true ->
  thr <= vnorm (zproj b1 g) -> 0 < vnorm g -> 0 < vnorm (raised_p b2 s2 g sg (l * sl)) ->
  Rabs (vdot g b1) <= thr * vnorm g ->
  exists v1 v2,
    scattering_angles_with_gravity O ds (vvec b1 s1 d_m) (vvec b2 s2 d_m) (vnum l sl d_m dl) (vvec g sg d_mps2)
    = VDict O [("two_theta", v1); ("phi", v2)]%string
    /\ is_qty h mn v1 (angle (e_z b1 g) (raised_p b2 s2 g sg (l * sl))) 1 d_rad dl
    /\ is_qty h mn v2 (phi_g h mn (vscal s1 b1) (vscal s2 b2) (l * sl) (vscal sg g)) 1 d_rad dl.
Proof using Hh Hm.
  intros ds b1 b2 g s1 s2 sg l sl dl Hs1 Hs2 Hsg Hdl Hz Hg Hc Hb.
  rewrite (dispatch_orthogonal h mn) by exact Hb.
  exact (orthogonal_value h mn Hh Hm ds b1 b2 g s1 s2 sg l sl dl Hs1 Hs2 Hsg Hdl Hz Hg Hc).
Qed.

Theorem C04_limit_no_gravity : forall ds (b1 b2 g : V3) s1 s2 sg sl dl,
  s1 > 0 -> s2 > 0 -> sg > 0 -> is_float dl = true ->
  thr <= vnorm (zproj b1 g) -> 0 < vnorm g -> 0 < vnorm b2 ->
  vdot g b1 = 0 \/ thr * vnorm g < Rabs (vdot g b1) ->
  exists v1 v2,
    scattering_angles_with_gravity O ds (vvec b1 s1 d_m) (vvec b2 s2 d_m) (vnum 0 sl d_m dl) (vvec g sg d_mps2)
    = VDict O [("two_theta", v1); ("phi", v2)]%string
    /\ is_qty h mn v1 (angle (vscal s1 b1) (vscal s2 b2)) 1 d_rad dl.
Proof using Hh Hm. exact (limit_no_gravity h mn Hh Hm). Qed.
(* ... and delta itself vanishes with the wavelength and with the strength of gravity *)
Theorem C04_delta_vanishes : forall gn lam L, delta h mn gn 0 L = 0 /\ delta h mn 0 lam L = 0.
Proof using. intros; split; [apply delta_zero_wavelength | apply delta_zero_gravity]. Qed.

Theorem C04_raised_beam_larger : forall ds (b1 b2 g : V3) s1 s2 sg l sl dl,
  s1 > 0 -> s2 > 0 -> sg > 0 -> sl > 0 -> l > 0 -> is_float dl = true ->
  thr <= vnorm (zproj b1 g) -> 0 < vnorm g ->
  vdot g b1 = 0 -> 0 < vdot b2 (e_y g) -> 0 < vdot b1 b2 ->
  exists v1 v2 th_g th_free,
    scattering_angles_with_gravity O ds (vvec b1 s1 d_m) (vvec b2 s2 d_m) (vnum l sl d_m dl) (vvec g sg d_mps2)
    = VDict O [("two_theta", v1); ("phi", v2)]%string
    /\ is_qty h mn v1 th_g 1 d_rad dl
    /\ is_qty h mn (two_theta O (vvec b1 s1 d_m) (vvec b2 s2 d_m)) th_free 1 d_rad DF64
    /\ th_free < th_g.
Proof using Hh Hm. exact (raised_beam_larger h mn Hh Hm). Qed.

Theorem C04_yz_plane_formula : forall ds (b1 b2 g : V3) s1 s2 sg l sl dl,
  s1 > 0 -> s2 > 0 -> sg > 0 -> is_float dl = true ->
  thr <= vnorm (zproj b1 g) -> 0 < vnorm g ->
  Rabs (vdot g b1) <= thr * vnorm g ->
  is_qty h mn (scattering_angle_in_yz_plane O ds (vvec b1 s1 d_m) (vvec b2 s2 d_m) (vnum l sl d_m dl) (vvec g sg d_mps2))
         (atan2 (Rabs (vdot (vscal s2 b2) (e_y (vscal sg g)) + drop h mn (vscal s2 b2) (vscal sg g) (l * sl)))
                (vdot (vscal s2 b2) (e_z (vscal s1 b1) (vscal sg g)))) 1 d_rad dl.
Proof using Hh Hm. exact (yz_plane_formula h mn Hh Hm). Qed.

Theorem C04_yz_plane_refuses_nonorthogonal : forall ds (b1 b2 g : V3) s1 s2 sg (wl : val O),
  thr * vnorm g < Rabs (vdot g b1) ->
  scattering_angle_in_yz_plane O ds (vvec b1 s1 d_m) (vvec b2 s2 d_m) wl (vvec g sg d_mps2) = VErr O "ValueError".
Proof using. exact (yz_plane_refuses_nonorthogonal h mn). Qed.
End P.

(* F1 — the beam LOWERED along gravity (what the general path fed to two_theta before the repair) is not the
   construction: a witness (horizontal beam, g = (0,-9.81,0), b2 = (0.3,0.4,2), drop 1e-4) where it lies
   BELOW the gravity-free angle while the construction lies ABOVE it *)
Theorem C04_generic_sign_refuted :
  exists b1 b2 g d, 0 < vnorm g /\ vdot g b1 = 0 /\ 0 < d /\
    angle b1 (lowered b2 g d) < angle b1 b2 < angle b1 (raised b2 g d).
Proof. exact generic_sign_refuted. Qed.

(* the hypotheses are satisfiable (horizontal beam along z, gravity along -y, detector up and downstream) *)
Example C04_nonvacuous :
  thr <= vnorm (zproj w_b1 w_g) /\ 0 < vnorm w_g /\ vdot w_g w_b1 = 0 /\ 0 < vdot w_b2 (e_y w_g) /\ 0 < vdot w_b1 w_b2.
Proof.
  assert (Hg : 0 < vnorm w_g) by (rewrite w_g_norm; lra).
  assert (Hh : vdot w_g w_b1 = 0) by (unfold vdot, w_g, w_b1; cbn [vx vy vz]; ring).
  repeat split; try assumption.
  - rewrite zproj_horizontal by assumption. unfold vnorm, w_b1, thr; cbn [vx vy vz].
    replace (0 * 0 + 0 * 0 + 1 * 1) with 1 by ring. rewrite sqrt_1. lra.
  - rewrite w_ey. unfold vdot, w_b2; cbn [vx vy vz]. lra.
  - unfold vdot, w_b1, w_b2; cbn [vx vy vz]. lra.
Qed.

(* ... including "the raised beam is not the zero vector", for every h, m_n > 0 and wavelength *)
Example C04_nonvacuous_raised : forall h mn l, h > 0 -> mn > 0 ->
  0 < vnorm (raised (vscal 1 w_b2) (vscal 1 w_g) (drop h mn (vscal 1 w_b2) (vscal 1 w_g) l)).
Proof.
  intros h mn l Hh Hm. rewrite !vscal_one.
  assert (Hg : 0 < vnorm w_g) by (rewrite w_g_norm; lra).
  apply raised_nonzero_above; try assumption.
  - apply vnorm_pos_iff. unfold vsq, w_b2; cbn [vx vy vz]. lra.
  - rewrite w_ey. unfold vdot, w_b2; cbn [vx vy vz]. lra.
  - unfold drop. apply delta_nonneg; try assumption. apply vnorm_nonneg.
Qed.

Print Assumptions C04_drop_formula.
Print Assumptions C04_generic_is_construction.
Print Assumptions C04_orthogonal_is_construction.
Print Assumptions C04_paths_agree.
Print Assumptions C04_public_is_construction.
Print Assumptions C04_public_in_band_partial.
Print Assumptions C04_limit_no_gravity.
Print Assumptions C04_delta_vanishes.
Print Assumptions C04_raised_beam_larger.
Print Assumptions C04_yz_plane_formula.
Print Assumptions C04_yz_plane_refuses_nonorthogonal.
Print Assumptions C04_generic_sign_refuted.
