(* C04/Corr.v — executable side of the correspondence run.
   (1) MODEL: the functions REGENERATED from beamline.py on this run, instantiated at exact rationals
       (QOps: + - * / exact, sqrt / atan2 to 2^-140), run on the operands exactly as the implementation
       stored them, compared with the implementation's result (absolute tolerance on angles).
   (2) SPEC: the documented construction written independently over Q (angle as atan2(|b1 x c|, b1.c)),
       compared with the implementation as well; [gband] widens the tolerance for incident beams inside
       the dispatch band 0 < |g.b1| <= 1e-10 |g| where the optimised path is an approximation.
   Definitions only. *)
From Coq Require Import QArith Qabs ZArith String List Bool.
From Verif.Sem Require Import Field Val QInst Corr.
From Verif.C04 Require Import SemExt.
From Run Require Import GenUtils GenBeamline.
Import ListNotations.
Open Scope string_scope.
Open Scope Q_scope.

Record vin := mkvin { wx : Q; wy : Q; wz : Q; wsc : Q; wdm : dims }.
Record gcase := mkg { gfn : string; gds : bool; gb1 : vin; gb2 : vin; gwl : inp; gg : vin;
                      go1 : outcome; go2 : outcome; gtol : Q; gband : Q;
                      (* small angles (detectors close to the beam axis): RELATIVE accuracy [grel] w.r.t. the size of
                         the quantities the angle is assembled from, never tighter than [gfloor] (rounding of the frame
                         dot products); phi: the absolute tolerance is widened by [gphi]/rho where the raised beam is
                         within rho < gphi (sine) of the e_z axis, where atan2(y', x) is ill-conditioned *)
                      grel : Q; gfloor : Q; gphi : Q }.

(* ---- the arithmetic the regenerated functions are run with: QInst's operations, every result rounded
   to 160 significant bits (qr below).  Exact rationals are hopeless here: each sqrt contributes a
   140-bit denominator and the frame / Kahan computations nest six of them (14 s per case); the
   accumulated relative error of the rounded arithmetic is below 1e-60, against tolerances >= 1e-13. *)
(* keep 160 significant bits; power-of-two denominators, no gcd normalisation *)
Definition zdivd (a d : Z) : Z :=          (* a / d, by a shift when d is a power of two *)
  let ld := Z.log2 d in if (d =? Z.shiftl 1 ld)%Z then Z.shiftr a ld else (a / d)%Z.
Definition qr (q : Q) : Q :=
  let n := Qnum q in
  if (n =? 0)%Z then 0
  else let d := Zpos (Qden q) in
       let s := (160 - (Z.log2 (Z.abs n) - Z.log2 d))%Z in
       if (0 <=? s)%Z then Qmake (zdivd (Z.shiftl n s) d) (Z.to_pos (Z.shiftl 1 s))
       else (Z.shiftl (n / (Z.shiftl d (- s))) (- s)) # 1.
(* square root to ~160 significant bits (truncated) *)
Definition qsqrt2 (q : Q) : Q :=
  if Qle_bool q 0 then 0
  else let n := Qnum q in let d := Zpos (Qden q) in
       let t := Z.max 0 (160 - (Z.log2 n - Z.log2 d) / 2)%Z in
       Qmake (Z.sqrt (zdivd (Z.shiftl n (2 * t)) d)) (Z.to_pos (Z.shiftl 1 t)).
Definition QROps (h mn : Q) : Fops :=
  mkFops Q (fun a b => qr (a + b)) (fun a b => qr (a - b)) (fun a b => qr (a * b)) (fun a b => qr (a / b))
         Qopp (fun z => z # 1) (fun a => qsqrt2 (qr a)) qsin qcos (fun y x => qr (qatan2 y x)) qasin qexp Qabs qpi
         qleb qltb qeqb qclose h mn qrint.

(* ---- independent specification over Q (physical values), same rounded arithmetic *)
Definition rmul (a b : Q) := qr (a * b).
Definition radd (a b : Q) := qr (a + b).
Definition rsub (a b : Q) := qr (a - b).
Definition rdiv (a b : Q) := qr (a / b).
Definition rsqrt (a : Q) := qsqrt2 (qr a).
Definition q3 := (Q * Q * Q)%type.
Definition phys (v : vin) : q3 := (rmul (wx v) (wsc v), rmul (wy v) (wsc v), rmul (wz v) (wsc v)).
Definition d3 (a b : q3) : Q := let '(a1, a2, a3) := a in let '(b1, b2, b3) := b in radd (radd (rmul a1 b1) (rmul a2 b2)) (rmul a3 b3).
Definition n3 (a : q3) : Q := rsqrt (d3 a a).
Definition s3 (k : Q) (a : q3) : q3 := let '(a1, a2, a3) := a in (rmul k a1, rmul k a2, rmul k a3).
Definition add3 (a b : q3) : q3 := let '(a1, a2, a3) := a in let '(b1, b2, b3) := b in (radd a1 b1, radd a2 b2, radd a3 b3).
Definition sub3 (a b : q3) : q3 := add3 a (s3 (-1) b).
Definition cross3 (a b : q3) : q3 :=
  let '(a1, a2, a3) := a in let '(b1, b2, b3) := b in
  (rsub (rmul a2 b3) (rmul a3 b2), rsub (rmul a3 b1) (rmul a1 b3), rsub (rmul a1 b2) (rmul a2 b1)).

Section Spec.
Variables h mn : Q.
Definition sp_ey (g : q3) : q3 := s3 (rdiv (-1) (n3 g)) g.
Definition sp_ez (b1 g : q3) : q3 :=
  let ey := sp_ey g in let z := sub3 b1 (s3 (d3 b1 ey) ey) in s3 (rdiv 1 (n3 z)) z.
Definition sp_delta (b2 g : q3) (lam : Q) : Q :=
  rdiv (rmul (rmul (rmul (n3 g) (rmul mn mn)) (rmul lam lam)) (d3 b2 b2)) (rmul 2 (rmul h h)).
Definition sp_raised (b2 g : q3) (lam : Q) : q3 := add3 b2 (s3 (sp_delta b2 g lam) (sp_ey g)).
Definition sp_two_theta (b1 b2 g : q3) (lam : Q) : Q :=
  let c := sp_raised b2 g lam in qatan2 (n3 (cross3 b1 c)) (d3 b1 c).
Definition sp_phi (b1 b2 g : q3) (lam : Q) : Q :=
  let c := sp_raised b2 g lam in qatan2 (d3 c (sp_ey g)) (d3 c (cross3 (sp_ey g) (sp_ez b1 g))).
Definition sp_gamma (b1 b2 g : q3) (lam : Q) : Q :=
  qatan2 (Qabs (radd (d3 b2 (sp_ey g)) (sp_delta b2 g lam))) (d3 b2 (sp_ez b1 g)).
(* conditioning scales.  two_theta: tan(gravity-free angle) + drop angle (>= the exact angle, forward
   hemisphere only); gamma: (|y_d| + delta) / z_d; phi: sine of the angle between the raised beam and e_z *)
Definition sp_scale_tt (b1 b2 g : q3) (lam : Q) : option Q :=
  let c := d3 b1 b2 in
  if Qle_bool c 0 then None
  else Some (radd (rdiv (n3 (cross3 b1 b2)) c) (rdiv (sp_delta b2 g lam) (n3 b2))).
Definition sp_scale_gamma (b1 b2 g : q3) (lam : Q) : option Q :=
  let z := d3 b2 (sp_ez b1 g) in
  if Qle_bool z 0 then None
  else Some (rdiv (radd (Qabs (d3 b2 (sp_ey g))) (sp_delta b2 g lam)) z).
Definition sp_rho_phi (b1 b2 g : q3) (lam : Q) : Q :=
  let c := sp_raised b2 g lam in
  let y := d3 c (sp_ey g) in let x := d3 c (cross3 (sp_ey g) (sp_ez b1 g)) in
  rdiv (rsqrt (radd (rmul y y) (rmul x x))) (n3 c).
End Spec.

(* effective tolerances *)
Definition qmin' (a b : Q) : Q := if Qle_bool a b then a else b.
Definition qmax' (a b : Q) : Q := if Qle_bool a b then b else a.
Definition tol_small (tol rel floor : Q) (scale : option Q) : Q :=
  match scale with
  | Some s => qmin' tol (qmax' (rel * s) floor)
  | None => tol
  end.
Definition tol_phi (tol c0 rho : Q) : Q :=
  if Qle_bool rho 0 then 1000            (* raised beam ON the e_z axis: phi is not defined *)
  else if Qle_bool c0 rho then tol else rdiv (rmul tol c0) rho.

Section D.
Variables h mn : Q.
Notation O := (QROps h mn).
Definition vv (v : vin) : val O := VVar O (EVec O (wx v) (wy v) (wz v)) (mkU O (wsc v) (wdm v)) DVec3.
Definition qv' (i : inp) : val O := mkv O i qid.

(* absolute comparison of an angle (model or spec value x in rad) with what the implementation returned *)
Definition cmp_angle (x : Q) (dt : option dtype) (o : outcome) (tol : Q) : string :=
  match o with
  | OutVal v sc dm dt' =>
      if negb (deqb dm d_rad) then "unit-dimension"
      else if negb (rel_close sc 1 (1 # 1000000000000)) then "unit-multiplier"
      else if match dt with Some d => negb (dtype_eqb d dt') | None => false end then "dtype"
      else if abs_close (v * sc) x tol then "" else "value"
  | OutNaN _ _ _ => "impl-NaN"
  | OutInf _ _ _ => "impl-infinite"
  | OutErr cls => "impl-raises-" ++ cls
  | _ => "shape"
  end.
Definition cmp_model (m : val O) (o : outcome) (tol : Q) : string :=
  match m, o with
  | VVar _ (ENum _ x _) u d, OutVal _ _ _ _ =>
      if negb (deqb (ud _ u) d_rad) then "model-unit" else cmp_angle (qmul x (us _ u)) (Some d) o tol
  | VErr _ e, OutErr cls => if String.eqb e cls then "" else "error-class:model=" ++ e ++ ",impl=" ++ cls
  | VErr _ e, _ => "model-raises-" ++ e
  | _, OutErr cls => "impl-raises-" ++ cls
  | _, _ => "shape"
  end.
Definition tag (t r : string) : string := if String.eqb r "" then "" else t ++ r.
Definition first_of (l : list string) : string :=
  fold_right (fun r acc => if String.eqb r "" then acc else r) "" l.

Definition check (c : gcase) : string :=
  let b1 := vv (gb1 c) in let b2 := vv (gb2 c) in let g := vv (gg c) in let wl := qv' (gwl c) in
  let lam := qmul (iv (gwl c)) (isc (gwl c)) in
  let p1 := phys (gb1 c) in let p2 := phys (gb2 c) in let pg := phys (gg c) in
  if String.eqb (gfn c) "sawg" then
    match scattering_angles_with_gravity O (gds c) b1 b2 wl g with
    | VDict _ [(_, m1); (_, m2)] =>
        let t1 := tol_small (gtol c) (grel c) (gfloor c) (sp_scale_tt h mn p1 p2 pg lam) in
        let t2 := tol_phi (gtol c) (gphi c) (sp_rho_phi h mn p1 p2 pg lam) in
        first_of [ tag "model:two_theta:" (cmp_model m1 (go1 c) t1);
                   tag "model:phi:" (cmp_model m2 (go2 c) t2);
                   tag "spec:two_theta:" (cmp_angle (sp_two_theta h mn p1 p2 pg lam) None (go1 c) (t1 + gband c));
                   tag "spec:phi:" (cmp_angle (sp_phi h mn p1 p2 pg lam) None (go2 c) (t2 + gband c)) ]
    | VErr _ e => match go1 c with OutErr cls => if String.eqb e cls then "" else "error-class:model=" ++ e ++ ",impl=" ++ cls
                               | _ => "model-raises-" ++ e end
    | _ => "model-shape"
    end
  else if String.eqb (gfn c) "yz" then
    let m := scattering_angle_in_yz_plane O (gds c) b1 b2 wl g in
    match m with
    | VErr _ _ => cmp_model m (go1 c) (gtol c)
    | _ => let t1 := tol_small (gtol c) (grel c) (gfloor c) (sp_scale_gamma h mn p1 p2 pg lam) in
           first_of [ tag "model:gamma:" (cmp_model m (go1 c) t1);
                      tag "spec:gamma:" (cmp_angle (sp_gamma h mn p1 p2 pg lam) None (go1 c) t1) ]
    end
  else if String.eqb (gfn c) "drop" then
    (* _drop_due_to_gravity(distance = |b2|, wavelength, gravity): relative comparison, unit of distance *)
    match p_drop_due_to_gravity O (gds c) (sc_norm O b2) wl g, go1 c with
    | VVar _ (ENum _ x _) u d, OutVal v sc dm dt =>
        if negb (deqb (ud _ u) dm) then "unit-dimension"
        else if negb (rel_close (us _ u) sc (1 # 1000000000)) then "unit-multiplier"
        else if negb (dtype_eqb d dt) then "dtype"
        else if rel_close (v * sc) (x * us _ u) (gtol c) then "" else "value"
    | VErr _ e, OutErr cls => ""
    | VErr _ e, _ => "model-raises-" ++ e
    | _, _ => "shape"
    end
  else "unknown-function".
End D.
