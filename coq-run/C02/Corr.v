(* C02/Corr.v — the comparison used by the correspondence shards: the model is
   the program regenerated on this run. *)
From Coq Require Import String List NArith.
From Verif.C02 Require Import Syntax Model Spec Check CorrLib.
From Run Require Import GenGraph.
Import ListNotations.
Open Scope string_scope.

Definition run_shard (T : tables) (groups : list grp) : string := report (map (check_grp T prog) groups).
Definition search_shard (o : string) (g : list string) (limit : nat) : list string := failures_group prog o g limit.
