(* C02/Properties.v — the property theorems (nothing else), each closed by a
   lemma of Verif.C02.Proofs instantiated with the program regenerated from
   /repo on this run (Run.GenGraph.prog) and with Tie.groups_ok, the exhaustive
   vm_compute enumeration of this run.

   Reading guide.  A configuration c = (origin c_o, target c_t, scatter c_sc,
   extras c_x, subset c_p of the 11 geometry/energy names as a bit mask);
   [in_space c]: origin one of the 4, target one of the 24 enumerated names,
   c_p < 2^11.  [present c] = the coordinate names on the data.
   [outcome prog c] is the result of the regenerated `convert` on such data
   (interpreter Model.eval, transform_coords as modelled in Model.resolve):
   [Ok (VTree tr)] = converted, tr = how the target was obtained;
   [Exc cls arg] = raised.  [selected_mode] / [reported] are the results of
   the regenerated `_deduce_energy_mode` / `deduce_conversion_graph`;
   [snd (run prog c)] lists the graphs convert handed to transform_coords. *)
From Coq Require Import String List NArith Bool.
From Verif.C02 Require Import Syntax Model Spec Check Proofs.
From Run Require Import GenGraph Tie.
Import ListNotations.
Open Scope string_scope.

(* convert either converts or raises RuntimeError — never KeyError, a stuck model, or exhausted fuel *)
Theorem convert_total : forall c, in_space c ->
  (exists tr, outcome prog c = Ok (VTree tr)) \/ (exists msg, outcome prog c = Exc "RuntimeError" (VStr msg)).
Proof. exact (total prog groups_ok). Qed.

(* the energy mode is refused exactly in the documented situations (spec_mode = None), and then convert
   raises RuntimeError; otherwise the mode is the documented one and convert succeeds IFF the target is in
   the least set derivable from the supplied coordinates under the documented rules of that mode *)
Theorem convert_iff_derivable : forall c, in_space c ->
  match spec_mode (present c) (c_o c) (c_t c) with
  | None =>
      (exists msg, selected_mode prog c = Exc "RuntimeError" (VStr msg)) /\
      (exists msg, outcome prog c = Exc "RuntimeError" (VStr msg))
  | Some m =>
      selected_mode prog c = Ok (VStr (mode_name m)) /\
      ((exists tr, outcome prog c = Ok (VTree tr)) <->
       Derivable (spec_rules (c_sc c) m (c_o c)) (present c) (c_t c))
  end.
Proof. exact (iff_derivable prog groups_ok). Qed.

(* every leaf of the derivation is a supplied coordinate, no supplied coordinate is recomputed,
   and the derivation is one of the target *)
Theorem supplied_takes_precedence : forall c tr, in_space c -> outcome prog c = Ok (VTree tr) ->
  (forall n, In n (leaves tr) -> In n (present c)) /\
  (forall n, In n (computed tr) -> ~ In n (present c)) /\
  In (c_t c) (root_names tr).
Proof. exact (precedence prog groups_ok). Qed.

(* energy_transfer uses the direct kernel iff incident_energy is supplied and the indirect one iff
   final_energy is (never both); no other conversion uses them; and when either is supplied no
   derivation produces or consumes the elastic coordinate `energy` *)
Theorem mode_is_right : forall c tr, in_space c -> outcome prog c = Ok (VTree tr) ->
  let ie := In "incident_energy" (present c) in
  let fe := In "final_energy" (present c) in
  (c_t c = "energy_transfer" ->
     (In direct_kernel (kernels tr) <-> ie) /\ (In indirect_kernel (kernels tr) <-> fe) /\ ~ (ie /\ fe)) /\
  (c_t c <> "energy_transfer" -> ~ In direct_kernel (kernels tr) /\ ~ In indirect_kernel (kernels tr)) /\
  (ie \/ fe -> ~ In "energy" (leaves tr ++ computed tr)).
Proof. exact (mode_right prog groups_ok). Qed.

(* "matches the formulas", structurally: every step of the derivation applies the DOCUMENTED kernel for its
   outputs (Spec.spec_krules) to derivations of exactly its documented inputs; with the kernel theorems of
   C01 / C03 / C05 this is the documented formula tree.  (The numeric value is additionally compared with the
   closed formulas on the implementation by the correspondence run.) *)
Theorem derivation_is_documented : forall c tr m, in_space c -> outcome prog c = Ok (VTree tr) ->
  spec_mode (present c) (c_o c) (c_t c) = Some m ->
  Documented (spec_krules (c_sc c) m (c_o c)) tr.
Proof. exact (documented prog groups_ok). Qed.

(* the graph deduce_conversion_graph reports is the one and only graph convert hands to
   transform_coords; if the former raises, convert raises the same exception before transforming *)
Theorem reported_graph_is_used : forall c, in_space c ->
  (forall g, reported prog c = Ok g -> snd (run prog c) = [g]) /\
  (forall cls a, reported prog c = Exc cls a -> run prog c = (Exc cls a, [])).
Proof. exact (reported_is_used prog groups_ok). Qed.

(* ---- the hypotheses are satisfiable, the conclusions are not vacuous *)
(* tests/convert_test.py::test_convert_tof_to_dspacing: tof + Ltotal (bit 7) + two_theta (bit 8) *)
Definition ex_dspacing := mkcfg "tof" "dspacing" true false 384.
Example ex_dspacing_in_space : in_space ex_dspacing.
Proof. unfold in_space, ex_dspacing; simpl; repeat split; auto 30. Qed.
Example ex_dspacing_converts :
  outcome prog ex_dspacing = Ok (VTree (Node "tof.dspacing_from_tof" ["dspacing"] [Leaf "tof"; Leaf "Ltotal"; Leaf "two_theta"])).
Proof. vm_compute. reflexivity. Qed.
(* the same from positions only (bits 0,1,2): the whole beamline is derived *)
Example ex_dspacing_from_positions : exists tr,
  outcome prog (mkcfg "tof" "dspacing" true false 7) = Ok (VTree tr) /\ List.length (kernels tr) = 9%nat.
Proof. eexists. split; vm_compute; reflexivity. Qed.
(* direct geometry: L1 (bit 5), L2 (bit 6), incident_energy (bit 9) *)
Example ex_direct :
  outcome prog (mkcfg "tof" "energy_transfer" true false 608)
  = Ok (VTree (Node direct_kernel ["energy_transfer"] [Leaf "tof"; Leaf "L1"; Leaf "L2"; Leaf "incident_energy"])).
Proof. vm_compute. reflexivity. Qed.
(* both energies supplied: refused *)
Example ex_ambiguous :
  spec_mode (present (mkcfg "tof" "energy_transfer" true false 1632)) "tof" "energy_transfer" = None /\
  outcome prog (mkcfg "tof" "energy_transfer" true false 1632)
  = Exc "RuntimeError" (VStr "Data contains coords for incident *and* final energy, cannot have both for inelastic scattering.").
Proof. split; vm_compute; reflexivity. Qed.
(* a supplied Ltotal is used although L1 and L2 are there as well *)
Example ex_precedence :
  outcome prog (mkcfg "tof" "wavelength" true false 224)
  = Ok (VTree (Node "tof.wavelength_from_tof" ["wavelength"] [Leaf "tof"; Leaf "Ltotal"])).
Proof. vm_compute. reflexivity. Qed.
Example ex_reported : exists g, reported prog ex_dspacing = Ok (VDict g) /\ List.length g = 16%nat.
Proof. eexists. split; vm_compute; reflexivity. Qed.

Print Assumptions convert_total.
Print Assumptions convert_iff_derivable.
Print Assumptions supplied_takes_precedence.
Print Assumptions mode_is_right.
Print Assumptions derivation_is_documented.
Print Assumptions reported_graph_is_used.
