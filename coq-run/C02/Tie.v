(* C02/Tie.v — obligations on the program REGENERATED from /repo on this run
   (Run.GenGraph, written by tools/graph2coq.py).

   The exhaustive enumeration — 4 origins x 24 targets x scatter x extras x all
   2^11 subsets — is cut into 24 shards Run.Enum_<origin>_<group>, each holding
   one statement  `check_group prog <origin> <group of 4 targets> = true`  named
   ok, closed by vm_cast_no_check (eq_refl true) — the kernel evaluates the
   check with its VM at Qed — written (origin and group spelled out) and
   compiled in parallel by props/C02.py:pre_build on this run.  Here they are put
   together, and the tables of the code are compared with the configuration
   space of the specification. *)
From Coq Require Import String List NArith Bool.
From Verif.C02 Require Import Syntax Model Spec Check Proofs.
From Run Require Import GenGraph.
From Run Require Enum_0_0 Enum_0_1 Enum_0_2 Enum_0_3 Enum_0_4 Enum_0_5 Enum_1_0 Enum_1_1 Enum_1_2 Enum_1_3 Enum_1_4 Enum_1_5 Enum_2_0 Enum_2_1 Enum_2_2 Enum_2_3 Enum_2_4 Enum_2_5 Enum_3_0 Enum_3_1 Enum_3_2 Enum_3_3 Enum_3_4 Enum_3_5.
Import ListNotations.
Open Scope string_scope.

Lemma groups_ok : forall o g, In o origins -> In g target_groups -> check_group prog o g = true.
Proof.
  intros o g Ho Hg. unfold origins in Ho. unfold target_groups in Hg. cbn [In] in Ho, Hg.
  destruct Ho as [<- | [<- | [<- | [<- | []]]]]; destruct Hg as [<- | [<- | [<- | [<- | [<- | [<- | []]]]]]].
  - exact Enum_0_0.ok.
  - exact Enum_0_1.ok.
  - exact Enum_0_2.ok.
  - exact Enum_0_3.ok.
  - exact Enum_0_4.ok.
  - exact Enum_0_5.ok.
  - exact Enum_1_0.ok.
  - exact Enum_1_1.ok.
  - exact Enum_1_2.ok.
  - exact Enum_1_3.ok.
  - exact Enum_1_4.ok.
  - exact Enum_1_5.ok.
  - exact Enum_2_0.ok.
  - exact Enum_2_1.ok.
  - exact Enum_2_2.ok.
  - exact Enum_2_3.ok.
  - exact Enum_2_4.ok.
  - exact Enum_2_5.ok.
  - exact Enum_3_0.ok.
  - exact Enum_3_1.ok.
  - exact Enum_3_2.ok.
  - exact Enum_3_3.ok.
  - exact Enum_3_4.ok.
  - exact Enum_3_5.ok.
Qed.

Lemma all_configurations_checked : forall c, in_space c -> check prog c = true.
Proof. exact (check_all prog groups_ok). Qed.

(* ---- the configuration space of the specification against the tables of the code *)
Definition table_keys (q : string) : list val :=
  match fst (interp [] (eval prog FUEL [] (EGlobal q)) []) with
  | Ok (VDict kv) => map fst kv
  | _ => []
  end.
Definition out_names (q : string) : list string :=
  flat_map (fun k => match key_names k with Some l => l | None => ["<bad key>"] end) (table_keys q).
Definition dynamics_tables : list val :=
  match fst (interp [] (eval prog FUEL [] (EGlobal "graph.tof._GRAPH_DYNAMICS_BY_ORIGIN")) []) with
  | Ok (VDict kv) => map snd kv
  | _ => []
  end.
Definition dynamics_out_names : list string :=
  flat_map (fun v => match v with
                     | VDict kv => flat_map (fun k => match key_names k with Some l => l | None => ["<bad key>"] end) (map fst kv)
                     | _ => ["<bad table>"]
                     end) dynamics_tables.

(* the "4 origins" of the property are exactly the keys of _GRAPH_DYNAMICS_BY_ORIGIN *)
Lemma origins_are_the_table_keys :
  table_keys "graph.tof._GRAPH_DYNAMICS_BY_ORIGIN" = map VStr origins.
Proof. vm_compute. reflexivity. Qed.

(* every coordinate some table of the code can produce is one of the enumerated targets *)
Lemma every_table_output_is_a_target :
  forallb (mem targets)
    (dynamics_out_names ++ out_names "graph.beamline._SCATTER_GRAPH_BEAMLINE"
     ++ out_names "graph.beamline._NO_SCATTER_GRAPH_BEAMLINE" ++ ["energy_transfer"])%list = true
  /\ dynamics_out_names <> [].
Proof. split; [vm_compute; reflexivity | vm_compute; discriminate]. Qed.
