(* C19/Corr.v — compiled on every run.  How one observation of the REAL
   find_plateaus / collapse_plateaus / filter_in_phase is compared, inside Coq,
   with the executable model of Verif.C19.Model:

   * the run structure and the contents of the bins: binary64 instance of the model
     (FF / ZF: the slope and the test abs(slope) > atol are the IEEE operations, so
     a slope exactly AT the tolerance is decided as the implementation decides it);
     bins must be equal point for point (coordinates and values unchanged);
   * when the exact-rational decision of every slope agrees with the binary64 one
     (flag qsame, computed by the generator) the exact instance QQ must give the
     same bins too;
   * the total-drift guard: exact rationals, with a relative band of 1e-9 around the
     bound inside which either outcome is accepted (scipp's mean is not a
     left-to-right sum);
   * collapse: edges bit-exact (min, next-after max / +1), every point inside
     [low, high), mean within 1e-12 (relative to the mean magnitude) of the exact mean;
   * filter_in_phase: binary64 instance bit-exact, exact instance when qsame;
   * float32 data (Corr32.v: also float32 coordinates): the guard band is 5e-5 and the
     mean tolerance (n + 2) * 2^-24 of the mean magnitude (any summation order in binary32);
   * CaseColF / CaseColZ: collapse_plateaus called (again) on a plateau array whose
     CURRENT content (after in-place updates) is [bins]: same comparison of the edges,
     the interval and the mean (call histories);
   * ObsAtt: series that carry ATTACHMENTS (variances of the data, a mask, a further
     coordinate along the series).  Every returned bin must hold, for each of its points,
     the attachments of that input point unchanged: the observed attachments of the bins are
     compared with [plateau_bins] of the SAME flags applied to the list of input attachments
     (Verif.C19.ProofsAtt.attachments_travel: that is the projection of the bins of the
     points taken together with their attachments).  collapse_plateaus = scipp's bins.mean:
     the mean over the points that are NOT masked (NaN when all are masked), its variance
     sum(var) / n^2 over the same points (compared to 4 x the mean tolerance, relative),
     variances present iff the input has them; the interval still holds ALL points. *)
From Coq Require Import List ZArith QArith Qabs String Bool PrimFloat.
From Verif.Sem Require Import Corr.
From Verif.C19 Require Import Carrier Model.
Import ListNotations.
Open Scope string_scope.

Inductive pobs (Cd : Type) :=
| ObsErr (cls : string)
| ObsBins (bins : list (list (Cd * float))) (collapsed : list (float * Cd * Cd))
| ObsAtt (bins : list (list (Cd * float))) (collapsed : list (float * Cd * Cd))
         (att_in : list (float * bool * bool * list Z))                 (* per input point *)
         (att_bins : list (list (float * bool * bool * list Z)))        (* per returned bin, per point *)
         (col_var : list (bool * float)).                               (* per collapsed plateau: has variance, variance *)
Arguments ObsErr {Cd}.
Arguments ObsBins {Cd}.
Arguments ObsAtt {Cd}.

(* what travels with a point besides (coordinate, value):
   (variance (0 when absent), has variance, masked, [has mask; has further coordinate; its value]) *)
Definition att := (float * bool * bool * list Z)%type.
Definition att_var (a : att) : float := fst (fst (fst a)).
Definition att_hasvar (a : att) : bool := snd (fst (fst a)).
Definition att_masked (a : att) : bool := snd (fst a).
Definition att_rest (a : att) : list Z := snd a.
Fixpoint zlist_eqb (a b : list Z) : bool :=
  match a, b with
  | [], [] => true
  | x :: a', y :: b' => Z.eqb x y && zlist_eqb a' b'
  | _, _ => false
  end.
Definition att_same (a b : att) : bool :=
  f_same (att_var a) (att_var b) && Bool.eqb (att_hasvar a) (att_hasvar b)
  && Bool.eqb (att_masked a) (att_masked b) && zlist_eqb (att_rest a) (att_rest b).
Fixpoint same_att_bin (a b : list att) : bool :=
  match a, b with
  | [], [] => true
  | x :: a', y :: b' => att_same x y && same_att_bin a' b'
  | _, _ => false
  end.
Fixpoint same_att_bins (a b : list (list att)) : string :=
  match a, b with
  | [], [] => ""
  | x :: a', y :: b' => if same_att_bin x y then same_att_bins a' b' else "attachments-changed"
  | _, _ => "attachment-bin-count"
  end.
Definition f_is_nan (x : float) : bool :=
  match PrimFloat.classify x with FloatClass.NaN => true | _ => false end.

Inductive case :=
| CaseF (xs ys : list float) (atol : float) (min_n : Z) (qsame : bool) (o : pobs float)
| CaseZ (xs : list Z) (ys : list float) (atol : float) (min_n : Z) (qsame : bool) (o : pobs Z)
| CaseColF (v32 : bool) (bins : list (list (float * float))) (collapsed : list (float * float * float))
| CaseColZ (v32 : bool) (bins : list (list (Z * float))) (collapsed : list (float * Z * Z))
| CaseP (freqs : list float) (ref rtol : float) (qsame : bool) (kept : list (Z * float)).

Definition qid (q : Q) : Q := q.
Definition QO : ops := QQ qid.

Section Cmp.
Variable Cd : Type.
Variable ceq : Cd -> Cd -> bool.
Fixpoint same_bin (a b : list (Cd * float)) : bool :=
  match a, b with
  | [], [] => true
  | (x, y) :: a', (x', y') :: b' => ceq x x' && f_same y y' && same_bin a' b'
  | _, _ => false
  end.
Fixpoint same_bins (a b : list (list (Cd * float))) : string :=
  match a, b with
  | [], [] => ""
  | x :: a', y :: b' =>
      if negb (Nat.eqb (List.length x) (List.length y)) then "bin-sizes"
      else if same_bin x y then same_bins a' b' else "points-changed"
  | _, _ => "bin-count"
  end.
End Cmp.

Definition sizes {A : Type} (l : list (list A)) : list nat := map (@List.length A) l.
Fixpoint nat_list_eqb (a b : list nat) : bool :=
  match a, b with
  | [], [] => true
  | x :: a', y :: b' => Nat.eqb x y && nat_list_eqb a' b'
  | _, _ => false
  end.

(* exact mean of the binary64 values, and their mean magnitude *)
Definition qmean (l : list float) : Q * Q :=
  let n := inject_Z (Z.of_nat (List.length l)) in
  (fold_left (fun a x => Qred (a + f2q0 x)) l 0 / n,
   fold_left (fun a x => Qred (a + Qabs (f2q0 x))) l 0 / n).
(* mtol: the admitted relative error of a mean of n values *)
Definition mtol64 (n : nat) : Q := 1 # 1000000000000.
Definition mtol32 (n : nat) : Q := inject_Z (Z.of_nat n + 2) / inject_Z (2 ^ 24).
Definition mean_ok (mtol : nat -> Q) (vals : list float) (m : float) : bool :=
  match f2q m with
  | None => false
  | Some mq => let '(e, mag) := qmean vals in Qle_bool (Qabs (mq - e)) (mtol (List.length vals) * mag)
  end.

(* variance of the mean of n values: sum of the variances / n^2 *)
Definition var_ok (mtol : nat -> Q) (vars : list float) (v : float) : bool :=
  match f2q v with
  | None => false
  | Some vq =>
      let n := inject_Z (Z.of_nat (List.length vars)) in
      let e := fold_left (fun a x => Qred (a + f2q0 x)) vars 0 / (n * n) in
      Qle_bool (Qabs (vq - e)) (4 * mtol (List.length vars) * Qabs e)
  end.

Definition eps64 : Q := 1 # 1000000000.
Definition eps32 : Q := 1 # 20000.
(* guard on the model's own bins, exact rationals: (must raise, must return) *)
Definition guard_band (eps : Q) (atol : Q) (bins : list (list (Q * Q))) : bool * bool :=
  (negb (match check_total QO (atol * (1 + eps)) bins with [] => true | _ => false end),
   match check_total QO (atol * (1 - eps)) bins with [] => true | _ => false end).

Section Plateau.
Variable o : ops.                               (* FF or ZF *)
Variable c2q : C o -> Q.
Variable ceq : C o -> C o -> bool.
Variable cfin : C o -> bool.
Variable vin : float -> V o.
Variable vout : V o -> float.
Variable eps : Q.                               (* guard band *)
Variable mtol : nat -> Q.                       (* mean tolerance *)

Definition collapse_cmp (mbins : list (list (C o * V o))) (coll : list (float * C o * C o)) : string :=
  (fix go (bs : list (list (C o * V o))) (cs : list (float * C o * C o)) : string :=
     match bs, cs with
     | [], [] => ""
     | b :: bs', (m, lo, hi) :: cs' =>
         match collapse_bin o b with
         | None => "collapse-empty-bin"
         | Some (_, mlo, mhi) =>
             if negb (ceq lo mlo) then "collapse-low"
             else if negb (ceq hi mhi) then "collapse-high"
             else if negb (forallb (fun p => cleb o lo (fst p) && negb (cleb o hi (fst p))) b)
             then "collapse-interval"
             else if negb (mean_ok mtol (map (fun p => vout (snd p)) b) m) then "collapse-mean"
             else go bs' cs'
         end
     | _, _ => "collapse-count"
     end) mbins coll.

Definition collapse_cmp_att (mbins : list (list (C o * V o))) (abins : list (list att))
           (coll : list (float * C o * C o)) (cvar : list (bool * float)) : string :=
  (fix go (bs : list (list (C o * V o))) (ats : list (list att)) (cs : list (float * C o * C o))
          (vs : list (bool * float)) {struct bs} : string :=
     match bs, ats, cs, vs with
     | [], [], [], [] => ""
     | b :: bs', a :: ats', (m, lo, hi) :: cs', (hv, v) :: vs' =>
         match collapse_bin o b with
         | None => "collapse-empty-bin"
         | Some (_, mlo, mhi) =>
             if negb (ceq lo mlo) then "collapse-low"
             else if negb (ceq hi mhi) then "collapse-high"
             else if negb (forallb (fun p => cleb o lo (fst p) && negb (cleb o hi (fst p))) b)
             then "collapse-interval"
             else if negb (Nat.eqb (List.length a) (List.length b)) then "attachment-bin-size"
             else
               let keep := filter (fun pa => negb (att_masked (snd pa))) (combine b a) in
               let vals := map (fun pa => vout (snd (fst pa))) keep in
               let vars := map (fun pa => att_var (snd pa)) keep in
               let has := existsb att_hasvar a in
               if negb (Bool.eqb hv has) then "collapse-variance-presence"
               else match vals with
                    | [] => if f_is_nan m then go bs' ats' cs' vs' else "collapse-mean-all-masked"
                    | _ => if negb (mean_ok mtol vals m) then "collapse-mean"
                           else if has && negb (var_ok mtol vars v) then "collapse-variance"
                           else go bs' ats' cs' vs'
                    end
         end
     | _, _, _, _ => "collapse-count"
     end) mbins abins coll cvar.

Definition check_plateau (xs : list (C o)) (ys : list float) (atol : float) (min_n : Z)
           (qsame : bool) (ob : pobs (C o)) : string :=
  if negb (forallb f_finite ys && f_finite atol && forallb cfin xs) then "non-finite-input"
  else if negb (Nat.eqb (List.length xs) (List.length ys)) then "bad-case"
  else
    let pts := combine xs (map vin ys) in
    let mb := plateau_bins (flags o (vin atol) pts) min_n pts in
    let qb := map (map (fun p => (c2q (fst p), f2q0 (vout (snd p))))) mb in
    let '(must_raise, must_return) := guard_band eps (f2q0 atol) qb in
    let bins_cmp (bins : list (list (C o * float))) (k : unit -> string) : string :=
        let s := same_bins (C o) ceq (map (map (fun p => (fst p, vout (snd p)))) mb) bins in
        if negb (String.eqb s "") then s
        else if must_raise then "returns-despite-drift"
        else
            let qpts := combine (map c2q xs) (map f2q0 ys) in
            if qsame && negb (nat_list_eqb (sizes (plateau_bins (flags QO (f2q0 atol) qpts) min_n qpts))
                                           (sizes bins))
            then "exact-rational-structure"
            else k tt in
    match ob with
    | ObsErr cls =>
        if negb (String.eqb cls "RuntimeError") then "impl-raises-" ++ cls
        else if must_return then "raises-without-drift" else ""
    | ObsBins bins coll => bins_cmp bins (fun _ => collapse_cmp mb coll)
    | ObsAtt bins coll ain abins cvar =>
        bins_cmp bins (fun _ =>
          if negb (Nat.eqb (List.length ain) (List.length xs)) then "bad-case-attachments"
          else
            (* the same grouping applied to what travels with the points *)
            let ab := plateau_bins (flags o (vin atol) pts) min_n ain in
            let sa := same_att_bins ab abins in
            if negb (String.eqb sa "") then sa else collapse_cmp_att mb ab coll cvar)
    end.

(* collapse_plateaus alone, on bins given by their current content *)
Definition check_collapse (bins : list (list (C o * float))) (coll : list (float * C o * C o)) : string :=
  if negb (forallb (forallb (fun p => cfin (fst p) && f_finite (snd p))) bins) then "non-finite-input"
  else collapse_cmp (map (map (fun p => (fst p, vin (snd p)))) bins) coll.
End Plateau.

Definition f2f (x : float) : float := x.
Definition check_phase (freqs : list float) (ref rtol : float) (qsame : bool) (kept : list (Z * float)) : string :=
  if negb (forallb f_finite freqs && f_finite ref && f_finite rtol) then "non-finite-input"
  else
    let idx := map Z.of_nat (seq 0 (List.length freqs)) in
    let m := @filter_in_phase FF Z ref rtol (combine idx freqs) in
    if negb (Nat.eqb (List.length m) (List.length kept)) then "in-phase-count"
    else if negb (same_bin Z Z.eqb m kept) then "in-phase-selection"
    else
      let mq := @filter_in_phase QO Z (f2q0 ref) (f2q0 rtol) (combine idx (map f2q0 freqs)) in
      if qsame && negb (forallb (fun ab => Z.eqb (fst (fst ab)) (fst (snd ab))) (combine mq kept)
                        && Nat.eqb (List.length mq) (List.length kept))
      then "exact-rational-in-phase" else "".

Definition check (c : case) : string :=
  match c with
  | CaseF xs ys atol min_n qsame ob =>
      check_plateau FF f2q0 f_same f_finite f2f f2f eps64 mtol64 xs ys atol min_n qsame ob
  | CaseZ xs ys atol min_n qsame ob =>
      check_plateau ZF inject_Z Z.eqb (fun _ => true) f2f f2f eps64 mtol64 xs ys atol min_n qsame ob
  | CaseColF v32 bins coll =>
      check_collapse FF f_same f_finite f2f f2f (if v32 then mtol32 else mtol64) bins coll
  | CaseColZ v32 bins coll =>
      check_collapse ZF Z.eqb (fun _ => true) f2f f2f (if v32 then mtol32 else mtol64) bins coll
  | CaseP freqs ref rtol qsame kept => check_phase freqs ref rtol qsame kept
  end.
