(* C19/Properties.v — the property theorems (nothing else), each closed by a lemma
   of the static development Verif.C19, with Print Assumptions at the end.

   Reading guide.  [o : ops] is ANY arithmetic (exact rationals, binary64, int64
   coordinates with binary64 values ...).  A series is a list of points (coordinate,
   value).  [exceeds_at o atol pts d k] is the test "abs(slope between points k and
   k+1) > atol" in that arithmetic ("within the tolerance" is its negation).
   [maximal_run exc last i j]: points i..j are consecutive, every slope strictly
   inside is within the tolerance, and the run cannot be extended at either end.
   [slice pts (i,j)] is the piece i..j of the input.  [find_plateaus],
   [collapse_bin], [is_approximate_multiple], [filter_in_phase] are the executable
   model of filtering.py (Verif.C19.Model), tied to the code by Corr.v on this run. *)
From Coq Require Import List ZArith QArith Qabs Bool Sorted PrimFloat.
From Verif.C19 Require Import Carrier Model Spec Proofs ProofsArith ProofsPhase ProofsFloat Carrier32 ProofsFloat32 ProofsAtt.
Import ListNotations.
Local Close Scope Q_scope.

(* --- find_plateaus: the bins are exactly the maximal within-tolerance runs of >= min_n points *)
Theorem C19_plateaus_are_maximal_runs :
  forall (X : Type) (flags : list bool) (min_n : Z) (pts : list X),
    length pts = S (length flags) ->
    exists L, plateaus_spec (fun k => nth k flags false) (length pts - 1) min_n L
              /\ plateau_bins flags min_n pts = map (slice pts) L.
Proof. exact plateaus_are_maximal_runs_flags. Qed.

Theorem C19_find_plateaus_returns_spec :
  forall (o : ops) atol min_n (pts : list (C o * V o)) d bins,
    pts <> [] -> find_plateaus o atol min_n pts = Ret bins ->
    find_plateaus_spec o atol min_n pts d bins.
Proof. exact find_plateaus_returns_spec. Qed.

(* the specification has exactly one solution: "exactly the maximal runs" *)
Theorem C19_plateaus_spec_unique : forall exc last min_n L1 L2,
  plateaus_spec exc last min_n L1 -> plateaus_spec exc last min_n L2 -> L1 = L2.
Proof. exact plateaus_spec_unique. Qed.

Theorem C19_disjoint_ordered_complete :
  forall (o : ops) atol min_n (pts : list (C o * V o)) d bins,
    pts <> [] -> find_plateaus o atol min_n pts = Ret bins ->
    exists L,
      bins = map (slice pts) L
      /\ StronglySorted (fun a b => snd a < fst b) L
      /\ Forall (fun ij => fst ij <= snd ij < length pts) L
      /\ (forall i j, maximal_run (exceeds_at o atol pts d) (length pts - 1) i j ->
                      (min_n <= Z.of_nat (S (j - i)))%Z -> In (i, j) L)
      /\ (forall i j, In (i, j) L ->
                      maximal_run (exceeds_at o atol pts d) (length pts - 1) i j
                      /\ (min_n <= Z.of_nat (S (j - i)))%Z).
Proof. exact disjoint_ordered_complete. Qed.

(* with min_n_points <= 1 the bins are a partition of the input, in order *)
Theorem C19_bins_partition_input :
  forall (X : Type) (flags : list bool) (min_n : Z) (pts : list X),
    length pts = S (length flags) -> (min_n <= 1)%Z ->
    concat (plateau_bins flags min_n pts) = pts.
Proof. exact bins_partition_input. Qed.

Theorem C19_points_unchanged :
  forall (o : ops) atol min_n (pts : list (C o * V o)) d bins,
    pts <> [] -> find_plateaus o atol min_n pts = Ret bins ->
    forall b bin, nth_error bins b = Some bin ->
      exists i j, i <= j < length pts /\ length bin = S (j - i)
                  /\ forall k, k < length bin -> nth k bin d = nth (i + k) pts d.
Proof. exact points_unchanged. Qed.

(* "each holding its points unchanged" for whole rows: whatever travels with a point (variance, mask entries,
   further coordinates) is grouped exactly like the point; the bins of the rows (points with attachments) are
   slices of the input rows for the maximal runs L, and the bins of the points / of the attachments alone are
   their projections (the two comparisons made by Corr.v for series with attachments) *)
Theorem C19_attachments_travel :
  forall (X Y : Type) (f : X -> Y) (flags : list bool) (min_n : Z) (rows : list X),
    length rows = S (length flags) ->
    plateau_bins flags min_n (map f rows) = map (map f) (plateau_bins flags min_n rows).
Proof. exact attachments_travel. Qed.

Theorem C19_rows_unchanged :
  forall (P A : Type) (flags : list bool) (min_n : Z) (pts : list P) (atts : list A),
    length pts = S (length flags) -> length atts = length pts ->
    exists L, plateaus_spec (fun k => nth k flags false) (length pts - 1) min_n L
              /\ plateau_bins flags min_n (combine pts atts) = map (slice (combine pts atts)) L
              /\ plateau_bins flags min_n pts = map (map fst) (map (slice (combine pts atts)) L)
              /\ plateau_bins flags min_n atts = map (map snd) (map (slice (combine pts atts)) L).
Proof. exact rows_unchanged. Qed.

Example C19_rows_unchanged_sat :
  plateau_bins [false; true; false] 2 [(1, true); (2, false); (3, true); (4, true)]%Z
  = [[(1, true); (2, false)]; [(3, true); (4, true)]]%Z.
Proof. exact rows_unchanged_sat. Qed.

(* find_plateaus returns iff no selected plateau exceeds the total-drift bound
   ((max - min) / mean step > 2 atol); otherwise RuntimeError naming exactly those plateaus *)
Theorem C19_raises_only_on_drift :
  forall (o : ops) atol min_n (pts : list (C o * V o)),
    let bins := plateau_bins (flags o atol pts) min_n pts in
    (forall r, find_plateaus o atol min_n pts = Ret r <->
               r = bins /\ forall b, In b bins -> drift_exceeds o atol b = false)
    /\ (forall l, find_plateaus o atol min_n pts = Raise l <-> l <> [] /\ l = check_total o atol bins)
    /\ (forall k, In k (check_total o atol bins) <->
                  exists n b, k = Z.of_nat n /\ nth_error bins n = Some b /\ drift_exceeds o atol b = true).
Proof. exact raises_only_on_drift. Qed.

(* --- collapse_plateaus: the mean and a half-open interval [low, high) with every point inside *)
Theorem C19_collapse_mean_and_interval :
  forall (o : ops) (dom : C o -> Prop),
    (forall a, dom a -> cleb o a a = true) ->
    (forall a b c, dom a -> dom b -> dom c -> cleb o a b = true -> cleb o b c = true -> cleb o a c = true) ->
    (forall a b, dom a -> dom b -> cleb o a b = true \/ cleb o b a = true) ->
    (forall a b, dom a -> dom b -> cleb o b a = true -> cleb o (cnext o a) b = false) ->
    forall (bin : list (C o * V o)) m low high,
      Forall (fun p => dom (fst p)) bin ->
      collapse_bin o bin = Some (m, low, high) ->
      m = vmean o (map snd bin)
      /\ interval_contains o low high bin
      /\ (exists p, In p bin /\ low = fst p /\ forall q, In q bin -> cleb o low (fst q) = true)
      /\ (exists p, In p bin /\ high = cnext o (fst p) /\ forall q, In q bin -> cleb o (fst q) (fst p) = true).
Proof. exact collapse_mean_and_interval. Qed.

(* binary64 coordinates (finite): [min, nextafter(max, +inf)) *)
Theorem C19_collapse_interval_float : forall (bin : list (float * float)) m low high,
  Forall (fun p => ffin (fst p)) bin ->
  collapse_bin FF bin = Some (m, low, high) ->
  (forall p, In p bin -> PrimFloat.leb low (fst p) = true /\ PrimFloat.leb high (fst p) = false)
  /\ (exists p, In p bin /\ low = fst p)
  /\ (exists p, In p bin /\ high = next_up (fst p)).
Proof. exact collapse_interval_float. Qed.

(* binary32 (float32) coordinates (finite), data float64 or float32:
   [min, succ(max)) with succ the successor IN BINARY32 (Flocq's Bsucc at precision 24):
   its value, when finite, is the least binary32 number above the maximum *)
Theorem C19_collapse_interval_float32 : forall (v32 : bool) (bin : list (b32 * float)) m low high,
  Forall (fun p => fin32 (fst p)) bin ->
  collapse_bin (S32 v32) bin = Some (m, low, high) ->
  (forall p, In p bin -> BinarySingleNaN.Bleb low (fst p) = true /\ BinarySingleNaN.Bleb high (fst p) = false)
  /\ (exists p, In p bin /\ low = fst p)
  /\ (exists p, In p bin /\ high = BinarySingleNaN.Bsucc (fst p)
                /\ (BinarySingleNaN.is_finite high = true ->
                    BinarySingleNaN.B2R high = Ulp.succ Zaux.radix2 fexp32 (BinarySingleNaN.B2R (fst p)))).
Proof. exact collapse_interval_float32. Qed.

Theorem C19_collapse_interval_int : forall (bin : list (Z * float)) m low high,
  collapse_bin ZF bin = Some (m, low, high) ->
  (forall p, In p bin -> (low <= fst p < high)%Z)
  /\ (exists p, In p bin /\ low = fst p)
  /\ (exists p, In p bin /\ high = (fst p + 1)%Z).
Proof. exact collapse_interval_int. Qed.

Theorem C19_collapse_interval_Q : forall (next : Q -> Q), (forall x, (x < next x)%Q) ->
  forall (bin : list (Q * Q)) m low high,
    collapse_bin (QQ next) bin = Some (m, low, high) ->
    forall p, In p bin -> (low <= fst p < high)%Q.
Proof. exact collapse_interval_Q. Qed.

(* --- filter_in_phase *)
Theorem C19_in_phase_iff : forall next (f ref rtol : Q),
  ~ (ref == 0)%Q ->
  (is_approximate_multiple (QQ next) f ref rtol = true <->
   ((exists n : Z, Qabs (f / ref - inject_Z n) < rtol)
    \/ (~ f == 0 /\ exists n : Z, Qabs (ref / f - inject_Z n) < rtol))%Q).
Proof. exact in_phase_iff. Qed.

Theorem C19_in_phase_zero : forall next (ref rtol : Q), ~ (ref == 0)%Q -> (0 < rtol)%Q ->
  is_approximate_multiple (QQ next) 0%Q ref rtol = true.
Proof. exact in_phase_zero. Qed.

Theorem C19_filter_in_phase_spec : forall (K : Type) next (ref rtol : Q) (freq : list (K * Q)),
  ~ (ref == 0)%Q ->
  (forall kf, In kf (filter_in_phase (QQ next) ref rtol freq) <-> In kf freq /\ in_phase_spec (snd kf) ref rtol)
  /\ exists mask, length mask = length freq
       /\ filter_in_phase (QQ next) ref rtol freq = map fst (filter snd (combine freq mask)).
Proof. exact filter_in_phase_spec. Qed.

(* --- the hypotheses are satisfiable, the model computes: six points, one jump, tolerance 1,
       slopes 0.1, 0.1 (exactly at atol = 0.1 would be "within"), 10, 0, 0.05 *)
Definition demo_pts : list (Q * Q) :=
  [(0, 1); (1, 11 # 10); (3, 13 # 10); (4, 113 # 10); (6, 113 # 10); (8, 114 # 10)]%Q.
Example C19_nonvacuous_find_plateaus :
  demo_pts <> []
  /\ find_plateaus (QQ (fun x => x + 1)%Q) (1 # 10)%Q 2 demo_pts
     = Ret [[(0, 1); (1, 11 # 10); (3, 13 # 10)]; [(4, 113 # 10); (6, 113 # 10); (8, 114 # 10)]]%Q
  /\ find_plateaus (QQ (fun x => x + 1)%Q) (9 # 100)%Q 1 demo_pts
     = Ret [[(0, 1)]; [(1, 11 # 10)]; [(3, 13 # 10)]; [(4, 113 # 10); (6, 113 # 10); (8, 114 # 10)]]%Q
  /\ length demo_pts = S (length (flags (QQ (fun x => x + 1)%Q) (1 # 10)%Q demo_pts)).
Proof. repeat split; try discriminate; vm_compute; reflexivity. Qed.

(* a slow ramp inside the slope tolerance trips the drift guard *)
Example C19_nonvacuous_raise :
  find_plateaus (QQ (fun x => x + 1)%Q) 1%Q 2 [(0, 0); (1, 9 # 10); (2, 18 # 10); (3, 27 # 10)]%Q = Raise [0%Z].
Proof. vm_compute. reflexivity. Qed.

Example C19_nonvacuous_collapse :
  collapse_bin ZF [(3%Z, 1%float); (5%Z, 2%float); (9%Z, 3%float)] = Some (Some 2%float, 3%Z, 10%Z)
  /\ collapse_bin FF [(1%float, 1%float); (2%float, 3%float)]
     = Some (Some 2%float, 1%float, 0x1.0000000000001p+1%float).
Proof. split; vm_compute; reflexivity. Qed.

(* float32: 1.5 and 0.1f; the upper edge is the binary32 successor 0x1.800002p+0, whereas the
   binary64 successor of 1.5 stored back as float32 is 1.5 itself *)
Example C19_nonvacuous_collapse_float32 :
  let bin := [(mk32 13421773 (-27), 1%float); (mk32 3 (-1), 3%float)] in
  Forall (fun p => fin32 (fst p)) bin
  /\ match collapse_bin (S32 true) bin with
     | Some (m, low, high) => (m, to64 low, to64 high)
     | None => (None, 0%float, 0%float)
     end = (Some 2%float, 0x1.99999ap-4%float, 0x1.800002p+0%float)
  /\ b32_same (of64 (next_up (to64 (mk32 3 (-1))))) (mk32 3 (-1)) = true.
Proof. split; [repeat constructor|split; vm_compute; reflexivity]. Qed.

Example C19_nonvacuous_finite_float : ffin 1%float /\ ffin (-0x1.8p-3)%float /\ ~ ffin infinity.
Proof. repeat split; try (vm_compute; reflexivity). vm_compute. discriminate. Qed.

Example C19_nonvacuous_in_phase :
  ~ (14 == 0)%Q
  /\ is_approximate_multiple (QQ (fun x => x)) 28%Q 14%Q (1 # 1000000)%Q = true
  /\ is_approximate_multiple (QQ (fun x => x)) 7%Q 14%Q (1 # 1000000)%Q = true
  /\ is_approximate_multiple (QQ (fun x => x)) 21%Q 14%Q (1 # 1000000)%Q = false
  /\ is_approximate_multiple (QQ (fun x => x)) 0%Q 14%Q (1 # 1000000)%Q = true.
Proof. repeat split; try (vm_compute; reflexivity). intros H. discriminate H. Qed.

Print Assumptions C19_plateaus_are_maximal_runs.
Print Assumptions C19_find_plateaus_returns_spec.
Print Assumptions C19_plateaus_spec_unique.
Print Assumptions C19_disjoint_ordered_complete.
Print Assumptions C19_bins_partition_input.
Print Assumptions C19_points_unchanged.
Print Assumptions C19_attachments_travel.
Print Assumptions C19_rows_unchanged.
Print Assumptions C19_raises_only_on_drift.
Print Assumptions C19_collapse_mean_and_interval.
Print Assumptions C19_collapse_interval_float.
Print Assumptions C19_collapse_interval_float32.
Print Assumptions C19_collapse_interval_int.
Print Assumptions C19_collapse_interval_Q.
Print Assumptions C19_in_phase_iff.
Print Assumptions C19_in_phase_zero.
Print Assumptions C19_filter_in_phase_spec.
