(* C19/Corr32.v — compiled on every run: the comparison of Corr.v for series with
   float32 coordinates and / or float32 data.  The binary32 arithmetic is Flocq's
   (Verif.C19.Carrier32); the bins, the low edge and the high edge — the successor of
   the maximum IN binary32 — are compared bit for bit, the guard with a band of 5e-5,
   the mean to (n + 2) * 2^-24 of the mean magnitude.
     Case32 v32    float32 coordinates, float64 (v32 = false) / float32 (true) data
     CaseFv32      float64 coordinates, float32 data
     CaseZv32      int64 / datetime64 coordinates, float32 data
     CaseCol32     collapse_plateaus alone on the current content of a plateau array *)
From Coq Require Import List ZArith QArith Qabs String Bool PrimFloat.
From Verif.Sem Require Import Corr.
From Verif.C19 Require Import Carrier Model Carrier32.
From Run Require Import Corr.
Import ListNotations.
Open Scope string_scope.

Inductive case32 :=
| Case32 (v32 : bool) (xs : list b32) (ys : list float) (atol : float) (min_n : Z) (qsame : bool) (o : pobs b32)
| CaseFv32 (xs ys : list float) (atol : float) (min_n : Z) (qsame : bool) (o : pobs float)
| CaseZv32 (xs : list Z) (ys : list float) (atol : float) (min_n : Z) (qsame : bool) (o : pobs Z)
| CaseCol32 (v32 : bool) (bins : list (list (b32 * float))) (collapsed : list (float * b32 * b32)).

(* a float32 datum must be representable in binary32 *)
Definition is32 (x : float) : bool := f_same (to64 (of64 x)) x.

Definition check32 (c : case32) : string :=
  match c with
  | Case32 v32 xs ys atol min_n qsame ob =>
      if v32 && negb (forallb is32 ys) then "bad-case-not-binary32"
      else check_plateau (S32 v32) b32q b32_same b32_finite f2f f2f eps32 (if v32 then mtol32 else mtol64)
                         xs ys atol min_n qsame ob
  | CaseFv32 xs ys atol min_n qsame ob =>
      if negb (forallb is32 ys) then "bad-case-not-binary32"
      else check_plateau FFv32 f2q0 f_same f_finite f2f f2f eps32 mtol32 xs ys atol min_n qsame ob
  | CaseZv32 xs ys atol min_n qsame ob =>
      if negb (forallb is32 ys) then "bad-case-not-binary32"
      else check_plateau ZFv32 inject_Z Z.eqb (fun _ => true) f2f f2f eps32 mtol32 xs ys atol min_n qsame ob
  | CaseCol32 v32 bins coll =>
      check_collapse (S32 v32) b32_same b32_finite f2f f2f (if v32 then mtol32 else mtol64) bins coll
  end.
