(* C12/Tie.v — obligations on the facts REGENERATED from /repo's _build.py on this run
   (Run.GenSqw): the block order tuple, the pixel row tables and the stop expression of
   the chunk loop in _PixWrap.write are the ones the static theorems were proved for.
   The last lemmas instantiate the static theorems at the regenerated parameters. *)
From Coq Require Import NArith String List Bool.
From Verif.SQW Require Import Bytes Format Model Content Check ProofsObj ProofsPix ProofsFile ProofsBuilder ProofsC12.
From Run Require Import GenSqw.
Import ListNotations.
Local Open Scope N_scope.

(* the tuple in _to_canonical_block_order names the nine known blocks in the order the model assumes *)
Lemma src_block_order_is_model_order : src_block_order = map key_name canonical_order.
Proof. vm_compute. reflexivity. Qed.

Lemma src_keys : keys_of_names src_block_order = canonical_order.
Proof. vm_compute. reflexivity. Qed.

(* _DEFAULT_PIX_ROWS / _DEFAULT_PIX_ROW_UNITS: nine rows, documented units *)
Lemma src_pix_rows_documented :
  src_pix_rows = ["u1"; "u2"; "u3"; "u4"; "irun"; "idet"; "ien"; "signal"; "error"]%string.
Proof. vm_compute. reflexivity. Qed.

Lemma src_pix_row_units_documented :
  src_pix_row_units
  = ["1/angstrom"; "1/angstrom"; "1/angstrom"; "meV"; "none"; "none"; "none"; "count"; "count**2"]%string.
Proof. vm_compute. reflexivity. Qed.

(* the chunk loop of _PixWrap.write runs over the PIXELS *)
Lemma src_loop_bound_is_n_pixels : src_loop_bound = BoundNPixels.
Proof. reflexivity. Qed.

(* ---- the static theorems at the regenerated parameters ---- *)
Lemma tie_header_prefix : forall e ev title cs chunk,
  firstn 26 (encode_file (keys_of_names src_block_order) e ev src_loop_bound title cs chunk)
  = u32 e 6 ++ bs "horace" ++ f64 e f64_4_0 ++ u32 e 1 ++ u32 e (ndims_of cs).
Proof.
  intros. rewrite src_keys, encode_file_spec. apply header_prefix.
Qed.

Lemma tie_byteorder : forall e ev title cs chunk,
  deduce_byteorder (encode_file (keys_of_names src_block_order) e ev src_loop_bound title cs chunk) = e.
Proof. intros. rewrite src_keys, encode_file_spec. apply deduce_byteorder_layout. Qed.

Lemma tie_bat_names : forall e ev title cs chunk,
  blk_names (file_blocks (keys_of_names src_block_order) e ev src_loop_bound chunk title (run_calls cs))
  = expected_names cs
  /\ nodup_names (expected_names cs) = true.
Proof. intros. rewrite src_keys. split; [apply bat_names | apply bat_lists_each_block_once]. Qed.

Lemma tie_order_independent : forall cs cs',
  consistent cs -> (forall c, In c cs <-> In c cs') ->
  forall e ev title chunk,
    encode_file (keys_of_names src_block_order) e ev src_loop_bound title cs chunk
    = encode_file (keys_of_names src_block_order) e ev src_loop_bound title cs' chunk.
Proof. intros. rewrite src_keys. apply encode_file_same_calls; auto. Qed.

Lemma tie_written_file_checks : forall e ev title cs chunk,
  1 <= chunk -> ndims_of cs < two32 ->
  ir_ok ev title cs -> pix_ok cs -> dnd_ok cs ->
  fits (blocks_spec e ev BoundNPixels chunk title cs) ->
  let bl := blocks_spec e ev BoundNPixels chunk title cs in
  check_file (encode_file (keys_of_names src_block_order) e ev src_loop_bound title cs chunk)
  = Ok {| fv_endian := e; fv_ndims := ndims_of cs; fv_descs := descs_of bl (data_start bl);
          fv_blocks := contents_spec ev title cs |}
  /\ map (fun d => (d_n1 d, d_n2 d)) (descs_of bl (data_start bl)) = expected_names cs.
Proof.
  intros. rewrite src_keys, src_loop_bound_is_n_pixels. split.
  - apply written_file_checks; auto.
  - apply written_file_names.
Qed.

Lemma tie_extents : forall e ev title cs chunk i b d,
  1 <= chunk ->
  let bl := blocks_spec e ev BoundNPixels chunk title cs in
  nth_error bl i = Some b -> nth_error (descs_of bl (data_start bl)) i = Some d ->
  sizes_honest bl ->
  extent (encode_file (keys_of_names src_block_order) e ev src_loop_bound title cs chunk) (d_pos d) (d_size d)
  = b_bytes b
  /\ tile_check (header_len + 4 + bat_size bl) (descs_of bl (data_start bl))
                (len (encode_file (keys_of_names src_block_order) e ev src_loop_bound title cs chunk)) = None.
Proof.
  intros. rewrite src_keys, src_loop_bound_is_n_pixels, encode_file_spec. fold bl. split.
  - eapply extents_hold; eauto.
  - apply extents_tile_file; auto.
Qed.

Lemma tie_pixel_block_length : forall e chunk p, 1 <= chunk -> pw_nrows p = 9 ->
  len (pix_write e src_loop_bound chunk p) = 12 + 36 * pw_npix p
  /\ len (pix_write e src_loop_bound chunk p) = pix_declared_size p.
Proof.
  intros. rewrite src_loop_bound_is_n_pixels. split.
  - apply pix_write_length_9; auto.
  - apply pix_write_length; auto.
Qed.
