(* C12/Properties.v — the property theorems (nothing else).  [encode_file order e ev bound title cs chunk]
   is the writer model (coq/SQW/Model.v) run with the block-order tuple and the chunk-loop bound
   REGENERATED from /repo's _build.py on this run; [check_file] / [deduce_byteorder] / [extent] are the
   independent format definitions of coq/SQW/Format.v.  [cs] is an arbitrary sequence of builder calls
   (any subset, any order, repetitions), [e] either byte order, [chunk] any chunk size >= 1.
   Hypotheses [ir_ok], [pix_ok], [dnd_ok], [fits] say that every length/size fits the field it is
   written to (u8 number of dimensions, u32 lengths and sizes, u64 positions). *)
From Coq Require Import NArith String List Bool.
From Verif.SQW Require Import Bytes Format Model Content Check ProofsObj ProofsPix ProofsFile ProofsBuilder ProofsC12.
From Run Require Import GenSqw Tie.
Import ListNotations.
Local Open Scope N_scope.

(* begins with the 'horace' 4.0 header: u32 6, "horace", f64 4.0, u32 1 (SQW), u32 n_dims *)
Theorem C12_header_prefix : forall e ev title cs chunk,
  firstn 26 (encode_file (keys_of_names src_block_order) e ev src_loop_bound title cs chunk)
  = u32 e 6 ++ bs "horace" ++ f64 e f64_4_0 ++ u32 e 1 ++ u32 e (ndims_of cs).
Proof. exact tie_header_prefix. Qed.

(* re-opened with the byte order it was written in *)
Theorem C12_byteorder_recognised : forall e ev title cs chunk,
  deduce_byteorder (encode_file (keys_of_names src_block_order) e ev src_loop_bound title cs chunk) = e.
Proof. exact tie_byteorder. Qed.

(* the table lists each present block exactly once, in an order that is a function of WHICH calls were made *)
Theorem C12_bat_lists_each_block_once_in_fixed_order : forall e ev title cs chunk,
  blk_names (file_blocks (keys_of_names src_block_order) e ev src_loop_bound chunk title (run_calls cs))
  = expected_names cs
  /\ nodup_names (expected_names cs) = true.
Proof. exact tie_bat_names. Qed.

(* the whole file is independent of the order of the builder calls *)
Theorem C12_independent_of_call_order : forall cs cs',
  consistent cs -> (forall c, In c cs <-> In c cs') ->
  forall e ev title chunk,
    encode_file (keys_of_names src_block_order) e ev src_loop_bound title cs chunk
    = encode_file (keys_of_names src_block_order) e ev src_loop_bound title cs' chunk.
Proof. exact tie_order_independent. Qed.

(* the independent checker accepts the file: header, table size, extents start right after the table,
   are contiguous and end at end-of-file, every extent decodes completely as a block of its declared type *)
Theorem C12_written_file_is_a_complete_container : forall e ev title cs chunk,
  1 <= chunk -> ndims_of cs < two32 ->
  ir_ok ev title cs -> pix_ok cs -> dnd_ok cs ->
  fits (blocks_spec e ev BoundNPixels chunk title cs) ->
  let bl := blocks_spec e ev BoundNPixels chunk title cs in
  check_file (encode_file (keys_of_names src_block_order) e ev src_loop_bound title cs chunk)
  = Ok {| fv_endian := e; fv_ndims := ndims_of cs; fv_descs := descs_of bl (data_start bl);
          fv_blocks := contents_spec ev title cs |}
  /\ map (fun d => (d_n1 d, d_n2 d)) (descs_of bl (data_start bl)) = expected_names cs.
Proof. exact tie_written_file_checks. Qed.

(* each (position, size) pair designates exactly the bytes of its block; the extents tile the file *)
Theorem C12_extents_tile_file : forall e ev title cs chunk i b d,
  1 <= chunk ->
  let bl := blocks_spec e ev BoundNPixels chunk title cs in
  nth_error bl i = Some b -> nth_error (descs_of bl (data_start bl)) i = Some d ->
  sizes_honest bl ->
  extent (encode_file (keys_of_names src_block_order) e ev src_loop_bound title cs chunk) (d_pos d) (d_size d)
  = b_bytes b
  /\ tile_check (header_len + 4 + bat_size bl) (descs_of bl (data_start bl))
                (len (encode_file (keys_of_names src_block_order) e ev src_loop_bound title cs chunk)) = None.
Proof. exact tie_extents. Qed.

(* pixel block: 12 + 36 N bytes for every N and chunk size (induction over the chunk loop) *)
Theorem C12_pixel_block_length : forall e chunk p, 1 <= chunk -> pw_nrows p = 9 ->
  len (pix_write e src_loop_bound chunk p) = 12 + 36 * pw_npix p
  /\ len (pix_write e src_loop_bound chunk p) = pix_declared_size p.
Proof. exact tie_pixel_block_length. Qed.

(* for the record: with `range(0, n_rows, chunk)` the statement is false (20 pixels, chunk 1) *)
Theorem C12_loop_over_rows_truncates :
  exists p chunk, 1 <= chunk /\ pw_nrows p = 9 /\ len (pix_write LE BoundNRows chunk p) <> pix_declared_size p.
Proof. exact pix_bytes_truncated_refuted. Qed.

Print Assumptions C12_header_prefix.
Print Assumptions C12_byteorder_recognised.
Print Assumptions C12_bat_lists_each_block_once_in_fixed_order.
Print Assumptions C12_independent_of_call_order.
Print Assumptions C12_written_file_is_a_complete_container.
Print Assumptions C12_extents_tile_file.
Print Assumptions C12_pixel_block_length.
Print Assumptions C12_loop_over_rows_truncates.
