(* C05/PropertiesFloat.v — "... and is never infinite for finite inputs", in FLOATING POINT
   (Properties.v states C05 over the real numbers, where this clause is vacuous).
   Property theorems only; the proofs are in coq/C05/NeverInf.v (Flocq).

   Reading guide.  F64 / F32 = the binary64 / binary32 numbers as reals
   (generic_format radix2 (FLT_exp (-1074) 53) resp. (FLT_exp (-149) 24): bounded minimal exponent,
   i.e. gradual underflow is modelled; the format is not bounded above, overflow is excluded by the
   explicit bounds  ... <= max_finite);  rnd64 / rnd32 = round to nearest, ties to even.
   The *_ieee theorems say the same on Flocq's IEEE-754 data type (BinarySingleNaN: finite numbers,
   signed zeros, infinities, NaN): every operation of the value branch returns a finite number.

   How the hypotheses map to the regenerated kernels (build/C05/GenTof.v, from
   /repo/src/scippneutron/conversion/tof.py):

     energy_transfer_direct_from_tof             energy_transfer_indirect_from_tof        here
     t0        = p_energy_transfer_t0 Ei tof L1  p_energy_transfer_t0 Ef tof L2           t0
     scale     = m_astype (c * L2**2) dtype      m_astype (c * L1**2) dtype               scale
     delta_tof = vsub tof t0                     vadd (vneg t0) tof                       d = rnd (t - t0)
     guard     = vle delta_tof 0  (then NaN)     same                                     not (d <= 0), i.e. 0 < d
     vpow delta_tof 2                            same                                     D = rnd (d * d)
     vdiv scale (vpow delta_tof 2)               same                                     q = rnd (scale / D)
     vsub Ei (vdiv ...)                          vsub (vdiv ...) Ef                       rnd (E - q),  rnd (q - E)

   (-t0 is exact and -t0 + t = t - t0 over the reals, so the two kernels round the same real number; the
   *_ieee theorems treat Bminus t t0 and Bplus (Bopp t0) t separately.)
   t, t0, scale, E are element values in the kernel's working dtype = _common_dtype(energy, tof):
   binary32 iff energy and tof are both float32, else binary64 (a float32 or an int64 < 2^53 operand is
   converted exactly, so it is a binary64 number).

   Magnitude hypotheses, from the property's quantifier (Ei, Ef in 1e-3..1e4 meV, L1, L2 in 0.1..1e3 m;
   energies written in micro-eV..J, lengths in mm..km, times in ns..s), as numerical values in the
   kernel's internal units (t0 and tof in the unit of tof; scale in [unit of E]*[unit of tof]^2):
     2^-20 <= t0     : t0 = L_fixed*sqrt(m_n/(2 E_fixed)) >= 0.1 m * 2.286e-5 s/m = 2.286e-6 s > 2^-19 (unit s; larger in ms, us, ns);
     t <= 2^60       : t0 <= 72.3 s = 7.23e10 ns; arrival times up to 1e6 times that;
     0 <= scale <= 2^73 : scale = (m_n/2) L_free^2 <= 8.4e-22 J s^2 = 5.23e21 micro-eV ns^2 < 2^73  (binary64 theorem);
     scale <= 2^52 * t0^2 : over the reals scale/t0^2 = E_fixed*(L_free/L_fixed)^2 <= 1e7 (micro-eV) * 1e8 = 1e15 < 2^50;
                       largest value measured on the implementation (all unit/dtype combinations, corners): 1.0000002e15
                       (binary32 theorem; with the absolute bounds alone binary32 is not sufficient, see
                       binary32_absolute_bounds_insufficient in NeverInf.v — numbers outside the property's range);
     |E| <= 2^30     : E <= 1e4 meV = 1e7 micro-eV < 2^24.

   What remains assumed (not proved here):
     - t0 and scale THEMSELVES are finite numbers of the working format within the stated bounds, i.e. the
       computations c = to_unit(m_n/2, ...), c/E, sqrt, L*sqrt(..), c*L**2 and astype did not overflow and their
       rounding errors stay within the margins above (2.286e-6 vs 2^-20; 1.0000002e15 vs 2^52 = 4.5e15);
       the correspondence run checks per case that no infinity is observed;
     - scipp evaluates  x - y,  x / y  as one correctly rounded IEEE operation in the working dtype and
       delta_tof**2 as delta_tof*delta_tof (its integer power is repeated multiplication; a correctly
       rounded pow(x, 2) gives the same number);
     - the comparison delta_tof <= 0 is the IEEE comparison (false for NaN: with finite t, t0 the difference is not NaN). *)
From Coq Require Import Reals ZArith.
From Flocq Require Import Core IEEE754.BinarySingleNaN.
From Verif.C05 Require Import NeverInf.
Open Scope R_scope.

(* binary64: (a) d >= ulp(t0) >= 2^-72, (b) d*d does not underflow (>= smallest normal 2^-1022) nor overflow,
   (c) scale/d^2 <= 2^217, and the returned difference is at most 2^218 <= max finite in magnitude *)
Theorem C05_never_infinite_binary64 : forall t t0 scale E : R,
  F64 t -> F64 t0 ->
  bpow radix2 (-20) <= t0 -> t <= bpow radix2 60 ->
  0 <= scale -> scale <= bpow radix2 73 -> Rabs E <= bpow radix2 30 ->
  let d := rnd64 (t - t0) in
  0 < d ->
  let D := rnd64 (d * d) in let q := rnd64 (scale / D) in
  (ulp radix2 fexp64 t0 <= d /\ bpow radix2 (-72) <= d /\ d <= bpow radix2 60)
  /\ (min_normal 53 1024 <= D /\ D <= bpow radix2 120 /\ bpow radix2 120 <= max_finite 53 1024)
  /\ (0 <= q /\ q <= bpow radix2 217)
  /\ (Rabs (rnd64 (E - q)) <= bpow radix2 218 /\ Rabs (rnd64 (q - E)) <= bpow radix2 218
      /\ bpow radix2 218 <= max_finite 53 1024).
Proof. exact never_infinite_binary64. Qed.

Theorem C05_never_infinite_binary64_ieee : forall t t0 scale E : b64,
  is_finite t = true -> is_finite t0 = true -> is_finite scale = true -> is_finite E = true ->
  bpow radix2 (-20) <= B2R t0 -> B2R t <= bpow radix2 60 ->
  0 <= B2R scale -> B2R scale <= bpow radix2 73 -> Rabs (B2R E) <= bpow radix2 30 ->
  (let d := Bminus mode_NE t t0 in
   0 < B2R d ->
   let D := Bmult mode_NE d d in let q := Bdiv mode_NE scale D in
   is_finite d = true /\ is_finite D = true /\ 0 < B2R D /\ is_finite q = true
   /\ is_finite (Bminus mode_NE E q) = true)
  /\
  (let d := Bplus mode_NE (Bopp t0) t in
   0 < B2R d ->
   let D := Bmult mode_NE d d in let q := Bdiv mode_NE scale D in
   is_finite d = true /\ is_finite D = true /\ 0 < B2R D /\ is_finite q = true
   /\ is_finite (Bminus mode_NE q E) = true).
Proof. exact never_infinite_binary64_ieee. Qed.

(* binary64 with the relative bound on scale (same shape as the binary32 theorem) *)
Theorem C05_never_infinite_binary64_rel : forall t t0 scale E : R,
  F64 t -> F64 t0 ->
  bpow radix2 (-20) <= t0 -> t <= bpow radix2 60 ->
  0 <= scale -> scale <= bpow radix2 52 * (t0 * t0) -> Rabs E <= bpow radix2 30 ->
  let d := rnd64 (t - t0) in
  0 < d ->
  let D := rnd64 (d * d) in let q := rnd64 (scale / D) in
  (ulp radix2 fexp64 t0 <= d /\ t0 * bpow radix2 (-53) < d /\ d <= bpow radix2 60)
  /\ (min_normal 53 1024 <= D /\ D <= bpow radix2 120 /\ bpow radix2 120 <= max_finite 53 1024)
  /\ (0 <= q /\ q <= bpow radix2 158)
  /\ (Rabs (rnd64 (E - q)) <= bpow radix2 159 /\ Rabs (rnd64 (q - E)) <= bpow radix2 159
      /\ bpow radix2 159 <= max_finite 53 1024).
Proof. exact never_infinite_binary64_rel. Qed.

(* binary32: (a) d >= ulp(t0) > t0 * 2^-24, (b) d*d >= smallest normal 2^-126, <= 2^120,
   (c) scale/d^2 <= 2^100, result at most 2^101 <= max finite in magnitude *)
Theorem C05_never_infinite_binary32 : forall t t0 scale E : R,
  F32 t -> F32 t0 ->
  bpow radix2 (-20) <= t0 -> t <= bpow radix2 60 ->
  0 <= scale -> scale <= bpow radix2 52 * (t0 * t0) -> Rabs E <= bpow radix2 30 ->
  let d := rnd32 (t - t0) in
  0 < d ->
  let D := rnd32 (d * d) in let q := rnd32 (scale / D) in
  (ulp radix2 fexp32 t0 <= d /\ t0 * bpow radix2 (-24) < d /\ d <= bpow radix2 60)
  /\ (min_normal 24 128 <= D /\ D <= bpow radix2 120 /\ bpow radix2 120 <= max_finite 24 128)
  /\ (0 <= q /\ q <= bpow radix2 100)
  /\ (Rabs (rnd32 (E - q)) <= bpow radix2 101 /\ Rabs (rnd32 (q - E)) <= bpow radix2 101
      /\ bpow radix2 101 <= max_finite 24 128).
Proof. exact never_infinite_binary32. Qed.

Theorem C05_never_infinite_binary32_ieee : forall t t0 scale E : b32,
  is_finite t = true -> is_finite t0 = true -> is_finite scale = true -> is_finite E = true ->
  bpow radix2 (-20) <= B2R t0 -> B2R t <= bpow radix2 60 ->
  0 <= B2R scale -> B2R scale <= bpow radix2 52 * (B2R t0 * B2R t0) -> Rabs (B2R E) <= bpow radix2 30 ->
  (let d := Bminus mode_NE t t0 in
   0 < B2R d ->
   let D := Bmult mode_NE d d in let q := Bdiv mode_NE scale D in
   is_finite d = true /\ is_finite D = true /\ 0 < B2R D /\ is_finite q = true
   /\ is_finite (Bminus mode_NE E q) = true)
  /\
  (let d := Bplus mode_NE (Bopp t0) t in
   0 < B2R d ->
   let D := Bmult mode_NE d d in let q := Bdiv mode_NE scale D in
   is_finite d = true /\ is_finite D = true /\ 0 < B2R D /\ is_finite q = true
   /\ is_finite (Bminus mode_NE q E) = true).
Proof. exact never_infinite_binary32_ieee. Qed.

(* the hypotheses are satisfiable: t0 = 4096, t = 4096.5, scale = 2^40, E = 16 *)
Example C05_never_infinite_binary64_nonvacuous : exists t t0 scale E : R,
  F64 t /\ F64 t0 /\ bpow radix2 (-20) <= t0 /\ t <= bpow radix2 60 /\
  0 <= scale /\ scale <= bpow radix2 73 /\ scale <= bpow radix2 52 * (t0 * t0) /\
  Rabs E <= bpow radix2 30 /\ 0 < rnd64 (t - t0).
Proof. exact never_infinite_binary64_nonvacuous. Qed.

Example C05_never_infinite_binary32_nonvacuous : exists t t0 scale E : R,
  F32 t /\ F32 t0 /\ bpow radix2 (-20) <= t0 /\ t <= bpow radix2 60 /\
  0 <= scale /\ scale <= bpow radix2 52 * (t0 * t0) /\
  Rabs E <= bpow radix2 30 /\ 0 < rnd32 (t - t0).
Proof. exact never_infinite_binary32_nonvacuous. Qed.

Example C05_never_infinite_binary64_ieee_nonvacuous :
  is_finite ex64_t = true /\ is_finite ex64_t0 = true /\ is_finite ex64_scale = true /\ is_finite ex64_E = true /\
  bpow radix2 (-20) <= B2R ex64_t0 /\ B2R ex64_t <= bpow radix2 60 /\
  0 <= B2R ex64_scale /\ B2R ex64_scale <= bpow radix2 73 /\ Rabs (B2R ex64_E) <= bpow radix2 30 /\
  0 < B2R (Bminus mode_NE ex64_t ex64_t0).
Proof. exact never_infinite_binary64_ieee_nonvacuous. Qed.

Example C05_never_infinite_binary32_ieee_nonvacuous :
  is_finite ex32_t = true /\ is_finite ex32_t0 = true /\ is_finite ex32_scale = true /\ is_finite ex32_E = true /\
  bpow radix2 (-20) <= B2R ex32_t0 /\ B2R ex32_t <= bpow radix2 60 /\
  0 <= B2R ex32_scale /\ B2R ex32_scale <= bpow radix2 52 * (B2R ex32_t0 * B2R ex32_t0) /\
  Rabs (B2R ex32_E) <= bpow radix2 30 /\
  0 < B2R (Bminus mode_NE ex32_t ex32_t0).
Proof. exact never_infinite_binary32_ieee_nonvacuous. Qed.

Print Assumptions C05_never_infinite_binary64.
Print Assumptions C05_never_infinite_binary64_ieee.
Print Assumptions C05_never_infinite_binary64_rel.
Print Assumptions C05_never_infinite_binary32.
Print Assumptions C05_never_infinite_binary32_ieee.
