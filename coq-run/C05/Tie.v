(* C05/Tie.v — obligations on the energy-transfer kernels as REGENERATED from
   /repo/src/scippneutron/conversion/tof.py on this run. *)
From Coq Require Import Reals ZArith String List Lra.
From Verif.Sem Require Import Field Val RInst RLemmas.
From Verif.C05 Require Import Spec.
From Run Require Import GenUtils GenTof.
Open Scope R_scope.

Definition pow_ok (d : dtype) : bool := match d with DF64 | DF32 | DI64 => true | _ => false end.
Ltac all_dtypes :=
  repeat match goal with
         | H : is_num ?d = true |- _ => destruct d; try discriminate H; clear H
         | H : pow_ok ?d = true |- _ => destruct d; try discriminate H; clear H
         | H : is_float ?d = true |- _ => destruct d; try discriminate H; clear H
         end.

Section Tie.
Variables h mn : R.
Hypothesis Hh : h > 0.
Hypothesis Hm : mn > 0.
Notation O := (ROps h mn).
Notation tv := (tvar h mn).

(* replace the square root the code computes by slowness(E) * (sL/st) *)
Ltac norm_sqrt E sE st sL :=
  match goal with
  | |- context [sqrt ?X] =>
      rewrite (model_slowness mn Hm X (E * sE) (st / sL)) by
        (first [ solve [pos] | (field; lra) ])
  end.

(* a unit multiplier that contains sqrt(sE * (st/sL)^2 / sE): it is st/sL *)
Ltac unit_sqrt st sL :=
  first [ reflexivity
        | cbn [us ud];
          match goal with |- @eq _ ?a ?b => change (@eq R a b) end;
          repeat match goal with
                 | |- context [sqrt ?X] =>
                     replace (sqrt X) with (st / sL)
                       by (symmetry; apply sqrt_eq_of_sq; [nonneg | field; lra])
                 end;
          field; lra ].

(* physical arrival time later than the flight time of the fixed-energy leg: the value branch *)
(* t - L*(r/(st/sL)) > 0 in tof units  <->  t*st > L*sL*r physically *)
Lemma tof_units_gt t st L sL r : st > 0 -> sL > 0 -> t * st > L * sL * r -> 0 < t - L * (r / (st / sL)).
Proof using.
  intros Hst HsL Hp. apply Rmult_lt_reg_r with st; [lra|].
  replace ((t - L * (r / (st / sL))) * st) with (t * st - L * sL * r) by (field; lra). lra.
Qed.
Lemma tof_units_le t st L sL r : st > 0 -> sL > 0 -> t * st <= L * sL * r -> t - L * (r / (st / sL)) <= 0.
Proof using.
  intros Hst HsL Hp. apply Rmult_le_reg_r with st; [lra|].
  replace ((t - L * (r / (st / sL))) * st) with (t * st - L * sL * r) by (field; lra). lra.
Qed.

(* physical arrival time later than the flight time of the fixed-energy leg: the value branch *)
Lemma direct_value t st L1 s1 L2 s2 Ei sE dt d1 d2 dE :
  t > 0 -> st > 0 -> L1 > 0 -> s1 > 0 -> L2 > 0 -> s2 > 0 -> Ei > 0 -> sE > 0 ->
  pow_ok dt = true -> pow_ok d1 = true -> pow_ok d2 = true -> is_float dE = true ->
  t * st > flight_time mn (L1 * s1) (Ei * sE) ->
  is_qty h mn (energy_transfer_direct_from_tof O (tv t st d_s dt) (tv L1 s1 d_m d1) (tv L2 s2 d_m d2) (tv Ei sE d_J dE))
         (dE_direct mn (t * st) (L1 * s1) (L2 * s2) (Ei * sE)) sE d_J (fdt2 dE dt).
Proof using Hh Hm.
  intros Ht Hst HL1 Hs1 HL2 Hs2 HE HsE ? ? ? ? Hphys.
  pose proof (slowness_pos mn Hm (Ei * sE) ltac:(pos)) as Hsl.
  unfold flight_time in Hphys.
  all_dtypes; sem_eval; norm_sqrt Ei sE st s1;
    (rewrite Rleb_false by (apply tof_units_gt; assumption));
    (qty_intro; [reflexivity | unfold dE_direct, flight_time;
       set (r := slowness mn (Ei * sE)) in *; field; repeat split; lra ]).
Qed.

(* arrival at or before the flight time of the fixed-energy leg: NaN, exactly *)
Lemma direct_nan t st L1 s1 L2 s2 Ei sE dt d1 d2 dE :
  t > 0 -> st > 0 -> L1 > 0 -> s1 > 0 -> L2 > 0 -> s2 > 0 -> Ei > 0 -> sE > 0 ->
  pow_ok dt = true -> pow_ok d1 = true -> pow_ok d2 = true -> is_float dE = true ->
  t * st <= flight_time mn (L1 * s1) (Ei * sE) ->
  is_nan h mn (energy_transfer_direct_from_tof O (tv t st d_s dt) (tv L1 s1 d_m d1) (tv L2 s2 d_m d2) (tv Ei sE d_J dE))
         sE d_J (fdt2 dE dt).
Proof using Hh Hm.
  intros Ht Hst HL1 Hs1 HL2 Hs2 HE HsE ? ? ? ? Hphys.
  unfold flight_time in Hphys.
  all_dtypes; sem_eval; norm_sqrt Ei sE st s1;
    (rewrite Rleb_true by (apply tof_units_le; assumption));
    (nan_intro; reflexivity).
Qed.

Lemma indirect_value t st L1 s1 L2 s2 Ef sE dt d1 d2 dE :
  t > 0 -> st > 0 -> L1 > 0 -> s1 > 0 -> L2 > 0 -> s2 > 0 -> Ef > 0 -> sE > 0 ->
  pow_ok dt = true -> pow_ok d1 = true -> pow_ok d2 = true -> is_float dE = true ->
  t * st > flight_time mn (L2 * s2) (Ef * sE) ->
  is_qty h mn (energy_transfer_indirect_from_tof O (tv t st d_s dt) (tv L1 s1 d_m d1) (tv L2 s2 d_m d2) (tv Ef sE d_J dE))
         (dE_indirect mn (t * st) (L1 * s1) (L2 * s2) (Ef * sE)) sE d_J (fdt2 dE dt).
Proof using Hh Hm.
  intros Ht Hst HL1 Hs1 HL2 Hs2 HE HsE ? ? ? ? Hphys.
  pose proof (slowness_pos mn Hm (Ef * sE) ltac:(pos)) as Hsl.
  unfold flight_time in Hphys.
  all_dtypes; sem_eval; norm_sqrt Ef sE st s2;
    (replace (- (L2 * (slowness mn (Ef * sE) / (st / s2))) + t)
        with (t - L2 * (slowness mn (Ef * sE) / (st / s2))) by ring);
    (rewrite Rleb_false by (apply tof_units_gt; assumption));
    (qty_intro; [ unit_sqrt st s2 | unfold dE_indirect, flight_time;
       set (r := slowness mn (Ef * sE)) in *; field; repeat split; lra ]).
Qed.

Lemma indirect_nan t st L1 s1 L2 s2 Ef sE dt d1 d2 dE :
  t > 0 -> st > 0 -> L1 > 0 -> s1 > 0 -> L2 > 0 -> s2 > 0 -> Ef > 0 -> sE > 0 ->
  pow_ok dt = true -> pow_ok d1 = true -> pow_ok d2 = true -> is_float dE = true ->
  t * st <= flight_time mn (L2 * s2) (Ef * sE) ->
  is_nan h mn (energy_transfer_indirect_from_tof O (tv t st d_s dt) (tv L1 s1 d_m d1) (tv L2 s2 d_m d2) (tv Ef sE d_J dE))
         sE d_J (fdt2 dE dt).
Proof using Hh Hm.
  intros Ht Hst HL1 Hs1 HL2 Hs2 HE HsE ? ? ? ? Hphys.
  unfold flight_time in Hphys.
  all_dtypes; sem_eval; norm_sqrt Ef sE st s2;
    (replace (- (L2 * (slowness mn (Ef * sE) / (st / s2))) + t)
        with (t - L2 * (slowness mn (Ef * sE) / (st / s2))) by ring);
    (rewrite Rleb_true by (apply tof_units_le; assumption));
    (nan_intro; [reflexivity | first [reflexivity | unit_sqrt st s2]]).
Qed.

(* energy conservation: a neutron that flies L1 with Ei and L2 with Ef and is detected at
   t = L1/v(Ei) + L2/v(Ef) gets Ei - Ef, in the unit of the supplied energy *)
Lemma direct_conserves t st L1 s1 L2 s2 Ei sE Ef dt d1 d2 dE :
  t > 0 -> st > 0 -> L1 > 0 -> s1 > 0 -> L2 > 0 -> s2 > 0 -> Ei > 0 -> sE > 0 -> Ef > 0 ->
  pow_ok dt = true -> pow_ok d1 = true -> pow_ok d2 = true -> is_float dE = true ->
  t * st = flight_time mn (L1 * s1) (Ei * sE) + flight_time mn (L2 * s2) Ef ->
  is_qty h mn (energy_transfer_direct_from_tof O (tv t st d_s dt) (tv L1 s1 d_m d1) (tv L2 s2 d_m d2) (tv Ei sE d_J dE))
         (Ei * sE - Ef) sE d_J (fdt2 dE dt).
Proof using Hh Hm.
  intros Ht Hst HL1 Hs1 HL2 Hs2 HE HsE HEf ? ? ? ? Hphys.
  rewrite <- (direct_conservation mn Hm (L1 * s1) (L2 * s2) (Ei * sE) Ef) by pos.
  rewrite <- Hphys.
  apply direct_value; try assumption.
  rewrite Hphys. pose proof (slowness_pos mn Hm Ef HEf). unfold flight_time at 2.
  assert (0 < L2 * s2 * slowness mn Ef) by pos. lra.
Qed.
Lemma indirect_conserves t st L1 s1 L2 s2 Ei sE Ef dt d1 d2 dE :
  t > 0 -> st > 0 -> L1 > 0 -> s1 > 0 -> L2 > 0 -> s2 > 0 -> Ei > 0 -> sE > 0 -> Ef > 0 ->
  pow_ok dt = true -> pow_ok d1 = true -> pow_ok d2 = true -> is_float dE = true ->
  t * st = flight_time mn (L1 * s1) Ei + flight_time mn (L2 * s2) (Ef * sE) ->
  is_qty h mn (energy_transfer_indirect_from_tof O (tv t st d_s dt) (tv L1 s1 d_m d1) (tv L2 s2 d_m d2) (tv Ef sE d_J dE))
         (Ei - Ef * sE) sE d_J (fdt2 dE dt).
Proof using Hh Hm.
  intros Ht Hst HL1 Hs1 HL2 Hs2 HE HsE HEf ? ? ? ? Hphys.
  rewrite <- (indirect_conservation mn Hm (L1 * s1) (L2 * s2) Ei (Ef * sE)) by pos.
  rewrite <- Hphys.
  apply indirect_value; try assumption.
  rewrite Hphys. pose proof (slowness_pos mn Hm Ei HE). unfold flight_time at 1.
  assert (0 < L1 * s1 * slowness mn Ei) by pos. lra.
Qed.
End Tie.
