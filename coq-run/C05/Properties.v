(* C05/Properties.v — property theorems only (see C01/Properties.v for the reading guide).
   flight_time mn L E = L * sqrt(mn/(2E)) = L / v(E). *)
From Coq Require Import Reals ZArith String List Lra.
From Verif.Sem Require Import Field Val RInst RLemmas.
From Verif.C05 Require Import Spec.
From Run Require Import GenUtils GenTof Tie.
Open Scope R_scope.

Section P.
Variables h mn : R.
Hypothesis Hh : h > 0.
Hypothesis Hm : mn > 0.
Notation O := (ROps h mn).
Notation tv := (tvar h mn).

(* energy conservation, direct geometry: result Ei - Ef in the unit of the supplied Ei *)
Theorem C05_direct_conserves : forall t st L1 s1 L2 s2 Ei sE Ef dt d1 d2 dE,
  t > 0 -> st > 0 -> L1 > 0 -> s1 > 0 -> L2 > 0 -> s2 > 0 -> Ei > 0 -> sE > 0 -> Ef > 0 ->
  pow_ok dt = true -> pow_ok d1 = true -> pow_ok d2 = true -> is_float dE = true ->
  t * st = (L1 * s1) * sqrt (mn / (2 * (Ei * sE))) + (L2 * s2) * sqrt (mn / (2 * Ef)) ->
  is_qty h mn (energy_transfer_direct_from_tof O (tv t st d_s dt) (tv L1 s1 d_m d1) (tv L2 s2 d_m d2) (tv Ei sE d_J dE))
         (Ei * sE - Ef) sE d_J (fdt2 dE dt).
Proof using Hh Hm. exact (direct_conserves h mn Hh Hm). Qed.

Theorem C05_indirect_conserves : forall t st L1 s1 L2 s2 Ei sE Ef dt d1 d2 dE,
  t > 0 -> st > 0 -> L1 > 0 -> s1 > 0 -> L2 > 0 -> s2 > 0 -> Ei > 0 -> sE > 0 -> Ef > 0 ->
  pow_ok dt = true -> pow_ok d1 = true -> pow_ok d2 = true -> is_float dE = true ->
  t * st = (L1 * s1) * sqrt (mn / (2 * Ei)) + (L2 * s2) * sqrt (mn / (2 * (Ef * sE))) ->
  is_qty h mn (energy_transfer_indirect_from_tof O (tv t st d_s dt) (tv L1 s1 d_m d1) (tv L2 s2 d_m d2) (tv Ef sE d_J dE))
         (Ei - Ef * sE) sE d_J (fdt2 dE dt).
Proof using Hh Hm. exact (indirect_conserves h mn Hh Hm). Qed.

(* NaN exactly for arrival times at or before the flight time of the fixed-energy leg ... *)
Theorem C05_direct_nan : forall t st L1 s1 L2 s2 Ei sE dt d1 d2 dE,
  t > 0 -> st > 0 -> L1 > 0 -> s1 > 0 -> L2 > 0 -> s2 > 0 -> Ei > 0 -> sE > 0 ->
  pow_ok dt = true -> pow_ok d1 = true -> pow_ok d2 = true -> is_float dE = true ->
  t * st <= (L1 * s1) * sqrt (mn / (2 * (Ei * sE))) ->
  is_nan h mn (energy_transfer_direct_from_tof O (tv t st d_s dt) (tv L1 s1 d_m d1) (tv L2 s2 d_m d2) (tv Ei sE d_J dE))
         sE d_J (fdt2 dE dt).
Proof using Hh Hm. exact (direct_nan h mn Hh Hm). Qed.
Theorem C05_indirect_nan : forall t st L1 s1 L2 s2 Ef sE dt d1 d2 dE,
  t > 0 -> st > 0 -> L1 > 0 -> s1 > 0 -> L2 > 0 -> s2 > 0 -> Ef > 0 -> sE > 0 ->
  pow_ok dt = true -> pow_ok d1 = true -> pow_ok d2 = true -> is_float dE = true ->
  t * st <= (L2 * s2) * sqrt (mn / (2 * (Ef * sE))) ->
  is_nan h mn (energy_transfer_indirect_from_tof O (tv t st d_s dt) (tv L1 s1 d_m d1) (tv L2 s2 d_m d2) (tv Ef sE d_J dE))
         sE d_J (fdt2 dE dt).
Proof using Hh Hm. exact (indirect_nan h mn Hh Hm). Qed.

(* ... and a finite real number (the documented formula) strictly after it: never NaN, never infinite over R *)
Theorem C05_direct_value : forall t st L1 s1 L2 s2 Ei sE dt d1 d2 dE,
  t > 0 -> st > 0 -> L1 > 0 -> s1 > 0 -> L2 > 0 -> s2 > 0 -> Ei > 0 -> sE > 0 ->
  pow_ok dt = true -> pow_ok d1 = true -> pow_ok d2 = true -> is_float dE = true ->
  t * st > (L1 * s1) * sqrt (mn / (2 * (Ei * sE))) ->
  is_qty h mn (energy_transfer_direct_from_tof O (tv t st d_s dt) (tv L1 s1 d_m d1) (tv L2 s2 d_m d2) (tv Ei sE d_J dE))
         (dE_direct mn (t * st) (L1 * s1) (L2 * s2) (Ei * sE)) sE d_J (fdt2 dE dt).
Proof using Hh Hm. exact (direct_value h mn Hh Hm). Qed.
Theorem C05_indirect_value : forall t st L1 s1 L2 s2 Ef sE dt d1 d2 dE,
  t > 0 -> st > 0 -> L1 > 0 -> s1 > 0 -> L2 > 0 -> s2 > 0 -> Ef > 0 -> sE > 0 ->
  pow_ok dt = true -> pow_ok d1 = true -> pow_ok d2 = true -> is_float dE = true ->
  t * st > (L2 * s2) * sqrt (mn / (2 * (Ef * sE))) ->
  is_qty h mn (energy_transfer_indirect_from_tof O (tv t st d_s dt) (tv L1 s1 d_m d1) (tv L2 s2 d_m d2) (tv Ef sE d_J dE))
         (dE_indirect mn (t * st) (L1 * s1) (L2 * s2) (Ef * sE)) sE d_J (fdt2 dE dt).
Proof using Hh Hm. exact (indirect_value h mn Hh Hm). Qed.
End P.

(* hypotheses are satisfiable: Ei = 25 meV-ish numbers in SI-free form; L1 = 20, L2 = 3, Ef = 4, t = t0i + t0f *)
Example C05_nonvacuous : exists t : R,
  t > 0 /\ t * 1 = (20 * 1) * sqrt (2 / (2 * (25 * 1))) + (3 * 1) * sqrt (2 / (2 * 4)).
Proof.
  exists ((20 * 1) * sqrt (2 / (2 * (25 * 1))) + (3 * 1) * sqrt (2 / (2 * 4))). split; [| ring].
  assert (0 < sqrt (2 / (2 * (25 * 1)))) by (apply sqrt_lt_R0; lra).
  assert (0 < sqrt (2 / (2 * 4))) by (apply sqrt_lt_R0; lra). lra.
Qed.

Print Assumptions C05_direct_conserves.
Print Assumptions C05_indirect_conserves.
Print Assumptions C05_direct_nan.
Print Assumptions C05_indirect_nan.
Print Assumptions C05_direct_value.
Print Assumptions C05_indirect_value.
