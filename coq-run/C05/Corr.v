(* C05/Corr.v — executable model for the correspondence run (regenerated kernels over Q) and
   the condition-aware comparison (DESIGN.md C05). *)
From Coq Require Import QArith Qabs ZArith String List Bool.
From Verif.Sem Require Import Field Val QInst Corr.
From Run Require Import GenUtils GenTof.
Import ListNotations.
Open Scope string_scope.
Open Scope Q_scope.

Section D.
Variables h mn : Q.
Notation O := (QOps h mn).
Definition arg (l : list inp) (n : nat) : val O :=
  match nth_error l n with Some i => qv h mn i | None => VErr O "arity" end.
(* operands: tof, L1, L2, fixed energy *)
Definition run (name : string) (l : list inp) : val O :=
  let a := arg l in
  if String.eqb name "direct" then energy_transfer_direct_from_tof O (a 0%nat) (a 1%nat) (a 2%nat) (a 3%nat)
  else if String.eqb name "indirect" then energy_transfer_indirect_from_tof O (a 0%nat) (a 1%nat) (a 2%nat) (a 3%nat)
  else VErr O "unknown-kernel".
Definition t0_of (name : string) (l : list inp) : val O :=
  let a := arg l in
  if String.eqb name "direct" then p_energy_transfer_t0 O (a 3%nat) (a 0%nat) (a 1%nat)
  else p_energy_transfer_t0 O (a 3%nat) (a 0%nat) (a 2%nat).
Definition num (v : val O) : option Q :=
  match v with VVar _ (ENum _ x _) _ _ => Some x | _ => None end.

(* ktol = relative budget (1e-12 double / 2e-5 single; scipp's unit conversion factors alone
   are only good to ~4e-14).  Accept: inside a ktol-wide band around the NaN boundary either
   NaN or a finite value (never an infinity); outside it the NaN pattern must agree and
   |impl - model| <= ktol * ( t/(t-t0) * |free-leg energy| + |fixed energy| ). *)
Definition check (c : kcase) : string :=
  let m := run (kname c) (kins c) in
  match num (arg (kins c) 0), num (t0_of (kname c) (kins c)), num (arg (kins c) 3) with
  | Some t, Some t0, Some efix =>
      let band := Qle_bool (Qabs (t - t0)) (Qabs t0 * (ktol c)) in
      match kout c with
      | OutInf _ _ _ => "impl-infinite"
      | OutErr cls => match m with VErr _ _ => "" | _ => "impl-raises-" ++ cls end
      | OutNaN sc dm dt =>
          if band then "" else cmp_out h mn m (kout c) (ktol c)
      | OutVal v sc dm dt =>
          if band then ""
          else match m with
               | VVar _ (ENum _ x0 _) u d =>
                   let x : Q := x0 in
                   if negb (deqb (ud _ u) dm) then "unit-dimension"
                   else if negb (rel_close (us _ u) sc (1 # 1000000000000)) then "unit-multiplier"
                   else if negb (dtype_eqb d dt) then "dtype:model=" ++ dtype_name d ++ ",impl=" ++ dtype_name dt
                   else let free := Qabs (x - efix) + Qabs (x + efix) in
                        let cond := Qabs (t / (t - t0)) in
                        if Qle_bool (Qabs (v - x)) (ktol c * (cond * free + Qabs efix)) then ""
                        else if Qle_bool (Qabs (v - x)) ((2 # 100000) * (cond * free + Qabs efix))
                        then "value-single-precision-level" else "value"
               | VVar _ (ENaN _) _ _ => "model-NaN"
               | VErr _ e => "model-raises-" ++ e
               | _ => "shape"
               end
      | _ => "shape"
      end
  | _, _, _ => match m, kout c with VErr _ _, OutErr _ => "" | _, _ => "operands" end
  end.
End D.
