(* C06/Properties.v — the property theorems (nothing else), each closed by the
   lemma of Verif.C06.Proofs (structure of binned data) or of Tie.v (proved on
   the terms regenerated from /repo on this run), Print Assumptions beneath.

   Reading guide: [binned C W G] = event buffer (events carry a coordinate in C,
   a weight and a variance in W) + begin_/end_ per bin of the row-major
   flattened grid + per-pixel geometry in G + which dim of the grid carries the
   geometry.  [in_bin b i j]: buffer index j lies in [begin_i, end_i).
   [convert_binned k b]: what converting the event coordinate with the dense
   kernel [k] does (k is arbitrary: its meaning is C01/C05).  [bin_events b i]:
   the content of bin i as a user sees it.  [compact b]: scipp's copy of a
   non-contiguous binned array (slices, gaps, permuted storage). *)
From Coq Require Import ZArith String List Lia.
From Verif.Sem Require Import Field Val.
From Verif.C06 Require Import Model Proofs ModelH ProofsH.
From Run Require Import GenUtils Tie.
Import ListNotations.

(* bin_of: total, sound, and THE bin for non-overlapping layouts (empty bins,
   uneven bins, any storage order, gaps) *)
Theorem C06_bin_of_correct : forall (C W G : Type) (b : binned C W G) (i j : nat),
  non_overlapping b -> in_bin b i j -> bin_of b j = Some i.
Proof. exact bin_of_correct. Qed.

Theorem C06_bin_of_sound : forall (C W G : Type) (b : binned C W G) (j i : nat),
  bin_of b j = Some i -> in_bin b i j.
Proof. exact bin_of_sound. Qed.

Theorem C06_bin_of_total : forall (C W G : Type) (b : binned C W G) (j : nat),
  bin_of b j = None <-> (forall i, ~ in_bin b i j).
Proof. exact bin_of_none_iff. Qed.

(* every event gets exactly the value the dense formula gives for that event's
   coordinate combined with its pixel's geometry *)
Theorem C06_binned_pointwise : forall (C W G R : Type) (k : C -> G -> R) (b : binned C W G)
    (i j : nat) (e : event C W) (g : G),
  non_overlapping b ->
  nth_error (buffer b) j = Some e -> in_bin b i j -> geom_of b i = Some g ->
  nth_error (buffer (convert_binned k b)) j = Some (mkE (Some (k (coord e) g)) (weight e) (variance e)).
Proof. exact binned_pointwise. Qed.

(* the same through the public view: bin i after the conversion = the dense
   kernel mapped over bin i, with bin i's geometry, in the same order *)
Theorem C06_binned_bin_view : forall (C W G R : Type) (k : C -> G -> R) (b : binned C W G) (i : nat) (g : G),
  non_overlapping b -> geom_of b i = Some g ->
  bin_events (convert_binned k b) i
  = map (fun e => mkE (Some (k (coord e) g)) (weight e) (variance e)) (bin_events b i).
Proof. exact binned_bin_view. Qed.

(* weights, variances, event order, begin/end, bin membership, geometry *)
Theorem C06_binned_preserves : forall (C W G R : Type) (k : C -> G -> R) (b : binned C W G),
  let b' := convert_binned k b in
  begin_ b' = begin_ b /\ end_ b' = end_ b /\ geom b' = geom b /\ shape b' = shape b /\
  length (buffer b') = length (buffer b) /\
  map (@weight _ _) (buffer b') = map (@weight _ _) (buffer b) /\
  map (@variance _ _) (buffer b') = map (@variance _ _) (buffer b) /\
  (forall i j, in_bin b' i j <-> in_bin b i j) /\
  (forall i, map (@weight _ _) (bin_events b' i) = map (@weight _ _) (bin_events b i)) /\
  (forall i, map (@variance _ _) (bin_events b' i) = map (@variance _ _) (bin_events b i)) /\
  (forall i, length (bin_events b' i) = length (bin_events b i)).
Proof. exact binned_preserves. Qed.

(* the accompanying bin-edge coordinate goes through the same function of the same geometry *)
Theorem C06_edges_same_function : forall (C G R : Type) (k : C -> G -> R) (edges : list (list C)) (gs : list G)
    (p : nat) (es : list C) (g : G),
  nth_error edges p = Some es -> nth_error gs p = Some g ->
  nth_error (convert_edges k edges gs) p = Some (map (fun c => k c g) es).
Proof. exact edges_same_function. Qed.

Theorem C06_event_on_edge : forall (C W G R : Type) (k : C -> G -> R) (b : binned C W G) (edges : list (list C))
    (i j : nat) (e : event C W) (g : G) (es : list C) (t : nat),
  non_overlapping b ->
  nth_error (buffer b) j = Some e -> in_bin b i j -> geom_of b i = Some g ->
  nth_error edges (gidx (shape b) i) = Some es -> nth_error es t = Some (coord e) ->
  exists r es',
    option_map (@coord _ _) (nth_error (buffer (convert_binned k b)) j) = Some (Some r) /\
    nth_error (convert_edges k edges (geom b)) (gidx (shape b) i) = Some es' /\
    nth_error es' t = Some r.
Proof. exact event_on_edge. Qed.

(* for a kernel monotone in the event coordinate, events stay between their converted edges *)
Theorem C06_edges_bracket : forall (C W G R : Type) (k : C -> G -> R) (leC : C -> C -> Prop) (leR : R -> R -> Prop),
  (forall g x y, leC x y -> leR (k x g) (k y g)) ->
  forall (b : binned C W G) (edges : list (list C)) (i j : nat) (e : event C W) (g : G) (es : list C) (t : nat) (lo hi : C),
  non_overlapping b ->
  nth_error (buffer b) j = Some e -> in_bin b i j -> geom_of b i = Some g ->
  nth_error edges (gidx (shape b) i) = Some es ->
  nth_error es t = Some lo -> nth_error es (S t) = Some hi ->
  leC lo (coord e) -> leC (coord e) hi ->
  exists r es' lo' hi',
    option_map (@coord _ _) (nth_error (buffer (convert_binned k b)) j) = Some (Some r) /\
    nth_error (convert_edges k edges (geom b)) (gidx (shape b) i) = Some es' /\
    nth_error es' t = Some lo' /\ nth_error es' (S t) = Some hi' /\ leR lo' r /\ leR r hi'.
Proof. exact edges_bracket. Qed.

(* scipp's compaction of slices / gapped / permuted bins is invisible through the bins *)
Theorem C06_compact_view : forall (C W G : Type) (b : binned C W G), bins_view (compact b) = bins_view b.
Proof. exact compact_view. Qed.

(* the decidable layout checks run on every correspondence case imply the hypotheses above *)
Theorem C06_layout_checks_sound : forall (C W G : Type) (b : binned C W G),
  wfb b = true -> non_overlappingb b = true -> wf_geomb b = true ->
  wf b /\ non_overlapping b /\ wf_geom b.
Proof. intros C W G b H1 H2 H3. exact (conj (@wfb_sound _ _ _ b H1) (conj (@non_overlappingb_sound _ _ _ b H2) (@wf_geomb_sound _ _ _ b H3))). Qed.

(* elem_unit / elem_dtype as regenerated from _utils on this run: they select the element's unit / dtype *)
Theorem C06_elem_of_binned : forall (O : Fops) (e : elem O) (u : unit O) (d : dtype),
  elem_unit O (VVar O e u d) = VUnit O u /\ elem_dtype O (VVar O e u d) = VDType O d.
Proof. intros O e u d. exact (conj (elem_unit_selects O e u d) (elem_dtype_selects O e u d)). Qed.

(* ---- CALL HISTORIES (ModelH.v): events carry named coordinates; [convert_named k o t] is one
   convert(origin o -> target t) with dense kernel k: a name that already is an event coordinate is kept
   (fetched), otherwise t is computed from o with the geometry of the event's bin and added. *)

(* converting the result of a conversion again, to the same target, changes nothing *)
Theorem C06_reconvert_idempotent : forall (V W G : Type) (k : V -> G -> V) (o t : string) (b : binned (named V) W G),
  convert_named k o t (convert_named k o t b) = convert_named k o t b.
Proof. exact reconvert_idempotent. Qed.

(* ... so the second conversion again gives every event the dense value, weights and variances unchanged *)
Theorem C06_reconvert_dense_value : forall (V W G : Type) (k : V -> G -> V) (o t : string) (b : binned (named V) W G)
    (i j : nat) (e : event (named V) W) (g : G) (c : V),
  non_overlapping b ->
  nth_error (buffer b) j = Some e -> in_bin b i j -> geom_of b i = Some g ->
  lookup t (coord e) = None -> lookup o (coord e) = Some c ->
  exists e', nth_error (buffer (convert_named k o t (convert_named k o t b))) j = Some e' /\
             lookup t (coord e') = Some (k c g) /\ lookup o (coord e') = Some c /\
             weight e' = weight e /\ variance e' = variance e.
Proof. exact reconvert_dense_value. Qed.

(* an event coordinate named like the target that is already there (earlier conversion, precomputed in the
   file) is what the event carries afterwards: the event is unchanged *)
Theorem C06_existing_target_kept : forall (V W G : Type) (k : V -> G -> V) (o t : string) (b : binned (named V) W G)
    (i j : nat) (e : event (named V) W) (g : G) (v : V),
  non_overlapping b ->
  nth_error (buffer b) j = Some e -> in_bin b i j -> geom_of b i = Some g ->
  lookup t (coord e) = Some v ->
  nth_error (buffer (convert_named k o t b)) j = Some e.
Proof. exact existing_target_kept. Qed.

(* every coordinate an event carried before a call (unrelated ones, the origin, leftovers of earlier
   conversions) it carries afterwards with the same value; weight and variance too — any event, in a bin or not *)
Theorem C06_named_keeps_coordinates : forall (V W G : Type) (k : V -> G -> V) (o t : string) (b : binned (named V) W G)
    (j : nat) (e : event (named V) W) (n : string) (v : V),
  nth_error (buffer b) j = Some e -> lookup n (coord e) = Some v ->
  exists e', nth_error (buffer (convert_named k o t b)) j = Some e' /\ lookup n (coord e') = Some v /\
             weight e' = weight e /\ variance e' = variance e.
Proof. exact named_keeps_coordinates. Qed.

Theorem C06_named_preserves : forall (V W G : Type) (k : V -> G -> V) (o t : string) (b : binned (named V) W G),
  let b' := convert_named k o t b in
  begin_ b' = begin_ b /\ end_ b' = end_ b /\ geom b' = geom b /\ shape b' = shape b /\
  List.length (buffer b') = List.length (buffer b) /\
  map (@weight _ _) (buffer b') = map (@weight _ _) (buffer b) /\
  map (@variance _ _) (buffer b') = map (@variance _ _) (buffer b) /\
  (forall i j, in_bin b' i j <-> in_bin b i j).
Proof. exact named_preserves. Qed.

(* chains o1 -> t1 -> t2 (tof -> wavelength -> energy): the dense kernels composed, with the bin's geometry *)
Theorem C06_chain_pointwise : forall (V W G : Type) (k1 k2 : V -> G -> V) (o1 t1 t2 : string) (b : binned (named V) W G)
    (i j : nat) (e : event (named V) W) (g : G) (c : V),
  non_overlapping b ->
  nth_error (buffer b) j = Some e -> in_bin b i j -> geom_of b i = Some g ->
  t1 <> t2 -> o1 <> t2 ->
  lookup o1 (coord e) = Some c -> lookup t1 (coord e) = None -> lookup t2 (coord e) = None ->
  exists e', nth_error (buffer (convert_named k2 t1 t2 (convert_named k1 o1 t1 b))) j = Some e' /\
             lookup t2 (coord e') = Some (k2 (k1 c g) g) /\
             lookup t1 (coord e') = Some (k1 c g) /\ lookup o1 (coord e') = Some c /\
             weight e' = weight e /\ variance e' = variance e.
Proof. exact chain_pointwise. Qed.

(* two targets from one origin (tof -> t1, then tof -> t2 on the result): the leftover t1 does not disturb t2 *)
Theorem C06_fork_pointwise : forall (V W G : Type) (k1 k2 : V -> G -> V) (o t1 t2 : string) (b : binned (named V) W G)
    (i j : nat) (e : event (named V) W) (g : G) (c : V),
  non_overlapping b ->
  nth_error (buffer b) j = Some e -> in_bin b i j -> geom_of b i = Some g ->
  t1 <> t2 ->
  lookup o (coord e) = Some c -> lookup t2 (coord e) = None ->
  exists e', nth_error (buffer (convert_named k2 o t2 (convert_named k1 o t1 b))) j = Some e' /\
             lookup t2 (coord e') = Some (k2 c g) /\ lookup o (coord e') = Some c.
Proof. exact fork_pointwise. Qed.

(* satisfiable: the 7-event example with named coordinates, event 5 in bin 3 (geometry 200) *)
Local Open Scope nat_scope.
Example C06_history_nonvacuous :
  non_overlapping ex_named /\ in_bin ex_named 3 5 /\ geom_of ex_named 3 = Some 200 /\
  (exists e c, nth_error (buffer ex_named) 5 = Some e /\ lookup "tof"%string (coord e) = Some c /\
               lookup "wavelength"%string (coord e) = None /\ lookup "energy"%string (coord e) = None) /\
  "wavelength"%string <> "energy"%string /\ "tof"%string <> "energy"%string.
Proof.
  split; [exact (proj2 (proj2 ex_wf))|].
  split; [exists 5, 6; split; [reflexivity | lia]|].
  split; [reflexivity|].
  split; [eexists; eexists; repeat split; reflexivity|].
  split; discriminate.
Qed.

(* the hypotheses are satisfiable: 7 events, a 2 x 3 grid stored out of order with an empty bin and a gap *)
Local Open Scope nat_scope.
Example C06_nonvacuous :
  wf ex_b /\ wf_geom ex_b /\ non_overlapping ex_b /\ in_bin ex_b 3 5 /\ geom_of ex_b 3 = Some 200 /\
  map (bin_of ex_b) (seq 0 8) = [Some 1; Some 1; None; Some 0; Some 0; Some 3; Some 4; None].
Proof.
  destruct ex_wf as (H1 & H2 & H3).
  split; [exact H1|]. split; [exact H2|]. split; [exact H3|].
  split; [exists 5, 6; split; [reflexivity | lia]|].
  split; reflexivity.
Qed.

Print Assumptions C06_bin_of_correct.
Print Assumptions C06_bin_of_sound.
Print Assumptions C06_bin_of_total.
Print Assumptions C06_binned_pointwise.
Print Assumptions C06_binned_bin_view.
Print Assumptions C06_binned_preserves.
Print Assumptions C06_edges_same_function.
Print Assumptions C06_event_on_edge.
Print Assumptions C06_edges_bracket.
Print Assumptions C06_compact_view.
Print Assumptions C06_layout_checks_sound.
Print Assumptions C06_elem_of_binned.
Print Assumptions C06_reconvert_idempotent.
Print Assumptions C06_reconvert_dense_value.
Print Assumptions C06_existing_target_kept.
Print Assumptions C06_named_keeps_coordinates.
Print Assumptions C06_named_preserves.
Print Assumptions C06_chain_pointwise.
Print Assumptions C06_fork_pointwise.
