(* C06/Tie.v — obligations on the terms REGENERATED from
   /repo/src/scippneutron/_utils/__init__.py on this run (Run.GenUtils):
   what elem_unit / elem_dtype (and the two helpers built on them) select.

   Reading guide.  In the semantic domain of Sem/Val.v an operand of a kernel IS
   one element of it: [VVar e u d] = element value, unit, dtype.  For a binned
   operand these are the EVENT BUFFER's element, unit and dtype (a binned
   variable's own .unit/.dtype forward to the buffer's in scipp 25.4, probed),
   and [py_attr v "bins"] is modelled as None.  The lemmas below therefore say:
   whatever the element is, the helpers return the element's unit / dtype and
   never anything else (no default, no unit of a container).  That the
   `bins is not None` branch of the real functions returns the buffer's unit and
   dtype on real binned operands is observed by the harness on every programme
   (flag elem-unit-dtype); it is not provable in this model. *)
From Coq Require Import ZArith String List.
From Verif.Sem Require Import Field Val.
From Run Require Import GenUtils.

Section Tie.
Variable O : Fops.

Lemma elem_unit_selects (e : elem O) (u : unit O) (d : dtype) :
  elem_unit O (VVar O e u d) = VUnit O u.
Proof using. reflexivity. Qed.

Lemma elem_dtype_selects (e : elem O) (u : unit O) (d : dtype) :
  elem_dtype O (VVar O e u d) = VDType O d.
Proof using. reflexivity. Qed.

(* float32 stays float32, everything else is computed in float64 *)
Lemma float_dtype_selects (e : elem O) (u : unit O) (d : dtype) :
  float_dtype O (VVar O e u d) = VDType O (match d with DF32 => DF32 | _ => DF64 end).
Proof using. destruct d; reflexivity. Qed.

(* as_float_type changes the dtype only: value and unit of the element are kept *)
Lemma as_float_type_keeps_value (x : F O) (iz : option Z) (u u' : unit O) (d d' : dtype) (e' : elem O) :
  as_float_type O (VVar O (ENum O x iz) u d) (VVar O e' u' d')
  = VVar O (ENum O x iz) u (match d' with DF32 => DF32 | _ => DF64 end).
Proof using. destruct d'; reflexivity. Qed.

(* errors are propagated, not replaced by a default unit / dtype *)
Lemma elem_unit_error s : elem_unit O (VErr O s) = VErr O s.
Proof using. reflexivity. Qed.
Lemma elem_dtype_error s : elem_dtype O (VErr O s) = VErr O s.
Proof using. reflexivity. Qed.
End Tie.
