(* C17/Properties.v — the property theorems (nothing else), each closed by a lemma of coq/C17/Proofs*.v,
   with Print Assumptions at the end of the file.

   Reading guide.  [fit_peaks V lt next_up guess curve_fit feval ln chi2cdf] is the executable model
   (coq/C17/Model.v) of scippneutron.peaks.fit_peaks; the eight parameters are
     V         which of the three switchable orders of the source is modelled (V_orig = tree as found,
               V_fixed = with notes/fixes/C17_*.patch); WHICH ONE THE CURRENT SOURCE IS is decided on
               every run by the correspondence (coq-run/C17/Corr.v runs the model against the implementation)
     lt        `<` on binary64 operands          next_up   np.nextafter(., inf)
     guess     Model.guess                        curve_fit scipp.scipy.optimize.curve_fit   (ORACLES:
     feval     model(x; params)  (C16)            ln, chi2cdf  log and scipy.stats.chi2(dof).cdf    arbitrary)
   Every theorem below is quantified over ALL oracles (the Section variables), i.e. it holds for every
   behaviour of the optimiser, including raising RuntimeError for any subset of the peaks. *)
From Coq Require Import QArith Qabs ZArith String List Bool.
From Verif.C17 Require Import Model ModelOrder Proofs ProofsOrder ProofsWindows ProofsRemove ProofsTotal ProofsRefuted
  ProofsGuard ProofsRemoveSeq.
Import ListNotations.
Open Scope Q_scope.

Section P.
Variable V : variant.
Variable lt : Q -> Q -> bool.
Variable next_up : Q -> Q.
Variable guess : string -> mkind -> list pt -> res params.
Variable curve_fit : fitmodel -> list pt -> params -> bounds -> fit_outcome.
Variable feval : fitmodel -> params -> Q -> Q.
Variable ln : Q -> Q.
Variable chi2cdf : Z -> Q -> Q.

Notation fit_peaks' := (fit_peaks V lt next_up guess curve_fit feval ln chi2cdf).
Notation fit_peak' := (fit_peak V lt guess curve_fit feval ln chi2cdf).
Notation single' := (fit_peak_single_model V lt guess curve_fit feval ln chi2cdf).
Notation goodness' := (goodness feval ln chi2cdf).

(* ---- exactly one result per peak estimate, in order; result i depends only on the data in window i *)
Theorem C17_one_result_per_estimate : forall d cs wsp bspec pspec fp fr rs,
  fit_peaks' d cs wsp bspec pspec fp fr = Ok rs ->
  exists bks pks ws,
    parse_model_spec bspec = Ok bks /\ parse_model_spec pspec = Ok pks /\
    match wsp with
    | WScalar width => fit_windows V next_up (map px d) cs width fp = Ok ws /\ length ws = length cs
    | WExplicit l => ws = l
    end /\
    length rs = length ws /\
    Forall2 (fun w r => r_window r = w /\
                        exists dw, slice_labels d (fst w) (snd w) = Ok dw /\
                                   fit_peak' dw w bks pks fp fr = Ok r) ws rs.
Proof. exact (one_result_per_estimate V lt next_up guess curve_fit feval ln chi2cdf). Qed.

Theorem C17_peak_independence : forall d d' cs cs' ws bspec pspec fp fr rs rs' i w,
  fit_peaks' d cs (WExplicit ws) bspec pspec fp fr = Ok rs ->
  fit_peaks' d' cs' (WExplicit ws) bspec pspec fp fr = Ok rs' ->
  nth_error ws i = Some w ->
  slice_labels d (fst w) (snd w) = slice_labels d' (fst w) (snd w) ->
  nth_error rs i = nth_error rs' i.
Proof. exact (peak_independence V lt next_up guess curve_fit feval ln chi2cdf). Qed.

(* ---- model selection: for LISTS of models the combinations are tried in the documented order
   (peak outer, background inner: "the background is varied first") and the first success wins; stated against the
   fits of every combination ON ITS OWN (single-model specifications, same window) *)
Theorem C17_documented_order : forall (pks bks : list mkind) i j p b,
  nth_error pks i = Some p -> nth_error bks j = Some b ->
  nth_error (candidates pks bks) (candidate_index (length bks) i j) = Some (p, b).
Proof. exact candidates_order. Qed.

Theorem C17_first_success_in_documented_order : forall d w bks pks fp fr solos,
  pks <> [] -> bks <> [] ->
  Forall2 (fun pb r => fit_peak' d w [snd pb] [fst pb] fp fr = Ok r) (candidates pks bks) solos ->
  exists r, first_success solos = Some r /\ fit_peak' d w bks pks fp fr = Ok r.
Proof. exact (fit_peak_is_first_success_of_solo_fits V lt guess curve_fit feval ln chi2cdf). Qed.

Theorem C17_earliest_success_wins : forall d w bks pks fp fr solos pre r post,
  pks <> [] -> bks <> [] ->
  Forall2 (fun pb r => fit_peak' d w [snd pb] [fst pb] fp fr = Ok r) (candidates pks bks) solos ->
  solos = (pre ++ r :: post)%list -> Forall (fun x => res_success x = false) pre -> res_success r = true ->
  fit_peak' d w bks pks fp fr = Ok r.
Proof. exact (fit_peak_earliest_success V lt guess curve_fit feval ln chi2cdf). Qed.

(* ---- a window with too few points is a RESULT (guard first) ... *)
Theorem C17_narrow_window_is_result : guard_first V = true ->
  forall d pk bk w fp fr, (length d < n_params pk bk)%nat ->
  single' d pk bk w fp fr = Ok (for_too_narrow_window pk bk w).
Proof. exact (narrow_window_is_result V lt guess curve_fit feval ln chi2cdf). Qed.

Theorem C17_narrow_window_fit_peak : guard_first V = true ->
  forall d w pk bk pks bks fp fr,
  (forall p b, In p (pk :: pks) -> In b (bk :: bks) -> (length d < n_params p b)%nat) ->
  fit_peak' d w (bk :: bks) (pk :: pks) fp fr = Ok (for_too_narrow_window pk bk w).
Proof. exact (narrow_window_fit_peak V lt guess curve_fit feval ln chi2cdf). Qed.

(* ---- the guard is per (peak, background) combination: `window_too_narrow` only for a combination with more
   parameters than the window has points; for model LISTS with different parameter counts the list result is too narrow
   only as the result of the FIRST combination, and a later combination with enough points that succeeds is returned *)
Theorem C17_narrow_only_for_that_combination : forall d pk bk w fp fr r,
  single' d pk bk w fp fr = Ok r -> r_assess r = window_too_narrow -> (length d < n_params pk bk)%nat.
Proof. exact (narrow_only_when_too_few_points V lt guess curve_fit feval ln chi2cdf). Qed.

Theorem C17_narrow_list_result_is_first_combination : forall d w pk bk pks bks fp fr r,
  fit_peak' d w (bk :: bks) (pk :: pks) fp fr = Ok r -> r_assess r = window_too_narrow ->
  single' d pk bk w fp fr = Ok r /\ r_peak r = pk /\ r_bkg r = bk /\ (length d < n_params pk bk)%nat.
Proof. exact (narrow_list_result_is_first_combination V lt guess curve_fit feval ln chi2cdf). Qed.

Theorem C17_narrow_result_names_its_combination : forall d w bks pks fp fr r,
  fit_peak' d w bks pks fp fr = Ok r -> r_assess r = window_too_narrow ->
  In (r_peak r) pks /\ In (r_bkg r) bks /\ (length d < n_params (r_peak r) (r_bkg r))%nat.
Proof. exact (narrow_result_names_its_combination V lt guess curve_fit feval ln chi2cdf). Qed.

Theorem C17_success_after_too_narrow_combinations : guard_first V = true ->
  forall d w fp fr pre pk bk post r,
  (forall p b, In (p, b) pre -> (length d < n_params p b)%nat) ->
  single' d pk bk w fp fr = Ok r -> r_assess r = success ->
  fit_peak_go V lt guess curve_fit feval ln chi2cdf d w (pre ++ (pk, bk) :: post) None fp fr = Ok r.
Proof. exact (success_after_too_narrow_combinations V lt guess curve_fit feval ln chi2cdf). Qed.

(* ... but the FULL statement is false of the tree as found (pre-finding F7): the guesses run before the guard *)
Theorem C17_narrow_window_raises_refuted :
  (forall pre m, exists msg, guess pre m [] = Raise (ValueError msg)) -> guard_first V = false ->
  exists d cs ws bspec pspec fp fr e,
    sorted_asc (map px d) = true /\ (forall w, In w ws -> fst w <= snd w) /\
    parse_model_spec bspec = Ok [MPoly 1] /\ parse_model_spec pspec = Ok [MPeak Gaussian] /\
    (forall w dw, In w ws -> slice_labels d (fst w) (snd w) = Ok dw ->
                  (length dw < n_params (MPeak Gaussian) (MPoly 1))%nat) /\
    fit_peaks' d cs (WExplicit ws) bspec pspec fp fr = Raise e.
Proof. exact (narrow_window_raises_refuted V lt next_up guess curve_fit feval ln chi2cdf). Qed.

(* ---- no exception for admissible input (guard first; automatic windows: clip last) *)
Theorem C17_no_exception_explicit_windows :
  (forall a b, lt a b = true <-> a < b) ->
  (forall pre m d, d <> [] -> exists p, guess pre m d = Ok p) ->
  (forall fm d p0 b popt, curve_fit fm d p0 b = FitOk popt -> map fst popt = fm_names fm) ->
  guard_first V = true ->
  forall d cs ws bspec pspec bks pks fp fr,
  sorted_asc (map px d) = true ->
  parse_model_spec bspec = Ok bks -> parse_model_spec pspec = Ok pks ->
  pks <> [] -> bks <> [] -> Forall peak_kind pks -> Forall bkg_kind bks ->
  2 # 5 <= guess_background_fraction fp -> guess_background_fraction fp < 1 ->
  (forall w, In w ws -> fst w <= snd w) ->
  (forall w, In w ws -> regular (map px (filter (fun p => in_window (fst w) (snd w) (px p)) d))) ->
  exists rs, fit_peaks' d cs (WExplicit ws) bspec pspec fp fr = Ok rs /\ length rs = length ws.
Proof. exact (fit_peaks_total_explicit V lt next_up guess curve_fit feval ln chi2cdf). Qed.

Theorem C17_no_exception_automatic_windows :
  (forall a b, lt a b = true <-> a < b) -> (forall x, x < next_up x) ->
  (forall pre m d, d <> [] -> exists p, guess pre m d = Ok p) ->
  (forall fm d p0 b popt, curve_fit fm d p0 b = FitOk popt -> map fst popt = fm_names fm) ->
  guard_first V = true -> clip_last V = true ->
  forall d cs width bspec pspec bks pks fp fr,
  d <> [] -> sorted_asc (map px d) = true -> sorted_asc cs = true -> 0 <= width ->
  0 <= neighbor_separation_factor fp -> neighbor_separation_factor fp <= 1 ->
  parse_model_spec bspec = Ok bks -> parse_model_spec pspec = Ok pks ->
  pks <> [] -> bks <> [] -> Forall peak_kind pks -> Forall bkg_kind bks ->
  2 # 5 <= guess_background_fraction fp -> guess_background_fraction fp < 1 ->
  (forall lo hi, regular (map px (filter (fun p => in_window lo hi (px p)) d))) ->
  exists rs, fit_peaks' d cs (WScalar width) bspec pspec fp fr = Ok rs /\ length rs = length cs.
Proof. exact (fit_peaks_total_scalar V lt next_up guess curve_fit feval ln chi2cdf). Qed.

(* ---- reported statistics are those recomputed from the returned parameters and the window's points *)
Theorem C17_stats_are_recomputed : forall d cs wsp bspec pspec fp fr rs i r,
  fit_peaks' d cs wsp bspec pspec fp fr = Ok rs -> nth_error rs i = Some r ->
  r_assess r <> failed -> r_assess r <> window_too_narrow ->
  exists dw popt p0 bnds bkg,
    slice_labels d (fst (r_window r)) (snd (r_window r)) = Ok dw /\
    curve_fit (FSum (r_bkg r) (r_peak r)) dw p0 bnds = FitOk popt /\
    r_popt r = xpopt popt /\
    r_stats r = goodness' dw (FSum (r_bkg r) (r_peak r)) popt /\
    assess_fit V lt dw (r_peak r) popt (r_stats r) bkg fr = Ok (r_assess r).
Proof. exact (stats_are_recomputed_fit_peaks V lt next_up guess curve_fit feval ln chi2cdf). Qed.

(* chi2 = sum over exactly the window's points of ((y_i - f(x_i; popt))^2 / var_i);
   red_chisq = chi2/(n-k), p = 1 - F_{n-k}(chi2), aic = n ln(chi2/n) + 2k *)
Theorem C17_goodness_formulas : forall d fm popt,
  let n := length d in let k := length popt in
  let chi2 := chi_square feval d fm popt in
  let st := goodness' d fm popt in
  chi2 == chi2_sum d (feval fm popt) /\
  ((k < n)%nat -> red_chisq st = Fin (chi2 / inject_Z (Z.of_nat n - Z.of_nat k)) /\
                  p_value st = Fin (1 - chi2cdf (Z.of_nat n - Z.of_nat k) chi2)) /\
  ((0 < n)%nat -> ~ chi2 == 0 -> aic st = Fin (nq n * ln (chi2 / nq n) + 2 * nq k)) /\
  (n = k -> p_value st = NaN).
Proof. exact (goodness_spec feval ln chi2cdf). Qed.

(* ---- a result marked successful satisfies every stated requirement *)
Theorem C17_success_meets_requirements : (forall a b, lt a b = true <-> a < b) ->
  forall d pk bk w fp fr r,
  single' d pk bk w fp fr = Ok r -> r_assess r = success ->
  exists popt bkg,
    r_popt r = xpopt popt /\ r_stats r = goodness' d (FSum bk pk) popt /\
    requirements_met V lt d pk popt (r_stats r) bkg fr.
Proof. exact (success_meets_requirements V lt guess curve_fit feval ln chi2cdf). Qed.

Theorem C17_success_p_value : (forall a b, lt a b = true <-> a < b) -> nan_p_fails V = true ->
  forall d pk bk w fp fr r,
  single' d pk bk w fp fr = Ok r -> r_assess r = success ->
  exists p, p_value (r_stats r) = Fin p /\ min_p_value fr <= p.
Proof. exact (success_p_value V lt guess curve_fit feval ln chi2cdf). Qed.

(* ---- automatically built windows *)
Theorem C17_windows_ok : (forall x, x < next_up x) -> clip_last V = true ->
  forall xs cs width fp ws,
  xs <> [] -> 0 <= width ->
  0 <= neighbor_separation_factor fp -> neighbor_separation_factor fp <= 1 ->
  fit_windows V next_up xs cs width fp = Ok ws ->
  length ws = length cs /\
  forall i w, nth_error ws i = Some w ->
    exists c, nth_error cs i = Some c /\
      window_ok (qmin_list xs) (qmax_list xs) (neighbor_separation_factor fp) c
                (neighbour cs i true) (neighbour cs i false) w.
Proof. exact (windows_ok V next_up). Qed.

Theorem C17_windows_ok_in_range : (forall x, x < next_up x) ->
  forall xs cs width fp ws,
  0 <= width -> 0 <= neighbor_separation_factor fp -> neighbor_separation_factor fp <= 1 ->
  fit_windows V next_up xs cs width fp = Ok ws ->
  length ws = length cs /\
  forall i w, nth_error ws i = Some w ->
    exists c, nth_error cs i = Some c /\
      (qmin_list xs <= c -> c <= qmax_list xs ->
       window_ok_in_range (qmin_list xs) (qmax_list xs) (neighbor_separation_factor fp) c
                          (neighbour cs i true) (neighbour cs i false) w).
Proof. exact (windows_ok_in_range V next_up). Qed.

End P.

(* the window clause is false of the tree as found for an estimate beyond the data with a neighbour ... *)
Theorem C17_windows_inverted_refuted :
  exists xs cs width fp ws w,
    sorted_asc cs = true /\ 0 <= width /\ 0 <= neighbor_separation_factor fp <= 1 /\
    fit_windows V_orig nu xs cs width fp = Ok ws /\ nth_error ws 1 = Some w /\
    snd w < fst w /\ qmax_list xs < fst w.
Proof. exact windows_inverted_refuted. Qed.

(* ... and fit_peaks then raises, whatever the oracles do *)
Theorem C17_inverted_window_raises_refuted :
  forall lt guess curve_fit feval ln chi2cdf,
  exists e, fit_peaks V_orig lt nu guess curve_fit feval ln chi2cdf (grid 11) [5; 100] (WScalar 3)
                      (SOne (SName "linear")) (SOne (SName "gaussian")) FP0 FR0 = Raise e.
Proof. exact inverted_window_raises_refuted. Qed.

(* `success` with p = NaN on the tree as found (as many parameters as points) *)
Theorem C17_success_nan_p_refuted :
  exists d pk bk w r,
    fit_peak_single_model V_orig Qltb toy_guess toy_curve_fit toy_feval toy_ln toy_cdf d pk bk w FP0 FR0 = Ok r /\
    r_assess r = success /\ p_value (r_stats r) = NaN /\ red_chisq (r_stats r) = PInf /\
    length d = n_params pk bk.
Proof. exact success_nan_p_refuted. Qed.

(* ---- peak removal *)
Theorem C17_remove_peaks_frame : forall peval d rs, valid_windows rs ->
  exists out, remove_peaks peval false d rs = Ok out /\
    length out = length d /\
    forall i p, nth_error d i = Some p ->
      exists o, nth_error out i = Some o /\
        fst o = fst p /\
        snd o == snd p - total_sub peval rs (fst p) /\
        (untouched rs (fst p) = true -> o = p).
Proof. exact remove_peaks_frame. Qed.

Theorem C17_remove_peaks_refuses_variances : forall peval d rs,
  exists m, remove_peaks peval true d rs = Raise (VariancesError m).
Proof. exact remove_peaks_refuses_variances. Qed.

(* ---- removal depends on the SEQUENCE of results only (whatever Iterable carries it): pieces, dropped failures *)
Theorem C17_remove_peaks_in_pieces : forall peval v rs1 rs2 d,
  remove_peaks peval v d (rs1 ++ rs2) =
  bind (remove_peaks peval v d rs1) (fun d' => if v then Ok d' else remove_go peval rs2 d').
Proof. exact remove_peaks_in_pieces. Qed.

Theorem C17_remove_peaks_ignores_unsuccessful : forall peval v rs d,
  remove_peaks peval v d (filter res_success rs) = remove_peaks peval v d rs.
Proof. exact remove_peaks_ignores_unsuccessful. Qed.

Theorem C17_remove_peaks_nothing_successful : forall peval rs d,
  forallb (fun r => negb (res_success r)) rs = true -> remove_peaks peval false d rs = Ok d.
Proof. exact remove_peaks_nothing_successful. Qed.

Print Assumptions C17_one_result_per_estimate.
Print Assumptions C17_peak_independence.
Print Assumptions C17_documented_order.
Print Assumptions C17_first_success_in_documented_order.
Print Assumptions C17_earliest_success_wins.
Print Assumptions C17_narrow_window_is_result.
Print Assumptions C17_narrow_window_fit_peak.
Print Assumptions C17_narrow_window_raises_refuted.
Print Assumptions C17_no_exception_explicit_windows.
Print Assumptions C17_no_exception_automatic_windows.
Print Assumptions C17_stats_are_recomputed.
Print Assumptions C17_goodness_formulas.
Print Assumptions C17_success_meets_requirements.
Print Assumptions C17_success_p_value.
Print Assumptions C17_windows_ok.
Print Assumptions C17_windows_ok_in_range.
Print Assumptions C17_windows_inverted_refuted.
Print Assumptions C17_inverted_window_raises_refuted.
Print Assumptions C17_success_nan_p_refuted.
Print Assumptions C17_remove_peaks_frame.
Print Assumptions C17_remove_peaks_refuses_variances.
Print Assumptions C17_narrow_only_for_that_combination.
Print Assumptions C17_narrow_list_result_is_first_combination.
Print Assumptions C17_narrow_result_names_its_combination.
Print Assumptions C17_success_after_too_narrow_combinations.
Print Assumptions C17_remove_peaks_in_pieces.
Print Assumptions C17_remove_peaks_ignores_unsuccessful.
Print Assumptions C17_remove_peaks_nothing_successful.
