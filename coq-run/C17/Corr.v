(* C17/Corr.v — the correspondence run: the executable model of coq/C17/Model.v is instantiated with
   the ORACLE ANSWERS recorded from the implementation (curve_fit results, model evaluations,
   chi-square CDF values) and run, inside Coq, on the same data; its complete output (exception
   class, or per peak: window, chosen models, assessment, popt, statistics, message) is compared
   with what the implementation returned.  Nothing here is proved; it is evaluated by vm_compute. *)
From Coq Require Import QArith Qabs ZArith String List Bool Floats.
From Verif.C17 Require Import Model ModelOrder QFun.
Import ListNotations.
Open Scope string_scope.
Open Scope Q_scope.

(* binary64 inputs are written as primitive-float hexadecimal literals (exact) and converted to exact
   rationals here; nothing is computed in floating point *)
Definition FQ (f : float) : Q :=
  match Prim2SF f with
  | S754_finite s m e =>
      let z := if s then Zneg m else Zpos m in
      if (0 <=? e)%Z then inject_Z (z * 2 ^ e) else Qred (Qmake z (Z.to_pos (2 ^ (- e))))
  | _ => 0
  end.
Definition P (x y v : float) : pt := mkpt (FQ x) (FQ y) (FQ v).
Definition W (a b : float) : Q * Q := (FQ a, FQ b).
Definition QL (l : list float) : list Q := map FQ l.

(* ------------------------------------------------------------------ recorded oracle answers *)
Record tentry := mkT {
  te_fm : fitmodel; te_n : nat; te_x0 : Q; te_bounds : bounds;
  te_out : fit_outcome;
  te_f : list (Q * Q)            (* (x, model(x; popt)) on the window, as evaluated by the implementation *)
}.
Record centry := mkC { ce_dof : Z; ce_x : Q; ce_cdf : Q }.

Inductive obs := ObsRaise (cls : string) | ObsResults (rs : list fitres).
Inductive robs := RRaise (cls : string) | ROut (ys : list Q).
Record rres := mkRR { rr_res : fitres; rr_vals : list Q }.
(* the same call with the results handed over in another Iterable form (tuple, iterator, generator, filter, map,
   dict values view, deque, chain, plain iterable object): what the implementation returned and its input afterwards *)
Record rform := mkRF { rf_form : string; rf_obs : robs; rf_after : list Q }.
Record rcase := mkRC { rc_label : string; rc_hasvar : bool; rc_data : list (Q * Q); rc_results : list rres;
                       rc_obs : robs; rc_after : list Q; rc_more : list rform }.
(* one (peak, background) combination of the model lists fitted ON ITS OWN by the implementation (single-model
   specification, the windows of the list call given explicitly): its per-peak results *)
Record solo := mkS { s_pk : mkind; s_bk : mkind; s_res : list fitres }.
Record fcase := mkF {
  c_data : list pt; c_est : list Q; c_wspec : wspec; c_obswin : option (list (Q * Q));
  c_bspec : mspec; c_pspec : mspec; c_fp : fit_parameters; c_fr : fit_requirements;
  c_trace : list tentry; c_cdf : list centry; c_obs : obs; c_removes : list rcase;
  c_solos : list solo }.

(* ------------------------------------------------------------------ equality helpers *)
Definition pkind_eqb (a b : pkind) : bool :=
  match a, b with Gaussian, Gaussian | Lorentzian, Lorentzian | PseudoVoigt, PseudoVoigt => true | _, _ => false end.
Definition mkind_eqb (a b : mkind) : bool :=
  match a, b with
  | MPeak p, MPeak q => pkind_eqb p q
  | MPoly d, MPoly e => Nat.eqb d e
  | _, _ => false
  end.
Definition fm_eqb (a b : fitmodel) : bool :=
  match a, b with
  | FBkg x, FBkg y => mkind_eqb x y
  | FSum x p, FSum y q => mkind_eqb x y && mkind_eqb p q
  | _, _ => false
  end.
Definition xnum_eqb (a b : xnum) : bool :=
  match a, b with
  | Fin x, Fin y => Qeq_bool x y
  | PInf, PInf | NInf, NInf | NaN, NaN => true
  | _, _ => false
  end.
Fixpoint list_eqb {A} (f : A -> A -> bool) (a b : list A) : bool :=
  match a, b with
  | [], [] => true
  | x :: s, y :: t => f x y && list_eqb f s t
  | _, _ => false
  end.
Definition params_eqb : params -> params -> bool :=
  list_eqb (fun a b => String.eqb (fst a) (fst b) && Qeq_bool (snd a) (snd b)).
Definition bounds_eqb : bounds -> bounds -> bool :=
  list_eqb (fun a b => String.eqb (fst a) (fst b) && xnum_eqb (fst (snd a)) (fst (snd b))
                       && xnum_eqb (snd (snd a)) (snd (snd b))).
(* the model lists bounds as it builds them; the implementation's dict is compared as a set *)
Fixpoint insert_b (b : string * (xnum * xnum)) (l : bounds) : bounds :=
  match l with
  | [] => [b]
  | c :: t => if String.leb (fst b) (fst c) then b :: l else c :: insert_b b t
  end.
Definition sort_b (l : bounds) : bounds := fold_right insert_b [] l.

(* ------------------------------------------------------------------ oracle instances *)
Definition hd_x (d : list pt) : Q := match d with [] => 0 | p :: _ => px p end.

Definition cf_inst (tr : list tentry) (fm : fitmodel) (d : list pt) (p0 : params) (b : bounds) : fit_outcome :=
  match find (fun e => fm_eqb (te_fm e) fm && Nat.eqb (te_n e) (List.length d)
                       && Qeq_bool (te_x0 e) (hd_x d)) tr with
  | Some e => if bounds_eqb (sort_b (te_bounds e)) (sort_b b) then te_out e
              else FitRuntimeError "MODEL-BOUNDS-DIFFER-FROM-THOSE-PASSED-TO-CURVE-FIT"
  | None => FitRuntimeError "NO-SUCH-CURVE-FIT-CALL-IN-THE-IMPLEMENTATION"
  end.

Fixpoint assocq (x : Q) (l : list (Q * Q)) : option Q :=
  match l with
  | [] => None
  | (a, v) :: t => if Qeq_bool a x then Some v else assocq x t
  end.
Definition feval_inst (tr : list tentry) (fm : fitmodel) (popt : params) : Q -> Q :=
  match find (fun e => fm_eqb (te_fm e) fm
                       && match te_out e with FitOk p => params_eqb p popt | _ => false end) tr with
  | Some e => let tbl := te_f e in fun x => match assocq x tbl with Some v => v | None => 0 end
  | None => fun _ => 0
  end.

Definition qclose (rel : Q) (a b : Q) : bool := Qle_bool (Qabs (a - b)) (rel * (Qabs a + Qabs b)).
Definition cdf_inst (cs : list centry) (dof : Z) (x : Q) : Q :=
  match find (fun e => Z.eqb (ce_dof e) dof && qclose (1 # 1000000000) (ce_x e) x) cs with
  | Some e => ce_cdf e
  | None => (-1)      (* "no such CDF evaluation": p = 2, reported as a statistics mismatch *)
  end.

(* Polynomial.fit and argmax raise on empty input; otherwise the guesses are arbitrary (their value only
   reaches the optimiser, which is replayed from the trace) *)
Definition guess_inst (prefix : string) (m : mkind) (d : list pt) : res params :=
  match d with
  | [] => Raise (ValueError "empty input to the initial guess")
  | _ => Ok []
  end.

Definition next_up_inst (x : Q) : Q := x + Qabs x * (1 # 4503599627370496) + (1 # 1000000000000000000000000000000).

(* float comparisons: decided with a relative band of 1e-9 around equality; the model is run with
   both readings and the implementation must agree with one of them *)
Definition BAND : Q := 1 # 1000000000.
Definition lt_lo (a b : Q) : bool := Qltb (a + BAND * (Qabs a + Qabs b)) b.
Definition lt_hi (a b : Q) : bool := Qltb a (b + BAND * (Qabs a + Qabs b) + (1 # 1000000000000000000000000000000)).

(* ------------------------------------------------------------------ comparison of results *)
Definition aname (a : assessment) : string :=
  match a with
  | success => "success" | failed => "failed" | background_is_better => "background_is_better"
  | peak_too_narrow => "peak_too_narrow" | peak_too_wide => "peak_too_wide" | peak_near_edge => "peak_near_edge"
  | peak_points_down => "peak_points_down" | p_too_small => "p_too_small" | window_too_narrow => "window_too_narrow"
  end.
Definition kname (m : mkind) : string :=
  match m with
  | MPeak Gaussian => "gaussian" | MPeak Lorentzian => "lorentzian" | MPeak PseudoVoigt => "pseudo_voigt"
  | MPoly d => "poly" ++ Model.nat_str d
  end.
Definition exn_class (e : exn) : string :=
  match e with
  | ValueError _ => "ValueError" | IndexError _ => "IndexError" | CoordError _ => "CoordError"
  | VariancesError _ => "VariancesError" | Unreachable _ => "Unreachable"
  end.

Definition xclose (rel : Q) (a b : xnum) : bool :=
  match a, b with
  | Fin x, Fin y => Qle_bool (Qabs (x - y)) (rel * (1 + Qabs x + Qabs y))
  | PInf, PInf | NInf, NInf | NaN, NaN => true
  | _, _ => false
  end.
Definition popt_eqb : list (string * xnum) -> list (string * xnum) -> bool :=
  list_eqb (fun a b => String.eqb (fst a) (fst b) && xnum_eqb (snd a) (snd b)).
Definition TOL : Q := 1 # 1000000000.

Definition cmp_res (m o : fitres) : string :=
  if negb (Qeq_bool (fst (r_window m)) (fst (r_window o)) && Qeq_bool (snd (r_window m)) (snd (r_window o)))
  then "window"
  else if negb (assessment_eqb (r_assess m) (r_assess o))
  then "assessment model=" ++ aname (r_assess m) ++ "/" ++ kname (r_peak m) ++ "+" ++ kname (r_bkg m)
       ++ " impl=" ++ aname (r_assess o) ++ "/" ++ kname (r_peak o) ++ "+" ++ kname (r_bkg o)
  else if negb (mkind_eqb (r_peak m) (r_peak o) && mkind_eqb (r_bkg m) (r_bkg o))
  then "chosen-models model=" ++ kname (r_peak m) ++ "+" ++ kname (r_bkg m)
       ++ " impl=" ++ kname (r_peak o) ++ "+" ++ kname (r_bkg o)
  else if negb (popt_eqb (r_popt m) (r_popt o)) then "popt"
  else if negb (xclose TOL (red_chisq (r_stats m)) (red_chisq (r_stats o))) then "red_chisq"
  else if negb (xclose TOL (p_value (r_stats m)) (p_value (r_stats o))) then "p_value"
  else if negb (xclose TOL (aic (r_stats m)) (aic (r_stats o))) then "aic"
  else if negb (String.eqb (r_msg m) (r_msg o)) then "message"
  else "".

Fixpoint cmp_list (i : nat) (ms os : list fitres) : string :=
  match ms, os with
  | [], [] => ""
  | m :: mt, o :: ot =>
      let r := cmp_res m o in
      if String.eqb r "" then cmp_list (S i) mt ot else "peak" ++ Model.nat_str i ++ " " ++ r
  | _, _ => "number-of-results model=" ++ Model.nat_str (i + List.length ms) ++ " impl=" ++ Model.nat_str (i + List.length os)
  end.

Definition cmp_out (m : res (list fitres)) (o : obs) : string :=
  match m, o with
  | Raise e, ObsRaise cls =>
      if String.eqb (exn_class e) cls then "" else "exception model=" ++ exn_class e ++ " impl=" ++ cls
  | Raise e, ObsResults _ => "model-raises-" ++ exn_class e ++ " impl-returns"
  | Ok _, ObsRaise cls => "impl-raises-" ++ cls ++ " model-returns"
  | Ok ms, ObsResults os => cmp_list 0 ms os
  end.

(* ------------------------------------------------------------------ one fit_peaks call *)
Definition run_model (v : variant) (ltf : Q -> Q -> bool) (c : fcase) : res (list fitres) :=
  fit_peaks v ltf next_up_inst guess_inst (cf_inst (c_trace c)) (feval_inst (c_trace c)) qln (cdf_inst (c_cdf c))
            (c_data c) (c_est c)
            (match c_obswin c with Some ows => WExplicit ows | None => c_wspec c end)
            (c_bspec c) (c_pspec c) (c_fp c) (c_fr c).

(* windows built by the implementation vs the exact-rational construction (binary64 rounding of
   c -+ w/2, nextafter and the separation arithmetic: relative 1e-12) *)
Definition WTOL : Q := 1 # 1000000000000.
Fixpoint cmp_windows (i : nat) (ms os : list (Q * Q)) (cs : list Q) : string :=
  match ms, os, cs with
  | [], [], _ => ""
  | m :: mt, o :: ot, c :: ct =>
      let tol := WTOL * (1 + Qabs c + Qabs (fst o) + Qabs (snd o)) in
      if Qle_bool (Qabs (fst m - fst o)) tol && Qle_bool (Qabs (snd m - snd o)) tol
      then cmp_windows (S i) mt ot ct
      else "window-construction peak" ++ Model.nat_str i
  | _, _, _ => "window-count"
  end.
Definition win_check (v : variant) (c : fcase) : string :=
  match c_wspec c, c_obswin c with
  | WScalar width, Some ows =>
      match fit_windows v next_up_inst (map px (c_data c)) (c_est c) width (c_fp c) with
      | Ok mws => cmp_windows 0 mws ows (c_est c)
      | Raise e => "window-construction model-raises-" ++ exn_class e
      end
  | _, _ => ""
  end.

Definition agree (v : variant) (c : fcase) : string :=
  let w := win_check v c in
  if negb (String.eqb w "") then w
  else
    let r1 := cmp_out (run_model v lt_hi c) (c_obs c) in
    if String.eqb r1 "" then ""
    else
      let r2 := cmp_out (run_model v lt_lo c) (c_obs c) in
      if String.eqb r2 "" then "" else r1.

Definition bflag (b : bool) : string := if b then "1" else "0".
Definition vname (v : variant) : string :=
  "guard_first=" ++ bflag (guard_first v) ++ ",clip_last=" ++ bflag (clip_last v) ++ ",nan_p_fails=" ++ bflag (nan_p_fails v).
(* the proposed tree first, then the trees with one / two / three of the defects *)
Definition other_variants : list variant :=
  [mkV false true true; mkV true false true; mkV true true false;
   mkV false false true; mkV false true false; mkV true false false; mkV false false false].

Definition check_fit (c : fcase) : string :=
  let r := agree V_fixed c in
  if String.eqb r "" then ""
  else
    let ro := agree V_orig c in
    if String.eqb ro "" then "VAR " ++ vname V_orig
    else if String.eqb r ro
    then (* the same disagreement under both extreme variants: not one of the three switchable orders *)
         "MISMATCH fixed-order-model{" ++ r ++ "} as-found-model{" ++ ro ++ "}"
    else match find (fun v => String.eqb (agree v c) "") other_variants with
         | Some v => "VAR " ++ vname v
         | None => "MISMATCH fixed-order-model{" ++ r ++ "} as-found-model{" ++ ro ++ "}"
         end.

(* ------------------------------------------------------------------ model selection: product order, first success wins
   The implementation's result for LISTS of models must be ModelOrder.first_success of the implementation's own
   results for every combination fitted alone, taken in the order Model.candidates (peak outer, background inner;
   ProofsOrder.fit_peak_is_first_success_of_solo_fits).  No oracle is involved: only results of the public function
   are compared (exactly: window, assessment, models, message; popt and statistics to 1e-9). *)
Definition solo_for (ss : list solo) (pb : mkind * mkind) : option (list fitres) :=
  match find (fun s => mkind_eqb (s_pk s) (fst pb) && mkind_eqb (s_bk s) (snd pb)) ss with
  | Some s => Some (s_res s)
  | None => None
  end.
Fixpoint opt_all {A} (l : list (option A)) : option (list A) :=
  match l with
  | [] => Some []
  | None :: _ => None
  | Some a :: t => match opt_all t with Some r => Some (a :: r) | None => None end
  end.
(* the same call repeated: parameters to 1e-9 (they are bit-identical in practice) *)
Definition popt_close : list (string * xnum) -> list (string * xnum) -> bool :=
  list_eqb (fun a b => String.eqb (fst a) (fst b) && xclose TOL (snd a) (snd b)).
Definition cmp_res_repeat (m o : fitres) : string :=
  cmp_res (mkRes (r_assess m) (r_peak m) (r_bkg m) (r_window m)
                 (if popt_close (r_popt m) (r_popt o) then r_popt o else r_popt m) (r_stats m) (r_msg m)) o.
Definition rname (r : fitres) : string := aname (r_assess r) ++ "/" ++ kname (r_peak r) ++ "+" ++ kname (r_bkg r).
Fixpoint order_go (i : nat) (cols : list (list fitres)) (os : list fitres) : string :=
  match os with
  | [] => ""
  | o :: ot =>
      match opt_all (map (fun col => nth_error col i) cols) with
      | None => "peak" ++ Model.nat_str i ++ " a-single-combination-call-returned-fewer-results"
      | Some rs =>
          match first_success rs with
          | None => "no-candidate-models"
          | Some r =>
              let c := cmp_res_repeat r o in
              if String.eqb c "" then order_go (S i) cols ot
              else "peak" ++ Model.nat_str i ++ " first-success-in-documented-order=" ++ rname r
                   ++ " list-spec-result=" ++ rname o ++ " differs-in{" ++ c ++ "} single-fits=["
                   ++ String.concat "," (map rname rs) ++ "]"
          end
      end
  end.
Definition order_check (c : fcase) : string :=
  match c_solos c, c_obs c with
  | [], _ => ""
  | _, ObsRaise _ => ""
  | ss, ObsResults os =>
      match parse_model_spec (c_bspec c), parse_model_spec (c_pspec c) with
      | Ok bks, Ok pks =>
          match opt_all (map (solo_for ss) (candidates pks bks)) with
          | None => "ORDER a-combination-was-not-fitted-alone"
          | Some cols => let r := order_go 0 cols os in if String.eqb r "" then "" else "ORDER " ++ r
          end
      | _, _ => "ORDER model-spec-refused-by-the-model"
      end
  end.

(* ------------------------------------------------------------------ remove_peaks *)
Definition res_key_eqb (a b : fitres) : bool :=
  Qeq_bool (fst (r_window a)) (fst (r_window b)) && Qeq_bool (snd (r_window a)) (snd (r_window b))
  && mkind_eqb (r_peak a) (r_peak b) && popt_eqb (r_popt a) (r_popt b) && assessment_eqb (r_assess a) (r_assess b).

Fixpoint index_of (x : Q) (xs : list Q) (i : nat) : nat :=
  match xs with
  | [] => i
  | a :: t => if Qeq_bool a x then i else index_of x t (S i)
  end.
Definition peval_inst (rrs : list rres) (xs : list Q) (r : fitres) (x : Q) : Q :=
  match find (fun rr => res_key_eqb (rr_res rr) r) rrs with
  | Some rr => nth (index_of x xs 0) (rr_vals rr) 0
  | None => 0
  end.

Definition is_success (r : fitres) : bool := assessment_eqb (r_assess r) success.

Fixpoint cmp_removed (i : nat) (rrs : list rres) (xs : list Q) (inp model out : list (Q * Q)) : string :=
  match inp, model, out with
  | [], [], [] => ""
  | (x, y) :: it, (_, m) :: mt, (_, o) :: ot =>
      let touching := filter (fun rr => is_success (rr_res rr)
                                        && in_window (fst (r_window (rr_res rr))) (snd (r_window (rr_res rr))) x) rrs in
      let ok :=
        match touching with
        | [] => Qeq_bool o y                                  (* outside every successful window: bit-identical *)
        | _ => let mag := fold_right (fun rr a => Qabs (peval_inst rrs xs (rr_res rr) x) + a) (Qabs y) touching in
               Qle_bool (Qabs (o - m)) ((1 # 10000000000000) * mag)
        end in
      if ok then cmp_removed (S i) rrs xs it mt ot
      else (match touching with [] => "outside-window-point-changed" | _ => "inside-window-value" end)
           ++ " index" ++ Model.nat_str i
  | _, _, _ => "length"
  end.

(* the model's remove_peaks is a function of the SEQUENCE of results: whatever Iterable form carries that sequence,
   the implementation's output must be the model's (and its input must stay unchanged) *)
Definition check_remove_one (rc : rcase) (m : res (list (Q * Q))) (label : string) (o : robs) (after : list Q) : string :=
  let xs := map fst (rc_data rc) in
  let r :=
    match m, o with
    | Raise e, RRaise cls => if String.eqb (exn_class e) cls then "" else "exception model=" ++ exn_class e ++ " impl=" ++ cls
    | Raise e, ROut _ => "model-raises-" ++ exn_class e ++ " impl-returns"
    | Ok _, RRaise cls => "impl-raises-" ++ cls
    | Ok mo, ROut ys => cmp_removed 0 (rc_results rc) xs (rc_data rc) mo (combine xs ys)
    end in
  if negb (String.eqb r "") then "REMOVE " ++ label ++ " " ++ r
  else if negb (list_eqb Qeq_bool (map snd (rc_data rc)) after) then "REMOVE " ++ label ++ " input-modified"
  else "".

(* another Iterable form whose output is bit-identical to the list call's output (already compared with the model)
   needs no second comparison; anything else is compared with the model in full *)
Definition same_robs (a b : robs) : bool :=
  match a, b with
  | ROut x, ROut y => list_eqb Qeq_bool x y
  | RRaise x, RRaise y => String.eqb x y
  | _, _ => false
  end.

Definition check_remove (rc : rcase) : string :=
  let xs := map fst (rc_data rc) in
  let m := remove_peaks (peval_inst (rc_results rc) xs) (rc_hasvar rc) (rc_data rc) (map rr_res (rc_results rc)) in
  let r := check_remove_one rc m (rc_label rc) (rc_obs rc) (rc_after rc) in
  if negb (String.eqb r "") then r
  else
    match filter (fun s => negb (String.eqb s ""))
                 (map (fun f =>
                         let label := rc_label rc ++ "[results-as-" ++ rf_form f ++ "]" in
                         if same_robs (rc_obs rc) (rf_obs f)
                         then (if list_eqb Qeq_bool (map snd (rc_data rc)) (rf_after f) then ""
                               else "REMOVE " ++ label ++ " input-modified")
                         else check_remove_one rc m label (rf_obs f) (rf_after f))
                      (rc_more rc)) with
    | [] => ""
    | s :: _ => s
    end.

Definition check (c : fcase) : string :=
  let f := check_fit c in
  let rs := filter (fun s => negb (String.eqb s "")) (map check_remove (c_removes c)) in
  let parts := filter (fun s => negb (String.eqb s ""))
                      [f; order_check c; match rs with [] => "" | r :: _ => r end] in
  String.concat " & " parts.

(* "OK <n>" or "F<i>:<reason>;..." (same convention as Verif.Sem.Corr.report) *)
Fixpoint report_aux (i : nat) (rs : list string) (acc : string) (nfail : nat) : string * nat :=
  match rs with
  | [] => (acc, nfail)
  | r :: rs' =>
      if String.eqb r "" then report_aux (S i) rs' acc nfail
      else report_aux (S i) rs' (acc ++ "F" ++ Model.nat_str i ++ ":" ++ r ++ ";") (S nfail)
  end.
Definition report (rs : list string) : string :=
  let '(s, nf) := report_aux 0 rs "" 0%nat in
  if Nat.eqb nf 0 then "OK " ++ Model.nat_str (List.length rs) else s.
