(* C08/Properties.v — the property theorems (nothing else), each closed by the lemma of Tie.v proved on
   the terms regenerated from tof.py (and beamline.py, for the link to 2theta) on this run.

   Reading guide: [tvec h mn x y z s dm] stores (x,y,z) in a unit with multiplier s (ANY positive real);
   [phys x y z s] = (x s, y s, z s); [tvar h mn l sl d_m dl] a scalar wavelength l in a length unit with
   multiplier sl and dtype dl; [tmat M s dm] a 3x3 linear transform with stored entries M in a unit with
   multiplier s; [Qvec_of lam bi bf] = Q_vec_from_Q_elements applied to the three entries of
   Q_elements_from_wavelength(lam, bi, bf); [getk d k] = d[k].  [Qspec lam bi bf] = (2 PI/lam)(dir bi - dir bf),
   [hkl_spec R UB Q] = (R UB)^-1 Q / (2 PI) (Verif.C08.Spec, Euclidean library Verif.Vec.Vec3; minv is the
   adjugate inverse, which is also the model of sc.spatial.inv). *)
From Coq Require Import Reals ZArith String List Lra.
From Verif.Sem Require Import Field Val RInst RLemmas.
From Verif.Vec Require Import Vec3.
From Verif.C01 Require Import Spec.
From Verif.C03 Require Import SemExt.
From Verif.C08 Require Import Spec Basis.
From Run Require Import GenUtils GenTof GenBeamline TieC01 TieC03 Tie.
Open Scope R_scope.

Section P.
Variables h mn : R.
Hypothesis Hh : h > 0.
Hypothesis Hm : mn > 0.
Notation O := (ROps h mn).
Notation tv := (tvec h mn).
Notation d_invm := TieC01.d_invm.

(* Q = (2 pi / lambda) (e_i - e_f): components and joined vector, in 1/unit(lambda), float64 *)
Theorem C08_Q_elements : forall l sl dl x1 y1 z1 s1 x2 y2 z2 s2,
  l > 0 -> sl > 0 -> s1 > 0 -> s2 > 0 -> is_num dl = true -> mkV x1 y1 z1 <> v0 -> mkV x2 y2 z2 <> v0 ->
  let Q := vsc (2 * PI / (l * sl)) (vminus (dir (phys x1 y1 z1 s1)) (dir (phys x2 y2 z2 s2))) in
  let E := Q_elements_from_wavelength O (tvar h mn l sl d_m dl) (tv x1 y1 z1 s1 d_m) (tv x2 y2 z2 s2 d_m) in
  is_qty h mn (getk h mn E "Qx") (vx Q) (1 / sl) d_invm DF64
  /\ is_qty h mn (getk h mn E "Qy") (vy Q) (1 / sl) d_invm DF64
  /\ is_qty h mn (getk h mn E "Qz") (vz Q) (1 / sl) d_invm DF64.
Proof using. exact (Q_elements_exact h mn). Qed.

Theorem C08_Qvec_formula : forall l sl dl x1 y1 z1 s1 x2 y2 z2 s2,
  l > 0 -> sl > 0 -> s1 > 0 -> s2 > 0 -> is_num dl = true -> mkV x1 y1 z1 <> v0 -> mkV x2 y2 z2 <> v0 ->
  let Q := vsc (2 * PI / (l * sl)) (vminus (dir (phys x1 y1 z1 s1)) (dir (phys x2 y2 z2 s2))) in
  is_vec h mn (Qvec_of h mn (tvar h mn l sl d_m dl) (tv x1 y1 z1 s1 d_m) (tv x2 y2 z2 s2 d_m))
         (vx Q) (vy Q) (vz Q) (1 / sl) d_invm.
Proof using. exact (Qvec_formula h mn). Qed.

(* |Q_vec| = 4 pi sin(theta) / lambda with 2 theta = angle(b_i, b_f) ... *)
Theorem C08_Qvec_norm : forall l sl x1 y1 z1 s1 x2 y2 z2 s2,
  l > 0 -> sl > 0 -> s1 > 0 -> s2 > 0 -> mkV x1 y1 z1 <> v0 -> mkV x2 y2 z2 <> v0 ->
  norm (Qspec (l * sl) (phys x1 y1 z1 s1) (phys x2 y2 z2 s2))
  = 4 * PI * sin (angle (phys x1 y1 z1 s1) (phys x2 y2 z2 s2) / 2) / (l * sl).
Proof using. exact Qvec_norm. Qed.

(* ... and that is the value of the regenerated scalar kernel on the regenerated two_theta of the same beams *)
Theorem C08_Qvec_norm_is_Q : forall l sl dl x1 y1 z1 s1 x2 y2 z2 s2,
  l > 0 -> sl > 0 -> s1 > 0 -> s2 > 0 -> is_float dl = true -> mkV x1 y1 z1 <> v0 -> mkV x2 y2 z2 <> v0 ->
  0 < angle (phys x1 y1 z1 s1) (phys x2 y2 z2 s2) ->
  is_qty h mn (Q_from_wavelength O (tvar h mn l sl d_m dl) (two_theta O (tv x1 y1 z1 s1 d_m) (tv x2 y2 z2 s2 d_m)))
         (norm (Qspec (l * sl) (phys x1 y1 z1 s1) (phys x2 y2 z2 s2))) (1 / sl) d_invm (fdt dl).
Proof using Hh Hm. exact (Qvec_norm_is_scalar_Q h mn Hh Hm). Qed.

Theorem C08_Qvec_scale_invariant : forall l sl dl x1 y1 z1 s1 x2 y2 z2 s2 k1 k2 s1' s2',
  l > 0 -> sl > 0 -> s1 > 0 -> s2 > 0 -> s1' > 0 -> s2' > 0 -> k1 > 0 -> k2 > 0 -> is_num dl = true ->
  mkV x1 y1 z1 <> v0 -> mkV x2 y2 z2 <> v0 ->
  exists Q,
    is_vec h mn (Qvec_of h mn (tvar h mn l sl d_m dl) (tv x1 y1 z1 s1 d_m) (tv x2 y2 z2 s2 d_m)) (vx Q) (vy Q) (vz Q) (1 / sl) d_invm
    /\ is_vec h mn (Qvec_of h mn (tvar h mn l sl d_m dl) (tv (k1 * x1) (k1 * y1) (k1 * z1) s1' d_m) (tv (k2 * x2) (k2 * y2) (k2 * z2) s2' d_m))
                   (vx Q) (vy Q) (vz Q) (1 / sl) d_invm.
Proof using. exact (Qvec_scale_invariant h mn). Qed.

(* beams with or without a length unit (beam_dims false = a dimensionless direction vector of ANY norm), independently for
   the two beams: Q_vec is (2 pi/lambda)(e_i - e_f) of the directions of the stored numbers ... *)
Theorem C08_Qvec_formula_any_beam_units : forall (u1 u2 : bool) l sl dl x1 y1 z1 s1 x2 y2 z2 s2,
  l > 0 -> sl > 0 -> s1 > 0 -> s2 > 0 -> is_num dl = true -> mkV x1 y1 z1 <> v0 -> mkV x2 y2 z2 <> v0 ->
  let Q := vsc (2 * PI / (l * sl)) (vminus (dir (mkV x1 y1 z1)) (dir (mkV x2 y2 z2))) in
  is_vec h mn (Qvec_of h mn (tvar h mn l sl d_m dl) (tv x1 y1 z1 s1 (beam_dims u1)) (tv x2 y2 z2 s2 (beam_dims u2)))
         (vx Q) (vy Q) (vz Q) (1 / sl) d_invm.
Proof using. exact (Qvec_formula_any_beam_units h mn). Qed.

(* ... and does not change when the beams are rescaled and / or handed over in another unit or without one *)
Theorem C08_Qvec_scale_invariant_any_beam_units : forall (u1 u2 u1' u2' : bool) l sl dl x1 y1 z1 s1 x2 y2 z2 s2 k1 k2 s1' s2',
  l > 0 -> sl > 0 -> s1 > 0 -> s2 > 0 -> s1' > 0 -> s2' > 0 -> k1 > 0 -> k2 > 0 -> is_num dl = true ->
  mkV x1 y1 z1 <> v0 -> mkV x2 y2 z2 <> v0 ->
  exists Q,
    is_vec h mn (Qvec_of h mn (tvar h mn l sl d_m dl) (tv x1 y1 z1 s1 (beam_dims u1)) (tv x2 y2 z2 s2 (beam_dims u2)))
           (vx Q) (vy Q) (vz Q) (1 / sl) d_invm
    /\ is_vec h mn (Qvec_of h mn (tvar h mn l sl d_m dl) (tv (k1 * x1) (k1 * y1) (k1 * z1) s1' (beam_dims u1'))
                                                          (tv (k2 * x2) (k2 * y2) (k2 * z2) s2' (beam_dims u2')))
              (vx Q) (vy Q) (vz Q) (1 / sl) d_invm.
Proof using. exact (Qvec_scale_invariant_any_beam_units h mn). Qed.

Theorem C08_Qvec_rotates : forall M l sl dl bi bf s1 s2,
  orthogonal M -> l > 0 -> sl > 0 -> s1 > 0 -> s2 > 0 -> is_num dl = true -> bi <> v0 -> bf <> v0 ->
  let Q := Qspec (l * sl) (vsc s1 bi) (vsc s2 bf) in
  is_vec h mn (Qvec_of h mn (tvar h mn l sl d_m dl) (Tie.tvv h mn bi s1) (Tie.tvv h mn bf s2)) (vx Q) (vy Q) (vz Q) (1 / sl) d_invm
  /\ is_vec h mn (Qvec_of h mn (tvar h mn l sl d_m dl) (Tie.tvv h mn (mapp M bi) s1) (Tie.tvv h mn (mapp M bf) s2))
                 (vx (mapp M Q)) (vy (mapp M Q)) (vz (mapp M Q)) (1 / sl) d_invm.
Proof using. exact (Qvec_rotates h mn). Qed.

(* hkl: 2 pi R UB hkl = Q for every R, UB with det(R UB) <> 0 (and hkl is that unique solution) *)
Theorem C08_hkl_inverse : forall Rm UBm qx qy qz sR sU sq,
  sR > 0 -> sU > 0 -> sq > 0 -> mdet (mmul Rm UBm) <> 0 ->
  let Rp := msc sR Rm in let UBp := msc sU UBm in let Qp := phys qx qy qz sq in
  exists H, is_vec h mn (hkl_vec_from_Q_vec O (tv qx qy qz sq d_invm) (tmat h mn UBm sU d_invm) (tmat h mn Rm sR dzero))
                   (vx H) (vy H) (vz H) (sq / (sR * sU)) dzero
            /\ vsc (2 * PI) (mapp (mmul Rp UBp) H) = Qp
            /\ H = hkl_spec Rp UBp Qp.
Proof using. exact (hkl_inverse h mn). Qed.

(* ... for ANY units of the operands (UB dimensionless, 1/angstrom, 1/nm ...; dimensions = lists of the 9 base-unit
   exponents): the stored numbers depend on the operands' numbers only and the unit is unit(Q) / (unit(R) unit(UB)),
   so the same numbers given again with another unit give the same numbers in the correspondingly changed unit *)
Theorem C08_hkl_inverse_any_units : forall Rm UBm qx qy qz sR sU sq dR dU dq,
  sR > 0 -> sU > 0 -> sq > 0 -> mdet (mmul Rm UBm) <> 0 -> length dR = 9%nat -> length dU = 9%nat -> length dq = 9%nat ->
  let Rp := msc sR Rm in let UBp := msc sU UBm in let Qp := phys qx qy qz sq in
  exists H, is_vec h mn (hkl_vec_from_Q_vec O (tv qx qy qz sq dq) (tmat h mn UBm sU dU) (tmat h mn Rm sR dR))
                   (vx H) (vy H) (vz H) (sq / (sR * sU)) (dsub dq (dadd dR dU))
            /\ vsc (2 * PI) (mapp (mmul Rp UBp) H) = Qp
            /\ H = hkl_spec Rp UBp Qp.
Proof using. exact (hkl_inverse_units h mn). Qed.

Theorem C08_hkl_numbers_independent_of_units : forall Rm UBm qx qy qz sR sU sq dR dU dq,
  sR > 0 -> sU > 0 -> mdet (mmul Rm UBm) <> 0 -> length dR = 9%nat -> length dU = 9%nat -> length dq = 9%nat ->
  let H := hkl_spec Rm UBm (mkV qx qy qz) in
  exists u, hkl_vec_from_Q_vec O (tv qx qy qz sq dq) (tmat h mn UBm sU dU) (tmat h mn Rm sR dR)
            = VVar O (EVec O (vx H) (vy H) (vz H)) u DVec3
            /\ ud O u = dsub dq (dadd dR dU) /\ us O u = sq / (sR * sU).
Proof using. exact (hkl_raw_units h mn). Qed.

Theorem C08_ub_is_product : forall U B su sb dmu dmb,
  ub_matrix_from_u_and_b O (tmat h mn U su dmu) (tmat h mn B sb dmb) = tmat h mn (mmul U B) (su * sb) (dadd dmu dmb).
Proof using. exact (ub_is_product h mn). Qed.

(* ... and for a B of EITHER handedness.  B P is B in a re-labelled / mirrored reciprocal basis (P any invertible matrix;
   for a mirror P of Verif.C08.Basis - two axes interchanged, one or all three inverted - det(B P) = - det(B), a
   left-handed basis, as non-singular and as well conditioned as B): ub_matrix_from_u_and_b followed by
   hkl_vec_from_Q_vec returns P^-1 applied to the hkl of the basis B, which solves 2 pi R U (B P) hkl = Q.
   There is no hypothesis on the sign of a determinant anywhere. *)
Theorem C08_hkl_any_handedness : forall Rm Um Bm P qx qy qz sR sU sB sq dR dU dB dq,
  sR > 0 -> sU > 0 -> sB > 0 -> mdet (mmul Rm (mmul Um Bm)) <> 0 -> mdet P <> 0 ->
  length dR = 9%nat -> length dU = 9%nat -> length dB = 9%nat -> length dq = 9%nat ->
  let H := mapp (minv P) (hkl_spec Rm (mmul Um Bm) (mkV qx qy qz)) in
  exists u, hkl_vec_from_Q_vec O (tv qx qy qz sq dq)
              (ub_matrix_from_u_and_b O (tmat h mn Um sU dU) (tmat h mn (mmul Bm P) sB dB)) (tmat h mn Rm sR dR)
            = VVar O (EVec O (vx H) (vy H) (vz H)) u DVec3
            /\ ud O u = dsub dq (dadd dR (dadd dU dB)) /\ us O u = sq / (sR * (sU * sB))
            /\ vsc (2 * PI) (mapp (mmul Rm (mmul Um (mmul Bm P))) H) = mkV qx qy qz.
Proof using. exact (hkl_rebased_units h mn). Qed.

(* instance: b* and c* interchanged - det changes sign, k and l come back interchanged *)
Theorem C08_hkl_axes_swapped : forall Rm Um Bm qx qy qz sR sU sB sq dR dU dB dq,
  sR > 0 -> sU > 0 -> sB > 0 -> mdet (mmul Rm (mmul Um Bm)) <> 0 ->
  length dR = 9%nat -> length dU = 9%nat -> length dB = 9%nat -> length dq = 9%nat ->
  let H := hkl_spec Rm (mmul Um Bm) (mkV qx qy qz) in
  mdet (mmul Bm Pswap23) = - mdet Bm
  /\ exists u, hkl_vec_from_Q_vec O (tv qx qy qz sq dq)
              (ub_matrix_from_u_and_b O (tmat h mn Um sU dU) (tmat h mn (mmul Bm Pswap23) sB dB)) (tmat h mn Rm sR dR)
            = VVar O (EVec O (vx H) (vz H) (vy H)) u DVec3
            /\ ud O u = dsub dq (dadd dR (dadd dU dB)) /\ us O u = sq / (sR * (sU * sB)).
Proof using. exact (hkl_axes_swapped h mn). Qed.

(* every non-singular B has mirrored partners with the opposite sign of det: half of "every non-singular B" is left-handed *)
Theorem C08_left_handed_partner : forall B, mdet B <> 0 ->
  forall P, mirror P -> mdet (mmul B P) <> 0 /\ mdet (mmul B P) * mdet B < 0.
Proof. exact left_handed_partner. Qed.

(* splitting into components and reassembling is the identity, both ways (exact, any unit) *)
Theorem C08_split_join_lossless : forall x y z s dm,
  let E := hkl_elements_from_hkl_vec O (tv x y z s dm) in
  Q_vec_from_Q_elements O (getk h mn E "h") (getk h mn E "k") (getk h mn E "l") = tv x y z s dm.
Proof using. exact (split_join_lossless h mn). Qed.

Theorem C08_join_split_lossless : forall x y z s dm,
  let v := Q_vec_from_Q_elements O (tvar h mn x s dm DF64) (tvar h mn y s dm DF64) (tvar h mn z s dm DF64) in
  v = tv x y z s dm
  /\ getk h mn (hkl_elements_from_hkl_vec O v) "h" = tvar h mn x s dm DF64
  /\ getk h mn (hkl_elements_from_hkl_vec O v) "k" = tvar h mn y s dm DF64
  /\ getk h mn (hkl_elements_from_hkl_vec O v) "l" = tvar h mn z s dm DF64.
Proof using. exact (join_split_lossless h mn). Qed.
End P.

(* PARTIAL (conditioning of the residual): over R the residual 2 pi R UB hkl - Q is exactly 0
   (C08_hkl_inverse).  A floating-point bound |2 pi R UB hkl^ - Q| <= c kappa(R UB) u |Q| is NOT proved:
   Eigen's 3x3 inverse is only modelled (adjugate / determinant), its rounding behaviour is not.  What IS
   checked, inside Coq on every run, is the bound 64 kappa_inf(R UB) 2^-53 |Q| on the implementation's
   hkl for B matrices with condition numbers 1..1e6 (props/C08.py); the statement below records the exact
   fact the bound degenerates to: any hkl' with the same image is the returned one. *)
Theorem C08_hkl_residual_bound_partial : forall R UB Q hv,
  mdet (mmul R UB) <> 0 -> vsc (2 * PI) (mapp (mmul R UB) hv) = Q -> hv = hkl_spec R UB Q.
Proof. exact hkl_unique. Qed.

(* hypotheses satisfiable: lambda = 1.8 angstrom, beams (0,0,10) m and (3,4,0) mm, R = rotation by 90 deg
   about z, UB = diag(1/4, 1/5, 1/6) *)
Example C08_nonvacuous :
  18 / 10 > 0 /\ 1 / 10000000000 > 0 /\ mkV 0 0 10 <> v0 /\ mkV 3 4 0 <> v0
  /\ orthogonal (mkM 0 (-1) 0 1 0 0 0 0 1)
  /\ mdet (mmul (mkM 0 (-1) 0 1 0 0 0 0 1) (mkM (1 / 4) 0 0 0 (1 / 5) 0 0 0 (1 / 6))) <> 0
  /\ 0 < angle (phys 0 0 10 1) (phys 3 4 0 (1 / 1000))
  /\ length dzero = 9%nat /\ length TieC01.d_invm = 9%nat.
Proof.
  repeat split; try lra; try (intros E; injection E; lra); try (unfold orthogonal; apply mat_eq; simpl; ring); try reflexivity.
  - unfold mdet, mmul; simpl; lra.
  - (* perpendicular beams: angle = acos 0 = PI/2 *)
    unfold angle, cosang. replace (dot (phys 0 0 10 1) (phys 3 4 0 (1 / 1000))) with 0 by (unfold dot, phys; simpl; ring).
    unfold Rdiv at 1; rewrite Rmult_0_l, acos_0. pose proof PI_RGT_0; lra.
Qed.

(* hypotheses of the two theorems on unit-less beams satisfiable: direction vectors (1,1,0) and (0,0,5) without a unit
   (norms sqrt 2 and 5, not 1), rescaled by 3 and 1/10 *)
Example C08_unitless_beams_nonvacuous :
  18 / 10 > 0 /\ 1 / 10000000000 > 0 /\ mkV 1 1 0 <> v0 /\ mkV 0 0 5 <> v0 /\ 3 > 0 /\ 1 / 10 > 0
  /\ beam_dims false = dzero /\ norm (mkV 1 1 0) <> 1.
Proof.
  repeat split; try lra; try (intros E; injection E; lra).
  unfold norm, dot; simpl. intros E. assert (E2 : sqrt (1 * 1 + 1 * 1 + 0 * 0) * sqrt (1 * 1 + 1 * 1 + 0 * 0) = 1) by (rewrite E; ring).
  rewrite sqrt_sqrt in E2 by lra. lra.
Qed.

(* a left-handed B: the same cell with b*, c* interchanged, det = -1/120; R U B is non-singular, P is a mirror *)
Example C08_left_handed_nonvacuous :
  mirror Pswap23 /\ mdet Pswap23 <> 0
  /\ mdet (mmul (mkM (1 / 4) 0 0 0 (1 / 5) 0 0 0 (1 / 6)) Pswap23) = - (1 / 120)
  /\ mdet (mmul (mkM 0 (-1) 0 1 0 0 0 0 1) (mmul mI (mkM (1 / 4) 0 0 0 (1 / 5) 0 0 0 (1 / 6)))) <> 0.
Proof. repeat split; try (unfold mirror; tauto); unfold mdet, mmul, Pswap23, mI; simpl; lra. Qed.

Print Assumptions C08_Q_elements.
Print Assumptions C08_Qvec_formula.
Print Assumptions C08_Qvec_norm.
Print Assumptions C08_Qvec_norm_is_Q.
Print Assumptions C08_Qvec_scale_invariant.
Print Assumptions C08_Qvec_formula_any_beam_units.
Print Assumptions C08_Qvec_scale_invariant_any_beam_units.
Print Assumptions C08_Qvec_rotates.
Print Assumptions C08_hkl_inverse.
Print Assumptions C08_hkl_inverse_any_units.
Print Assumptions C08_hkl_numbers_independent_of_units.
Print Assumptions C08_hkl_any_handedness.
Print Assumptions C08_hkl_axes_swapped.
Print Assumptions C08_left_handed_partner.
Print Assumptions C08_ub_is_product.
Print Assumptions C08_split_join_lossless.
Print Assumptions C08_join_split_lossless.
Print Assumptions C08_hkl_residual_bound_partial.
