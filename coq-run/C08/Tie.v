(* C08/Tie.v — obligations proved DIRECTLY ON THE TERMS REGENERATED FROM
   /repo/src/scippneutron/conversion/tof.py on this run (Run.GenTof: Q_elements_from_wavelength,
   Q_vec_from_Q_elements, ub_matrix_from_u_and_b, hkl_vec_from_Q_vec, hkl_elements_from_hkl_vec),
   linked to the regenerated two_theta (Run.GenBeamline, lemmas re-proved in TieC03 = coq-run/C03/Tie.v)
   and the regenerated scalar Q (lemmas of TieC01 = coq-run/C01/Tie.v).

   Reading guide: [tvec h mn x y z s dm] stores (x,y,z) in a unit with multiplier s (any positive real);
   [phys x y z s] is the physical vector; [tmat M s dm] a 3x3 linear transform with stored entries M in a
   unit with multiplier s; [getk d k] is d[k] of a returned dict.  sc.spatial.inv is modelled in Sem/Val.v
   as adjugate / determinant. *)
From Coq Require Import Reals ZArith String List Lra.
From Verif.Sem Require Import Field Val RInst RLemmas.
From Verif.Vec Require Import Vec3.
From Verif.C01 Require Import Spec.
From Verif.C03 Require Import SemExt.
From Verif.C08 Require Import Spec Basis.
From Run Require Import GenUtils GenTof GenBeamline TieC01 TieC03.
Import ListNotations.
Open Scope R_scope.

Lemma deqb_refl d : deqb d d = true.
Proof. induction d as [|x d IH]; simpl; [reflexivity | rewrite Z.eqb_refl, IH; reflexivity]. Qed.

Section Tie.
Variables h mn : R.
Hypothesis Hh : h > 0.
Hypothesis Hm : mn > 0.
Notation O := (ROps h mn).
Notation tv := (tvec h mn).
Notation d_invm := TieC01.d_invm.

Definition tmat (M : mat) (s : R) (dm : dims) : val O :=
  VVar O (EMat O (m11 M) (m12 M) (m13 M) (m21 M) (m22 M) (m23 M) (m31 M) (m32 M) (m33 M)) (mkU O s dm) DMat3.
Definition getk (v : val O) (k : string) : val O := vindex O v (VStr O k).
(* Qx, Qy, Qz of Q_elements_from_wavelength reassembled by Q_vec_from_Q_elements *)
Definition Qvec_of (lam bi bf : val O) : val O :=
  let E := Q_elements_from_wavelength O lam bi bf in
  Q_vec_from_Q_elements O (getk E "Qx") (getk E "Qy") (getk E "Qz").

(* ---------------------------------------------------------------- Q = (2 pi / lambda)(e_i - e_f) *)
(* the three components, in the inverse of the wavelength's unit, float64 for every numeric wavelength dtype *)
Lemma Q_elements_exact l sl dl x1 y1 z1 s1 x2 y2 z2 s2 :
  l > 0 -> sl > 0 -> s1 > 0 -> s2 > 0 -> is_num dl = true -> mkV x1 y1 z1 <> v0 -> mkV x2 y2 z2 <> v0 ->
  let Q := Qspec (l * sl) (phys x1 y1 z1 s1) (phys x2 y2 z2 s2) in
  let E := Q_elements_from_wavelength O (tvar h mn l sl d_m dl) (tv x1 y1 z1 s1 d_m) (tv x2 y2 z2 s2 d_m) in
  is_qty h mn (getk E "Qx") (vx Q) (1 / sl) d_invm DF64
  /\ is_qty h mn (getk E "Qy") (vy Q) (1 / sl) d_invm DF64
  /\ is_qty h mn (getk E "Qz") (vz Q) (1 / sl) d_invm DF64.
Proof using.
  intros Hl Hsl Hs1 Hs2 Hdl Ha Hb Q E.
  norm_facts (mkV x1 y1 z1) Ha. norm_facts (mkV x2 y2 z2) Hb.
  pose proof PI_RGT_0.
  assert (EQ : Q = Qspec (l * sl) (mkV x1 y1 z1) (mkV x2 y2 z2)).
  { unfold Q; rewrite !phys_vsc. apply Qspec_scale; assumption. }
  unfold E; destruct dl; try discriminate Hdl; (repeat split); sem_eval;
    (qty_intro; [Rgoal; field; lra
                | rewrite EQ; unfold Qspec, dir, norm, dot, vsc, vminus, vdivs; simpl; field; lra]).
Qed.

(* joined: the vector (Qvec_formula) *)
Lemma Qvec_formula l sl dl x1 y1 z1 s1 x2 y2 z2 s2 :
  l > 0 -> sl > 0 -> s1 > 0 -> s2 > 0 -> is_num dl = true -> mkV x1 y1 z1 <> v0 -> mkV x2 y2 z2 <> v0 ->
  let Q := Qspec (l * sl) (phys x1 y1 z1 s1) (phys x2 y2 z2 s2) in
  is_vec h mn (Qvec_of (tvar h mn l sl d_m dl) (tv x1 y1 z1 s1 d_m) (tv x2 y2 z2 s2 d_m))
         (vx Q) (vy Q) (vz Q) (1 / sl) d_invm.
Proof using.
  intros Hl Hsl Hs1 Hs2 Hdl Ha Hb Q.
  norm_facts (mkV x1 y1 z1) Ha. norm_facts (mkV x2 y2 z2) Hb.
  pose proof PI_RGT_0.
  assert (EQ : Q = Qspec (l * sl) (mkV x1 y1 z1) (mkV x2 y2 z2)).
  { unfold Q; rewrite !phys_vsc. apply Qspec_scale; assumption. }
  destruct dl; try discriminate Hdl; sem_eval;
    (unfold is_vec; do 4 eexists; split; [reflexivity|]; split; [reflexivity|]; split; [Rgoal; field; lra|];
     rewrite EQ; unfold Qspec, dir, norm, dot, vsc, vminus, vdivs; simpl; repeat split; field; lra).
Qed.

(* |Q_vec| = 4 pi sin(theta) / lambda, 2 theta = angle(b_i, b_f) *)
Lemma Qvec_norm l sl x1 y1 z1 s1 x2 y2 z2 s2 :
  l > 0 -> sl > 0 -> s1 > 0 -> s2 > 0 -> mkV x1 y1 z1 <> v0 -> mkV x2 y2 z2 <> v0 ->
  norm (Qspec (l * sl) (phys x1 y1 z1 s1) (phys x2 y2 z2 s2))
  = 4 * PI * sin (angle (phys x1 y1 z1 s1) (phys x2 y2 z2 s2) / 2) / (l * sl).
Proof using.
  intros; apply Qspec_norm; [nra | apply phys_nz; assumption | apply phys_nz; assumption].
Qed.

(* ... which is what the regenerated scalar kernel Q_from_wavelength returns for the regenerated two_theta
   of the same beams (beams not parallel: the C01 lemma is stated for 0 < 2theta <= pi) *)
Lemma Qvec_norm_is_scalar_Q l sl dl x1 y1 z1 s1 x2 y2 z2 s2 :
  l > 0 -> sl > 0 -> s1 > 0 -> s2 > 0 -> is_float dl = true -> mkV x1 y1 z1 <> v0 -> mkV x2 y2 z2 <> v0 ->
  0 < angle (phys x1 y1 z1 s1) (phys x2 y2 z2 s2) ->
  is_qty h mn (Q_from_wavelength O (tvar h mn l sl d_m dl) (two_theta O (tv x1 y1 z1 s1 d_m) (tv x2 y2 z2 s2 d_m)))
         (norm (Qspec (l * sl) (phys x1 y1 z1 s1) (phys x2 y2 z2 s2))) (1 / sl) d_invm (fdt dl).
Proof using Hh Hm.
  intros Hl Hsl Hs1 Hs2 Hdl Ha Hb Hang.
  pose proof (two_theta_exact h mn x1 y1 z1 s1 x2 y2 z2 s2 Hs1 Hs2 Ha Hb) as H2.
  apply (is_qty_tv h mn Hh Hm) in H2. destruct H2 as (th & -> & Eth).
  rewrite Qvec_norm by assumption. rewrite <- Eth.
  pose proof (angle_range (phys x1 y1 z1 s1) (phys x2 y2 z2 s2)) as [_ R1].
  apply (Q_from_wavelength_exact h mn Hh Hm); try assumption; try lra; try reflexivity; try (rewrite Eth; lra).
Qed.

(* independent of the lengths of the beams (rescaling the stored numbers and / or the units) *)
Lemma Qvec_scale_invariant l sl dl x1 y1 z1 s1 x2 y2 z2 s2 k1 k2 s1' s2' :
  l > 0 -> sl > 0 -> s1 > 0 -> s2 > 0 -> s1' > 0 -> s2' > 0 -> k1 > 0 -> k2 > 0 -> is_num dl = true ->
  mkV x1 y1 z1 <> v0 -> mkV x2 y2 z2 <> v0 ->
  exists Q,
    is_vec h mn (Qvec_of (tvar h mn l sl d_m dl) (tv x1 y1 z1 s1 d_m) (tv x2 y2 z2 s2 d_m)) (vx Q) (vy Q) (vz Q) (1 / sl) d_invm
    /\ is_vec h mn (Qvec_of (tvar h mn l sl d_m dl) (tv (k1 * x1) (k1 * y1) (k1 * z1) s1' d_m) (tv (k2 * x2) (k2 * y2) (k2 * z2) s2' d_m))
                   (vx Q) (vy Q) (vz Q) (1 / sl) d_invm.
Proof using.
  intros Hl Hsl Hs1 Hs2 Hs1' Hs2' Hk1 Hk2 Hdl Ha Hb.
  eexists; split; [apply Qvec_formula; assumption|].
  assert (Ha' : mkV (k1 * x1) (k1 * y1) (k1 * z1) <> v0) by (apply (vsc_nz k1 (mkV x1 y1 z1)); [lra | exact Ha]).
  assert (Hb' : mkV (k2 * x2) (k2 * y2) (k2 * z2) <> v0) by (apply (vsc_nz k2 (mkV x2 y2 z2)); [lra | exact Hb]).
  replace (Qspec (l * sl) (phys x1 y1 z1 s1) (phys x2 y2 z2 s2))
    with (Qspec (l * sl) (phys (k1 * x1) (k1 * y1) (k1 * z1) s1') (phys (k2 * x2) (k2 * y2) (k2 * z2) s2')).
  - apply Qvec_formula; assumption.
  - rewrite !phys_vsc.
    change (mkV (k1 * x1) (k1 * y1) (k1 * z1)) with (vsc k1 (mkV x1 y1 z1)).
    change (mkV (k2 * x2) (k2 * y2) (k2 * z2)) with (vsc k2 (mkV x2 y2 z2)).
    rewrite !Qspec_scale by (repeat apply vsc_nz; try assumption; lra). reflexivity.
Qed.

(* a beam need not carry a length unit: it may be a plain direction vector (unit dimensionless, ANY norm and any
   multiplier).  beam_dims true = a length, beam_dims false = no unit; the two beams independently.  The kernel
   normalises in every case: Q is (2 pi/lambda)(e_i - e_f) of the stored numbers' directions *)
Definition beam_dims (has_length : bool) : dims := if has_length then d_m else ([0;0;0;0;0;0;0;0;0]%Z : dims).
Lemma Qvec_formula_any_beam_units (u1 u2 : bool) l sl dl x1 y1 z1 s1 x2 y2 z2 s2 :
  l > 0 -> sl > 0 -> s1 > 0 -> s2 > 0 -> is_num dl = true -> mkV x1 y1 z1 <> v0 -> mkV x2 y2 z2 <> v0 ->
  let Q := Qspec (l * sl) (mkV x1 y1 z1) (mkV x2 y2 z2) in
  is_vec h mn (Qvec_of (tvar h mn l sl d_m dl) (tv x1 y1 z1 s1 (beam_dims u1)) (tv x2 y2 z2 s2 (beam_dims u2)))
         (vx Q) (vy Q) (vz Q) (1 / sl) d_invm.
Proof using.
  intros Hl Hsl Hs1 Hs2 Hdl Ha Hb Q.
  norm_facts (mkV x1 y1 z1) Ha. norm_facts (mkV x2 y2 z2) Hb.
  pose proof PI_RGT_0.
  destruct u1, u2; unfold beam_dims;
  (destruct dl; try discriminate Hdl; unfold Qvec_of; sem_eval;
    (unfold is_vec; do 4 eexists; split; [reflexivity|]; split; [reflexivity|]; split; [Rgoal; field; lra|];
     unfold Q, Qspec, dir, norm, dot, vsc, vminus, vdivs; simpl; repeat split; field; lra)).
Qed.

(* ... hence independent of the lengths of the beams AND of whether / in which unit a length is given *)
Lemma Qvec_scale_invariant_any_beam_units (u1 u2 u1' u2' : bool) l sl dl x1 y1 z1 s1 x2 y2 z2 s2 k1 k2 s1' s2' :
  l > 0 -> sl > 0 -> s1 > 0 -> s2 > 0 -> s1' > 0 -> s2' > 0 -> k1 > 0 -> k2 > 0 -> is_num dl = true ->
  mkV x1 y1 z1 <> v0 -> mkV x2 y2 z2 <> v0 ->
  exists Q,
    is_vec h mn (Qvec_of (tvar h mn l sl d_m dl) (tv x1 y1 z1 s1 (beam_dims u1)) (tv x2 y2 z2 s2 (beam_dims u2)))
           (vx Q) (vy Q) (vz Q) (1 / sl) d_invm
    /\ is_vec h mn (Qvec_of (tvar h mn l sl d_m dl) (tv (k1 * x1) (k1 * y1) (k1 * z1) s1' (beam_dims u1'))
                                                     (tv (k2 * x2) (k2 * y2) (k2 * z2) s2' (beam_dims u2')))
              (vx Q) (vy Q) (vz Q) (1 / sl) d_invm.
Proof using.
  intros Hl Hsl Hs1 Hs2 Hs1' Hs2' Hk1 Hk2 Hdl Ha Hb.
  eexists; split; [apply Qvec_formula_any_beam_units; assumption|].
  assert (Ha' : mkV (k1 * x1) (k1 * y1) (k1 * z1) <> v0) by (apply (vsc_nz k1 (mkV x1 y1 z1)); [lra | exact Ha]).
  assert (Hb' : mkV (k2 * x2) (k2 * y2) (k2 * z2) <> v0) by (apply (vsc_nz k2 (mkV x2 y2 z2)); [lra | exact Hb]).
  replace (Qspec (l * sl) (mkV x1 y1 z1) (mkV x2 y2 z2))
    with (Qspec (l * sl) (mkV (k1 * x1) (k1 * y1) (k1 * z1)) (mkV (k2 * x2) (k2 * y2) (k2 * z2))).
  - apply Qvec_formula_any_beam_units; assumption.
  - change (mkV (k1 * x1) (k1 * y1) (k1 * z1)) with (vsc k1 (mkV x1 y1 z1)).
    change (mkV (k2 * x2) (k2 * y2) (k2 * z2)) with (vsc k2 (mkV x2 y2 z2)).
    rewrite !Qspec_scale by (repeat apply vsc_nz; try assumption; lra). reflexivity.
Qed.

(* rotates with the beamline: Q_vec(M b_i, M b_f) = M Q_vec(b_i, b_f) for orthogonal M *)
Definition tvv (p : vec) (s : R) : val O := tv (vx p) (vy p) (vz p) s d_m.
Lemma phys_of_vec p s : phys (vx p) (vy p) (vz p) s = vsc s p.
Proof using. destruct p; apply phys_vsc. Qed.
Lemma Qvec_rotates M l sl dl bi bf s1 s2 :
  orthogonal M -> l > 0 -> sl > 0 -> s1 > 0 -> s2 > 0 -> is_num dl = true -> bi <> v0 -> bf <> v0 ->
  let Q := Qspec (l * sl) (vsc s1 bi) (vsc s2 bf) in
  is_vec h mn (Qvec_of (tvar h mn l sl d_m dl) (tvv bi s1) (tvv bf s2)) (vx Q) (vy Q) (vz Q) (1 / sl) d_invm
  /\ is_vec h mn (Qvec_of (tvar h mn l sl d_m dl) (tvv (mapp M bi) s1) (tvv (mapp M bf) s2))
                 (vx (mapp M Q)) (vy (mapp M Q)) (vz (mapp M Q)) (1 / sl) d_invm.
Proof using.
  intros HM Hl Hsl Hs1 Hs2 Hdl Ha Hb Q.
  assert (Ha0 : mkV (vx bi) (vy bi) (vz bi) <> v0) by (destruct bi; exact Ha).
  assert (Hb0 : mkV (vx bf) (vy bf) (vz bf) <> v0) by (destruct bf; exact Hb).
  split.
  - unfold Q; rewrite <- !phys_of_vec. apply Qvec_formula; assumption.
  - pose proof (mapp_orth_nz M bi HM Ha) as Ha1. pose proof (mapp_orth_nz M bf HM Hb) as Hb1.
    assert (EQ : mapp M Q = Qspec (l * sl) (vsc s1 (mapp M bi)) (vsc s2 (mapp M bf))).
    { unfold Q. rewrite <- Qspec_orth by exact HM. rewrite !mapp_vsc. reflexivity. }
    rewrite EQ, <- !phys_of_vec. unfold tvv. apply Qvec_formula; assumption.
Qed.

(* ---------------------------------------------------------------- hkl *)
(* UB = U * B  (matrix product; units multiply) *)
Lemma ub_is_product U B su sb dmu dmb :
  ub_matrix_from_u_and_b O (tmat U su dmu) (tmat B sb dmb) = tmat (mmul U B) (su * sb) (dadd dmu dmb).
Proof using. reflexivity. Qed.

(* unit dimensions are lists of the 9 base-unit exponents *)
Lemma dims9 (d : dims) : length d = 9%nat ->
  exists a b c e f g i j k, d = (a :: b :: c :: e :: f :: g :: i :: j :: k :: nil)%list.
Proof using.
  intros L. do 9 (destruct d as [|? d]; [discriminate L|]). destruct d; [|discriminate L]. repeat eexists.
Qed.
Lemma hkl_unit_dims dR dU dq : length dR = 9%nat -> length dU = 9%nat -> length dq = 9%nat ->
  dsub (dadd (dsub dzero (dadd dR dU)) dq) (dadd dzero dzero) = dsub dq (dadd dR dU).
Proof using.
  intros LR LU Lq.
  destruct (dims9 dR LR) as (r1 & r2 & r3 & r4 & r5 & r6 & r7 & r8 & r9 & ->).
  destruct (dims9 dU LU) as (u1 & u2 & u3 & u4 & u5 & u6 & u7 & u8 & u9 & ->).
  destruct (dims9 dq Lq) as (q1 & q2 & q3 & q4 & q5 & q6 & q7 & q8 & q9 & ->).
  cbv [dadd dsub dmap2 dzero]. repeat (apply (f_equal2 (@cons Z)); [ring|]). reflexivity.
Qed.

(* stored-number form, ANY units: the returned NUMBERS are (R UB)^-1 q / 2 pi of the operands' numbers whatever the
   units; the unit is unit(Q) / (unit(R) unit(UB)) - multiplier and dimension.  Hence the same numbers given again
   with another unit (UB dimensionless, 1/angstrom, 1/nm; Q in 1/angstrom, 1/nm) give the same numbers in the
   correspondingly changed unit: the result is a function of the operands of THIS call *)
Lemma hkl_raw_units Rm UBm qx qy qz sR sU sq dR dU dq :
  sR > 0 -> sU > 0 -> mdet (mmul Rm UBm) <> 0 -> length dR = 9%nat -> length dU = 9%nat -> length dq = 9%nat ->
  let H := hkl_spec Rm UBm (mkV qx qy qz) in
  exists u, hkl_vec_from_Q_vec O (tv qx qy qz sq dq) (tmat UBm sU dU) (tmat Rm sR dR)
            = VVar O (EVec O (vx H) (vy H) (vz H)) u DVec3
            /\ ud O u = dsub dq (dadd dR dU) /\ us O u = sq / (sR * sU).
Proof using.
  intros HsR HsU Hd LR LU Lq H. pose proof PI_RGT_0.
  destruct Rm, UBm; unfold mdet, mmul in Hd; simpl in Hd.
  eexists. split.
  { cbv -[Rplus Rminus Rmult Rdiv Rinv Ropp IZR sqrt sin cos atan2 atan asin exp Rabs PI
          Rleb Rltb Reqb Rle_dec Rlt_dec Req_EM_T Rrint Int_part up dadd dsub dzero].
    unfold H, hkl_spec, minv, madj, mdet, mmul, mapp, vsc; simpl.
    f_equal. f_equal; field; repeat split;
      first [lra | exact Hd | (intro E; apply Hd; etransitivity; [|exact E]; ring)]. }
  split; [apply hkl_unit_dims; assumption | Rgoal; field; lra].
Qed.

(* the usual units: Q and UB in inverse lengths, R dimensionless *)
Lemma hkl_raw Rm UBm qx qy qz sR sU sq :
  sR > 0 -> sU > 0 -> mdet (mmul Rm UBm) <> 0 ->
  let H := hkl_spec Rm UBm (mkV qx qy qz) in
  exists u, hkl_vec_from_Q_vec O (tv qx qy qz sq d_invm) (tmat UBm sU d_invm) (tmat Rm sR dzero)
            = VVar O (EVec O (vx H) (vy H) (vz H)) u DVec3
            /\ ud O u = dzero /\ us O u = sq / (sR * sU).
Proof using.
  intros HsR HsU Hd.
  exact (hkl_raw_units Rm UBm qx qy qz sR sU sq dzero d_invm d_invm HsR HsU Hd eq_refl eq_refl eq_refl).
Qed.

(* hkl_inverse: 2 pi R UB hkl = Q for EVERY R and UB with det(R UB) <> 0, in physical terms, for ANY units of the
   three operands (multipliers sR, sU, sq; dimensions dR, dU, dq): the returned vector carries the unit
   unit(Q) / (unit(R) unit(UB)), so that the equation holds in value AND unit *)
Lemma hkl_inverse_units Rm UBm qx qy qz sR sU sq dR dU dq :
  sR > 0 -> sU > 0 -> sq > 0 -> mdet (mmul Rm UBm) <> 0 -> length dR = 9%nat -> length dU = 9%nat -> length dq = 9%nat ->
  let Rp := msc sR Rm in let UBp := msc sU UBm in let Qp := phys qx qy qz sq in
  exists H, is_vec h mn (hkl_vec_from_Q_vec O (tv qx qy qz sq dq) (tmat UBm sU dU) (tmat Rm sR dR))
                   (vx H) (vy H) (vz H) (sq / (sR * sU)) (dsub dq (dadd dR dU))
            /\ vsc (2 * PI) (mapp (mmul Rp UBp) H) = Qp
            /\ H = hkl_spec Rp UBp Qp.
Proof using.
  intros HsR HsU Hsq Hd LR LU Lq Rp UBp Qp.
  exists (hkl_spec Rp UBp Qp).
  assert (Hd' : mdet (mmul Rp UBp) <> 0) by (apply mdet_scaled; try assumption; lra).
  split; [|split; [apply hkl_inverse_spec, Hd' | reflexivity]].
  destruct (hkl_raw_units Rm UBm qx qy qz sR sU sq dR dU dq HsR HsU Hd LR LU Lq) as (u & -> & Hud & Hus).
  unfold Qp, Rp, UBp. rewrite phys_vsc, hkl_scale by (try assumption; lra).
  unfold is_vec. do 4 eexists. split; [reflexivity|]. split; [exact Hud|]. split.
  - exact Hus.
  - simpl; repeat split; ring.
Qed.

(* the same with Q and UB in inverse lengths and R dimensionless: hkl is dimensionless *)
Lemma hkl_inverse Rm UBm qx qy qz sR sU sq :
  sR > 0 -> sU > 0 -> sq > 0 -> mdet (mmul Rm UBm) <> 0 ->
  let Rp := msc sR Rm in let UBp := msc sU UBm in let Qp := phys qx qy qz sq in
  exists H, is_vec h mn (hkl_vec_from_Q_vec O (tv qx qy qz sq d_invm) (tmat UBm sU d_invm) (tmat Rm sR dzero))
                   (vx H) (vy H) (vz H) (sq / (sR * sU)) dzero
            /\ vsc (2 * PI) (mapp (mmul Rp UBp) H) = Qp
            /\ H = hkl_spec Rp UBp Qp.
Proof using.
  intros HsR HsU Hsq Hd.
  exact (hkl_inverse_units Rm UBm qx qy qz sR sU sq dzero d_invm d_invm HsR HsU Hsq Hd eq_refl eq_refl eq_refl).
Qed.

(* ---------------------------------------------------------------- B of either handedness *)
(* Both kernels in sequence - UB from ub_matrix_from_u_and_b, hkl from hkl_vec_from_Q_vec - for a B given in a re-labelled
   or mirrored reciprocal basis B P, P ANY invertible matrix (Verif.C08.Basis: for a mirror P - two axes interchanged, one
   or all three inverted - det(B P) = - det(B) < 0 for a right-handed B): the kernels accept it, the returned numbers are
   P^-1 applied to the hkl of the basis B, they solve 2 pi R U (B P) hkl = Q, and the unit is unit(Q)/(unit(R) unit(U) unit(B)).
   No hypothesis on the sign of any determinant. *)
Lemma dadd_length9 d1 d2 : length d1 = 9%nat -> length d2 = 9%nat -> length (dadd d1 d2) = 9%nat.
Proof using.
  intros L1 L2.
  destruct (dims9 d1 L1) as (a1 & a2 & a3 & a4 & a5 & a6 & a7 & a8 & a9 & ->).
  destruct (dims9 d2 L2) as (b1 & b2 & b3 & b4 & b5 & b6 & b7 & b8 & b9 & ->).
  reflexivity.
Qed.
Lemma hkl_rebased_units Rm Um Bm P qx qy qz sR sU sB sq dR dU dB dq :
  sR > 0 -> sU > 0 -> sB > 0 -> mdet (mmul Rm (mmul Um Bm)) <> 0 -> mdet P <> 0 ->
  length dR = 9%nat -> length dU = 9%nat -> length dB = 9%nat -> length dq = 9%nat ->
  let H := mapp (minv P) (hkl_spec Rm (mmul Um Bm) (mkV qx qy qz)) in
  exists u, hkl_vec_from_Q_vec O (tv qx qy qz sq dq)
              (ub_matrix_from_u_and_b O (tmat Um sU dU) (tmat (mmul Bm P) sB dB)) (tmat Rm sR dR)
            = VVar O (EVec O (vx H) (vy H) (vz H)) u DVec3
            /\ ud O u = dsub dq (dadd dR (dadd dU dB)) /\ us O u = sq / (sR * (sU * sB))
            /\ vsc (2 * PI) (mapp (mmul Rm (mmul Um (mmul Bm P))) H) = mkV qx qy qz.
Proof using.
  intros HsR HsU HsB Hd HP LR LU LB Lq H.
  assert (Hd' : mdet (mmul Rm (mmul Um (mmul Bm P))) <> 0)
    by (rewrite <- (mmul_assoc Um Bm P); apply rebased_nonsingular; assumption).
  assert (HsUB : sU * sB > 0) by (apply Rmult_gt_0_compat; assumption).
  rewrite ub_is_product.
  destruct (hkl_raw_units Rm (mmul Um (mmul Bm P)) qx qy qz sR (sU * sB) sq dR (dadd dU dB) dq
              HsR HsUB Hd' LR (dadd_length9 dU dB LU LB) Lq) as (u & E & Hud & Hus).
  assert (EH : hkl_spec Rm (mmul Um (mmul Bm P)) (mkV qx qy qz) = H)
    by (unfold H; rewrite <- (mmul_assoc Um Bm P); apply hkl_change_of_basis; assumption).
  rewrite EH in E. exists u. split; [exact E|]. split; [exact Hud|]. split; [exact Hus|].
  rewrite <- EH. apply hkl_inverse_spec, Hd'.
Qed.
(* instance: b* and c* interchanged (det(B P) = - det(B)): k and l come back interchanged *)
Lemma hkl_axes_swapped Rm Um Bm qx qy qz sR sU sB sq dR dU dB dq :
  sR > 0 -> sU > 0 -> sB > 0 -> mdet (mmul Rm (mmul Um Bm)) <> 0 ->
  length dR = 9%nat -> length dU = 9%nat -> length dB = 9%nat -> length dq = 9%nat ->
  let H := hkl_spec Rm (mmul Um Bm) (mkV qx qy qz) in
  mdet (mmul Bm Pswap23) = - mdet Bm
  /\ exists u, hkl_vec_from_Q_vec O (tv qx qy qz sq dq)
              (ub_matrix_from_u_and_b O (tmat Um sU dU) (tmat (mmul Bm Pswap23) sB dB)) (tmat Rm sR dR)
            = VVar O (EVec O (vx H) (vz H) (vy H)) u DVec3
            /\ ud O u = dsub dq (dadd dR (dadd dU dB)) /\ us O u = sq / (sR * (sU * sB)).
Proof using.
  intros HsR HsU HsB Hd LR LU LB Lq H.
  assert (M : mirror Pswap23) by (unfold mirror; tauto).
  split; [apply mirrored_det, M|].
  assert (HP : mdet Pswap23 <> 0) by (rewrite (mirror_det _ M); lra).
  destruct (hkl_rebased_units Rm Um Bm Pswap23 qx qy qz sR sU sB sq dR dU dB dq HsR HsU HsB Hd HP LR LU LB Lq)
    as (u & E & Hud & Hus & _).
  exists u. split; [|split; assumption].
  rewrite E, (mirror_involution _ M). f_equal. f_equal; simpl; ring.
Qed.

(* ---------------------------------------------------------------- split / join is lossless (exact) *)
Lemma join_of_split_Q x y z s dm :
  let v := tv x y z s dm in
  Q_vec_from_Q_elements O (py_attr O (py_attr O v "fields") "x") (py_attr O (py_attr O v "fields") "y")
                          (py_attr O (py_attr O v "fields") "z") = v.
Proof using. intros v; unfold v; sem_cbv. rewrite deqb_refl. reflexivity. Qed.

Lemma hkl_split x y z s dm :
  hkl_elements_from_hkl_vec O (tv x y z s dm)
  = VDict O (("h", tvar h mn x s dm DF64) :: ("k", tvar h mn y s dm DF64) :: ("l", tvar h mn z s dm DF64) :: nil).
Proof using. reflexivity. Qed.

Lemma split_join_lossless x y z s dm :
  let E := hkl_elements_from_hkl_vec O (tv x y z s dm) in
  Q_vec_from_Q_elements O (getk E "h") (getk E "k") (getk E "l") = tv x y z s dm.
Proof using. intros E; unfold E; sem_cbv. rewrite deqb_refl. reflexivity. Qed.

Lemma join_split_lossless x y z s dm :
  let v := Q_vec_from_Q_elements O (tvar h mn x s dm DF64) (tvar h mn y s dm DF64) (tvar h mn z s dm DF64) in
  v = tv x y z s dm
  /\ getk (hkl_elements_from_hkl_vec O v) "h" = tvar h mn x s dm DF64
  /\ getk (hkl_elements_from_hkl_vec O v) "k" = tvar h mn y s dm DF64
  /\ getk (hkl_elements_from_hkl_vec O v) "l" = tvar h mn z s dm DF64.
Proof using.
  intros v. assert (E : v = tv x y z s dm) by (unfold v; sem_cbv; rewrite deqb_refl; reflexivity).
  rewrite E. repeat split; reflexivity.
Qed.

End Tie.
