(* C08/Corr.v — executable model for the correspondence run: the Q-vector / hkl kernels REGENERATED from
   /repo on this run, instantiated at rationals rounded to 220 bits per operation (Vec/QRInst.v), and the
   comparisons with the implementation's observations, done inside Coq.  A rotation3 operand (unit
   quaternion x,y,z,w) is modelled by its rotation matrix (Eigen's toRotationMatrix formula); a matrix
   operand is a list of 9 entries, row-major. *)
From Coq Require Import QArith Qabs ZArith String List Bool.
From Verif.Sem Require Import Field Val QInst Corr.
From Verif.Vec Require Import QRInst.
From Verif.C03 Require Import SemExt.
From Run Require Import GenUtils GenTof GenBeamline.
Import ListNotations.
Open Scope string_scope.
Open Scope Q_scope.

Record vin := mkvin { v_x : Q; v_y : Q; v_z : Q; v_sc : Q; v_dm : dims }.
(* a matrix-like operand: 4 numbers = quaternion (x,y,z,w), 9 numbers = matrix; unit *)
Record min := mkmin { m_e : list Q; m_sc : Q; m_dm : dims }.

Definition quat_entries (l : list Q) : list Q :=
  match l with
  | [x; y; z; w] =>
      [1 - 2 * (y * y + z * z); 2 * (x * y - z * w); 2 * (x * z + y * w);
       2 * (x * y + z * w); 1 - 2 * (x * x + z * z); 2 * (y * z - x * w);
       2 * (x * z - y * w); 2 * (y * z + x * w); 1 - 2 * (x * x + y * y)]
  | _ => l
  end.
Definition entries (m : min) : list Q := map Qred (quat_entries (m_e m)).

(* plain exact 3x3 algebra on 9-lists, for the condition number and the residual *)
Definition e9 (l : list Q) (n : nat) : Q := nth n l 0.
Definition m9mul (a b : list Q) : list Q :=
  map Qred
  [e9 a 0 * e9 b 0 + e9 a 1 * e9 b 3 + e9 a 2 * e9 b 6; e9 a 0 * e9 b 1 + e9 a 1 * e9 b 4 + e9 a 2 * e9 b 7; e9 a 0 * e9 b 2 + e9 a 1 * e9 b 5 + e9 a 2 * e9 b 8;
   e9 a 3 * e9 b 0 + e9 a 4 * e9 b 3 + e9 a 5 * e9 b 6; e9 a 3 * e9 b 1 + e9 a 4 * e9 b 4 + e9 a 5 * e9 b 7; e9 a 3 * e9 b 2 + e9 a 4 * e9 b 5 + e9 a 5 * e9 b 8;
   e9 a 6 * e9 b 0 + e9 a 7 * e9 b 3 + e9 a 8 * e9 b 6; e9 a 6 * e9 b 1 + e9 a 7 * e9 b 4 + e9 a 8 * e9 b 7; e9 a 6 * e9 b 2 + e9 a 7 * e9 b 5 + e9 a 8 * e9 b 8].
Definition m9det (a : list Q) : Q :=
  Qred (Qred (e9 a 0 * Qred (e9 a 4 * e9 a 8 - e9 a 5 * e9 a 7)) - Qred (e9 a 1 * Qred (e9 a 3 * e9 a 8 - e9 a 5 * e9 a 6))
        + Qred (e9 a 2 * Qred (e9 a 3 * e9 a 7 - e9 a 4 * e9 a 6))).
Definition m9adj (a : list Q) : list Q :=
  map Qred
  [e9 a 4 * e9 a 8 - e9 a 5 * e9 a 7; e9 a 2 * e9 a 7 - e9 a 1 * e9 a 8; e9 a 1 * e9 a 5 - e9 a 2 * e9 a 4;
   e9 a 5 * e9 a 6 - e9 a 3 * e9 a 8; e9 a 0 * e9 a 8 - e9 a 2 * e9 a 6; e9 a 2 * e9 a 3 - e9 a 0 * e9 a 5;
   e9 a 3 * e9 a 7 - e9 a 4 * e9 a 6; e9 a 1 * e9 a 6 - e9 a 0 * e9 a 7; e9 a 0 * e9 a 4 - e9 a 1 * e9 a 3].
Definition qmax (a b : Q) : Q := if Qle_bool a b then b else a.
Definition norm_inf (a : list Q) : Q :=
  let r i := Qabs (e9 a i) + Qabs (e9 a (i + 1)) + Qabs (e9 a (i + 2)) in
  Qred (qmax (r 0%nat) (qmax (r 3%nat) (r 6%nat))).
(* kappa_inf(A) = |A|_inf |A^-1|_inf = |A|_inf |adj A|_inf / |det A|  (0 for a singular matrix) *)
Definition kappa_inf (a : list Q) : Q :=
  let d := Qabs (m9det a) in
  if Qle_bool d 0 then 0 else Qred (norm_inf a * norm_inf (m9adj a) / d).
Definition m9app (a : list Q) (x y z : Q) : Q * Q * Q :=
  (Qred (e9 a 0 * x + e9 a 1 * y + e9 a 2 * z), Qred (e9 a 3 * x + e9 a 4 * y + e9 a 5 * z), Qred (e9 a 6 * x + e9 a 7 * y + e9 a 8 * z)).

Definition U53 : Q := 1 # 9007199254740992.        (* 2^-53 *)

Inductive qcase :=
(* Q_elements_from_wavelength: wavelength, b_i, b_f, the three returned components *)
| KQel (lam : inp) (bi bf : vin) (ox oy oz : outcome) (tol : Q)
(* Q_vec_from_Q_elements of those components *)
| KQvec (lam : inp) (bi bf : vin) (o : outcome) (tol : Q)
(* |Q_vec| against the scalar Q_from_wavelength(two_theta) of the implementation, and against 4 pi sin(theta)/lambda
   with the implementation's two_theta; physical values; tol is relative to 4 pi / lambda *)
| KNorm (qx qy qz qs th2 lam tol : Q)
(* ub_matrix_from_u_and_b *)
| KUB (u b : min) (o : list Q) (osc : Q) (odm : dims) (tol : Q)
(* ub_matrix_from_u_and_b refused the operands with error class cls.  The product of two 3x3 matrices exists whatever B
   is; the reason carries the sign of det(B) - the handedness of the reciprocal basis - computed exactly *)
| KUBErr (u b : min) (cls : string)
(* hkl_vec_from_Q_vec(Q, UB = U*B by the kernel, R): returned vector; tolerance = c * kappa_inf(R U B) * 2^-53 *)
| KHkl (q : vin) (u b r : min) (o : outcome) (c : Q)
(* the same for a refused / non-finite outcome of a singular matrix *)
(* split / join: h,k,l of hkl_elements_from_hkl_vec(v) and Q_vec_from_Q_elements(h,k,l) must reproduce v exactly,
   numbers and unit: units = unit of v, of h, k, l and of the rejoined vector (multiplier, dimension) *)
| KSplit (v : list Q) (hkl : list Q) (rejoined : list Q) (units : list (Q * dims)).

Section D.
Variables h mn : Q.
Notation O := (QROps h mn).
Definition vq (v : vin) : val O := rvec h mn (v_x v) (v_y v) (v_z v) (v_sc v) (v_dm v).
Definition mq (m : min) : val O :=
  match entries m with
  | [a; b; c; d; e; f; g; i; j] => rmat h mn a b c d e f g i j (m_sc m) (m_dm m)
  | _ => VErr O "arity"
  end.
Definition getk (v : val O) (k : string) : val O := vindex O v (VStr O k).
Definition phys_of (v : val O) : option Q :=
  match v with VVar _ (ENum _ x _) u _ => Some (Qred (x * us _ u)) | _ => None end.

Definition out_phys (o : outcome) : option Q :=
  match o with OutVal v sc _ _ => Some (v * sc) | _ => None end.

Definition check (c : qcase) : string :=
  match c with
  | KQel lam bi bf ox oy oz tol =>
      let E := Q_elements_from_wavelength O (rv h mn lam) (vq bi) (vq bf) in
      let mx := getk E "Qx" in let my := getk E "Qy" in let mz := getk E "Qz" in
      match phys_of mx, phys_of my, phys_of mz with
      | Some x, Some y, Some z =>
          (* structure (unit, dtype) through rcmp with a generous tolerance, value against |Q|_1 *)
          (* rounding errors of e_i - e_f are absolute in units of k = 2 pi / lambda *)
          let k := Qabs ((2 # 1) * qpi / (iv lam * isc lam)) in
          let t := tol * k in
          let s1 := rcmp h mn true mx ox t in let s2 := rcmp h mn true my oy t in let s3 := rcmp h mn true mz oz t in
          if negb (String.eqb s1 "") then "Qx:" ++ s1 else if negb (String.eqb s2 "") then "Qy:" ++ s2
          else if negb (String.eqb s3 "") then "Qz:" ++ s3 else ""
      | _, _, _ =>
          match E, ox with VErr _ _, OutErr _ => "" | VErr _ e, _ => "model-raises-" ++ e | _, OutErr cls => "impl-raises-" ++ cls | _, _ => "shape" end
      end
  | KQvec lam bi bf o tol =>
      let E := Q_elements_from_wavelength O (rv h mn lam) (vq bi) (vq bf) in
      let k := Qabs ((2 # 1) * qpi / (iv lam * isc lam)) in
      match Q_vec_from_Q_elements O (getk E "Qx") (getk E "Qy") (getk E "Qz"), o with
      | VVar _ (EVec _ x0 y0 z0) u _, OutVec a b c sc dm =>
          let x : Q := x0 in let y : Q := y0 in let z : Q := z0 in
          if negb (deqb (ud _ u) dm) then "unit-dimension"
          else if negb (rel_close (us _ u) sc (1 # 1000000000000)) then "unit-multiplier"
          else if abs_close (a * sc) (x * us _ u) (tol * k) && abs_close (b * sc) (y * us _ u) (tol * k)
                  && abs_close (c * sc) (z * us _ u) (tol * k) then "" else "value"
      | m, _ => rcmp h mn false m o tol
      end
  | KNorm qx qy qz qs th2 lam tol =>
      let n := qsqrt (qrel (qx * qx + qy * qy + qz * qz)) in
      let scale := (4 # 1) * qpi / lam in
      if negb (abs_close n qs (tol * scale)) then "norm-vs-scalar-Q"
      else if negb (abs_close n (scale * qsin (th2 / (2 # 1))) (tol * scale)) then "norm-vs-4pi-sin-theta-over-lambda"
      else ""
  | KUB u b o osc odm tol =>
      match ub_matrix_from_u_and_b O (mq u) (mq b) with
      | VVar _ (EMat _ a11 a12 a13 a21 a22 a23 a31 a32 a33) un _ =>
          let m : list Q := [a11; a12; a13; a21; a22; a23; a31; a32; a33] in
          if negb (deqb (ud _ un) odm) then "unit-dimension"
          else if negb (rel_close (us _ un) osc (1 # 1000000000000)) then "unit-multiplier"
          else
            let n := norm_inf m * us _ un in
            if forallb (fun p => abs_close (fst p * us _ un) (snd p * osc) (tol * n)) (combine m o) && Nat.eqb (List.length o) 9
            then "" else "value"
      | VErr _ e => "model-raises-" ++ e
      | _ => "shape"
      end
  | KUBErr u b cls =>
      match ub_matrix_from_u_and_b O (mq u) (mq b) with
      | VErr _ _ => ""
      | _ => let d := m9det (entries b) in
             "impl-raises-" ++ cls ++ (if Qle_bool d 0 then (if Qle_bool 0 d then "-detB=0" else "-detB<0") else "-detB>0")
      end
  | KHkl q u b r o c =>
      let ub := ub_matrix_from_u_and_b O (mq u) (mq b) in
      let m := hkl_vec_from_Q_vec O (vq q) ub (mq r) in
      let A := m9mul (entries r) (m9mul (entries u) (entries b)) in
      let kap := kappa_inf A in
      let tol := Qred (c * kap * U53) in
      (* class tag: for kappa_inf >= 1e4 the explicit 3x3 inverse is known to exceed the 64 kappa u budget *)
      let tag := if Qle_bool (10000 # 1) kap then "-kappa>=1e4" else "" in
      let s := rcmp h mn false m o tol in
      if negb (String.eqb s "") then s ++ tag
      else match o with
           | OutVec hx hy hz hsc _ =>
               (* residual 2 pi R UB hkl - Q in physical terms, with the implementation's hkl *)
               let sA := m_sc r * m_sc u * m_sc b in
               let '(ax, ay, az) := m9app A (Qred (hx * hsc)) (Qred (hy * hsc)) (Qred (hz * hsc)) in
               let two_pi := (2 # 1) * qpi in
               let rx := Qred (Qred (two_pi * sA * ax) - Qred (v_x q * v_sc q)) in
               let ry := Qred (Qred (two_pi * sA * ay) - Qred (v_y q * v_sc q)) in
               let rz := Qred (Qred (two_pi * sA * az) - Qred (v_z q * v_sc q)) in
               let nq := Qred ((Qabs (v_x q) + Qabs (v_y q) + Qabs (v_z q)) * v_sc q) in
               if Qle_bool (Qabs rx) (tol * nq) && Qle_bool (Qabs ry) (tol * nq) && Qle_bool (Qabs rz) (tol * nq)
               then "" else "residual" ++ tag
           | _ => ""
           end
  | KSplit v hkl rejoined units =>
      if negb (match units with
               | u0 :: rest => forallb (fun u => Qeq_bool (fst u) (fst u0) && deqb (snd u) (snd u0)) rest && Nat.eqb (List.length rest) 4
               | [] => false
               end) then "split-join-unit-changed"
      else if negb (forallb (fun p => Qeq_bool (fst p) (snd p)) (combine v hkl) && Nat.eqb (List.length hkl) 3) then "split-not-exact"
      else if negb (forallb (fun p => Qeq_bool (fst p) (snd p)) (combine v rejoined) && Nat.eqb (List.length rejoined) 3) then "rejoin-not-exact"
      else ""
  end.
End D.
