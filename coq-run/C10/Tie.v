(* C10/Tie.v — obligations proved DIRECTLY ON THE TERMS REGENERATED FROM
   /repo/src/scippneutron/chopper/disk_chopper.py on this run (Run.GenDisk):
   DiskChopper.is_clockwise, .angular_frequency, .time_offset_angle_at_beam, .time_offset_open, .time_offset_close.

   For all real frequencies f <> 0 in ANY frequency unit (multiplier sf > 0 to Hz), beam position, phase and
   angle in ANY angle units (multipliers to rad), of any numeric dtype, and every repetition index k, the
   translated time_offset_angle_at_beam returns, in the unit 1/(frequency unit),
       clockwise (f < 0):      (beam_position + phase - (angle + 2 pi k)) / (2 pi f)
       anticlockwise (f > 0):  (2 pi + beam_position + phase - (angle - 2 pi k)) / (2 pi f)
   which, with angles in turns, is exactly Model.t_at (lemmas t_at_in_turns_clockwise, t_at_in_turns_anticlockwise).  time_offset_open / _close pass
   slit_begin / slit_end (clockwise) resp. slit_end / slit_begin (anticlockwise) to that method together with
   _source_phase_factor(pulse_frequency).  A change of sign, a dropped 2 pi, swapped edges or a wrong sense
   test in the source breaks these proofs.  (_apply_angle_repetitions is one modelled element, see SemExt.v.) *)
From Coq Require Import Reals ZArith String List Lra.
From Verif.Sem Require Import Field Val RInst RLemmas.
From Verif.C10 Require Import SemExt.
From Run Require Import GenDisk.
Import ListNotations.
Open Scope string_scope.
Open Scope R_scope.

Ltac all_dtypes :=
  repeat match goal with
         | H : is_num ?d = true |- _ => destruct d; try discriminate H; clear H
         end.

Section Tie.
Variables h mn : R.
Notation O := (ROps h mn).
Notation tv := (tvar h mn).

(* the dataclass fields ... *)
Definition base (f sf bp sbp : R) (dbp : dtype) (ph sph : R) (dph : dtype) (b e : val O) : list (string * val O) :=
  [("frequency", tv f sf d_Hz DF64); ("beam_position", tv bp sbp d_rad dbp); ("phase", tv ph sph d_rad dph);
   ("slit_begin", b); ("slit_end", e)].
(* ... plus the properties, evaluated by their TRANSLATED bodies, and the repetition index of the element *)
Definition self_of (fields : list (string * val O)) (k : Z) : val O :=
  VDict O (fields ++ [("rep_k", VInt O k);
                      ("is_clockwise", DiskChopper_is_clockwise O (VDict O fields));
                      ("angular_frequency", DiskChopper_angular_frequency O (VDict O fields))]).

Lemma is_clockwise_neg f sf bp sbp dbp ph sph dph b e : f < 0 ->
  DiskChopper_is_clockwise O (VDict O (base f sf bp sbp dbp ph sph dph b e)) = VBool O true.
Proof. intro H. sem_cbv. rewrite Rltb_true by lra. reflexivity. Qed.
Lemma is_clockwise_nonneg f sf bp sbp dbp ph sph dph b e : 0 <= f ->
  DiskChopper_is_clockwise O (VDict O (base f sf bp sbp dbp ph sph dph b e)) = VBool O false.
Proof. intro H. sem_cbv. rewrite Rltb_false by lra. reflexivity. Qed.

(* omega = 2 pi f, in rad * (frequency unit) *)
Lemma angular_frequency_exact f sf bp sbp dbp ph sph dph b e : sf > 0 ->
  is_qty h mn (DiskChopper_angular_frequency O (VDict O (base f sf bp sbp dbp ph sph dph b e)))
         (2 * PI * (f * sf)) sf (dadd d_rad d_Hz) DF64.
Proof. intro. sem_cbv. qty_intro; [field | ring]. Qed.

Lemma time_offset_clockwise f sf bp sbp dbp ph sph dph b e th sth dth k n :
  f < 0 -> sf > 0 -> sbp > 0 -> sph > 0 -> sth > 0 ->
  is_num dbp = true -> is_num dph = true -> is_num dth = true ->
  is_qty h mn (DiskChopper_time_offset_angle_at_beam O (self_of (base f sf bp sbp dbp ph sph dph b e) k)
                 (tv th sth d_rad dth) (VInt O n))
     ((bp * sbp + ph * sph - (th * sth + 2 * PI * IZR k)) / (2 * PI * (f * sf))) (1 / sf) d_s DF64.
Proof.
  intros. unfold self_of. rewrite is_clockwise_neg by assumption. pose proof PI_RGT_0.
  all_dtypes; sem_cbv; (qty_intro; field; lra).
Qed.

Lemma time_offset_anticlockwise f sf bp sbp dbp ph sph dph b e th sth dth k n :
  0 < f -> sf > 0 -> sbp > 0 -> sph > 0 -> sth > 0 ->
  is_num dbp = true -> is_num dph = true -> is_num dth = true ->
  is_qty h mn (DiskChopper_time_offset_angle_at_beam O (self_of (base f sf bp sbp dbp ph sph dph b e) k)
                 (tv th sth d_rad dth) (VInt O n))
     ((2 * PI + (bp * sbp + ph * sph - (th * sth - 2 * PI * IZR k))) / (2 * PI * (f * sf))) (1 / sf) d_s DF64.
Proof.
  intros. unfold self_of. rewrite is_clockwise_nonneg by lra. pose proof PI_RGT_0.
  all_dtypes; sem_cbv; (qty_intro; field; lra).
Qed.

(* the same in turns: B = (beam_position + phase)/2pi, T = angle/2pi, F = f in Hz  —  the shape of Model.t_at *)
Lemma t_at_in_turns_clockwise F B T k : F <> 0 ->
  ((B * (2 * PI)) - (T * (2 * PI) + 2 * PI * IZR k)) / (2 * PI * F) = (B - (T + IZR k)) / F.
Proof. intro. pose proof PI_RGT_0. field. lra. Qed.
Lemma t_at_in_turns_anticlockwise F B T k : F <> 0 ->
  (2 * PI + ((B * (2 * PI)) - (T * (2 * PI) - 2 * PI * IZR k))) / (2 * PI * F) = (1 + (B - (T - IZR k))) / F.
Proof. intro. pose proof PI_RGT_0. field. lra. Qed.

(* which edge opens, which closes *)
Definition call (angle fp : val O) : val O :=
  VTuple O [VStr O "self.time_offset_angle_at_beam"; angle;
            VTuple O [VStr O "self._source_phase_factor"; fp]].
Lemma open_close_clockwise f sf bp sbp dbp ph sph dph b sb db e se de k fp : f < 0 ->
  let vb := tv b sb d_rad db in
  let ve := tv e se d_rad de in
  let self := self_of (base f sf bp sbp dbp ph sph dph vb ve) k in
  DiskChopper_time_offset_open O self fp = call vb fp /\ DiskChopper_time_offset_close O self fp = call ve fp.
Proof.
  intros H vb ve self. unfold self, self_of. rewrite is_clockwise_neg by assumption. split; reflexivity.
Qed.
Lemma open_close_anticlockwise f sf bp sbp dbp ph sph dph b sb db e se de k fp : 0 <= f ->
  let vb := tv b sb d_rad db in
  let ve := tv e se d_rad de in
  let self := self_of (base f sf bp sbp dbp ph sph dph vb ve) k in
  DiskChopper_time_offset_open O self fp = call ve fp /\ DiskChopper_time_offset_close O self fp = call vb fp.
Proof.
  intros H vb ve self. unfold self, self_of. rewrite is_clockwise_nonneg by assumption. split; reflexivity.
Qed.
End Tie.

(* satisfiable: 14 Hz given in 1/min, beam position in deg, phase in rad, int64 slit edge in deg *)
Example tie_nonvacuous : exists f sf sbp sph sth : R,
  f < 0 /\ sf > 0 /\ sbp > 0 /\ sph > 0 /\ sth > 0 /\ is_num DI64 = true.
Proof.
  exists (-840), (1 / 60), (PI / 180), 1, (PI / 180). pose proof PI_RGT_0.
  repeat split; try lra; try reflexivity.
Qed.

Print Assumptions time_offset_clockwise.
Print Assumptions time_offset_anticlockwise.
Print Assumptions open_close_clockwise.
Print Assumptions open_close_anticlockwise.
