(* C10/Properties.v — the property theorems (nothing else).  Reading guide (Verif.C10.Spec / Model):
     angles in TURNS, times in s, f = DiskChopper.frequency in Hz (f > 0 anticlockwise, f < 0 clockwise);
     disk = (freq, boff = (beam_position + phase)/turn, slits = [(sb, se)]);
     beta d t = boff - freq * t       the disk angle in the beam at time t (derived in Spec.v from the
                                      documented meaning of TDC, beam_position and phase);
     is_open d t                      some slit contains beta d t modulo whole turns;
     reported d n                     the (open, close) pairs of time_offset_open/close for n_repetitions = n,
                                      in the order of the returned arrays (Model.v; tied to the source by
                                      Tie.v for the formula and by the correspondence run for the rest);
     slits_disjoint                   pairwise disjoint ON THE CIRCLE, each narrower than one turn;
     check_edges_current / _fixed     _check_edges as found / with the wrap-aware comparison;
     cascade_current / _fixed         Chopper.from_disk_chopper as found / repaired. *)
From Coq Require Import QArith Qabs ZArith List Bool.
From Verif.C10 Require Import Spec Model ProofsTime ProofsDisjoint Oracle ProofsRatio ProofsValid ProofsCascade.
Import ListNotations.
Open Scope Q_scope.

Theorem C10_open_lt_close : forall d n, ~ freq d == 0 -> Forall proper (slits d) ->
  forall oc, In oc (reported d n) -> fst oc < snd oc.
Proof. exact open_lt_close. Qed.

Theorem C10_reported_interval_is_opening : forall d n, ~ freq d == 0 ->
  forall oc, In oc (reported d n) -> forall t, inside oc t -> is_open d t.
Proof. exact reported_interval_is_opening. Qed.

Theorem C10_maximal : forall d n, ~ freq d == 0 ->
  Forall (fun s => sb s <= se s) (slits d) -> slits_disjoint (slits d) ->
  forall oc, In oc (reported d n) ->
  exists eps, 0 < eps /\ forall t,
    (fst oc - eps < t /\ t < fst oc) \/ (snd oc < t /\ t < snd oc + eps) -> ~ is_open d t.
Proof. exact maximal. Qed.

Theorem C10_duration : forall d n, ~ freq d == 0 ->
  forall oc, In oc (reported d n) ->
  exists s, In s (slits d) /\ snd oc - fst oc == (se s - sb s) / Qabs (freq d).
Proof. exact duration. Qed.

(* each (rotation, slit) of rotations -1 .. n-1 is listed exactly once, in rotation-major order ... *)
Theorem C10_once_per_rotation : forall d n,
  reported d n = map (fun ks => entry d (fst ks) (snd ks)) (list_prod (reps n) (slits d))
  /\ NoDup (reps n) /\ (forall k, In k (reps n) <-> (-1 <= k <= n - 1)%Z)
  /\ length (reported d n) = (Z.to_nat (n + 1) * length (slits d))%nat.
Proof. exact once_per_rotation. Qed.
(* ... and no two listed intervals share an instant *)
Theorem C10_reported_pairwise_disjoint : forall d n, ~ freq d == 0 ->
  Forall (fun s => sb s <= se s) (slits d) -> slits_disjoint (slits d) ->
  all_pairs no_common_instant (reported d n).
Proof. exact reported_pairwise_disjoint. Qed.

(* no opening of the covered rotations is missing (in_span: whole-turn images -(n-1)..1 clockwise, 0..n anticlockwise) *)
Theorem C10_complete : forall d n, ~ freq d == 0 ->
  forall t s m, In s (slits d) ->
  sb s <= beta d t + inject_Z m -> beta d t + inject_Z m <= se s -> in_span (freq d) n m ->
  exists oc, In oc (reported d n) /\ inside oc t.
Proof. exact complete. Qed.
Theorem C10_complete_window : forall d n, ~ freq d == 0 ->
  Forall (fun s => 0 <= sb s /\ se s <= 1) (slits d) ->
  forall t, in_window d n t -> is_open d t ->
  exists oc, In oc (reported d n) /\ inside oc t.
Proof. exact complete_window. Qed.

(* frequency ratio: accepted exactly when |f|/f_pulse or its inverse is within 1e-8 (absolute, on the
   quotient, as coded) of an integer; the repetitions are that integer (1 for sub-harmonic choppers) *)
Theorem C10_ratio_check_sound : forall f fp n, source_phase_factor f fp = Some n ->
  0 < fp /\ (near_int (quot f fp) rtol \/ near_int (/ quot f fp) rtol)
  /\ n = round_half_even (Qmax2 (quot f fp) 1).
Proof. exact ratio_check_sound. Qed.
Theorem C10_ratio_check_rejects : forall f fp,
  ~ (near_int (quot f fp) rtol \/ near_int (/ quot f fp) rtol) -> source_phase_factor f fp = None.
Proof. exact ratio_check_rejects. Qed.
Theorem C10_ratio_check_complete : forall f fp, 0 < fp ->
  (near_int (quot f fp) rtol \/ near_int (/ quot f fp) rtol) ->
  source_phase_factor f fp = Some (round_half_even (Qmax2 (quot f fp) 1)).
Proof. exact ratio_check_complete. Qed.
Theorem C10_n_repetitions_exact : forall f fp z, (1 <= z)%Z -> Qabs (quot f fp - inject_Z z) < rtol ->
  round_half_even (Qmax2 (quot f fp) 1) = z.
Proof. exact n_repetitions_exact. Qed.

(* validation: the repaired check accepts only slit sets that are disjoint on the circle -- or the single
   slit of exactly one turn (always open) that upstream tests construct ... *)
Theorem C10_validation_sound : forall sl, check_edges_fixed sl = true ->
  Forall wf sl /\ (slits_disjoint sl \/ full_circle sl).
Proof. exact validation_sound. Qed.
(* ... the check as found only guarantees disjointness of the un-wrapped intervals ... *)
Theorem C10_validation_sound_partial : forall sl, check_edges_current sl = true ->
  Forall wf sl /\ all_pairs lin_disj sl.
Proof. exact validation_sound_partial. Qed.
(* ... and the full statement is false for it: [10,50] deg + [300,380] deg *)
Theorem C10_tdc_wrap_overlap_refuted : exists sl, check_edges_current sl = true /\ ~ slits_disjoint sl.
Proof. exact tdc_wrap_overlap_refuted. Qed.

(* cascade expansion over npulses pulses, repaired: openings, each once, maximal, complete, right duration *)
Theorem C10_cascade_expansion : forall d n ppr p, ~ freq d == 0 ->
  Forall wf (slits d) -> slits_disjoint (slits d) ->
  let l := cascade_fixed d n ppr p in
  let N := cascade_rotations n ppr p in
  openings_once d l
  /\ (forall oc, In oc l -> exists eps, 0 < eps /\ forall t,
        (fst oc - eps < t /\ t < fst oc) \/ (snd oc < t /\ t < snd oc + eps) -> ~ is_open d t)
  /\ (forall t s m, In s (slits d) -> sb s <= beta d t + inject_Z m -> beta d t + inject_Z m <= se s ->
        in_span (freq d) N m -> exists oc, In oc l /\ inside oc t)
  /\ (forall oc, In oc l -> exists s, In s (slits d) /\ snd oc - fst oc == (se s - sb s) / Qabs (freq d)).
Proof. exact cascade_expansion. Qed.
(* as found: an opening listed twice (f = f_pulse, 2 pulses) ... *)
Theorem C10_cascade_duplicates_refuted :
  exists d fp n p, ~ freq d == 0 /\ source_phase_factor (freq d) fp = Some n /\
    check_edges_fixed (slits d) = true /\ Forall proper (slits d) /\
    ~ openings_once d (cascade_current d fp n p).
Proof. exact cascade_duplicates_refuted. Qed.
(* ... and an interval listed during which the disk is closed (f = f_pulse / 2, 2 pulses) *)
Theorem C10_cascade_phantom_refuted :
  exists d fp n p, ~ freq d == 0 /\ source_phase_factor (freq d) fp = Some n /\
    check_edges_fixed (slits d) = true /\ Forall proper (slits d) /\
    ~ openings_once d (cascade_current d fp n p).
Proof. exact cascade_phantom_refuted. Qed.

(* the decision procedures the correspondence run evaluates ARE the specification predicates *)
Theorem C10_oracle_is_open : forall d t, is_openb d t = true <-> is_open d t.
Proof. exact is_openb_spec. Qed.
Theorem C10_oracle_disjoint : forall sl, slits_disjointb sl = true <-> slits_disjoint sl.
Proof. exact slits_disjointb_spec. Qed.

(* the hypotheses are satisfiable: 28 Hz anticlockwise, beam position + phase = 45 deg, a slit spanning
   top-dead-centre next to an ordinary one; pulse frequency 14 Hz gives 2 repetitions *)
Definition ex_disk : disk := mkdisk 28 (45 # 360) [mkslit (60 # 360) (120 # 360); mkslit (340 # 360) (382 # 360)].
Example C10_nonvacuous :
  ~ freq ex_disk == 0 /\ Forall proper (slits ex_disk) /\ Forall wf (slits ex_disk)
  /\ slits_disjoint (slits ex_disk) /\ source_phase_factor (freq ex_disk) 14 = Some 2%Z
  /\ length (reported ex_disk 2) = 6%nat
  /\ (exists t, is_open ex_disk t) /\ (exists t, ~ is_open ex_disk t).
Proof.
  assert (V : check_edges_fixed (slits ex_disk) = true) by (vm_compute; reflexivity).
  destruct (validation_sound _ V) as [W [D | [s [E _]]]]; [| discriminate E].
  split; [vm_compute; discriminate |]. split; [repeat constructor |]. split; [exact W |]. split; [exact D |].
  split; [vm_compute; reflexivity |]. split; [vm_compute; reflexivity |]. split.
  - exists (-1 # 224). apply is_openb_spec. vm_compute. reflexivity.
  - exists 0. apply is_openb_false. vm_compute. reflexivity.
Qed.

Print Assumptions C10_open_lt_close.
Print Assumptions C10_reported_interval_is_opening.
Print Assumptions C10_maximal.
Print Assumptions C10_duration.
Print Assumptions C10_once_per_rotation.
Print Assumptions C10_reported_pairwise_disjoint.
Print Assumptions C10_complete.
Print Assumptions C10_complete_window.
Print Assumptions C10_ratio_check_sound.
Print Assumptions C10_ratio_check_rejects.
Print Assumptions C10_ratio_check_complete.
Print Assumptions C10_n_repetitions_exact.
Print Assumptions C10_validation_sound.
Print Assumptions C10_validation_sound_partial.
Print Assumptions C10_tdc_wrap_overlap_refuted.
Print Assumptions C10_cascade_expansion.
Print Assumptions C10_cascade_duplicates_refuted.
Print Assumptions C10_cascade_phantom_refuted.
Print Assumptions C10_oracle_is_open.
Print Assumptions C10_oracle_disjoint.
