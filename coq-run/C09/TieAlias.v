(* C09/TieAlias.v — half (a): no argument is written, for every aliasing configuration.
   Every theorem is re-proved on every run on the term Run.GenAlias.F_<function> that
   tools/alias2coq.py regenerated from /repo's current source:  the finite enumeration of all
   2^(number of MaybeAlias sites) configurations (Alias.check, by vm_compute) lifted to "for every
   assignment c : site -> bool" by Alias.check_sound.
   [safe P LS d f cfg] (coq/C09/Alias.v): the symbolic run of f under cfg at call depth d terminated
   normally, wrote no object reachable from a parameter (other than a parameter documented as
   modified in place, fallowed f) and no module-level object, consulted only configuration bits in
   fsites f, and is closed under one more level of call depth. *)
From Coq Require Import List String Bool NArith.
From Verif.C09 Require Import Alias.
From Run Require Import GenAlias.
Import ListNotations.
Open Scope string_scope.

Definition no_arg_write (f : fundef) : Prop :=
  exists d, forall c : N -> bool, safe PROG LOOPSITES d f (filter c (fsites f)).
Ltac enumerate := apply check_sound; vm_cast_no_check (eq_refl true).

(* the check is not vacuous: two hand-written mutants (independent of the source) are rejected, with the
   violating configuration *)
Definition mutant_inplace_after_copy_false : fundef :=
  mkfun 9001 "mutant: x = p.to(copy=False); x *= x" [(10, PBlob)]%N
        [SAssign 11 (EMaybe 0 1000 (EVar 10) []); SAug (EVar 11) (EVar 11)]%N [0]%N [].
Example mutant_copy_false_detected :
  check [mutant_inplace_after_copy_false] [] mutant_inplace_after_copy_false = false
  /\ first_bad [mutant_inplace_after_copy_false] [] 6 mutant_inplace_after_copy_false = Some [0%N].
Proof. vm_compute. split; reflexivity. Qed.
Definition mutant_out_is_argument : fundef :=
  mkfun 9002 "mutant: return sc.sqrt(p, out=p)" [(10, PBlob)]%N [SReturn (EOut (EVar 10%N) [EVar 10%N])] [] [].
Example mutant_out_detected : check [mutant_out_is_argument] [] mutant_out_is_argument = false.
Proof. vm_compute. reflexivity. Qed.
Definition copy_then_inplace : fundef :=
  mkfun 9003 "x = p.to(copy=True); x *= x" [(10, PBlob)]%N [SAssign 11 (EFresh 1000 [EVar 10]); SAug (EVar 11) (EVar 11)]%N [] [].
Example copy_then_inplace_accepted : check [copy_then_inplace] [] copy_then_inplace = true
  /\ writes [copy_then_inplace] [] [] 6 copy_then_inplace = [1000%N].
Proof. vm_compute. split; reflexivity. Qed.

(* a constructor whose validation works in place on what the caller passed: C(edges) with
   __init__: self.edges = edges; b = self.edges.flatten().to(dtype=, copy=False); b %= turn.  The new instance is an
   allocation site (writing its attributes is fine); the write through the two no-op conversions reaches the argument *)
Definition mutant_ctor_init (copy_false : bool) : fundef :=
  mkfun 9011 "mutant: C.__init__" [(1, PBlob); (10, PBlob)]%N
        [SSetField (EVar 1) 10 (EVar 10);
         SAssign 11 (if copy_false then EMaybe 1 1002 (EMaybe 0 1001 (EField (EVar 1) 10) []) []
                     else EFresh 1002 [EMaybe 0 1001 (EField (EVar 1) 10) []]);
         SAug (EVar 11) ENone]%N [0; 1]%N [].
Definition mutant_ctor (copy_false : bool) : fundef :=
  mkfun 9010 "mutant: C(edges)" [(10, PBlob)]%N [SReturn (ENew 1000 1 [9011] [(10, EVar 10)])]%N [0; 1]%N [].
Example mutant_ctor_detected :
  check [mutant_ctor true; mutant_ctor_init true] [] (mutant_ctor true) = false
  /\ first_bad [mutant_ctor true; mutant_ctor_init true] [] 6 (mutant_ctor true) = Some [0%N; 1%N]
  /\ check [mutant_ctor false; mutant_ctor_init false] [] (mutant_ctor false) = true.
Proof. vm_compute. repeat split; reflexivity. Qed.

(* a clamp written through a shallow copy: s = p.copy(deep=False); s.value = max(s.value, eps); return s.  The shallow copy
   is a new Variable over the SAME storage, and assigning .value / .values / .variances / .unit writes that storage (the translator
   emits SAug for such stores, tools/alias2coq.py BUFFER_ATTRS), so the caller's p is written; with a real copy it is not *)
Definition mutant_value_store (shallow : bool) : fundef :=
  mkfun 9020 "mutant: s = p.copy(deep=False); s.value = max(s.value, eps)" [(10, PBlob)]%N
        [SAssign 10 (if shallow
                     then ERecord 1000 [(F_DATA, EField (EVar 10) F_DATA); (F_COORDS, EShallow 1001 (EField (EVar 10) F_COORDS));
                                        (F_MASKS, EShallow 1002 (EField (EVar 10) F_MASKS))] [EElem (EVar 10)] []
                     else EFresh 1000 [EVar 10]);
         SAug (EVar 10) ENone; SReturn (EVar 10)]%N [] [].
Example mutant_value_store_detected :
  check [mutant_value_store true] [] (mutant_value_store true) = false
  /\ writes [mutant_value_store true] [] [] 6 (mutant_value_store true) = [0%N]
  /\ check [mutant_value_store false] [] (mutant_value_store false) = true.
Proof. vm_compute. repeat split; reflexivity. Qed.
(* adding a ready-made item to a block: b.add(item, comment=c) implemented as "item.comment = c; b._content.append(item)" writes the
   caller's item; appending alone writes only the block the method is called on (its documented effect: fallowed = [self]) *)
Definition mutant_block_add (sets_comment : bool) : fundef :=
  mkfun 9021 "mutant: Block.add" [(F_SELF, PBlob); (10, PBlob); (11, PScalar)]%N
        ((if sets_comment then [SSetField (EVar 10) 12 (EVar 11)] else []) ++ [SExpr (EMut (EField (EVar F_SELF) 13) [EVar 10])])%list
        [] [F_SELF].
Example mutant_block_add_detected :
  check [mutant_block_add true] [] (mutant_block_add true) = false
  /\ check [mutant_block_add false] [] (mutant_block_add false) = true
  /\ writes_allowed [mutant_block_add false] [] (mutant_block_add false) = true.
Proof. vm_compute. repeat split; reflexivity. Qed.

Theorem no_arg_write_as_float_type : no_arg_write F_utils_as_float_type.
Proof. enumerate. Qed.
Theorem no_arg_write_L1 : no_arg_write F_beamline_L1.
Proof. enumerate. Qed.
Theorem no_arg_write_L2 : no_arg_write F_beamline_L2.
Proof. enumerate. Qed.
Theorem no_arg_write_straight_incident_beam : no_arg_write F_beamline_straight_incident_beam.
Proof. enumerate. Qed.
Theorem no_arg_write_straight_scattered_beam : no_arg_write F_beamline_straight_scattered_beam.
Proof. enumerate. Qed.
Theorem no_arg_write_total_beam_length : no_arg_write F_beamline_total_beam_length.
Proof. enumerate. Qed.
Theorem no_arg_write_total_straight_beam_length_no_scatter : no_arg_write F_beamline_total_straight_beam_length_no_scatter.
Proof. enumerate. Qed.
Theorem no_arg_write_two_theta : no_arg_write F_beamline_two_theta.
Proof. enumerate. Qed.
Theorem no_arg_write_beam_aligned_unit_vectors : no_arg_write F_beamline_beam_aligned_unit_vectors.
Proof. enumerate. Qed.
Theorem no_arg_write__drop_due_to_gravity : no_arg_write F_beamline__drop_due_to_gravity.
Proof. enumerate. Qed.
Theorem no_arg_write__scattering_angles_with_gravity_generic : no_arg_write F_beamline__scattering_angles_with_gravity_generic.
Proof. enumerate. Qed.
Theorem no_arg_write__scattering_angles_with_gravity_orthogonal_coords : no_arg_write F_beamline__scattering_angles_with_gravity_orthogonal_coords.
Proof. enumerate. Qed.
Theorem no_arg_write_scattering_angles_with_gravity : no_arg_write F_beamline_scattering_angles_with_gravity.
Proof. enumerate. Qed.
Theorem no_arg_write_scattering_angle_in_yz_plane : no_arg_write F_beamline_scattering_angle_in_yz_plane.
Proof. enumerate. Qed.
Theorem no_arg_write_wavelength_from_tof : no_arg_write F_tof_wavelength_from_tof.
Proof. enumerate. Qed.
Theorem no_arg_write_dspacing_from_tof : no_arg_write F_tof_dspacing_from_tof.
Proof. enumerate. Qed.
Theorem no_arg_write_energy_from_tof : no_arg_write F_tof_energy_from_tof.
Proof. enumerate. Qed.
Theorem no_arg_write__energy_transfer_t0 : no_arg_write F_tof__energy_transfer_t0.
Proof. enumerate. Qed.
Theorem no_arg_write_energy_transfer_direct_from_tof : no_arg_write F_tof_energy_transfer_direct_from_tof.
Proof. enumerate. Qed.
Theorem no_arg_write_energy_transfer_indirect_from_tof : no_arg_write F_tof_energy_transfer_indirect_from_tof.
Proof. enumerate. Qed.
Theorem no_arg_write_energy_from_wavelength : no_arg_write F_tof_energy_from_wavelength.
Proof. enumerate. Qed.
Theorem no_arg_write_wavelength_from_energy : no_arg_write F_tof_wavelength_from_energy.
Proof. enumerate. Qed.
Theorem no_arg_write__wavelength_Q_conversions : no_arg_write F_tof__wavelength_Q_conversions.
Proof. enumerate. Qed.
Theorem no_arg_write_Q_from_wavelength : no_arg_write F_tof_Q_from_wavelength.
Proof. enumerate. Qed.
Theorem no_arg_write_wavelength_from_Q : no_arg_write F_tof_wavelength_from_Q.
Proof. enumerate. Qed.
Theorem no_arg_write_Q_elements_from_wavelength : no_arg_write F_tof_Q_elements_from_wavelength.
Proof. enumerate. Qed.
Theorem no_arg_write_dspacing_from_wavelength : no_arg_write F_tof_dspacing_from_wavelength.
Proof. enumerate. Qed.
Theorem no_arg_write_dspacing_from_energy : no_arg_write F_tof_dspacing_from_energy.
Proof. enumerate. Qed.
Theorem no_arg_write_Q_vec_from_Q_elements : no_arg_write F_tof_Q_vec_from_Q_elements.
Proof. enumerate. Qed.
Theorem no_arg_write_ub_matrix_from_u_and_b : no_arg_write F_tof_ub_matrix_from_u_and_b.
Proof. enumerate. Qed.
Theorem no_arg_write_hkl_vec_from_Q_vec : no_arg_write F_tof_hkl_vec_from_Q_vec.
Proof. enumerate. Qed.
Theorem no_arg_write_hkl_elements_from_hkl_vec : no_arg_write F_tof_hkl_elements_from_hkl_vec.
Proof. enumerate. Qed.
Theorem no_arg_write_time_at_sample_from_tof : no_arg_write F_tof_time_at_sample_from_tof.
Proof. enumerate. Qed.
Theorem no_arg_write__gaussian : no_arg_write F_model__gaussian.
Proof. enumerate. Qed.
Theorem no_arg_write__lorentzian : no_arg_write F_model__lorentzian.
Proof. enumerate. Qed.
Theorem no_arg_write__guess_from_peak : no_arg_write F_model__guess_from_peak.
Proof. enumerate. Qed.
Theorem no_arg_write_Model_call : no_arg_write F_model_Model___call__.
Proof. enumerate. Qed.
Theorem no_arg_write_Model_guess : no_arg_write F_model_Model_guess.
Proof. enumerate. Qed.
Theorem no_arg_write_Model_with_prefix : no_arg_write F_model_Model_with_prefix.
Proof. enumerate. Qed.
Theorem no_arg_write_Model_add : no_arg_write F_model_Model___add__.
Proof. enumerate. Qed.
Theorem no_arg_write_CompositeModel__call : no_arg_write F_model_CompositeModel__call.
Proof. enumerate. Qed.
Theorem no_arg_write_PolynomialModel__call : no_arg_write F_model_PolynomialModel__call.
Proof. enumerate. Qed.
Theorem no_arg_write_GaussianModel__call : no_arg_write F_model_GaussianModel__call.
Proof. enumerate. Qed.
Theorem no_arg_write_LorentzianModel__call : no_arg_write F_model_LorentzianModel__call.
Proof. enumerate. Qed.
Theorem no_arg_write_PseudoVoigtModel__call : no_arg_write F_model_PseudoVoigtModel__call.
Proof. enumerate. Qed.
Theorem no_arg_write_CompositeModel__guess : no_arg_write F_model_CompositeModel__guess.
Proof. enumerate. Qed.
Theorem no_arg_write_PolynomialModel__guess : no_arg_write F_model_PolynomialModel__guess.
Proof. enumerate. Qed.
Theorem no_arg_write_GaussianModel__guess : no_arg_write F_model_GaussianModel__guess.
Proof. enumerate. Qed.
Theorem no_arg_write_LorentzianModel__guess : no_arg_write F_model_LorentzianModel__guess.
Proof. enumerate. Qed.
Theorem no_arg_write_PseudoVoigtModel__guess : no_arg_write F_model_PseudoVoigtModel__guess.
Proof. enumerate. Qed.
Theorem no_arg_write_remove_peaks : no_arg_write F_remove_peaks_remove_peaks.
Proof. enumerate. Qed.
Theorem no_arg_write_FitResult_eval_peak : no_arg_write F_fit_peaks_FitResult_eval_peak.
Proof. enumerate. Qed.
Theorem no_arg_write__clip_to_data_range : no_arg_write F_fit_peaks__clip_to_data_range.
Proof. enumerate. Qed.
Theorem no_arg_write__fit_windows : no_arg_write F_fit_peaks__fit_windows.
Proof. enumerate. Qed.
Theorem no_arg_write__separate_from_neighbors_in_place : no_arg_write F_fit_peaks__separate_from_neighbors_in_place.
Proof. enumerate. Qed.
Theorem no_arg_write_wavelength_to_inverse_velocity : no_arg_write F_cascade_wavelength_to_inverse_velocity.
Proof. enumerate. Qed.
Theorem no_arg_write_propagate_times : no_arg_write F_cascade_propagate_times.
Proof. enumerate. Qed.
Theorem no_arg_write__chop : no_arg_write F_cascade__chop.
Proof. enumerate. Qed.
Theorem no_arg_write_Subframe_propagate_by : no_arg_write F_cascade_Subframe_propagate_by.
Proof. enumerate. Qed.
Theorem no_arg_write_Frame_propagate_to : no_arg_write F_cascade_Frame_propagate_to.
Proof. enumerate. Qed.
Theorem no_arg_write_Frame_chop : no_arg_write F_cascade_Frame_chop.
Proof. enumerate. Qed.
Theorem no_arg_write_Cylinder_beam_intersection : no_arg_write F_cylinder_Cylinder_beam_intersection.
Proof. enumerate. Qed.
Theorem no_arg_write_Cylinder_quadrature : no_arg_write F_cylinder_Cylinder_quadrature.
Proof. enumerate. Qed.
Theorem no_arg_write_Cylinder__select_quadrature_points : no_arg_write F_cylinder_Cylinder__select_quadrature_points.
Proof. enumerate. Qed.
Theorem no_arg_write__line_infinite_cylinder_intersection : no_arg_write F_cylinder__line_infinite_cylinder_intersection.
Proof. enumerate. Qed.
Theorem no_arg_write__line_slab_intersection : no_arg_write F_cylinder__line_slab_intersection.
Proof. enumerate. Qed.
Theorem no_arg_write__positive_interval_intersection : no_arg_write F_cylinder__positive_interval_intersection.
Proof. enumerate. Qed.
Theorem no_arg_write_Atom_for_isotope : no_arg_write F_atoms_Atom_for_isotope.
Proof. enumerate. Qed.
Theorem no_arg_write_Atom_atomic_weight : no_arg_write F_atoms_Atom_atomic_weight.
Proof. enumerate. Qed.
Theorem no_arg_write_Atom_atomic_mass : no_arg_write F_atoms_Atom_atomic_mass.
Proof. enumerate. Qed.
Theorem no_arg_write_ScatteringParams_for_isotope : no_arg_write F_atoms_ScatteringParams_for_isotope.
Proof. enumerate. Qed.
Theorem no_arg_write_graph_tof_elastic : no_arg_write F_gtof_elastic.
Proof. enumerate. Qed.
Theorem no_arg_write_graph_tof__strip_elastic : no_arg_write F_gtof__strip_elastic.
Proof. enumerate. Qed.
Theorem no_arg_write_graph_tof_kinematic : no_arg_write F_gtof_kinematic.
Proof. enumerate. Qed.
Theorem no_arg_write_graph_tof_elastic_dspacing : no_arg_write F_gtof_elastic_dspacing.
Proof. enumerate. Qed.
Theorem no_arg_write_graph_tof_elastic_energy : no_arg_write F_gtof_elastic_energy.
Proof. enumerate. Qed.
Theorem no_arg_write_graph_tof_elastic_Q : no_arg_write F_gtof_elastic_Q.
Proof. enumerate. Qed.
Theorem no_arg_write_graph_tof_elastic_Q_vec : no_arg_write F_gtof_elastic_Q_vec.
Proof. enumerate. Qed.
Theorem no_arg_write_graph_tof_elastic_hkl : no_arg_write F_gtof_elastic_hkl.
Proof. enumerate. Qed.
Theorem no_arg_write_graph_tof_elastic_wavelength : no_arg_write F_gtof_elastic_wavelength.
Proof. enumerate. Qed.
Theorem no_arg_write_graph_tof_direct_inelastic : no_arg_write F_gtof_direct_inelastic.
Proof. enumerate. Qed.
Theorem no_arg_write_graph_tof_indirect_inelastic : no_arg_write F_gtof_indirect_inelastic.
Proof. enumerate. Qed.
Theorem no_arg_write_graph_beamline_beamline : no_arg_write F_gbeamline_beamline.
Proof. enumerate. Qed.
Theorem no_arg_write_graph_beamline_two_theta : no_arg_write F_gbeamline_two_theta.
Proof. enumerate. Qed.
Theorem no_arg_write_graph_beamline_L1 : no_arg_write F_gbeamline_L1.
Proof. enumerate. Qed.
Theorem no_arg_write_graph_beamline_L2 : no_arg_write F_gbeamline_L2.
Proof. enumerate. Qed.
Theorem no_arg_write_graph_beamline_Ltotal : no_arg_write F_gbeamline_Ltotal.
Proof. enumerate. Qed.
Theorem no_arg_write_graph_beamline_incident_beam : no_arg_write F_gbeamline_incident_beam.
Proof. enumerate. Qed.
Theorem no_arg_write_graph_beamline_scattered_beam : no_arg_write F_gbeamline_scattered_beam.
Proof. enumerate. Qed.
Theorem no_arg_write_conversion_graph : no_arg_write F_conversions_conversion_graph.
Proof. enumerate. Qed.
Theorem no_arg_write_CIF_copy : no_arg_write F_cif_CIF_copy.
Proof. enumerate. Qed.
Theorem no_arg_write_Block_copy : no_arg_write F_cif_Block_copy.
Proof. enumerate. Qed.
Theorem no_arg_write_CIF_with_reducers : no_arg_write F_cif_CIF_with_reducers.
Proof. enumerate. Qed.
Theorem no_arg_write_CIF_with_authors : no_arg_write F_cif_CIF_with_authors.
Proof. enumerate. Qed.
Theorem no_arg_write_CIF_with_beamline : no_arg_write F_cif_CIF_with_beamline.
Proof. enumerate. Qed.

Theorem no_arg_write_CIF_with_reduced_powder_data : no_arg_write F_cif_CIF_with_reduced_powder_data.
Proof. enumerate. Qed.
Theorem no_arg_write_CIF_with_powder_calibration : no_arg_write F_cif_CIF_with_powder_calibration.
Proof. enumerate. Qed.
(* the low-level CIF interface: Block.add (appends to the block it is called on - fallowed = [self] - and must leave the chunk /
   loop / mapping it is handed alone, with or without a comment), and the constructor calls Block(...), Loop(...), Chunk(...)
   (new instances; the caller's content list, column mapping and pairs are only read) *)
Theorem no_arg_write_Block_add : no_arg_write F_cif_Block_add.
Proof. enumerate. Qed.
Example block_add_appends_to_self : writes_allowed PROG LOOPSITES F_cif_Block_add = true.
Proof. vm_compute. reflexivity. Qed.
Theorem no_arg_write_Block_new : no_arg_write F_cif_Block__new_.
Proof. enumerate. Qed.
Theorem no_arg_write_Loop_new : no_arg_write F_cif_Loop__new_.
Proof. enumerate. Qed.
Theorem no_arg_write_Chunk_new : no_arg_write F_cif_Chunk__new_.
Proof. enumerate. Qed.
(* the peak widths computed from caller-owned parameter dicts *)
Theorem no_arg_write_GaussianModel_fwhm : no_arg_write F_model_GaussianModel_fwhm.
Proof. enumerate. Qed.
Theorem no_arg_write_LorentzianModel_fwhm : no_arg_write F_model_LorentzianModel_fwhm.
Proof. enumerate. Qed.
Theorem no_arg_write_PseudoVoigtModel_fwhm : no_arg_write F_model_PseudoVoigtModel_fwhm.
Proof. enumerate. Qed.

(* the chopper family (chopper/disk_chopper.py, chopper/filtering.py, chopper/nexus_chopper.py and
   tof.chopper_cascade.Chopper.from_disk_chopper).  F_diskchopper_DiskChopper__new_ is the constructor CALL
   DiskChopper(axle_position=..., ..., slit_begin=..., slit_end=..., ...): a new instance (an allocation site, so
   writing ITS attributes is not a write of an argument) initialised by the dataclass __init__ and __post_init__;
   the validation of the slit edges (_check_edges / _check_edge_overlap) runs on the caller's variables. *)
Theorem no_arg_write_DiskChopper_new : no_arg_write F_diskchopper_DiskChopper__new_.
Proof. enumerate. Qed.
Theorem no_arg_write_DiskChopper_from_nexus : no_arg_write F_diskchopper_DiskChopper_from_nexus.
Proof. enumerate. Qed.
Theorem no_arg_write_DiskChopper_time_offset_open : no_arg_write F_diskchopper_DiskChopper_time_offset_open.
Proof. enumerate. Qed.
Theorem no_arg_write_DiskChopper_time_offset_close : no_arg_write F_diskchopper_DiskChopper_time_offset_close.
Proof. enumerate. Qed.
Theorem no_arg_write_DiskChopper_open_duration : no_arg_write F_diskchopper_DiskChopper_open_duration.
Proof. enumerate. Qed.
Theorem no_arg_write_DiskChopper_time_offset_angle_at_beam : no_arg_write F_diskchopper_DiskChopper_time_offset_angle_at_beam.
Proof. enumerate. Qed.
Theorem no_arg_write_DiskChopper_eq : no_arg_write F_diskchopper_DiskChopper___eq__.
Proof. enumerate. Qed.
Theorem no_arg_write_DiskChopper_n_slits : no_arg_write F_diskchopper_DiskChopper_n_slits.
Proof. enumerate. Qed.
Theorem no_arg_write_DiskChopper_angular_frequency : no_arg_write F_diskchopper_DiskChopper_angular_frequency.
Proof. enumerate. Qed.
Theorem no_arg_write_DiskChopper_is_clockwise : no_arg_write F_diskchopper_DiskChopper_is_clockwise.
Proof. enumerate. Qed.
Theorem no_arg_write_DiskChopper__apply_angle_repetitions : no_arg_write F_diskchopper_DiskChopper__apply_angle_repetitions.
Proof. enumerate. Qed.
Theorem no_arg_write_DiskChopper__source_phase_factor : no_arg_write F_diskchopper_DiskChopper__source_phase_factor.
Proof. enumerate. Qed.
Theorem no_arg_write_disk_chopper__check_edges : no_arg_write F_diskchopper__check_edges.
Proof. enumerate. Qed.
Theorem no_arg_write_disk_chopper__check_edge_overlap : no_arg_write F_diskchopper__check_edge_overlap.
Proof. enumerate. Qed.
Theorem no_arg_write_disk_chopper__broadcast_slit_height : no_arg_write F_diskchopper__broadcast_slit_height.
Proof. enumerate. Qed.
Theorem no_arg_write_disk_chopper__get_edges_from_nexus : no_arg_write F_diskchopper__get_edges_from_nexus.
Proof. enumerate. Qed.
Theorem no_arg_write_disk_chopper__get_1d_variable : no_arg_write F_diskchopper__get_1d_variable.
Proof. enumerate. Qed.
Theorem no_arg_write_find_plateaus : no_arg_write F_filtering_find_plateaus.
Proof. enumerate. Qed.
Theorem no_arg_write_collapse_plateaus : no_arg_write F_filtering_collapse_plateaus.
Proof. enumerate. Qed.
Theorem no_arg_write_filter_in_phase : no_arg_write F_filtering_filter_in_phase.
Proof. enumerate. Qed.
Theorem no_arg_write_filtering__derive : no_arg_write F_filtering__derive.
Proof. enumerate. Qed.
Theorem no_arg_write_filtering__check_total_tolerance : no_arg_write F_filtering__check_total_tolerance.
Proof. enumerate. Qed.
Theorem no_arg_write_filtering__next_highest : no_arg_write F_filtering__next_highest.
Proof. enumerate. Qed.
Theorem no_arg_write_extract_chopper_from_nexus : no_arg_write F_nexuschopper_extract_chopper_from_nexus.
Proof. enumerate. Qed.
Theorem no_arg_write_Chopper_from_disk_chopper : no_arg_write F_cascade_Chopper_from_disk_chopper.
Proof. enumerate. Qed.

(* the two documented in-place effects are real (the exemption is not vacuous): some configuration writes
   the exempted parameter *)
Example drop_due_to_gravity_consumes_distance : writes_allowed PROG LOOPSITES F_beamline__drop_due_to_gravity = true.
Proof. vm_compute. reflexivity. Qed.
Example separate_from_neighbors_writes_windows : writes_allowed PROG LOOPSITES F_fit_peaks__separate_from_neighbors_in_place = true.
Proof. vm_compute. reflexivity. Qed.
(* as_float_type (used as a MaybeAlias primitive at its call sites) returns its first argument or a new
   object, never its second *)
Lemma as_float_type_summary : forallb (fun c => let s := run PROG LOOPSITES c 6 F_utils_as_float_type in
   ok s && negb (mem 4%N (rt s)) && match c with [] => negb (mem 0%N (rt s)) | _ => mem 0%N (rt s) end)
   (powerset (fsites F_utils_as_float_type)) = true.
Proof. vm_compute. reflexivity. Qed.

Definition ANALYSED : list fundef := [F_utils_as_float_type;
  F_beamline_L1;
  F_beamline_L2;
  F_beamline_straight_incident_beam;
  F_beamline_straight_scattered_beam;
  F_beamline_total_beam_length;
  F_beamline_total_straight_beam_length_no_scatter;
  F_beamline_two_theta;
  F_beamline_beam_aligned_unit_vectors;
  F_beamline__drop_due_to_gravity;
  F_beamline__scattering_angles_with_gravity_generic;
  F_beamline__scattering_angles_with_gravity_orthogonal_coords;
  F_beamline_scattering_angles_with_gravity;
  F_beamline_scattering_angle_in_yz_plane;
  F_tof_wavelength_from_tof;
  F_tof_dspacing_from_tof;
  F_tof_energy_from_tof;
  F_tof__energy_transfer_t0;
  F_tof_energy_transfer_direct_from_tof;
  F_tof_energy_transfer_indirect_from_tof;
  F_tof_energy_from_wavelength;
  F_tof_wavelength_from_energy;
  F_tof__wavelength_Q_conversions;
  F_tof_Q_from_wavelength;
  F_tof_wavelength_from_Q;
  F_tof_Q_elements_from_wavelength;
  F_tof_dspacing_from_wavelength;
  F_tof_dspacing_from_energy;
  F_tof_Q_vec_from_Q_elements;
  F_tof_ub_matrix_from_u_and_b;
  F_tof_hkl_vec_from_Q_vec;
  F_tof_hkl_elements_from_hkl_vec;
  F_tof_time_at_sample_from_tof;
  F_model__gaussian;
  F_model__lorentzian;
  F_model__guess_from_peak;
  F_model_Model___call__;
  F_model_Model_guess;
  F_model_Model_with_prefix;
  F_model_Model___add__;
  F_model_CompositeModel__call;
  F_model_PolynomialModel__call;
  F_model_GaussianModel__call;
  F_model_LorentzianModel__call;
  F_model_PseudoVoigtModel__call;
  F_model_CompositeModel__guess;
  F_model_PolynomialModel__guess;
  F_model_GaussianModel__guess;
  F_model_LorentzianModel__guess;
  F_model_PseudoVoigtModel__guess;
  F_remove_peaks_remove_peaks;
  F_fit_peaks_FitResult_eval_peak;
  F_fit_peaks__clip_to_data_range;
  F_fit_peaks__fit_windows;
  F_fit_peaks__separate_from_neighbors_in_place;
  F_cascade_wavelength_to_inverse_velocity;
  F_cascade_propagate_times;
  F_cascade__chop;
  F_cascade_Subframe_propagate_by;
  F_cascade_Frame_propagate_to;
  F_cascade_Frame_chop;
  F_cylinder_Cylinder_beam_intersection;
  F_cylinder_Cylinder_quadrature;
  F_cylinder_Cylinder__select_quadrature_points;
  F_cylinder__line_infinite_cylinder_intersection;
  F_cylinder__line_slab_intersection;
  F_cylinder__positive_interval_intersection;
  F_atoms_Atom_for_isotope;
  F_atoms_Atom_atomic_weight;
  F_atoms_Atom_atomic_mass;
  F_atoms_ScatteringParams_for_isotope;
  F_gtof_elastic;
  F_gtof__strip_elastic;
  F_gtof_kinematic;
  F_gtof_elastic_dspacing;
  F_gtof_elastic_energy;
  F_gtof_elastic_Q;
  F_gtof_elastic_Q_vec;
  F_gtof_elastic_hkl;
  F_gtof_elastic_wavelength;
  F_gtof_direct_inelastic;
  F_gtof_indirect_inelastic;
  F_gbeamline_beamline;
  F_gbeamline_two_theta;
  F_gbeamline_L1;
  F_gbeamline_L2;
  F_gbeamline_Ltotal;
  F_gbeamline_incident_beam;
  F_gbeamline_scattered_beam;
  F_conversions_conversion_graph;
  F_cif_CIF_copy;
  F_cif_Block_copy;
  F_cif_CIF_with_reducers;
  F_cif_CIF_with_authors;
  F_cif_CIF_with_beamline;
  F_cif_CIF_with_reduced_powder_data;
  F_cif_CIF_with_powder_calibration;
  F_cif_Block_add;
  F_cif_Block__new_;
  F_cif_Loop__new_;
  F_cif_Chunk__new_;
  F_model_GaussianModel_fwhm;
  F_model_LorentzianModel_fwhm;
  F_model_PseudoVoigtModel_fwhm;
  F_diskchopper_DiskChopper__new_;
  F_diskchopper_DiskChopper_from_nexus;
  F_diskchopper_DiskChopper_time_offset_open;
  F_diskchopper_DiskChopper_time_offset_close;
  F_diskchopper_DiskChopper_open_duration;
  F_diskchopper_DiskChopper_time_offset_angle_at_beam;
  F_diskchopper_DiskChopper___eq__;
  F_diskchopper_DiskChopper_n_slits;
  F_diskchopper_DiskChopper_angular_frequency;
  F_diskchopper_DiskChopper_is_clockwise;
  F_diskchopper_DiskChopper__apply_angle_repetitions;
  F_diskchopper_DiskChopper__source_phase_factor;
  F_diskchopper__check_edges;
  F_diskchopper__check_edge_overlap;
  F_diskchopper__broadcast_slit_height;
  F_diskchopper__get_edges_from_nexus;
  F_diskchopper__get_1d_variable;
  F_filtering_find_plateaus;
  F_filtering_collapse_plateaus;
  F_filtering_filter_in_phase;
  F_filtering__derive;
  F_filtering__check_total_tolerance;
  F_filtering__next_highest;
  F_nexuschopper_extract_chopper_from_nexus;
  F_cascade_Chopper_from_disk_chopper].
Theorem all_analysed_no_arg_write : Forall no_arg_write ANALYSED.
Proof.
  exact (Forall_cons _ no_arg_write_as_float_type
  (Forall_cons _ no_arg_write_L1
  (Forall_cons _ no_arg_write_L2
  (Forall_cons _ no_arg_write_straight_incident_beam
  (Forall_cons _ no_arg_write_straight_scattered_beam
  (Forall_cons _ no_arg_write_total_beam_length
  (Forall_cons _ no_arg_write_total_straight_beam_length_no_scatter
  (Forall_cons _ no_arg_write_two_theta
  (Forall_cons _ no_arg_write_beam_aligned_unit_vectors
  (Forall_cons _ no_arg_write__drop_due_to_gravity
  (Forall_cons _ no_arg_write__scattering_angles_with_gravity_generic
  (Forall_cons _ no_arg_write__scattering_angles_with_gravity_orthogonal_coords
  (Forall_cons _ no_arg_write_scattering_angles_with_gravity
  (Forall_cons _ no_arg_write_scattering_angle_in_yz_plane
  (Forall_cons _ no_arg_write_wavelength_from_tof
  (Forall_cons _ no_arg_write_dspacing_from_tof
  (Forall_cons _ no_arg_write_energy_from_tof
  (Forall_cons _ no_arg_write__energy_transfer_t0
  (Forall_cons _ no_arg_write_energy_transfer_direct_from_tof
  (Forall_cons _ no_arg_write_energy_transfer_indirect_from_tof
  (Forall_cons _ no_arg_write_energy_from_wavelength
  (Forall_cons _ no_arg_write_wavelength_from_energy
  (Forall_cons _ no_arg_write__wavelength_Q_conversions
  (Forall_cons _ no_arg_write_Q_from_wavelength
  (Forall_cons _ no_arg_write_wavelength_from_Q
  (Forall_cons _ no_arg_write_Q_elements_from_wavelength
  (Forall_cons _ no_arg_write_dspacing_from_wavelength
  (Forall_cons _ no_arg_write_dspacing_from_energy
  (Forall_cons _ no_arg_write_Q_vec_from_Q_elements
  (Forall_cons _ no_arg_write_ub_matrix_from_u_and_b
  (Forall_cons _ no_arg_write_hkl_vec_from_Q_vec
  (Forall_cons _ no_arg_write_hkl_elements_from_hkl_vec
  (Forall_cons _ no_arg_write_time_at_sample_from_tof
  (Forall_cons _ no_arg_write__gaussian
  (Forall_cons _ no_arg_write__lorentzian
  (Forall_cons _ no_arg_write__guess_from_peak
  (Forall_cons _ no_arg_write_Model_call
  (Forall_cons _ no_arg_write_Model_guess
  (Forall_cons _ no_arg_write_Model_with_prefix
  (Forall_cons _ no_arg_write_Model_add
  (Forall_cons _ no_arg_write_CompositeModel__call
  (Forall_cons _ no_arg_write_PolynomialModel__call
  (Forall_cons _ no_arg_write_GaussianModel__call
  (Forall_cons _ no_arg_write_LorentzianModel__call
  (Forall_cons _ no_arg_write_PseudoVoigtModel__call
  (Forall_cons _ no_arg_write_CompositeModel__guess
  (Forall_cons _ no_arg_write_PolynomialModel__guess
  (Forall_cons _ no_arg_write_GaussianModel__guess
  (Forall_cons _ no_arg_write_LorentzianModel__guess
  (Forall_cons _ no_arg_write_PseudoVoigtModel__guess
  (Forall_cons _ no_arg_write_remove_peaks
  (Forall_cons _ no_arg_write_FitResult_eval_peak
  (Forall_cons _ no_arg_write__clip_to_data_range
  (Forall_cons _ no_arg_write__fit_windows
  (Forall_cons _ no_arg_write__separate_from_neighbors_in_place
  (Forall_cons _ no_arg_write_wavelength_to_inverse_velocity
  (Forall_cons _ no_arg_write_propagate_times
  (Forall_cons _ no_arg_write__chop
  (Forall_cons _ no_arg_write_Subframe_propagate_by
  (Forall_cons _ no_arg_write_Frame_propagate_to
  (Forall_cons _ no_arg_write_Frame_chop
  (Forall_cons _ no_arg_write_Cylinder_beam_intersection
  (Forall_cons _ no_arg_write_Cylinder_quadrature
  (Forall_cons _ no_arg_write_Cylinder__select_quadrature_points
  (Forall_cons _ no_arg_write__line_infinite_cylinder_intersection
  (Forall_cons _ no_arg_write__line_slab_intersection
  (Forall_cons _ no_arg_write__positive_interval_intersection
  (Forall_cons _ no_arg_write_Atom_for_isotope
  (Forall_cons _ no_arg_write_Atom_atomic_weight
  (Forall_cons _ no_arg_write_Atom_atomic_mass
  (Forall_cons _ no_arg_write_ScatteringParams_for_isotope
  (Forall_cons _ no_arg_write_graph_tof_elastic
  (Forall_cons _ no_arg_write_graph_tof__strip_elastic
  (Forall_cons _ no_arg_write_graph_tof_kinematic
  (Forall_cons _ no_arg_write_graph_tof_elastic_dspacing
  (Forall_cons _ no_arg_write_graph_tof_elastic_energy
  (Forall_cons _ no_arg_write_graph_tof_elastic_Q
  (Forall_cons _ no_arg_write_graph_tof_elastic_Q_vec
  (Forall_cons _ no_arg_write_graph_tof_elastic_hkl
  (Forall_cons _ no_arg_write_graph_tof_elastic_wavelength
  (Forall_cons _ no_arg_write_graph_tof_direct_inelastic
  (Forall_cons _ no_arg_write_graph_tof_indirect_inelastic
  (Forall_cons _ no_arg_write_graph_beamline_beamline
  (Forall_cons _ no_arg_write_graph_beamline_two_theta
  (Forall_cons _ no_arg_write_graph_beamline_L1
  (Forall_cons _ no_arg_write_graph_beamline_L2
  (Forall_cons _ no_arg_write_graph_beamline_Ltotal
  (Forall_cons _ no_arg_write_graph_beamline_incident_beam
  (Forall_cons _ no_arg_write_graph_beamline_scattered_beam
  (Forall_cons _ no_arg_write_conversion_graph
  (Forall_cons _ no_arg_write_CIF_copy
  (Forall_cons _ no_arg_write_Block_copy
  (Forall_cons _ no_arg_write_CIF_with_reducers
  (Forall_cons _ no_arg_write_CIF_with_authors
  (Forall_cons _ no_arg_write_CIF_with_beamline
  (Forall_cons _ no_arg_write_CIF_with_reduced_powder_data
  (Forall_cons _ no_arg_write_CIF_with_powder_calibration
  (Forall_cons _ no_arg_write_Block_add
  (Forall_cons _ no_arg_write_Block_new
  (Forall_cons _ no_arg_write_Loop_new
  (Forall_cons _ no_arg_write_Chunk_new
  (Forall_cons _ no_arg_write_GaussianModel_fwhm
  (Forall_cons _ no_arg_write_LorentzianModel_fwhm
  (Forall_cons _ no_arg_write_PseudoVoigtModel_fwhm
  (Forall_cons _ no_arg_write_DiskChopper_new
  (Forall_cons _ no_arg_write_DiskChopper_from_nexus
  (Forall_cons _ no_arg_write_DiskChopper_time_offset_open
  (Forall_cons _ no_arg_write_DiskChopper_time_offset_close
  (Forall_cons _ no_arg_write_DiskChopper_open_duration
  (Forall_cons _ no_arg_write_DiskChopper_time_offset_angle_at_beam
  (Forall_cons _ no_arg_write_DiskChopper_eq
  (Forall_cons _ no_arg_write_DiskChopper_n_slits
  (Forall_cons _ no_arg_write_DiskChopper_angular_frequency
  (Forall_cons _ no_arg_write_DiskChopper_is_clockwise
  (Forall_cons _ no_arg_write_DiskChopper__apply_angle_repetitions
  (Forall_cons _ no_arg_write_DiskChopper__source_phase_factor
  (Forall_cons _ no_arg_write_disk_chopper__check_edges
  (Forall_cons _ no_arg_write_disk_chopper__check_edge_overlap
  (Forall_cons _ no_arg_write_disk_chopper__broadcast_slit_height
  (Forall_cons _ no_arg_write_disk_chopper__get_edges_from_nexus
  (Forall_cons _ no_arg_write_disk_chopper__get_1d_variable
  (Forall_cons _ no_arg_write_find_plateaus
  (Forall_cons _ no_arg_write_collapse_plateaus
  (Forall_cons _ no_arg_write_filter_in_phase
  (Forall_cons _ no_arg_write_filtering__derive
  (Forall_cons _ no_arg_write_filtering__check_total_tolerance
  (Forall_cons _ no_arg_write_filtering__next_highest
  (Forall_cons _ no_arg_write_extract_chopper_from_nexus
  (Forall_cons _ no_arg_write_Chopper_from_disk_chopper
  (Forall_nil _)))))))))))))))))))))))))))))))))))))))))))))))))))))))))))))))))))))))))))))))))))))))))))))))))))))))))))))))))))))))))))))))))).
Qed.

