(* C09/TieHandles.v — half (b) on the CURRENT source.
   Run.GenHandles.OPS holds one descriptor per factory / combinator / lookup; every boolean in it is either
   read from the source by tools/alias2coq.py (lru_cache / cache decorator, frozen dataclass, public
   Variable fields, properties) or COMPUTED here by the alias analysis of the regenerated body
   (Alias.ret_top_fresh: for every aliasing configuration the returned object is none of the module-level
   objects / parameters; ret_deep_fresh; ret_field_fresh).  The lemmas below evaluate them. *)
From Coq Require Import List String Bool NArith.
From Verif.C09 Require Import Alias Handles.
From Run Require Import GenAlias GenHandles.
Import ListNotations.
Open Scope string_scope.

(* what the analysis says about the anchored mechanisms *)
Lemma elastic_returns_a_new_dict : ret_top_fresh PROG LOOPSITES F_gtof_elastic = true.
Proof. vm_compute. reflexivity. Qed.
Lemma beamline_returns_a_new_dict : ret_top_fresh PROG LOOPSITES F_gbeamline_beamline = true.
Proof. vm_compute. reflexivity. Qed.
Lemma conversion_graph_returns_a_new_dict : ret_top_fresh PROG LOOPSITES F_conversions_conversion_graph = true.
Proof. vm_compute. reflexivity. Qed.
Lemma atomic_weight_returns_a_copy : ret_top_fresh PROG LOOPSITES F_atoms_Atom_atomic_weight = true
                                  /\ ret_top_fresh PROG LOOPSITES F_atoms_Atom_atomic_mass = true.
Proof. vm_compute. split; reflexivity. Qed.
Lemma with_prefix_returns_a_deep_copy : ret_deep_fresh PROG LOOPSITES F_model_Model_with_prefix = true.
Proof. vm_compute. reflexivity. Qed.
Lemma cif_copy_does_not_share_its_block : ret_top_fresh PROG LOOPSITES F_cif_CIF_copy = true.
Proof. vm_compute. reflexivity. Qed.

Lemma graph_tof_ops_private : forallb op_private OPS_graph_tof = true.
Proof. vm_compute. reflexivity. Qed.
Lemma graph_beamline_ops_private : forallb op_private OPS_graph_beamline = true.
Proof. vm_compute. reflexivity. Qed.
Lemma model_ops_private : forallb op_private OPS_models = true.
Proof. vm_compute. reflexivity. Qed.
Lemma builder_ops_private : forallb op_private OPS_builders = true.
Proof. vm_compute. reflexivity. Qed.
(* which operations hand out stored objects (printed for the evidence; [] when everything is private) *)
Definition shared_ops : list string := map op_name (filter (fun d => negb (op_private d)) OPS).
