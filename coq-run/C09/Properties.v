(* C09/Properties.v — the property theorems (nothing else).

   (a) [no_arg_write f] (TieAlias.v): there is a call depth d at which the recursion is closed such that for
       EVERY assignment c : site -> bool of "this copy=False / slicing / as_float_type / ... returns its
       argument" the symbolic run of f — the term regenerated from the current source — terminates normally,
       writes no object reachable from a parameter (except a parameter documented as modified in place) and
       no module-level object.
   (b) [observations OPS hist]: the results of the calls of a history, as predicted by the Handles state
       machine with the descriptors of the current source. *)
From Coq Require Import List String Bool NArith.
From Verif.C09 Require Import Alias Handles.
From Run Require Import GenAlias GenHandles TieAlias TieHandles.
Import ListNotations.
Open Scope string_scope.

Theorem C09_no_argument_is_written : Forall no_arg_write ANALYSED.
Proof. exact all_analysed_no_arg_write. Qed.

(* the entry points named in the property, individually *)
Theorem C09_two_theta : no_arg_write F_beamline_two_theta.
Proof. exact no_arg_write_two_theta. Qed.
Theorem C09_scattering_angles_with_gravity : no_arg_write F_beamline_scattering_angles_with_gravity.
Proof. exact no_arg_write_scattering_angles_with_gravity. Qed.
Theorem C09_scattering_angle_in_yz_plane : no_arg_write F_beamline_scattering_angle_in_yz_plane.
Proof. exact no_arg_write_scattering_angle_in_yz_plane. Qed.
Theorem C09_remove_peaks : no_arg_write F_remove_peaks_remove_peaks.
Proof. exact no_arg_write_remove_peaks. Qed.
Theorem C09_frame_chop : no_arg_write F_cascade_Frame_chop.
Proof. exact no_arg_write_Frame_chop. Qed.
Theorem C09_cylinder_quadrature : no_arg_write F_cylinder_Cylinder_quadrature.
Proof. exact no_arg_write_Cylinder_quadrature. Qed.

(* the chopper family: constructing a DiskChopper (validation of the caller's slit edges included), its opening /
   closing times, the plateau filters and the cascade chopper built from a disk chopper *)
Theorem C09_DiskChopper_construction : no_arg_write F_diskchopper_DiskChopper__new_.
Proof. exact no_arg_write_DiskChopper_new. Qed.
Theorem C09_DiskChopper_from_nexus : no_arg_write F_diskchopper_DiskChopper_from_nexus.
Proof. exact no_arg_write_DiskChopper_from_nexus. Qed.
Theorem C09_DiskChopper_open_duration : no_arg_write F_diskchopper_DiskChopper_open_duration.
Proof. exact no_arg_write_DiskChopper_open_duration. Qed.
Theorem C09_find_plateaus : no_arg_write F_filtering_find_plateaus.
Proof. exact no_arg_write_find_plateaus. Qed.
Theorem C09_Chopper_from_disk_chopper : no_arg_write F_cascade_Chopper_from_disk_chopper.
Proof. exact no_arg_write_Chopper_from_disk_chopper. Qed.

(* the low-level CIF interface: adding a ready-made chunk / loop (or a mapping) to a block, with or without a comment, writes
   nothing but the block the method is called on; constructing blocks / loops / chunks only reads the caller's containers *)
Theorem C09_Block_add : no_arg_write F_cif_Block_add.
Proof. exact no_arg_write_Block_add. Qed.
Theorem C09_Block_construction : no_arg_write F_cif_Block__new_.
Proof. exact no_arg_write_Block_new. Qed.
Theorem C09_Loop_construction : no_arg_write F_cif_Loop__new_.
Proof. exact no_arg_write_Loop_new. Qed.
(* the peak shapes behind GaussianModel / LorentzianModel / PseudoVoigtModel / CompositeModel.__call__ (their division-by-zero guard
   included: whatever value the caller's scale has) *)
Theorem C09_model_call : no_arg_write F_model_Model___call__.
Proof. exact no_arg_write_Model_call. Qed.
Theorem C09_gaussian : no_arg_write F_model__gaussian.
Proof. exact no_arg_write__gaussian. Qed.
Theorem C09_lorentzian : no_arg_write F_model__lorentzian.
Proof. exact no_arg_write__lorentzian. Qed.

(* (b) for every history (unbounded length) that only calls operations whose results the analysis found
   private, every result equals the pristine one *)
Theorem C09_history_independent_on_private_ops : forall hist,
  (forall i k, In (Call i k) hist -> private_at OPS i = true) ->
  Forall pristine (observations OPS hist).
Proof. exact (history_independent_on OPS). Qed.

(* the hypothesis is satisfiable: a concrete history over the operations of the current source *)
Example C09_history_example :
  Forall pristine (observations OPS [Call 0 0%N; Mutate 0 None 7%N; Call 10 1%N; Mutate 1 None 7%N; Call 0 0%N]).
Proof.
  apply C09_history_independent_on_private_ops. intros i k H.
  repeat (destruct H as [H|H]; [inversion H; subst; vm_compute; reflexivity|]). destruct H.
Qed.

(* the model variant of a cached dataclass that hands out its stored variables is history DEPENDENT *)
Theorem C09_scattering_params_shared_refuted : forall k : N,
  exists hist, List.length hist = 3%nat /\
    ~ Forall pristine (observations [cached_dataclass_as_is "ScatteringParams.for_isotope" 2
        ["coherent_scattering_length_re"; "absorption_cross_section"]] hist).
Proof. intro k. exact (shared_attribute_refuted _ _ _ _ k). Qed.

Print Assumptions C09_no_argument_is_written.
Print Assumptions C09_two_theta.
Print Assumptions C09_remove_peaks.
Print Assumptions C09_DiskChopper_construction.
Print Assumptions C09_Block_add.
Print Assumptions C09_gaussian.
Print Assumptions C09_history_independent_on_private_ops.
Print Assumptions C09_scattering_params_shared_refuted.
