(* C09/PropertiesState.v — the two property theorems about STORED STATE, compiled last because they are the
   ones a tree with shared state breaks (the check then looks for the concrete history on the implementation). *)
From Coq Require Import List String Bool NArith.
From Verif.C09 Require Import Alias Handles.
From Run Require Import GenAlias GenHandles TieAlias TieHandles.
Import ListNotations.
Open Scope string_scope.

(* assembling the author chunks when a CIF builder is saved must not modify the builder (its id generator is
   part of it: advancing it makes the next save() write different author ids) *)
Theorem C09_cif_save_leaves_builder_unchanged : no_arg_write F_cif_CIF__assemble_authors.
Proof. enumerate. Qed.

(* the lookups of the bundled tables are private *)
Lemma atoms_ops_private : forallb op_private OPS_atoms = true.
Proof. vm_compute. reflexivity. Qed.

(* the full statement for the current source: every operation is private, hence for EVERY history (any
   length, any interleaving of calls and mutations of earlier results) every result equals the pristine one *)
Theorem C09_history_independent : forall hist, Forall pristine (observations OPS hist).
Proof. apply history_independent. vm_compute. reflexivity. Qed.

Print Assumptions C09_cif_save_leaves_builder_unchanged.
Print Assumptions C09_history_independent.
