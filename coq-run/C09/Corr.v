(* C09/Corr.v — comparison functions of the correspondence run (definitions only).
   The harness (tools/harness/c09_impl.py) writes what the real implementation did as [ccase] terms;
   [check_case] compares inside Coq with the model (classification of a primitive; prediction of the
   Handles state machine built from this run's descriptors Run.GenHandles.OPS) and with the property. *)
From Coq Require Import List String Bool NArith.
From Verif.Sem Require Import Corr.
From Verif.C09 Require Import Alias Handles.
From Run Require Import GenAlias GenHandles.
Import ListNotations.
Open Scope string_scope.

(* how the translator classifies a primitive *)
Inductive pclass := PFresh | PMaybe | PView | PShallow | POut.
(* observation: does the result share memory with the argument when the aliasing condition holds / fails
   (None = that situation cannot be constructed / not applicable) *)
Inductive ccase :=
| CRow (name : string) (c : pclass) (when_true when_false : option bool)
| CCall (name : string) (args_unchanged repeat_equal : bool)
| CHist (h : list action) (observed_pristine : list bool).

Definition ob (o : option bool) (dflt : bool) : bool := match o with Some b => b | None => dflt end.
Fixpoint eqbl (a b : list bool) : bool :=
  match a, b with
  | [], [] => true
  | x :: r, y :: s => Bool.eqb x y && eqbl r s
  | _, _ => false
  end.

(* the descriptors of this run, evaluated once *)
Definition OPSV : list opdesc := Eval vm_compute in OPS.

Definition check_case (ops : list opdesc) (c : ccase) : string :=
  match c with
  | CRow _ PFresh t f => if ob t false || ob f false then "model-says-new-object-but-memory-is-shared" else ""
  | CRow _ PMaybe t f =>
      (* when the condition fails a new object must come back; when it holds, sharing is what the enumeration
         covers (a primitive that never shares is covered too: the model is then merely conservative) *)
      if ob f false then "shares-memory-although-the-condition-fails" else ""
  | CRow _ PView t _ => if ob t true then "" else "model-says-same-storage-but-it-is-a-copy"
  | CRow _ PShallow t _ => if ob t true then "" else "model-says-shared-content-but-it-is-a-copy"
  | CRow _ POut t _ => if ob t true then "" else "out=-result-is-not-the-out-argument"
  | CCall _ unchanged rep =>
      if negb unchanged then "argument-modified"
      else if negb rep then "result-depends-on-call-history" else ""
  | CHist h obs =>
      if negb (eqbl (predict ops h) obs) then "model-prediction-differs"
      else if forallb (fun b => b) obs then "" else "history-dependent"
  end.
