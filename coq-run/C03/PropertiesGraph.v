(* C03/PropertiesGraph.v — the property theorems for the graph layer (nothing else), each closed by
   the lemma of TieGraph.v proved on the graphs and kernels regenerated on this run.

   Reading guide: [resolve O FUEL g E name] (Verif.C03.Graph) is the coordinate [name] obtained from
   data carrying the coordinates E through the graph g the way sc.transform_coords does it (rules
   take their operands by parameter name; coordinates the data carries win).  [g_beamline_scatter],
   [g_beamline_no_scatter], [g_L1], ... are the dictionaries returned on this run by
   graph.beamline.beamline(scatter=True/False), L1(), ... of conversion/graph/beamline.py; they are what
   scippneutron.L1(da), L2(da), Ltotal(da, scatter), two_theta(da), incident_beam(da), scattered_beam(da)
   resolve (beamline_components.py: _derived_coord; tied by the call-history correspondence).
   [env3 O src smp pos] = data with source_position, sample_position, position.
   tvec / phys / is_qty / is_vec: see Properties.v. *)
From Coq Require Import Reals ZArith String List Lra Bool.
From Verif.Sem Require Import Field Val RInst RLemmas.
From Verif.Vec Require Import Vec3.
From Verif.C03 Require Import SemExt Graph GraphNeeds.
From Run Require Import GenBeamline GenGraph Tie TieGraph.
Import ListNotations.
Open Scope string_scope.

(* ---- resolving a node of the beamline graphs is the composition of kernels (any arithmetic) *)
Theorem C03_graph_beamline_scatter_resolves : forall (O : Fops) (src smp pos : val O),
  let E := env3 O src smp pos in
  let inc := straight_incident_beam O src smp in let sca := straight_scattered_beam O pos smp in
  resolve O FUEL (g_beamline_scatter O) E "incident_beam" = inc
  /\ resolve O FUEL (g_beamline_scatter O) E "scattered_beam" = sca
  /\ resolve O FUEL (g_beamline_scatter O) E "L1" = L1 O inc
  /\ resolve O FUEL (g_beamline_scatter O) E "L2" = L2 O sca
  /\ resolve O FUEL (g_beamline_scatter O) E "two_theta" = two_theta O inc sca
  /\ resolve O FUEL (g_beamline_scatter O) E "Ltotal" = total_beam_length O (L1 O inc) (L2 O sca).
Proof. exact graph_beamline_scatter_resolves. Qed.

Theorem C03_graph_beamline_no_scatter_resolves : forall (O : Fops) (src smp pos : val O),
  resolve O FUEL (g_beamline_no_scatter O) (env3 O src smp pos) "Ltotal" = total_straight_beam_length_no_scatter O src pos.
Proof. exact graph_beamline_no_scatter_resolves. Qed.

Theorem C03_graph_inputs_resolve : forall (O : Fops) (src smp pos : val O),
  resolve O FUEL (g_beamline_scatter O) (env3 O src smp pos) "position" = pos
  /\ resolve O FUEL (g_beamline_scatter O) (env3 O src smp pos) "source_position" = src
  /\ resolve O FUEL (g_beamline_scatter O) (env3 O src smp pos) "sample_position" = smp.
Proof. exact graph_inputs_resolve. Qed.

Theorem C03_subgraphs_agree : forall (O : Fops) (src smp pos : val O),
  let E := env3 O src smp pos in
  let inc := straight_incident_beam O src smp in let sca := straight_scattered_beam O pos smp in
  resolve O FUEL (g_incident_beam O) E "incident_beam" = inc
  /\ resolve O FUEL (g_scattered_beam O) E "scattered_beam" = sca
  /\ resolve O FUEL (g_L1 O) E "L1" = L1 O inc
  /\ resolve O FUEL (g_L2 O) E "L2" = L2 O sca
  /\ resolve O FUEL (g_two_theta O) E "two_theta" = two_theta O inc sca
  /\ resolve O FUEL (g_Ltotal_scatter O) E "Ltotal" = total_beam_length O (L1 O inc) (L2 O sca)
  /\ resolve O FUEL (g_Ltotal_no_scatter O) E "Ltotal" = total_straight_beam_length_no_scatter O src pos.
Proof. exact subgraphs_agree. Qed.

Theorem C03_graph_beams_given : forall (O : Fops) (b1 b2 : val O),
  let E := env_beams O b1 b2 in
  resolve O FUEL (g_beamline_scatter O) E "L1" = L1 O b1
  /\ resolve O FUEL (g_beamline_scatter O) E "L2" = L2 O b2
  /\ resolve O FUEL (g_beamline_scatter O) E "two_theta" = two_theta O b1 b2
  /\ resolve O FUEL (g_beamline_scatter O) E "Ltotal" = total_beam_length O (L1 O b1) (L2 O b2)
  /\ resolve O FUEL (g_beamline_scatter O) E "incident_beam" = b1
  /\ resolve O FUEL (g_beamline_scatter O) E "scattered_beam" = b2.
Proof. exact graph_beams_given. Qed.

(* ---- data that carries only PART of the coordinates (Verif.C03.GraphNeeds: env_monitor = source + detector position, no
   sample; env_secondary = sample + detector; env_primary = source + sample; env_lengths = L1, L2; [missing] = the inputs
   transform_coords finds neither in the data nor as a rule, i.e. it refuses with KeyError iff the list is not empty;
   [needs] = the inputs the Euclidean definition of the quantity needs and the data does not carry) *)
Theorem C03_graph_monitor_resolves : forall (O : Fops) (src pos : val O),
  resolve O FUEL (g_beamline_no_scatter O) (env_monitor O src pos) "Ltotal" = total_straight_beam_length_no_scatter O src pos
  /\ resolve O FUEL (g_Ltotal_no_scatter O) (env_monitor O src pos) "Ltotal" = total_straight_beam_length_no_scatter O src pos
  /\ missing O FUEL (g_beamline_no_scatter O) (map fst (env_monitor O src pos)) "Ltotal" = []
  /\ resolve O FUEL (g_beamline_scatter O) (env_monitor O src pos) "position" = pos
  /\ resolve O FUEL (g_beamline_scatter O) (env_monitor O src pos) "source_position" = src.
Proof. exact graph_monitor_resolves. Qed.

Theorem C03_graph_monitor_refuses : forall (O : Fops) (src pos : val O),
  forallb (fun n => same_set (missing O FUEL (g_beamline_scatter O) (map fst (env_monitor O src pos)) n) ["sample_position"])
          ["incident_beam"; "scattered_beam"; "L1"; "L2"; "two_theta"; "Ltotal"; "sample_position"] = true.
Proof. exact graph_monitor_refuses. Qed.

Theorem C03_graph_secondary_resolves : forall (O : Fops) (smp pos : val O),
  let sca := straight_scattered_beam O pos smp in
  resolve O FUEL (g_beamline_scatter O) (env_secondary O smp pos) "scattered_beam" = sca
  /\ resolve O FUEL (g_beamline_scatter O) (env_secondary O smp pos) "L2" = L2 O sca
  /\ resolve O FUEL (g_L2 O) (env_secondary O smp pos) "L2" = L2 O sca
  /\ resolve O FUEL (g_scattered_beam O) (env_secondary O smp pos) "scattered_beam" = sca
  /\ forallb (fun n => same_set (missing O FUEL (g_beamline_scatter O) (map fst (env_secondary O smp pos)) n) ["source_position"])
             ["incident_beam"; "L1"; "two_theta"; "Ltotal"; "source_position"] = true
  /\ missing O FUEL (g_beamline_no_scatter O) (map fst (env_secondary O smp pos)) "Ltotal" = ["source_position"].
Proof. exact graph_secondary_resolves. Qed.

Theorem C03_graph_primary_resolves : forall (O : Fops) (src smp : val O),
  let inc := straight_incident_beam O src smp in
  resolve O FUEL (g_beamline_scatter O) (env_primary O src smp) "incident_beam" = inc
  /\ resolve O FUEL (g_beamline_scatter O) (env_primary O src smp) "L1" = L1 O inc
  /\ resolve O FUEL (g_L1 O) (env_primary O src smp) "L1" = L1 O inc
  /\ resolve O FUEL (g_incident_beam O) (env_primary O src smp) "incident_beam" = inc
  /\ forallb (fun n => same_set (missing O FUEL (g_beamline_scatter O) (map fst (env_primary O src smp)) n) ["position"])
             ["scattered_beam"; "L2"; "two_theta"; "Ltotal"; "position"] = true
  /\ missing O FUEL (g_beamline_no_scatter O) (map fst (env_primary O src smp)) "Ltotal" = ["position"].
Proof. exact graph_primary_resolves. Qed.

Theorem C03_graph_lengths_given : forall (O : Fops) (src smp pos b1 b2 l1 l2 : val O),
  let inc := straight_incident_beam O src smp in let sca := straight_scattered_beam O pos smp in
  resolve O FUEL (g_beamline_scatter O) (env_lengths O l1 l2) "Ltotal" = total_beam_length O l1 l2
  /\ resolve O FUEL (g_Ltotal_scatter O) (env_lengths O l1 l2) "Ltotal" = total_beam_length O l1 l2
  /\ resolve O FUEL (g_beamline_scatter O) (env_lengths O l1 l2) "L1" = l1
  /\ resolve O FUEL (g_beamline_scatter O) (env_lengths O l1 l2) "L2" = l2
  /\ resolve O FUEL (g_beamline_scatter O) (env_L1_secondary O l1 smp pos) "Ltotal" = total_beam_length O l1 (L2 O sca)
  /\ resolve O FUEL (g_beamline_scatter O) (env_beam_secondary O b1 smp pos) "Ltotal" = total_beam_length O (L1 O b1) (L2 O sca)
  /\ resolve O FUEL (g_beamline_scatter O) (env_beam_secondary O b1 smp pos) "two_theta" = two_theta O b1 sca
  /\ resolve O FUEL (g_beamline_scatter O) (env_primary_beam O src smp b2) "Ltotal" = total_beam_length O (L1 O inc) (L2 O b2)
  /\ resolve O FUEL (g_beamline_scatter O) (env_primary_beam O src smp b2) "two_theta" = two_theta O inc b2.
Proof. exact graph_lengths_given. Qed.

(* for EVERY combination of carried coordinates and every quantity: the inputs beamline(scatter) lacks are exactly those
   the Euclidean definition needs and the data does not carry *)
Theorem C03_graph_needs_exact : forall (O : Fops) have n, In have (subsets COORDS) ->
  (In n T_SCATTER -> same_set (missing O FUEL (g_beamline_scatter O) have n) (needs FUEL true have n) = true)
  /\ (In n T_NO_SCATTER -> same_set (missing O FUEL (g_beamline_no_scatter O) have n) (needs FUEL false have n) = true).
Proof. exact graph_needs_exact. Qed.

(* ... and likewise through each special-purpose graph, for its targets *)
Theorem C03_subgraphs_need_exact : forall (O : Fops),
  let ne := fun (g : graph O) (scatter : bool) (targets : list string) =>
    forallb (fun have => forallb (fun n => same_set (missing O FUEL g have n) (needs FUEL scatter have n)) targets) (subsets COORDS) in
  ne (g_incident_beam O) true ["incident_beam"]
  && ne (g_scattered_beam O) true ["scattered_beam"]
  && ne (g_L1 O) true ["L1"; "incident_beam"]
  && ne (g_L2 O) true ["L2"; "scattered_beam"]
  && ne (g_two_theta O) true ["two_theta"; "incident_beam"; "scattered_beam"]
  && ne (g_Ltotal_scatter O) true ["Ltotal"; "L1"; "L2"; "incident_beam"; "scattered_beam"]
  && ne (g_Ltotal_no_scatter O) false ["Ltotal"] = true.
Proof. exact needs_exact_subgraphs. Qed.

(* ---- Euclidean meaning of what the graphs yield from three positions (exact reals) *)
Open Scope R_scope.
Section P.
Variables h mn : R.
Notation O := (ROps h mn).
Notation tv := (tvec h mn).

Theorem C03_graph_lengths_euclid : forall x0 y0 z0 x1 y1 z1 x2 y2 z2 s, s > 0 ->
  let E := env3 O (tv x0 y0 z0 s d_m) (tv x1 y1 z1 s d_m) (tv x2 y2 z2 s d_m) in
  let src := phys x0 y0 z0 s in let smp := phys x1 y1 z1 s in let pos := phys x2 y2 z2 s in
  is_qty h mn (resolve O FUEL (g_beamline_scatter O) E "L1") (norm (vminus smp src)) s d_m DF64
  /\ is_qty h mn (resolve O FUEL (g_beamline_scatter O) E "L2") (norm (vminus pos smp)) s d_m DF64
  /\ is_qty h mn (resolve O FUEL (g_beamline_scatter O) E "Ltotal") (norm (vminus smp src) + norm (vminus pos smp)) s d_m DF64
  /\ is_qty h mn (resolve O FUEL (g_beamline_no_scatter O) E "Ltotal") (norm (vminus pos src)) s d_m DF64.
Proof using. exact (graph_lengths_euclid h mn). Qed.

Theorem C03_graph_beams_euclid : forall x0 y0 z0 x1 y1 z1 x2 y2 z2 s,
  let E := env3 O (tv x0 y0 z0 s d_m) (tv x1 y1 z1 s d_m) (tv x2 y2 z2 s d_m) in
  let I := vminus (phys x1 y1 z1 s) (phys x0 y0 z0 s) in
  let S := vminus (phys x2 y2 z2 s) (phys x1 y1 z1 s) in
  is_vec h mn (resolve O FUEL (g_beamline_scatter O) E "incident_beam") (vx I) (vy I) (vz I) s d_m
  /\ is_vec h mn (resolve O FUEL (g_beamline_scatter O) E "scattered_beam") (vx S) (vy S) (vz S) s d_m.
Proof using. exact (graph_beams_euclid h mn). Qed.

Theorem C03_graph_two_theta_euclid : forall x0 y0 z0 x1 y1 z1 x2 y2 z2 s,
  s > 0 -> mkV (x1 - x0) (y1 - y0) (z1 - z0) <> v0 -> mkV (x2 - x1) (y2 - y1) (z2 - z1) <> v0 ->
  let E := env3 O (tv x0 y0 z0 s d_m) (tv x1 y1 z1 s d_m) (tv x2 y2 z2 s d_m) in
  exists th,
    is_qty h mn (resolve O FUEL (g_beamline_scatter O) E "two_theta") th 1 d_rad DF64
    /\ th = angle (vminus (phys x1 y1 z1 s) (phys x0 y0 z0 s)) (vminus (phys x2 y2 z2 s) (phys x1 y1 z1 s))
    /\ 0 <= th <= PI.
Proof using. exact (graph_two_theta_euclid h mn). Qed.
Theorem C03_graph_monitor_euclid : forall x0 y0 z0 x2 y2 z2 s, s > 0 ->
  let E := env_monitor O (tv x0 y0 z0 s d_m) (tv x2 y2 z2 s d_m) in
  is_qty h mn (resolve O FUEL (g_beamline_no_scatter O) E "Ltotal") (norm (vminus (phys x2 y2 z2 s) (phys x0 y0 z0 s))) s d_m DF64
  /\ is_qty h mn (resolve O FUEL (g_Ltotal_no_scatter O) E "Ltotal") (norm (vminus (phys x2 y2 z2 s) (phys x0 y0 z0 s))) s d_m DF64.
Proof using. exact (graph_monitor_euclid h mn). Qed.

Theorem C03_graph_partial_euclid : forall x0 y0 z0 x1 y1 z1 x2 y2 z2 s, s > 0 ->
  let src := phys x0 y0 z0 s in let smp := phys x1 y1 z1 s in let pos := phys x2 y2 z2 s in
  let S := vminus pos smp in let I := vminus smp src in
  is_qty h mn (resolve O FUEL (g_beamline_scatter O) (env_secondary O (tv x1 y1 z1 s d_m) (tv x2 y2 z2 s d_m)) "L2") (norm S) s d_m DF64
  /\ is_vec h mn (resolve O FUEL (g_beamline_scatter O) (env_secondary O (tv x1 y1 z1 s d_m) (tv x2 y2 z2 s d_m)) "scattered_beam")
                 (vx S) (vy S) (vz S) s d_m
  /\ is_qty h mn (resolve O FUEL (g_beamline_scatter O) (env_primary O (tv x0 y0 z0 s d_m) (tv x1 y1 z1 s d_m)) "L1") (norm I) s d_m DF64
  /\ is_vec h mn (resolve O FUEL (g_beamline_scatter O) (env_primary O (tv x0 y0 z0 s d_m) (tv x1 y1 z1 s d_m)) "incident_beam")
                 (vx I) (vy I) (vz I) s d_m.
Proof using. exact (graph_partial_euclid h mn). Qed.
End P.

(* hypotheses are satisfiable: source (0,0,-10), sample (0,0,0), detector (3,4,0) in metres *)
Example C03_graph_nonvacuous :
  1 > 0 /\ mkV (0 - 0) (0 - 0) (0 - (-10)) <> v0 /\ mkV (3 - 0) (4 - 0) (0 - 0) <> v0.
Proof. repeat split; try lra; intros E; injection E; lra. Qed.

Print Assumptions C03_graph_beamline_scatter_resolves.
Print Assumptions C03_graph_beamline_no_scatter_resolves.
Print Assumptions C03_graph_inputs_resolve.
Print Assumptions C03_subgraphs_agree.
Print Assumptions C03_graph_beams_given.
Print Assumptions C03_graph_lengths_euclid.
Print Assumptions C03_graph_beams_euclid.
Print Assumptions C03_graph_two_theta_euclid.
Print Assumptions C03_graph_monitor_resolves.
Print Assumptions C03_graph_monitor_refuses.
Print Assumptions C03_graph_secondary_resolves.
Print Assumptions C03_graph_primary_resolves.
Print Assumptions C03_graph_lengths_given.
Print Assumptions C03_graph_needs_exact.
Print Assumptions C03_subgraphs_need_exact.
Print Assumptions C03_graph_monitor_euclid.
Print Assumptions C03_graph_partial_euclid.
