(* C03/Properties.v — the property theorems (nothing else), each closed by the lemma of
   Tie.v that was proved on the terms regenerated from beamline.py on this run.

   Reading guide: [tvec h mn x y z s d_m] is a vector3 operand storing (x,y,z) in a length unit
   with multiplier s to metres (s ARBITRARY positive: mm, m, km, ...); [phys x y z s] =
   (x*s, y*s, z*s) is the physical vector; [vminus], [norm], [angle] are Euclidean
   (Verif.Vec.Vec3: angle a b = acos (a.b / (|a||b|)) in [0,PI]).  [is_vec h mn r px py pz s d_m] /
   [is_qty h mn r p s dm dt]: r is a vector / scalar in a unit with multiplier s whose PHYSICAL
   value is (px,py,pz) / p.  scipp vectors are float64 only (probed), hence DF64 throughout. *)
From Coq Require Import Reals ZArith String List Lra.
From Verif.Sem Require Import Field Val RInst RLemmas.
From Verif.Vec Require Import Vec3.
From Verif.C03 Require Import SemExt.
From Run Require Import GenBeamline Tie.
Open Scope R_scope.

Section P.
Variables h mn : R.
Notation O := (ROps h mn).
Notation tv := (tvec h mn).

(* ---- beams and lengths equal their Euclidean definitions (beams_lengths_euclid) *)
Theorem C03_incident_beam : forall x0 y0 z0 x1 y1 z1 s,
  let P := vminus (phys x1 y1 z1 s) (phys x0 y0 z0 s) in          (* sample - source *)
  is_vec h mn (straight_incident_beam O (tv x0 y0 z0 s d_m) (tv x1 y1 z1 s d_m)) (vx P) (vy P) (vz P) s d_m.
Proof using. exact (straight_incident_beam_exact h mn). Qed.

Theorem C03_scattered_beam : forall x2 y2 z2 x1 y1 z1 s,
  let P := vminus (phys x2 y2 z2 s) (phys x1 y1 z1 s) in          (* position - sample *)
  is_vec h mn (straight_scattered_beam O (tv x2 y2 z2 s d_m) (tv x1 y1 z1 s d_m)) (vx P) (vy P) (vz P) s d_m.
Proof using. exact (straight_scattered_beam_exact h mn). Qed.

Theorem C03_L1 : forall x y z s, s > 0 ->
  is_qty h mn (L1 O (tv x y z s d_m)) (norm (phys x y z s)) s d_m DF64.
Proof using. exact (L1_exact h mn). Qed.

Theorem C03_L2 : forall x y z s, s > 0 ->
  is_qty h mn (L2 O (tv x y z s d_m)) (norm (phys x y z s)) s d_m DF64.
Proof using. exact (L2_exact h mn). Qed.

Theorem C03_Ltotal : forall l1 l2 s d1 d2, is_num d1 = true -> is_num d2 = true ->
  is_qty h mn (total_beam_length O (tvar h mn l1 s d_m d1) (tvar h mn l2 s d_m d2))
         (l1 * s + l2 * s) s d_m (promote OAdd d1 d2).
Proof using. exact (total_beam_length_exact h mn). Qed.

Theorem C03_Ltotal_no_scatter : forall x0 y0 z0 x2 y2 z2 s, s > 0 ->
  is_qty h mn (total_straight_beam_length_no_scatter O (tv x0 y0 z0 s d_m) (tv x2 y2 z2 s d_m))
         (norm (vminus (phys x2 y2 z2 s) (phys x0 y0 z0 s))) s d_m DF64.     (* |position - source| *)
Proof using. exact (total_straight_beam_length_no_scatter_exact h mn). Qed.

(* the same from the three positions source (0), sample (1), detector (2) of a straight beamline *)
Theorem C03_beams_lengths_euclid : forall x0 y0 z0 x1 y1 z1 x2 y2 z2 s, s > 0 ->
  let src := phys x0 y0 z0 s in let smp := phys x1 y1 z1 s in let pos := phys x2 y2 z2 s in
  is_qty h mn (L1 O (straight_incident_beam O (tv x0 y0 z0 s d_m) (tv x1 y1 z1 s d_m))) (norm (vminus smp src)) s d_m DF64
  /\ is_qty h mn (L2 O (straight_scattered_beam O (tv x2 y2 z2 s d_m) (tv x1 y1 z1 s d_m))) (norm (vminus pos smp)) s d_m DF64
  /\ is_qty h mn (total_beam_length O
                    (L1 O (straight_incident_beam O (tv x0 y0 z0 s d_m) (tv x1 y1 z1 s d_m)))
                    (L2 O (straight_scattered_beam O (tv x2 y2 z2 s d_m) (tv x1 y1 z1 s d_m))))
                 (norm (vminus smp src) + norm (vminus pos smp)) s d_m DF64
  /\ is_qty h mn (total_straight_beam_length_no_scatter O (tv x0 y0 z0 s d_m) (tv x2 y2 z2 s d_m))
                 (norm (vminus pos src)) s d_m DF64.
Proof using.
  intros; repeat split.
  - apply L1_of_positions; assumption.
  - apply L2_of_positions; assumption.
  - apply Ltotal_of_positions; assumption.
  - apply total_straight_beam_length_no_scatter_exact; assumption.
Qed.

(* ---- the scattering angle *)
Theorem C03_two_theta_is_angle : forall x1 y1 z1 s1 x2 y2 z2 s2,
  s1 > 0 -> s2 > 0 -> mkV x1 y1 z1 <> v0 -> mkV x2 y2 z2 <> v0 ->
  is_qty h mn (two_theta O (tv x1 y1 z1 s1 d_m) (tv x2 y2 z2 s2 d_m))
         (angle (phys x1 y1 z1 s1) (phys x2 y2 z2 s2)) 1 d_rad DF64.
Proof using. exact (two_theta_exact h mn). Qed.

Theorem C03_two_theta_of_positions : forall x0 y0 z0 x1 y1 z1 x2 y2 z2 s,
  s > 0 -> mkV (x1 - x0) (y1 - y0) (z1 - z0) <> v0 -> mkV (x2 - x1) (y2 - y1) (z2 - z1) <> v0 ->
  is_qty h mn (two_theta O (straight_incident_beam O (tv x0 y0 z0 s d_m) (tv x1 y1 z1 s d_m))
                           (straight_scattered_beam O (tv x2 y2 z2 s d_m) (tv x1 y1 z1 s d_m)))
         (angle (vminus (phys x1 y1 z1 s) (phys x0 y0 z0 s)) (vminus (phys x2 y2 z2 s) (phys x1 y1 z1 s)))
         1 d_rad DF64.
Proof using. exact (two_theta_of_positions h mn). Qed.

Theorem C03_two_theta_range : forall x1 y1 z1 s1 x2 y2 z2 s2,
  s1 > 0 -> s2 > 0 -> mkV x1 y1 z1 <> v0 -> mkV x2 y2 z2 <> v0 ->
  exists th, is_qty h mn (two_theta O (tv x1 y1 z1 s1 d_m) (tv x2 y2 z2 s2 d_m)) th 1 d_rad DF64
             /\ 0 <= th <= PI.
Proof using. exact (two_theta_range h mn). Qed.

Theorem C03_two_theta_sym : forall x1 y1 z1 s1 x2 y2 z2 s2,
  s1 > 0 -> s2 > 0 -> mkV x1 y1 z1 <> v0 -> mkV x2 y2 z2 <> v0 ->
  exists th, is_qty h mn (two_theta O (tv x1 y1 z1 s1 d_m) (tv x2 y2 z2 s2 d_m)) th 1 d_rad DF64
          /\ is_qty h mn (two_theta O (tv x2 y2 z2 s2 d_m) (tv x1 y1 z1 s1 d_m)) th 1 d_rad DF64.
Proof using. exact (two_theta_sym h mn). Qed.

(* positive rescaling of either beam: of the stored numbers (k1, k2) and/or of the unit (s -> s') *)
Theorem C03_two_theta_scale : forall x1 y1 z1 s1 x2 y2 z2 s2 k1 k2 s1' s2',
  s1 > 0 -> s2 > 0 -> s1' > 0 -> s2' > 0 -> k1 > 0 -> k2 > 0 -> mkV x1 y1 z1 <> v0 -> mkV x2 y2 z2 <> v0 ->
  exists th, is_qty h mn (two_theta O (tv x1 y1 z1 s1 d_m) (tv x2 y2 z2 s2 d_m)) th 1 d_rad DF64
          /\ is_qty h mn (two_theta O (tv (k1 * x1) (k1 * y1) (k1 * z1) s1' d_m) (tv (k2 * x2) (k2 * y2) (k2 * z2) s2' d_m))
                         th 1 d_rad DF64.
Proof using. exact (two_theta_scale h mn). Qed.

(* a common orthogonal map (rotation or reflection) M and translation t of source, sample, detector *)
Theorem C03_two_theta_rigid : forall M t src smp pos s,
  orthogonal M -> s > 0 -> vminus smp src <> v0 -> vminus pos smp <> v0 ->
  exists th, is_qty h mn (two_theta_pos h mn src smp pos s) th 1 d_rad DF64
          /\ is_qty h mn (two_theta_pos h mn (vplus (mapp M src) t) (vplus (mapp M smp) t) (vplus (mapp M pos) t) s)
                         th 1 d_rad DF64.
Proof using. exact (two_theta_rigid h mn). Qed.
End P.

(* ---- conditioning: why Kahan's form and not acos of the normalised dot product *)
Theorem C03_kahan_conditioning : forall x y dx dy eps,
  0 <= x -> 0 <= y -> (x <> 0 \/ y <> 0) -> 0 <= eps <= 1 / 16 -> Rabs dx <= eps -> Rabs dy <= eps ->
  Rabs (2 * atan2 (y * (1 + dy)) (x * (1 + dx)) - 2 * atan2 y x) <= 3 * eps.
Proof. exact kahan_conditioning. Qed.

Theorem C03_acos_conditioning_refuted : forall eps, 0 < eps <= 1 ->
  exists c c', -1 <= c <= 1 /\ -1 <= c' <= 1 /\ Rabs (c' - c) <= eps * Rabs c
               /\ sqrt (2 * eps) <= Rabs (acos c' - acos c).
Proof. exact acos_conditioning_refuted. Qed.

(* PARTIAL: absolute accuracy of the whole kernel.  Proved: if the floating-point values of
   x = |e1+e2| and y = |e1-e2| carry relative errors <= eps <= 1/16 and atan2 returns its value with
   relative error <= u (the final doubling is exact in binary), the returned angle is within
   3 eps + (PI + 3 eps) u of the Euclidean angle.  NOT proved (gap): that binary64 evaluation of the
   normalisations, of e1-e2 (cancellation for nearly parallel beams: there the error of y is
   ABSOLUTE ~2^-53, i.e. the angle is still good to ~1e-16 but not in the relative sense assumed
   here) and of the two norms achieves such an eps; the 1e-15 rad claim is therefore validated by
   the correspondence run (|impl - exact| <= 4e-15 on near-degenerate inputs), not proved. *)
Theorem C03_two_theta_abs_accuracy_partial : forall a b dx dy da eps u,
  a <> v0 -> b <> v0 -> 0 <= eps <= 1 / 16 -> 0 <= u -> Rabs dx <= eps -> Rabs dy <= eps -> Rabs da <= u ->
  let X := norm (vplus (dir a) (dir b)) in let Y := norm (vminus (dir a) (dir b)) in
  Rabs (2 * (atan2 (Y * (1 + dy)) (X * (1 + dx)) * (1 + da)) - angle a b) <= 3 * eps + (PI + 3 * eps) * u.
Proof. exact two_theta_abs_accuracy_partial. Qed.

(* hypotheses are satisfiable: beams (0,0,10) m and (3,4,0) mm are non-zero; an orthogonal M exists *)
Example C03_nonvacuous :
  1 > 0 /\ 1 / 1000 > 0 /\ mkV 0 0 10 <> v0 /\ mkV 3 4 0 <> v0 /\ orthogonal (mkM 0 (-1) 0 1 0 0 0 0 1)
  /\ vminus (mkV 0 0 0) (mkV 0 0 (-10)) <> v0 /\ (0 <= 1 / 16 <= 1 / 16) /\ (2 <> 0 \/ 0 <> 0).
Proof.
  repeat split; try lra; try (intros E; injection E; lra);
    try (unfold orthogonal; apply mat_eq; simpl; ring); try (left; lra).
Qed.

Print Assumptions C03_incident_beam.
Print Assumptions C03_scattered_beam.
Print Assumptions C03_L1.
Print Assumptions C03_L2.
Print Assumptions C03_Ltotal.
Print Assumptions C03_Ltotal_no_scatter.
Print Assumptions C03_beams_lengths_euclid.
Print Assumptions C03_two_theta_is_angle.
Print Assumptions C03_two_theta_of_positions.
Print Assumptions C03_two_theta_range.
Print Assumptions C03_two_theta_sym.
Print Assumptions C03_two_theta_scale.
Print Assumptions C03_two_theta_rigid.
Print Assumptions C03_kahan_conditioning.
Print Assumptions C03_acos_conditioning_refuted.
Print Assumptions C03_two_theta_abs_accuracy_partial.
