(* C03/PropertiesAbs.v — the absolute-accuracy clause of C03 ("accurate to about 1e-15 rad absolute
   even for nearly parallel or antiparallel beams"), restated from Verif.C03.AbsAccuracy.

   Reading guide.  [fl_two_theta fadd fsub fmul fdiv fsqrt fatan2 a b] is beamline.py:two_theta
   operation by operation on the beams a, b : vec (components arbitrary reals):
     n_a = fsqrt (fadd (fadd (fmul ax ax) (fmul ay ay)) (fmul az az)),  e1 = (fdiv ax n_a, ..),  same for b,
     y = fl_norm (e1 [fsub] e2),  x = fl_norm (e1 [fadd] e2),  result 2 * fatan2 y x  (doubling exact).
   The hypotheses are the STANDARD MODEL of floating-point arithmetic: every + - * / sqrt returns
   exact * (1 + delta), |delta| <= u (no overflow/underflow), and atan2 is an ORACLE returning the
   mathematical value with relative error <= u (resp. 2u, ua).  [angle a b] = acos (a.b/(|a||b|)).
   No exception near 0 or PI: the bound holds for ALL non-zero beams.
   Constants: 116/5 = 23.2;  23.2 * 2^-53 = 2.58e-15 rad. *)
From Coq Require Import Reals Lra.
From Verif.Sem Require Import RInst FlInst.
From Verif.Vec Require Import Vec3.
From Verif.C03 Require Import AbsAccuracy.
Open Scope R_scope.

(* ---- 1. absolute conditioning of 2*atan2(y,x) on the circle x^2 + y^2 = 4 *)
Theorem C03_kahan_abs_conditioning : forall x y x' y' d,
  0 <= x -> 0 <= y -> x * x + y * y = 4 -> 0 <= d <= 1 / 8 -> Rabs (x' - x) <= d -> Rabs (y' - y) <= d ->
  Rabs (2 * atan2 y' x' - 2 * atan2 y x) <= 8 / 5 * d.
Proof. exact kahan_abs_conditioning. Qed.

Theorem C03_kahan_abs_conditioning_small : forall x y x' y' d,
  0 <= x -> 0 <= y -> x * x + y * y = 4 -> 0 <= d <= 1 / 1000 -> Rabs (x' - x) <= d -> Rabs (y' - y) <= d ->
  Rabs (2 * atan2 y' x' - 2 * atan2 y x) <= 71 / 50 * d.
Proof. exact kahan_abs_conditioning_small. Qed.

(* ---- 2. standard model: the computed unit vector is within 3.53 u of the exact one, and the
        computed x~ = fl|e1~ + e2~|, y~ = fl|e1~ - e2~| are within 14.11 u (ABSOLUTE) of |e1+e2|, |e1-e2| *)
Theorem C03_fl_dir_err : forall u fadd fmul fdiv fsqrt,
  0 <= u <= 1 / 1000000 ->
  (forall a b, exists d, Rabs d <= u /\ fadd a b = (a + b) * (1 + d)) ->
  (forall a b, exists d, Rabs d <= u /\ fmul a b = (a * b) * (1 + d)) ->
  (forall a b, b <> 0 -> exists d, Rabs d <= u /\ fdiv a b = (a / b) * (1 + d)) ->
  (forall a, 0 <= a -> exists d, Rabs d <= u /\ fsqrt a = sqrt a * (1 + d)) ->
  forall a, a <> v0 ->
  norm (vminus (fl_dir fadd fmul fdiv fsqrt a) (dir a)) <= 353 / 100 * u.
Proof. exact fl_dir_err. Qed.

Theorem C03_fl_xy_abs_err : forall u fadd fsub fmul fdiv fsqrt,
  0 <= u <= 1 / 1000000 ->
  (forall a b, exists d, Rabs d <= u /\ fadd a b = (a + b) * (1 + d)) ->
  (forall a b, exists d, Rabs d <= u /\ fsub a b = (a - b) * (1 + d)) ->
  (forall a b, exists d, Rabs d <= u /\ fmul a b = (a * b) * (1 + d)) ->
  (forall a b, b <> 0 -> exists d, Rabs d <= u /\ fdiv a b = (a / b) * (1 + d)) ->
  (forall a, 0 <= a -> exists d, Rabs d <= u /\ fsqrt a = sqrt a * (1 + d)) ->
  forall a b, a <> v0 -> b <> v0 ->
  let e1 := fl_dir fadd fmul fdiv fsqrt a in let e2 := fl_dir fadd fmul fdiv fsqrt b in
  Rabs (fl_norm fadd fmul fsqrt (fl_vplus fadd e1 e2) - norm (vplus (dir a) (dir b))) <= 1411 / 100 * u /\
  Rabs (fl_norm fadd fmul fsqrt (fl_vminus fsub e1 e2) - norm (vminus (dir a) (dir b))) <= 1411 / 100 * u.
Proof. exact fl_xy_abs_err. Qed.

(* ---- 3. the whole kernel *)
Theorem C03_two_theta_abs_accuracy_gen : forall u ua fadd fsub fmul fdiv fsqrt fatan2,
  0 <= u <= 1 / 1000000 -> 0 <= ua <= 1 / 1000 ->
  (forall a b, exists d, Rabs d <= u /\ fadd a b = (a + b) * (1 + d)) ->
  (forall a b, exists d, Rabs d <= u /\ fsub a b = (a - b) * (1 + d)) ->
  (forall a b, exists d, Rabs d <= u /\ fmul a b = (a * b) * (1 + d)) ->
  (forall a b, b <> 0 -> exists d, Rabs d <= u /\ fdiv a b = (a / b) * (1 + d)) ->
  (forall a, 0 <= a -> exists d, Rabs d <= u /\ fsqrt a = sqrt a * (1 + d)) ->
  (forall y x, exists d, Rabs d <= ua /\ fatan2 y x = atan2 y x * (1 + d)) ->
  forall a b, a <> v0 -> b <> v0 ->
  Rabs (fl_two_theta fadd fsub fmul fdiv fsqrt fatan2 a b - angle a b) <= 501 / 25 * u + 63 / 20 * ua.
Proof. exact two_theta_abs_accuracy_gen. Qed.

Theorem C03_two_theta_abs_accuracy : forall u fadd fsub fmul fdiv fsqrt fatan2,
  0 <= u <= 1 / 1000000 ->
  (forall a b, exists d, Rabs d <= u /\ fadd a b = (a + b) * (1 + d)) ->
  (forall a b, exists d, Rabs d <= u /\ fsub a b = (a - b) * (1 + d)) ->
  (forall a b, exists d, Rabs d <= u /\ fmul a b = (a * b) * (1 + d)) ->
  (forall a b, b <> 0 -> exists d, Rabs d <= u /\ fdiv a b = (a / b) * (1 + d)) ->
  (forall a, 0 <= a -> exists d, Rabs d <= u /\ fsqrt a = sqrt a * (1 + d)) ->
  (forall y x, exists d, Rabs d <= u /\ fatan2 y x = atan2 y x * (1 + d)) ->
  forall a b, a <> v0 -> b <> v0 ->
  Rabs (fl_two_theta fadd fsub fmul fdiv fsqrt fatan2 a b - angle a b) <= 116 / 5 * u.
Proof. exact two_theta_abs_accuracy. Qed.

Theorem C03_two_theta_abs_accuracy_1ulp : forall u fadd fsub fmul fdiv fsqrt fatan2,
  0 <= u <= 1 / 1000000 ->
  (forall a b, exists d, Rabs d <= u /\ fadd a b = (a + b) * (1 + d)) ->
  (forall a b, exists d, Rabs d <= u /\ fsub a b = (a - b) * (1 + d)) ->
  (forall a b, exists d, Rabs d <= u /\ fmul a b = (a * b) * (1 + d)) ->
  (forall a b, b <> 0 -> exists d, Rabs d <= u /\ fdiv a b = (a / b) * (1 + d)) ->
  (forall a, 0 <= a -> exists d, Rabs d <= u /\ fsqrt a = sqrt a * (1 + d)) ->
  (forall y x, exists d, Rabs d <= 2 * u /\ fatan2 y x = atan2 y x * (1 + d)) ->
  forall a b, a <> v0 -> b <> v0 ->
  Rabs (fl_two_theta fadd fsub fmul fdiv fsqrt fatan2 a b - angle a b) <= 132 / 5 * u.
Proof. exact two_theta_abs_accuracy_1ulp. Qed.

(* the hypotheses are satisfiable by a genuine rounding: binary64 round-to-nearest-even with unbounded
   exponent range (Flocq; b64_add a b = rnd (a + b), ..., b64_atan2 y x = rnd (atan2 y x)), u = u64 = 2^-53 *)
Theorem C03_two_theta_abs_accuracy_binary64 : forall a b, a <> v0 -> b <> v0 ->
  Rabs (fl_two_theta b64_add b64_sub b64_mul b64_div b64_sqrt b64_atan2 a b - angle a b) <= 116 / 5 * u64
  /\ 116 / 5 * u64 < 258 / 100000000000000000.
Proof. exact two_theta_abs_accuracy_binary64. Qed.

(* hypotheses are satisfiable: a point of the circle with a perturbation; u = 2^-53 is in range and the
   rounding [rnd] meets every model hypothesis; nearly parallel non-zero beams *)
Example C03_abs_nonvacuous :
  (0 <= 2 /\ 0 <= 0 /\ 2 * 2 + 0 * 0 = 4 /\ 0 <= 1 / 1000 <= 1 / 8 /\ Rabs (2 - 1 / 1000 - 2) <= 1 / 1000)
  /\ 0 <= u64 <= 1 / 1000000
  /\ (forall a b, exists d, Rabs d <= u64 /\ b64_add a b = (a + b) * (1 + d))
  /\ (forall a b, exists d, Rabs d <= u64 /\ b64_sub a b = (a - b) * (1 + d))
  /\ (forall a b, exists d, Rabs d <= u64 /\ b64_mul a b = (a * b) * (1 + d))
  /\ (forall a b, b <> 0 -> exists d, Rabs d <= u64 /\ b64_div a b = (a / b) * (1 + d))
  /\ (forall a, 0 <= a -> exists d, Rabs d <= u64 /\ b64_sqrt a = sqrt a * (1 + d))
  /\ (forall y x, exists d, Rabs d <= u64 /\ b64_atan2 y x = atan2 y x * (1 + d))
  /\ mkV 0 0 10 <> v0 /\ mkV (1 / 1000000000000) 0 10 <> v0.
Proof.
  split; [repeat split; try lra; rewrite Rabs_left; lra|].
  split; [rewrite u64_val; lra|].
  repeat split; try (intros; apply rnd_model); intros E; injection E; lra.
Qed.

Print Assumptions C03_kahan_abs_conditioning.
Print Assumptions C03_kahan_abs_conditioning_small.
Print Assumptions C03_fl_dir_err.
Print Assumptions C03_fl_xy_abs_err.
Print Assumptions C03_two_theta_abs_accuracy_gen.
Print Assumptions C03_two_theta_abs_accuracy.
Print Assumptions C03_two_theta_abs_accuracy_1ulp.
Print Assumptions C03_two_theta_abs_accuracy_binary64.
