(* C03/Tie.v — obligations proved DIRECTLY ON THE TERMS REGENERATED FROM
   /repo/src/scippneutron/conversion/beamline.py on this run (Run.GenBeamline).

   Reading guide.  [tvec h mn x y z s d_m] is a vector3 operand with stored
   components (x,y,z) in a length unit whose multiplier to metres is s (ANY
   positive real: mm, m, km, ...).  [phys x y z s] is the physical vector
   (x*s, y*s, z*s).  [is_vec h mn r px py pz s d_m] / [is_qty h mn r p s dm dt]
   say that r is a vector / scalar whose unit has multiplier s and whose
   physical value is (px,py,pz) / p.  scipp vectors are float64 only, so the
   only dtype parameter is that of scalar L1, L2 in total_beam_length.
   The R instance does not decide equality of unit multipliers in + and -
   (Sem/RInst.v); every lemma whose kernel subtracts or adds two operands is
   therefore stated for operands that share one multiplier s, which is what
   scipp demands (it raises UnitError otherwise; the correspondence run checks
   that refusal against the Q instance, which does decide it). *)
From Coq Require Import Reals ZArith String List Lra.
From Verif.Sem Require Import Field Val RInst RLemmas.
From Verif.Vec Require Import Vec3.
From Verif.C03 Require Import SemExt.
From Run Require Import GenBeamline.
Open Scope R_scope.

Definition phys (x y z s : R) : vec := mkV (x * s) (y * s) (z * s).
Lemma phys_vsc x y z s : phys x y z s = vsc s (mkV x y z).
Proof. unfold phys; apply vec_eq; simpl; ring. Qed.
Lemma phys_nz x y z s : s > 0 -> mkV x y z <> v0 -> phys x y z s <> v0.
Proof. intros; rewrite phys_vsc; apply vsc_nz; [lra | assumption]. Qed.
Lemma phys_diff x1 y1 z1 x2 y2 z2 s :
  vminus (phys x2 y2 z2 s) (phys x1 y1 z1 s) = vsc s (mkV (x2 - x1) (y2 - y1) (z2 - z1)).
Proof. unfold phys; apply vec_eq; simpl; ring. Qed.

Ltac vec_intro :=
  unfold is_vec; do 4 eexists; split; [reflexivity|]; split; [reflexivity|]; split; [|split; [|split]].

Ltac Rgoal := cbn [us ud]; match goal with |- @eq _ ?a ?b => change (@eq R a b) end.

(* [nrm_atoms]: expose norm a as the sqrt the generated code contains, with its positivity *)
Ltac norm_facts a Ha :=
  let N := fresh "N" in
  pose proof (norm_pos a Ha) as N; unfold norm, dot in N; simpl in N.

(* the Kahan step: the goal contains atan2 (sqrt Y) (sqrt X) computed from the directions of
   a and b; kahan_angle reduces it to two rational identities in the components and the two
   norms, closed by field whatever the order / association of the source's operations *)
Ltac kahan a b Ha Hb :=
  match goal with
  | |- context [atan2 (sqrt ?Y) (sqrt ?X)] =>
      let K := fresh "K" in
      assert (K : 2 * atan2 (sqrt Y) (sqrt X) = angle a b);
      [ apply (kahan_angle a b X Y Ha Hb);
        unfold dir, norm, dot, vplus, vminus, vdivs; simpl; field; lra
      | ]
  end.

Section Tie.
Variables h mn : R.
Notation O := (ROps h mn).
Notation tv := (tvec h mn).

(* ---------------------------------------------------------------- exactness of the six kernels *)
Lemma straight_incident_beam_exact x1 y1 z1 x2 y2 z2 s :
  let P := vminus (phys x2 y2 z2 s) (phys x1 y1 z1 s) in
  is_vec h mn (straight_incident_beam O (tv x1 y1 z1 s d_m) (tv x2 y2 z2 s d_m)) (vx P) (vy P) (vz P) s d_m.
Proof using. intros P; sem_eval; vec_intro; try reflexivity; unfold P; simpl; ring. Qed.

(* straight_scattered_beam(position, sample_position) = position - sample_position *)
Lemma straight_scattered_beam_exact x1 y1 z1 x2 y2 z2 s :
  let P := vminus (phys x1 y1 z1 s) (phys x2 y2 z2 s) in
  is_vec h mn (straight_scattered_beam O (tv x1 y1 z1 s d_m) (tv x2 y2 z2 s d_m)) (vx P) (vy P) (vz P) s d_m.
Proof using. intros P; sem_eval; vec_intro; try reflexivity; unfold P; simpl; ring. Qed.

Lemma norm_phys x y z s : s > 0 -> sqrt (x * x + y * y + z * z) * s = norm (phys x y z s).
Proof using.
  intros Hs. rewrite phys_vsc, norm_vsc_pos by lra. unfold norm, dot; simpl; ring.
Qed.

Lemma L1_exact x y z s : s > 0 ->
  is_qty h mn (L1 O (tv x y z s d_m)) (norm (phys x y z s)) s d_m DF64.
Proof using. intros Hs; sem_eval; qty_intro; [reflexivity | apply norm_phys, Hs]. Qed.

Lemma L2_exact x y z s : s > 0 ->
  is_qty h mn (L2 O (tv x y z s d_m)) (norm (phys x y z s)) s d_m DF64.
Proof using. intros Hs; sem_eval; qty_intro; [reflexivity | apply norm_phys, Hs]. Qed.

(* Ltotal = L1 + L2 (scalars sharing a unit; any numeric dtypes, scipp's promotion) *)
Lemma total_beam_length_exact l1 l2 s d1 d2 : is_num d1 = true -> is_num d2 = true ->
  is_qty h mn (total_beam_length O (tvar h mn l1 s d_m d1) (tvar h mn l2 s d_m d2))
         (l1 * s + l2 * s) s d_m (promote OAdd d1 d2).
Proof using.
  intros H1 H2; destruct d1; try discriminate H1; destruct d2; try discriminate H2;
    sem_eval; (qty_intro; [reflexivity | ring]).
Qed.

Lemma total_straight_beam_length_no_scatter_exact x1 y1 z1 x2 y2 z2 s : s > 0 ->
  is_qty h mn (total_straight_beam_length_no_scatter O (tv x1 y1 z1 s d_m) (tv x2 y2 z2 s d_m))
         (norm (vminus (phys x2 y2 z2 s) (phys x1 y1 z1 s))) s d_m DF64.
Proof using.
  intros Hs; sem_eval; qty_intro; [reflexivity |].
  rewrite phys_diff, norm_vsc_pos by lra. unfold norm, dot; simpl; ring.
Qed.

(* compositions: L1, L2, Ltotal of a straight beamline given by three positions in one unit *)
Lemma L1_of_positions x1 y1 z1 x2 y2 z2 s : s > 0 ->
  is_qty h mn (L1 O (straight_incident_beam O (tv x1 y1 z1 s d_m) (tv x2 y2 z2 s d_m)))
         (norm (vminus (phys x2 y2 z2 s) (phys x1 y1 z1 s))) s d_m DF64.
Proof using.
  intros Hs; sem_eval; qty_intro; [reflexivity |].
  rewrite phys_diff, norm_vsc_pos by lra. unfold norm, dot; simpl; ring.
Qed.
Lemma L2_of_positions x1 y1 z1 x2 y2 z2 s : s > 0 ->
  is_qty h mn (L2 O (straight_scattered_beam O (tv x1 y1 z1 s d_m) (tv x2 y2 z2 s d_m)))
         (norm (vminus (phys x1 y1 z1 s) (phys x2 y2 z2 s))) s d_m DF64.
Proof using.
  intros Hs; sem_eval; qty_intro; [reflexivity |].
  rewrite phys_diff, norm_vsc_pos by lra. unfold norm, dot; simpl; ring.
Qed.
(* source (x0..), sample (x1..), detector (x2..) *)
Lemma Ltotal_of_positions x0 y0 z0 x1 y1 z1 x2 y2 z2 s : s > 0 ->
  is_qty h mn (total_beam_length O
                 (L1 O (straight_incident_beam O (tv x0 y0 z0 s d_m) (tv x1 y1 z1 s d_m)))
                 (L2 O (straight_scattered_beam O (tv x2 y2 z2 s d_m) (tv x1 y1 z1 s d_m))))
         (norm (vminus (phys x1 y1 z1 s) (phys x0 y0 z0 s)) + norm (vminus (phys x2 y2 z2 s) (phys x1 y1 z1 s)))
         s d_m DF64.
Proof using.
  intros Hs; sem_eval; qty_intro; [reflexivity |].
  rewrite !phys_diff, !norm_vsc_pos by lra. unfold norm, dot; simpl; ring.
Qed.

(* ---------------------------------------------------------------- two_theta is the angle *)
Lemma two_theta_exact x1 y1 z1 s1 x2 y2 z2 s2 :
  s1 > 0 -> s2 > 0 -> mkV x1 y1 z1 <> v0 -> mkV x2 y2 z2 <> v0 ->
  is_qty h mn (two_theta O (tv x1 y1 z1 s1 d_m) (tv x2 y2 z2 s2 d_m))
         (angle (phys x1 y1 z1 s1) (phys x2 y2 z2 s2)) 1 d_rad DF64.
Proof using.
  intros Hs1 Hs2 Ha Hb.
  norm_facts (mkV x1 y1 z1) Ha. norm_facts (mkV x2 y2 z2) Hb.
  rewrite !phys_vsc, angle_vsc_l, angle_vsc_r by (try apply vsc_nz; try assumption; lra).
  sem_eval. kahan (mkV x1 y1 z1) (mkV x2 y2 z2) Ha Hb.
  qty_intro; [Rgoal; ring | rewrite <- K; ring].
Qed.

(* two_theta from the three positions (one unit): angle between sample-source and position-sample *)
Lemma two_theta_of_positions x0 y0 z0 x1 y1 z1 x2 y2 z2 s :
  s > 0 -> mkV (x1 - x0) (y1 - y0) (z1 - z0) <> v0 -> mkV (x2 - x1) (y2 - y1) (z2 - z1) <> v0 ->
  is_qty h mn (two_theta O (straight_incident_beam O (tv x0 y0 z0 s d_m) (tv x1 y1 z1 s d_m))
                           (straight_scattered_beam O (tv x2 y2 z2 s d_m) (tv x1 y1 z1 s d_m)))
         (angle (vminus (phys x1 y1 z1 s) (phys x0 y0 z0 s)) (vminus (phys x2 y2 z2 s) (phys x1 y1 z1 s)))
         1 d_rad DF64.
Proof using.
  intros Hs Ha Hb.
  norm_facts (mkV (x1 - x0) (y1 - y0) (z1 - z0)) Ha. norm_facts (mkV (x2 - x1) (y2 - y1) (z2 - z1)) Hb.
  rewrite !phys_diff, angle_vsc_l, angle_vsc_r by (try apply vsc_nz; try assumption; lra).
  sem_eval. kahan (mkV (x1 - x0) (y1 - y0) (z1 - z0)) (mkV (x2 - x1) (y2 - y1) (z2 - z1)) Ha Hb.
  qty_intro; [Rgoal; ring | rewrite <- K; ring].
Qed.

(* ---------------------------------------------------------------- consequences *)
Lemma two_theta_range x1 y1 z1 s1 x2 y2 z2 s2 :
  s1 > 0 -> s2 > 0 -> mkV x1 y1 z1 <> v0 -> mkV x2 y2 z2 <> v0 ->
  exists th, is_qty h mn (two_theta O (tv x1 y1 z1 s1 d_m) (tv x2 y2 z2 s2 d_m)) th 1 d_rad DF64
             /\ 0 <= th <= PI.
Proof using.
  intros; eexists; split; [apply two_theta_exact; assumption | apply angle_range].
Qed.

Lemma two_theta_sym x1 y1 z1 s1 x2 y2 z2 s2 :
  s1 > 0 -> s2 > 0 -> mkV x1 y1 z1 <> v0 -> mkV x2 y2 z2 <> v0 ->
  exists th, is_qty h mn (two_theta O (tv x1 y1 z1 s1 d_m) (tv x2 y2 z2 s2 d_m)) th 1 d_rad DF64
          /\ is_qty h mn (two_theta O (tv x2 y2 z2 s2 d_m) (tv x1 y1 z1 s1 d_m)) th 1 d_rad DF64.
Proof using.
  intros; eexists; split; [apply two_theta_exact; assumption |].
  rewrite angle_sym; apply two_theta_exact; assumption.
Qed.

(* positive rescaling of either beam (of the stored numbers and/or of the unit) *)
Lemma two_theta_scale x1 y1 z1 s1 x2 y2 z2 s2 k1 k2 s1' s2' :
  s1 > 0 -> s2 > 0 -> s1' > 0 -> s2' > 0 -> k1 > 0 -> k2 > 0 -> mkV x1 y1 z1 <> v0 -> mkV x2 y2 z2 <> v0 ->
  exists th, is_qty h mn (two_theta O (tv x1 y1 z1 s1 d_m) (tv x2 y2 z2 s2 d_m)) th 1 d_rad DF64
          /\ is_qty h mn (two_theta O (tv (k1 * x1) (k1 * y1) (k1 * z1) s1' d_m) (tv (k2 * x2) (k2 * y2) (k2 * z2) s2' d_m))
                         th 1 d_rad DF64.
Proof using.
  intros Hs1 Hs2 Hs1' Hs2' Hk1 Hk2 Ha Hb; eexists; split; [apply two_theta_exact; assumption |].
  assert (Ha' : mkV (k1 * x1) (k1 * y1) (k1 * z1) <> v0) by (apply (vsc_nz k1 (mkV x1 y1 z1)); [lra | exact Ha]).
  assert (Hb' : mkV (k2 * x2) (k2 * y2) (k2 * z2) <> v0) by (apply (vsc_nz k2 (mkV x2 y2 z2)); [lra | exact Hb]).
  replace (angle (phys x1 y1 z1 s1) (phys x2 y2 z2 s2))
    with (angle (phys (k1 * x1) (k1 * y1) (k1 * z1) s1') (phys (k2 * x2) (k2 * y2) (k2 * z2) s2')).
  - apply two_theta_exact; assumption.
  - rewrite !phys_vsc.
    change (mkV (k1 * x1) (k1 * y1) (k1 * z1)) with (vsc k1 (mkV x1 y1 z1)).
    change (mkV (k2 * x2) (k2 * y2) (k2 * z2)) with (vsc k2 (mkV x2 y2 z2)).
    rewrite !angle_vsc_l, !angle_vsc_r by (repeat apply vsc_nz; try assumption; lra). reflexivity.
Qed.

(* a common orthogonal map M and translation t applied to source, sample and detector positions *)
Definition tvv (p : vec) (s : R) : val O := tv (vx p) (vy p) (vz p) s d_m.
Definition two_theta_pos (src smp pos : vec) (s : R) : val O :=
  two_theta O (straight_incident_beam O (tvv src s) (tvv smp s)) (straight_scattered_beam O (tvv pos s) (tvv smp s)).

Lemma two_theta_pos_exact src smp pos s :
  s > 0 -> vminus smp src <> v0 -> vminus pos smp <> v0 ->
  is_qty h mn (two_theta_pos src smp pos s) (angle (vminus smp src) (vminus pos smp)) 1 d_rad DF64.
Proof using.
  intros Hs Ha Hb. unfold two_theta_pos, tvv.
  replace (angle (vminus smp src) (vminus pos smp))
    with (angle (vminus (phys (vx smp) (vy smp) (vz smp) s) (phys (vx src) (vy src) (vz src) s))
                (vminus (phys (vx pos) (vy pos) (vz pos) s) (phys (vx smp) (vy smp) (vz smp) s))).
  - apply two_theta_of_positions; assumption.
  - rewrite !phys_diff. fold (vminus smp src). fold (vminus pos smp).
    rewrite angle_vsc_l, angle_vsc_r by (try apply vsc_nz; try assumption; lra). reflexivity.
Qed.

Lemma two_theta_rigid M t src smp pos s :
  orthogonal M -> s > 0 -> vminus smp src <> v0 -> vminus pos smp <> v0 ->
  exists th, is_qty h mn (two_theta_pos src smp pos s) th 1 d_rad DF64
          /\ is_qty h mn (two_theta_pos (vplus (mapp M src) t) (vplus (mapp M smp) t) (vplus (mapp M pos) t) s)
                         th 1 d_rad DF64.
Proof using.
  intros HM Hs Ha Hb; eexists; split; [apply two_theta_pos_exact; assumption |].
  rewrite <- (angle_rigid M t src smp smp pos HM).
  apply two_theta_pos_exact; [assumption | |]; rewrite rigid_diff; apply mapp_orth_nz; assumption.
Qed.

(* lengths are rigid invariants too *)
Lemma lengths_rigid M t p q : orthogonal M ->
  norm (vminus (vplus (mapp M q) t) (vplus (mapp M p) t)) = norm (vminus q p).
Proof using. intros HM; rewrite rigid_diff; apply norm_orth, HM. Qed.

End Tie.

(* ---------------------------------------------------------------- conditioning *)
(* Kahan's form: relative errors of at most eps in x = |e1+e2| and y = |e1-e2| move the angle
   2*atan2(y,x) by at most 3 eps, for EVERY angle (including 0 and PI) *)
Lemma kahan_conditioning x y dx dy eps :
  0 <= x -> 0 <= y -> (x <> 0 \/ y <> 0) -> 0 <= eps <= 1 / 16 -> Rabs dx <= eps -> Rabs dy <= eps ->
  Rabs (2 * atan2 (y * (1 + dy)) (x * (1 + dx)) - 2 * atan2 y x) <= 3 * eps.
Proof. exact (kahan_conditioning_3eps x y dx dy eps). Qed.

(* the arccos form is NOT so conditioned: a relative error eps in the cosine c = 1 (parallel beams)
   moves acos(c) by at least sqrt(2 eps) — half the digits *)
Lemma acos_conditioning_refuted eps : 0 < eps <= 1 ->
  exists c c', -1 <= c <= 1 /\ -1 <= c' <= 1 /\ Rabs (c' - c) <= eps * Rabs c
               /\ sqrt (2 * eps) <= Rabs (acos c' - acos c).
Proof.
  intros He. exists 1, (1 - eps). repeat split; try lra.
  - rewrite Rabs_R1. replace (1 - eps - 1) with (- eps) by ring. rewrite Rabs_Ropp, Rabs_pos_eq; lra.
  - rewrite acos_1, Rminus_0_r. pose proof (acos_near_one eps ltac:(lra)) as H.
    rewrite Rabs_pos_eq; [exact H | pose proof (acos_bound (1 - eps)); lra].
Qed.

(* see C03/Properties.v for what this does and does not say *)
Lemma two_theta_abs_accuracy_partial a b dx dy da eps u :
  a <> v0 -> b <> v0 -> 0 <= eps <= 1 / 16 -> 0 <= u -> Rabs dx <= eps -> Rabs dy <= eps -> Rabs da <= u ->
  let X := norm (vplus (dir a) (dir b)) in let Y := norm (vminus (dir a) (dir b)) in
  Rabs (2 * (atan2 (Y * (1 + dy)) (X * (1 + dx)) * (1 + da)) - angle a b) <= 3 * eps + (PI + 3 * eps) * u.
Proof.
  intros Ha Hb He Hu Hdx Hdy Hda X Y.
  pose proof (kahan_norm a b Ha Hb) as K. fold X Y in K.
  assert (NZ : X <> 0 \/ Y <> 0).
  { destruct (Req_dec X 0) as [EX|EX]; [right|left; exact EX]. intros EY.
    pose proof (norm_sq (vplus (dir a) (dir b))) as SX. pose proof (norm_sq (vminus (dir a) (dir b))) as SY.
    fold X in SX. fold Y in SY.
    rewrite unit_sum_sq in SX by (apply dir_unit; assumption).
    rewrite unit_diff_sq in SY by (apply dir_unit; assumption).
    rewrite EX in SX. rewrite EY in SY. lra. }
  pose proof (kahan_conditioning X Y dx dy eps (norm_nonneg _) (norm_nonneg _) NZ He Hdx Hdy) as C.
  rewrite K in C. pose proof (angle_range a b) as [A0 A1].
  set (T' := 2 * atan2 (Y * (1 + dy)) (X * (1 + dx))) in *.
  replace (2 * (atan2 (Y * (1 + dy)) (X * (1 + dx)) * (1 + da)) - angle a b)
    with ((T' - angle a b) + T' * da) by (unfold T'; ring).
  eapply Rle_trans; [apply Rabs_triang|].
  assert (Rabs T' <= PI + 3 * eps).
  { replace T' with ((T' - angle a b) + angle a b) by ring.
    eapply Rle_trans; [apply Rabs_triang|]. rewrite (Rabs_pos_eq (angle a b)) by lra. lra. }
  rewrite Rabs_mult.
  assert (Rabs T' * Rabs da <= (PI + 3 * eps) * u).
  { apply Rmult_le_compat; try apply Rabs_pos; assumption. }
  lra.
Qed.
