(* C03/TieGraph.v — obligations on the GRAPHS regenerated on this run (Run.GenGraph: the dictionaries
   the current conversion/graph/beamline.py returns) over the kernels regenerated on this run
   (Run.GenBeamline): resolving a coordinate through a graph, the way sc.transform_coords does
   (Verif.C03.Graph.resolve), IS the composition of kernels that the property speaks about; with
   Tie.v this gives the Euclidean meaning of what scippneutron.L1 / L2 / Ltotal / two_theta /
   incident_beam / scattered_beam obtain from a data array that carries the three positions.
   (That the public functions of beamline_components.py use these graphs, on every call and
   whatever was called before, is the subject of the call-history correspondence run.) *)
From Coq Require Import Reals ZArith String List Lra.
From Verif.Sem Require Import Field Val RInst RLemmas.
From Verif.Vec Require Import Vec3.
From Verif.C03 Require Import SemExt Graph.
From Run Require Import GenBeamline GenGraph Tie.
Import ListNotations.
Open Scope string_scope.

Definition FUEL : nat := 8.

(* ---------------------------------------------------------------- any arithmetic instance *)
Section Any.
Variable O : Fops.
Variables src smp pos : val O.
Notation E := (env3 O src smp pos).
Notation inc := (straight_incident_beam O src smp).
Notation sca := (straight_scattered_beam O pos smp).

(* beamline(scatter=True): the six nodes *)
Lemma graph_beamline_scatter_resolves :
  resolve O FUEL (g_beamline_scatter O) E "incident_beam" = inc
  /\ resolve O FUEL (g_beamline_scatter O) E "scattered_beam" = sca
  /\ resolve O FUEL (g_beamline_scatter O) E "L1" = L1 O inc
  /\ resolve O FUEL (g_beamline_scatter O) E "L2" = L2 O sca
  /\ resolve O FUEL (g_beamline_scatter O) E "two_theta" = two_theta O inc sca
  /\ resolve O FUEL (g_beamline_scatter O) E "Ltotal" = total_beam_length O (L1 O inc) (L2 O sca).
Proof using. repeat split; reflexivity. Qed.

(* beamline(scatter=False): Ltotal is the straight distance *)
Lemma graph_beamline_no_scatter_resolves :
  resolve O FUEL (g_beamline_no_scatter O) E "Ltotal" = total_straight_beam_length_no_scatter O src pos.
Proof using. reflexivity. Qed.

(* the input coordinates themselves are handed back unchanged (position, source_position, sample_position) *)
Lemma graph_inputs_resolve :
  resolve O FUEL (g_beamline_scatter O) E "position" = pos
  /\ resolve O FUEL (g_beamline_scatter O) E "source_position" = src
  /\ resolve O FUEL (g_beamline_scatter O) E "sample_position" = smp.
Proof using. repeat split; reflexivity. Qed.

(* the special-purpose graphs compute their targets exactly as beamline(scatter) does (which
   further nodes they carry is not part of the property) *)
Lemma subgraphs_agree :
  resolve O FUEL (g_incident_beam O) E "incident_beam" = inc
  /\ resolve O FUEL (g_scattered_beam O) E "scattered_beam" = sca
  /\ resolve O FUEL (g_L1 O) E "L1" = L1 O inc
  /\ resolve O FUEL (g_L2 O) E "L2" = L2 O sca
  /\ resolve O FUEL (g_two_theta O) E "two_theta" = two_theta O inc sca
  /\ resolve O FUEL (g_Ltotal_scatter O) E "Ltotal" = total_beam_length O (L1 O inc) (L2 O sca)
  /\ resolve O FUEL (g_Ltotal_no_scatter O) E "Ltotal" = total_straight_beam_length_no_scatter O src pos.
Proof using. repeat split; reflexivity. Qed.

(* data that carries the two beams instead of the positions: the beams are taken from the data *)
Variables b1 b2 : val O.
Lemma graph_beams_given :
  resolve O FUEL (g_beamline_scatter O) (env_beams O b1 b2) "L1" = L1 O b1
  /\ resolve O FUEL (g_beamline_scatter O) (env_beams O b1 b2) "L2" = L2 O b2
  /\ resolve O FUEL (g_beamline_scatter O) (env_beams O b1 b2) "two_theta" = two_theta O b1 b2
  /\ resolve O FUEL (g_beamline_scatter O) (env_beams O b1 b2) "Ltotal" = total_beam_length O (L1 O b1) (L2 O b2)
  /\ resolve O FUEL (g_beamline_scatter O) (env_beams O b1 b2) "incident_beam" = b1
  /\ resolve O FUEL (g_beamline_scatter O) (env_beams O b1 b2) "scattered_beam" = b2.
Proof using. repeat split; reflexivity. Qed.
End Any.

(* ---------------------------------------------------------------- Euclidean meaning (over R) *)
Open Scope R_scope.
Section Euclid.
Variables h mn : R.
Notation O := (ROps h mn).
Notation tv := (tvec h mn).

(* source (x0..), sample (x1..), detector (x2..) in one length unit s *)
Lemma graph_lengths_euclid x0 y0 z0 x1 y1 z1 x2 y2 z2 s : s > 0 ->
  let E := env3 O (tv x0 y0 z0 s d_m) (tv x1 y1 z1 s d_m) (tv x2 y2 z2 s d_m) in
  let src := phys x0 y0 z0 s in let smp := phys x1 y1 z1 s in let pos := phys x2 y2 z2 s in
  is_qty h mn (resolve O FUEL (g_beamline_scatter O) E "L1") (norm (vminus smp src)) s d_m DF64
  /\ is_qty h mn (resolve O FUEL (g_beamline_scatter O) E "L2") (norm (vminus pos smp)) s d_m DF64
  /\ is_qty h mn (resolve O FUEL (g_beamline_scatter O) E "Ltotal") (norm (vminus smp src) + norm (vminus pos smp)) s d_m DF64
  /\ is_qty h mn (resolve O FUEL (g_beamline_no_scatter O) E "Ltotal") (norm (vminus pos src)) s d_m DF64.
Proof using.
  intros Hs E src smp pos.
  destruct (graph_beamline_scatter_resolves O (tv x0 y0 z0 s d_m) (tv x1 y1 z1 s d_m) (tv x2 y2 z2 s d_m))
    as (_ & _ & E1 & E2 & _ & E3).
  pose proof (graph_beamline_no_scatter_resolves O (tv x0 y0 z0 s d_m) (tv x1 y1 z1 s d_m) (tv x2 y2 z2 s d_m)) as E4.
  unfold E; rewrite E1, E2, E3, E4.
  repeat split.
  - apply L1_of_positions; assumption.
  - apply L2_of_positions; assumption.
  - apply Ltotal_of_positions; assumption.
  - apply total_straight_beam_length_no_scatter_exact; assumption.
Qed.

Lemma graph_beams_euclid x0 y0 z0 x1 y1 z1 x2 y2 z2 s :
  let E := env3 O (tv x0 y0 z0 s d_m) (tv x1 y1 z1 s d_m) (tv x2 y2 z2 s d_m) in
  let I := vminus (phys x1 y1 z1 s) (phys x0 y0 z0 s) in
  let S := vminus (phys x2 y2 z2 s) (phys x1 y1 z1 s) in
  is_vec h mn (resolve O FUEL (g_beamline_scatter O) E "incident_beam") (vx I) (vy I) (vz I) s d_m
  /\ is_vec h mn (resolve O FUEL (g_beamline_scatter O) E "scattered_beam") (vx S) (vy S) (vz S) s d_m.
Proof using.
  intros E I S.
  destruct (graph_beamline_scatter_resolves O (tv x0 y0 z0 s d_m) (tv x1 y1 z1 s d_m) (tv x2 y2 z2 s d_m))
    as (E1 & E2 & _).
  unfold E; rewrite E1, E2. split.
  - apply straight_incident_beam_exact.
  - apply straight_scattered_beam_exact.
Qed.

Lemma graph_two_theta_euclid x0 y0 z0 x1 y1 z1 x2 y2 z2 s :
  s > 0 -> mkV (x1 - x0) (y1 - y0) (z1 - z0) <> v0 -> mkV (x2 - x1) (y2 - y1) (z2 - z1) <> v0 ->
  let E := env3 O (tv x0 y0 z0 s d_m) (tv x1 y1 z1 s d_m) (tv x2 y2 z2 s d_m) in
  exists th,
    is_qty h mn (resolve O FUEL (g_beamline_scatter O) E "two_theta") th 1 d_rad DF64
    /\ th = angle (vminus (phys x1 y1 z1 s) (phys x0 y0 z0 s)) (vminus (phys x2 y2 z2 s) (phys x1 y1 z1 s))
    /\ 0 <= th <= PI.
Proof using.
  intros Hs Ha Hb E.
  destruct (graph_beamline_scatter_resolves O (tv x0 y0 z0 s d_m) (tv x1 y1 z1 s d_m) (tv x2 y2 z2 s d_m))
    as (_ & _ & _ & _ & E5 & _).
  eexists; split; [unfold E; rewrite E5; apply two_theta_of_positions; assumption |].
  split; [reflexivity | apply angle_range].
Qed.
End Euclid.
