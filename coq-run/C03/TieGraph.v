(* C03/TieGraph.v — obligations on the GRAPHS regenerated on this run (Run.GenGraph: the dictionaries
   the current conversion/graph/beamline.py returns) over the kernels regenerated on this run
   (Run.GenBeamline): resolving a coordinate through a graph, the way sc.transform_coords does
   (Verif.C03.Graph.resolve), IS the composition of kernels that the property speaks about; with
   Tie.v this gives the Euclidean meaning of what scippneutron.L1 / L2 / Ltotal / two_theta /
   incident_beam / scattered_beam obtain from a data array that carries the three positions.
   (That the public functions of beamline_components.py use these graphs, on every call and
   whatever was called before, is the subject of the call-history correspondence run.) *)
From Coq Require Import Reals ZArith String List Lra Bool.
From Verif.Sem Require Import Field Val RInst RLemmas.
From Verif.Vec Require Import Vec3.
From Verif.C03 Require Import SemExt Graph GraphNeeds.
From Run Require Import GenBeamline GenGraph Tie.
Import ListNotations.
Open Scope string_scope.

Definition FUEL : nat := 8.

(* ---------------------------------------------------------------- any arithmetic instance *)
Section Any.
Variable O : Fops.
Variables src smp pos : val O.
Notation E := (env3 O src smp pos).
Notation inc := (straight_incident_beam O src smp).
Notation sca := (straight_scattered_beam O pos smp).

(* beamline(scatter=True): the six nodes *)
Lemma graph_beamline_scatter_resolves :
  resolve O FUEL (g_beamline_scatter O) E "incident_beam" = inc
  /\ resolve O FUEL (g_beamline_scatter O) E "scattered_beam" = sca
  /\ resolve O FUEL (g_beamline_scatter O) E "L1" = L1 O inc
  /\ resolve O FUEL (g_beamline_scatter O) E "L2" = L2 O sca
  /\ resolve O FUEL (g_beamline_scatter O) E "two_theta" = two_theta O inc sca
  /\ resolve O FUEL (g_beamline_scatter O) E "Ltotal" = total_beam_length O (L1 O inc) (L2 O sca).
Proof using. repeat split; reflexivity. Qed.

(* beamline(scatter=False): Ltotal is the straight distance *)
Lemma graph_beamline_no_scatter_resolves :
  resolve O FUEL (g_beamline_no_scatter O) E "Ltotal" = total_straight_beam_length_no_scatter O src pos.
Proof using. reflexivity. Qed.

(* the input coordinates themselves are handed back unchanged (position, source_position, sample_position) *)
Lemma graph_inputs_resolve :
  resolve O FUEL (g_beamline_scatter O) E "position" = pos
  /\ resolve O FUEL (g_beamline_scatter O) E "source_position" = src
  /\ resolve O FUEL (g_beamline_scatter O) E "sample_position" = smp.
Proof using. repeat split; reflexivity. Qed.

(* the special-purpose graphs compute their targets exactly as beamline(scatter) does (which
   further nodes they carry is not part of the property) *)
Lemma subgraphs_agree :
  resolve O FUEL (g_incident_beam O) E "incident_beam" = inc
  /\ resolve O FUEL (g_scattered_beam O) E "scattered_beam" = sca
  /\ resolve O FUEL (g_L1 O) E "L1" = L1 O inc
  /\ resolve O FUEL (g_L2 O) E "L2" = L2 O sca
  /\ resolve O FUEL (g_two_theta O) E "two_theta" = two_theta O inc sca
  /\ resolve O FUEL (g_Ltotal_scatter O) E "Ltotal" = total_beam_length O (L1 O inc) (L2 O sca)
  /\ resolve O FUEL (g_Ltotal_no_scatter O) E "Ltotal" = total_straight_beam_length_no_scatter O src pos.
Proof using. repeat split; reflexivity. Qed.

(* data that carries the two beams instead of the positions: the beams are taken from the data *)
Variables b1 b2 : val O.
Lemma graph_beams_given :
  resolve O FUEL (g_beamline_scatter O) (env_beams O b1 b2) "L1" = L1 O b1
  /\ resolve O FUEL (g_beamline_scatter O) (env_beams O b1 b2) "L2" = L2 O b2
  /\ resolve O FUEL (g_beamline_scatter O) (env_beams O b1 b2) "two_theta" = two_theta O b1 b2
  /\ resolve O FUEL (g_beamline_scatter O) (env_beams O b1 b2) "Ltotal" = total_beam_length O (L1 O b1) (L2 O b2)
  /\ resolve O FUEL (g_beamline_scatter O) (env_beams O b1 b2) "incident_beam" = b1
  /\ resolve O FUEL (g_beamline_scatter O) (env_beams O b1 b2) "scattered_beam" = b2.
Proof using. repeat split; reflexivity. Qed.

(* ---- data that carries only PART of the coordinates (Verif.C03.GraphNeeds) *)
(* a monitor: source and detector position, no sample.  Ltotal without scattering is the straight distance
   (through beamline(scatter=False) and through Ltotal(scatter=False)); the two positions are handed back *)
Lemma graph_monitor_resolves :
  resolve O FUEL (g_beamline_no_scatter O) (env_monitor O src pos) "Ltotal" = total_straight_beam_length_no_scatter O src pos
  /\ resolve O FUEL (g_Ltotal_no_scatter O) (env_monitor O src pos) "Ltotal" = total_straight_beam_length_no_scatter O src pos
  /\ missing O FUEL (g_beamline_no_scatter O) (map fst (env_monitor O src pos)) "Ltotal" = []
  /\ resolve O FUEL (g_beamline_scatter O) (env_monitor O src pos) "position" = pos
  /\ resolve O FUEL (g_beamline_scatter O) (env_monitor O src pos) "source_position" = src.
Proof using. repeat split; reflexivity. Qed.

(* ... every quantity that involves the sample is refused, naming the sample position *)
Lemma graph_monitor_refuses :
  forallb (fun n => same_set (missing O FUEL (g_beamline_scatter O) (map fst (env_monitor O src pos)) n) ["sample_position"])
          ["incident_beam"; "scattered_beam"; "L1"; "L2"; "two_theta"; "Ltotal"; "sample_position"] = true.
Proof using. vm_compute. reflexivity. Qed.

(* a secondary flight path alone (sample + detector): scattered_beam and L2; a primary one alone: incident_beam and L1 *)
Lemma graph_secondary_resolves :
  resolve O FUEL (g_beamline_scatter O) (env_secondary O smp pos) "scattered_beam" = sca
  /\ resolve O FUEL (g_beamline_scatter O) (env_secondary O smp pos) "L2" = L2 O sca
  /\ resolve O FUEL (g_L2 O) (env_secondary O smp pos) "L2" = L2 O sca
  /\ resolve O FUEL (g_scattered_beam O) (env_secondary O smp pos) "scattered_beam" = sca
  /\ forallb (fun n => same_set (missing O FUEL (g_beamline_scatter O) (map fst (env_secondary O smp pos)) n) ["source_position"])
             ["incident_beam"; "L1"; "two_theta"; "Ltotal"; "source_position"] = true
  /\ missing O FUEL (g_beamline_no_scatter O) (map fst (env_secondary O smp pos)) "Ltotal" = ["source_position"].
Proof using. repeat split; reflexivity. Qed.

Lemma graph_primary_resolves :
  resolve O FUEL (g_beamline_scatter O) (env_primary O src smp) "incident_beam" = inc
  /\ resolve O FUEL (g_beamline_scatter O) (env_primary O src smp) "L1" = L1 O inc
  /\ resolve O FUEL (g_L1 O) (env_primary O src smp) "L1" = L1 O inc
  /\ resolve O FUEL (g_incident_beam O) (env_primary O src smp) "incident_beam" = inc
  /\ forallb (fun n => same_set (missing O FUEL (g_beamline_scatter O) (map fst (env_primary O src smp)) n) ["position"])
             ["scattered_beam"; "L2"; "two_theta"; "Ltotal"; "position"] = true
  /\ missing O FUEL (g_beamline_no_scatter O) (map fst (env_primary O src smp)) "Ltotal" = ["position"].
Proof using. repeat split; reflexivity. Qed.

(* precomputed lengths / beams instead of positions: what the data carries is used, the rest is computed *)
Variables l1 l2 : val O.
Lemma graph_lengths_given :
  resolve O FUEL (g_beamline_scatter O) (env_lengths O l1 l2) "Ltotal" = total_beam_length O l1 l2
  /\ resolve O FUEL (g_Ltotal_scatter O) (env_lengths O l1 l2) "Ltotal" = total_beam_length O l1 l2
  /\ resolve O FUEL (g_beamline_scatter O) (env_lengths O l1 l2) "L1" = l1
  /\ resolve O FUEL (g_beamline_scatter O) (env_lengths O l1 l2) "L2" = l2
  /\ resolve O FUEL (g_beamline_scatter O) (env_L1_secondary O l1 smp pos) "Ltotal" = total_beam_length O l1 (L2 O sca)
  /\ resolve O FUEL (g_beamline_scatter O) (env_beam_secondary O b1 smp pos) "Ltotal" = total_beam_length O (L1 O b1) (L2 O sca)
  /\ resolve O FUEL (g_beamline_scatter O) (env_beam_secondary O b1 smp pos) "two_theta" = two_theta O b1 sca
  /\ resolve O FUEL (g_beamline_scatter O) (env_primary_beam O src smp b2) "Ltotal" = total_beam_length O (L1 O inc) (L2 O b2)
  /\ resolve O FUEL (g_beamline_scatter O) (env_primary_beam O src smp b2) "two_theta" = two_theta O inc b2.
Proof using. repeat split; reflexivity. Qed.

(* EVERY combination of carried coordinates (2^9) and every node: the inputs the graphs of this run lack are exactly
   those the Euclidean definition of the quantity needs and the data does not carry — so a quantity is obtainable
   iff it is defined by what the data carries, through beamline(scatter) and through each special-purpose graph *)
Notation needs_exact g scatter targets :=
  (forallb (fun have => forallb (fun n => same_set (missing O FUEL g have n) (needs FUEL scatter have n)) targets)
           (subsets COORDS)).
Definition INPUTS : list string := ["position"; "source_position"; "sample_position"].
Definition T_SCATTER : list string := ["incident_beam"; "scattered_beam"; "L1"; "L2"; "two_theta"; "Ltotal"] ++ INPUTS.
Definition T_NO_SCATTER : list string := "Ltotal" :: INPUTS.
Lemma needs_exact_scatter : needs_exact (g_beamline_scatter O) true T_SCATTER = true.
Proof using. vm_cast_no_check (eq_refl true). Qed.
Lemma needs_exact_no_scatter : needs_exact (g_beamline_no_scatter O) false T_NO_SCATTER = true.
Proof using. vm_cast_no_check (eq_refl true). Qed.
Lemma needs_exact_subgraphs :
  needs_exact (g_incident_beam O) true ["incident_beam"]
  && needs_exact (g_scattered_beam O) true ["scattered_beam"]
  && needs_exact (g_L1 O) true ["L1"; "incident_beam"]
  && needs_exact (g_L2 O) true ["L2"; "scattered_beam"]
  && needs_exact (g_two_theta O) true ["two_theta"; "incident_beam"; "scattered_beam"]
  && needs_exact (g_Ltotal_scatter O) true ["Ltotal"; "L1"; "L2"; "incident_beam"; "scattered_beam"]
  && needs_exact (g_Ltotal_no_scatter O) false ["Ltotal"] = true.
Proof using. vm_cast_no_check (eq_refl true). Qed.

Lemma graph_needs_exact : forall have n, In have (subsets COORDS) ->
  (In n T_SCATTER -> same_set (missing O FUEL (g_beamline_scatter O) have n) (needs FUEL true have n) = true)
  /\ (In n T_NO_SCATTER -> same_set (missing O FUEL (g_beamline_no_scatter O) have n) (needs FUEL false have n) = true).
Proof using.
  intros have n Hh; split; intros Hn.
  - pose proof needs_exact_scatter as H.
    rewrite forallb_forall in H. specialize (H have Hh). rewrite forallb_forall in H. exact (H n Hn).
  - pose proof needs_exact_no_scatter as H.
    rewrite forallb_forall in H. specialize (H have Hh). rewrite forallb_forall in H. exact (H n Hn).
Qed.
End Any.

(* ---------------------------------------------------------------- Euclidean meaning (over R) *)
Open Scope R_scope.
Section Euclid.
Variables h mn : R.
Notation O := (ROps h mn).
Notation tv := (tvec h mn).

(* source (x0..), sample (x1..), detector (x2..) in one length unit s *)
Lemma graph_lengths_euclid x0 y0 z0 x1 y1 z1 x2 y2 z2 s : s > 0 ->
  let E := env3 O (tv x0 y0 z0 s d_m) (tv x1 y1 z1 s d_m) (tv x2 y2 z2 s d_m) in
  let src := phys x0 y0 z0 s in let smp := phys x1 y1 z1 s in let pos := phys x2 y2 z2 s in
  is_qty h mn (resolve O FUEL (g_beamline_scatter O) E "L1") (norm (vminus smp src)) s d_m DF64
  /\ is_qty h mn (resolve O FUEL (g_beamline_scatter O) E "L2") (norm (vminus pos smp)) s d_m DF64
  /\ is_qty h mn (resolve O FUEL (g_beamline_scatter O) E "Ltotal") (norm (vminus smp src) + norm (vminus pos smp)) s d_m DF64
  /\ is_qty h mn (resolve O FUEL (g_beamline_no_scatter O) E "Ltotal") (norm (vminus pos src)) s d_m DF64.
Proof using.
  intros Hs E src smp pos.
  destruct (graph_beamline_scatter_resolves O (tv x0 y0 z0 s d_m) (tv x1 y1 z1 s d_m) (tv x2 y2 z2 s d_m))
    as (_ & _ & E1 & E2 & _ & E3).
  pose proof (graph_beamline_no_scatter_resolves O (tv x0 y0 z0 s d_m) (tv x1 y1 z1 s d_m) (tv x2 y2 z2 s d_m)) as E4.
  unfold E; rewrite E1, E2, E3, E4.
  repeat split.
  - apply L1_of_positions; assumption.
  - apply L2_of_positions; assumption.
  - apply Ltotal_of_positions; assumption.
  - apply total_straight_beam_length_no_scatter_exact; assumption.
Qed.

Lemma graph_beams_euclid x0 y0 z0 x1 y1 z1 x2 y2 z2 s :
  let E := env3 O (tv x0 y0 z0 s d_m) (tv x1 y1 z1 s d_m) (tv x2 y2 z2 s d_m) in
  let I := vminus (phys x1 y1 z1 s) (phys x0 y0 z0 s) in
  let S := vminus (phys x2 y2 z2 s) (phys x1 y1 z1 s) in
  is_vec h mn (resolve O FUEL (g_beamline_scatter O) E "incident_beam") (vx I) (vy I) (vz I) s d_m
  /\ is_vec h mn (resolve O FUEL (g_beamline_scatter O) E "scattered_beam") (vx S) (vy S) (vz S) s d_m.
Proof using.
  intros E I S.
  destruct (graph_beamline_scatter_resolves O (tv x0 y0 z0 s d_m) (tv x1 y1 z1 s d_m) (tv x2 y2 z2 s d_m))
    as (E1 & E2 & _).
  unfold E; rewrite E1, E2. split.
  - apply straight_incident_beam_exact.
  - apply straight_scattered_beam_exact.
Qed.

Lemma graph_two_theta_euclid x0 y0 z0 x1 y1 z1 x2 y2 z2 s :
  s > 0 -> mkV (x1 - x0) (y1 - y0) (z1 - z0) <> v0 -> mkV (x2 - x1) (y2 - y1) (z2 - z1) <> v0 ->
  let E := env3 O (tv x0 y0 z0 s d_m) (tv x1 y1 z1 s d_m) (tv x2 y2 z2 s d_m) in
  exists th,
    is_qty h mn (resolve O FUEL (g_beamline_scatter O) E "two_theta") th 1 d_rad DF64
    /\ th = angle (vminus (phys x1 y1 z1 s) (phys x0 y0 z0 s)) (vminus (phys x2 y2 z2 s) (phys x1 y1 z1 s))
    /\ 0 <= th <= PI.
Proof using.
  intros Hs Ha Hb E.
  destruct (graph_beamline_scatter_resolves O (tv x0 y0 z0 s d_m) (tv x1 y1 z1 s d_m) (tv x2 y2 z2 s d_m))
    as (_ & _ & _ & _ & E5 & _).
  eexists; split; [unfold E; rewrite E5; apply two_theta_of_positions; assumption |].
  split; [reflexivity | apply angle_range].
Qed.
(* a monitor (source (x0..), detector (x2..), no sample): Ltotal without scattering is |position - source| *)
Lemma graph_monitor_euclid x0 y0 z0 x2 y2 z2 s : s > 0 ->
  let E := env_monitor O (tv x0 y0 z0 s d_m) (tv x2 y2 z2 s d_m) in
  is_qty h mn (resolve O FUEL (g_beamline_no_scatter O) E "Ltotal") (norm (vminus (phys x2 y2 z2 s) (phys x0 y0 z0 s))) s d_m DF64
  /\ is_qty h mn (resolve O FUEL (g_Ltotal_no_scatter O) E "Ltotal") (norm (vminus (phys x2 y2 z2 s) (phys x0 y0 z0 s))) s d_m DF64.
Proof using.
  intros Hs E.
  destruct (graph_monitor_resolves O (tv x0 y0 z0 s d_m) (tv x2 y2 z2 s d_m)) as (E1 & E2 & _).
  unfold E. rewrite E1, E2.
  split; apply total_straight_beam_length_no_scatter_exact; assumption.
Qed.

(* a secondary path alone (sample (x1..), detector (x2..)) / a primary path alone (source (x0..), sample (x1..)) *)
Lemma graph_partial_euclid x0 y0 z0 x1 y1 z1 x2 y2 z2 s : s > 0 ->
  let src := phys x0 y0 z0 s in let smp := phys x1 y1 z1 s in let pos := phys x2 y2 z2 s in
  let S := vminus pos smp in let I := vminus smp src in
  is_qty h mn (resolve O FUEL (g_beamline_scatter O) (env_secondary O (tv x1 y1 z1 s d_m) (tv x2 y2 z2 s d_m)) "L2") (norm S) s d_m DF64
  /\ is_vec h mn (resolve O FUEL (g_beamline_scatter O) (env_secondary O (tv x1 y1 z1 s d_m) (tv x2 y2 z2 s d_m)) "scattered_beam")
                 (vx S) (vy S) (vz S) s d_m
  /\ is_qty h mn (resolve O FUEL (g_beamline_scatter O) (env_primary O (tv x0 y0 z0 s d_m) (tv x1 y1 z1 s d_m)) "L1") (norm I) s d_m DF64
  /\ is_vec h mn (resolve O FUEL (g_beamline_scatter O) (env_primary O (tv x0 y0 z0 s d_m) (tv x1 y1 z1 s d_m)) "incident_beam")
                 (vx I) (vy I) (vz I) s d_m.
Proof using.
  intros Hs src smp pos S I.
  destruct (graph_secondary_resolves O (tv x1 y1 z1 s d_m) (tv x2 y2 z2 s d_m)) as (A1 & A2 & _).
  destruct (graph_primary_resolves O (tv x0 y0 z0 s d_m) (tv x1 y1 z1 s d_m)) as (B1 & B2 & _).
  rewrite A1, A2, B1, B2.
  repeat split.
  - apply L2_of_positions; assumption.
  - apply straight_scattered_beam_exact.
  - apply L1_of_positions; assumption.
  - apply straight_incident_beam_exact.
Qed.
End Euclid.
