(* C03/Corr.v — executable model for the correspondence run: the beamline kernels
   REGENERATED from /repo on this run, instantiated at rationals rounded to 220 bits per
   operation (Vec/QRInst.v; qsqrt / qatan2 of Sem/QInst.v are accurate to ~1e-40, so the model
   angle is effectively exact), and the
   comparison with the implementation's observations, done inside Coq.  The same [run] names serve the
   observations of the PUBLIC entry points (scippneutron.L1(da), ..., transform_coords through the
   graphs): what they must return is the Euclidean composition "pos>..." of the three positions the
   data carries ("coord": the coordinate itself; "beams>Ltotal": data that carries the two beams). *)
From Coq Require Import QArith Qabs ZArith String List Bool.
From Verif.Sem Require Import Field Val QInst Corr.
From Verif.Vec Require Import QRInst.
From Verif.C03 Require Import SemExt Graph GraphNeeds.
From Run Require Import GenBeamline GenGraph.
Import ListNotations.
Open Scope string_scope.

(* a vector3 operand as stored by the implementation: components, unit multiplier, dimensions *)
Record vin := mkvin { v_x : Q; v_y : Q; v_z : Q; v_sc : Q; v_dm : dims }.
(* one element-wise observation: kernel (or composition), vector operands, scalar operands,
   what the implementation returned, tolerance; cabs = compare the value ABSOLUTELY (angles) *)
Record ccase := mkcc { cname : string; cvecs : list vin; cscal : list inp; cout : outcome; ctol : Q; cabs : bool }.

Section D.
Variables h mn : Q.
Notation O := (QROps h mn).
Definition varg (l : list vin) (n : nat) : val O :=
  match nth_error l n with
  | Some v => rvec h mn (v_x v) (v_y v) (v_z v) (v_sc v) (v_dm v)
  | None => VErr O "arity"
  end.
Definition sarg (l : list inp) (n : nat) : val O :=
  match nth_error l n with Some i => rv h mn i | None => VErr O "arity" end.

(* vector operand order: see props/C03.py KERNELS *)
Definition run (name : string) (vs : list vin) (ss : list inp) : val O :=
  let v := varg vs in let s := sarg ss in
  if String.eqb name "L1" then L1 O (v 0%nat)
  else if String.eqb name "L2" then L2 O (v 0%nat)
  else if String.eqb name "incident_beam" then straight_incident_beam O (v 0%nat) (v 1%nat)        (* source, sample *)
  else if String.eqb name "scattered_beam" then straight_scattered_beam O (v 0%nat) (v 1%nat)      (* position, sample *)
  else if String.eqb name "Ltotal" then total_beam_length O (s 0%nat) (s 1%nat)
  else if String.eqb name "Ltotal_no_scatter" then total_straight_beam_length_no_scatter O (v 0%nat) (v 1%nat)  (* source, position *)
  else if String.eqb name "two_theta" then two_theta O (v 0%nat) (v 1%nat)                          (* incident, scattered *)
  (* compositions from (source, sample, position) *)
  else if String.eqb name "pos>L1" then L1 O (straight_incident_beam O (v 0%nat) (v 1%nat))
  else if String.eqb name "pos>L2" then L2 O (straight_scattered_beam O (v 2%nat) (v 1%nat))
  else if String.eqb name "pos>Ltotal" then
    total_beam_length O (L1 O (straight_incident_beam O (v 0%nat) (v 1%nat)))
                        (L2 O (straight_scattered_beam O (v 2%nat) (v 1%nat)))
  else if String.eqb name "pos>two_theta" then
    two_theta O (straight_incident_beam O (v 0%nat) (v 1%nat)) (straight_scattered_beam O (v 2%nat) (v 1%nat))
  (* what the public functions must return for data that carries the two beams instead of the positions,
     and for a coordinate the data carries (position, source_position, sample_position): the coordinate itself *)
  else if String.eqb name "beams>Ltotal" then total_beam_length O (L1 O (v 0%nat)) (L2 O (v 1%nat))
  else if String.eqb name "coord" then v 0%nat
  else VErr O "unknown-kernel".

Definition check (c : ccase) : string :=
  rcmp h mn (cabs c) (run (cname c) (cvecs c) (cscal c)) (cout c) (ctol c).

(* ---- data that carries an ARBITRARY set of coordinates (a monitor without sample position, a secondary flight path
   alone, precomputed beams / lengths ...): what a public entry point or a graph node must return is the coordinate
   resolved through the graph of THIS run (Run.GenGraph; tied to the Euclidean compositions by TieGraph.v) from exactly
   the coordinates the data carries; when an input is neither carried nor computable the implementation must refuse
   with a KeyError (before evaluating anything), and when the model refuses for another reason (units) the implementation
   must refuse with the same class *)
Record pcase := mkpc { pgraph : string; pnode : string; pvs : list (string * vin); pss : list (string * inp);
                       pout : outcome; ptol : Q; pabs : bool }.
Definition graph_named (name : string) : option (graph O) :=
  if String.eqb name "beamline[T]" then Some (g_beamline_scatter O)
  else if String.eqb name "beamline[F]" then Some (g_beamline_no_scatter O)
  else if String.eqb name "Ltotal[T]" then Some (g_Ltotal_scatter O)
  else if String.eqb name "Ltotal[F]" then Some (g_Ltotal_no_scatter O)
  else if String.eqb name "two_theta" then Some (g_two_theta O)
  else if String.eqb name "L1" then Some (g_L1 O)
  else if String.eqb name "L2" then Some (g_L2 O)
  else if String.eqb name "incident_beam" then Some (g_incident_beam O)
  else if String.eqb name "scattered_beam" then Some (g_scattered_beam O)
  else None.
Definition penv (c : pcase) : env O :=
  List.app (map (fun nv => (fst nv, rvec h mn (v_x (snd nv)) (v_y (snd nv)) (v_z (snd nv)) (v_sc (snd nv)) (v_dm (snd nv)))) (pvs c))
           (map (fun ni => (fst ni, rv h mn (snd ni))) (pss c)).
Definition PFUEL : nat := 8.
Definition pcheck (c : pcase) : string :=
  match graph_named (pgraph c) with
  | None => "unknown-graph"
  | Some g =>
      let e := penv c in
      match missing O PFUEL g (map fst e) (pnode c) with
      | m :: _ =>
          match pout c with
          | OutErr cls => if String.eqb cls "KeyError" then "" else "refusal-class-model=KeyError,impl=" ++ cls
          | _ => "impl-accepts-data-without-" ++ m
          end
      | [] =>
          match resolve O PFUEL g e (pnode c), pout c with
          | VErr _ er, OutErr cls => if String.eqb er cls then "" else "refusal-class-model=" ++ er ++ ",impl=" ++ cls
          | m, o => rcmp h mn (pabs c) m o (ptol c)
          end
      end
  end.
End D.

(* implementation-vs-implementation observations of the property's own statement
   (symmetry, rescaling, rigid motion): |a - b| <= tol, and the range [0, pi] *)
Record icase := mki { iname : string; ia : Q; ib : Q; itol : Q }.
Definition icheck (c : icase) : string :=
  if abs_close (ia c) (ib c) (itol c) then "" else iname c.
Definition in_range (v : Q) : string :=
  if Qle_bool 0 v && Qle_bool v (qpi + (1 # 1000000000000000)) then "" else "range".
