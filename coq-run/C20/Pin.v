(* C20/Pin.v -- regression pin, compiled LAST so that a changed table does not hide the other
   obligations: the three CSV files of this tree are, line for line, the snapshot pinned in
   Verif.C20.RefTables (= tools/corpus/C20/*.csv).  This is not part of property C20 (the lookups
   are verbatim with respect to whatever the files contain); it makes a silently changed cell
   visible.  After an INTENDED data update refresh tools/corpus/C20 and coq/C20/RefTables.v. *)
From Coq Require Import String List Bool.
From Verif.C20 Require Import Proofs.
From Verif.C20 Require RefTables.
From Run Require Import GenTables.
Open Scope string_scope.

(* a changed / added / dropped cell breaks this obligation; the search then reports the row and
   what the implementation returns for it *)
Lemma tables_match_pinned_snapshot :
  list_eqb String.eqb scat_lines RefTables.scat_lines
  && list_eqb String.eqb weight_lines RefTables.weight_lines
  && list_eqb String.eqb mass_lines RefTables.mass_lines
  && Bool.eqb scat_final_nl RefTables.scat_final_nl
  && Bool.eqb weight_final_nl RefTables.weight_final_nl
  && Bool.eqb mass_final_nl RefTables.mass_final_nl = true.
Proof. vm_compute. reflexivity. Qed.

