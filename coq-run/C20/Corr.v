(* C20/Corr.v — the comparisons of the correspondence run, executed by Coq.

   The harness (tools/harness/c20_lookup.py, c20_atten.py) hands over what the
   REAL Atom.for_isotope / ScatteringParams.for_isotope /
   Material.attenuation_coefficient returned, as exact data:
     a float as the rational it is, a unit as (multiplier, base-unit powers),
     an exception as its class name, strings as strings.
   Here the model (Verif.C20.Model on the tables regenerated on this run — evaluated
   through Run.Fast.scat_lookup_fast / atom_lookup_fast, which Fast.v proves equal to
   Tie.scat_lookup / atom_lookup for every string; the regenerated
   Material.attenuation_coefficient at exact rationals) is run on the same query and compared:
     value    == binary64 nearest the decimal field (Dec.round64 . Dec.parse_dec), exactly
     variance == (binary64 nearest the uncertainty field)^2 up to 2^-52 relative (libm pow)
     unit     == the unit scipp itself parses from the column's unit name, and of the right
                 dimension (fm: length, barn: area, Da: mass)
     None where the table is blank, z, the isotope string, the exception class.
   Definitions only. *)
From Coq Require Import QArith Qabs ZArith NArith String Ascii List Bool.
From Verif.Sem Require Import Field Val QInst Corr.
From Verif.C20 Require Import Dec Model Spec Proofs SemExt.
From Run Require Import GenTables GenAtoms GenMaterial Tie Fast.
Import ListNotations.
Open Scope string_scope.

Definition bytes_str (l : list N) : string :=
  fold_right (fun n s => String (ascii_of_N n) s) EmptyString l.

(* ---------- observations *)
Record obsq := mkObs { o_val : Q; o_var : option Q; o_mult : Q; o_dims : dims; o_dtype : string }.
(* the same with (multiplier, dimension, dtype) given as one triple: the few distinct triples of a run are
   written once in the header of a case file (large literals are slow to read) *)
Definition mkO (v : Q) (r : option Q) (u : Q * dims * string) : obsq :=
  mkObs v r (fst (fst u)) (snd (fst u)) (snd u).
Inductive sobs := SOk (iso : string) (fs : list (option obsq)) | SErr (cls : string).
Inductive aobs := AOk (iso : string) (z : Z) (w m : option obsq) | AErr (cls : string).
Inductive eobs := ESkip | EGroup (g : option string).   (* _parse_isotope_name: group, None = TypeError *)
(* one query name, asked of the three entry points *)
Inductive lcase := L (name : string) (ascii : bool) (s : sobs) (a : aobs) (e : eobs).
(* abbreviations for the frequent observations (keeps the generated case files small) *)
Definition sVE := SErr "ValueError".
Definition aVE := AErr "ValueError".
Definition aTE := AErr "TypeError".
Definition eN := EGroup None.

(* unit names as scipp resolves them on this installation (from the harness) *)
Definition unit_table := list (string * (Q * dims)).
Definition expected_dims (u : string) : option dims :=
  if String.eqb u "fm" then Some d_m
  else if String.eqb u "barn" then Some (dscale 2 d_m)
  else if String.eqb u "Da" then Some d_kg
  else None.
(* SI size the unit must have: fm and barn exactly (as doubles), the dalton to 1e-6 *)
Definition expected_mult_ok (u : string) (m : Q) : bool :=
  if String.eqb u "fm" then match round64 (1 # 1000000000000000) with Some x => Qeq_bool x m | None => false end
  else if String.eqb u "barn" then match round64 (1 # 10000000000000000000000000000) with Some x => Qeq_bool x m | None => false end
  else if String.eqb u "Da" then rel_close m (16605390666 # 10000000000000000000000000000000000000) (1 # 1000000)
  else false.

Definition err_name (e : err) : string :=
  match e with ValueError => "ValueError" | TypeError => "TypeError" | IndexError => "IndexError" end.

Definition check_scalar (ut : unit_table) (m : option scalar) (o : option obsq) : string :=
  match m, o with
  | None, None => ""
  | Some _, None => "none-where-table-has-value"
  | None, Some _ => "value-where-table-is-blank"
  | Some s, Some ob =>
      match float_of_string (s_value s) with
      | None => "model-cannot-read-value-field"
      | Some v =>
          if negb (Qeq_bool v (o_val ob)) then "value"
          else
            let var_msg :=
                match s_std s, o_var ob with
                | None, None => ""
                | Some _, None => "no-variance-where-table-has-uncertainty"
                | None, Some _ => "variance-where-table-is-blank"
                | Some sd, Some vr =>
                    match float_of_string sd with
                    | None => "model-cannot-read-uncertainty-field"
                    | Some sv => if rel_close vr (sv * sv) (1 # 4503599627370496) then "" else "variance"
                    end
                end in
            if negb (String.eqb var_msg "") then var_msg
            else match assoc (s_unit s) ut, expected_dims (s_unit s) with
                 | Some (mult, dm), Some edm =>
                     if negb (Qeq_bool mult (o_mult ob) && deqb dm (o_dims ob)) then "unit"
                     else if negb (deqb edm (o_dims ob) && expected_mult_ok (s_unit s) (o_mult ob)) then "unit-size"
                     else if negb (String.eqb (o_dtype ob) "float64") then "dtype"
                     else ""
                 | _, _ => "unknown-unit"
                 end
      end
  end.

Fixpoint check_fields (ut : unit_table) (i : nat) (ms : list (option scalar)) (os : list (option obsq)) : string :=
  match ms, os with
  | [], [] => ""
  | m :: ms', o :: os' =>
      let r := check_scalar ut m o in
      if String.eqb r "" then check_fields ut (S i) ms' os' else "field" ++ nat_str i ++ "-" ++ r
  | _, _ => "field-count"
  end.

Definition check_scat (ut : unit_table) (name : string) (ascii : bool) (o : sobs) : string :=
  match scat_lookup_fast name, o with
  | Ok p, SOk iso fs =>
      if negb ascii then "accepted-non-ascii"
      else if negb (String.eqb iso name && String.eqb (sc_isotope p) name) then "isotope-attribute"
      else check_fields ut 0 (sc_fields p) fs
  | Err e, SErr cls =>
      if negb ascii then "" else if String.eqb (err_name e) cls then ""
      else "error-class:model=" ++ err_name e ++ ",impl=" ++ cls
  | Ok _, SErr cls => "impl-raises-" ++ cls ++ "-for-a-table-name"
  | Err _, SOk _ _ => "impl-accepts-unknown-name"
  end.
Definition check_atom (ut : unit_table) (name : string) (ascii : bool) (o : aobs) : string :=
  match atom_lookup_fast name, o with
  | Ok a, AOk iso z w m =>
      if negb ascii then "accepted-non-ascii"
      else if negb (String.eqb iso name && String.eqb (a_isotope a) name) then "isotope-attribute"
      else if negb (Z.eqb (Z.of_N (a_z a)) z) then "z"
      else let r := check_scalar ut (a_weight a) w in
           if negb (String.eqb r "") then "weight-" ++ r
           else let r := check_scalar ut (a_mass a) m in
                if negb (String.eqb r "") then "mass-" ++ r else ""
  | Err e, AErr cls =>
      if negb ascii then "" else if String.eqb (err_name e) cls then ""
      else "error-class:model=" ++ err_name e ++ ",impl=" ++ cls
  | Ok _, AErr cls => "impl-raises-" ++ cls ++ "-for-a-table-name"
  | Err _, AOk _ _ _ _ => "impl-accepts-unknown-name"
  end.
Definition check_elem (name : string) (ascii : bool) (o : eobs) : string :=
  match o with
  | ESkip => ""
  | EGroup g => if negb ascii then ""
                else if opt_eqb String.eqb (parse_isotope_name name) g then "" else "element-symbol"
  end.
(* "" = all three agree; otherwise "<api>|<reason>" of the first disagreement *)
Definition check_lookup (ut : unit_table) (c : lcase) : string :=
  match c with
  | L name ascii s a e =>
      let r := check_scat ut name ascii s in
      if negb (String.eqb r "") then "scat|" ++ r
      else let r := check_atom ut name ascii a in
           if negb (String.eqb r "") then "atom|" ++ r
           else let r := check_elem name ascii e in
                if negb (String.eqb r "") then "elem|" ++ r else ""
  end.

(* ---------- attenuation: the regenerated function at exact rationals *)
Section D.
Variables h mn : Q.
Notation O := (QOps h mn).
Definition arg (l : list inp) (n : nat) : val O :=
  match nth_error l n with Some i => qv h mn i | None => VErr O "arity" end.
(* inputs: number density, sigma_s, sigma_a, wavelength *)
Definition run (name : string) (l : list inp) : val O :=
  let a := arg l in
  if String.eqb name "attenuation" then
    Material_attenuation_coefficient O (mk_material O (a 0%nat) (a 1%nat) (a 2%nat)) (a 3%nat)
  else if String.eqb name "attenuation_no_sigma_a" then      (* blank absorption column: None *)
    Material_attenuation_coefficient O (mk_material O (a 0%nat) (a 1%nat) (VNone O)) (a 3%nat)
  else VErr O "unknown-kernel".
Definition check (c : kcase) : string :=
  cmp_out h mn (run (kname c) (kins c)) (kout c) (ktol c).
End D.

(* ---------- attenuation: the LAW itself, independent of the regenerated code.
   What the implementation returned must be, in SI,  n (sigma_s + sigma_a lambda / (1.7982 angstrom))
   of dimension 1/length, computed here over Q from the operands exactly as the implementation stored
   them (value x unit multiplier; an integer operand is the integer it is).  The comparison with the
   regenerated function above validates the semantic model of scipp (dtype, unit of the result, rounding
   of integer conversions); this one states what the property demands, so an edit that the translator
   follows faithfully (e.g. converting an integer wavelength to whole angstrom) still disagrees here. *)
Definition d_invlength : dims := dscale (-1) d_m.
Definition ref_wavelength_si : Q := ((17982 # 10000) * (1 # 10000000000))%Q.
Definition si (i : inp) : Q := (iv i * isc i)%Q.
Definition law_si (l : list inp) : option Q :=
  match l with
  | [n; ss; sa; wl] => Some (si n * (si ss + si sa * (si wl / ref_wavelength_si)))%Q
  | _ => None
  end.
Definition check_law (c : kcase) : string :=
  if negb (String.eqb (kname c) "attenuation") then ""
  else match law_si (kins c), kout c with
       | None, _ => "law-arity"
       | Some want, OutVal v sc dm dt =>
           if negb (deqb dm d_invlength) then "law-dimension"
           else if rel_close (v * sc)%Q want (ktol c) then ""
           else if rel_close (v * sc)%Q want (2 # 1000000)%Q then "law-value-single-precision-level"
           else "law-value"
       | Some _, OutErr cls => "law-impl-raises-" ++ cls
       | Some _, OutNaN _ _ _ => "law-impl-NaN"
       | Some _, OutInf _ _ _ => "law-impl-infinite"
       | Some _, OutVec _ _ _ _ _ => "law-shape"
       end.
(* first the model of the code, then the law *)
Definition check_both (c : kcase) : string :=
  let r := check 1 1 c in if String.eqb r "" then check_law c else r.
