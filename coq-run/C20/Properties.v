(* C20/Properties.v — the property theorems (nothing else), each closed by a
   lemma of Tie.v / Verif.C20.Proofs, with Print Assumptions at the end.

   Reading guide.
   scat_rows / weight_rows / mass_rows : list (list string) are the three bundled
   tables as regenerated from /repo's CSV files on this run (fields as strings).
   [names t] is the first column.  scat_lookup / atom_lookup are the models of
   ScatteringParams.for_isotope / Atom.for_isotope reading the regenerated files
   (raw lines).  [scat_answer r], [weight_answer r], [mass_answer r] are what the
   fields of row r denote (Verif.C20.Spec): value / uncertainty decimal strings
   verbatim with the column's unit, None where the value field is blank.
   Results are [Ok x] or [Err ValueError|TypeError|IndexError] (any Err = rejected). *)
From Coq Require Import Reals ZArith NArith String Ascii List Bool.
From Verif.Sem Require Import Field Val RInst RLemmas.
From Verif.C20 Require Import Dec Model Spec Proofs SemExt.
From Run Require Import GenTables GenAtoms GenMaterial Tie TieAtt.
Import ListNotations.
Open Scope string_scope.

(* 1. the first column of each table is duplicate-free *)
Theorem C20_first_column_unique :
  NoDup (names scat_rows) /\ NoDup (names weight_rows) /\ NoDup (names mass_rows).
Proof. exact (conj scat_nodup (conj weight_nodup mass_nodup)). Qed.

(* 2. lookup_returns_row: for EVERY row, the lookup by its name returns exactly that row's fields *)
Theorem C20_scattering_returns_row : forall r, In r scat_rows ->
  exists a, scat_answer r = Some a /\ scat_lookup (name_of r) = Ok a.
Proof. exact scat_returns_row. Qed.

(* an element name: z and the standard weight of its row (None where blank), no mass *)
Theorem C20_atom_returns_element_row : forall r, In r weight_rows ->
  exists z w, weight_answer r = Some (z, w)
              /\ atom_lookup (name_of r) = Ok (mkAtom (name_of r) z w None).
Proof. exact atom_element_row_full. Qed.

(* an isotope name: the mass of its own row, z and weight of the row of its element symbol *)
Theorem C20_atom_returns_isotope_row : forall r, In r mass_rows ->
  exists er z w m, In er weight_rows /\ name_of er = element_symbol (name_of r)
                   /\ weight_answer er = Some (z, w) /\ mass_answer r = Some (Some m)
                   /\ atom_lookup (name_of r) = Ok (mkAtom (name_of r) z w (Some m)).
Proof. exact atom_isotope_row_full. Qed.

(* 3. lookup_exact_match_only: for ALL strings s, a successful lookup is answered with the row
      whose first field is literally s *)
Theorem C20_scattering_exact_match_only : forall s a,
  scat_lookup s = Ok a -> exists r, In r scat_rows /\ name_of r = s /\ scat_answer r = Some a.
Proof. exact scat_exact. Qed.

Theorem C20_atom_exact_match_only : forall s a,
  atom_lookup s = Ok a ->
  a_isotope a = s /\
  exists el er, parse_isotope_name s = Some el /\ In er weight_rows /\ name_of er = el
    /\ weight_answer er = Some (a_z a, a_weight a)
    /\ ((el = s /\ a_mass a = None)
        \/ (el <> s /\ exists mr, In mr mass_rows /\ name_of mr = s
                                  /\ mass_answer mr = Some (a_mass a))).
Proof. exact atom_exact_tie. Qed.

(* the element symbol used above is the group of the regular expression (?:\d+)?([a-zA-Z]+) *)
Theorem C20_element_symbol_is_regex_group : forall name e,
  parse_isotope_name name = Some e ->
  exists d rest, name = d ++ e ++ rest /\ all_chars is_digit d = true
                 /\ all_chars is_alpha e = true /\ e <> ""
                 /\ starts_with is_alpha rest = false.
Proof. exact parse_isotope_name_spec. Qed.

(* the atomic number returned is that of the RIGHT element: the position in the periodic table
   (Verif.C20.Spec.periodic_table, independent of the CSV) of the query's element symbol *)
Theorem C20_atomic_number_of_right_element : forall s a,
  atom_lookup s = Ok a ->
  exists el, parse_isotope_name s = Some el /\ is_atomic_number_of (a_z a) el = true.
Proof. exact atomic_number_right. Qed.

(* 4. a mass only for specific isotopes; a weight only where a standard one exists *)
Theorem C20_mass_only_for_isotopes : forall s a,
  atom_lookup s = Ok a ->
  (forall m, a_mass a = Some m ->
     In s (names mass_rows) /\ parse_isotope_name s <> Some s)
  /\ (In s (names weight_rows) -> a_mass a = None).
Proof. exact mass_only_for_isotopes. Qed.

Theorem C20_weight_only_if_standard : forall s a,
  atom_lookup s = Ok a ->
  exists er, In er weight_rows /\ parse_isotope_name s = Some (name_of er)
             /\ (a_weight a = None <-> has_standard_weight er = false).
Proof. exact weight_only_if_standard. Qed.

(* 5. unknown names are rejected, never answered with another nuclide's data *)
Theorem C20_scattering_rejects_unknown : forall s,
  ~ In s (names scat_rows) -> scat_lookup s = Err ValueError.
Proof. exact scat_reject. Qed.
Theorem C20_atom_rejects_unknown : forall s,
  ~ In s (names weight_rows) -> ~ In s (names mass_rows) -> exists e, atom_lookup s = Err e.
Proof. exact atom_reject_tie. Qed.

(* 5b. the near-miss CLASS: a string that is not of the shape (optional mass number)(one or more ASCII
      letters) — a blank, tab, newline, comma, sign, bracket or any other foreign character before, after or
      inside a valid name ("H ", "H\n", " H", "He-3", "C+", "U,1", "H e"), letters followed by digits ("He3",
      "H2"), digits only, the empty string — is rejected by both entry points, whatever valid name it contains *)
Theorem C20_malformed_name_rejected : forall s,
  is_nuclide_name s = false -> scat_lookup s = Err ValueError /\ exists e, atom_lookup s = Err e.
Proof. exact malformed_name_rejected. Qed.

(* 6. attenuation_formula: for arbitrary units of n, sigma_s, sigma_a, lambda (multipliers
      sn, us, ua, sl > 0) and all numeric dtypes, the regenerated
      Material.attenuation_coefficient is a scalar of dimension 1/length, in the unit
      (unit of n)*(unit of sigma_s), with physical value
      n (sigma_s + sigma_a lambda / (1.7982 angstrom)). *)
Open Scope R_scope.
Theorem C20_attenuation_formula : forall (h mn : R) n sn ss us sa ua l sl dn ds da dl,
  sn > 0 -> us > 0 -> ua > 0 -> sl > 0 ->
  is_num dn = true -> is_num ds = true -> is_num da = true -> is_num dl = true ->
  is_qty' h mn
    (Material_attenuation_coefficient (ROps h mn)
       (mk_material (ROps h mn) (tvar h mn n sn d_invvol dn) (tvar h mn ss us d_area ds)
                    (tvar h mn sa ua d_area da))
       (tvar h mn l sl d_m dl))
    ((n * sn) * ((ss * us) + (sa * ua) * ((l * sl) / (17982 / 10000 * (1 / 10000000000)))))
    (sn * us) d_invm.
Proof. exact attenuation_exact. Qed.
Close Scope R_scope.

(* ---- the hypotheses are satisfiable / the statements are not vacuous *)
Example C20_tables_nonempty :
  Nat.ltb 300 (length scat_rows) && Nat.ltb 100 (length weight_rows) && Nat.ltb 3000 (length mass_rows) = true.
Proof. vm_compute. reflexivity. Qed.
Example C20_some_lookup_succeeds :
  (exists a, scat_lookup "H" = Ok a) /\ (exists a, atom_lookup "2H" = Ok a /\ a_z a = 1%N)
  /\ atom_lookup "D" = Err ValueError /\ atom_lookup " H" = Err TypeError.
Proof. vm_compute. repeat split; eexists; split; reflexivity. Qed.
Example C20_unknown_names_exist :
  existsb (String.eqb "Hx") (names scat_rows) = false
  /\ existsb (String.eqb "D") (names weight_rows ++ names mass_rows) = false.
Proof. vm_compute. split; reflexivity. Qed.
Example C20_malformed_names_exist :
  forallb (fun s => negb (is_nuclide_name s))
          ["H "; " H"; "He3"; "H2"; "He-3"; "C+"; "U,1"; "H e"; "3-He"; "3 He"; ""; "12";
           String (ascii_of_N 72) (String (ascii_of_N 10) EmptyString);      (* "H\n" *)
           String (ascii_of_N 72) (String (ascii_of_N 9) EmptyString)] = true   (* "H\t" *)
  /\ is_nuclide_name "3He" = true /\ is_nuclide_name "He" = true.
Proof. vm_compute. repeat split; reflexivity. Qed.
Example C20_attenuation_nonvacuous :
  (1 > 0)%R /\ is_num DF64 = true /\ is_num DI64 = true.
Proof. repeat split; try reflexivity. exact Rlt_0_1. Qed.

Print Assumptions C20_first_column_unique.
Print Assumptions C20_scattering_returns_row.
Print Assumptions C20_atom_returns_element_row.
Print Assumptions C20_atom_returns_isotope_row.
Print Assumptions C20_scattering_exact_match_only.
Print Assumptions C20_atom_exact_match_only.
Print Assumptions C20_element_symbol_is_regex_group.
Print Assumptions C20_atomic_number_of_right_element.
Print Assumptions C20_mass_only_for_isotopes.
Print Assumptions C20_weight_only_if_standard.
Print Assumptions C20_scattering_rejects_unknown.
Print Assumptions C20_atom_rejects_unknown.
Print Assumptions C20_malformed_name_rejected.
Print Assumptions C20_attenuation_formula.
