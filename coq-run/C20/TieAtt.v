(* C20/TieAtt.v — the 1/v attenuation law proved DIRECTLY ON THE TERMS REGENERATED from
   /repo on this run:  Run.GenAtoms.reference_wavelength and
   Run.GenMaterial.Material_attenuation_coefficient (tools/py2coq.py), over R, for arbitrary
   units (multipliers) of every operand and all numeric dtypes. *)
From Coq Require Import Reals ZArith String List Lra.
From Verif.Sem Require Import Field Val RInst RLemmas.
From Verif.C20 Require Import SemExt.
From Run Require Import GenAtoms GenMaterial.
Import ListNotations.
Open Scope string_scope.

(* ---------- attenuation: directly on the regenerated Material.attenuation_coefficient *)
Open Scope R_scope.
Definition d_area : dims := dscale 2 d_m.
Definition d_invvol : dims := dscale (-3) d_m.
Definition d_invm : dims := dscale (-1) d_m.
Definition angstrom : R := 1 / 10000000000.

Ltac all_num :=
  repeat match goal with
         | H : is_num ?d = true |- _ => destruct d; try discriminate H; clear H
         end.

Section Att.
Variables h mn : R.
Notation O := (ROps h mn).
Notation tv := (tvar h mn).

(* n: number density, value n in a unit of multiplier sn (dimension 1/length^3);
   ss, sa: total-scattering / absorption cross-sections in (possibly different) units of area
   with multipliers us, ua;  l: wavelength in a unit of length with multiplier sl.
   The result is a scalar in the unit  (unit of n)*(unit of ss)  of dimension 1/length whose
   physical (SI) value is  n (ss + sa * l / (1.7982 angstrom)). *)
Lemma attenuation_exact n sn ss us sa ua l sl dn ds da dl :
  sn > 0 -> us > 0 -> ua > 0 -> sl > 0 ->
  is_num dn = true -> is_num ds = true -> is_num da = true -> is_num dl = true ->
  is_qty' h mn
    (Material_attenuation_coefficient O
       (mk_material O (tv n sn d_invvol dn) (tv ss us d_area ds) (tv sa ua d_area da))
       (tv l sl d_m dl))
    ((n * sn) * ((ss * us) + (sa * ua) * ((l * sl) / (17982 / 10000 * angstrom))))
    (sn * us) d_invm.
Proof using.
  intros; all_num; sem_cbv;
    (eexists; eexists; eexists; split; [reflexivity|]; split; [reflexivity|]; split;
     [first [reflexivity | simpl; field; lra] | unfold angstrom; simpl; field; lra]).
Qed.
End Att.
