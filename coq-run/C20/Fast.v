(* C20/Fast.v — the same two lookups, evaluated faster, with the proof that they are the same functions.

   The correspondence run evaluates the model on ~40 000 query names.  Most near-miss names contain a
   valid element symbol, so the model of the code scans the 3557 lines of the isotope-mass file (split at
   the first comma, compare) for each of them.  Here the scan is preceded by a membership test of the
   query in the first column of the table (plain string comparisons); the scan itself is only run for
   names that ARE in the table.  For a name that is not, the result is the rejection the scan would end
   in — that is Tie's rejection lemma (Proofs.lookup_reject on this run's files), so

       scat_lookup_fast s = scat_lookup s      and      atom_lookup_fast s = atom_lookup s

   for EVERY string s.  Run.Corr compares the implementation with the *_fast functions; the property
   theorems are stated about scat_lookup / atom_lookup. *)
From Coq Require Import NArith String Ascii List Bool.
From Verif.C20 Require Import Dec Model Spec Proofs.
From Run Require Import GenTables Tie.
Import ListNotations.
Open Scope string_scope.

Definition known (t : list row) (s : string) : bool := existsb (String.eqb s) (names t).
Lemma known_false t s : known t s = false -> ~ In s (names t).
Proof.
  unfold known. intros E Hin.
  assert (existsb (String.eqb s) (names t) = true) as C
      by (apply existsb_exists; exists s; split; [assumption | apply String.eqb_refl]).
  congruence.
Qed.

Definition scat_lookup_fast (s : string) : res scat :=
  if known scat_rows s then scat_lookup s else Err ValueError.
Lemma scat_lookup_fast_eq s : scat_lookup_fast s = scat_lookup s.
Proof.
  unfold scat_lookup_fast. destruct (known scat_rows s) eqn:E; [reflexivity|].
  symmetry. apply scat_reject. apply known_false. assumption.
Qed.

Definition load_atomic_mass_fast (s : string) : res (option scalar) :=
  if known mass_rows s then load_atomic_mass mass_file s else Err ValueError.
Lemma load_atomic_mass_fast_eq s : load_atomic_mass_fast s = load_atomic_mass mass_file s.
Proof.
  unfold load_atomic_mass_fast. destruct (known mass_rows s) eqn:E; [reflexivity|].
  symmetry.
  exact (lookup_reject (fun _ => parse_mass) mass_answer (opt_eqb scalar_eqb) optscalar_eqb_eq
                       _ _ s mass_lines_ok (known_false _ _ E)).
Qed.

(* Atom.for_isotope with the mass scan guarded (same text as Model.atom_for_isotope otherwise) *)
Definition atom_lookup_fast (isotope : string) : res atom :=
  match parse_isotope_name isotope with
  | None => Err TypeError
  | Some element =>
      bind (load_atomic_weight weight_file element) (fun zw =>
      bind (if String.eqb element isotope then Ok None else load_atomic_mass_fast isotope) (fun m =>
      Ok (mkAtom isotope (fst zw) (snd zw) m)))
  end.
Lemma atom_lookup_fast_eq s : atom_lookup_fast s = atom_lookup s.
Proof.
  unfold atom_lookup_fast, atom_lookup, atom_for_isotope.
  destruct (parse_isotope_name s) as [el|]; [|reflexivity].
  destruct (load_atomic_weight weight_file el) as [zw|e]; [|reflexivity]. simpl.
  rewrite load_atomic_mass_fast_eq. reflexivity.
Qed.

(* not vacuous: both branches of the guard occur *)
Example fast_paths_both_taken :
  known mass_rows "3He" = true /\ known mass_rows "He3" = false
  /\ known scat_rows "H" = true /\ known scat_rows "H " = false.
Proof. vm_compute. repeat split; reflexivity. Qed.
