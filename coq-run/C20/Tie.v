(* C20/Tie.v — obligations on what was REGENERATED from /repo on this run:
     Run.GenTables    the three CSV files of scippneutron/atoms as Coq data
                      (tools/csv2coq.py: raw lines + rows split at commas)
   (the attenuation law on the regenerated Material.attenuation_coefficient is in TieAtt.v)

   Finite facts about the current tables are decided by vm_compute (the tables
   are closed data: a genuinely finite domain) and lifted through the generic,
   unbounded lemmas of Verif.C20.Proofs. *)
From Coq Require Import ZArith NArith String Ascii List Bool.
From Verif.C20 Require Import Dec Model Spec Proofs.
From Run Require Import GenTables.
Import ListNotations.
Open Scope string_scope.

(* ---------- the files as the code reads them *)
Definition scat_file : list string := file_lines scat_lines scat_final_nl.
Definition weight_file : list string := file_lines weight_lines weight_final_nl.
Definition mass_file : list string := file_lines mass_lines mass_final_nl.

(* the model instantiated with the current files *)
Definition scat_lookup (s : string) : res scat := scat_for_isotope scat_file s.
Definition atom_lookup (s : string) : res atom := atom_for_isotope weight_file mass_file s.

(* ---------- finite facts (vm_compute over the regenerated tables) *)
(* every line of each file is the faithful text of the table row at the same
   position: same name, and the code's parse of the remainder gives exactly the
   quantities the row's fields prescribe (None where blank) *)
Lemma scat_lines_ok : lines_ok parse_line scat_answer scat_eqb scat_file scat_rows = true.
Proof. vm_compute. reflexivity. Qed.
Lemma weight_lines_ok :
  lines_ok (fun _ => parse_weight) weight_answer zw_eqb (skipn 2 weight_file) weight_rows = true.
Proof. vm_compute. reflexivity. Qed.
Lemma mass_lines_ok :
  lines_ok (fun _ => parse_mass) mass_answer (opt_eqb scalar_eqb) (skipn 2 mass_file) mass_rows = true.
Proof. vm_compute. reflexivity. Qed.

(* first columns are duplicate-free *)
Lemma scat_nodup : NoDup (names scat_rows).
Proof. apply nodupb_NoDup. vm_compute. reflexivity. Qed.
Lemma weight_nodup : NoDup (names weight_rows).
Proof. apply nodupb_NoDup. vm_compute. reflexivity. Qed.
Lemma mass_nodup : NoDup (names mass_rows).
Proof. apply nodupb_NoDup. vm_compute. reflexivity. Qed.

(* names are well formed: elements are letters; isotopes are mass number + letters and their
   element has a row in the weight table; the scattering table holds elements and isotopes *)
Lemma weight_names_wf : forallb (fun r => is_element_name (name_of r)) weight_rows = true.
Proof. vm_compute. reflexivity. Qed.
Lemma mass_names_wf :
  forallb (fun r => is_isotope_name (name_of r)
                    && match atom_answer_isotope weight_rows r with Some _ => true | None => false end)
          mass_rows = true.
Proof. vm_compute. reflexivity. Qed.
Lemma scat_names_wf : forallb (fun r => is_nuclide_name (name_of r)) scat_rows = true.
Proof. vm_compute. reflexivity. Qed.
(* every isotope row carries a mass (no blank mass field) *)
Lemma mass_rows_have_mass :
  forallb (fun r => match mass_answer r with Some (Some _) => true | _ => false end) mass_rows = true.
Proof. vm_compute. reflexivity. Qed.

(* the rows csv2coq split with Python's str.split are the model's split of the same lines
   (guards the generator and the model of split against each other) *)
Lemma rows_are_split_lines :
  list_eqb (list_eqb String.eqb) scat_rows (map split_all scat_lines)
  && list_eqb (list_eqb String.eqb) weight_rows (map split_all (skipn 2 weight_lines))
  && list_eqb (list_eqb String.eqb) mass_rows (map split_all (skipn 2 mass_lines)) = true.
Proof. vm_compute. reflexivity. Qed.

(* the Z column is the position of the element in the periodic table (independent knowledge) *)
Lemma weight_z_right :
  forallb (fun r => match weight_answer r with
                    | Some (z, _) => is_atomic_number_of z (name_of r)
                    | None => false
                    end) weight_rows = true.
Proof. vm_compute. reflexivity. Qed.

(* ---------- lifted statements *)
Lemma scat_returns_row r :
  In r scat_rows -> exists a, scat_answer r = Some a /\ scat_lookup (name_of r) = Ok a.
Proof. apply (lookup_returns_row parse_line scat_answer scat_eqb scat_eqb_eq _ _ scat_lines_ok scat_nodup). Qed.
Lemma scat_exact s a :
  scat_lookup s = Ok a -> exists r, In r scat_rows /\ name_of r = s /\ scat_answer r = Some a.
Proof. apply (lookup_exact parse_line scat_answer scat_eqb scat_eqb_eq _ _ _ _ scat_lines_ok). Qed.
Lemma scat_reject s : ~ In s (names scat_rows) -> scat_lookup s = Err ValueError.
Proof. apply (lookup_reject parse_line scat_answer scat_eqb scat_eqb_eq _ _ _ scat_lines_ok). Qed.

Lemma atom_returns_element_row r :
  In r weight_rows -> exists a, atom_answer_element r = Some a /\ atom_lookup (name_of r) = Ok a.
Proof.
  intros Hin.
  apply (atom_returns_element _ mass_file _ weight_lines_ok weight_nodup _ Hin).
  exact (proj1 (forallb_forall _ _) weight_names_wf _ Hin).
Qed.
Lemma atom_returns_isotope_row r :
  In r mass_rows -> exists a, atom_answer_isotope weight_rows r = Some a /\ atom_lookup (name_of r) = Ok a.
Proof.
  intros Hin. pose proof (proj1 (forallb_forall _ _) mass_names_wf _ Hin) as H.
  apply andb_true_iff in H as [H1 H2].
  destruct (atom_answer_isotope weight_rows r) as [a|] eqn:A; [|discriminate].
  exists a; split; [reflexivity|].
  exact (atom_returns_isotope _ _ _ _ weight_lines_ok mass_lines_ok weight_nodup mass_nodup _ _ Hin H1 A).
Qed.
Definition atom_exact_tie := atom_exact _ _ _ _ weight_lines_ok mass_lines_ok.
Definition atom_reject_tie := atom_reject _ _ _ _ weight_lines_ok mass_lines_ok.

(* the same, spelled out field by field *)
Lemma atom_element_row_full : forall r, In r weight_rows ->
  exists z w, weight_answer r = Some (z, w)
              /\ atom_lookup (name_of r) = Ok (mkAtom (name_of r) z w None).
Proof.
  intros r Hin. destruct (atom_returns_element_row r Hin) as (a & Ha & Hl).
  unfold atom_answer_element in Ha. destruct (weight_answer r) as [[z w]|] eqn:W; [|discriminate].
  injection Ha as <-. exists z, w; auto.
Qed.
Lemma atom_isotope_row_full : forall r, In r mass_rows ->
  exists er z w m, In er weight_rows /\ name_of er = element_symbol (name_of r)
                   /\ weight_answer er = Some (z, w) /\ mass_answer r = Some (Some m)
                   /\ atom_lookup (name_of r) = Ok (mkAtom (name_of r) z w (Some m)).
Proof.
  intros r Hin. destruct (atom_returns_isotope_row r Hin) as (a & Ha & Hl).
  pose proof (proj1 (forallb_forall _ _) mass_rows_have_mass _ Hin) as Hm. cbv beta in Hm.
  unfold atom_answer_isotope in Ha.
  destruct (find_row (element_symbol (name_of r)) weight_rows) as [er|] eqn:F; [|discriminate].
  apply find_row_some in F as [Her Hn].
  destruct (weight_answer er) as [[z w]|] eqn:W; [|discriminate].
  destruct (mass_answer r) as [[m|]|] eqn:M; try discriminate Hm.
  injection Ha as <-. exists er, z, w, m. repeat split; auto.
Qed.

Lemma mass_only_for_isotopes : forall s a,
  atom_lookup s = Ok a ->
  (forall m, a_mass a = Some m ->
     In s (names mass_rows) /\ parse_isotope_name s <> Some s)
  /\ (In s (names weight_rows) -> a_mass a = None).
Proof.
  intros s a H. destruct (atom_exact_tie s a H) as (_ & el & er & P & Her & Hn & _ & Hm). split.
  - intros m Hmass. destruct Hm as [[_ Hnone]|[Hne (mr & Hmr & Hmn & _)]]; [congruence|].
    split; [rewrite <- Hmn; unfold names; apply in_map; assumption | congruence].
  - intros Hin. unfold names in Hin. apply in_map_iff in Hin as (wr & Hwn & Hwr).
    pose proof (proj1 (forallb_forall _ _) weight_names_wf _ Hwr) as Hwf. cbv beta in Hwf.
    rewrite Hwn in Hwf. rewrite (parse_element_name _ Hwf) in P. injection P as <-.
    destruct Hm as [[_ Hnone]|[Hne _]]; [assumption | congruence].
Qed.

Lemma weight_only_if_standard : forall s a,
  atom_lookup s = Ok a ->
  exists er, In er weight_rows /\ parse_isotope_name s = Some (name_of er)
             /\ (a_weight a = None <-> has_standard_weight er = false).
Proof.
  intros s a H. destruct (atom_exact_tie s a H) as (_ & el & er & P & Her & Hn & Hw & _).
  exists er. split; [assumption|]. split; [congruence|].
  unfold weight_answer in Hw. unfold has_standard_weight.
  destruct er as [|n [|z [|w [|e [|]]]]]; try discriminate.
  destruct (parse_nat_dec z); [|discriminate]. injection Hw as _ Hw. simpl.
  unfold qty in Hw. destruct (String.eqb w ""); simpl; split; intros; congruence.
Qed.

Lemma atomic_number_right : forall s a,
  atom_lookup s = Ok a ->
  exists el, parse_isotope_name s = Some el /\ is_atomic_number_of (a_z a) el = true.
Proof.
  intros s a H. destruct (atom_exact_tie s a H) as (_ & el & er & P & Her & Hn & Hw & _).
  exists el. split; [assumption|].
  pose proof (proj1 (forallb_forall _ _) weight_z_right _ Her) as Hz. cbv beta in Hz.
  rewrite Hw, Hn in Hz. exact Hz.
Qed.


(* ---------- near-miss names as a CLASS: every table name has the shape (optional mass number)(letters),
   so a string of any other shape — a blank, newline, comma, sign or other foreign character anywhere
   (before, after or inside a valid name), letters followed by digits ("He3", "H2"), digits only, the empty
   string — is in no first column and is therefore rejected by both entry points *)
Lemma element_is_nuclide_name s : is_element_name s = true -> is_nuclide_name s = true.
Proof.
  intros E. unfold is_nuclide_name, element_symbol.
  assert (drop_digits s = s) as ->; [|assumption].
  unfold is_element_name in E. apply andb_true_iff in E as [_ E]. apply drop_digits_alpha; assumption.
Qed.
Lemma table_names_are_nuclide_names s :
  In s (names scat_rows) \/ In s (names weight_rows) \/ In s (names mass_rows) -> is_nuclide_name s = true.
Proof.
  unfold names. intros [H|[H|H]]; apply in_map_iff in H as (r & <- & Hr).
  - exact (proj1 (forallb_forall _ _) scat_names_wf _ Hr).
  - apply element_is_nuclide_name. exact (proj1 (forallb_forall _ _) weight_names_wf _ Hr).
  - pose proof (proj1 (forallb_forall _ _) mass_names_wf _ Hr) as H. cbv beta in H.
    apply andb_true_iff in H as [H _]. unfold is_isotope_name in H. apply andb_true_iff in H as [H _]. exact H.
Qed.
Lemma malformed_name_rejected s :
  is_nuclide_name s = false -> scat_lookup s = Err ValueError /\ exists e, atom_lookup s = Err e.
Proof.
  intros E. split.
  - apply scat_reject. intros H. rewrite (table_names_are_nuclide_names s (or_introl H)) in E. discriminate.
  - apply atom_reject_tie; intros H.
    + rewrite (table_names_are_nuclide_names s (or_intror (or_introl H))) in E. discriminate.
    + rewrite (table_names_are_nuclide_names s (or_intror (or_intror H))) in E. discriminate.
Qed.
