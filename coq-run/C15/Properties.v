(* C15/Properties.v — the property theorems (statement + `exact`), Print Assumptions at the end.

   Reading guide.  F64 x: x is (the real value of) a finite binary64 number, normal or subnormal
   (Flocq: generic_format radix2 (FLT_exp (-1074) 53)).  rnd64: round to nearest, ties to even,
   into that format = a correctly rounded strtod.  printf18e_contract x D: D is within half a unit
   of the 19th significant digit of x (and D = 0 for x = 0) = what printf("%.18e") guarantees.
   Model.savetxt / rows_of / loadtxt_unpack: the written-down contracts of numpy.savetxt /
   numpy.loadtxt (oracles; compared with the real numpy by the correspondence on every run).
   GenXye.*: data regenerated from the current xye.py. *)
From Coq Require Import Reals List String Ascii Bool Arith.
From Flocq Require Import Core.
From Flocq Require IEEE754.Binary.
From Verif.C15 Require Import Model ProofsFloat ProofsText ProofsGuard ProofsMain.
From Run Require Import GenXye Tie.
Import ListNotations.
Local Open Scope nat_scope.
Local Open Scope list_scope.

(* 1 — coordinates and values come back bit-for-bit *)
Theorem C15_decimal19_roundtrip : forall x D : R,
  F64 x -> printf18e_contract x D -> rnd64 D = x.
Proof. exact decimal19_roundtrip. Qed.

Theorem C15_decimal19_roundtrip_rel : forall x D : R,
  F64 x -> (Rabs (D - x) <= Rabs x * (5 / 10000000000000000000))%R -> rnd64 D = x.
Proof. exact decimal19_roundtrip_rel. Qed.

Theorem C15_decimal19_roundtrip_b64 : forall (f : Binary.binary_float 53 1024) (D : R),
  printf18e_contract (Binary.B2R 53 1024 f) D -> rnd64 D = Binary.B2R 53 1024 f.
Proof. exact decimal19_roundtrip_b64. Qed.

(* 2 — variances: (fl(sqrt v))^2 rounded, standard model with unit roundoff u and underflow eta *)
Theorem C15_variance_roundtrip : forall u eta v d1 d2 e : R,
  (0 <= v -> 0 <= u <= 1 -> Rabs d1 <= u -> Rabs d2 <= u -> Rabs e <= eta ->
   let s := sqrt v * (1 + d1) in
   let r := s * s * (1 + d2) + e in
   Rabs (r - v) <= v * (3 * u + 3 * u * u + u * u * u) + eta)%R.
Proof. exact variance_roundtrip. Qed.

Theorem C15_variance_roundtrip_ulps : forall v d1 d2 : R,
  (F64 v -> 0 <= v -> Rabs d1 <= bpow radix2 (-53) -> Rabs d2 <= bpow radix2 (-53) ->
   let s := sqrt v * (1 + d1) in
   let r := s * s * (1 + d2) in
   Rabs (r - v) <= (3 + / 1000000000000000) * ulp radix2 fexp64 v)%R.
Proof. exact variance_roundtrip_ulps. Qed.

(* 3 — any number n >= 1 of rows of three entries is loaded as three columns of length n, with the
   post-processing (re-shape flag, column indices) regenerated from load_xye *)
Theorem C15_table_shape : forall (A : Type) (d : A) (rows : list (list A)),
  rows <> [] -> Forall (fun r => List.length r = 3) rows ->
  xye_post load_reshape load_coord_index load_values_index load_var_index (loadtxt_unpack d rows) =
  Some (map (fun r => nth 0 r d) rows, map (fun r => nth 1 r d) rows, map (fun r => nth 2 r d) rows).
Proof. exact (@table_shape). Qed.

(* 4 — header lines: whatever the header text, every line numpy writes for it starts with '#' ... *)
Theorem C15_header_lines_hash : forall h : text, Forall starts_hash (split nl (hdr_body h)).
Proof. exact header_lines_hash. Qed.

(* ... hence the rows the loader sees are the rows written, for a reader that splits at "\n" only
   (io.StringIO targets) with ANY header, and for a universal-newlines reader (paths, open()ed
   files) with any header free of carriage returns.  The unconditional statement for the latter is
   C15_header_inert in HeaderInert.v. *)
Theorem C15_header_inert_conditional : forall rd (h : text) (rows : list (list text)),
  (rd = LFOnly \/ ~ In cr h) -> Forall clean_row rows -> rows_of rd (savetxt h rows) = rows.
Proof. exact rows_of_savetxt. Qed.

(* 5 — save_xye returns normally iff the data is representable; otherwise the documented exception *)
Theorem C15_refusals : forall f : facts,
  run_guards f deduce_steps save_guards = Saved <-> representable f.
Proof. exact (refusals_from_table deduce_steps save_guards guards_table). Qed.

Theorem C15_refusal_classes : forall f : facts,
  run_guards f deduce_steps save_guards = documented_outcome f.
Proof. exact guards_table. Qed.

(* end to end (text layer + number layer; fmt, tokval, fl_sqrt, fl_sq are arbitrary functions
   satisfying the written contracts) *)
Theorem C15_xye_roundtrip :
  forall (fmt : R -> text) (tokval : text -> R) (fl_sqrt fl_sq : R -> R),
  (forall x, F64 x -> printf18e_contract x (tokval (fmt x))) ->
  (forall x, F64 x -> clean (fmt x)) ->
  (forall v, F64 v -> F64 (fl_sqrt v)) ->
  forall rd (h : text) (rows : list xyv),
  (rd = LFOnly \/ ~ In cr h) -> rows <> [] -> Forall doubles rows ->
  load_model tokval fl_sq rd load_reshape load_coord_index load_values_index load_var_index
             (save_model fmt fl_sqrt h rows) =
  Some (map cx rows, map cy rows, map (fun r => fl_sq (fl_sqrt (cv r))) rows).
Proof. exact xye_roundtrip. Qed.

Print Assumptions C15_decimal19_roundtrip.
Print Assumptions C15_decimal19_roundtrip_rel.
Print Assumptions C15_decimal19_roundtrip_b64.
Print Assumptions C15_variance_roundtrip.
Print Assumptions C15_variance_roundtrip_ulps.
Print Assumptions C15_table_shape.
Print Assumptions C15_header_lines_hash.
Print Assumptions C15_header_inert_conditional.
Print Assumptions C15_refusals.
Print Assumptions C15_refusal_classes.
Print Assumptions C15_xye_roundtrip.
