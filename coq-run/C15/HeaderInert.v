(* C15/HeaderInert.v — "header text never interferes with the table" at full strength: ANY header
   text (all of ASCII, carriage returns included), ANY reader (universal newlines too).
   numpy prefixes only what follows a "\n"; a lone "\r" in the header is a line break for every
   text-mode reader, so this holds only if save_xye itself removes carriage returns from the header
   before handing it to numpy.  The obligation below inspects the str.replace steps regenerated
   from the current save_xye; on a tree that passes the header through unchanged it does not check
   (witness: ProofsText.header_cr_injects_row). *)
From Coq Require Import Reals List String Ascii Bool Arith.
From Verif.C15 Require Import Model ProofsFloat ProofsText ProofsMain.
From Run Require Import GenXye Tie.
Import ListNotations.
Local Open Scope nat_scope.
Local Open Scope list_scope.

Definition header_pipeline (h0 : text) : text :=
  apply_replacements (decode_replacements header_replacement_codes) h0.

Lemma header_pipeline_removes_cr : forall h0, ~ In cr (header_pipeline h0).
Proof. intros h0. apply pipeline_no_cr_b. vm_compute. reflexivity. Qed.

Theorem C15_header_inert : forall rd (h0 : text) (rows : list (list text)),
  Forall clean_row rows -> rows_of rd (savetxt (header_pipeline h0) rows) = rows.
Proof. intros rd h0 rows H. apply rows_of_savetxt; trivial. right. apply header_pipeline_removes_cr. Qed.

Theorem C15_xye_roundtrip_any_header_any_reader :
  forall (fmt : R -> text) (tokval : text -> R) (fl_sqrt fl_sq : R -> R),
  (forall x, F64 x -> printf18e_contract x (tokval (fmt x))) ->
  (forall x, F64 x -> clean (fmt x)) ->
  (forall v, F64 v -> F64 (fl_sqrt v)) ->
  forall rd (h0 : text) (rows : list xyv),
  rows <> [] -> Forall doubles rows ->
  load_model tokval fl_sq rd load_reshape load_coord_index load_values_index load_var_index
             (save_model fmt fl_sqrt (header_pipeline h0) rows) =
  Some (map cx rows, map cy rows, map (fun r => fl_sq (fl_sqrt (cv r))) rows).
Proof.
intros fmt tokval fl_sqrt fl_sq H1 H2 H3 rd h0 rows Hn Hd.
apply xye_roundtrip; trivial. right. apply header_pipeline_removes_cr.
Qed.

Print Assumptions C15_header_inert.
Print Assumptions C15_xye_roundtrip_any_header_any_reader.
