(* C15/Tie.v — obligations on Run.GenXye, the first-order data extracted from the CURRENT
   src/scippneutron/io/xye.py by tools/harness/c15_extract.py on this run. *)
From Coq Require Import List String Ascii Bool Arith.
From Verif.C15 Require Import Model ProofsGuard.
From Run Require Import GenXye.
Import ListNotations.
Open Scope string_scope.

(* every statement of save_xye, _deduce_coord and load_xye was understood by the extractor *)
Lemma nothing_unknown : unknown_statements = [].
Proof. reflexivity. Qed.

(* the table is  X = coordinate, Y = values, E = sqrt(variances)  in this order *)
Lemma save_table_is_x_y_sqrtvar : save_columns = ["coord"; "values"; "sqrt-variances"].
Proof. reflexivity. Qed.

(* numpy.savetxt is called with its default format "%.18e" (19 significant digits), one blank
   as delimiter, default comment prefix and newline *)
Lemma savetxt_default_18e_format :
  savetxt_fmt = None /\ savetxt_delimiter = Some "' '" /\ savetxt_other_kwargs = [].
Proof. repeat split; reflexivity. Qed.

Lemma loadtxt_call : loadtxt_delimiter = Some "' '" /\ loadtxt_unpack_arg = Some "True" /\ loadtxt_other_kwargs = [].
Proof. repeat split; reflexivity. Qed.

(* load_xye: re-shape branch present; row 0 -> coordinate, row 1 -> values, (row 2)^2 -> variances *)
Lemma load_columns :
  load_reshape = true /\ load_coord_index = 0 /\ load_values_index = 1 /\ load_var_index = 2 /\
  load_var_transform = "square".
Proof. repeat split; reflexivity. Qed.

(* the regenerated guard sequence refuses exactly the documented classes with the documented
   exceptions — for ALL valuations (booleans enumerated, counters split 0,1,2,>=3) *)
Lemma guards_table : forall f, run_guards f deduce_steps save_guards = documented_outcome f.
Proof. guard_table. Qed.

(* the same as a finite decision table evaluated by computation (1024 valuations) *)
Lemma guards_finite_table : table_ok deduce_steps save_guards = true.
Proof. vm_compute. reflexivity. Qed.
