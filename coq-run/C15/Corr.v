(* C15/Corr.v — correspondence checks instantiated with the data regenerated on this run *)
From Coq Require Import List String Ascii Bool Arith ZArith QArith.
From Verif.C15 Require Import Model Check ProofsGuard.
From Run Require Import GenXye.
Import ListNotations.
Open Scope string_scope.

(* refusal classes: the regenerated guard list AND the documented specification must both
   predict what the real save_xye did *)
Definition check_refusal (c : rcase) : string :=
  let m := run_guards (rc_facts c) deduce_steps save_guards in
  let s := documented_outcome (rc_facts c) in
  if negb (Check.outcome_eqb m (rc_observed c)) then
    "model:" ++ outcome_str m ++ ",impl:" ++ outcome_str (rc_observed c)
  else if negb (Check.outcome_eqb s (rc_observed c)) then
    "spec:" ++ outcome_str s ++ ",impl:" ++ outcome_str (rc_observed c)
  else "".
(* inputs outside the guard model (coord= names a missing or 0-d coordinate): must be refused *)
Definition check_refused (o : outcome) : string :=
  match o with Raised _ => "" | _ => "not-refused:" ++ outcome_str o end.
