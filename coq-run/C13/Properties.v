(* C13/Properties.v — the property theorems (nothing else).  The writer model [encode_file] is run with the
   block order and chunk-loop bound regenerated from /repo on this run; [check_file]/[decode_obj]/[decode_pix]
   are the independent decoder (Format.v) and [view_of_file] the documented content view (Content.v);
   [expected_view ev title cs] is the flat description of what the builder calls [cs] supplied (Check.v).
   Floating-point members are binary64 patterns already in the documented unit; that these are the
   supplied quantities converted is checked per generated case in exact rational arithmetic (Check.conv_ok). *)
From Coq Require Import NArith ZArith String List Bool.
From Verif.SQW Require Import Bytes Format Model Content Check ProofsObj ProofsPix ProofsFile ProofsBuilder
     ProofsC12 ProofsContent ProofsC13.
From Run Require Import GenSqw GenSqwUnits Tie.
Import ListNotations.
Local Open Scope N_scope.

(* IR <-> bytes: the decoder inverts the writer on every well-formed object tree and stops exactly at its end *)
Theorem C13_decode_encode_object : forall e o, wf o ->
  forall fuel rest, (depth o <= fuel)%nat -> decode_obj fuel e (encode_obj e o ++ rest) = Some (o, rest).
Proof. exact decode_encode_obj. Qed.

(* integers (nfiles, npix, 1-based run ids and indices) survive their storage as binary64 *)
Theorem C13_integers_as_binary64 : forall n, n < two53 -> N_of_f64 (f64_of_N n) = Some n.
Proof. exact N_of_f64_of_N. Qed.

(* all N pixels, in order; pixel i holds for each row the i-th converted value rounded ONCE to binary32 *)
Theorem C13_pixels_in_order_rounded_once : forall e chunk p, 1 <= chunk ->
  pw_nrows p < two32 -> pw_npix p < two64 ->
  decode_pix e (pix_write e src_loop_bound chunk p) = Some ((pw_nrows p, pw_npix p, concat (pixels_of p)), [])
  /\ forall i, (i < N.to_nat (pw_npix p))%nat ->
       nth i (pixels_of p) [] = map (fun r => f64_to_f32 (nth i r 0)) (pw_rows p).
Proof. exact tie_pixels. Qed.

(* one experiment record per run, in order: 1-based id in the file, efix/en in meV, angles in rad *)
Theorem C13_one_record_per_run : forall xs, xs <> [] ->
  Forall (fun x => x_run_id x + 1 < two53 /\ x_emode x < two53) xs ->
  view_exp (ir_expdata xs) = Some (("exp.n", RInt (N.of_nat (length xs))) :: mapi exp_run_view 0 xs)%string.
Proof. exact view_exp_ok. Qed.

(* instrument and sample containers hold ONE object that every run references (idx = [1;...;1]) *)
Theorem C13_shared_sample : forall name alatt angdeg n,
  view_samp (broadcast_ref (bs "GLOBAL_NAME_SAMPLES_CONTAINER") (bs "IX_samp")
                           (ir_sample {| sa_name := name; sa_alatt := alatt; sa_angdeg := angdeg |}) n)
  = Some [("samp.n", RInt n); ("samp.shared", RInt 1); ("samp.n_unique", RInt 1);
          ("samp.0.name", RStr name); ("samp.0.alatt", RNum "angstrom" alatt); ("samp.0.angdeg", RNum "deg" angdeg)]%string.
Proof. exact view_samp_ok. Qed.

Theorem C13_shared_instrument : forall name sname starget freq n,
  view_inst (broadcast_ref (bs "GLOBAL_NAME_INSTRUMENTS_CONTAINER") (bs "IX_inst")
                           (ir_instrument {| in_name := name; in_src_name := sname; in_src_target := starget;
                                             in_src_freq := freq |}) n)
  = Some [("inst.n", RInt n); ("inst.shared", RInt 1); ("inst.n_unique", RInt 1);
          ("inst.0.name", RStr name); ("inst.0.src_name", RStr sname); ("inst.0.src_target", RStr starget);
          ("inst.0.freq", RNum "none" [freq])]%string.
Proof. exact view_inst_ok. Qed.

(* histogram metadata and a zero histogram of the declared shape *)
Theorem C13_dnd_metadata : forall a p fname fpath date,
  Forall (fun n => n < two53) (ax_nbins a) -> Forall (fun n => n + 1 < two53) (ax_dax a) ->
  view_dnd (ir_dnd_meta {| dm_axes := a; dm_proj := p |} fname fpath date)
  = Some (dnd_expected {| dm_axes := a; dm_proj := p |}
                       {| env_full := []; env_path := fpath; env_name := fname; env_date_main := []; env_date_dnd := date |}).
Proof. exact view_dnd_ok. Qed.

Theorem C13_zero_histogram : forall e sh,
  N.of_nat (length sh) < two32 -> Forall (fun d => d < two32) sh ->
  let z := repeat 0 (N.to_nat (prod_dims sh)) in
  decode_dnd e (dnd_write e sh) = Some ({| dv_shape := sh; dv_signal := z; dv_error := z; dv_npix := z |}, []).
Proof. exact decode_dnd_write. Qed.

(* the whole file: decoding it according to the documented format yields exactly what was supplied *)
Theorem C13_decoded_content_is_supplied : forall e ev title cs chunk,
  1 <= chunk -> ndims_of cs < two32 ->
  ir_ok ev title cs -> pix_ok cs -> dnd_ok cs ->
  fits (blocks_spec e ev BoundNPixels chunk title cs) ->
  content_ok cs ->
  exists fv,
    check_file (encode_file (keys_of_names src_block_order) e ev src_loop_bound title cs chunk) = Ok fv
    /\ view_of_file fv = Ok (expected_view ev title cs).
Proof. exact tie_decoded_content_is_supplied. Qed.

(* the package's reader attaches to every field a unit of the dimension the writer converted it to — proved for
   every labelled field EXCEPT the two lattice-parameter fields recorded as known findings
   (reader-unit-dimension:samp.N.alatt, reader-unit-dimension:dnd.pr.alatt) *)
Theorem C13_reader_unit_dimension_except_known_alatt : reader_units_ok_excl = true /\ multi_units_ok = true.
Proof. exact (conj reader_unit_dimension_excl multi_unit_dimension). Qed.

(* the known finding itself: alatt is written in angstrom and labelled 1/angstrom (sample and projection),
   so the unrestricted statement is false of the current source *)
Theorem C13_alatt_unit_refuted :
  map (fun k => (writer_unit (fst k) (snd k), reader_unit (fst k) (snd k))) known_alatt
  = [(Some "angstrom", Some "1/angstrom"); (Some "angstrom", Some "1/angstrom")]%string
  /\ length (filter (fun t => is_known (fst (fst t)) (snd (fst t))) reader_units) = 2%nat
  /\ reader_units_ok = false.
Proof. exact alatt_unit_refuted. Qed.

Print Assumptions C13_decode_encode_object.
Print Assumptions C13_integers_as_binary64.
Print Assumptions C13_pixels_in_order_rounded_once.
Print Assumptions C13_one_record_per_run.
Print Assumptions C13_shared_sample.
Print Assumptions C13_shared_instrument.
Print Assumptions C13_dnd_metadata.
Print Assumptions C13_zero_histogram.
Print Assumptions C13_decoded_content_is_supplied.
Print Assumptions C13_reader_unit_dimension_except_known_alatt.
Print Assumptions C13_alatt_unit_refuted.
