(* C13/CheckC13.v — the per-case checker the C13 correspondence shards run.  Definitions only.
   It is Check.check_c13 with one shortcut in the conversion check: a quantity supplied ALREADY in the documented unit
   whose oracle output has exactly the supplied bit patterns (all finite) needs no rational arithmetic — the unit ratio
   is 1 and equal patterns denote equal numbers, so Check.conv_ok would answer "" as well.  Everything else goes through
   Check.conv_ok unchanged.  (Makes pixel blocks of > 1 MiB affordable: 270000 values per file.) *)
From Coq Require Import NArith ZArith QArith String List Bool.
From Verif.SQW Require Import Bytes Format Model Content Check.
Import ListNotations.
Local Open Scope string_scope.

(* transport: a list of binary64 patterns that are all +-0 or normal binary32 numbers, sent as binary32 patterns
   (lib/sqwcorr.py:f32_patterns) and widened here.  A wrong widening cannot hide anything: the widened rows are what the
   decoded file (pixels and ranges) is compared with. *)
Definition f32_widen (x : N) : N :=
  let s := N.shiftr x 31 in
  let e := N.land (N.shiftr x 23) 255 in
  let m := N.land x 8388607 in
  if (e =? 0)%N then N.shiftl s 63 else (N.shiftl s 63 + N.shiftl (e + 896) 52 + N.shiftl m 29)%N.
Definition f32w (b : bytes) : list N := map f32_widen (u32s b).
Example f32_widen_one : f32_widen 1065353216 = 4607182418800017408%N /\ f32_widen 3221225472 = 13835058055282163712%N
                        /\ f32_widen 2147483648 = 9223372036854775808%N /\ f64_to_f32 (f32_widen 1078530011) = 1078530011%N.
Proof. vm_compute. repeat split. Qed.

Definition conv_ok_id (q : qty) : string :=
  if String.eqb (q_unit q) (q_target q) && list_eqb (q_conv q) (q_vals q) && forallb is_finite64 (q_vals q)
  then match unit_info (q_unit q) with Some _ => "" | None => "oracle-unknown-unit:" ++ q_what q end
  else conv_ok q.

Definition check_c13f (c : case) : string :=
  let want := expected_view (c_env c) (c_title c) (c_calls c) in
  let f := match check_file (c_file c) with
           | Err why => ["file-does-not-decode:" ++ why]
           | Ok fv => match view_of_file fv with
                      | Err why => ["file-" ++ why]
                      | Ok got => cmp_views "file" want got
                      end
           end in
  let q := nonempty (map conv_ok_id (c_convs c)) in
  let r := if negb (c_r_open c) then ["reader-open-failed"]
           else (map (fun b => String.append "reader-error:" b) (c_r_errors c) ++ cmp_known "reader" (c_r_view c) want)%list in
  let d := if c_dates_ok c then [] else ["creation-date-not-time-of-writing"] in
  join (firstn 6 (f ++ q ++ r ++ d)%list).
