(* C13/Tie.v — obligations on facts REGENERATED from /repo on this run:
   Run.GenSqw (block order, chunk-loop bound of _build.py) and Run.GenSqwUnits (the unit strings the
   writer converts to in _models.py and the unit strings the reader attaches in _sqw.py). *)
From Coq Require Import NArith ZArith QArith String List Bool.
From Verif.SQW Require Import Bytes Format Model Content Check ProofsObj ProofsPix ProofsFile ProofsBuilder
     ProofsC12 ProofsContent ProofsC13.
From Run Require Import GenSqw GenSqwUnits.
Import ListNotations.
Local Open Scope string_scope.

Definition same_dim (a b : string) : bool :=
  match unit_info a, unit_info b with
  | Some (_, da), Some (_, db) => dims_eqb da db
  | _, _ => false
  end.
Definition writer_unit (c f : string) : option string :=
  match find (fun t => String.eqb (fst (fst t)) c && String.eqb (snd (fst t)) f) writer_units with
  | Some t => Some (snd t)
  | None => None
  end.
(* every unit the reader attaches to a field has the dimension of the unit the writer converted that field to *)
Definition reader_units_ok : bool :=
  forallb (fun t => match writer_unit (fst (fst t)) (snd (fst t)) with
                    | Some uw => same_dim uw (snd t)
                    | None => false
                    end) reader_units.
Fixpoint all_same_dim (a b : list string) : bool :=
  match a, b with
  | [], [] => true
  | x :: a', y :: b' => same_dim x y && all_same_dim a' b'
  | _, _ => false
  end.
Definition multi_units_ok : bool :=
  forallb (fun r => forallb (fun w => all_same_dim (snd w) (snd r)) writer_multi_units) reader_multi_units.

(* the writer converts to the documented units (the ones Content.v reads the file with) *)
Lemma writer_units_documented :
  writer_unit "IX_sample" "alatt" = Some "angstrom" /\ writer_unit "IX_sample" "angdeg" = Some "deg"
  /\ writer_unit "line_proj" "alatt" = Some "angstrom" /\ writer_unit "line_proj" "angdeg" = Some "deg"
  /\ writer_unit "line_proj" "u" = Some "1/angstrom" /\ writer_unit "line_proj" "v" = Some "1/angstrom"
  /\ writer_unit "line_proj" "w" = Some "1/angstrom"
  /\ forallb (fun w => all_same_dim (snd w) multi_units) writer_multi_units = true.
Proof. vm_compute. repeat split; reflexivity. Qed.

Lemma src_keys : keys_of_names src_block_order = canonical_order.
Proof. vm_compute. reflexivity. Qed.

Lemma multi_unit_dimension : multi_units_ok = true.
Proof. vm_compute. reflexivity. Qed.

(* the chunk loop of _PixWrap.write runs over the PIXELS *)
Lemma src_loop_bound_is_n_pixels : src_loop_bound = BoundNPixels.
Proof. reflexivity. Qed.

(* ---- reader units.  KNOWN FINDING (known_findings.txt, keys reader-unit-dimension:samp.N.alatt and
   reader-unit-dimension:dnd.pr.alatt): the two lattice-parameter fields are written in angstrom and labelled
   1/angstrom by the reader.  The full statement is therefore proved UNDER THE EXCLUSION of exactly these two
   (class, field) pairs, and the refutation for them is a separate lemma that must hold on this tree. ---- *)
Definition known_alatt : list (string * string) := [("line_proj", "alatt"); ("IX_sample", "alatt")].
Definition is_known (c f : string) : bool :=
  existsb (fun k => String.eqb (fst k) c && String.eqb (snd k) f) known_alatt.
Definition reader_unit (c f : string) : option string :=
  match find (fun t => String.eqb (fst (fst t)) c && String.eqb (snd (fst t)) f) reader_units with
  | Some t => Some (snd t)
  | None => None
  end.
(* every field the reader labels, other than the two known ones, gets a unit of the writer's dimension *)
Definition reader_units_ok_excl : bool :=
  forallb (fun t => is_known (fst (fst t)) (snd (fst t))
                    || match writer_unit (fst (fst t)) (snd (fst t)) with
                       | Some uw => same_dim uw (snd t)
                       | None => false
                       end) reader_units.

Lemma reader_unit_dimension_excl : reader_units_ok_excl = true.
Proof. vm_compute. reflexivity. Qed.

(* the known finding, exactly as recorded: written in angstrom, labelled 1/angstrom, by both parsers; each of the
   two fields is labelled once; hence the unrestricted statement is false on this tree.  If either side changes
   in ANY way (including an upstream repair) this lemma breaks and the change has to be looked at. *)
Lemma alatt_unit_refuted :
  map (fun k => (writer_unit (fst k) (snd k), reader_unit (fst k) (snd k))) known_alatt
  = [(Some "angstrom", Some "1/angstrom"); (Some "angstrom", Some "1/angstrom")]
  /\ length (filter (fun t => is_known (fst (fst t)) (snd (fst t))) reader_units) = 2%nat
  /\ reader_units_ok = false.
Proof. vm_compute. repeat split; reflexivity. Qed.

Local Open Scope N_scope.
Lemma tie_decoded_content_is_supplied : forall e ev title cs chunk,
  1 <= chunk -> ndims_of cs < two32 ->
  ir_ok ev title cs -> pix_ok cs -> dnd_ok cs ->
  fits (blocks_spec e ev BoundNPixels chunk title cs) ->
  content_ok cs ->
  exists fv,
    check_file (encode_file (keys_of_names src_block_order) e ev src_loop_bound title cs chunk) = Ok fv
    /\ view_of_file fv = Ok (expected_view ev title cs).
Proof. intros. rewrite src_keys, src_loop_bound_is_n_pixels. apply decoded_content_is_supplied; auto. Qed.

Lemma tie_pixels : forall e chunk p, 1 <= chunk ->
  pw_nrows p < two32 -> pw_npix p < two64 ->
  decode_pix e (pix_write e src_loop_bound chunk p) = Some ((pw_nrows p, pw_npix p, concat (pixels_of p)), [])
  /\ forall i, (i < N.to_nat (pw_npix p))%nat ->
       nth i (pixels_of p) [] = map (fun r => f64_to_f32 (nth i r 0)) (pw_rows p).
Proof.
  intros. rewrite src_loop_bound_is_n_pixels. split.
  - apply decode_pix_write; auto. apply concat_small. unfold pixels_of.
    apply Forall_forall. intros px Hpx. apply Forall_forall. intros v Hv.
    clear - Hpx Hv. revert px Hpx v Hv. generalize (N.to_nat (pw_npix p)) (pw_rows p).
    induction n; intros rows px Hpx v Hv; cbn [transpose_rows] in Hpx; [contradiction|].
    destruct Hpx as [<-|Hpx].
    + apply in_map_iff in Hv. destruct Hv as [r [<- _]]. apply f64_to_f32_lt.
    + eapply IHn; eauto.
  - intros. apply pixel_values; auto.
Qed.
