(* C14/Tie.v — which quoting rule does the CURRENT source implement?
   GenCorpus.v (written by pre_build on this run) holds, for a boundary corpus (all strings of
   length <= 2 over the special characters  _ # $ [ ] ; quote double-quote SP TAB LF a . ?  plus the reserved
   words and a few longer ones), the text the real package wrote for the single pair  k = <string>
   (or that it raised).  The two models of _quotes_for_string_value in Writer.v are run on the
   same strings inside Coq. *)
From Coq Require Import String Ascii List Bool.
From Verif.C14 Require Import Cif11 Writer ProofsLex ProofsDoc ProofsRules ProofsMisc Check.
From Run Require Import GenCorpus.
Import ListNotations.

Definition agrees (R : rules) (c : ucase) : bool := String.eqb (check_rule R c) "".
Definition is_fixed : bool := forallb (agrees Rfixed) corpus.
Definition is_current : bool := forallb (agrees Rcurrent) corpus.

(* the rule the proofs and the correspondence use for the implementation *)
Definition Rimpl : rules := if is_fixed then Rfixed else Rcurrent.
Definition Pimpl : str -> bool := if is_fixed then P_fixed else P_current.

(* obligation: the source's rule is one of the two modelled ones *)
Lemma quoting_rule_recognised : is_fixed || is_current = true.
Proof. vm_compute. reflexivity. Qed.

(* write_then_parse for whichever rule the source implements, under that rule's predicate *)
Lemma write_then_parse_impl : forall comment blocks,
  gfile_ok Pimpl comment blocks = true ->
  option_map norm_blocks (parse (write_file Rimpl comment blocks)) = Some (trim_content (content blocks)).
Proof.
  unfold Pimpl, Rimpl. destruct is_fixed; [apply write_then_parse_fixed|apply write_then_parse_current].
Qed.

Example corpus_size : Nat.leb 200 (length corpus) = true.
Proof. vm_compute. reflexivity. Qed.
