(* C14/Properties.v — the property theorems (nothing else).  [Rimpl] is the quoting rule that the
   CURRENT source was found to implement on this run (Tie.v); [Rfixed]/[Rcurrent] are the two models
   of _quotes_for_string_value in Verif.C14.Writer.  Reading guide:
     write_file R comment blocks   the text the (model of the) writer produces
     parse                         the independent CIF 1.1 parser (Verif.C14.Cif11)
     norm_blocks / trim_content    forget quote kinds / strip surrounding blanks of every value
     gfile_ok P comment blocks     tags are '_' + non-blank printable characters, block codes non-empty and
                                   non-blank, comments printable, loops >= 1 column, >= 1 row, rectangular,
                                   and every string value satisfies P
     P_weak s                      every character is printable ASCII, TAB or LF
     P_fixed s  = P_weak s and s has no line beginning with ';' after a line end (such values are
                                   REFUSED by the repaired writer: CIF 1.1 cannot carry them)
     P_current s                   P_fixed s and, if the current rule leaves s unquoted: no TAB, first
                                   character not one of _ # $ [ ] ; and no reserved word at the start *)
From Coq Require Import String Ascii List Bool Arith.
From Verif.C14 Require Import Cif11 Writer ProofsChar ProofsLex ProofsDoc ProofsRules ProofsMisc Check.
From Run Require Import GenCorpus Tie.
Import ListNotations.

(* for the rule the source implements, under that rule's predicate *)
Theorem C14_write_then_parse : forall comment blocks,
  gfile_ok Pimpl comment blocks = true ->
  option_map norm_blocks (parse (write_file Rimpl comment blocks)) = Some (trim_content (content blocks)).
Proof. exact write_then_parse_impl. Qed.

(* the repaired rule: every printable document that is not refused *)
Theorem C14_write_then_parse_fixed : forall comment blocks,
  gfile_ok P_fixed comment blocks = true ->
  option_map norm_blocks (parse (write_file Rfixed comment blocks)) = Some (trim_content (content blocks)).
Proof. exact write_then_parse_fixed. Qed.

Theorem C14_fixed_refuses_exactly : forall s, value_refused Rfixed s = has_nl_semi s.
Proof. exact fixed_refuses_iff. Qed.

(* the rule of the unrepaired tree needs P_current ... *)
Theorem C14_write_then_parse_current : forall comment blocks,
  gfile_ok P_current comment blocks = true ->
  option_map norm_blocks (parse (write_file Rcurrent comment blocks)) = Some (trim_content (content blocks)).
Proof. exact write_then_parse_current. Qed.

(* ... and each extra conjunct of P_current is necessary: witnesses *)
Theorem C14_current_refuted :
  roundtrip_fails Rcurrent (pair_doc (S "_tag")) /\ roundtrip_fails Rcurrent (pair_doc (S "#c"))
  /\ roundtrip_fails Rcurrent (pair_doc (S "$x")) /\ roundtrip_fails Rcurrent (pair_doc (S "[a]"))
  /\ roundtrip_fails Rcurrent (pair_doc (S "]a")) /\ roundtrip_fails Rcurrent (pair_doc (S ";abc"))
  /\ roundtrip_fails Rcurrent (loop_doc (S ";abc")) /\ roundtrip_fails Rcurrent (pair_doc ["a"; tab; "b"]%char)
  /\ roundtrip_fails Rcurrent (pair_doc (S "loop_")) /\ roundtrip_fails Rcurrent (pair_doc (S "data_x"))
  /\ roundtrip_fails Rcurrent (pair_doc (S "save_x")) /\ roundtrip_fails Rcurrent (pair_doc (S "global_"))
  /\ roundtrip_fails Rcurrent (pair_doc (S "stop_")) /\ roundtrip_fails Rcurrent (pair_doc ["a"; nl; ";"; "b"]%char).
Proof.
  repeat split;
  [apply refuted_underscore|apply refuted_hash|apply refuted_dollar|apply refuted_bracket_open
  |apply refuted_bracket_close|apply refuted_semicolon_pair|apply refuted_semicolon_loop|apply refuted_tab
  |apply refuted_loop_kw|apply refuted_data_kw|apply refuted_save_kw|apply refuted_global_kw
  |apply refuted_stop_kw|apply refuted_nl_semi].
Qed.

(* numbers: any token obeying the oracle contract is written bare and read back as itself *)
Theorem C14_numeric_tokens : forall t, numeric_token t = true ->
  quotes_current t = QNone /\ quotes_fixed t = QNone /\ P_current t = true /\ P_fixed t = true.
Proof. exact numeric_token_ok. Qed.

Theorem C14_comments_do_not_leak : forall c,
  exists ls, write_comment c = flat_map comment_line ls /\ Forall (fun l => mem nl l = false) ls.
Proof. exact comments_do_not_leak. Qed.

Theorem C14_comments_yield_no_tokens : forall c ts, forallb pn c = true ->
  lrun (Some (LWs true, ts)) (write_comment c) = Some (LWs true, ts).
Proof. exact comments_yield_no_tokens. Qed.

Theorem C14_escape_is_ascii : forall cps, ascii_str (encode_non_ascii cps) = true.
Proof. exact encode_non_ascii_is_ascii. Qed.

Theorem C14_ascii_only : forall R comment blocks, ascii_file comment blocks = true ->
  ascii_str (write_file R comment blocks) = true.
Proof. exact ascii_only. Qed.

Theorem C14_author_ids_consistent : forall authors next f1 f2 roles n2,
  author_fields authors next = (f1, f2, roles, n2) ->
  let author_ids := id_column (S "audit_contact_author") f1 ++ id_column (S "audit_author") f2 in
  NoDup author_ids
  /\ (forall i r, In (i, r) roles -> count_occ (list_eq_dec ascii_dec) author_ids (nat_str i) = 1)
  /\ NoDup (map (fun ir => nat_str (fst ir)) roles)
  /\ n2 = next + length authors.
Proof. exact author_ids_consistent. Qed.

Theorem C14_loop_shape : forall comment k0 c0 cols l,
  loop_of_columns comment ((k0, c0) :: cols) = Some l ->
  ltags l = k0 :: map fst cols
  /\ length (lrows l) = length c0
  /\ Forall (fun r => length r = Datatypes.S (length cols)) (lrows l)
  /\ (forall r, r < length c0 -> nth r (lrows l) [] = map (fun c => nth r c []) (c0 :: map snd cols))
  /\ Forall (fun c => length c = length c0) (map snd cols).
Proof. exact loop_shape. Qed.

Theorem C14_loop_refusal : forall comment k0 c0 cols,
  loop_of_columns comment ((k0, c0) :: cols) = None <->
  exists kc, In kc cols /\ length (snd kc) <> length c0.
Proof. exact loop_shape_refusal. Qed.

(* THE FULL STATEMENT for the source as it is now: every printable document that the writer does
   not refuse is read back.  It holds iff the source implements the repaired rule. *)
Theorem C14_write_then_parse_full : forall comment blocks,
  gfile_ok P_fixed comment blocks = true ->
  option_map norm_blocks (parse (write_file Rimpl comment blocks)) = Some (trim_content (content blocks)).
Proof.
  assert (E : is_fixed = true) by (vm_compute; reflexivity).
  unfold Rimpl. rewrite E. exact write_then_parse_fixed.
Qed.

Print Assumptions C14_write_then_parse.
Print Assumptions C14_write_then_parse_fixed.
Print Assumptions C14_write_then_parse_current.
Print Assumptions C14_current_refuted.
Print Assumptions C14_numeric_tokens.
Print Assumptions C14_comments_do_not_leak.
Print Assumptions C14_ascii_only.
Print Assumptions C14_escape_is_ascii.
Print Assumptions C14_author_ids_consistent.
Print Assumptions C14_loop_shape.
Print Assumptions C14_write_then_parse_full.
