(* C07/Corr.v — executable model for the unit x dtype grid: all tof.py kernels regenerated on this run, over Q. *)
From Coq Require Import QArith ZArith String List.
From Verif.Sem Require Import Field Val QInst Corr.
From Run Require Import GenUtils GenTof.
From Run Require GenCascade.
Import ListNotations.
Open Scope string_scope.

Section D.
Variables h mn : Q.
Notation O := (QOps h mn).
Definition arg (l : list inp) (n : nat) : val O :=
  match nth_error l n with Some i => qv h mn i | None => VErr O "arity" end.
Definition run (name : string) (l : list inp) : val O :=
  let a := arg l in
  if String.eqb name "wavelength_from_tof" then wavelength_from_tof O (a 0%nat) (a 1%nat)
  else if String.eqb name "dspacing_from_tof" then dspacing_from_tof O (a 0%nat) (a 1%nat) (a 2%nat)
  else if String.eqb name "energy_from_tof" then energy_from_tof O (a 0%nat) (a 1%nat)
  else if String.eqb name "energy_from_wavelength" then energy_from_wavelength O (a 0%nat)
  else if String.eqb name "wavelength_from_energy" then wavelength_from_energy O (a 0%nat)
  else if String.eqb name "Q_from_wavelength" then Q_from_wavelength O (a 0%nat) (a 1%nat)
  else if String.eqb name "wavelength_from_Q" then wavelength_from_Q O (a 0%nat) (a 1%nat)
  else if String.eqb name "dspacing_from_wavelength" then dspacing_from_wavelength O (a 0%nat) (a 1%nat)
  else if String.eqb name "dspacing_from_energy" then dspacing_from_energy O (a 0%nat) (a 1%nat)
  else if String.eqb name "energy_transfer_direct_from_tof" then
    energy_transfer_direct_from_tof O (a 0%nat) (a 1%nat) (a 2%nat) (a 3%nat)
  else if String.eqb name "energy_transfer_indirect_from_tof" then
    energy_transfer_indirect_from_tof O (a 0%nat) (a 1%nat) (a 2%nat) (a 3%nat)
  else if String.eqb name "wavelength_to_inverse_velocity" then GenCascade.wavelength_to_inverse_velocity O (a 0%nat)
  else if String.eqb name "propagate_times" then GenCascade.propagate_times O (a 0%nat) (a 1%nat) (a 2%nat)
  else VErr O "unknown-kernel".
Definition check (c : kcase) : string :=
  cmp_out h mn (run (kname c) (kins c)) (kout c) (ktol c).
End D.
