(* C07/Properties.v — property theorems only: unit equivariance (same physical operands in any
   units => same physical result, documented unit, same dtype) and the dtype contract (result
   float32 iff the data operand(s) are float32, else float64 — [fdt], [fdt2]) for the kernels
   regenerated from tof.py on this run.  Stated here for the tof-based kernels; the remaining
   kernels' statements are the same shape (Tie.v).  See C01/Properties.v for the reading guide. *)
From Coq Require Import Reals ZArith String List Bool Lra.
From Verif.Sem Require Import Field Val RInst RLemmas.
From Verif.C01 Require Import Spec.
From Verif.C05 Require Import Spec.
From Run Require Import GenUtils GenTof TieC01 TieC05 Tie.
Open Scope R_scope.

Section P.
Variables h mn : R.
Hypothesis Hh : h > 0.
Hypothesis Hm : mn > 0.
Notation O := (ROps h mn).
Notation tv := (tvar h mn).

Theorem C07_equivariant_wavelength_from_tof : forall t st L sL t' st' L' sL' dt dL,
  t > 0 -> st > 0 -> L > 0 -> sL > 0 -> t' > 0 -> st' > 0 -> L' > 0 -> sL' > 0 ->
  is_num dt = true -> is_num dL = true -> t * st = t' * st' -> L * sL = L' * sL' ->
  exists p,
    is_qty h mn (wavelength_from_tof O (tv t st d_s dt) (tv L sL d_m dL)) p angstrom d_m (fdt dt) /\
    is_qty h mn (wavelength_from_tof O (tv t' st' d_s dt) (tv L' sL' d_m dL)) p angstrom d_m (fdt dt).
Proof using Hh Hm. exact (equivariant_wavelength_from_tof h mn Hh Hm). Qed.

Theorem C07_equivariant_energy_from_tof : forall t st L sL t' st' L' sL' dt dL,
  t > 0 -> st > 0 -> L > 0 -> sL > 0 -> t' > 0 -> st' > 0 -> L' > 0 -> sL' > 0 ->
  TieC01.pow_ok dt = true -> TieC01.pow_ok dL = true -> t * st = t' * st' -> L * sL = L' * sL' ->
  exists p,
    is_qty h mn (energy_from_tof O (tv t st d_s dt) (tv L sL d_m dL)) p meV d_J (fdt dt) /\
    is_qty h mn (energy_from_tof O (tv t' st' d_s dt) (tv L' sL' d_m dL)) p meV d_J (fdt dt).
Proof using Hh Hm. exact (equivariant_energy_from_tof h mn Hh Hm). Qed.

Theorem C07_equivariant_dspacing_from_tof : forall t st L sL th sth t' st' L' sL' th' sth' dt dL dth,
  t > 0 -> st > 0 -> L > 0 -> sL > 0 -> sth > 0 -> 0 < th * sth <= PI ->
  t' > 0 -> st' > 0 -> L' > 0 -> sL' > 0 -> sth' > 0 ->
  is_num dt = true -> is_num dL = true -> is_num dth = true ->
  t * st = t' * st' -> L * sL = L' * sL' -> th * sth = th' * sth' ->
  exists p,
    is_qty h mn (dspacing_from_tof O (tv t st d_s dt) (tv L sL d_m dL) (tv th sth d_rad dth)) p angstrom d_m (fdt dt) /\
    is_qty h mn (dspacing_from_tof O (tv t' st' d_s dt) (tv L' sL' d_m dL) (tv th' sth' d_rad dth)) p angstrom d_m (fdt dt).
Proof using Hh Hm. exact (equivariant_dspacing_from_tof h mn Hh Hm). Qed.

Theorem C07_equivariant_Q_from_wavelength : forall l sl th sth l' sl' th' sth' dl dth,
  l > 0 -> sl > 0 -> sth > 0 -> 0 < th * sth <= PI -> l' > 0 -> sl' > 0 -> sth' > 0 ->
  is_float dl = true -> is_num dth = true -> l * sl = l' * sl' -> th * sth = th' * sth' ->
  exists p,
    is_qty h mn (Q_from_wavelength O (tv l sl d_m dl) (tv th sth d_rad dth)) p (1 / sl) d_invm (fdt dl) /\
    is_qty h mn (Q_from_wavelength O (tv l' sl' d_m dl) (tv th' sth' d_rad dth)) p (1 / sl') d_invm (fdt dl).
Proof using Hh Hm. exact (equivariant_Q_from_wavelength h mn Hh Hm). Qed.

Theorem C07_equivariant_energy_transfer_direct :
  forall t st L1 s1 L2 s2 Ei sE t' st' L1' s1' L2' s2' Ei' sE' dt d1 d2 dE,
  t > 0 -> st > 0 -> L1 > 0 -> s1 > 0 -> L2 > 0 -> s2 > 0 -> Ei > 0 -> sE > 0 ->
  t' > 0 -> st' > 0 -> L1' > 0 -> s1' > 0 -> L2' > 0 -> s2' > 0 -> Ei' > 0 -> sE' > 0 ->
  TieC05.pow_ok dt = true -> TieC05.pow_ok d1 = true -> TieC05.pow_ok d2 = true -> is_float dE = true ->
  t * st > flight_time mn (L1 * s1) (Ei * sE) ->
  t * st = t' * st' -> L1 * s1 = L1' * s1' -> L2 * s2 = L2' * s2' -> Ei * sE = Ei' * sE' ->
  exists p,
    is_qty h mn (energy_transfer_direct_from_tof O (tv t st d_s dt) (tv L1 s1 d_m d1) (tv L2 s2 d_m d2) (tv Ei sE d_J dE))
           p sE d_J (fdt2 dE dt) /\
    is_qty h mn (energy_transfer_direct_from_tof O (tv t' st' d_s dt) (tv L1' s1' d_m d1) (tv L2' s2' d_m d2) (tv Ei' sE' d_J dE))
           p sE' d_J (fdt2 dE dt).
Proof using Hh Hm. exact (equivariant_energy_transfer_direct h mn Hh Hm). Qed.

(* operands of a wrong physical dimension are refused (all single base dimensions) *)
Theorem C07_wrong_dimension_rejected : forall t st L sL,
  forallb (fun dm => if deqb dm d_s then true
                     else raises h mn (wavelength_from_tof O (tv t st dm DF64) (tv L sL d_m DF64))
                          && raises h mn (energy_from_tof O (tv t st dm DF64) (tv L sL d_m DF64))) (base_dims) = true.
Proof using. exact (wrong_dimension_rejected_tof h mn). Qed.
End P.

Example C07_nonvacuous : 4000 * (1 / 1000000) = 4 * (1 / 1000) /\ 10 * 1 = 10000 * (1 / 1000).
Proof. split; lra. Qed.

Print Assumptions C07_equivariant_wavelength_from_tof.
Print Assumptions C07_equivariant_energy_from_tof.
Print Assumptions C07_equivariant_dspacing_from_tof.
Print Assumptions C07_equivariant_Q_from_wavelength.
Print Assumptions C07_equivariant_energy_transfer_direct.
Print Assumptions C07_wrong_dimension_rejected.
