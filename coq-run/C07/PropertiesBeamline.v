(* C07/PropertiesBeamline.v — property theorems (only): unit equivariance of the beamline.py kernels. *)
From Coq Require Import Reals ZArith String List Lra.
From Verif.Sem Require Import Field Val RInst RLemmas.
From Verif.C04 Require Import SemExt Vec Spec ProofsTrig ProofsGeom ProofsSpec.
From Run Require Import GenUtils GenBeamline TieC04 TieBeamline.
Open Scope R_scope.

Section P.
Variables h mn : R.
Hypothesis Hh : h > 0.
Hypothesis Hm : mn > 0.
Notation O := (ROps h mn).
Notation vvec v s dm := (VVar O (EVec O (vx v) (vy v) (vz v)) (mkU O s dm) DVec3).
Notation vnum x s dm d := (VVar O (ENum O x None) (mkU O s dm) d).

Theorem C07_equivariant_drop_due_to_gravity : forall ds L sL l sl dl (g : V3) sg L' sL' l' sl' (g' : V3) sg',
  sL > 0 -> sg > 0 -> sL' > 0 -> sg' > 0 -> is_float dl = true ->
  L * sL = L' * sL' -> l * sl = l' * sl' -> vscal sg g = vscal sg' g' ->
  exists p,
    is_qty h mn (p_drop_due_to_gravity O ds (vnum L sL d_m DF64) (vnum l sl d_m dl) (vvec g sg d_mps2)) p sL d_m dl /\
    is_qty h mn (p_drop_due_to_gravity O ds (vnum L' sL' d_m DF64) (vnum l' sl' d_m dl) (vvec g' sg' d_mps2)) p sL' d_m dl.
Proof using Hh Hm. exact (equivariant_drop_due_to_gravity h mn Hh Hm). Qed.

Theorem C07_equivariant_two_theta : forall (a c a' c' : V3) sa sc sa' sc',
  sa > 0 -> sc > 0 -> sa' > 0 -> sc' > 0 ->
  0 < vnorm a -> 0 < vnorm c -> 0 < vnorm a' -> 0 < vnorm c' ->
  vscal sa a = vscal sa' a' -> vscal sc c = vscal sc' c' ->
  exists p,
    is_qty h mn (two_theta O (vvec a sa d_m) (vvec c sc d_m)) p 1 d_rad DF64 /\
    is_qty h mn (two_theta O (vvec a' sa' d_m) (vvec c' sc' d_m)) p 1 d_rad DF64.
Proof using. exact (equivariant_two_theta h mn). Qed.
End P.

Print Assumptions C07_equivariant_drop_due_to_gravity.
Print Assumptions C07_equivariant_two_theta.
