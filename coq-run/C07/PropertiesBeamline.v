(* C07/PropertiesBeamline.v — property theorems (only): unit equivariance of the beamline.py kernels. *)
From Coq Require Import Reals ZArith String List Lra.
From Verif.Sem Require Import Field Val RInst RLemmas.
From Verif.C04 Require Import SemExt Vec Spec ProofsTrig ProofsGeom ProofsSpec.
From Run Require Import GenUtils GenBeamline TieC04 TieBeamline.
Import ListNotations.
Open Scope R_scope.

Section P.
Variables h mn : R.
Hypothesis Hh : h > 0.
Hypothesis Hm : mn > 0.
Notation O := (ROps h mn).
Notation vvec v s dm := (VVar O (EVec O (vx v) (vy v) (vz v)) (mkU O s dm) DVec3).
Notation vnum x s dm d := (VVar O (ENum O x None) (mkU O s dm) d).

Theorem C07_equivariant_drop_due_to_gravity : forall ds L sL l sl dl (g : V3) sg L' sL' l' sl' (g' : V3) sg',
  sL > 0 -> sg > 0 -> sL' > 0 -> sg' > 0 -> is_float dl = true ->
  L * sL = L' * sL' -> l * sl = l' * sl' -> vscal sg g = vscal sg' g' ->
  exists p,
    is_qty h mn (p_drop_due_to_gravity O ds (vnum L sL d_m DF64) (vnum l sl d_m dl) (vvec g sg d_mps2)) p sL d_m dl /\
    is_qty h mn (p_drop_due_to_gravity O ds (vnum L' sL' d_m DF64) (vnum l' sl' d_m dl) (vvec g' sg' d_mps2)) p sL' d_m dl.
Proof using Hh Hm. exact (equivariant_drop_due_to_gravity h mn Hh Hm). Qed.

Theorem C07_equivariant_two_theta : forall (a c a' c' : V3) sa sc sa' sc',
  sa > 0 -> sc > 0 -> sa' > 0 -> sc' > 0 ->
  0 < vnorm a -> 0 < vnorm c -> 0 < vnorm a' -> 0 < vnorm c' ->
  vscal sa a = vscal sa' a' -> vscal sc c = vscal sc' c' ->
  exists p,
    is_qty h mn (two_theta O (vvec a sa d_m) (vvec c sc d_m)) p 1 d_rad DF64 /\
    is_qty h mn (two_theta O (vvec a' sa' d_m) (vvec c' sc' d_m)) p 1 d_rad DF64.
Proof using. exact (equivariant_two_theta h mn). Qed.
(* operand layouts: [ds]/[ds'] say whether the dims of scattered_beam are among those of the wavelength (in-place
   accumulation) or not (broadcasting product); same physical operands in any units and any two layouts give the
   same physical result, in the documented unit and in the dtype of the wavelength *)
Theorem C07_layout_independent_drop_due_to_gravity : forall ds ds' L sL l sl dl (g : V3) sg L' sL' l' sl' (g' : V3) sg',
  sL > 0 -> sg > 0 -> sL' > 0 -> sg' > 0 -> is_float dl = true ->
  L * sL = L' * sL' -> l * sl = l' * sl' -> vscal sg g = vscal sg' g' ->
  exists p,
    is_qty h mn (p_drop_due_to_gravity O ds (vnum L sL d_m DF64) (vnum l sl d_m dl) (vvec g sg d_mps2)) p sL d_m dl /\
    is_qty h mn (p_drop_due_to_gravity O ds' (vnum L' sL' d_m DF64) (vnum l' sl' d_m dl) (vvec g' sg' d_mps2)) p sL' d_m dl.
Proof using Hh Hm. exact (layout_independent_drop_due_to_gravity h mn Hh Hm). Qed.

Theorem C07_layout_independent_yz_plane : forall ds ds' (b1 b2 g b1' b2' g' : V3) s1 s2 sg s1' s2' sg' l sl l' sl' dl,
  s1 > 0 -> s2 > 0 -> sg > 0 -> s1' > 0 -> s2' > 0 -> sg' > 0 -> is_float dl = true ->
  thr <= vnorm (zproj b1 g) -> 0 < vnorm g -> Rabs (vdot g b1) <= thr * vnorm g ->
  thr <= vnorm (zproj b1' g') -> 0 < vnorm g' -> Rabs (vdot g' b1') <= thr * vnorm g' ->
  vscal s1 b1 = vscal s1' b1' -> vscal s2 b2 = vscal s2' b2' -> vscal sg g = vscal sg' g' -> l * sl = l' * sl' ->
  exists p,
    is_qty h mn (scattering_angle_in_yz_plane O ds (vvec b1 s1 d_m) (vvec b2 s2 d_m) (vnum l sl d_m dl) (vvec g sg d_mps2)) p 1 d_rad dl /\
    is_qty h mn (scattering_angle_in_yz_plane O ds' (vvec b1' s1' d_m) (vvec b2' s2' d_m) (vnum l' sl' d_m dl) (vvec g' sg' d_mps2)) p 1 d_rad dl.
Proof using Hh Hm. exact (layout_independent_yz_plane h mn Hh Hm). Qed.

Theorem C07_layout_independent_orthogonal : forall ds ds' (b1 b2 g b1' b2' g' : V3) s1 s2 sg s1' s2' sg' l sl l' sl' dl,
  s1 > 0 -> s2 > 0 -> sg > 0 -> s1' > 0 -> s2' > 0 -> sg' > 0 -> is_float dl = true ->
  thr <= vnorm (zproj b1 g) -> 0 < vnorm g -> vdot g b1 = 0 ->
  thr <= vnorm (zproj b1' g') -> 0 < vnorm g' -> vdot g' b1' = 0 ->
  0 < vnorm (raised (vscal s2 b2) (vscal sg g) (drop h mn (vscal s2 b2) (vscal sg g) (l * sl))) ->
  vscal s1 b1 = vscal s1' b1' -> vscal s2 b2 = vscal s2' b2' -> vscal sg g = vscal sg' g' -> l * sl = l' * sl' ->
  exists v1 v2 w1 w2 p1 p2,
    p_scattering_angles_with_gravity_orthogonal_coords O ds (vvec b1 s1 d_m) (vvec b2 s2 d_m) (vnum l sl d_m dl) (vvec g sg d_mps2)
    = VDict O [("two_theta", v1); ("phi", v2)]%string /\
    p_scattering_angles_with_gravity_orthogonal_coords O ds' (vvec b1' s1' d_m) (vvec b2' s2' d_m) (vnum l' sl' d_m dl) (vvec g' sg' d_mps2)
    = VDict O [("two_theta", w1); ("phi", w2)]%string /\
    is_qty h mn v1 p1 1 d_rad dl /\ is_qty h mn w1 p1 1 d_rad dl /\
    is_qty h mn v2 p2 1 d_rad dl /\ is_qty h mn w2 p2 1 d_rad dl.
Proof using Hh Hm. exact (layout_independent_orthogonal h mn Hh Hm). Qed.
End P.

(* the hypotheses of the layout theorems are satisfiable: horizontal beam along z, gravity along -y, detector up and
   downstream (the witnesses of C04), the second call with the beams in mm instead of m and the other layout *)
Example C07_layout_nonvacuous : forall h mn l, h > 0 -> mn > 0 ->
  thr <= vnorm (zproj w_b1 w_g) /\ 0 < vnorm w_g /\ vdot w_g w_b1 = 0 /\ Rabs (vdot w_g w_b1) <= thr * vnorm w_g /\
  thr <= vnorm (zproj (vscal 1000 w_b1) w_g) /\ vdot w_g (vscal 1000 w_b1) = 0 /\
  vscal 1 w_b1 = vscal (1 / 1000) (vscal 1000 w_b1) /\
  0 < vnorm (raised (vscal 1 w_b2) (vscal 1 w_g) (drop h mn (vscal 1 w_b2) (vscal 1 w_g) l)).
Proof.
  intros h mn l Hh Hm.
  assert (Hg : 0 < vnorm w_g) by (rewrite w_g_norm; lra).
  assert (Hp : vdot w_g w_b1 = 0) by (unfold vdot, w_g, w_b1; cbn [vx vy vz]; ring).
  assert (Hp' : vdot w_g (vscal 1000 w_b1) = 0) by (unfold vdot, vscal, w_g, w_b1; cbn [vx vy vz]; ring).
  repeat split; try assumption.
  - rewrite zproj_horizontal by assumption. unfold vnorm, w_b1, thr; cbn [vx vy vz].
    replace (0 * 0 + 0 * 0 + 1 * 1) with 1 by ring. rewrite sqrt_1. lra.
  - rewrite Hp, Rabs_R0. unfold thr. nra.
  - rewrite zproj_horizontal by assumption. unfold vnorm, vscal, w_b1, thr; cbn [vx vy vz].
    replace (1000 * 0 * (1000 * 0) + 1000 * 0 * (1000 * 0) + 1000 * 1 * (1000 * 1)) with (1000 * 1000) by ring.
    rewrite sqrt_square by lra. lra.
  - unfold vscal, w_b1; cbn [vx vy vz]. f_equal; field.
  - rewrite !vscal_one.
    apply raised_nonzero_above; try assumption.
    + apply vnorm_pos_iff. unfold vsq, w_b2; cbn [vx vy vz]. lra.
    + rewrite w_ey. unfold vdot, w_b2; cbn [vx vy vz]. lra.
    + unfold drop. apply delta_nonneg; try assumption. apply vnorm_nonneg.
Qed.


Print Assumptions C07_equivariant_drop_due_to_gravity.
Print Assumptions C07_equivariant_two_theta.
Print Assumptions C07_layout_independent_drop_due_to_gravity.
Print Assumptions C07_layout_independent_yz_plane.
Print Assumptions C07_layout_independent_orthogonal.
