(* C07/Tie.v — unit equivariance and the dtype contract of the regenerated kernels,
   as corollaries of the per-kernel exactness lemmas (TieC01 = coq-run/C01/Tie.v,
   TieC05 = coq-run/C05/Tie.v, both re-proved on this run's terms).

   Equivariance: two operand lists that denote the same PHYSICAL quantities
   (value*multiplier equal) in arbitrary units give results with the same
   physical value, the same (documented) unit and the same dtype.
   Dtype contract: the result dtype in every exactness lemma is [fdt dt] /
   [fdt2 dE dt] of the DATA operand(s) for ALL numeric dtypes of all operands. *)
From Coq Require Import Reals ZArith String List Bool Lra.
From Verif.Sem Require Import Field Val RInst RLemmas.
From Verif.C01 Require Import Spec.
From Verif.C05 Require Import Spec.
From Run Require Import GenUtils GenTof TieC01 TieC05.
Import ListNotations.
Open Scope bool_scope.
Open Scope R_scope.

Section Tie.
Variables h mn : R.
Hypothesis Hh : h > 0.
Hypothesis Hm : mn > 0.
Notation O := (ROps h mn).
Notation tv := (tvar h mn).

Ltac equiv lemma :=
  intros;
  eexists; split;
  [ eapply lemma; eassumption
  | repeat match goal with E : ?a * ?b = ?c * ?d |- _ => rewrite E; clear E end;
    eapply lemma; eassumption ].

Lemma equivariant_wavelength_from_tof t st L sL t' st' L' sL' dt dL :
  t > 0 -> st > 0 -> L > 0 -> sL > 0 -> t' > 0 -> st' > 0 -> L' > 0 -> sL' > 0 ->
  is_num dt = true -> is_num dL = true -> t * st = t' * st' -> L * sL = L' * sL' ->
  exists p,
    is_qty h mn (wavelength_from_tof O (tv t st d_s dt) (tv L sL d_m dL)) p angstrom d_m (fdt dt) /\
    is_qty h mn (wavelength_from_tof O (tv t' st' d_s dt) (tv L' sL' d_m dL)) p angstrom d_m (fdt dt).
Proof using Hh Hm. equiv (wavelength_from_tof_exact h mn Hh Hm). Qed.

Lemma equivariant_energy_from_tof t st L sL t' st' L' sL' dt dL :
  t > 0 -> st > 0 -> L > 0 -> sL > 0 -> t' > 0 -> st' > 0 -> L' > 0 -> sL' > 0 ->
  TieC01.pow_ok dt = true -> TieC01.pow_ok dL = true -> t * st = t' * st' -> L * sL = L' * sL' ->
  exists p,
    is_qty h mn (energy_from_tof O (tv t st d_s dt) (tv L sL d_m dL)) p meV d_J (fdt dt) /\
    is_qty h mn (energy_from_tof O (tv t' st' d_s dt) (tv L' sL' d_m dL)) p meV d_J (fdt dt).
Proof using Hh Hm. equiv (energy_from_tof_exact h mn Hh Hm). Qed.

Lemma equivariant_dspacing_from_tof t st L sL th sth t' st' L' sL' th' sth' dt dL dth :
  t > 0 -> st > 0 -> L > 0 -> sL > 0 -> sth > 0 -> 0 < th * sth <= PI ->
  t' > 0 -> st' > 0 -> L' > 0 -> sL' > 0 -> sth' > 0 ->
  is_num dt = true -> is_num dL = true -> is_num dth = true ->
  t * st = t' * st' -> L * sL = L' * sL' -> th * sth = th' * sth' ->
  exists p,
    is_qty h mn (dspacing_from_tof O (tv t st d_s dt) (tv L sL d_m dL) (tv th sth d_rad dth)) p angstrom d_m (fdt dt) /\
    is_qty h mn (dspacing_from_tof O (tv t' st' d_s dt) (tv L' sL' d_m dL) (tv th' sth' d_rad dth)) p angstrom d_m (fdt dt).
Proof using Hh Hm.
  intros. eexists; split.
  - eapply (dspacing_from_tof_exact h mn Hh Hm); eassumption.
  - repeat match goal with E : ?a * ?b = ?c * ?d |- _ => rewrite E in *; clear E end.
    eapply (dspacing_from_tof_exact h mn Hh Hm); eassumption.
Qed.

Lemma equivariant_energy_from_wavelength l sl l' sl' dl :
  l > 0 -> sl > 0 -> l' > 0 -> sl' > 0 -> TieC01.pow_ok dl = true -> l * sl = l' * sl' ->
  exists p,
    is_qty h mn (energy_from_wavelength O (tv l sl d_m dl)) p meV d_J (fdt dl) /\
    is_qty h mn (energy_from_wavelength O (tv l' sl' d_m dl)) p meV d_J (fdt dl).
Proof using Hh Hm. equiv (energy_from_wavelength_exact h mn Hh Hm). Qed.

Lemma equivariant_wavelength_from_energy E sE E' sE' dE :
  E > 0 -> sE > 0 -> E' > 0 -> sE' > 0 -> is_float dE = true -> E * sE = E' * sE' ->
  exists p,
    is_qty h mn (wavelength_from_energy O (tv E sE d_J dE)) p angstrom d_m (fdt dE) /\
    is_qty h mn (wavelength_from_energy O (tv E' sE' d_J dE)) p angstrom d_m (fdt dE).
Proof using Hh Hm. equiv (wavelength_from_energy_exact h mn Hh Hm). Qed.

Lemma equivariant_dspacing_from_wavelength l sl th sth l' sl' th' sth' dl dth :
  l > 0 -> sl > 0 -> sth > 0 -> 0 < th * sth <= PI -> l' > 0 -> sl' > 0 -> sth' > 0 ->
  is_float dl = true -> is_num dth = true -> l * sl = l' * sl' -> th * sth = th' * sth' ->
  exists p,
    is_qty h mn (dspacing_from_wavelength O (tv l sl d_m dl) (tv th sth d_rad dth)) p angstrom d_m (fdt dl) /\
    is_qty h mn (dspacing_from_wavelength O (tv l' sl' d_m dl) (tv th' sth' d_rad dth)) p angstrom d_m (fdt dl).
Proof using Hh Hm.
  intros. eexists; split.
  - eapply (dspacing_from_wavelength_exact h mn Hh Hm); eassumption.
  - repeat match goal with E : ?a * ?b = ?c * ?d |- _ => rewrite E in *; clear E end.
    eapply (dspacing_from_wavelength_exact h mn Hh Hm); eassumption.
Qed.

Lemma equivariant_dspacing_from_energy E sE th sth E' sE' th' sth' dE dth :
  E > 0 -> sE > 0 -> sth > 0 -> 0 < th * sth <= PI -> E' > 0 -> sE' > 0 -> sth' > 0 ->
  is_float dE = true -> is_num dth = true -> E * sE = E' * sE' -> th * sth = th' * sth' ->
  exists p,
    is_qty h mn (dspacing_from_energy O (tv E sE d_J dE) (tv th sth d_rad dth)) p angstrom d_m (fdt dE) /\
    is_qty h mn (dspacing_from_energy O (tv E' sE' d_J dE) (tv th' sth' d_rad dth)) p angstrom d_m (fdt dE).
Proof using Hh Hm.
  intros. eexists; split.
  - eapply (dspacing_from_energy_exact h mn Hh Hm); eassumption.
  - repeat match goal with E : ?a * ?b = ?c * ?d |- _ => rewrite E in *; clear E end.
    eapply (dspacing_from_energy_exact h mn Hh Hm); eassumption.
Qed.

(* Q: the output unit is the inverse of the wavelength's unit, so the two results are equal
   PHYSICALLY (value*multiplier), each in its own documented unit *)
Lemma equivariant_Q_from_wavelength l sl th sth l' sl' th' sth' dl dth :
  l > 0 -> sl > 0 -> sth > 0 -> 0 < th * sth <= PI -> l' > 0 -> sl' > 0 -> sth' > 0 ->
  is_float dl = true -> is_num dth = true -> l * sl = l' * sl' -> th * sth = th' * sth' ->
  exists p,
    is_qty h mn (Q_from_wavelength O (tv l sl d_m dl) (tv th sth d_rad dth)) p (1 / sl) d_invm (fdt dl) /\
    is_qty h mn (Q_from_wavelength O (tv l' sl' d_m dl) (tv th' sth' d_rad dth)) p (1 / sl') d_invm (fdt dl).
Proof using Hh Hm.
  intros. eexists; split.
  - eapply (Q_from_wavelength_exact h mn Hh Hm); eassumption.
  - repeat match goal with E : ?a * ?b = ?c * ?d |- _ => rewrite E in *; clear E end.
    eapply (Q_from_wavelength_exact h mn Hh Hm); eassumption.
Qed.

Lemma equivariant_wavelength_from_Q q sq th sth q' sq' th' sth' dq dth :
  q > 0 -> sq > 0 -> sth > 0 -> 0 < th * sth <= PI -> q' > 0 -> sq' > 0 -> sth' > 0 ->
  is_float dq = true -> is_num dth = true -> q * sq = q' * sq' -> th * sth = th' * sth' ->
  exists p,
    is_qty h mn (wavelength_from_Q O (tv q sq d_invm dq) (tv th sth d_rad dth)) p angstrom d_m (fdt dq) /\
    is_qty h mn (wavelength_from_Q O (tv q' sq' d_invm dq) (tv th' sth' d_rad dth)) p angstrom d_m (fdt dq).
Proof using Hh Hm.
  intros. eexists; split.
  - eapply (wavelength_from_Q_exact h mn Hh Hm); eassumption.
  - repeat match goal with E : ?a * ?b = ?c * ?d |- _ => rewrite E in *; clear E end.
    eapply (wavelength_from_Q_exact h mn Hh Hm); eassumption.
Qed.

(* energy transfer (direct): same physical operands, energies possibly in different units:
   equal physical result, each in the unit of ITS supplied energy *)
Lemma equivariant_energy_transfer_direct t st L1 s1 L2 s2 Ei sE t' st' L1' s1' L2' s2' Ei' sE' dt d1 d2 dE :
  t > 0 -> st > 0 -> L1 > 0 -> s1 > 0 -> L2 > 0 -> s2 > 0 -> Ei > 0 -> sE > 0 ->
  t' > 0 -> st' > 0 -> L1' > 0 -> s1' > 0 -> L2' > 0 -> s2' > 0 -> Ei' > 0 -> sE' > 0 ->
  TieC05.pow_ok dt = true -> TieC05.pow_ok d1 = true -> TieC05.pow_ok d2 = true -> is_float dE = true ->
  t * st > flight_time mn (L1 * s1) (Ei * sE) ->
  t * st = t' * st' -> L1 * s1 = L1' * s1' -> L2 * s2 = L2' * s2' -> Ei * sE = Ei' * sE' ->
  exists p,
    is_qty h mn (energy_transfer_direct_from_tof O (tv t st d_s dt) (tv L1 s1 d_m d1) (tv L2 s2 d_m d2) (tv Ei sE d_J dE))
           p sE d_J (fdt2 dE dt) /\
    is_qty h mn (energy_transfer_direct_from_tof O (tv t' st' d_s dt) (tv L1' s1' d_m d1) (tv L2' s2' d_m d2) (tv Ei' sE' d_J dE))
           p sE' d_J (fdt2 dE dt).
Proof using Hh Hm.
  intros. eexists; split.
  - eapply (direct_value h mn Hh Hm); eassumption.
  - repeat match goal with E : ?a * ?b = ?c * ?d |- _ => rewrite E in *; clear E end.
    eapply (direct_value h mn Hh Hm); eassumption.
Qed.

Lemma equivariant_energy_transfer_indirect t st L1 s1 L2 s2 Ef sE t' st' L1' s1' L2' s2' Ef' sE' dt d1 d2 dE :
  t > 0 -> st > 0 -> L1 > 0 -> s1 > 0 -> L2 > 0 -> s2 > 0 -> Ef > 0 -> sE > 0 ->
  t' > 0 -> st' > 0 -> L1' > 0 -> s1' > 0 -> L2' > 0 -> s2' > 0 -> Ef' > 0 -> sE' > 0 ->
  TieC05.pow_ok dt = true -> TieC05.pow_ok d1 = true -> TieC05.pow_ok d2 = true -> is_float dE = true ->
  t * st > flight_time mn (L2 * s2) (Ef * sE) ->
  t * st = t' * st' -> L1 * s1 = L1' * s1' -> L2 * s2 = L2' * s2' -> Ef * sE = Ef' * sE' ->
  exists p,
    is_qty h mn (energy_transfer_indirect_from_tof O (tv t st d_s dt) (tv L1 s1 d_m d1) (tv L2 s2 d_m d2) (tv Ef sE d_J dE))
           p sE d_J (fdt2 dE dt) /\
    is_qty h mn (energy_transfer_indirect_from_tof O (tv t' st' d_s dt) (tv L1' s1' d_m d1) (tv L2' s2' d_m d2) (tv Ef' sE' d_J dE))
           p sE' d_J (fdt2 dE dt).
Proof using Hh Hm.
  intros. eexists; split.
  - eapply (indirect_value h mn Hh Hm); eassumption.
  - repeat match goal with E : ?a * ?b = ?c * ?d |- _ => rewrite E in *; clear E end.
    eapply (indirect_value h mn Hh Hm); eassumption.
Qed.

(* an operand of the wrong physical dimension is refused, never answered: for every single base
   dimension other than the right one (finite: the 9 base units of scipp) *)
Definition base_dims : list dims :=
  [d_m; d_kg; d_s; [0;0;0;1;0;0;0;0;0]%Z; d_K; [0;0;0;0;0;1;0;0;0]%Z; [0;0;0;0;0;0;1;0;0]%Z; d_rad; d_counts; dzero].
Definition raises (v : val O) : bool := match v with VErr _ _ => true | _ => false end.
Lemma wrong_dimension_rejected_tof t st L sL :
  forallb (fun dm => if deqb dm d_s then true
                     else raises (wavelength_from_tof O (tv t st dm DF64) (tv L sL d_m DF64))
                          && raises (energy_from_tof O (tv t st dm DF64) (tv L sL d_m DF64))) base_dims = true.
Proof using. sem_cbv. reflexivity. Qed.
Lemma wrong_dimension_rejected_Ltotal t st L sL :
  forallb (fun dm => if deqb dm d_m then true
                     else raises (wavelength_from_tof O (tv t st d_s DF64) (tv L sL dm DF64))
                          && raises (energy_from_tof O (tv t st d_s DF64) (tv L sL dm DF64))) base_dims = true.
Proof using. sem_cbv. reflexivity. Qed.
Lemma wrong_dimension_rejected_wavelength l sl :
  forallb (fun dm => if deqb dm d_m then true
                     else raises (energy_from_wavelength O (tv l sl dm DF64))) base_dims = true.
Proof using. sem_cbv. reflexivity. Qed.
Lemma wrong_dimension_rejected_energy E sE :
  forallb (fun dm => if deqb dm d_J then true
                     else raises (wavelength_from_energy O (tv E sE dm DF64))) (d_J :: base_dims) = true.
Proof using. sem_cbv. reflexivity. Qed.
End Tie.

(* ---- chopper-cascade helpers (tof/chopper_cascade.py, regenerated as Run.GenCascade) *)
From Run Require GenCascade.
Section Cascade.
Variables h mn : R.
Hypothesis Hh : h > 0.
Hypothesis Hm : mn > 0.
Notation O := (ROps h mn).
Notation tv := (tvar h mn).
Definition d_spm : dims := dsub d_s d_m.

(* 1/v = lambda * m_n / h, in s/m whatever the wavelength unit *)
Lemma inverse_velocity_exact l sl dl :
  l > 0 -> sl > 0 -> is_num dl = true ->
  is_qty' h mn (GenCascade.wavelength_to_inverse_velocity O (tv l sl d_m dl))
          ((l * sl) * mn / h) 1 d_spm.
Proof using Hh Hm.
  intros; all_dtypes; eexists; sem_eval; (qty_intro; [ first [reflexivity | field; lra] | field; lra ]).
Qed.

(* arrival time after flying [distance]: t + distance * lambda * m_n / h, in the unit of [time] *)
Lemma propagate_times_exact t st l sl x sx dt dl dx :
  st > 0 -> l > 0 -> sl > 0 -> sx > 0 ->
  is_float dt = true -> is_num dl = true -> is_num dx = true ->
  is_qty' h mn (GenCascade.propagate_times O (tv t st d_s dt) (tv l sl d_m dl) (tv x sx d_m dx))
          (t * st + (x * sx) * ((l * sl) * mn / h)) st d_s.
Proof using Hh Hm.
  intros; all_dtypes; eexists; sem_eval; (qty_intro; [ first [reflexivity | field; lra] | field; lra ]).
Qed.

Lemma equivariant_propagate_times t st l sl x sx t' st' l' sl' x' sx' dt dl dx :
  st > 0 -> l > 0 -> sl > 0 -> sx > 0 -> st' > 0 -> l' > 0 -> sl' > 0 -> sx' > 0 ->
  is_float dt = true -> is_num dl = true -> is_num dx = true ->
  t * st = t' * st' -> l * sl = l' * sl' -> x * sx = x' * sx' ->
  exists p,
    is_qty' h mn (GenCascade.propagate_times O (tv t st d_s dt) (tv l sl d_m dl) (tv x sx d_m dx)) p st d_s /\
    is_qty' h mn (GenCascade.propagate_times O (tv t' st' d_s dt) (tv l' sl' d_m dl) (tv x' sx' d_m dx)) p st' d_s.
Proof using Hh Hm.
  intros. eexists; split.
  - eapply propagate_times_exact; eassumption.
  - repeat match goal with E : ?a * ?b = ?c * ?d |- _ => rewrite E in *; clear E end.
    eapply propagate_times_exact; eassumption.
Qed.
End Cascade.
