(* C07/TieBeamline.v — unit equivariance of the beamline.py kernels, as corollaries of the
   exactness lemmas of coq-run/C04/Tie.v (= Run.TieC04, re-proved on this run's GenBeamline).
   The C04 lemmas conclude a PHYSICAL value that depends only on value*multiplier of each operand,
   for arbitrary positive multipliers; so two operand lists denoting the same physical quantities
   give the same physical result, in the documented unit (unit of `distance`; rad). *)
From Coq Require Import Reals ZArith String List Lra.
From Verif.Sem Require Import Field Val RInst RLemmas.
From Verif.C04 Require Import SemExt Vec Spec ProofsTrig ProofsGeom ProofsSpec.
From Run Require Import GenUtils GenBeamline TieC04.
Import ListNotations.
Open Scope R_scope.

Section B.
Variables h mn : R.
Hypothesis Hh : h > 0.
Hypothesis Hm : mn > 0.
Notation O := (ROps h mn).
Notation vvec v s dm := (VVar O (EVec O (vx v) (vy v) (vz v)) (mkU O s dm) DVec3).
Notation vnum x s dm d := (VVar O (ENum O x None) (mkU O s dm) d).

(* drop distance: same physical L2, wavelength and gravity in any units => same physical drop,
   each result in the unit of ITS distance operand, dtype of the wavelength *)
Lemma equivariant_drop_due_to_gravity ds L sL l sl dl (g : V3) sg L' sL' l' sl' (g' : V3) sg' :
  sL > 0 -> sg > 0 -> sL' > 0 -> sg' > 0 -> is_float dl = true ->
  L * sL = L' * sL' -> l * sl = l' * sl' -> vscal sg g = vscal sg' g' ->
  exists p,
    is_qty h mn (p_drop_due_to_gravity O ds (vnum L sL d_m DF64) (vnum l sl d_m dl) (vvec g sg d_mps2)) p sL d_m dl /\
    is_qty h mn (p_drop_due_to_gravity O ds (vnum L' sL' d_m DF64) (vnum l' sl' d_m dl) (vvec g' sg' d_mps2)) p sL' d_m dl.
Proof using Hh Hm.
  intros ? ? ? ? ? EL El Eg. eexists; split.
  - apply (drop_formula h mn Hh Hm); assumption.
  - rewrite EL, El, Eg. apply (drop_formula h mn Hh Hm); assumption.
Qed.

(* scattering angle: same physical beams in any length units => same angle, in rad *)
Lemma equivariant_two_theta (a c a' c' : V3) sa sc sa' sc' :
  sa > 0 -> sc > 0 -> sa' > 0 -> sc' > 0 ->
  0 < vnorm a -> 0 < vnorm c -> 0 < vnorm a' -> 0 < vnorm c' ->
  vscal sa a = vscal sa' a' -> vscal sc c = vscal sc' c' ->
  exists p,
    is_qty h mn (two_theta O (vvec a sa d_m) (vvec c sc d_m)) p 1 d_rad DF64 /\
    is_qty h mn (two_theta O (vvec a' sa' d_m) (vvec c' sc' d_m)) p 1 d_rad DF64.
Proof using.
  intros ? ? ? ? ? ? ? ? Ea Ec. eexists; split.
  - apply (two_theta_is_angle h mn); assumption.
  - rewrite Ea, Ec. apply (two_theta_is_angle h mn); assumption.
Qed.
(* ---- operand LAYOUTS.  [ds] is the answer to `set(distance.dims).issubset(drop.dims)`: true when the dims of
   L2 (= dims of scattered_beam) are among those of the wavelength (in-place accumulation `drop *= distance`), false
   when scattered_beam has a dimension the wavelength lacks (broadcasting product `drop * distance`).  Two calls on
   the same physical operands - in any units AND in layouts that take different branches - return the same physical
   value, each in the dtype [dl] of the wavelength: the dtype contract does not depend on the layout. *)
Lemma layout_independent_drop_due_to_gravity ds ds' L sL l sl dl (g : V3) sg L' sL' l' sl' (g' : V3) sg' :
  sL > 0 -> sg > 0 -> sL' > 0 -> sg' > 0 -> is_float dl = true ->
  L * sL = L' * sL' -> l * sl = l' * sl' -> vscal sg g = vscal sg' g' ->
  exists p,
    is_qty h mn (p_drop_due_to_gravity O ds (vnum L sL d_m DF64) (vnum l sl d_m dl) (vvec g sg d_mps2)) p sL d_m dl /\
    is_qty h mn (p_drop_due_to_gravity O ds' (vnum L' sL' d_m DF64) (vnum l' sl' d_m dl) (vvec g' sg' d_mps2)) p sL' d_m dl.
Proof using Hh Hm.
  intros ? ? ? ? ? EL El Eg. eexists; split.
  - apply (drop_formula h mn Hh Hm); assumption.
  - rewrite EL, El, Eg. apply (drop_formula h mn Hh Hm); assumption.
Qed.

(* the reflectometry angle: same physical operands, any units, any two layouts => same angle, in rad, in the dtype
   of the wavelength *)
Lemma layout_independent_yz_plane ds ds' (b1 b2 g b1' b2' g' : V3) s1 s2 sg s1' s2' sg' l sl l' sl' dl :
  s1 > 0 -> s2 > 0 -> sg > 0 -> s1' > 0 -> s2' > 0 -> sg' > 0 -> is_float dl = true ->
  thr <= vnorm (zproj b1 g) -> 0 < vnorm g -> Rabs (vdot g b1) <= thr * vnorm g ->
  thr <= vnorm (zproj b1' g') -> 0 < vnorm g' -> Rabs (vdot g' b1') <= thr * vnorm g' ->
  vscal s1 b1 = vscal s1' b1' -> vscal s2 b2 = vscal s2' b2' -> vscal sg g = vscal sg' g' -> l * sl = l' * sl' ->
  exists p,
    is_qty h mn (scattering_angle_in_yz_plane O ds (vvec b1 s1 d_m) (vvec b2 s2 d_m) (vnum l sl d_m dl) (vvec g sg d_mps2)) p 1 d_rad dl /\
    is_qty h mn (scattering_angle_in_yz_plane O ds' (vvec b1' s1' d_m) (vvec b2' s2' d_m) (vnum l' sl' d_m dl) (vvec g' sg' d_mps2)) p 1 d_rad dl.
Proof using Hh Hm.
  intros ? ? ? ? ? ? ? ? ? ? ? ? ? E1 E2 Eg El. eexists; split.
  - apply (yz_plane_formula h mn Hh Hm); assumption.
  - rewrite E1, E2, Eg, El. apply (yz_plane_formula h mn Hh Hm); assumption.
Qed.

(* the optimised path of scattering_angles_with_gravity (incident beam perpendicular to gravity): same physical
   operands, any units, any two layouts => the same two angles, in rad, in the dtype of the wavelength *)
Lemma layout_independent_orthogonal ds ds' (b1 b2 g b1' b2' g' : V3) s1 s2 sg s1' s2' sg' l sl l' sl' dl :
  s1 > 0 -> s2 > 0 -> sg > 0 -> s1' > 0 -> s2' > 0 -> sg' > 0 -> is_float dl = true ->
  thr <= vnorm (zproj b1 g) -> 0 < vnorm g -> vdot g b1 = 0 ->
  thr <= vnorm (zproj b1' g') -> 0 < vnorm g' -> vdot g' b1' = 0 ->
  0 < vnorm (raised (vscal s2 b2) (vscal sg g) (drop h mn (vscal s2 b2) (vscal sg g) (l * sl))) ->
  vscal s1 b1 = vscal s1' b1' -> vscal s2 b2 = vscal s2' b2' -> vscal sg g = vscal sg' g' -> l * sl = l' * sl' ->
  exists v1 v2 w1 w2 p1 p2,
    p_scattering_angles_with_gravity_orthogonal_coords O ds (vvec b1 s1 d_m) (vvec b2 s2 d_m) (vnum l sl d_m dl) (vvec g sg d_mps2)
    = VDict O [("two_theta", v1); ("phi", v2)]%string /\
    p_scattering_angles_with_gravity_orthogonal_coords O ds' (vvec b1' s1' d_m) (vvec b2' s2' d_m) (vnum l' sl' d_m dl) (vvec g' sg' d_mps2)
    = VDict O [("two_theta", w1); ("phi", w2)]%string /\
    is_qty h mn v1 p1 1 d_rad dl /\ is_qty h mn w1 p1 1 d_rad dl /\
    is_qty h mn v2 p2 1 d_rad dl /\ is_qty h mn w2 p2 1 d_rad dl.
Proof using Hh Hm.
  intros Hs1 Hs2 Hsg Hs1' Hs2' Hsg' Hdl Hz Hg Hp Hz' Hg' Hp' Hc E1 E2 Eg El.
  destruct (orthogonal_is_construction h mn Hh Hm ds b1 b2 g s1 s2 sg l sl dl Hs1 Hs2 Hsg Hdl Hz Hg Hp Hc)
    as (v1 & v2 & E & Q1 & Q2).
  assert (Hc' : 0 < vnorm (raised (vscal s2' b2') (vscal sg' g') (drop h mn (vscal s2' b2') (vscal sg' g') (l' * sl'))))
    by (rewrite <- E2, <- Eg, <- El; exact Hc).
  destruct (orthogonal_is_construction h mn Hh Hm ds' b1' b2' g' s1' s2' sg' l' sl' dl Hs1' Hs2' Hsg' Hdl Hz' Hg' Hp' Hc')
    as (w1 & w2 & E' & Q1' & Q2').
  rewrite <- E1, <- E2, <- Eg, <- El in Q1', Q2'.
  exists v1, v2, w1, w2. eexists. eexists.
  split; [exact E|]. split; [exact E'|]. split; [exact Q1|]. split; [exact Q1'|]. split; [exact Q2 | exact Q2'].
Qed.
End B.
