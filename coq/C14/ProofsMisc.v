(* C14/ProofsMisc.v — comments_do_not_leak, ascii_only, loop_shape, author_ids_consistent. *)
From Coq Require Import String Ascii List Bool Arith NArith Lia DecimalString DecimalNat.
From Verif.C14 Require Import Cif11 Writer ProofsChar ProofsLex ProofsDoc.
Import ListNotations.

(* ------------------------------------------------------------------ comments *)
Lemma splitlines_no_nl : forall c, Forall (fun l => mem nl l = false) (splitlines c).
Proof.
  induction c as [|a c IH]; simpl; [constructor|].
  destruct (is_nl a) eqn:E; [constructor; auto|].
  assert (Ha : Ascii.eqb nl a = false) by (rewrite Ascii.eqb_sym; exact E).
  destruct (splitlines c) as [|l ls].
  - constructor; auto. change (mem nl [a]) with (Ascii.eqb nl a || false). now rewrite Ha.
  - inversion IH; subst. constructor; auto.
    change (mem nl (a :: l)) with (Ascii.eqb nl a || mem nl l). now rewrite Ha.
Qed.

Definition comment_line (l : str) : str := "#"%char :: sp :: l ++ [nl].

Lemma join_comment_lines : forall ls, ls <> [] ->
  S "# " ++ join (nl :: S "# ") ls ++ [nl] = flat_map comment_line ls.
Proof.
  induction ls as [|l ls IH]; intros H; [congruence|].
  destruct ls as [|l2 ls].
  - simpl. now rewrite app_nil_r.
  - change (join (nl :: S "# ") (l :: l2 :: ls)) with (l ++ (nl :: S "# ") ++ join (nl :: S "# ") (l2 :: ls)).
    change (flat_map comment_line (l :: l2 :: ls)) with (comment_line l ++ flat_map comment_line (l2 :: ls)).
    rewrite <- IH by discriminate. unfold comment_line. simpl. rewrite <- !app_assoc. reflexivity.
Qed.

(* every comment the writer emits is a sequence of complete lines "# ...\n", each beginning with
   '#' and with no line end before its terminator — for EVERY comment string *)
Theorem comments_do_not_leak : forall c,
  exists ls, write_comment c = flat_map comment_line ls /\ Forall (fun l => mem nl l = false) ls.
Proof.
  intros c. exists (splitlines c). split; [|apply splitlines_no_nl].
  destruct c as [|a c]; [reflexivity|].
  unfold write_comment. apply join_comment_lines. apply splitlines_nonempty. discriminate.
Qed.

(* ... and such lines produce no token (printable comments), whatever follows *)
Theorem comments_yield_no_tokens : forall c ts, forallb pn c = true ->
  lrun (Some (LWs true, ts)) (write_comment c) = Some (LWs true, ts).
Proof. exact lex_write_comment. Qed.

(* ------------------------------------------------------------------ ascii_only *)
Definition is_ascii (c : ascii) : bool := Nat.ltb (nat_of_ascii c) 128.
Definition ascii_str (s : str) : bool := forallb is_ascii s.
Lemma ascii_app : forall a b, ascii_str (a ++ b) = ascii_str a && ascii_str b.
Proof. intros; unfold ascii_str; apply forallb_app. Qed.

Lemma ascii_of_small : forall n, (n < 128)%N -> is_ascii (ascii_of_N n) = true.
Proof.
  intros n H. unfold is_ascii.
  replace (ascii_of_N n) with (ascii_of_nat (N.to_nat n)) by (unfold ascii_of_nat; now rewrite N2Nat.id).
  rewrite nat_ascii_embedding by lia. apply Nat.ltb_lt. lia.
Qed.

Lemma hexdigit_ascii : forall n, (n < 16)%N -> is_ascii (hexdigit n) = true.
Proof.
  intros n H. unfold hexdigit. destruct (N.ltb n 10); apply ascii_of_small; lia.
Qed.

Lemma hexdigits_ascii : forall k n, ascii_str (hexdigits k n) = true.
Proof.
  induction k as [|k IH]; intros n; simpl; auto.
  unfold ascii_str in *. rewrite forallb_app, IH. simpl. rewrite hexdigit_ascii; auto.
  apply N.mod_lt. discriminate.
Qed.

Lemma encode_cp_ascii : forall n, ascii_str (encode_cp n) = true.
Proof.
  intros n. unfold encode_cp.
  destruct (N.ltb n 128) eqn:E.
  - apply N.ltb_lt in E. unfold ascii_str. simpl. now rewrite ascii_of_small.
  - destruct (N.ltb n 256); [|destruct (N.ltb n 65536)];
      match goal with |- ascii_str (?a :: ?b :: ?h) = true =>
        change (ascii_str (a :: b :: h)) with (is_ascii a && (is_ascii b && ascii_str h)) end;
      rewrite hexdigits_ascii; reflexivity.
Qed.

(* non-ASCII text is escaped to ASCII: the result of _encode_non_ascii is ASCII for EVERY input *)
Theorem encode_non_ascii_is_ascii : forall cps, ascii_str (encode_non_ascii cps) = true.
Proof.
  induction cps as [|n cps IH]; auto. unfold encode_non_ascii in *. simpl.
  rewrite ascii_app, IH, (encode_cp_ascii n). reflexivity.
Qed.

(* ... and it is the identity on ASCII *)
Theorem encode_non_ascii_id : forall s : str, ascii_str s = true ->
  encode_non_ascii (map N_of_ascii s) = s.
Proof.
  induction s as [|c s IH]; intros H; auto. simpl in H. apply andb_true_iff in H as [Hc Hs].
  unfold encode_non_ascii in *. simpl. rewrite IH by assumption.
  unfold encode_cp. unfold is_ascii in Hc. apply Nat.ltb_lt in Hc.
  assert (E : N.ltb (N_of_ascii c) 128 = true).
  { apply N.ltb_lt. rewrite <- (nat_N_Z (nat_of_ascii c)) || idtac.
    unfold nat_of_ascii in Hc. lia. }
  rewrite E. simpl. now rewrite ascii_N_embedding.
Qed.

(* the writer adds only ASCII characters *)
Definition ascii_pairs (l : list (str * str)) : bool := forallb (fun kv => ascii_str (fst kv) && ascii_str (snd kv)) l.
Definition ascii_loop (l : loop) : bool :=
  ascii_str (lcomment l) && forallb ascii_str (ltags l) && forallb (forallb ascii_str) (lrows l).
Definition ascii_item (i : bitem) : bool :=
  match i with
  | BChunk c => ascii_str (ccomment c) && ascii_pairs (cpairs c)
  | BLoop l => ascii_loop l
  end.
Definition ascii_block (b : cblock) : bool :=
  ascii_str (bcomment b) && ascii_str (bname b)
  && forallb (fun s => ascii_str (fst (fst s)) && ascii_str (snd (fst s)) && ascii_str (snd s)) (bschema b)
  && forallb ascii_item (bitems b).
Definition ascii_file (comment : str) (blocks : list cblock) : bool :=
  ascii_str comment && forallb ascii_block blocks.

Lemma ascii_flat_map : forall {X} (f : X -> str) l, (forall x, In x l -> ascii_str (f x) = true) ->
  ascii_str (flat_map f l) = true.
Proof.
  induction l as [|x l IH]; intros H; auto. simpl. rewrite ascii_app, H, IH; auto.
  - intros y Hy; apply H; now right.
  - now left.
Qed.

Lemma ascii_join : forall sep l, ascii_str sep = true -> forallb ascii_str l = true -> ascii_str (join sep l) = true.
Proof.
  induction l as [|x l IH]; intros Hs H; auto. simpl in H. apply andb_true_iff in H as [Hx Hl].
  destruct l as [|y l]; [exact Hx|].
  change (join sep (x :: y :: l)) with (x ++ sep ++ join sep (y :: l)).
  rewrite !ascii_app, Hx, Hs, IH; auto.
Qed.

Lemma ascii_multi : forall {X} (w : X -> str) l, (forall x, In x l -> ascii_str (w x) = true) ->
  ascii_str (write_multi w l) = true.
Proof.
  induction l as [|x l IH]; intros H; auto.
  destruct l as [|y l]; [apply H; now left|].
  change (write_multi w (x :: y :: l)) with (w x ++ [nl] ++ write_multi w (y :: l)).
  rewrite !ascii_app, H, IH; auto.
  - intros z Hz; apply H; now right.
  - now left.
Qed.

Lemma splitlines_ascii : forall c, ascii_str c = true -> forallb ascii_str (splitlines c) = true.
Proof.
  induction c as [|a c IH]; intros H; auto. simpl in H. apply andb_true_iff in H as [Ha Hc].
  specialize (IH Hc). simpl. destruct (is_nl a); [simpl; exact IH|].
  destruct (splitlines c) as [|l ls]; simpl in *; [now rewrite Ha|].
  apply andb_true_iff in IH as [H1 H2]. now rewrite Ha, H1, H2.
Qed.

Lemma ascii_comment : forall c, ascii_str c = true -> ascii_str (write_comment c) = true.
Proof.
  intros c H. destruct c as [|a c]; auto. unfold write_comment.
  rewrite !ascii_app. rewrite ascii_join; auto. apply splitlines_ascii; auto.
Qed.

Section A.
Variable R : rules.

Lemma ascii_format : forall s, ascii_str s = true -> ascii_str (format_value R s) = true.
Proof.
  intros s H. unfold format_value. destruct (quotes_for R s); auto;
    unfold ascii_str in *; simpl; rewrite forallb_app, H; reflexivity.
Qed.

Lemma ascii_write_loop : forall l, ascii_loop l = true -> ascii_str (write_loop R l) = true.
Proof.
  intros l H. unfold ascii_loop in H. apply andb_true_iff in H as [H Hrows].
  apply andb_true_iff in H as [Hc Htags].
  unfold write_loop. cbv zeta. rewrite !ascii_app, ascii_comment by assumption. simpl.
  apply andb_true_iff. split.
  - apply ascii_flat_map. intros k Hk. unfold write_tag. rewrite forallb_forall in Htags.
    change (ascii_str ([us] ++ k ++ [nl]) = true). rewrite !ascii_app, (Htags k Hk). reflexivity.
  - apply ascii_flat_map. intros r Hr. unfold write_row. rewrite ascii_app.
    apply in_map_iff in Hr as [r0 [<- Hr0]]. rewrite forallb_forall in Hrows. specialize (Hrows r0 Hr0).
    rewrite ascii_join; auto.
    + unfold loop_sep. destruct (existsb _ _); reflexivity.
    + rewrite forallb_forall in Hrows. apply forallb_forall. intros f Hf.
      apply in_map_iff in Hf as [s [<- Hs]]. apply ascii_format. apply Hrows; auto.
Qed.

Lemma ascii_write_item : forall i, ascii_item i = true -> ascii_str (write_item R i) = true.
Proof.
  intros [c|l] H; [|apply ascii_write_loop; auto].
  simpl in H. apply andb_true_iff in H as [Hc Hp]. simpl. unfold write_chunk.
  rewrite ascii_app, ascii_comment by assumption. simpl.
  apply ascii_flat_map. intros [k v] Hin. unfold ascii_pairs in Hp. rewrite forallb_forall in Hp.
  specialize (Hp _ Hin). simpl in Hp. apply andb_true_iff in Hp as [Hk Hv].
  unfold write_pair. simpl fst; simpl snd.
  destruct (starts_with semi (format_value R v));
    match goal with |- ascii_str (us :: ?x) = true => change (ascii_str ([us] ++ x) = true) end;
    rewrite !ascii_app, Hk, (ascii_format v Hv); reflexivity.
Qed.

Lemma ascii_schema_loop : forall sch l,
  forallb (fun s => ascii_str (fst (fst s)) && ascii_str (snd (fst s)) && ascii_str (snd s)) sch = true ->
  schema_loop sch = Some l -> ascii_loop l = true.
Proof.
  intros sch l H E. destruct sch as [|s0 sch]; [discriminate|]. injection E as <-.
  unfold ascii_loop. simpl lcomment. simpl ltags. simpl lrows.
  apply andb_true_iff. split; [reflexivity|].
  apply forallb_forall. intros r Hr.
  change (In r (map (fun s : schema => [fst (fst s); snd (fst s); snd s]) (s0 :: sch))) in Hr.
  apply in_map_iff in Hr as [s [<- Hs]].
  rewrite forallb_forall in H. specialize (H s Hs).
  apply andb_true_iff in H as [H H3]. apply andb_true_iff in H as [H1 H2].
  simpl. now rewrite H1, H2, H3.
Qed.

(* ascii_only: if the strings handed to the writer are ASCII (values, comments and block names
   always are — they pass _encode_non_ascii; tags must be) the file is ASCII *)
Theorem ascii_only : forall comment blocks, ascii_file comment blocks = true ->
  ascii_str (write_file R comment blocks) = true.
Proof.
  intros comment blocks H. unfold ascii_file in H. apply andb_true_iff in H as [Hc Hb].
  unfold write_file. rewrite !ascii_app, ascii_comment by assumption. simpl.
  apply ascii_multi. intros b Hin. rewrite forallb_forall in Hb. specialize (Hb b Hin).
  unfold ascii_block in Hb. apply andb_true_iff in Hb as [Hb Hitems].
  apply andb_true_iff in Hb as [Hb Hsch]. apply andb_true_iff in Hb as [Hbc Hname].
  unfold write_block. rewrite !ascii_app, ascii_comment by assumption. rewrite Hname. simpl.
  apply andb_true_iff. split.
  - destruct (schema_loop (bschema b)) as [l|] eqn:E; auto.
    rewrite ascii_app, (ascii_write_loop l); auto. apply (ascii_schema_loop (bschema b)); auto.
  - apply ascii_multi. intros i Hi. apply ascii_write_item. rewrite forallb_forall in Hitems. auto.
Qed.
End A.

(* ------------------------------------------------------------------ loop_shape *)
Lemma transpose_length : forall n cols, length (transpose n cols) = n.
Proof. induction n; intros; simpl; auto. Qed.

Lemma transpose_rows : forall n cols, Forall (fun r => length r = length cols) (transpose n cols).
Proof.
  induction n; intros cols; simpl; constructor.
  - now rewrite map_length.
  - specialize (IHn (map (fun c => tl c) cols)). rewrite map_length in IHn. exact IHn.
Qed.

Lemma transpose_nth : forall n cols r, r < n ->
  nth r (transpose n cols) [] = map (fun c => nth r c []) cols.
Proof.
  induction n; intros cols r H; [lia|]. simpl. destruct r as [|r].
  - apply map_ext. intros [|x c]; reflexivity.
  - rewrite IHn by lia. rewrite map_map. apply map_ext. intros [|x c]; simpl; auto. destruct r; reflexivity.
Qed.

(* Loop construction accepts exactly the column sets of one common length; the rows written are
   the transposition: row r = (column_1[r], ..., column_k[r]), all of length k, as many rows as
   the columns are long *)
Theorem loop_shape : forall comment k0 c0 cols l,
  loop_of_columns comment ((k0, c0) :: cols) = Some l ->
  ltags l = k0 :: map fst cols
  /\ length (lrows l) = length c0
  /\ Forall (fun r => length r = Datatypes.S (length cols)) (lrows l)
  /\ (forall r, r < length c0 -> nth r (lrows l) [] = map (fun c => nth r c []) (c0 :: map snd cols))
  /\ Forall (fun c => length c = length c0) (map snd cols).
Proof.
  intros comment k0 c0 cols l H. unfold loop_of_columns in H.
  destruct (forallb _ _) eqn:E; [|discriminate]. injection H as <-. simpl.
  repeat split.
  - apply transpose_length.
  - pose proof (transpose_rows (length c0) (c0 :: map snd cols)) as T. simpl in T.
    rewrite map_length in T. exact T.
  - intros r Hr. apply (transpose_nth (length c0) (c0 :: map snd cols)); auto.
  - simpl in E. apply andb_true_iff in E as [_ E]. rewrite forallb_forall in E.
    apply Forall_forall. intros c Hc. apply in_map_iff in Hc as [[k c'] [<- Hin]].
    specialize (E _ Hin). simpl in *. now apply Nat.eqb_eq.
Qed.

Theorem loop_shape_refusal : forall comment k0 c0 cols,
  loop_of_columns comment ((k0, c0) :: cols) = None <->
  exists kc, In kc cols /\ length (snd kc) <> length c0.
Proof.
  intros comment k0 c0 cols. unfold loop_of_columns. simpl. rewrite Nat.eqb_refl. simpl.
  destruct (forallb _ cols) eqn:E; split; intros H; try discriminate; auto.
  - destruct H as [kc [Hin Hne]]. rewrite forallb_forall in E. specialize (E kc Hin).
    apply Nat.eqb_eq in E. congruence.
  - clear H. induction cols as [|kc cols IH]; [discriminate|]. simpl in E.
    destruct (Nat.eqb (length (snd kc)) (length c0)) eqn:E1.
    + simpl in E. destruct (IH E) as [x [Hx Hn]]. exists x; split; auto. now right.
    + exists kc; split; [now left|]. now apply Nat.eqb_neq.
Qed.

Example ex_loop_shape : exists l, loop_of_columns [] [(S "a", [S "1"; S "2"]); (S "b", [S "x"; S "y"])] = Some l
  /\ lrows l = [[S "1"; S "x"]; [S "2"; S "y"]].
Proof. eexists; split; reflexivity. Qed.

(* ------------------------------------------------------------------ author ids *)
Lemma nat_str_inj : forall n m, nat_str n = nat_str m -> n = m.
Proof.
  intros n m H. unfold nat_str, S in H.
  apply (f_equal string_of_list_ascii) in H. rewrite !string_of_list_ascii_of_string in H.
  apply (f_equal NilEmpty.uint_of_string) in H. rewrite !NilEmpty.usu in H. injection H as H.
  apply (f_equal Nat.of_uint) in H. now rewrite !Unsigned.of_to in H.
Qed.

Lemma ids_from_spec : forall n next i, In i (ids_from next n) <-> next <= i < next + n.
Proof.
  induction n as [|n IH]; intros next i; simpl; [lia|].
  rewrite IH. lia.
Qed.
Lemma ids_from_nodup : forall n next, NoDup (ids_from next n).
Proof.
  induction n as [|n IH]; intros next; simpl; constructor; auto.
  rewrite ids_from_spec. lia.
Qed.
Lemma ids_from_length : forall n next, length (ids_from next n) = n.
Proof. induction n; intros; simpl; auto. Qed.

Lemma str_eqb_refl : forall a, str_eqb a a = true.
Proof. induction a as [|x a IH]; simpl; auto. now rewrite Ascii.eqb_refl. Qed.
Lemma str_eqb_app : forall a b c, str_eqb (a ++ b) (a ++ c) = str_eqb b c.
Proof. induction a as [|x a IH]; intros; simpl; auto. rewrite Ascii.eqb_refl. simpl. apply IH. Qed.

(* the id column of one category *)
Definition id_column (cat : str) (fields : list (str * list str)) : list str := lookup (cat ++ S ".id") fields.

Lemma lookup_app_skip : forall k f1 f2, forallb (fun kc => negb (str_eqb k (fst kc))) f1 = true ->
  lookup k (f1 ++ f2) = lookup k f2.
Proof.
  induction f1 as [|[k' v] f1 IH]; intros f2 H; auto. simpl in *.
  apply andb_true_iff in H as [H1 H2]. apply negb_true_iff in H1. rewrite H1. auto.
Qed.

Lemma serialize_authors_ids : forall authors cat next fields roles n',
  serialize_authors authors cat next = (fields, roles, n') ->
  n' = next + length authors
  /\ (forall i r, In (i, r) roles -> next <= i < n' /\ In (nat_str i) (id_column cat fields))
  /\ (exists ids, id_column cat fields = map nat_str ids /\ NoDup ids /\ forall i, In i ids -> next <= i < n')
  /\ NoDup (map fst roles).
Proof.
  intros authors cat next fields roles n' H. unfold serialize_authors in H.
  injection H as Hf Hr Hn. subst n'. split; auto.
  set (ids := ids_from next (length authors)) in *.
  set (rl := combine ids (map p_role authors)) in *.
  assert (Hidcol : id_column cat fields =
                   if existsb (fun r => nonempty (snd r)) rl then map nat_str ids else []).
  { subst fields. unfold id_column.
    repeat (rewrite lookup_app_skip;
      [|match goal with |- context [existsb nonempty ?v] => destruct (existsb nonempty v) end;
        simpl; auto; rewrite str_eqb_app; reflexivity]).
    destruct (existsb _ rl); simpl; auto. now rewrite str_eqb_refl. }
  split; [|split].
  - intros i r Hin. subst roles. apply filter_In in Hin as [Hin Hne].
    pose proof (in_combine_l _ _ _ _ Hin) as Hi. unfold ids in Hi. apply ids_from_spec in Hi.
    split; auto. rewrite Hidcol.
    assert (E : existsb (fun r => nonempty (snd r)) rl = true).
    { apply existsb_exists. exists (i, r). split; auto. }
    rewrite E. apply in_map. apply ids_from_spec. exact Hi.
  - rewrite Hidcol. destruct (existsb _ rl).
    + exists ids. split; auto. split; [apply ids_from_nodup|]. intros i Hi. now apply ids_from_spec in Hi.
    + exists []. split; auto. split; [constructor|]. intros i [].
  - subst roles.
    assert (Hnd : NoDup (map fst rl)).
    { assert (Hpre : forall (l1 : list nat) (l2 : list str), NoDup l1 -> NoDup (map fst (combine l1 l2))).
      { induction l1 as [|a l1 IH]; intros l2 Hd; simpl; [constructor|].
        destruct l2 as [|b l2]; simpl; [constructor|]. inversion Hd; subst. constructor; auto.
        intro Hin. apply in_map_iff in Hin as [[x y] [Hx Hxy]]. simpl in Hx. subst x.
        apply in_combine_l in Hxy. contradiction. }
      apply Hpre. apply ids_from_nodup. }
    clear - Hnd. induction rl as [|[i r] rl IH]; simpl; [constructor|].
    inversion Hnd; subst. destruct (nonempty r); simpl; auto.
    constructor; auto. intro Hin. apply H1. apply in_map_iff in Hin as [[x y] [Hx Hxy]].
    apply filter_In in Hxy as [Hxy _]. apply in_map_iff. exists (x, y). auto.
Qed.

Lemma nodup_map_nat_str : forall ids, NoDup ids -> NoDup (map nat_str ids).
Proof.
  induction ids as [|i ids IH]; intros H; simpl; [constructor|]. inversion H; subst.
  constructor; auto. intro Hin. apply in_map_iff in Hin as [j [Hj Hin]].
  apply nat_str_inj in Hj. subst. contradiction.
Qed.

Definition ser_opt (l : list person) (cat : str) (next : nat) :=
  match l with [] => ([], [], next) | _ :: _ => serialize_authors l cat next end.

Lemma ser_opt_ids : forall authors cat next fields roles n',
  ser_opt authors cat next = (fields, roles, n') ->
  n' = next + length authors
  /\ (forall i r, In (i, r) roles -> next <= i < n' /\ In (nat_str i) (id_column cat fields))
  /\ (exists ids, id_column cat fields = map nat_str ids /\ NoDup ids /\ forall i, In i ids -> next <= i < n')
  /\ NoDup (map fst roles).
Proof.
  intros authors cat next fields roles n' H. destruct authors as [|a l].
  - simpl in H. injection H as <- <- <-. simpl. split; [lia|]. split; [intros i r []|].
    split; [|constructor]. exists []. split; auto. split; [constructor|intros i []].
  - apply serialize_authors_ids. exact H.
Qed.

Lemma author_fields_eq : forall authors next,
  author_fields authors next =
  let '(f1, r1, n1) := ser_opt (filter p_corresponding authors) (S "audit_contact_author") next in
  let '(f2, r2, n2) := ser_opt (filter (fun a => negb (p_corresponding a)) authors) (S "audit_author") n1 in
  (f1, f2, r1 ++ r2, n2).
Proof. reflexivity. Qed.

(* author_ids_consistent: within one saved file (one run of _assemble_authors with the builder's id
   generator in ANY state [next]) the ids written for contact authors and for regular authors are
   pairwise distinct, every role id is the id of exactly one author, and role ids are distinct *)
Theorem author_ids_consistent : forall authors next f1 f2 roles n2,
  author_fields authors next = (f1, f2, roles, n2) ->
  let author_ids := id_column (S "audit_contact_author") f1 ++ id_column (S "audit_author") f2 in
  NoDup author_ids
  /\ (forall i r, In (i, r) roles -> count_occ (list_eq_dec ascii_dec) author_ids (nat_str i) = 1)
  /\ NoDup (map (fun ir => nat_str (fst ir)) roles)
  /\ n2 = next + length authors.
Proof.
  intros authors next f1 f2 roles n2 H. rewrite author_fields_eq in H.
  assert (Hlen : length (filter p_corresponding authors)
                 + length (filter (fun a => negb (p_corresponding a)) authors) = length authors).
  { clear. induction authors as [|a l IH]; simpl; auto.
    destruct (p_corresponding a); simpl; lia. }
  destruct (ser_opt (filter p_corresponding authors) (S "audit_contact_author") next) as [[fa ra] na] eqn:E1.
  destruct (ser_opt_ids _ _ _ _ _ _ E1) as (Hna & Hra & (ids1 & Hid1 & Hnd1 & Hrng1) & Hndr1).
  destruct (ser_opt (filter (fun a => negb (p_corresponding a)) authors) (S "audit_author") na)
    as [[fb rb] nb] eqn:E2.
  destruct (ser_opt_ids _ _ _ _ _ _ E2) as (Hnb & Hrb & (ids2 & Hid2 & Hnd2 & Hrng2) & Hndr2).
  injection H as <- <- <- <-. cbv zeta. rewrite Hid1, Hid2.
  assert (Hnd : NoDup (map nat_str ids1 ++ map nat_str ids2)).
  { rewrite <- map_app. apply nodup_map_nat_str.
    clear - Hnd1 Hnd2 Hrng1 Hrng2 Hna.
    induction ids1 as [|i ids1 IH]; simpl; auto. inversion Hnd1; subst. constructor.
    - intro Hin. apply in_app_or in Hin as [Hin|Hin]; [contradiction|].
      apply Hrng2 in Hin. specialize (Hrng1 i (or_introl eq_refl)). lia.
    - apply IH; auto. intros j Hj. apply Hrng1. now right. }
  split; auto. split; [|split].
  - intros i r Hin. apply NoDup_count_occ'; auto.
    apply in_app_or in Hin as [Hin|Hin].
    + apply in_or_app. left. rewrite <- Hid1. now apply (Hra i r).
    + apply in_or_app. right. rewrite <- Hid2. now apply (Hrb i r).
  - rewrite <- (map_map fst nat_str). apply nodup_map_nat_str. rewrite map_app.
    clear - Hndr1 Hndr2 Hra Hrb Hna.
    induction ra as [|[i r] ra IH]; simpl; auto. inversion Hndr1; subst. constructor.
    + intro Hin. apply in_app_or in Hin as [Hin|Hin]; [contradiction|].
      apply in_map_iff in Hin as [[j r'] [Hj Hin]]. simpl in Hj. subst j.
      destruct (Hrb i r' Hin) as [Hr _]. destruct (Hra i r (or_introl eq_refl)) as [Hl _]. lia.
    + apply IH; auto. intros j r' Hj. apply (Hra j r'). now right.
  - lia.
Qed.

Example ex_author_ids :
  let a := mkperson (S "A") [] [] [] (S "x") true in
  let b := mkperson (S "B") [] [] [] [] false in
  let c := mkperson (S "C") [] [] [] (S "y") false in
  let '(f1, f2, roles, n2) := author_fields [a; b; c] 5 in
  id_column (S "audit_contact_author") f1 = [S "5"] /\ id_column (S "audit_author") f2 = [S "6"; S "7"]
  /\ roles = [(5, S "x"); (7, S "y")] /\ n2 = 8.
Proof. vm_compute. repeat split; reflexivity. Qed.
