(* C14/Cif11.v — an INDEPENDENT lexer + parser for CIF 1.1 data files, written from the IUCr
   "CIF 1.1 syntax specification" (formal grammar, productions quoted below), not from the writer.
   Definitions only (plus a few sanity computations); nothing here mentions scippneutron.

   Characters.  <AnyPrintChar> = ASCII 32..126 and HT; <NonBlankChar> = ASCII 33..126;
   <eol> = LF (CR is rejected: the files we look at are written with "\n" only);
   <WhiteSpace> ::= { SP | HT | eol | TokenizedComments }+ ;  <Comments> ::= { '#' {AnyPrintChar}* eol }+
   Tokens are separated by white space.
     <Tag>                ::= '_' {NonBlankChar}+
     <DataBlockHeading>   ::= DATA_ {NonBlankChar}+                      (DATA_ case-insensitive)
     <LoopHeader>         ::= LOOP_ { WhiteSpace Tag }+
     <UnquotedString>     ::= OrdinaryChar {NonBlankChar}*   at the beginning of a line,
                              {OrdinaryChar | ';'} {NonBlankChar}*  elsewhere
                              (OrdinaryChar excludes  " # $ ' _ ; [ ] ), and it must not be / begin
                              with a reserved word  data_ loop_ save_ global_ stop_  (case-insensitive)
     <SingleQuotedString> ::= ' {AnyPrintChar}* ' WhiteSpace   — the closing quote is the first quote
                              that is followed by white space (or the end of the file); same for "
     <SemiColonTextField> ::= eol ';' {AnyPrintChar | eol}* eol ';'   — opens with ';' as FIRST
                              character of a line, closes at the next line whose first character is ';'
   Structure.
     <CIF>       ::= Comments? WhiteSpace? { DataBlock { WhiteSpace DataBlock }* WhiteSpace? }?
     <DataBlock> ::= DataBlockHeading { WhiteSpace DataItems }*        (save frames: dictionaries only — rejected)
     <DataItems> ::= Tag WhiteSpace Value | LoopHeader LoopBody ;  <LoopBody> ::= Value { WhiteSpace Value }*
   A loop must have at least one tag and at least one value and the number of values must be a
   multiple of the number of tags.

   Not checked (semantic / dictionary level): uniqueness of block codes and of tags inside a block,
   the 2048-character line limit and the 75-character limit for block codes and tags. *)
From Coq Require Import String Ascii List Bool Arith.
Import ListNotations.

Definition str := list ascii.
Definition S (s : string) : str := list_ascii_of_string s.

Definition nl : ascii := "010"%char.
Definition tab : ascii := "009"%char.
Definition sp : ascii := " "%char.

Definition is_nl (c : ascii) : bool := Ascii.eqb c nl.
Definition is_blank (c : ascii) : bool := Ascii.eqb c sp || Ascii.eqb c tab.
Definition is_ws (c : ascii) : bool := is_blank c || is_nl c.
(* <AnyPrintChar> *)
Definition printable (c : ascii) : bool :=
  let n := nat_of_ascii c in (Nat.leb 32 n && Nat.leb n 126) || Ascii.eqb c tab.
(* <NonBlankChar> *)
Definition nonblank (c : ascii) : bool :=
  let n := nat_of_ascii c in Nat.leb 33 n && Nat.leb n 126.

Definition to_lower (c : ascii) : ascii :=
  let n := nat_of_ascii c in
  if Nat.leb 65 n && Nat.leb n 90 then ascii_of_nat (n + 32) else c.

Fixpoint prefixb (p s : str) : bool :=
  match p, s with
  | [], _ => true
  | a :: p', b :: s' => Ascii.eqb a b && prefixb p' s'
  | _ :: _, [] => false
  end.

Inductive vkind := KBare | KSingle | KDouble | KText.
Definition value := (vkind * str)%type.

Inductive token :=
| TTag (name : str)          (* without the leading underscore *)
| TData (code : str)         (* block code, without data_ *)
| TLoop
| TVal (v : value).

(* what a white-space delimited word that does not start with a quote / '#' / '$' / '[' / ']'
   (nor with ';' at the beginning of a line) is *)
Definition classify (w : str) : option token :=
  match w with
  | [] => None
  | c :: rest =>
      if Ascii.eqb c "_" then (match rest with [] => None | _ => Some (TTag rest) end)
      else
        let l := map to_lower w in
        if prefixb (S "data_") l then
          (match skipn 5 w with [] => None | code => Some (TData code) end)
        else if prefixb (S "loop_") l then
          (match skipn 5 w with [] => Some TLoop | _ => None end)
        else if prefixb (S "save_") l || prefixb (S "global_") l || prefixb (S "stop_") l then None
        else Some (TVal (KBare, w))
  end.

Inductive lmode :=
| LWs (bol : bool)                          (* between tokens; bol: at the first column of a line *)
| LComment
| LBare (acc : str)                         (* reversed *)
| LQuote (q : ascii) (acc : str) (pend : bool)   (* pend: the previous character was q (may close) *)
| LText (acc : str) (bol : bool)
| LClosed.                                  (* a text field was just closed: white space must follow *)

Definition lstate := (lmode * list token)%type.   (* tokens reversed *)

Definition qkind (q : ascii) : vkind := if Ascii.eqb q "'" then KSingle else KDouble.

Definition lstep (st : lstate) (c : ascii) : option lstate :=
  let '(m, ts) := st in
  if negb (printable c || is_nl c) then None else
  match m with
  | LWs bol =>
      if is_nl c then Some (LWs true, ts)
      else if is_blank c then Some (LWs false, ts)
      else if Ascii.eqb c "#" then Some (LComment, ts)
      else if Ascii.eqb c ";" && bol then Some (LText [] false, ts)
      else if Ascii.eqb c "'" || Ascii.eqb c """" then Some (LQuote c [] false, ts)
      else if Ascii.eqb c "$" || Ascii.eqb c "[" || Ascii.eqb c "]" then None
      else Some (LBare [c], ts)
  | LComment => if is_nl c then Some (LWs true, ts) else Some (LComment, ts)
  | LBare acc =>
      if is_ws c then
        match classify (rev acc) with
        | Some t => Some (LWs (is_nl c), t :: ts)
        | None => None
        end
      else Some (LBare (c :: acc), ts)
  | LQuote q acc pend =>
      if pend then
        if is_ws c then Some (LWs (is_nl c), TVal (qkind q, rev acc) :: ts)
        else if Ascii.eqb c q then Some (LQuote q (q :: acc) true, ts)
        else Some (LQuote q (c :: q :: acc) false, ts)
      else if is_nl c then None
      else if Ascii.eqb c q then Some (LQuote q acc true, ts)
      else Some (LQuote q (c :: acc) false, ts)
  | LText acc bol =>
      if bol && Ascii.eqb c ";" then Some (LClosed, TVal (KText, rev (tl acc)) :: ts)
      else Some (LText (c :: acc) (is_nl c), ts)
  | LClosed => if is_ws c then Some (LWs (is_nl c), ts) else None
  end.

Fixpoint lrun (st : option lstate) (s : str) : option lstate :=
  match s with
  | [] => st
  | c :: s' => match st with Some x => lrun (lstep x c) s' | None => None end
  end.

Definition lfinish (st : lstate) : option (list token) :=
  let '(m, ts) := st in
  match m with
  | LWs _ | LComment | LClosed => Some (rev ts)
  | LBare acc => match classify (rev acc) with Some t => Some (rev (t :: ts)) | None => None end
  | LQuote q acc true => Some (rev (TVal (qkind q, rev acc) :: ts))
  | LQuote _ _ false => None
  | LText _ _ => None
  end.

Definition linit : lstate := (LWs true, []).

Definition lex (s : str) : option (list token) :=
  match lrun (Some linit) s with Some st => lfinish st | None => None end.

(* ------------------------------------------------------------------ structure *)
Inductive item :=
| IPair (tag : str) (v : value)
| ILoop (tags : list str) (rows : list (list value)).
Definition block := (str * list item)%type.

(* what the parser is in the middle of *)
Inductive pend :=
| PNone
| PTag (t : str)
| PLoopTags (tags : list str)                                   (* reversed; possibly empty *)
| PLoopVals (tags : list str) (rows : list (list value)) (cur : list value).   (* tags in order; rows, cur reversed *)

Record pstate := mkp { pdone : list block; pcur : option (str * list item); ppend : pend }.

(* close a loop body: the current row must be complete and there must be at least one row *)
Definition close_loop (tags : list str) (rows : list (list value)) (cur : list value) : option item :=
  match cur, rows with
  | [], _ :: _ => Some (ILoop tags (rev rows))
  | _, _ => None
  end.

Definition add_item (cur : option (str * list item)) (i : item) : option (str * list item) :=
  match cur with Some (n, its) => Some (n, i :: its) | None => None end.

(* finish whatever is pending; result: the current block with the item added *)
Definition flush (st : pstate) : option pstate :=
  match ppend st with
  | PNone => Some st
  | PTag _ => None
  | PLoopTags _ => None
  | PLoopVals tags rows cur =>
      match close_loop tags rows cur with
      | Some i => match add_item (pcur st) i with
                  | Some c => Some (mkp (pdone st) (Some c) PNone)
                  | None => None
                  end
      | None => None
      end
  end.

Definition close_block (st : pstate) : list block :=
  match pcur st with Some (n, its) => (n, rev its) :: pdone st | None => pdone st end.

Definition push_val (tags : list str) (rows : list (list value)) (cur : list value) (v : value) : pend :=
  let cur' := v :: cur in
  if Nat.eqb (length cur') (length tags) then PLoopVals tags (rev cur' :: rows) []
  else PLoopVals tags rows cur'.

Definition pstep (st : pstate) (t : token) : option pstate :=
  match t with
  | TData code =>
      match flush st with
      | Some st' => Some (mkp (close_block st') (Some (code, [])) PNone)
      | None => None
      end
  | TTag name =>
      match pcur st with None => None | Some _ =>
      match ppend st with
      | PLoopTags tags => Some (mkp (pdone st) (pcur st) (PLoopTags (name :: tags)))
      | _ => match flush st with
             | Some st' => Some (mkp (pdone st') (pcur st') (PTag name))
             | None => None
             end
      end end
  | TLoop =>
      match pcur st with None => None | Some _ =>
      match flush st with
      | Some st' => Some (mkp (pdone st') (pcur st') (PLoopTags []))
      | None => None
      end end
  | TVal v =>
      match ppend st with
      | PNone => None
      | PTag name =>
          match add_item (pcur st) (IPair name v) with
          | Some c => Some (mkp (pdone st) (Some c) PNone)
          | None => None
          end
      | PLoopTags [] => None
      | PLoopTags tags => Some (mkp (pdone st) (pcur st) (push_val (rev tags) [] [] v))
      | PLoopVals tags rows cur => Some (mkp (pdone st) (pcur st) (push_val tags rows cur v))
      end
  end.

Fixpoint prun (st : option pstate) (ts : list token) : option pstate :=
  match ts with
  | [] => st
  | t :: ts' => match st with Some x => prun (pstep x t) ts' | None => None end
  end.

Definition pinit : pstate := mkp [] None PNone.

Definition pfinish (st : pstate) : option (list block) :=
  match flush st with
  | Some st' => Some (rev (close_block st'))
  | None => None
  end.

Definition parse_tokens (ts : list token) : option (list block) :=
  match prun (Some pinit) ts with Some st => pfinish st | None => None end.

Definition parse (s : str) : option (list block) :=
  match lex s with Some ts => parse_tokens ts | None => None end.

(* ------------------------------------------------------------------ sanity computations *)
Example ex_parse_1 :
  parse (S "#\#CIF_1.1
# a comment
data_x

_a.b  'it''s' # trailing comment
_c ""q"" _d
;text
 more
;
loop_ _e _f 1 2(3)
 u ;v
")
  = Some [(S "x", [IPair (S "a.b") (KSingle, S "it''s"); IPair (S "c") (KDouble, S "q");
                   IPair (S "d") (KText, S "text
 more");
                   ILoop [S "e"; S "f"] [[(KBare, S "1"); (KBare, S "2(3)")]; [(KBare, S "u"); (KBare, S ";v")]]])].
Proof. vm_compute. reflexivity. Qed.

Example ex_reject_reserved : parse (S "data_x _a loop_
") = None.
Proof. vm_compute. reflexivity. Qed.
Example ex_reject_ragged : parse (S "data_x loop_ _a _b 1 2 3
") = None.
Proof. vm_compute. reflexivity. Qed.
Example ex_reject_bracket : parse (S "data_x _a [b]
") = None.
Proof. vm_compute. reflexivity. Qed.
Example ex_reject_empty_code : parse (S "data_
") = None.
Proof. vm_compute. reflexivity. Qed.
Example ex_quote_inside : parse (S "data_x _a 'a'b c' ")
  = Some [(S "x", [IPair (S "a") (KSingle, S "a'b c")])].
Proof. vm_compute. reflexivity. Qed.
