(* C14/Writer.v — hand-written executable model of scippneutron/io/cif.py (the writer).
   Definitions only.  Text is [str = list ascii]; Python str values are lists of code points
   ([list N]) until they pass [encode_non_ascii].

   Modelled functions (names follow the source):
     _encode_non_ascii      encode_non_ascii          (s.encode('ascii','backslashreplace'))
     _quotes_for_string_value  a field of [rules]: [quotes_current] is the rule of the tree the
                            design was written against, [quotes_fixed] the proposed repair
     _format_value          format_value               (string part: the argument is str(value); for numbers
                            and datetimes that string is an ORACLE token, see [numeric_token])
     _write_comment         write_comment / splitlines (str.splitlines for "\n" only: valid when the comment
                            has no other line-boundary characters, i.e. printable text)
     Chunk.write            write_chunk
     Loop.write             write_loop                 (table layout / flat layout when some item contains ';')
     Loop.__setitem__ + strict zip   loop_of_columns
     Block.write            write_block                (schema loop: rows in the iteration order of a Python
                            set — that order is an oracle argument [bschema])
     _write_multi, _write_file_heading, save_cif        write_multi, write_file
     CIF._assemble_authors, _serialize_authors, _serialize_roles   assemble_authors ... (id generator = nat state)
     _add_audit, CIF.with_beamline, _make_reduced_powder_loop, _make_powder_calibration_loop   see section Builder *)
From Coq Require Import String Ascii List Bool Arith NArith ZArith DecimalString.
From Verif.C14 Require Import Cif11.
Import ListNotations.

Definition mem (c : ascii) (s : str) : bool := existsb (Ascii.eqb c) s.
Definition squote : ascii := "'"%char.
Definition dquote : ascii := """"%char.
Definition semi : ascii := ";"%char.
Definition us : ascii := "_"%char.

Fixpoint str_eqb (a b : str) : bool :=
  match a, b with
  | [], [] => true
  | x :: a', y :: b' => Ascii.eqb x y && str_eqb a' b'
  | _, _ => false
  end.

Fixpoint join (sep : str) (l : list str) : str :=
  match l with
  | [] => []
  | [x] => x
  | x :: rest => x ++ sep ++ join sep rest
  end.

(* ------------------------------------------------------------------ _encode_non_ascii *)
Definition hexdigit (n : N) : ascii :=
  if N.ltb n 10 then ascii_of_N (48 + n) else ascii_of_N (87 + n).     (* lower-case a-f *)
Fixpoint hexdigits (k : nat) (n : N) : str :=       (* k digits, most significant first *)
  match k with
  | O => []
  | Datatypes.S k' => hexdigits k' (N.div n 16) ++ [hexdigit (N.modulo n 16)]
  end.
Definition encode_cp (n : N) : str :=
  if N.ltb n 128 then [ascii_of_N n]
  else if N.ltb n 256 then "\"%char :: "x"%char :: hexdigits 2 n
  else if N.ltb n 65536 then "\"%char :: "u"%char :: hexdigits 4 n
  else "\"%char :: "U"%char :: hexdigits 8 n.
Definition encode_non_ascii (s : list N) : str := flat_map encode_cp s.
(* code points of an ASCII literal *)
Definition A (s : string) : list N := map N_of_ascii (list_ascii_of_string s).

(* ------------------------------------------------------------------ quoting rules *)
Inductive qk := QNone | QSingle | QDouble | QText.
Record rules := mkrules { quotes_for : str -> qk; refuses : str -> bool }.

(* the rule as found in the tree (cif.py:_quotes_for_string_value) *)
Definition quotes_current (v : str) : qk :=
  if mem nl v then QText
  else if mem squote v then (if mem dquote v then QText else QDouble)
  else if mem dquote v then QSingle
  else if mem sp v then QSingle
  else match v with [] => QSingle | _ => QNone end.

Definition reserved_prefix (v : str) : bool :=
  let l := map to_lower v in
  prefixb (S "data_") l || prefixb (S "loop_") l || prefixb (S "save_") l
  || prefixb (S "global_") l || prefixb (S "stop_") l.
Definition special_lead (c : ascii) : bool :=
  Ascii.eqb c us || Ascii.eqb c "#" || Ascii.eqb c "$" || Ascii.eqb c "[" || Ascii.eqb c "]" || Ascii.eqb c semi.

(* the repaired rule (notes/fixes/C14_quoting.patch): additionally quote values with a TAB, values that
   begin with one of  _ # $ [ ] ;  and values that begin with a reserved word *)
Definition quotes_fixed (v : str) : qk :=
  if mem nl v then QText
  else if mem squote v then (if mem dquote v then QText else QDouble)
  else if mem dquote v then QSingle
  else if mem sp v || mem tab v then QSingle
  else match v with
       | [] => QSingle
       | c :: _ => if special_lead c || reserved_prefix v then QSingle else QNone
       end.

(* "\n;" occurs in s *)
Fixpoint has_nl_semi (s : str) : bool :=
  match s with
  | a :: ((b :: _) as s') => (is_nl a && Ascii.eqb b semi) || has_nl_semi s'
  | _ => false
  end.

Definition Rcurrent : rules := mkrules quotes_current (fun _ => false).
(* the repaired writer raises ValueError for a text field with a line that begins with ';' *)
Definition Rfixed : rules := mkrules quotes_fixed has_nl_semi.

Section W.
Variable R : rules.

Definition format_value (s : str) : str :=
  match quotes_for R s with
  | QText => semi :: sp :: s ++ [nl; semi]
  | QSingle => squote :: s ++ [squote]
  | QDouble => dquote :: s ++ [dquote]
  | QNone => s
  end.
Definition value_refused (s : str) : bool :=
  match quotes_for R s with QText => refuses R s | _ => false end.

(* ------------------------------------------------------------------ _write_comment *)
Fixpoint splitlines (s : str) : list str :=
  match s with
  | [] => []
  | c :: s' =>
      if is_nl c then [] :: splitlines s'
      else match splitlines s' with
           | [] => [[c]]
           | l :: ls => (c :: l) :: ls
           end
  end.
Definition write_comment (c : str) : str :=
  match c with
  | [] => []
  | _ => S "# " ++ join (nl :: S "# ") (splitlines c) ++ [nl]
  end.

(* ------------------------------------------------------------------ Chunk.write *)
Record chunk := mkchunk { ccomment : str; cpairs : list (str * str) }.
Definition starts_with (c : ascii) (s : str) : bool :=
  match s with a :: _ => Ascii.eqb a c | [] => false end.
Definition write_pair (kv : str * str) : str :=
  let v := format_value (snd kv) in
  if starts_with semi v then us :: fst kv ++ [nl] ++ v ++ [nl]
  else us :: fst kv ++ [sp] ++ v ++ [nl].
Definition write_chunk (c : chunk) : str :=
  write_comment (ccomment c) ++ flat_map write_pair (cpairs c).

(* ------------------------------------------------------------------ Loop.write *)
Record loop := mkloop { lcomment : str; ltags : list str; lrows : list (list str) }.
Definition write_tag (k : str) : str := us :: k ++ [nl].
Definition loop_sep (frows : list (list str)) : ascii :=
  if existsb (existsb (mem semi)) frows then nl else sp.
Definition write_row (sep : ascii) (row : list str) : str := join [sep] row ++ [nl].
Definition write_loop (l : loop) : str :=
  let frows := map (map format_value) (lrows l) in
  write_comment (lcomment l) ++ S "loop_" ++ [nl] ++ flat_map write_tag (ltags l)
  ++ flat_map (write_row (loop_sep frows)) frows.

(* Loop.__init__/__setitem__ (all columns the same length, else DimensionError) and the
   row iteration zip of the columns (strict) *)
Fixpoint transpose (n : nat) (cols : list (list str)) : list (list str) :=
  match n with
  | O => []
  | Datatypes.S n' => map (fun c => hd [] c) cols :: transpose n' (map (fun c => tl c) cols)
  end.
Definition loop_of_columns (comment : str) (cols : list (str * list str)) : option loop :=
  match cols with
  | [] => Some (mkloop comment [] [])
  | (_, c0) :: _ =>
      if forallb (fun kc => Nat.eqb (length (snd kc)) (length c0)) cols
      then Some (mkloop comment (map fst cols) (transpose (length c0) (map snd cols)))
      else None
  end.

(* ------------------------------------------------------------------ Block.write, save_cif *)
Inductive bitem := BChunk (c : chunk) | BLoop (l : loop).
Definition write_item (i : bitem) : str :=
  match i with BChunk c => write_chunk c | BLoop l => write_loop l end.
Fixpoint write_multi {X} (w : X -> str) (l : list X) : str :=
  match l with
  | [] => []
  | [x] => w x
  | x :: rest => w x ++ [nl] ++ write_multi w rest
  end.

Definition schema := (str * str * str)%type.      (* name, version, location *)
Definition schema_loop (sch : list schema) : option loop :=
  match sch with
  | [] => None
  | _ => Some (mkloop [] [S "audit_conform.dict_name"; S "audit_conform.dict_version"; S "audit_conform.dict_location"]
                      (map (fun s => [fst (fst s); snd (fst s); snd s]) sch))
  end.
Record cblock := mkblock { bcomment : str; bname : str; bschema : list schema; bitems : list bitem }.
Definition write_block (b : cblock) : str :=
  write_comment (bcomment b) ++ S "data_" ++ bname b ++ [nl; nl]
  ++ match schema_loop (bschema b) with Some l => write_loop l ++ [nl] | None => [] end
  ++ write_multi write_item (bitems b).
Definition heading : str := S "#\#CIF_1.1" ++ [nl].
Definition write_file (comment : str) (blocks : list cblock) : str :=
  heading ++ write_comment comment ++ write_multi write_block blocks.

Definition item_refused (i : bitem) : bool :=
  match i with
  | BChunk c => existsb (fun kv => value_refused (snd kv)) (cpairs c)
  | BLoop l => existsb (existsb value_refused) (lrows l)
  end.
Definition block_refused (b : cblock) : bool :=
  existsb item_refused (bitems b)
  || match schema_loop (bschema b) with Some l => item_refused (BLoop l) | None => false end.
End W.

(* ------------------------------------------------------------------ what was supplied *)
(* supplied content in the vocabulary of the parser, values without a kind *)
Inductive sitem := SPair (tag v : str) | SLoop (tags : list str) (rows : list (list str)).
Definition sblock := (str * list sitem)%type.
Definition content_of_item (i : bitem) : list sitem :=
  match i with
  | BChunk c => map (fun kv => SPair (fst kv) (snd kv)) (cpairs c)
  | BLoop l => [SLoop (ltags l) (lrows l)]
  end.
Definition content_of_block (b : cblock) : sblock :=
  (bname b,
   match schema_loop (bschema b) with Some l => [SLoop (ltags l) (lrows l)] | None => [] end
   ++ flat_map content_of_item (bitems b)).
Definition content (blocks : list cblock) : list sblock := map content_of_block blocks.

(* blanks at both ends are not significant ("recovered up to surrounding blanks") *)
Fixpoint ltrim (s : str) : str :=
  match s with c :: s' => if is_ws c then ltrim s' else s | [] => [] end.
Definition trim (s : str) : str := rev (ltrim (rev (ltrim s))).
Definition norm_item (i : item) : sitem :=
  match i with
  | IPair t v => SPair t (trim (snd v))
  | ILoop tags rows => SLoop tags (map (map (fun v => trim (snd v))) rows)
  end.
Definition norm_blocks (bs : list block) : list sblock :=
  map (fun b => (fst b, map norm_item (snd b))) bs.
Definition trim_sitem (i : sitem) : sitem :=
  match i with
  | SPair t v => SPair t (trim v)
  | SLoop tags rows => SLoop tags (map (map trim) rows)
  end.
Definition trim_content (bs : list sblock) : list sblock :=
  map (fun b => (fst b, map trim_sitem (snd b))) bs.

(* ------------------------------------------------------------------ oracle tokens *)
(* str(float), str(int), f'{x:c}' : characters 0-9 + - . e E ( ), non-empty *)
Definition numeric_char (c : ascii) : bool :=
  let n := nat_of_ascii c in
  (Nat.leb 48 n && Nat.leb n 57) || Ascii.eqb c "+" || Ascii.eqb c "-" || Ascii.eqb c "."
  || Ascii.eqb c "e" || Ascii.eqb c "E" || Ascii.eqb c "(" || Ascii.eqb c ")".
Definition numeric_token (t : str) : bool :=
  match t with [] => false | _ => forallb numeric_char t end.

(* ------------------------------------------------------------------ Builder: authors *)
Definition nat_str (n : nat) : str := S (NilEmpty.string_of_uint (Nat.to_uint n)).

Record person := mkperson { p_name : str; p_email : str; p_address : str; p_orcid : str;   (* '' = None *)
                            p_role : str; p_corresponding : bool }.
Definition nonempty (s : str) : bool := match s with [] => false | _ => true end.

(* ids handed out by the generator starting at [next] *)
Fixpoint ids_from (next : nat) (n : nat) : list nat :=
  match n with O => [] | Datatypes.S n' => next :: ids_from (Datatypes.S next) n' end.

(* _serialize_authors: the fields (column name, column values) in the order of the source, the
   (id, role) pairs with a non-empty role, and the advanced generator *)
Definition serialize_authors (authors : list person) (category : str) (next : nat)
  : list (str * list str) * list (nat * str) * nat :=
  let col (key : str) (f : person -> str) : list (str * list str) :=
      let vals := map f authors in
      if existsb nonempty vals then [(category ++ S "." ++ key, vals)] else [] in
  let ids := ids_from next (length authors) in
  let roles := combine ids (map p_role authors) in
  let idcol := if existsb (fun r => nonempty (snd r)) roles
               then [(category ++ S ".id", map nat_str ids)] else [] in
  (col (S "name") p_name ++ col (S "email") p_email ++ col (S "address") p_address
   ++ col (S "id_orcid") p_orcid ++ idcol,
   filter (fun r => nonempty (snd r)) roles,
   next + length authors).

(* one author -> Chunk, several -> Loop *)
Definition authors_item (fields : list (str * list str)) (n : nat) : option bitem :=
  if Nat.eqb n 1 then Some (BChunk (mkchunk [] (map (fun kc => (fst kc, hd [] (snd kc))) fields)))
  else match loop_of_columns [] fields with Some l => Some (BLoop l) | None => None end.

Definition serialize_roles (roles : list (nat * str)) : option bitem :=
  match loop_of_columns [] [(S "audit_author_role.id", map (fun r => nat_str (fst r)) roles);
                             (S "audit_author_role.role", map snd roles)] with
  | Some l => Some (BLoop l) | None => None end.

Definition opt_list {X} (o : option X) : list X := match o with Some x => [x] | None => [] end.

(* CIF._assemble_authors up to the layout: fields of the contact authors, fields of the regular
   authors, the (id, role) pairs, the generator state afterwards *)
Definition author_fields (authors : list person) (next : nat)
  : list (str * list str) * list (str * list str) * list (nat * str) * nat :=
  let contact := filter p_corresponding authors in
  let regular := filter (fun a => negb (p_corresponding a)) authors in
  let '(f1, r1, n1) := match contact with
                       | [] => ([], [], next)
                       | _ => serialize_authors contact (S "audit_contact_author") next end in
  let '(f2, r2, n2) := match regular with
                       | [] => ([], [], n1)
                       | _ => serialize_authors regular (S "audit_author") n1 end in
  (f1, f2, r1 ++ r2, n2).

Definition assemble_authors (authors : list person) (next : nat) : list bitem * nat :=
  let contact := filter p_corresponding authors in
  let regular := filter (fun a => negb (p_corresponding a)) authors in
  let '(f1, f2, roles, n2) := author_fields authors next in
  let i1 := match contact with [] => [] | _ => opt_list (authors_item f1 (length contact)) end in
  let i2 := match regular with [] => [] | _ => opt_list (authors_item f2 (length regular)) end in
  (i1 ++ i2 ++ match roles with [] => [] | _ => opt_list (serialize_roles roles) end, n2).

(* the value column stored under a key *)
Fixpoint lookup (k : str) (fields : list (str * list str)) : list str :=
  match fields with
  | [] => []
  | (k', v) :: rest => if str_eqb k k' then v else lookup k rest
  end.
