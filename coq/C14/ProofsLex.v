(* C14/ProofsLex.v — what the independent lexer (Cif11.lstep) does on the pieces of text the
   writer model emits: tags, comment lines, unquoted / quoted / text-field values. *)
From Coq Require Import String Ascii List Bool Arith Lia.
From Verif.C14 Require Import Cif11 Writer ProofsChar.
Import ListNotations.

(* ------------------------------------------------------------------ running the lexer *)
Lemma lrun_none : forall s, lrun None s = None.
Proof. induction s; simpl; auto. Qed.

Lemma lrun_app : forall a st b, lrun st (a ++ b) = lrun (lrun st a) b.
Proof.
  induction a as [|c a IH]; intros st b; simpl; auto.
  destruct st as [x|]; [apply IH|]. now rewrite lrun_none.
Qed.

Lemma lrun_cons : forall st c s, lrun (Some st) (c :: s) = lrun (lstep st c) s.
Proof. reflexivity. Qed.

(* ------------------------------------------------------------------ unquoted words *)
Lemma lrun_bare : forall w acc ts, forallb nonblank w = true ->
  lrun (Some (LBare acc, ts)) w = Some (LBare (rev w ++ acc), ts).
Proof.
  induction w as [|c w IH]; intros acc ts H; simpl in *; auto.
  apply andb_true_iff in H as [Hc Hw].
  pose proof (nonblank_pn c Hc) as Hpn. unfold pn in Hpn.
  rewrite Hpn, (nonblank_not_ws c Hc); simpl.
  rewrite IH by assumption. now rewrite <- app_assoc.
Qed.

Lemma lstep_bare_end : forall acc ts c t, is_ws c = true -> classify (rev acc) = Some t ->
  lstep (LBare acc, ts) c = Some (LWs (is_nl c), t :: ts).
Proof.
  intros acc ts c t Hc Ht; unfold lstep. pose proof (ws_pn c Hc) as Hpn. unfold pn in Hpn.
  rewrite Hpn, Hc, Ht. reflexivity.
Qed.

(* a complete word followed by a white-space character *)
Lemma lex_word : forall c w b ts d t,
  word_lead c = true -> forallb nonblank w = true -> is_ws d = true -> classify (c :: w) = Some t ->
  lrun (Some (LWs b, ts)) (c :: w ++ [d]) = Some (LWs (is_nl d), t :: ts).
Proof.
  intros c w b ts d t Hc Hw Hd Ht.
  rewrite lrun_cons, lstep_ws_word by assumption.
  rewrite lrun_app, lrun_bare by assumption. rewrite lrun_cons.
  rewrite (lstep_bare_end (rev w ++ [c]) ts d t); auto.
  rewrite rev_app_distr, rev_involutive. exact Ht.
Qed.

Definition tag_ok (k : str) : bool := nonempty k && forallb nonblank k.

Lemma lex_tag : forall k b ts d, tag_ok k = true -> is_ws d = true ->
  lrun (Some (LWs b, ts)) (us :: k ++ [d]) = Some (LWs (is_nl d), TTag k :: ts).
Proof.
  intros k b ts d Hk Hd. apply andb_true_iff in Hk as [Hne Hk].
  apply lex_word; auto. destruct k; [discriminate|reflexivity].
Qed.

(* an unquoted value: non-blank printable characters, the first one an <OrdinaryChar>,
   not beginning with a reserved word *)
Definition bare_ok (s : str) : bool :=
  match s with
  | [] => false
  | c :: w => word_lead c && negb (Ascii.eqb c us) && forallb nonblank w && negb (reserved_prefix s)
  end.

Lemma classify_bare : forall s, bare_ok s = true -> classify s = Some (TVal (KBare, s)).
Proof.
  intros [|c w] H; [discriminate|]. unfold bare_ok in H.
  apply andb_true_iff in H as [H Hres]. apply andb_true_iff in H as [H Hw].
  apply andb_true_iff in H as [Hlead Hus].
  unfold classify. apply negb_true_iff in Hus. unfold us in Hus. rewrite Hus.
  unfold reserved_prefix in Hres. apply negb_true_iff in Hres.
  apply orb_false_iff in Hres as [Hres H5]. apply orb_false_iff in Hres as [Hres H4].
  apply orb_false_iff in Hres as [Hres H3]. apply orb_false_iff in Hres as [H1 H2].
  cbv zeta. rewrite H1, H2, H3, H4, H5. reflexivity.
Qed.

Lemma lex_bare_value : forall s b ts d, bare_ok s = true -> is_ws d = true ->
  lrun (Some (LWs b, ts)) (s ++ [d]) = Some (LWs (is_nl d), TVal (KBare, s) :: ts).
Proof.
  intros s b ts d Hs Hd. pose proof (classify_bare s Hs) as Hc.
  destruct s as [|c w]; [discriminate|]. unfold bare_ok in Hs.
  apply andb_true_iff in Hs as [Hs Hres]. apply andb_true_iff in Hs as [Hs Hw].
  apply andb_true_iff in Hs as [Hlead Hus].
  simpl app. apply lex_word; auto.
Qed.

(* ------------------------------------------------------------------ quoted strings *)
Definition is_quote (q : ascii) : bool := Ascii.eqb q squote || Ascii.eqb q dquote.

Lemma lrun_quote : forall q s acc ts,
  forallb (fun c => printable c && negb (Ascii.eqb c q)) s = true ->
  lrun (Some (LQuote q acc false, ts)) s = Some (LQuote q (rev s ++ acc) false, ts).
Proof.
  induction s as [|c s IH]; intros acc ts H; simpl in *; auto.
  apply andb_true_iff in H as [Hc Hs]. apply andb_true_iff in Hc as [Hp Hq].
  apply negb_true_iff in Hq.
  rewrite Hp, (printable_not_nl c Hp), Hq; simpl.
  rewrite IH by assumption. now rewrite <- app_assoc.
Qed.

Lemma lex_quoted : forall q s b ts d,
  is_quote q = true -> forallb (fun c => printable c && negb (Ascii.eqb c q)) s = true -> is_ws d = true ->
  lrun (Some (LWs b, ts)) (q :: s ++ [q; d]) = Some (LWs (is_nl d), TVal (qkind q, s) :: ts).
Proof.
  intros q s b ts d Hq Hs Hd.
  assert (H0 : lstep (LWs b, ts) q = Some (LQuote q [] false, ts)).
  { unfold is_quote in Hq. apply orb_true_iff in Hq as [Hq|Hq]; apply Ascii.eqb_eq in Hq; subst q;
    destruct b; reflexivity. }
  rewrite lrun_cons, H0, lrun_app, lrun_quote by assumption.
  assert (H1 : lstep (LQuote q (rev s ++ []) false, ts) q = Some (LQuote q (rev s ++ []) true, ts)).
  { unfold is_quote in Hq. apply orb_true_iff in Hq as [Hq|Hq]; apply Ascii.eqb_eq in Hq; subst q; reflexivity. }
  rewrite lrun_cons, H1. simpl lrun. unfold lstep.
  pose proof (ws_pn d Hd) as Hpn. unfold pn in Hpn.
  rewrite Hpn, Hd. simpl. now rewrite app_nil_r, rev_involutive.
Qed.

(* ------------------------------------------------------------------ text fields *)
(* no line of the text begins with ';' (bol: the text starts at the first column) *)
Fixpoint text_ok (bol : bool) (s : str) : bool :=
  match s with
  | [] => true
  | c :: s' => negb (bol && Ascii.eqb c semi) && pn c && text_ok (is_nl c) s'
  end.

Lemma lrun_text : forall s bol acc ts, text_ok bol s = true ->
  exists bol', lrun (Some (LText acc bol, ts)) s = Some (LText (rev s ++ acc) bol', ts).
Proof.
  induction s as [|c s IH]; intros bol acc ts H; simpl in *.
  - now exists bol.
  - apply andb_true_iff in H as [H Hs]. apply andb_true_iff in H as [Hb Hp].
    apply negb_true_iff in Hb. unfold pn in Hp. unfold semi in Hb. rewrite Hp, Hb. simpl.
    destruct (IH (is_nl c) (c :: acc) ts Hs) as [b' E]. exists b'. rewrite E. now rewrite <- app_assoc.
Qed.

Lemma text_ok_of : forall s b, forallb pn s = true -> has_nl_semi s = false ->
  (b = true -> starts_with semi s = false) -> text_ok b s = true.
Proof.
  induction s as [|c s IH]; intros b Hp Hn Hb; simpl in *; auto.
  apply andb_true_iff in Hp as [Hc Hp]. rewrite Hc. simpl.
  assert (E : (b && Ascii.eqb c semi) = false).
  { destruct b; simpl; auto. }
  rewrite E; simpl. apply IH; auto.
  - destruct s as [|e s]; auto. simpl in Hn. apply orb_false_iff in Hn as [_ Hn]. exact Hn.
  - intro Hnl. destruct s as [|e s]; auto. simpl in Hn. apply orb_false_iff in Hn as [Hn _].
    simpl. rewrite Hnl in Hn. simpl in Hn. exact Hn.
Qed.

Lemma lstep_text_nl : forall acc b ts, lstep (LText acc b, ts) nl = Some (LText (nl :: acc) true, ts).
Proof. intros acc b ts; destruct b; reflexivity. Qed.
Lemma lstep_text_close : forall acc ts,
  lstep (LText acc true, ts) semi = Some (LClosed, TVal (KText, rev (tl acc)) :: ts).
Proof. reflexivity. Qed.

(* "; " s "\n;" followed by white space, starting in the first column *)
Lemma lex_text : forall s ts d, forallb pn s = true -> has_nl_semi s = false -> is_ws d = true ->
  lrun (Some (LWs true, ts)) (semi :: sp :: s ++ [nl; semi] ++ [d])
  = Some (LWs (is_nl d), TVal (KText, sp :: s) :: ts).
Proof.
  intros s ts d Hp Hn Hd.
  change (semi :: sp :: s ++ [nl; semi] ++ [d]) with ([semi] ++ (sp :: s) ++ [nl; semi] ++ [d]).
  rewrite lrun_app. change (lrun (Some (LWs true, ts)) [semi]) with (Some (LText [] false, ts)).
  rewrite lrun_app.
  assert (Ht : text_ok false (sp :: s) = true).
  { simpl. apply text_ok_of; auto. discriminate. }
  destruct (lrun_text (sp :: s) false [] ts Ht) as [b' E]. rewrite E.
  change ([nl; semi] ++ [d]) with [nl; semi; d].
  rewrite lrun_cons, lstep_text_nl, lrun_cons, lstep_text_close, lrun_cons.
  unfold lstep. pose proof (ws_pn d Hd) as Hpn. unfold pn in Hpn.
  rewrite Hpn, Hd. simpl lrun. simpl tl.
  now rewrite app_nil_r, rev_app_distr, rev_involutive.
Qed.

(* ------------------------------------------------------------------ comments *)
Lemma lrun_comment : forall l ts, forallb printable l = true ->
  lrun (Some (LComment, ts)) (l ++ [nl]) = Some (LWs true, ts).
Proof.
  induction l as [|c l IH]; intros ts H; simpl in *; auto.
  apply andb_true_iff in H as [Hc Hl].
  rewrite Hc, (printable_not_nl c Hc). simpl. apply IH; auto.
Qed.

Lemma lex_comment_line : forall l b ts, forallb printable l = true ->
  lrun (Some (LWs b, ts)) (S "# " ++ l ++ [nl]) = Some (LWs true, ts).
Proof.
  intros l b ts H. change (S "# " ++ l ++ [nl]) with ("#"%char :: (sp :: l) ++ [nl]).
  rewrite lrun_cons. replace (lstep (LWs b, ts) "#") with (Some (LComment, ts)) by (destruct b; reflexivity).
  apply lrun_comment. simpl. exact H.
Qed.

Lemma splitlines_printable : forall c, forallb pn c = true ->
  Forall (fun l => forallb printable l = true) (splitlines c).
Proof.
  induction c as [|a c IH]; intros H; simpl in *; [constructor|].
  apply andb_true_iff in H as [Ha Hc]. specialize (IH Hc).
  destruct (is_nl a) eqn:E.
  - constructor; auto.
  - assert (Hp : printable a = true) by (unfold pn in Ha; rewrite E, orb_false_r in Ha; exact Ha).
    destruct (splitlines c) as [|l ls].
    + constructor; auto. simpl. now rewrite Hp.
    + inversion IH; subst. constructor; auto. simpl. now rewrite Hp.
Qed.

Lemma lex_comment_lines : forall ls ts, ls <> [] -> Forall (fun l => forallb printable l = true) ls ->
  lrun (Some (LWs true, ts)) (S "# " ++ join (nl :: S "# ") ls ++ [nl]) = Some (LWs true, ts).
Proof.
  induction ls as [|l ls IH]; intros ts Hne H; [congruence|].
  inversion H; subst. destruct ls as [|l2 ls].
  - simpl join. apply lex_comment_line; auto.
  - change (join (nl :: S "# ") (l :: l2 :: ls)) with (l ++ (nl :: S "# ") ++ join (nl :: S "# ") (l2 :: ls)).
    replace (S "# " ++ (l ++ (nl :: S "# ") ++ join (nl :: S "# ") (l2 :: ls)) ++ [nl])
      with ((S "# " ++ l ++ [nl]) ++ (S "# " ++ join (nl :: S "# ") (l2 :: ls) ++ [nl])).
    + rewrite lrun_app, lex_comment_line by assumption. apply IH; auto. discriminate.
    + simpl. rewrite <- !app_assoc. simpl. reflexivity.
Qed.

Lemma splitlines_nonempty : forall c, c <> [] -> splitlines c <> [].
Proof.
  intros [|a c] H; [congruence|]. simpl. destruct (is_nl a); [discriminate|].
  destruct (splitlines c); discriminate.
Qed.

Lemma lex_write_comment : forall c ts, forallb pn c = true ->
  lrun (Some (LWs true, ts)) (write_comment c) = Some (LWs true, ts).
Proof.
  intros c ts H. destruct c as [|a c]; [reflexivity|].
  unfold write_comment. apply lex_comment_lines.
  - apply splitlines_nonempty; discriminate.
  - apply splitlines_printable; auto.
Qed.

(* ------------------------------------------------------------------ formatted values *)
(* what the writer's choice of quotes must satisfy for the value to be read back *)
Definition fv_ok (R : rules) (s : str) : bool :=
  forallb pn s &&
  match quotes_for R s with
  | QNone => bare_ok s
  | QSingle => negb (mem squote s) && negb (mem nl s)
  | QDouble => negb (mem dquote s) && negb (mem nl s)
  | QText => negb (has_nl_semi s)
  end.

Definition parsed_value (R : rules) (s : str) : value :=
  match quotes_for R s with
  | QNone => (KBare, s)
  | QSingle => (KSingle, s)
  | QDouble => (KDouble, s)
  | QText => (KText, sp :: s)
  end.

Lemma trim_sp : forall s, trim (sp :: s) = trim s.
Proof. reflexivity. Qed.

Lemma parsed_value_trim : forall R s, trim (snd (parsed_value R s)) = trim s.
Proof. intros R s; unfold parsed_value; destruct (quotes_for R s); reflexivity. Qed.

Lemma quoted_chars : forall q s, forallb pn s = true -> mem q s = false -> mem nl s = false ->
  forallb (fun c => printable c && negb (Ascii.eqb c q)) s = true.
Proof.
  induction s as [|c s IH]; intros Hp Hq Hn; simpl in *; auto.
  apply andb_true_iff in Hp as [Hc Hp].
  apply orb_false_iff in Hq as [Hq1 Hq]. apply orb_false_iff in Hn as [Hn1 Hn].
  rewrite IH by assumption.
  rewrite (eqb_false_sym _ _ Hq1). unfold pn in Hc.
  assert (is_nl c = false) by (unfold is_nl; apply eqb_false_sym; exact Hn1).
  rewrite H, orb_false_r in Hc. now rewrite Hc.
Qed.

Lemma bare_no_semi_lead : forall s, bare_ok s = true -> starts_with semi s = false.
Proof.
  intros [|c w] H; [reflexivity|]. unfold bare_ok in H.
  apply andb_true_iff in H as [H _]. apply andb_true_iff in H as [H _].
  apply andb_true_iff in H as [H _]. revert H. unfold starts_with. clear. allchars c.
Qed.

(* THE value lemma: a formatted value followed by a blank or a line end is read as one value
   token whose content is the supplied string (plus one leading blank for text fields).
   A text field must start in the first column. *)
Lemma lex_value : forall R s b ts d,
  fv_ok R s = true -> is_ws d = true ->
  (b = true \/ starts_with semi (format_value R s) = false) ->
  lrun (Some (LWs b, ts)) (format_value R s ++ [d]) = Some (LWs (is_nl d), TVal (parsed_value R s) :: ts).
Proof.
  intros R s b ts d H Hd Hb. unfold fv_ok in H. apply andb_true_iff in H as [Hp H].
  unfold format_value, parsed_value in *. destruct (quotes_for R s).
  - apply lex_bare_value; auto.
  - apply andb_true_iff in H as [H1 H2]. apply negb_true_iff in H1, H2.
    change ((squote :: s ++ [squote]) ++ [d]) with (squote :: (s ++ [squote]) ++ [d]).
    rewrite <- app_assoc. apply (lex_quoted squote); auto. apply quoted_chars; auto.
  - apply andb_true_iff in H as [H1 H2]. apply negb_true_iff in H1, H2.
    change ((dquote :: s ++ [dquote]) ++ [d]) with (dquote :: (s ++ [dquote]) ++ [d]).
    rewrite <- app_assoc. apply (lex_quoted dquote); auto. apply quoted_chars; auto.
  - apply negb_true_iff in H. destruct Hb as [Hb|Hb]; [subst b|discriminate].
    change ((semi :: sp :: s ++ [nl; semi]) ++ [d]) with (semi :: sp :: (s ++ [nl; semi]) ++ [d]).
    rewrite <- app_assoc. apply lex_text; auto.
Qed.

Lemma format_value_nonempty : forall R s, fv_ok R s = true -> format_value R s <> [].
Proof.
  intros R s H. unfold fv_ok in H. apply andb_true_iff in H as [_ H].
  unfold format_value. destruct (quotes_for R s); try discriminate.
  destruct s; [discriminate H|discriminate].
Qed.
