(* C14/ProofsRules.v — the two quoting rules against the value lemma:
     - the repaired rule reads back every printable string it does not refuse (weak P);
     - the rule of the tree the design was written against needs the strong P_current, and each
       extra conjunct is necessary (…_refuted witnesses, by computation);
     - numeric oracle tokens are always fine. *)
From Coq Require Import String Ascii List Bool Arith Lia.
From Verif.C14 Require Import Cif11 Writer ProofsChar ProofsLex ProofsDoc.
Import ListNotations.

(* printable ASCII (32..126), TAB, or line end *)
Definition P_weak (s : str) : bool := forallb pn s.

(* what the CURRENT _quotes_for_string_value additionally needs *)
Definition P_current (s : str) : bool :=
  P_weak s && negb (has_nl_semi s) &&
  match quotes_current s with
  | QNone => negb (mem tab s) && negb (special_lead (hd sp s)) && negb (reserved_prefix s)
  | _ => true
  end.

(* the repaired writer: weak P, minus the strings it refuses (a line starting with ';' inside a
   multi-line value, which CIF 1.1 cannot carry) *)
Definition P_fixed (s : str) : bool := P_weak s && negb (value_refused Rfixed s).

Lemma mem_false_neq : forall c s a, mem c (a :: s) = false -> Ascii.eqb a c = false /\ mem c s = false.
Proof.
  intros c s a H. simpl in H. apply orb_false_iff in H as [H1 H2]. split; auto.
  rewrite Ascii.eqb_sym. exact H1.
Qed.

Lemma all_nonblank : forall s, forallb pn s = true -> mem nl s = false -> mem sp s = false ->
  mem tab s = false -> forallb nonblank s = true.
Proof.
  induction s as [|c s IH]; intros Hp Hn Hs Ht; simpl; auto.
  simpl in Hp. apply andb_true_iff in Hp as [Hc Hp].
  apply mem_false_neq in Hn as [Hn1 Hn]. apply mem_false_neq in Hs as [Hs1 Hs].
  apply mem_false_neq in Ht as [Ht1 Ht].
  rewrite IH by assumption. rewrite andb_true_r.
  apply pn_nonblank; auto. unfold is_ws, is_blank, is_nl. now rewrite Hn1, Hs1, Ht1.
Qed.

Lemma word_lead_of : forall c, nonblank c = true -> special_lead c = false ->
  Ascii.eqb c squote = false -> Ascii.eqb c dquote = false ->
  word_lead c = true /\ Ascii.eqb c us = false.
Proof. intro c. allchars c; intros; try discriminate; split; reflexivity. Qed.

Lemma no_nl_no_nlsemi : forall s, mem nl s = false -> has_nl_semi s = false.
Proof.
  induction s as [|a s IH]; intros H; auto.
  apply mem_false_neq in H as [H1 H]. destruct s as [|b s]; auto.
  simpl. unfold is_nl. rewrite H1. simpl. apply IH. exact H.
Qed.

(* the shared part: a value without line end / quotes / blanks whose lead is fine is a good bare word *)
Lemma bare_ok_of : forall c w, forallb pn (c :: w) = true -> mem nl (c :: w) = false ->
  mem squote (c :: w) = false -> mem dquote (c :: w) = false -> mem sp (c :: w) = false ->
  mem tab (c :: w) = false -> special_lead c = false -> reserved_prefix (c :: w) = false ->
  bare_ok (c :: w) = true.
Proof.
  intros c w Hp Hn Hq Hd Hs Ht Hl Hr.
  pose proof (all_nonblank _ Hp Hn Hs Ht) as Hnb. simpl in Hnb. apply andb_true_iff in Hnb as [Hc Hw].
  apply mem_false_neq in Hq as [Hq _]. apply mem_false_neq in Hd as [Hd _].
  destruct (word_lead_of c Hc Hl Hq Hd) as [H1 H2].
  unfold bare_ok. rewrite H1, H2, Hw, Hr. reflexivity.
Qed.

Theorem fv_ok_fixed : forall s, P_fixed s = true -> fv_ok Rfixed s = true.
Proof.
  intros s H. unfold P_fixed, P_weak in H. apply andb_true_iff in H as [Hp Href].
  apply negb_true_iff in Href. unfold value_refused in Href.
  unfold fv_ok. rewrite Hp. simpl quotes_for in *. simpl refuses in *. unfold quotes_fixed in *.
  destruct (mem nl s) eqn:Hn; [now rewrite Href|].
  destruct (mem squote s) eqn:Hq.
  - destruct (mem dquote s) eqn:Hd; [now rewrite Href|reflexivity].
  - destruct (mem dquote s) eqn:Hd; [reflexivity|].
    destruct (mem sp s) eqn:Hs; [reflexivity|]. destruct (mem tab s) eqn:Ht; [reflexivity|].
    simpl orb. cbv iota.
    destruct s as [|c w]; [reflexivity|].
    destruct (special_lead c) eqn:Hl; [reflexivity|].
    destruct (reserved_prefix (c :: w)) eqn:Hr; [reflexivity|].
    simpl orb. cbv iota. simpl andb. apply bare_ok_of; auto.
Qed.

Theorem fv_ok_current : forall s, P_current s = true -> fv_ok Rcurrent s = true.
Proof.
  intros s H. unfold P_current, P_weak in H. apply andb_true_iff in H as [H Hq0].
  apply andb_true_iff in H as [Hp Hns]. apply negb_true_iff in Hns.
  unfold fv_ok. rewrite Hp. simpl quotes_for. unfold quotes_current in *.
  destruct (mem nl s) eqn:Hn; [now rewrite Hns|].
  destruct (mem squote s) eqn:Hq.
  - destruct (mem dquote s) eqn:Hd; [now rewrite Hns|reflexivity].
  - destruct (mem dquote s) eqn:Hd; [reflexivity|].
    destruct (mem sp s) eqn:Hs; [reflexivity|].
    destruct s as [|c w]; [reflexivity|].
    apply andb_true_iff in Hq0 as [Hq0 Hr]. apply andb_true_iff in Hq0 as [Ht Hl].
    apply negb_true_iff in Ht, Hl, Hr. simpl in Hl.
    simpl andb. apply bare_ok_of; auto.
Qed.

(* ------------------------------------------------------------------ numeric oracle tokens *)
Lemma numeric_char_facts : forall c, numeric_char c = true ->
  pn c = true /\ is_ws c = false /\ Ascii.eqb c squote = false /\ Ascii.eqb c dquote = false
  /\ special_lead c = false /\ Ascii.eqb "d" (to_lower c) = false /\ Ascii.eqb "l" (to_lower c) = false
  /\ Ascii.eqb "s" (to_lower c) = false /\ Ascii.eqb "g" (to_lower c) = false.
Proof. intro c. allchars c; intros; repeat split; reflexivity. Qed.

Lemma numeric_mem_false : forall t c, forallb numeric_char t = true -> numeric_char c = false -> mem c t = false.
Proof.
  induction t as [|a t IH]; intros c H Hc; auto. simpl in *.
  apply andb_true_iff in H as [Ha Ht]. rewrite (IH c Ht Hc), orb_false_r.
  destruct (Ascii.eqb c a) eqn:E; auto. apply Ascii.eqb_eq in E. subst. congruence.
Qed.

Lemma numeric_pn : forall t, forallb numeric_char t = true -> forallb pn t = true.
Proof.
  intros t H. apply (forallb_mono numeric_char pn); auto. intros c Hc.
  now destruct (numeric_char_facts c Hc).
Qed.

Lemma prefixb_cons_false : forall a b p s, Ascii.eqb a b = false -> prefixb (a :: p) (b :: s) = false.
Proof. intros a b p s H. simpl. now rewrite H. Qed.

(* with either rule a numeric token is written unquoted and is a good bare word *)
Theorem numeric_token_ok : forall t, numeric_token t = true ->
  quotes_current t = QNone /\ quotes_fixed t = QNone /\ P_current t = true /\ P_fixed t = true.
Proof.
  intros t H. unfold numeric_token in H. destruct t as [|c w]; [discriminate|].
  pose proof (numeric_pn _ H) as Hp.
  pose proof (numeric_mem_false _ nl H eq_refl) as Hn.
  pose proof (numeric_mem_false _ squote H eq_refl) as Hq.
  pose proof (numeric_mem_false _ dquote H eq_refl) as Hd.
  pose proof (numeric_mem_false _ sp H eq_refl) as Hs.
  pose proof (numeric_mem_false _ tab H eq_refl) as Ht.
  assert (Hc : numeric_char c = true) by (simpl in H; apply andb_true_iff in H as [H _]; exact H).
  destruct (numeric_char_facts c Hc) as (_ & _ & _ & _ & Hl & Hd1 & Hl1 & Hs1 & Hg1).
  assert (Hr : reserved_prefix (c :: w) = false).
  { unfold reserved_prefix. change (map to_lower (c :: w)) with (to_lower c :: map to_lower w).
    change (S "data_") with ("d"%char :: S "ata_"). change (S "loop_") with ("l"%char :: S "oop_").
    change (S "save_") with ("s"%char :: S "ave_"). change (S "global_") with ("g"%char :: S "lobal_").
    change (S "stop_") with ("s"%char :: S "top_").
    rewrite !prefixb_cons_false; auto. }
  assert (E1 : quotes_current (c :: w) = QNone).
  { unfold quotes_current. now rewrite Hn, Hq, Hd, Hs. }
  assert (E2 : quotes_fixed (c :: w) = QNone).
  { unfold quotes_fixed. rewrite Hn, Hq, Hd, Hs, Ht. simpl orb. cbv iota. now rewrite Hl, Hr. }
  repeat split; auto.
  - unfold P_current, P_weak. rewrite Hp, (no_nl_no_nlsemi _ Hn), E1, Ht, Hr. simpl hd. now rewrite Hl.
  - unfold P_fixed, P_weak, value_refused. rewrite Hp. simpl quotes_for. now rewrite E2.
Qed.

(* ------------------------------------------------------------------ the two write_then_parse theorems *)
Theorem write_then_parse_fixed : forall comment blocks,
  gfile_ok P_fixed comment blocks = true ->
  option_map norm_blocks (parse (write_file Rfixed comment blocks)) = Some (trim_content (content blocks)).
Proof.
  intros comment blocks H. apply write_then_parse_generic.
  apply (gfile_ok_mono P_fixed (fv_ok Rfixed)); auto. apply fv_ok_fixed.
Qed.

Theorem write_then_parse_current : forall comment blocks,
  gfile_ok P_current comment blocks = true ->
  option_map norm_blocks (parse (write_file Rcurrent comment blocks)) = Some (trim_content (content blocks)).
Proof.
  intros comment blocks H. apply write_then_parse_generic.
  apply (gfile_ok_mono P_current (fv_ok Rcurrent)); auto. apply fv_ok_current.
Qed.

(* the repaired writer refuses exactly the values with a line beginning with ';' after a line end *)
Theorem fixed_refuses_iff : forall s, value_refused Rfixed s = has_nl_semi s.
Proof.
  intros s. unfold value_refused. simpl. unfold quotes_fixed.
  destruct (mem nl s) eqn:Hn; auto.
  rewrite (no_nl_no_nlsemi s Hn).
  destruct (mem squote s), (mem dquote s), (mem sp s || mem tab s); auto;
  destruct s as [|c w]; auto; destruct (special_lead c || reserved_prefix (c :: w)); auto.
Qed.
Theorem P_fixed_is_weak : forall s, P_fixed s = P_weak s && negb (has_nl_semi s).
Proof. intro s. unfold P_fixed. now rewrite fixed_refuses_iff. Qed.

(* ------------------------------------------------------------------ refutations for the current rule *)
Definition pair_doc (s : str) : list cblock :=
  [mkblock [] (S "b") [] [BChunk (mkchunk [] [(S "k", s)])]].
Definition loop_doc (s : str) : list cblock :=
  [mkblock [] (S "b") [] [BLoop (mkloop [] [S "k"; S "m"] [[s; S "1"]; [S "x"; S "2"]])]].
Definition roundtrip_fails (R : rules) (d : list cblock) : Prop :=
  option_map norm_blocks (parse (write_file R [] d)) <> Some (trim_content (content d)).

Ltac refute := unfold roundtrip_fails; vm_compute; let Hx := fresh "Hx" in (intro Hx; discriminate Hx).

Lemma refuted_underscore : P_weak (S "_tag") = true /\ roundtrip_fails Rcurrent (pair_doc (S "_tag")).
Proof. split; [reflexivity|refute]. Qed.
Lemma refuted_hash : P_weak (S "#c") = true /\ roundtrip_fails Rcurrent (pair_doc (S "#c")).
Proof. split; [reflexivity|refute]. Qed.
Lemma refuted_dollar : P_weak (S "$x") = true /\ roundtrip_fails Rcurrent (pair_doc (S "$x")).
Proof. split; [reflexivity|refute]. Qed.
Lemma refuted_bracket_open : P_weak (S "[a]") = true /\ roundtrip_fails Rcurrent (pair_doc (S "[a]")).
Proof. split; [reflexivity|refute]. Qed.
Lemma refuted_bracket_close : P_weak (S "]a") = true /\ roundtrip_fails Rcurrent (pair_doc (S "]a")).
Proof. split; [reflexivity|refute]. Qed.
Lemma refuted_semicolon_pair : P_weak (S ";abc") = true /\ roundtrip_fails Rcurrent (pair_doc (S ";abc")).
Proof. split; [reflexivity|refute]. Qed.
Lemma refuted_semicolon_loop : roundtrip_fails Rcurrent (loop_doc (S ";abc")).
Proof. refute. Qed.
Lemma refuted_tab : P_weak ["a"; tab; "b"]%char = true /\ roundtrip_fails Rcurrent (pair_doc ["a"; tab; "b"]%char).
Proof. split; [reflexivity|refute]. Qed.
Lemma refuted_loop_kw : P_weak (S "loop_") = true /\ roundtrip_fails Rcurrent (pair_doc (S "loop_")).
Proof. split; [reflexivity|refute]. Qed.
Lemma refuted_data_kw : P_weak (S "data_x") = true /\ roundtrip_fails Rcurrent (pair_doc (S "data_x")).
Proof. split; [reflexivity|refute]. Qed.
Lemma refuted_save_kw : P_weak (S "save_x") = true /\ roundtrip_fails Rcurrent (pair_doc (S "save_x")).
Proof. split; [reflexivity|refute]. Qed.
Lemma refuted_global_kw : P_weak (S "global_") = true /\ roundtrip_fails Rcurrent (pair_doc (S "global_")).
Proof. split; [reflexivity|refute]. Qed.
Lemma refuted_stop_kw : P_weak (S "stop_") = true /\ roundtrip_fails Rcurrent (pair_doc (S "stop_")).
Proof. split; [reflexivity|refute]. Qed.
Lemma refuted_kw_case : P_weak (S "LOOP_") = true /\ roundtrip_fails Rcurrent (pair_doc (S "LOOP_")).
Proof. split; [reflexivity|refute]. Qed.
Lemma refuted_nl_semi : P_weak ["a"; nl; ";"; "b"]%char = true
  /\ roundtrip_fails Rcurrent (pair_doc ["a"; nl; ";"; "b"]%char).
Proof. split; [reflexivity|refute]. Qed.

(* the full statement with the weak P is false of the current rule *)
Theorem write_then_parse_weak_refuted_current :
  exists comment blocks, gfile_ok P_weak comment blocks = true /\
    option_map norm_blocks (parse (write_file Rcurrent comment blocks)) <> Some (trim_content (content blocks)).
Proof.
  exists [], (pair_doc (S "_tag")). split; [reflexivity|]. apply refuted_underscore.
Qed.

(* ... and every one of these witnesses is read back under the repaired rule *)
Definition roundtrip_ok (R : rules) (d : list cblock) : Prop :=
  option_map norm_blocks (parse (write_file R [] d)) = Some (trim_content (content d)).
Lemma fixed_witnesses_ok :
  Forall (fun s => roundtrip_ok Rfixed (pair_doc s) /\ roundtrip_ok Rfixed (loop_doc s))
    [S "_tag"; S "#c"; S "$x"; S "[a]"; S "]a"; S ";abc"; ["a"; tab; "b"]%char; S "loop_"; S "data_x";
     S "save_x"; S "global_"; S "stop_"; S "LOOP_"; S "?"; S "."; S "a;b"; []].
Proof. repeat constructor; vm_compute; reflexivity. Qed.

(* satisfiability of the hypotheses *)
Example ex_fixed_domain : gfile_ok P_fixed (S "top" ++ [nl] ++ S "two") (loop_doc (S "_x") ++ pair_doc ["a"; nl; "b"]%char) = true.
Proof. reflexivity. Qed.
Example ex_current_domain : gfile_ok P_current (S "top") (loop_doc (S "it's") ++ pair_doc (S "a b")) = true.
Proof. reflexivity. Qed.
