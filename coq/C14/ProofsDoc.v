(* C14/ProofsDoc.v — from values to whole files: the text written by the model lexes to the
   expected token stream, the token stream parses to the supplied content. *)
From Coq Require Import String Ascii List Bool Arith Lia.
From Verif.C14 Require Import Cif11 Writer ProofsChar ProofsLex.
Import ListNotations.

(* a piece of text that starts in the first column, ends after a line end, and contributes
   exactly the tokens [toks] *)
Definition lexes (piece : str) (toks : list token) : Prop :=
  forall ts, lrun (Some (LWs true, ts)) piece = Some (LWs true, rev toks ++ ts).

Lemma lexes_nil : lexes [] [].
Proof. intro ts; reflexivity. Qed.
Lemma lexes_nl : lexes [nl] [].
Proof. intro ts; reflexivity. Qed.
Lemma lexes_app : forall p1 t1 p2 t2, lexes p1 t1 -> lexes p2 t2 -> lexes (p1 ++ p2) (t1 ++ t2).
Proof.
  intros p1 t1 p2 t2 H1 H2 ts. rewrite lrun_app, H1, H2, rev_app_distr, app_assoc. reflexivity.
Qed.
Lemma lexes_flat_map : forall {X} (w : X -> str) (t : X -> list token) (l : list X),
  (forall x, In x l -> lexes (w x) (t x)) -> lexes (flat_map w l) (flat_map t l).
Proof.
  induction l as [|x l IH]; intros H; simpl; [apply lexes_nil|].
  apply lexes_app; [apply H; now left|apply IH; intros y Hy; apply H; now right].
Qed.
Lemma lexes_multi : forall {X} (w : X -> str) (t : X -> list token) (l : list X),
  (forall x, In x l -> lexes (w x) (t x)) -> lexes (write_multi w l) (flat_map t l).
Proof.
  induction l as [|x l IH]; intros H; [apply lexes_nil|].
  destruct l as [|y l].
  - simpl. rewrite app_nil_r. apply H; now left.
  - change (write_multi w (x :: y :: l)) with (w x ++ [nl] ++ write_multi w (y :: l)).
    change (flat_map t (x :: y :: l)) with (t x ++ [] ++ flat_map t (y :: l)).
    apply lexes_app; [apply H; now left|]. apply lexes_app; [apply lexes_nl|].
    apply IH. intros z Hz; apply H; now right.
Qed.

(* ------------------------------------------------------------------ well-formed documents,
   generic in the condition V on string values: tags are '_' + non-blank printable characters,
   block codes non-empty non-blank, comments printable (or line ends), loops have >= 1 tag,
   >= 1 row and rectangular rows *)
Definition name_ok (n : str) : bool := nonempty n && forallb nonblank n.
Section G.
Variable V : str -> bool.
Definition gpair_ok (kv : str * str) : bool := tag_ok (fst kv) && V (snd kv).
Definition gchunk_ok (c : chunk) : bool := forallb pn (ccomment c) && forallb gpair_ok (cpairs c).
Definition grow_ok (n : nat) (r : list str) : bool := Nat.eqb (length r) n && forallb V r.
Definition gloop_ok (l : loop) : bool :=
  forallb pn (lcomment l)
  && negb (Nat.eqb (length (ltags l)) 0) && forallb tag_ok (ltags l)
  && negb (Nat.eqb (length (lrows l)) 0) && forallb (grow_ok (length (ltags l))) (lrows l).
Definition gitem_ok (i : bitem) : bool :=
  match i with BChunk c => gchunk_ok c | BLoop l => gloop_ok l end.
Definition gblock_ok (b : cblock) : bool :=
  forallb pn (bcomment b) && name_ok (bname b)
  && match schema_loop (bschema b) with Some l => gloop_ok l | None => true end
  && forallb gitem_ok (bitems b).
Definition gfile_ok (comment : str) (blocks : list cblock) : bool :=
  forallb pn comment && forallb gblock_ok blocks.
End G.

Lemma forallb_mono : forall {X} (f g : X -> bool) l, (forall x, f x = true -> g x = true) ->
  forallb f l = true -> forallb g l = true.
Proof.
  intros X f g l H. induction l as [|x l IH]; simpl; auto.
  intro E. apply andb_true_iff in E as [E1 E2]. rewrite (H x E1), IH; auto.
Qed.

Lemma gloop_ok_mono : forall (V W : str -> bool), (forall s, V s = true -> W s = true) ->
  forall l, gloop_ok V l = true -> gloop_ok W l = true.
Proof.
  intros V W H l E. unfold gloop_ok in *.
  apply andb_true_iff in E as [E Hrows]. rewrite E. simpl.
  apply (forallb_mono (grow_ok V (length (ltags l)))); auto.
  intros r Hr. unfold grow_ok in *. apply andb_true_iff in Hr as [H1 H2]. rewrite H1. simpl.
  apply (forallb_mono V); auto.
Qed.

Lemma gitem_ok_mono : forall (V W : str -> bool), (forall s, V s = true -> W s = true) ->
  forall i, gitem_ok V i = true -> gitem_ok W i = true.
Proof.
  intros V W H [c|l] E; simpl in *; [|apply (gloop_ok_mono V W); auto].
  unfold gchunk_ok in *. apply andb_true_iff in E as [E1 E2]. rewrite E1. simpl.
  apply (forallb_mono (gpair_ok V)); auto.
  intros kv Hkv. unfold gpair_ok in *. apply andb_true_iff in Hkv as [H1 H2]. rewrite H1. simpl. auto.
Qed.

Lemma gfile_ok_mono : forall (V W : str -> bool), (forall s, V s = true -> W s = true) ->
  forall c bs, gfile_ok V c bs = true -> gfile_ok W c bs = true.
Proof.
  intros V W H c bs E. unfold gfile_ok in *. apply andb_true_iff in E as [E1 E2]. rewrite E1. simpl.
  apply (forallb_mono (gblock_ok V)); auto.
  intros b Hb. unfold gblock_ok in *.
  apply andb_true_iff in Hb as [Hb Hitems]. apply andb_true_iff in Hb as [Hb Hsch]. rewrite Hb. simpl.
  apply andb_true_iff. split.
  - destruct (schema_loop (bschema b)); auto. apply (gloop_ok_mono V W); auto.
  - apply (forallb_mono (gitem_ok V)); auto. apply gitem_ok_mono; auto.
Qed.

Section D.
Variable R : rules.

(* ------------------------------------------------------------------ well-formed documents *)
Definition pair_ok := gpair_ok (fv_ok R).
Definition chunk_ok := gchunk_ok (fv_ok R).
Definition row_ok := grow_ok (fv_ok R).
Definition loop_ok := gloop_ok (fv_ok R).
Definition item_ok := gitem_ok (fv_ok R).
Definition block_ok := gblock_ok (fv_ok R).
Definition file_ok := gfile_ok (fv_ok R).

(* ------------------------------------------------------------------ expected token stream *)
Definition tval (s : str) : token := TVal (parsed_value R s).
Definition toks_pair (kv : str * str) : list token := [TTag (fst kv); tval (snd kv)].
Definition toks_loop (l : loop) : list token :=
  TLoop :: map TTag (ltags l) ++ flat_map (map tval) (lrows l).
Definition toks_item (i : bitem) : list token :=
  match i with BChunk c => flat_map toks_pair (cpairs c) | BLoop l => toks_loop l end.
Definition toks_block (b : cblock) : list token :=
  TData (bname b) :: match schema_loop (bschema b) with Some l => toks_loop l | None => [] end
  ++ flat_map toks_item (bitems b).
Definition toks_file (blocks : list cblock) : list token := flat_map toks_block blocks.

(* ------------------------------------------------------------------ lexing the pieces *)
Lemma lexes_comment : forall c, forallb pn c = true -> lexes (write_comment c) [].
Proof. intros c H ts. apply lex_write_comment; auto. Qed.

Lemma lexes_pair : forall kv, pair_ok kv = true -> lexes (write_pair R kv) (toks_pair kv).
Proof.
  intros [k v] H ts. unfold pair_ok, gpair_ok in H. simpl in H. apply andb_true_iff in H as [Hk Hv].
  unfold write_pair, toks_pair. simpl fst; simpl snd.
  destruct (starts_with semi (format_value R v)) eqn:E.
  - replace (us :: k ++ [nl] ++ format_value R v ++ [nl]) with ((us :: k ++ [nl]) ++ (format_value R v ++ [nl]))
      by (simpl; rewrite <- app_assoc; reflexivity).
    rewrite lrun_app, lex_tag by auto. change (is_nl nl) with true.
    rewrite lex_value; auto.
  - replace (us :: k ++ [sp] ++ format_value R v ++ [nl]) with ((us :: k ++ [sp]) ++ (format_value R v ++ [nl]))
      by (simpl; rewrite <- app_assoc; reflexivity).
    rewrite lrun_app, lex_tag by auto.
    rewrite lex_value; auto.
Qed.

Lemma lexes_chunk : forall c, chunk_ok c = true -> lexes (write_chunk R c) (toks_item (BChunk c)).
Proof.
  intros c H. unfold chunk_ok, gchunk_ok in H. apply andb_true_iff in H as [Hc Hp].
  unfold write_chunk. change (toks_item (BChunk c)) with ([] ++ flat_map toks_pair (cpairs c)).
  apply lexes_app; [apply lexes_comment; auto|].
  apply lexes_flat_map. intros kv Hin. apply lexes_pair.
  rewrite forallb_forall in Hp. auto.
Qed.

Lemma lexes_tags : forall tags, forallb tag_ok tags = true -> lexes (flat_map write_tag tags) (map TTag tags).
Proof.
  intros tags H. replace (map TTag tags) with (flat_map (fun k => [TTag k]) tags).
  2:{ clear. induction tags as [|t tags IH]; simpl; [reflexivity|now rewrite IH]. }
  apply lexes_flat_map. intros k Hin ts. unfold write_tag.
  rewrite forallb_forall in H. rewrite lex_tag; auto.
Qed.

Lemma mem_semi_starts : forall f, mem semi f = false -> starts_with semi f = false.
Proof.
  intros [|a f] H; auto. simpl in *. apply orb_false_iff in H as [H _].
  rewrite Ascii.eqb_sym. exact H.
Qed.

Lemma lex_row : forall sep svals b ts,
  svals <> [] -> forallb (fv_ok R) svals = true ->
  ((sep = nl /\ b = true) \/
   (sep = sp /\ forallb (fun s => negb (mem semi (format_value R s))) svals = true)) ->
  lrun (Some (LWs b, ts)) (write_row sep (map (format_value R) svals))
  = Some (LWs true, rev (map tval svals) ++ ts).
Proof.
  intros sep svals. induction svals as [|x rest IH]; intros b ts Hne Hok Hsep; [congruence|].
  simpl in Hok. apply andb_true_iff in Hok as [Hx Hrest].
  assert (Hlead : b = true \/ starts_with semi (format_value R x) = false).
  { destruct Hsep as [[_ Hb]|[_ Hs]]; [now left|right].
    simpl in Hs. apply andb_true_iff in Hs as [Hs _]. apply negb_true_iff in Hs.
    now apply mem_semi_starts. }
  assert (Hws : is_ws sep = true) by (destruct Hsep as [[-> _]|[-> _]]; reflexivity).
  destruct rest as [|y rest].
  - unfold write_row. simpl map. simpl join.
    rewrite lex_value; auto.
  - unfold write_row.
    change (join [sep] (map (format_value R) (x :: y :: rest)))
      with (format_value R x ++ [sep] ++ join [sep] (map (format_value R) (y :: rest))).
    rewrite <- !app_assoc. rewrite app_assoc. rewrite lrun_app. rewrite lex_value; auto.
    change (join [sep] (map (format_value R) (y :: rest)) ++ [nl])
      with (write_row sep (map (format_value R) (y :: rest))).
    rewrite IH; auto.
    + simpl. rewrite <- !app_assoc. reflexivity.
    + discriminate.
    + destruct Hsep as [[-> _]|[-> Hs]]; [left; split; reflexivity|right; split; auto].
      simpl in Hs. apply andb_true_iff in Hs as [_ Hs]. exact Hs.
Qed.

Lemma loop_sep_cases : forall rows,
  (loop_sep (map (map (format_value R)) rows) = nl) \/
  (loop_sep (map (map (format_value R)) rows) = sp /\
   forall r, In r rows -> forallb (fun s => negb (mem semi (format_value R s))) r = true).
Proof.
  intros rows. unfold loop_sep.
  destruct (existsb (existsb (mem semi)) (map (map (format_value R)) rows)) eqn:E; [now left|right].
  split; auto. intros r Hr.
  apply forallb_forall. intros s Hs. apply negb_true_iff.
  destruct (mem semi (format_value R s)) eqn:E2; auto.
  assert (existsb (existsb (mem semi)) (map (map (format_value R)) rows) = true).
  { apply existsb_exists. exists (map (format_value R) r). split; [now apply in_map|].
    apply existsb_exists. exists (format_value R s). split; [now apply in_map|auto]. }
  congruence.
Qed.

Lemma lexes_rows : forall n rows sep,
  n <> 0 -> forallb (row_ok n) rows = true ->
  (sep = nl \/ (sep = sp /\ forall r, In r rows -> forallb (fun s => negb (mem semi (format_value R s))) r = true)) ->
  lexes (flat_map (write_row sep) (map (map (format_value R)) rows)) (flat_map (map tval) rows).
Proof.
  intros n rows sep Hn Hok Hsep.
  rewrite flat_map_concat_map, map_map, <- flat_map_concat_map.
  apply lexes_flat_map. intros r Hr ts.
  rewrite forallb_forall in Hok. specialize (Hok r Hr). unfold row_ok, grow_ok in Hok.
  apply andb_true_iff in Hok as [Hlen Hvals]. apply Nat.eqb_eq in Hlen.
  apply lex_row; auto.
  - destruct r; [simpl in Hlen; congruence|discriminate].
  - destruct Hsep as [->|[-> H]]; [left; auto|right; auto].
Qed.

Lemma lexes_loop : forall l, loop_ok l = true -> lexes (write_loop R l) (toks_loop l).
Proof.
  intros l H. unfold loop_ok, gloop_ok in H.
  apply andb_true_iff in H as [H Hrows]. apply andb_true_iff in H as [H Hnr].
  apply andb_true_iff in H as [H Htags]. apply andb_true_iff in H as [Hc Hnt].
  unfold write_loop. cbv zeta. unfold toks_loop.
  change (TLoop :: map TTag (ltags l) ++ flat_map (map tval) (lrows l))
    with ([] ++ [TLoop] ++ map TTag (ltags l) ++ flat_map (map tval) (lrows l)).
  apply lexes_app; [apply lexes_comment; auto|].
  rewrite (app_assoc (S "loop_") [nl]).
  apply lexes_app.
  { intro ts. change (S "loop_" ++ [nl]) with ("l"%char :: S "oop_" ++ [nl]).
    rewrite (lex_word "l"%char (S "oop_") true ts nl TLoop); auto. }
  apply lexes_app; [apply lexes_tags; auto|].
  apply (lexes_rows (length (ltags l))); auto.
  - apply negb_true_iff in Hnt. apply Nat.eqb_neq in Hnt. exact Hnt.
  - destruct (loop_sep_cases (lrows l)) as [E|[E Hs]]; [left; auto|right; auto].
Qed.

Lemma lexes_item : forall i, item_ok i = true -> lexes (write_item R i) (toks_item i).
Proof. intros [c|l] H; [apply lexes_chunk|apply lexes_loop]; auto. Qed.

Lemma lexes_block : forall b, block_ok b = true -> lexes (write_block R b) (toks_block b).
Proof.
  intros b H. unfold block_ok, gblock_ok in H.
  apply andb_true_iff in H as [H Hitems]. apply andb_true_iff in H as [H Hsch].
  apply andb_true_iff in H as [Hc Hname].
  unfold write_block, toks_block.
  change (TData (bname b) :: match schema_loop (bschema b) with Some l => toks_loop l | None => [] end
          ++ flat_map toks_item (bitems b))
    with ([] ++ [TData (bname b)] ++ match schema_loop (bschema b) with Some l => toks_loop l | None => [] end
          ++ flat_map toks_item (bitems b)).
  apply lexes_app; [apply lexes_comment; auto|].
  replace (S "data_" ++ bname b ++ [nl; nl] ++
           match schema_loop (bschema b) with Some l => write_loop R l ++ [nl] | None => [] end ++
           write_multi (write_item R) (bitems b))
    with ((S "data_" ++ bname b ++ [nl; nl]) ++
           match schema_loop (bschema b) with Some l => write_loop R l ++ [nl] | None => [] end ++
           write_multi (write_item R) (bitems b))
    by (rewrite <- !app_assoc; reflexivity).
  apply lexes_app.
  { intro ts. unfold name_ok in Hname. apply andb_true_iff in Hname as [Hne Hnb].
    replace (S "data_" ++ bname b ++ [nl; nl]) with (("d"%char :: (S "ata_" ++ bname b) ++ [nl]) ++ [nl])
      by (simpl; rewrite <- app_assoc; reflexivity).
    rewrite lrun_app.
    rewrite (lex_word "d"%char (S "ata_" ++ bname b) true ts nl (TData (bname b))).
    - reflexivity.
    - reflexivity.
    - change (S "ata_" ++ bname b) with ("a"%char :: "t"%char :: "a"%char :: "_"%char :: bname b).
      simpl. exact Hnb.
    - reflexivity.
    - destruct (bname b) as [|c n]; [discriminate|]. reflexivity. }
  apply lexes_app.
  { destruct (schema_loop (bschema b)) as [l|]; [|apply lexes_nil].
    rewrite <- (app_nil_r (toks_loop l)). apply lexes_app; [apply lexes_loop; auto|apply lexes_nl]. }
  apply lexes_multi. intros i Hi. apply lexes_item. rewrite forallb_forall in Hitems. auto.
Qed.

Lemma lexes_file : forall comment blocks, file_ok comment blocks = true ->
  lexes (write_file R comment blocks) (toks_file blocks).
Proof.
  intros comment blocks H. unfold file_ok, gfile_ok in H. apply andb_true_iff in H as [Hc Hb].
  unfold write_file, toks_file.
  change (flat_map toks_block blocks) with ([] ++ [] ++ flat_map toks_block blocks).
  apply lexes_app; [intro ts; reflexivity|].
  apply lexes_app; [apply lexes_comment; auto|].
  apply lexes_multi. intros b Hin. apply lexes_block. rewrite forallb_forall in Hb. auto.
Qed.

Lemma lex_write_file : forall comment blocks, file_ok comment blocks = true ->
  lex (write_file R comment blocks) = Some (toks_file blocks).
Proof.
  intros comment blocks H. unfold lex. pose proof (lexes_file comment blocks H []) as E.
  replace (lrun (Some linit) (write_file R comment blocks)) with (Some (LWs true, rev (toks_file blocks) ++ []))
    by (symmetry; exact E).
  simpl. now rewrite app_nil_r, rev_involutive.
Qed.

(* ------------------------------------------------------------------ parsing the token stream *)
Definition pitem_pair (kv : str * str) : item := IPair (fst kv) (parsed_value R (snd kv)).
Definition pitem_loop (l : loop) : item := ILoop (ltags l) (map (map (parsed_value R)) (lrows l)).
Definition pitems (i : bitem) : list item :=
  match i with BChunk c => map pitem_pair (cpairs c) | BLoop l => [pitem_loop l] end.
Definition pblock (b : cblock) : block :=
  (bname b, match schema_loop (bschema b) with Some l => [pitem_loop l] | None => [] end
            ++ flat_map pitems (bitems b)).
Definition parsed (blocks : list cblock) : list block := map pblock blocks.

(* the parser is "at rest" inside block [name] having collected [its] (reversed): nothing
   pending, or a loop body with only complete rows whose closure is the head of [its] *)
Inductive at_rest (done : list block) (name : str) (its : list item) : pstate -> Prop :=
| rest_none : at_rest done name its (mkp done (Some (name, its)) PNone)
| rest_loop : forall tags rows its0, rows <> [] -> its = ILoop tags (rev rows) :: its0 ->
    at_rest done name its (mkp done (Some (name, its0)) (PLoopVals tags rows [])).

Lemma at_rest_flush : forall done name its st, at_rest done name its st ->
  flush st = Some (mkp done (Some (name, its)) PNone).
Proof.
  intros done name its st H. destruct H as [|tags rows its0 Hne ->]; [reflexivity|].
  unfold flush. simpl. destruct rows; [congruence|]. reflexivity.
Qed.
Lemma at_rest_pcur : forall done name its st, at_rest done name its st -> exists c, pcur st = Some c.
Proof. intros done name its st H; destruct H; simpl; eauto. Qed.
Lemma at_rest_not_tags : forall done name its st, at_rest done name its st ->
  forall tags, ppend st <> PLoopTags tags.
Proof. intros done name its st H tags; destruct H; simpl; discriminate. Qed.

Lemma prun_app : forall a st b, prun st (a ++ b) = prun (prun st a) b.
Proof.
  induction a as [|t a IH]; intros st b; simpl; auto.
  destruct st as [x|]; [apply IH|]. clear. induction b; simpl; auto.
Qed.

Lemma prun_cons : forall st t ts, prun (Some st) (t :: ts) = prun (pstep st t) ts.
Proof. reflexivity. Qed.

Lemma pstep_tag_rest : forall done name its st k, at_rest done name its st ->
  pstep st (TTag k) = Some (mkp done (Some (name, its)) (PTag k)).
Proof.
  intros done name its st k H. unfold pstep.
  destruct (at_rest_pcur _ _ _ _ H) as [c Hc]. rewrite Hc.
  rewrite (at_rest_flush _ _ _ _ H).
  destruct H; simpl; reflexivity.
Qed.

Lemma prun_pair : forall done name its st kv, at_rest done name its st ->
  exists st', prun (Some st) (toks_pair kv) = Some st' /\ at_rest done name (pitem_pair kv :: its) st'.
Proof.
  intros done name its st kv H. unfold toks_pair. rewrite prun_cons.
  rewrite (pstep_tag_rest _ _ _ _ _ H). rewrite prun_cons. simpl.
  eexists; split; [reflexivity|]. apply rest_none.
Qed.

Lemma prun_pairs : forall pairs done name its st, at_rest done name its st ->
  exists st', prun (Some st) (flat_map toks_pair pairs) = Some st'
              /\ at_rest done name (rev (map pitem_pair pairs) ++ its) st'.
Proof.
  induction pairs as [|kv pairs IH]; intros done name its st H.
  - exists st; split; auto.
  - change (flat_map toks_pair (kv :: pairs)) with (toks_pair kv ++ flat_map toks_pair pairs).
    rewrite prun_app.
    destruct (prun_pair _ _ _ _ kv H) as [st1 [E1 H1]]. rewrite E1.
    destruct (IH _ _ _ _ H1) as [st2 [E2 H2]]. exists st2; split; auto.
    simpl. rewrite <- app_assoc. exact H2.
Qed.

(* loop header *)
Lemma prun_loop_tags : forall tags done cur acc,
  prun (Some (mkp done (Some cur) (PLoopTags acc))) (map TTag tags)
  = Some (mkp done (Some cur) (PLoopTags (rev tags ++ acc))).
Proof.
  induction tags as [|t tags IH]; intros done cur acc; simpl; auto.
  rewrite IH. now rewrite <- app_assoc.
Qed.

(* the state in a loop body with complete rows: as PLoopVals, or right after the header *)
Definition in_body (done : list block) (cur : str * list item) (tags : list str) (rows : list (list value))
  (st : pstate) : Prop :=
  st = mkp done (Some cur) (PLoopVals tags rows []) \/
  (rows = [] /\ tags <> [] /\ st = mkp done (Some cur) (PLoopTags (rev tags))).

Lemma prun_partial_row : forall vals done cur tags rows acc,
  length acc + length vals = length tags -> vals <> [] ->
  prun (Some (mkp done (Some cur) (PLoopVals tags rows acc))) (map TVal vals)
  = Some (mkp done (Some cur) (PLoopVals tags ((rev acc ++ vals) :: rows) [])).
Proof.
  induction vals as [|v vals IH]; intros done cur tags rows acc Hlen Hne; [congruence|].
  simpl map. simpl prun. unfold push_val.
  destruct vals as [|v2 vals].
  - simpl in Hlen. replace (length (v :: acc)) with (length tags) by (simpl; lia).
    rewrite Nat.eqb_refl. simpl. reflexivity.
  - assert (Hneq : Nat.eqb (length (v :: acc)) (length tags) = false).
    { apply Nat.eqb_neq. simpl in *. lia. }
    rewrite Hneq. rewrite IH.
    + simpl. rewrite <- app_assoc. reflexivity.
    + simpl in *. lia.
    + discriminate.
Qed.

Lemma prun_row : forall done cur tags rows st (row : list value),
  in_body done cur tags rows st -> length row = length tags -> row <> [] ->
  exists st', prun (Some st) (map TVal row) = Some st' /\ in_body done cur tags (row :: rows) st'.
Proof.
  intros done cur tags rows st row Hb Hlen Hne.
  destruct Hb as [->|[-> [Hnt ->]]].
  - rewrite (prun_partial_row row done cur tags rows []); auto.
    eexists; split; [reflexivity|]. left. reflexivity.
  - destruct row as [|v row]; [congruence|].
    (* the first value after the header *)
    assert (E : pstep (mkp done (Some cur) (PLoopTags (rev tags))) (TVal v)
                = pstep (mkp done (Some cur) (PLoopVals tags [] [])) (TVal v)).
    { unfold pstep. simpl. destruct (rev tags) eqn:Er.
      - apply (f_equal (@rev str)) in Er. rewrite rev_involutive in Er. simpl in Er. congruence.
      - rewrite <- Er, rev_involutive. reflexivity. }
    simpl map. rewrite prun_cons. rewrite E.
    change (prun (pstep (mkp done (Some cur) (PLoopVals tags [] [])) (TVal v)) (map TVal row))
      with (prun (Some (mkp done (Some cur) (PLoopVals tags [] []))) (map TVal (v :: row))).
    rewrite (prun_partial_row (v :: row) done cur tags [] []); auto.
    eexists; split; [reflexivity|]. left. reflexivity.
Qed.

Lemma prun_rows : forall (rows : list (list value)) done cur tags rows0 st,
  in_body done cur tags rows0 st ->
  (forall r, In r rows -> length r = length tags /\ r <> []) ->
  exists st', prun (Some st) (flat_map (map TVal) rows) = Some st'
              /\ in_body done cur tags (rev rows ++ rows0) st'.
Proof.
  induction rows as [|r rows IH]; intros done cur tags rows0 st Hb Hall.
  - exists st; split; auto.
  - simpl flat_map. rewrite prun_app.
    destruct (Hall r (or_introl eq_refl)) as [Hl Hn].
    destruct (prun_row _ _ _ _ _ r Hb Hl Hn) as [st1 [E1 H1]]. rewrite E1.
    destruct (IH done cur tags (r :: rows0) st1 H1) as [st2 [E2 H2]].
    { intros r' Hr'. apply Hall. now right. }
    exists st2; split; auto. simpl. rewrite <- app_assoc. exact H2.
Qed.

Lemma map_tval_eq : forall r, map tval r = map TVal (map (parsed_value R) r).
Proof. intro r; rewrite map_map; reflexivity. Qed.

Lemma prun_loop : forall l done name its st, loop_ok l = true -> at_rest done name its st ->
  exists st', prun (Some st) (toks_loop l) = Some st' /\ at_rest done name (pitem_loop l :: its) st'.
Proof.
  intros l done name its st H Hr. unfold loop_ok, gloop_ok in H.
  apply andb_true_iff in H as [H Hrows]. apply andb_true_iff in H as [H Hnr].
  apply andb_true_iff in H as [H Htags]. apply andb_true_iff in H as [Hc Hnt].
  apply negb_true_iff in Hnt, Hnr. apply Nat.eqb_neq in Hnt, Hnr.
  unfold toks_loop.
  (* loop_ *)
  change (TLoop :: map TTag (ltags l) ++ flat_map (map tval) (lrows l))
    with ([TLoop] ++ map TTag (ltags l) ++ flat_map (map tval) (lrows l)).
  rewrite prun_app.
  assert (E0 : prun (Some st) [TLoop] = Some (mkp done (Some (name, its)) (PLoopTags []))).
  { simpl. unfold pstep. destruct (at_rest_pcur _ _ _ _ Hr) as [c Hc']. rewrite Hc'.
    rewrite (at_rest_flush _ _ _ _ Hr). reflexivity. }
  rewrite E0, prun_app, prun_loop_tags, app_nil_r.
  replace (flat_map (map tval) (lrows l)) with (flat_map (map TVal) (map (map (parsed_value R)) (lrows l))).
  2:{ rewrite !flat_map_concat_map, map_map. f_equal. apply map_ext. intro r. now rewrite map_tval_eq. }
  destruct (prun_rows (map (map (parsed_value R)) (lrows l)) done (name, its) (ltags l) []
              (mkp done (Some (name, its)) (PLoopTags (rev (ltags l))))) as [st' [E H']].
  { right. split; auto. split; auto. destruct (ltags l); [simpl in Hnt; congruence|discriminate]. }
  { intros r Hr'. apply in_map_iff in Hr' as [r0 [<- Hr0]].
    rewrite forallb_forall in Hrows. specialize (Hrows r0 Hr0). unfold row_ok, grow_ok in Hrows.
    apply andb_true_iff in Hrows as [Hl _]. apply Nat.eqb_eq in Hl.
    rewrite map_length. split; auto. destruct r0; [simpl in Hl; congruence|discriminate]. }
  exists st'. split; auto.
  rewrite app_nil_r in H'.
  destruct H' as [->|[Hnil _]].
  - apply rest_loop.
    + intro Hnil. apply (f_equal (@rev (list value))) in Hnil. rewrite rev_involutive in Hnil.
      simpl in Hnil. destruct (lrows l); [simpl in Hnr; congruence|discriminate].
    + rewrite rev_involutive. reflexivity.
  - apply (f_equal (@rev (list value))) in Hnil. rewrite rev_involutive in Hnil. simpl in Hnil.
    destruct (lrows l); [simpl in Hnr; congruence|discriminate].
Qed.

Lemma prun_item : forall i done name its st, item_ok i = true -> at_rest done name its st ->
  exists st', prun (Some st) (toks_item i) = Some st' /\ at_rest done name (rev (pitems i) ++ its) st'.
Proof.
  intros [c|l] done name its st H Hr.
  - apply prun_pairs; auto.
  - apply prun_loop; auto.
Qed.

Lemma prun_items : forall items done name its st, forallb item_ok items = true -> at_rest done name its st ->
  exists st', prun (Some st) (flat_map toks_item items) = Some st'
              /\ at_rest done name (rev (flat_map pitems items) ++ its) st'.
Proof.
  induction items as [|i items IH]; intros done name its st H Hr.
  - exists st; split; auto.
  - simpl in H. apply andb_true_iff in H as [Hi Hitems].
    simpl flat_map. rewrite prun_app.
    destruct (prun_item i _ _ _ _ Hi Hr) as [st1 [E1 H1]]. rewrite E1.
    destruct (IH _ _ _ _ Hitems H1) as [st2 [E2 H2]]. exists st2; split; auto.
    rewrite rev_app_distr, <- app_assoc. exact H2.
Qed.

(* between blocks: the finished blocks, reversed *)
Definition between (done : list block) (st : pstate) : Prop :=
  exists st0, flush st = Some st0 /\ close_block st0 = done.

Lemma prun_block : forall b done st, block_ok b = true -> between done st ->
  exists st', prun (Some st) (toks_block b) = Some st' /\ between (pblock b :: done) st'.
Proof.
  intros b done st H [st0 [Hf Hc]]. unfold block_ok, gblock_ok in H.
  apply andb_true_iff in H as [H Hitems]. apply andb_true_iff in H as [H Hsch].
  unfold toks_block.
  change (TData (bname b) :: match schema_loop (bschema b) with Some l => toks_loop l | None => [] end
          ++ flat_map toks_item (bitems b))
    with ([TData (bname b)] ++ match schema_loop (bschema b) with Some l => toks_loop l | None => [] end
          ++ flat_map toks_item (bitems b)).
  rewrite prun_app.
  assert (E0 : prun (Some st) [TData (bname b)] = Some (mkp done (Some (bname b, [])) PNone)).
  { simpl. unfold pstep. rewrite Hf, Hc. reflexivity. }
  rewrite E0, prun_app.
  assert (Hs : exists st1, prun (Some (mkp done (Some (bname b, [])) PNone))
                                match schema_loop (bschema b) with Some l => toks_loop l | None => [] end = Some st1
               /\ at_rest done (bname b)
                          (rev match schema_loop (bschema b) with Some l => [pitem_loop l] | None => [] end ++ []) st1).
  { destruct (schema_loop (bschema b)) as [l|].
    - apply prun_loop; auto. apply rest_none.
    - eexists; split; [reflexivity|apply rest_none]. }
  destruct Hs as [st1 [E1 H1]]. rewrite E1.
  destruct (prun_items (bitems b) _ _ _ _ Hitems H1) as [st2 [E2 H2]].
  exists st2; split; auto.
  exists (mkp done (Some (bname b,
            rev (flat_map pitems (bitems b)) ++
            rev match schema_loop (bschema b) with Some l => [pitem_loop l] | None => [] end ++ [])) PNone).
  split; [apply (at_rest_flush _ _ _ _ H2)|].
  unfold close_block, pblock. simpl. f_equal. f_equal.
  rewrite app_nil_r, rev_app_distr, !rev_involutive. reflexivity.
Qed.

Lemma prun_blocks : forall blocks done st, forallb block_ok blocks = true -> between done st ->
  exists st', prun (Some st) (toks_file blocks) = Some st' /\ between (rev (parsed blocks) ++ done) st'.
Proof.
  induction blocks as [|b blocks IH]; intros done st H Hb.
  - exists st; split; auto.
  - simpl in H. apply andb_true_iff in H as [Hbk Hbs].
    unfold toks_file. change (flat_map toks_block (b :: blocks)) with (toks_block b ++ flat_map toks_block blocks).
    rewrite prun_app.
    destruct (prun_block b done st Hbk Hb) as [st1 [E1 H1]]. rewrite E1.
    destruct (IH _ _ Hbs H1) as [st2 [E2 H2]]. exists st2; split; auto.
    unfold parsed. simpl map. simpl rev. rewrite <- app_assoc. exact H2.
Qed.

Lemma parse_tokens_file : forall blocks, forallb block_ok blocks = true ->
  parse_tokens (toks_file blocks) = Some (parsed blocks).
Proof.
  intros blocks H. unfold parse_tokens.
  destruct (prun_blocks blocks [] pinit H) as [st [E [st0 [Hf Hc]]]].
  { exists pinit. split; reflexivity. }
  rewrite E. unfold pfinish. rewrite Hf, Hc, app_nil_r, rev_involutive. reflexivity.
Qed.

(* ------------------------------------------------------------------ the main theorem *)
Theorem parse_write_file : forall comment blocks, file_ok comment blocks = true ->
  parse (write_file R comment blocks) = Some (parsed blocks).
Proof.
  intros comment blocks H. unfold parse. rewrite lex_write_file by assumption.
  apply parse_tokens_file. unfold file_ok, gfile_ok in H. apply andb_true_iff in H as [_ H]. exact H.
Qed.

Lemma norm_parsed : forall blocks, norm_blocks (parsed blocks) = trim_content (content blocks).
Proof.
  intros blocks. unfold norm_blocks, parsed, trim_content, content. rewrite !map_map.
  apply map_ext. intro b. unfold pblock, content_of_block. simpl. f_equal.
  rewrite !map_app. f_equal.
  - destruct (schema_loop (bschema b)) as [l|]; auto. simpl. unfold pitem_loop. simpl.
    f_equal. f_equal. rewrite map_map. apply map_ext. intro r. rewrite map_map. apply map_ext.
    intro s. apply parsed_value_trim.
  - induction (bitems b) as [|i items IH]; auto. simpl. rewrite !map_app, IH. f_equal.
    destruct i as [c|l]; simpl.
    + rewrite !map_map. apply map_ext. intros [k v]. simpl. f_equal. apply parsed_value_trim.
    + unfold pitem_loop. simpl. f_equal. f_equal. rewrite map_map. apply map_ext. intro r.
      rewrite map_map. apply map_ext. intro s. apply parsed_value_trim.
Qed.

(* values recovered up to surrounding blanks; tags, loop shapes and order exactly *)
Theorem write_then_parse_generic : forall comment blocks, file_ok comment blocks = true ->
  option_map norm_blocks (parse (write_file R comment blocks)) = Some (trim_content (content blocks)).
Proof.
  intros comment blocks H. rewrite parse_write_file by assumption. simpl. now rewrite norm_parsed.
Qed.

End D.
