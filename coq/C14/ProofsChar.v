(* C14/ProofsChar.v — facts about character classes (each by inspection of the 256 characters). *)
From Coq Require Import String Ascii List Bool Arith.
From Verif.C14 Require Import Cif11 Writer.
Import ListNotations.

(* ------------------------------------------------------------------ characters *)
Definition pn (c : ascii) : bool := printable c || is_nl c.

Ltac allchars c := destruct c as [[] [] [] [] [] [] [] []]; try discriminate; try reflexivity.

Lemma nonblank_pn : forall c, nonblank c = true -> pn c = true.
Proof. intro c; allchars c. Qed.
Lemma nonblank_not_ws : forall c, nonblank c = true -> is_ws c = false.
Proof. intro c; allchars c. Qed.
Lemma printable_pn : forall c, printable c = true -> pn c = true.
Proof. intros c H; unfold pn; now rewrite H. Qed.
Lemma printable_not_nl : forall c, printable c = true -> is_nl c = false.
Proof. intro c; allchars c. Qed.
Lemma ws_pn : forall c, is_ws c = true -> pn c = true.
Proof. intro c; allchars c. Qed.
Lemma pn_nonblank : forall c, pn c = true -> is_ws c = false -> nonblank c = true.
Proof. intro c; allchars c. Qed.
Lemma is_ws_split : forall c, is_ws c = false -> is_nl c = false /\ is_blank c = false.
Proof. intro c; unfold is_ws; destruct (is_blank c), (is_nl c); simpl; auto; discriminate. Qed.

Lemma eqb_false_sym : forall a b, Ascii.eqb a b = false -> Ascii.eqb b a = false.
Proof. intros a b H; rewrite Ascii.eqb_sym; exact H. Qed.

(* how a character that opens an unquoted word / tag is dispatched between tokens *)
Definition word_lead (c : ascii) : bool :=
  nonblank c && negb (Ascii.eqb c "#") && negb (Ascii.eqb c semi) && negb (Ascii.eqb c squote)
  && negb (Ascii.eqb c dquote) && negb (Ascii.eqb c "$") && negb (Ascii.eqb c "[") && negb (Ascii.eqb c "]").

Lemma lstep_ws_word : forall c b ts, word_lead c = true -> lstep (LWs b, ts) c = Some (LBare [c], ts).
Proof. intros c b ts; allchars c; destruct b; reflexivity. Qed.

