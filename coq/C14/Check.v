(* C14/Check.v — executable checker used by the correspondence run (definitions only).
   A case holds WHAT WAS SUPPLIED to the real package (strings as code points, numbers as exact
   rationals, the builder calls) and WHAT IT WROTE (the text) or that it raised.  [check_case]
   decides, inside Coq:
     (b) Cif11.parse text = the supplied content (strings up to surrounding blanks; numeric cells: the
         token obeys the oracle contract and its exact decimal meaning agrees with the supplied number
         to printed precision; _su columns: token^2 = variance);
     (a) text = the model writer's output, where the numeric tokens and the iteration order of the
         schema set (the two oracles of Writer.v) are taken from the parsed text;
     and that the text is ASCII.
   Also here: the model of the high-level builder (CIF.save, _add_audit, with_beamline,
   _make_reduced_powder_loop, _make_powder_calibration_loop) in terms of Writer.v. *)
From Coq Require Import String Ascii List Bool Arith NArith ZArith QArith Qabs DecimalString.
From Verif.C14 Require Import Cif11 Writer ProofsLex ProofsDoc ProofsRules ProofsMisc.
Import ListNotations.
Open Scope string_scope.
Open Scope list_scope.

(* ------------------------------------------------------------------ supplied data *)
Inductive num :=
| NInt (z : Z)                  (* int / integer variable: printed exactly *)
| NFloat (x : Q)                (* float without variance: str(float) *)
| NFloatVar (x : Q) (var : Q)   (* value with variance: compact notation  v(su) *)
| NSu (var : Q)                 (* standard-uncertainty column: str(sqrt(var)) *)
| NDate.                        (* isoformat of a datetime that the caller cannot know (creation date) *)
Inductive cell := CStr (cps : list N) | CNum (n : num).

Definition uschema := schema.
Record uchunk := mkuchunk { uc_comment : list N; uc_schemas : list uschema; uc_pairs : list (str * cell) }.
Record uloop := mkuloop { ul_comment : list N; ul_schemas : list uschema; ul_cols : list (str * list cell) }.
Inductive uitem := UChunk (c : uchunk) | ULoop (l : uloop).
Record ublock := mkublock { ub_comment : list N; ub_name : list N; ub_schemas : list uschema;
                            ub_items : list uitem }.
Inductive outcome := OText (t : str) | ORaise (cls : string).
Record ucase := mkucase { u_comment : list N; u_blocks : list ublock; u_out : outcome }.

(* ------------------------------------------------------------------ schemas (Python sets) *)
Definition schema_eqb (a b : schema) : bool :=
  str_eqb (fst (fst a)) (fst (fst b)) && str_eqb (snd (fst a)) (snd (fst b)) && str_eqb (snd a) (snd b).
Fixpoint dedup (l : list schema) : list schema :=
  match l with
  | [] => []
  | x :: r => if existsb (schema_eqb x) r then dedup r else x :: dedup r
  end.
Section Sch.
Variable core : schema.
(* _preprocess_schema *)
Definition preprocess (l : list schema) : list schema :=
  match l with [] => [] | _ => dedup (l ++ [core]) end.
Definition item_schemas (i : uitem) : list schema :=
  match i with UChunk c => preprocess (uc_schemas c) | ULoop l => preprocess (ul_schemas l) end.
(* Block.schema *)
Definition block_schemas (b : ublock) : list schema :=
  dedup (preprocess (ub_schemas b) ++ flat_map item_schemas (ub_items b)).
End Sch.

(* ------------------------------------------------------------------ decimal tokens *)
Definition digit_of (c : ascii) : option Z :=
  let n := nat_of_ascii c in
  if Nat.leb 48 n && Nat.leb n 57 then Some (Z.of_nat (n - 48)) else None.
(* leading digits: value, count, count of trailing zeros, rest *)
Fixpoint take_digits (s : str) (acc : Z) (cnt tz : nat) : Z * nat * nat * str :=
  match s with
  | c :: r => match digit_of c with
              | Some d => take_digits r (acc * 10 + d)%Z (Datatypes.S cnt)
                                      (if Z.eqb d 0 then Datatypes.S tz else O)
              | None => (acc, cnt, tz, s)
              end
  | [] => (acc, cnt, tz, s)
  end.
Definition take_sign (s : str) : bool * str :=
  match s with
  | c :: r => if Ascii.eqb c "-" then (true, r) else if Ascii.eqb c "+" then (false, r) else (false, s)
  | [] => (false, s)
  end.

Record numtok := mknt { nt_neg : bool; nt_mant : Z; nt_fd : nat; nt_point : bool;
                        nt_exp : option Z; nt_su : option (Z * nat) }.

Definition parse_paren (s : str) : option (Z * nat * str) :=
  match s with
  | c :: r =>
      if Ascii.eqb c "(" then
        let '(v, cnt, tz, r') := take_digits r 0%Z O O in
        match cnt, r' with
        | Datatypes.S _, c2 :: r'' => if Ascii.eqb c2 ")" then Some (v, tz, r'') else None
        | _, _ => None
        end
      else None
  | [] => None
  end.
Definition parse_exp (s : str) : option (Z * str) :=
  match s with
  | c :: r =>
      if Ascii.eqb c "e" || Ascii.eqb c "E" then
        let '(neg, r1) := take_sign r in
        let '(v, cnt, _, r2) := take_digits r1 0%Z O O in
        match cnt with O => None | _ => Some (if neg then (- v)%Z else v, r2) end
      else None
  | [] => None
  end.

Definition parse_num (s : str) : option numtok :=
  let '(neg, s1) := take_sign s in
  let '(ip, icnt, _, s2) := take_digits s1 0%Z O O in
  match icnt with O => None | _ =>
    let '(mant, fd, point, s3) :=
      match s2 with
      | c :: r => if Ascii.eqb c "." then
                    let '(m, cnt, _, r') := take_digits r ip O O in (m, cnt, true, r')
                  else (ip, O, false, s2)
      | [] => (ip, O, false, s2)
      end in
    (* optional (su) and exponent, in either order *)
    let fin (ex : option Z) (su : option (Z * nat)) (rest : str) :=
      match rest with [] => Some (mknt neg mant fd point ex su) | _ => None end in
    match parse_paren s3 with
    | Some (v, tz, s4) =>
        match parse_exp s4 with
        | Some (e, s5) => fin (Some e) (Some (v, tz)) s5
        | None => fin None (Some (v, tz)) s4
        end
    | None =>
        match parse_exp s3 with
        | Some (e, s4) =>
            match parse_paren s4 with
            | Some (v, tz, s5) => fin (Some e) (Some (v, tz)) s5
            | None => fin (Some e) None s4
            end
        | None => fin None None s3
        end
    end
  end.

Definition pow10 (k : Z) : Q :=
  if Z.leb 0 k then inject_Z (Z.pow 10 k) else 1 # (Z.to_pos (Z.pow 10 (- k))).
(* unit of the last printed digit *)
Definition nt_unit (t : numtok) : Q :=
  pow10 (match nt_exp t with Some e => e | None => 0%Z end - Z.of_nat (nt_fd t)).
Definition nt_value (t : numtok) : Q :=
  (inject_Z (if nt_neg t then - nt_mant t else nt_mant t)) * nt_unit t.

(* slack for the floating-point evaluation of the rounding itself: a few ulp of the value *)
Definition fslack (x : Q) : Q := Qabs x * (1 # 1125899906842624).      (* 2^-50 *)
Definition qle (a b : Q) : bool := Qle_bool a b.

Definition check_num (n : num) (tok : str) : string :=
  match n with
  | NDate =>
      if negb (nonempty tok) then "date-token"
      else if forallb (fun c => numeric_char c || Ascii.eqb c ":" || Ascii.eqb c "T" || Ascii.eqb c "Z") tok
      then "" else "date-token"
  | _ =>
  if negb (numeric_token tok) then "number-token-charset" else
  match parse_num tok with
  | None => "number-token-syntax"
  | Some t =>
      let v := nt_value t in
      let u := nt_unit t in
      match n with
      | NInt z =>
          if nt_point t || (match nt_exp t with Some _ => true | None => false end)
             || (match nt_su t with Some _ => true | None => false end) then "integer-form"
          else if Qeq_bool v (inject_Z z) then "" else "integer-value"
      | NFloat x =>
          match nt_su t with Some _ => "unexpected-su" | None =>
          if qle (Qabs (v - x)) (u * (1 # 2) + fslack x) then "" else "number-value" end
      | NFloatVar x var =>
          match nt_su t with
          | None => if Qeq_bool var 0 then
                      (if qle (Qabs (v - x)) (u * (1 # 2) + fslack x) then "" else "number-value")
                    else "missing-su"
          | Some (sv, tz) =>
              let su := inject_Z sv * u in
              (* value: rounded at a digit position not coarser than the su; with decimals the last printed
                 digit is that position, without decimals the digits may be the expansion of a float *)
              let ru := match nt_fd t with O => su | _ => u end in
              if negb (qle (Qabs (v - x)) (ru * (1 # 2) + fslack x)) then "number-value"
              else
                (* the su is printed with one significant digit (two if the first is 1) *)
                let tol := su * (1 # 4) in
                let lo := su - tol in
                let hi := su + tol in
                if qle (lo * lo) (var * (1000000001 # 1000000000)) && qle (var * (999999999 # 1000000000)) (hi * hi)
                then "" else "su-value"
          end
      | NSu var =>
          match nt_su t with Some _ => "unexpected-su" | None =>
          if qle (Qabs (v * v - var)) (var * (1 # 100000000000000)) then "" else "su-not-sqrt-variance" end
      | NDate => ""
      end
  end
  end.

(* ------------------------------------------------------------------ comparison with the parse *)
Inductive res (X : Type) := Err (e : string) | Ok (x : X).
Arguments Err {X} e.
Arguments Ok {X} x.
Definition bind {X Y} (r : res X) (f : X -> res Y) : res Y :=
  match r with Err e => Err e | Ok x => f x end.
Fixpoint mapM {X Y} (f : X -> res Y) (l : list X) : res (list Y) :=
  match l with
  | [] => Ok []
  | x :: r => bind (f x) (fun y => bind (mapM f r) (fun ys => Ok (y :: ys)))
  end.
Fixpoint zipM {X Y Z} (what : string) (f : X -> Y -> res Z) (a : list X) (b : list Y) : res (list Z) :=
  match a, b with
  | [], [] => Ok []
  | x :: a', y :: b' => bind (f x y) (fun z => bind (zipM what f a' b') (fun zs => Ok (z :: zs)))
  | _, _ => Err what
  end.

(* the string the model is to write for this cell: the encoded supplied string, or the token read *)
Definition cell_check (c : cell) (v : value) : res str :=
  match c with
  | CStr cps =>
      let e := encode_non_ascii cps in
      if str_eqb (trim (snd v)) (trim e) then Ok e else Err "string-value-differs"
  | CNum n =>
      match fst v with
      | KBare => match check_num n (snd v) with "" => Ok (snd v) | e => Err e end
      | _ => Err "number-quoted"
      end
  end.

Definition ctranspose (n : nat) (cols : list (list cell)) : list (list cell) :=
  let fix go (k : nat) (cs : list (list cell)) :=
    match k with
    | O => []
    | Datatypes.S k' => map (fun c => hd (CStr []) c) cs :: go k' (map (fun c => tl c) cs)
    end in go n cols.
Definition cols_rect (cols : list (str * list cell)) : bool :=
  match cols with
  | [] => true
  | (_, c0) :: _ => forallb (fun kc => Nat.eqb (length (snd kc)) (length c0)) cols
  end.
Definition loop_rows (l : uloop) : list (list cell) :=
  match ul_cols l with
  | [] => []
  | (_, c0) :: _ => ctranspose (length c0) (map snd (ul_cols l))
  end.

(* supplied items of a block against parsed items; chunks are flattened (CIF has no chunks);
   yields the model items *)
Fixpoint match_pairs (ps : list (str * cell)) (its : list item) : res (list (str * str) * list item) :=
  match ps with
  | [] => Ok ([], its)
  | (k, c) :: ps' =>
      match its with
      | IPair t v :: its' =>
          if negb (str_eqb t k) then Err "tag-differs"
          else bind (cell_check c v) (fun s =>
               bind (match_pairs ps' its') (fun r => Ok ((k, s) :: fst r, snd r)))
      | _ => Err "content-shape"
      end
  end.

Fixpoint match_items (us : list uitem) (its : list item) : res (list bitem) :=
  match us with
  | [] => match its with [] => Ok [] | _ => Err "extra-items" end
  | UChunk c :: us' =>
      bind (match_pairs (uc_pairs c) its) (fun r =>
      bind (match_items us' (snd r)) (fun rest =>
      Ok (BChunk (mkchunk (encode_non_ascii (uc_comment c)) (fst r)) :: rest)))
  | ULoop l :: us' =>
      match its with
      | ILoop tags rows :: its' =>
          if negb (Nat.eqb (length tags) (length (ul_cols l)))
             || negb (forallb (fun p => str_eqb (fst p) (snd p)) (combine tags (map fst (ul_cols l))))
          then Err "loop-tags-differ"
          else
            bind (zipM "loop-row-count" (fun cr vr => zipM "loop-row-length" cell_check cr vr) (loop_rows l) rows)
                 (fun mrows =>
            bind (match_items us' its') (fun rest =>
            Ok (BLoop (mkloop (encode_non_ascii (ul_comment l)) (map fst (ul_cols l)) mrows) :: rest)))
      | _ => Err "content-shape"
      end
  end.

(* the schema loop: rows are the expected set in SOME order *)
Definition schema_tags : list str :=
  [S "audit_conform.dict_name"; S "audit_conform.dict_version"; S "audit_conform.dict_location"].
Definition row_schema (r : list value) : option schema :=
  match r with [a; b; c] => Some (trim (snd a), trim (snd b), trim (snd c)) | _ => None end.
Definition match_schema (expected : list schema) (its : list item) : res (list schema * list item) :=
  match expected with
  | [] => Ok ([], its)
  | _ =>
      match its with
      | ILoop tags rows :: its' =>
          if negb (Nat.eqb (length tags) 3)
             || negb (forallb (fun p => str_eqb (fst p) (snd p)) (combine tags schema_tags))
          then Err "schema-loop-tags"
          else
            bind (mapM (fun r => match row_schema r with
                                 | Some s => match find (schema_eqb s) expected with
                                             | Some e => Ok e
                                             | None => Err "schema-row-unexpected" end
                                 | None => Err "schema-row-shape" end) rows) (fun ord =>
            if Nat.eqb (length ord) (length expected)
               && forallb (fun e => existsb (schema_eqb e) ord) expected
            then Ok (ord, its') else Err "schema-set-differs")
      | _ => Err "schema-loop-missing"
      end
  end.

Section Chk.
Variable R : rules.
Variable core : schema.

Definition match_block (u : ublock) (b : block) : res cblock :=
  let name := encode_non_ascii (ub_name u) in
  if negb (str_eqb (fst b) name) then Err "block-code-differs"
  else
    bind (match_schema (block_schemas core u) (snd b)) (fun r =>
    bind (match_items (ub_items u) (snd r)) (fun items =>
    Ok (mkblock (encode_non_ascii (ub_comment u)) name (fst r) items))).

(* does the supplied document make the (model of the) package raise? *)
Definition cell_refused (c : cell) : bool :=
  match c with CStr cps => value_refused R (encode_non_ascii cps) | CNum _ => false end.
Definition uitem_refused (i : uitem) : bool :=
  match i with
  | UChunk c => existsb (fun kc => cell_refused (snd kc)) (uc_pairs c)
  | ULoop l => existsb (fun kc => existsb cell_refused (snd kc)) (ul_cols l)
  end.
Definition case_refused (c : ucase) : bool :=
  existsb (fun b => existsb uitem_refused (ub_items b)) (u_blocks c).
Definition case_ragged (c : ucase) : bool :=
  existsb (fun b => existsb (fun i => match i with ULoop l => negb (cols_rect (ul_cols l)) | _ => false end)
                            (ub_items b)) (u_blocks c).

(* the model document for a case given the parsed blocks *)
Definition model_of (c : ucase) (bs : list block) : res (list cblock) :=
  zipM "block-count" match_block (u_blocks c) bs.

(* "" = agreement *)
Definition check_case (c : ucase) : string :=
  match u_out c with
  | ORaise cls =>
      if case_ragged c then (if String.eqb cls "DimensionError" then "" else ("ragged-loop-wrong-exception:" ++ cls)%string)
      else if case_refused c then (if String.eqb cls "ValueError" then "" else ("refusal-wrong-exception:" ++ cls)%string)
      else ("impl-raised:" ++ cls)%string
  | OText t =>
      if case_ragged c then "ragged-loop-accepted"
      else if negb (ascii_str t) then "non-ascii-output"
      else if case_refused c then "impl-wrote-a-value-the-model-refuses"
      else
        match parse t with
        | None => "not-valid-cif"
        | Some bs =>
            match model_of c bs with
            | Err e => e
            | Ok blocks =>
                if str_eqb (write_file R (encode_non_ascii (u_comment c)) blocks) t then ""
                else "text-differs-from-model"
            end
        end
  end.

(* only the tie between the quoting rule and the implementation (boundary corpus): the model text
   equals the implementation text / both refuse *)
Definition check_rule (c : ucase) : string :=
  match u_out c with
  | ORaise cls => if case_refused c then "" else "impl-raised"
  | OText t =>
      if case_refused c then "model-refuses" else
      let blocks :=
        map (fun u => mkblock (encode_non_ascii (ub_comment u)) (encode_non_ascii (ub_name u)) []
               (map (fun i => match i with
                     | UChunk ch => BChunk (mkchunk (encode_non_ascii (uc_comment ch))
                          (map (fun kc => (fst kc, match snd kc with CStr cps => encode_non_ascii cps | _ => [] end))
                               (uc_pairs ch)))
                     | ULoop l => BLoop (mkloop [] [] []) end) (ub_items u))) (u_blocks c) in
      if str_eqb (write_file R (encode_non_ascii (u_comment c)) blocks) t then "" else "differs"
  end.

(* is the case inside the domain of the write_then_parse theorem for P? (coverage statistics) *)
Definition in_domain (P : str -> bool) (c : ucase) : bool :=
  match u_out c with
  | OText t =>
      match parse t with
      | Some bs => match model_of c bs with
                   | Ok blocks => gfile_ok P (encode_non_ascii (u_comment c)) blocks
                   | Err _ => false end
      | None => false
      end
  | ORaise _ => false
  end.
End Chk.

(* ------------------------------------------------------------------ the high-level builder *)
Record uperson := mkup { up_name : list N; up_email : list N; up_address : list N; up_orcid : list N;
                         up_role : list N; up_corresponding : bool }.
Inductive bcall :=
| BAuthors (ps : list uperson)
| BReducers (rs : list (list N))
| BBeamline (name : list N) (facility : option (list N)) (source : option nat)   (* 0 spallation 1 reactor 2 synchrotron *)
            (comment : list N)
| BPowder (tof : bool) (dname : option str) (coord : list Q) (coord_var : option (list Q))
          (data : list Q) (data_var : option (list Q)) (unit_str : option (list N)) (comment : list N)
| BCalib (powers : list Z) (coeffs : list Q) (coeff_var : option (list Q)) (comment : list N).
Record bcase := mkbcase { bc_name : list N; bc_comment : list N; bc_calls : list bcall;
                          bc_first_id : nat; bc_out : outcome }.

Section Bld.
Variables core pd : schema.
Variable version : list N.            (* scippneutron.__version__ *)
Variable spallation : list str.       (* _KNOWN_SPALLATION_SOURCES *)

Definition cstr (s : string) : cell := CStr (A s).
Definition lower_ascii (cps : list N) : option str :=
  if forallb (fun n => N.ltb n 128) cps then Some (map (fun n => to_lower (ascii_of_N n)) cps) else None.
Definition known_spallation (facility : option (list N)) : bool :=
  match facility with
  | Some f => match lower_ascii f with
              | Some l => existsb (str_eqb l) spallation
              | None => false end
  | None => false
  end.

Definition beamline_chunk (name : list N) (facility : option (list N)) (source : option nat) (comment : list N)
  : uitem :=
  let device : option string :=
    match source with
    | None => if known_spallation facility then Some "spallation" else None
    | Some 0%nat => Some "spallation" | Some 1%nat => Some "nuclear" | Some _ => Some "synch"
    end in
  let probe : option string :=
    match source with
    | None => if known_spallation facility then Some "neutron" else None
    | Some 0%nat | Some 1%nat => Some "neutron" | Some _ => Some "x-ray"
    end in
  UChunk (mkuchunk comment [core]
    ((match probe with Some p => [(S "diffrn_radiation.probe", cstr p)] | None => [] end)
     ++ [(S "diffrn_source.beamline", CStr name)]
     ++ (match facility with Some f => [(S "diffrn_source.facility", CStr f)] | None => [] end)
     ++ (match device with Some d => [(S "diffrn_source.device", cstr d)] | None => [] end))).

Definition powder_loop (tof : bool) (dname : option str) (coord : list Q) (coord_var : option (list Q))
  (data : list Q) (data_var : option (list Q)) (unit_str : option (list N)) (comment : list N) : uitem :=
  let cname := if tof then S "pd_meas.time_of_flight" else S "pd_proc.d_spacing" in
  let dn := S "pd_proc." ++ match dname with Some n => n | None => S "intensity_norm" end in
  let comment' := match unit_str with
                  | None => comment
                  | Some u => (match comment with [] => [] | _ => comment ++ [10%N] end)
                              ++ A "Unit of intensity: [" ++ u ++ A "]"
                  end in
  ULoop (mkuloop comment' [pd]
    ([(S "pd_data.point_id", map (fun i => CNum (NInt (Z.of_nat i))) (seq 0 (length data)));
      (cname, map (fun x => CNum (NFloat x)) coord)]
     ++ (match coord_var with Some v => [(cname ++ S "_su", map (fun x => CNum (NSu x)) v)] | None => [] end)
     ++ [(dn, map (fun x => CNum (NFloat x)) data)]
     ++ (match data_var with Some v => [(dn ++ S "_su", map (fun x => CNum (NSu x)) v)] | None => [] end))).

Definition z_str (z : Z) : str := S (NilEmpty.string_of_int (Z.to_int z)).
Definition calib_id (p : Z) : cell :=
  if Z.eqb p 0 then cstr "ZERO" else if Z.eqb p 1 then cstr "DIFC" else if Z.eqb p 2 then cstr "DIFA"
  else if Z.eqb p (-1) then cstr "DIFB"
  else CStr (map N_of_ascii ("c"%char :: map (fun c => if Ascii.eqb c "-" || Ascii.eqb c "." then "_"%char else c)
                                                 (z_str p))).
Definition calib_loop (powers : list Z) (coeffs : list Q) (cvar : option (list Q)) (comment : list N) : uitem :=
  ULoop (mkuloop comment [pd]
    ([(S "pd_calib_d_to_tof.id", map calib_id powers);
      (S "pd_calib_d_to_tof.power", map (fun p => CNum (NInt p)) powers);
      (S "pd_calib_d_to_tof.coeff", map (fun x => CNum (NFloat x)) coeffs)]
     ++ (match cvar with Some v => [(S "pd_calib_d_to_tof.coeff_su", map (fun x => CNum (NSu x)) v)] | None => [] end))).

(* authors: the model of Writer.v works on encoded strings; bring its items back to cells *)
Definition enc_person (p : uperson) : person :=
  mkperson (encode_non_ascii (up_name p)) (encode_non_ascii (up_email p)) (encode_non_ascii (up_address p))
           (encode_non_ascii (up_orcid p)) (encode_non_ascii (up_role p)) (up_corresponding p).
Definition cell_of_str (s : str) : cell := CStr (map N_of_ascii s).
Definition uitem_of_bitem (i : bitem) : uitem :=
  match i with
  | BChunk c => UChunk (mkuchunk [] [core] (map (fun kv => (fst kv, cell_of_str (snd kv))) (cpairs c)))
  | BLoop l =>
      (* back to columns *)
      ULoop (mkuloop [] [core]
        (map (fun ik => (snd ik, map (fun row => cell_of_str (nth (fst ik) row [])) (lrows l)))
             (combine (seq 0 (length (ltags l))) (ltags l))))
  end.

Definition all_authors (calls : list bcall) : list uperson :=
  flat_map (fun c => match c with BAuthors ps => ps | _ => [] end) calls.
Definition all_reducers (calls : list bcall) : list (list N) :=
  flat_map (fun c => match c with BReducers rs => rs | _ => [] end) calls.
Definition content_items (calls : list bcall) : list uitem :=
  flat_map (fun c => match c with
    | BBeamline n f s cm => [beamline_chunk n f s cm]
    | BPowder tof dn co cv da dv us cm => [powder_loop tof dn co cv da dv us cm]
    | BCalib p c v cm => [calib_loop p c v cm]
    | _ => [] end) calls.

(* CIF.save: audit chunk (+ reducers), authors, content, in one block *)
Definition build (b : bcase) : ucase :=
  let reducers := all_reducers (bc_calls b) in
  let audit := UChunk (mkuchunk [] [core]
      ([(S "audit.creation_date", CNum NDate);
        (S "audit.creation_method", CStr (A "Written by scippneutron " ++ version))]
       ++ match reducers with [r] => [(S "computing.diffrn_reduction", CStr r)] | _ => [] end)) in
  let redloop := match reducers with
                 | _ :: _ :: _ => [ULoop (mkuloop [] [core] [(S "computing.diffrn_reduction", map CStr reducers)])]
                 | _ => [] end in
  let authors := map uitem_of_bitem
                     (fst (assemble_authors (map enc_person (all_authors (bc_calls b))) (bc_first_id b))) in
  mkucase (bc_comment b)
          [mkublock [] (bc_name b) [] ([audit] ++ redloop ++ authors ++ content_items (bc_calls b))]
          (bc_out b).
End Bld.

(* author ids as read back from the parsed file: every role id is the id of exactly one author *)
Definition column_values (tag : str) (its : list item) : list str :=
  flat_map (fun i => match i with
    | IPair t v => if str_eqb t tag then [trim (snd v)] else []
    | ILoop tags rows =>
        flat_map (fun row => flat_map (fun tv => if str_eqb (fst tv) tag then [trim (snd (snd tv))] else [])
                                      (combine tags row)) rows
    end) its.
Fixpoint nodup_str (l : list str) : bool :=
  match l with [] => true | x :: r => negb (existsb (str_eqb x) r) && nodup_str r end.
Definition ids_consistent_text (t : str) : string :=
  match parse t with
  | Some [b] =>
      let aids := column_values (S "audit_contact_author.id") (snd b) ++ column_values (S "audit_author.id") (snd b) in
      let rids := column_values (S "audit_author_role.id") (snd b) in
      if negb (nodup_str aids) then "author-ids-not-distinct"
      else if negb (nodup_str rids) then "role-ids-not-distinct"
      else if forallb (fun r => existsb (str_eqb r) aids) rids then "" else "role-id-without-author"
  | _ => ""     (* reported by check_case *)
  end.

(* The state of the id generator at the start of a save is not observable in ONE file and the property
   (like author_ids_consistent, which holds for ANY starting state) does not fix it: the first id is an
   oracle read from the text (the smallest author id written), the case's own value if there is none. *)
Definition id_of_str (s : str) : option nat :=
  let '(v, cnt, _, rest) := take_digits s 0%Z O O in
  match cnt, rest with Datatypes.S _, [] => Some (Z.to_nat v) | _, _ => None end.
(* ids are handed out to the contact authors first, then to the regular authors; a category writes its id
   column only if one of ITS authors has a role.  [ncontact] = number of corresponding authors of the case. *)
Definition ids_of (col : list str) : list nat :=
  flat_map (fun s => match id_of_str s with Some n => [n] | None => [] end) col.
Definition first_id_of_text (t : str) (dflt ncontact : nat) : nat :=
  match parse t with
  | Some [b] =>
      match ids_of (column_values (S "audit_contact_author.id") (snd b)) with
      | n :: r => fold_left Nat.min r n
      | [] =>
          match ids_of (column_values (S "audit_author.id") (snd b)) with
          | n :: r => fold_left Nat.min r n - ncontact
          | [] => dflt
          end
      end
  | _ => dflt
  end.

Definition check_builder (R : rules) (core pd : schema) (version : list N) (spallation : list str) (b : bcase) : string :=
  let ncontact := List.length (filter up_corresponding (all_authors (bc_calls b))) in
  let first := match bc_out b with OText t => first_id_of_text t (bc_first_id b) ncontact | _ => bc_first_id b end in
  let c := build core pd version spallation (mkbcase (bc_name b) (bc_comment b) (bc_calls b) first (bc_out b)) in
  match (match bc_out b with OText t => ids_consistent_text t | _ => "" end) with
  | "" => check_case R core c
  | e => e
  end.
