(* Val.v — the universal value domain the translated Python denotes into, and
   the model of every scipp / numpy primitive the anchored sources use.

   A scipp Variable is modelled by ONE ELEMENT of it (value, unit, dtype):
   every kernel in the anchored code is written with broadcasting-only
   operations, so the array result is the pointwise image (that scipp does
   broadcast pointwise is *modelled*; the correspondence runs exercise it with
   scalar / 1-d / 2-d / binned operands).

   Everything is parametric in the arithmetic [O : Fops] so that the same
   definitions are reasoned about over R and executed over Q.
   This file contains definitions only (no proofs). *)
From Coq Require Import ZArith String List Bool.
From Verif.Sem Require Import Field.
Import ListNotations.
Open Scope string_scope.
Open Scope Z_scope.

(* ---------- dimensions: exponents of the base units scipp (LLNL units) uses *)
(* order: m kg s A K mol cd rad counts *)
Definition dims := list Z.
Definition dzero : dims := [0;0;0;0;0;0;0;0;0].
Fixpoint dmap2 (f : Z -> Z -> Z) (a b : dims) : dims :=
  match a, b with
  | x :: a', y :: b' => f x y :: dmap2 f a' b'
  | _, _ => []
  end.
Definition dadd := dmap2 Z.add.
Definition dsub := dmap2 Z.sub.
Definition dscale (n : Z) (a : dims) : dims := map (Z.mul n) a.
Fixpoint deqb (a b : dims) : bool :=
  match a, b with
  | [], [] => true
  | x :: a', y :: b' => (x =? y) && deqb a' b'
  | _, _ => false
  end.
Definition deven (a : dims) : bool := forallb Z.even a.
Definition dhalf (a : dims) : dims := map (fun x => x / 2) a.

Definition d_m : dims := [1;0;0;0;0;0;0;0;0].
Definition d_kg : dims := [0;1;0;0;0;0;0;0;0].
Definition d_s : dims := [0;0;1;0;0;0;0;0;0].
Definition d_K : dims := [0;0;0;0;1;0;0;0;0].
Definition d_rad : dims := [0;0;0;0;0;0;0;1;0].
Definition d_counts : dims := [0;0;0;0;0;0;0;0;1].
Definition d_J : dims := [2;1;-2;0;0;0;0;0;0].
Definition d_Js : dims := [2;1;-1;0;0;0;0;0;0].
Definition d_Hz : dims := [0;0;-1;0;0;0;0;0;0].
Definition d_mps2 : dims := [1;0;-2;0;0;0;0;0;0].

Inductive dtype := DF64 | DF32 | DI64 | DI32 | DBool | DVec3 | DMat3 | DOther.
Definition dtype_eqb (a b : dtype) : bool :=
  match a, b with
  | DF64, DF64 | DF32, DF32 | DI64, DI64 | DI32, DI32 | DBool, DBool
  | DVec3, DVec3 | DMat3, DMat3 | DOther, DOther => true
  | _, _ => false
  end.
Definition is_float (d : dtype) := match d with DF64 | DF32 => true | _ => false end.
Definition is_int (d : dtype) := match d with DI64 | DI32 => true | _ => false end.
Definition is_num (d : dtype) := is_float d || is_int d.

Inductive binop := OAdd | OSub | OMul | ODiv.

(* scipp's result dtype for element-wise arithmetic (probed on scipp 25.4:
   float64 wins; else float32 wins (also against integers); integers give
   int64 except int32 op int32; true division of integers gives float64). *)
Definition promote (op : binop) (a b : dtype) : dtype :=
  match a, b with
  | DF64, _ | _, DF64 => DF64
  | DF32, _ | _, DF32 => DF32
  | DI32, DI32 => match op with ODiv => DF64 | _ => DI32 end
  | _, _ => match op with ODiv => DF64 | _ => DI64 end
  end.

Section WithOps.
Variable O : Fops.
Local Notation F := (F O).
Local Notation "a +! b" := (fadd O a b) (at level 50, left associativity).
Local Notation "a -! b" := (fsub O a b) (at level 50, left associativity).
Local Notation "a *! b" := (fmul O a b) (at level 40, left associativity).
Local Notation "a /! b" := (fdiv O a b) (at level 40, left associativity).

Record unit := mkU { us : F; ud : dims }.
Definition u_one : unit := mkU f1 dzero.
Definition umul (a b : unit) := mkU (us a *! us b) (dadd (ud a) (ud b)).
Definition udiv (a b : unit) := mkU (us a /! us b) (dsub (ud a) (ud b)).
Definition upowZ (a : unit) (n : Z) := mkU (fpowZ (us a) n) (dscale n (ud a)).
Definition usqrt (a : unit) := mkU (fsqrt O (us a)) (dhalf (ud a)).
(* identical units, as scipp requires for + - comparison where.  Over R this
   is equality of the multipliers; over Q it is equality up to 1e-9 (the
   multipliers there carry sqrt approximations), see QInst.fclose. *)
Definition ueqb (a b : unit) := deqb (ud a) (ud b) && fclose O (us a) (us b).

Inductive elem :=
| ENum (x : F) (iz : option Z)          (* iz = Some n when the value is known to be the integer n *)
| ENaN
| EVec (x y z : F)
| EMat (a11 a12 a13 a21 a22 a23 a31 a32 a33 : F).

Inductive val :=
| VErr (e : string)
| VNone
| VBool (b : bool)
| VInt (z : Z)                          (* Python int *)
| VFloat (x : F)                        (* Python / numpy float *)
| VNaNF                                 (* numpy.nan *)
| VStr (s : string)
| VUnit (u : unit)
| VDType (d : dtype)
| VVar (e : elem) (u : unit) (d : dtype)
| VTuple (l : list val)
| VDict (l : list (string * val)).

Definition is_err (v : val) := match v with VErr _ => true | _ => false end.

(* Python scalars take part in scipp arithmetic as 0-d variables:
   int -> int64, float -> float64 (probed). *)
Definition coerce (v : val) : val :=
  match v with
  | VInt z => VVar (ENum (fofZ O z) (Some z)) u_one DI64
  | VFloat x => VVar (ENum x None) u_one DF64
  | VNaNF => VVar ENaN u_one DF64
  | _ => v
  end.

(* ---------- named units *)
Definition named_units : list (string * unit) :=
  [ ("angstrom", mkU (fdec 1 (-10)) d_m);
    ("Å", mkU (fdec 1 (-10)) d_m);
    ("m", mkU f1 d_m); ("mm", mkU (fdec 1 (-3)) d_m); ("cm", mkU (fdec 1 (-2)) d_m);
    ("nm", mkU (fdec 1 (-9)) d_m); ("um", mkU (fdec 1 (-6)) d_m); ("km", mkU (fdec 1 3) d_m);
    ("s", mkU f1 d_s); ("ms", mkU (fdec 1 (-3)) d_s); ("us", mkU (fdec 1 (-6)) d_s);
    ("ns", mkU (fdec 1 (-9)) d_s);
    ("Hz", mkU f1 d_Hz); ("kg", mkU f1 d_kg); ("K", mkU f1 d_K);
    ("J", mkU f1 d_J);
    ("meV", mkU (fdec 1602176634 (-31)) d_J);
    ("eV", mkU (fdec 1602176634 (-28)) d_J);
    ("rad", mkU f1 d_rad);
    ("deg", mkU (fpi O /! fofZ O 180) d_rad);
    ("one", u_one); ("dimensionless", u_one); ("", u_one);
    ("counts", mkU f1 d_counts);
    ("m/s^2", mkU f1 d_mps2); ("m/s**2", mkU f1 d_mps2);
    ("1/angstrom", mkU (fdec 1 10) (dscale (-1) d_m));
    ("s/m", mkU f1 (dsub d_s d_m));
    ("barn", mkU (fdec 1 (-28)) (dscale 2 d_m));
    ("fm", mkU (fdec 1 (-15)) d_m) ].
Fixpoint assoc {A} (k : string) (l : list (string * A)) : option A :=
  match l with
  | [] => None
  | (k', v) :: l' => if String.eqb k k' then Some v else assoc k l'
  end.
Definition as_unit (v : val) : option unit :=
  match v with
  | VUnit u => Some u
  | VStr s => assoc s named_units
  | _ => None
  end.

(* ---------- element arithmetic *)
Definition znum (z : Z) : elem := ENum (fofZ O z) (Some z).
Definition ebin (op : binop) (a b : elem) : option elem :=
  match a, b with
  | ENum x ix, ENum y iy =>
      Some (match op with
            | OAdd => ENum (x +! y) (match ix, iy with Some i, Some j => Some (i + j) | _, _ => None end)
            | OSub => ENum (x -! y) (match ix, iy with Some i, Some j => Some (i - j) | _, _ => None end)
            | OMul => ENum (x *! y) (match ix, iy with Some i, Some j => Some (i * j) | _, _ => None end)
            | ODiv => ENum (x /! y) None
            end)
  | ENaN, ENum _ _ | ENum _ _, ENaN | ENaN, ENaN => Some ENaN
  | EVec x y z, EVec x' y' z' =>
      match op with
      | OAdd => Some (EVec (x +! x') (y +! y') (z +! z'))
      | OSub => Some (EVec (x -! x') (y -! y') (z -! z'))
      | _ => None
      end
  | EVec x y z, ENum s _ =>
      match op with
      | OMul => Some (EVec (x *! s) (y *! s) (z *! s))
      | ODiv => Some (EVec (x /! s) (y /! s) (z /! s))
      | _ => None
      end
  | ENum s _, EVec x y z =>
      match op with
      | OMul => Some (EVec (s *! x) (s *! y) (s *! z))
      | _ => None
      end
  | EMat a11 a12 a13 a21 a22 a23 a31 a32 a33, EVec x y z =>
      match op with
      | OMul => Some (EVec (a11 *! x +! a12 *! y +! a13 *! z)
                           (a21 *! x +! a22 *! y +! a23 *! z)
                           (a31 *! x +! a32 *! y +! a33 *! z))
      | _ => None
      end
  | EMat a11 a12 a13 a21 a22 a23 a31 a32 a33, EMat b11 b12 b13 b21 b22 b23 b31 b32 b33 =>
      match op with
      | OMul => Some (EMat
          (a11 *! b11 +! a12 *! b21 +! a13 *! b31) (a11 *! b12 +! a12 *! b22 +! a13 *! b32) (a11 *! b13 +! a12 *! b23 +! a13 *! b33)
          (a21 *! b11 +! a22 *! b21 +! a23 *! b31) (a21 *! b12 +! a22 *! b22 +! a23 *! b32) (a21 *! b13 +! a22 *! b23 +! a23 *! b33)
          (a31 *! b11 +! a32 *! b21 +! a33 *! b31) (a31 *! b12 +! a32 *! b22 +! a33 *! b32) (a31 *! b13 +! a32 *! b23 +! a33 *! b33))
      | _ => None
      end
  | _, _ => None
  end.

Definition edtype (op : binop) (ea eb : elem) (da db : dtype) : dtype :=
  match ea, eb with
  | EVec _ _ _, _ | _, EVec _ _ _ => DVec3
  | EMat _ _ _ _ _ _ _ _ _, EMat _ _ _ _ _ _ _ _ _ => DMat3
  | _, _ => promote op da db
  end.

Definition vbin (op : binop) (a b : val) : val :=
  match coerce a, coerce b with
  | VErr e, _ => VErr e
  | _, VErr e => VErr e
  | VVar ea ua da, VVar eb ub db =>
      match op with
      | OAdd | OSub =>
          if ueqb ua ub then
            match ebin op ea eb with
            | Some e => VVar e ua (edtype op ea eb da db)
            | None => VErr "DTypeError"
            end
          else VErr "UnitError"
      | OMul =>
          match ebin op ea eb with
          | Some e => VVar e (umul ua ub) (edtype op ea eb da db)
          | None => VErr "DTypeError"
          end
      | ODiv =>
          match ebin op ea eb with
          | Some e => VVar e (udiv ua ub) (edtype op ea eb da db)
          | None => VErr "DTypeError"
          end
      end
  | VUnit ua, VUnit ub =>
      match op with
      | OMul => VUnit (umul ua ub)
      | ODiv => VUnit (udiv ua ub)
      | _ => VErr "TypeError"
      end
  | VVar ea ua da, VUnit ub =>          (* scipp: variable * unit *)
      match op with
      | OMul => VVar ea (umul ua ub) da
      | ODiv => VVar ea (udiv ua ub) da
      | _ => VErr "TypeError"
      end
  | VUnit ua, VVar eb ub db =>
      match op, ebin ODiv (znum 1) eb with
      | OMul, _ => VVar eb (umul ua ub) db
      | ODiv, Some e => VVar e (udiv ua ub) (promote ODiv DI64 db)
      | _, _ => VErr "TypeError"
      end
  | _, _ => VErr "TypeError"
  end.
Definition vadd := vbin OAdd.
Definition vsub := vbin OSub.
Definition vmul := vbin OMul.
Definition vdiv := vbin ODiv.

Definition vneg (a : val) : val :=
  match coerce a with
  | VErr e => VErr e
  | VVar (ENum x ix) u d => VVar (ENum (fopp O x) (option_map Z.opp ix)) u d
  | VVar ENaN u d => VVar ENaN u d
  | VVar (EVec x y z) u d => VVar (EVec (fopp O x) (fopp O y) (fopp O z)) u d
  | _ => VErr "TypeError"
  end.

(* integer exponent carried by a Python int or by a variable known to hold one *)
Definition int_exponent (v : val) : option Z :=
  match v with
  | VInt n => Some n
  | VVar (ENum _ (Some n)) _ _ => Some n
  | _ => None
  end.
Definition vpow (a b : val) : val :=
  match a, b with
  | VErr e, _ => VErr e
  | _, VErr e => VErr e
  | VUnit u, _ =>
      match int_exponent b with Some n => VUnit (upowZ u n) | None => VErr "TypeError" end
  | VVar e u d, _ =>
      match int_exponent b with
      | Some n =>
          match e with
          | ENum x ix =>
              if dtype_eqb d DI32 then VErr "DTypeError"
              else if is_num d then
                     VVar (ENum (fpowZ x n) (match ix with Some i => if (0 <=? n) then Some (i ^ n) else None | None => None end))
                          (upowZ u n) d
                   else VErr "DTypeError"
          | ENaN => VVar ENaN (upowZ u n) d
          | _ => VErr "DTypeError"
          end
      | None => VErr "TypeError"
      end
  | _, _ => VErr "TypeError"
  end.

(* ---------- comparisons (element-wise; a NaN compares false) *)
Inductive cmpop := CLe | CLt | CGe | CGt.
Definition vcmp (op : cmpop) (a b : val) : val :=
  match coerce a, coerce b with
  | VErr e, _ => VErr e
  | _, VErr e => VErr e
  | VVar ea ua _, VVar eb ub _ =>
      if ueqb ua ub then
        match ea, eb with
        | ENum x _, ENum y _ =>
            VBool (match op with
                   | CLe => fleb O x y | CLt => fltb O x y
                   | CGe => fleb O y x | CGt => fltb O y x end)
        | ENaN, ENum _ _ | ENum _ _, ENaN | ENaN, ENaN => VBool false
        | _, _ => VErr "DTypeError"
        end
      else VErr "UnitError"
  | _, _ => VErr "TypeError"
  end.
Definition vle := vcmp CLe.
Definition vlt := vcmp CLt.
Definition vge := vcmp CGe.
Definition vgt := vcmp CGt.

(* == / != on the non-numeric values the sources compare *)
Definition veq (a b : val) : val :=
  match a, b with
  | VErr e, _ => VErr e
  | _, VErr e => VErr e
  | VDType x, VDType y => VBool (dtype_eqb x y)
  | VNone, VNone => VBool true
  | VNone, _ | _, VNone => VBool false
  | VStr x, VStr y => VBool (String.eqb x y)
  | VBool x, VBool y => VBool (Bool.eqb x y)
  | VInt x, VInt y => VBool (x =? y)
  | VUnit x, VUnit y => VBool (ueqb x y)
  | VUnit x, VStr _ | VStr _, VUnit x =>
      match as_unit a, as_unit b with
      | Some p, Some q => VBool (ueqb p q)
      | _, _ => VBool false
      end
  | _, _ => VErr "TypeError"
  end.
Definition vnot (a : val) : val :=
  match a with VErr e => VErr e | VBool b => VBool (negb b) | _ => VErr "TypeError" end.
Definition vne (a b : val) := vnot (veq a b).
Definition vis (a b : val) : val :=          (* `x is None` *)
  match a, b with
  | VErr e, _ => VErr e
  | VNone, VNone => VBool true
  | _, VNone | VNone, _ => VBool false
  | _, _ => VErr "TypeError"
  end.
Definition visnot (a b : val) := vnot (vis a b).
Definition vand (a b : val) : val :=
  match a with
  | VErr e => VErr e
  | VBool false => VBool false
  | VBool true => b
  | _ => VErr "TypeError"
  end.
Definition vor (a b : val) : val :=
  match a with
  | VErr e => VErr e
  | VBool true => VBool true
  | VBool false => b
  | _ => VErr "TypeError"
  end.
(* Python conditional / early exit.  Both arms are pure values, so selecting
   one of them is exactly Python's behaviour (an error in the arm not taken is
   not propagated). *)
Definition vif (c a b : val) : val :=
  match c with
  | VErr e => VErr e
  | VBool true => a
  | VBool false => b
  | _ => VErr "TypeError"
  end.

(* sequencing: an exception raised by a statement aborts the function *)
Definition vbind (v : val) (k : val -> val) : val :=
  match v with VErr e => VErr e | _ => k v end.

(* ---------- attribute access / indexing *)
Definition py_attr (v : val) (name : string) : val :=
  match v with
  | VErr e => VErr e
  | VVar e u d =>
      if String.eqb name "unit" then VUnit u
      else if String.eqb name "dtype" then VDType d
      else if String.eqb name "bins" then VNone       (* dense element model, see header *)
      else if String.eqb name "fields" then v
      else if String.eqb name "sizes" then VNone
      else if String.eqb name "variances" then VNone
      else match e with
           | EVec x y z =>
               if String.eqb name "x" then VVar (ENum x None) u DF64
               else if String.eqb name "y" then VVar (ENum y None) u DF64
               else if String.eqb name "z" then VVar (ENum z None) u DF64
               else VErr "AttributeError"
           | _ => VErr "AttributeError"
           end
  | _ => VErr "AttributeError"
  end.
Definition vindex (v k : val) : val :=
  match v, k with
  | VErr e, _ => VErr e
  | VDict l, VStr s => match assoc s l with Some x => x | None => VErr "KeyError" end
  | VTuple l, VInt n => nth (Z.to_nat n) l (VErr "IndexError")
  | _, _ => VErr "TypeError"
  end.

(* ---------- scipp functions *)
Definition escale (e : elem) (k : F) : elem :=
  match e with
  | ENum x _ => ENum (x *! k) None
  | ENaN => ENaN
  | EVec x y z => EVec (x *! k) (y *! k) (z *! k)
  | EMat a b c d e f g h i => EMat (a *! k) (b *! k) (c *! k) (d *! k) (e *! k) (f *! k) (g *! k) (h *! k) (i *! k)
  end.
Definition eround (e : elem) : elem :=
  match e with
  | ENum x _ => ENum (frint O x) None
  | _ => e
  end.
(* sc.to_unit(x, unit, copy=...) and x.to(unit=..., dtype=..., copy=...):
   the value is multiplied by the ratio of the multipliers; only defined for
   equal dimensions. *)
Definition sc_to_unit (x unit copy : val) : val :=
  match coerce x with
  | VErr e => VErr e
  | VVar e u d =>
      match as_unit unit with
      | Some t => if deqb (ud u) (ud t) then
                    (* integer dtypes stay integer: scipp rounds the converted value to the nearest
                       integer, ties away from zero (probed) *)
                    VVar (if is_int d then eround (escale e (us u /! us t)) else escale e (us u /! us t)) t d
                  else VErr "UnitError"
      | None => match unit with VErr e' => VErr e' | _ => VErr "TypeError" end
      end
  | _ => VErr "TypeError"
  end.
Definition m_astype (x dt copy : val) : val :=
  match x, dt with
  | VErr e, _ => VErr e
  | _, VErr e => VErr e
  | VVar e u d, VDType d' =>
      match e with
      | ENum _ _ | ENaN => if is_num d' then VVar e u d' else VErr "DTypeError"
      | _ => if dtype_eqb d d' then x else VErr "DTypeError"
      end
  | _, _ => VErr "TypeError"
  end.
Definition m_to (x unit dt copy : val) : val :=
  let y := match dt with VNone => x | _ => m_astype x dt copy end in
  match unit with VNone => y | _ => sc_to_unit y unit copy end.
Definition m_copy (x : val) : val := x.

Definition sc_scalar (value unit dt : val) : val :=
  let u := match unit with
           | VNone => Some u_one
           | _ => as_unit unit
           end in
  match value, u with
  | VErr e, _ => VErr e
  | _, None => match unit with VErr e => VErr e | _ => VErr "UnitError" end
  | VInt z, Some u =>
      match dt with
      | VNone => VVar (znum z) u DI64
      | VDType d => if is_num d then VVar (znum z) u d else VErr "DTypeError"
      | VErr e => VErr e
      | _ => VErr "TypeError"
      end
  | VFloat x, Some u =>
      match dt with
      | VNone => VVar (ENum x None) u DF64
      | VDType d => if is_num d then VVar (ENum x None) u d else VErr "DTypeError"
      | VErr e => VErr e
      | _ => VErr "TypeError"
      end
  | VNaNF, Some u =>
      match dt with
      | VNone => VVar ENaN u DF64
      | VDType d => if is_float d then VVar ENaN u d else VErr "DTypeError"
      | VErr e => VErr e
      | _ => VErr "TypeError"
      end
  | _, _ => VErr "TypeError"
  end.

Definition sc_sqrt (x : val) : val :=
  match x with
  | VErr e => VErr e
  | VVar e u d =>
      if is_float d then
        if deven (ud u) then
          match e with
          | ENum v _ => VVar (ENum (fsqrt O v) None) (usqrt u) d
          | ENaN => VVar ENaN (usqrt u) d
          | _ => VErr "DTypeError"
          end
        else VErr "UnitError"
      else VErr "DTypeError"
  | _ => VErr "TypeError"
  end.
(* trigonometric functions accept rad and deg (any multiple of rad) *)
Definition trig (f : F -> F) (x : val) : val :=
  match x with
  | VErr e => VErr e
  | VVar e u d =>
      if is_float d then
        if deqb (ud u) d_rad then
          match e with
          | ENum v _ => VVar (ENum (f (v *! us u)) None) u_one d
          | ENaN => VVar ENaN u_one d
          | _ => VErr "DTypeError"
          end
        else VErr "UnitError"
      else VErr "DTypeError"
  | _ => VErr "TypeError"
  end.
Definition sc_sin := trig (fsin O).
Definition sc_cos := trig (fcos O).
Definition u_rad : unit := mkU f1 d_rad.
Definition sc_atan2 (y x : val) : val :=
  match y, x with
  | VErr e, _ => VErr e
  | _, VErr e => VErr e
  | VVar (ENum a _) ua da, VVar (ENum b _) ub db =>
      if ueqb ua ub then
        if is_float da && is_float db then
          VVar (ENum (fatan2 O a b) None) u_rad (promote OAdd da db)
        else VErr "DTypeError"
      else VErr "UnitError"
  | _, _ => VErr "TypeError"
  end.
Definition sc_exp (x : val) : val :=
  match x with
  | VErr e => VErr e
  | VVar (ENum v _) u d =>
      if is_float d then
        if deqb (ud u) dzero then VVar (ENum (fexp O (v *! us u)) None) u_one d
        else VErr "UnitError"
      else VErr "DTypeError"
  | _ => VErr "TypeError"
  end.
Definition sc_abs (x : val) : val :=
  match x with
  | VErr e => VErr e
  | VVar (ENum v _) u d => VVar (ENum (fabs O v) None) u d
  | VVar ENaN u d => x
  | _ => VErr "TypeError"
  end.
Definition sc_reciprocal (x : val) : val := vdiv (VInt 1) x.

(* sc.where(cond, a, b): a and b must have identical units *)
Definition sc_where (c a b : val) : val :=
  match c, a, b with
  | VErr e, _, _ => VErr e
  | _, VErr e, _ => VErr e
  | _, _, VErr e => VErr e
  | VBool t, VVar ea ua da, VVar eb ub db =>
      if ueqb ua ub then
        if dtype_eqb da db then (if t then a else b) else VErr "DTypeError"
      else VErr "UnitError"
  | _, _, _ => VErr "TypeError"
  end.

(* ---------- vectors *)
Definition sc_norm (x : val) : val :=
  match x with
  | VErr e => VErr e
  | VVar (EVec a b c) u _ => VVar (ENum (fsqrt O (a *! a +! b *! b +! c *! c)) None) u DF64
  | _ => VErr "DTypeError"
  end.
Definition sc_dot (x y : val) : val :=
  match x, y with
  | VErr e, _ => VErr e
  | _, VErr e => VErr e
  | VVar (EVec a b c) u _, VVar (EVec a' b' c') u' _ =>
      VVar (ENum (a *! a' +! b *! b' +! c *! c') None) (umul u u') DF64
  | _, _ => VErr "DTypeError"
  end.
Definition sc_cross (x y : val) : val :=
  match x, y with
  | VErr e, _ => VErr e
  | _, VErr e => VErr e
  | VVar (EVec a b c) u _, VVar (EVec a' b' c') u' _ =>
      VVar (EVec (b *! c' -! c *! b') (c *! a' -! a *! c') (a *! b' -! b *! a')) (umul u u') DVec3
  | _, _ => VErr "DTypeError"
  end.
Definition sc_spatial_as_vectors (x y z : val) : val :=
  match x, y, z with
  | VErr e, _, _ => VErr e
  | _, VErr e, _ => VErr e
  | _, _, VErr e => VErr e
  | VVar (ENum a _) ua da, VVar (ENum b _) ub db, VVar (ENum c _) uc dc =>
      if ueqb ua ub && ueqb ua uc then
        if dtype_eqb da DF64 && dtype_eqb db DF64 && dtype_eqb dc DF64
        then VVar (EVec a b c) ua DVec3 else VErr "DTypeError"
      else VErr "UnitError"
  | _, _, _ => VErr "TypeError"
  end.
(* sc.spatial.inv of a 3x3 linear transform: modelled as adjugate / determinant *)
Definition sc_spatial_inv (x : val) : val :=
  match x with
  | VErr e => VErr e
  | VVar (EMat a b c d e f g h i) u dt =>
      let det := a *! (e *! i -! f *! h) -! b *! (d *! i -! f *! g) +! c *! (d *! h -! e *! g) in
      VVar (EMat ((e *! i -! f *! h) /! det) ((c *! h -! b *! i) /! det) ((b *! f -! c *! e) /! det)
                 ((f *! g -! d *! i) /! det) ((a *! i -! c *! g) /! det) ((c *! d -! a *! f) /! det)
                 ((d *! h -! e *! g) /! det) ((b *! g -! a *! h) /! det) ((a *! e -! b *! d) /! det))
           (udiv u_one u) dt
  | _ => VErr "DTypeError"
  end.

(* ---------- constants the sources name *)
Definition named (s : string) : val :=
  match assoc s named_units with Some u => VUnit u | None => VErr "UnitError" end.
Definition const_h : val := VVar (ENum (c_h O) None) (mkU f1 d_Js) DF64.
Definition const_m_n : val := VVar (ENum (c_mn O) None) (mkU f1 d_kg) DF64.
Definition sc_constants_h : val := const_h.
Definition sc_constants_m_n : val := const_m_n.
Definition const_pi : val := VVar (ENum (fpi O) None) u_one DF64.
Definition np_pi : val := VFloat (fpi O).
Definition math_pi : val := VFloat (fpi O).
Definition np_nan : val := VNaNF.
Definition sc_units_angstrom : val := named "angstrom".
Definition sc_units_meV : val := named "meV".
Definition sc_units_us : val := named "us".
Definition sc_units_m : val := named "m".
Definition sc_units_s : val := named "s".
Definition sc_units_rad : val := named "rad".
Definition sc_units_deg : val := named "deg".
Definition sc_units_one : val := named "one".
Definition sc_units_dimensionless : val := named "one".
Definition sc_DType_float32 : val := VDType DF32.
Definition sc_DType_float64 : val := VDType DF64.
Definition sc_DType_int64 : val := VDType DI64.
Definition sc_DType_int32 : val := VDType DI32.

End WithOps.

