(* RLemmas.v — proof support for statements about the translated kernels over R. *)
From Coq Require Import Reals ZArith String List Lra.
From Verif.Sem Require Import Field Val RInst.
Open Scope R_scope.

(* evaluate the value semantics on a closed syntax tree with symbolic reals:
   everything structural (units' dimensions, dtypes, dispatch on constructors,
   error propagation) is computed; real arithmetic is left alone. *)
Ltac sem_cbv :=
  cbv -[Rplus Rminus Rmult Rdiv Rinv Ropp IZR sqrt sin cos atan2 atan asin exp Rabs PI
        Rleb Rltb Reqb Rle_dec Rlt_dec Req_EM_T Rrint Int_part up].

Section R.
Variables h mn : R.
Notation O := (ROps h mn).

(* a scalar operand: value x in a unit with multiplier s (to SI) and dimensions dm *)
Definition tvar (x s : R) (dm : dims) (d : dtype) : val O :=
  VVar O (ENum O x None) (mkU O s dm) d.
Definition tnan (s : R) (dm : dims) (d : dtype) : val O :=
  VVar O (ENaN O) (mkU O s dm) d.
Definition tvec (x y z s : R) (dm : dims) : val O :=
  VVar O (EVec O x y z) (mkU O s dm) DVec3.

(* "r is a scalar of dtype dt whose unit has multiplier [scale] and dimensions
   [dm] and whose physical (SI) value is [phys]" *)
Definition is_qty (r : val O) (phys scale : R) (dm : dims) (dt : dtype) : Prop :=
  exists v u, r = VVar O (ENum O v None) u dt
              /\ ud O u = dm /\ us O u = scale /\ v * scale = phys.
(* same without fixing the precision class *)
Definition is_qty' (r : val O) (phys scale : R) (dm : dims) : Prop :=
  exists dt, is_qty r phys scale dm dt.
Definition is_nan (r : val O) (scale : R) (dm : dims) (dt : dtype) : Prop :=
  exists u, r = VVar O (ENaN O) u dt /\ ud O u = dm /\ us O u = scale.
Definition is_vec (r : val O) (px py pz scale : R) (dm : dims) : Prop :=
  exists x y z u, r = VVar O (EVec O x y z) u DVec3
              /\ ud O u = dm /\ us O u = scale
              /\ x * scale = px /\ y * scale = py /\ z * scale = pz.
End R.

(* evaluate only the translated term inside is_qty / is_nan / is_vec, leaving the
   specification side of the goal folded *)
Ltac sem_eval :=
  match goal with
  | |- is_qty ?h ?mn ?r ?p ?s ?d ?t =>
      let r' := eval cbv -[Rplus Rminus Rmult Rdiv Rinv Ropp IZR sqrt sin cos atan2 atan asin exp Rabs PI
                           Rleb Rltb Reqb Rle_dec Rlt_dec Req_EM_T Rrint Int_part up] in r in
      change (is_qty h mn r' p s d t)
  | |- is_qty' ?h ?mn ?r ?p ?s ?d =>
      let r' := eval cbv -[Rplus Rminus Rmult Rdiv Rinv Ropp IZR sqrt sin cos atan2 atan asin exp Rabs PI
                           Rleb Rltb Reqb Rle_dec Rlt_dec Req_EM_T Rrint Int_part up] in r in
      change (is_qty' h mn r' p s d)
  | |- is_nan ?h ?mn ?r ?s ?d ?t =>
      let r' := eval cbv -[Rplus Rminus Rmult Rdiv Rinv Ropp IZR sqrt sin cos atan2 atan asin exp Rabs PI
                           Rleb Rltb Reqb Rle_dec Rlt_dec Req_EM_T Rrint Int_part up] in r in
      change (is_nan h mn r' s d t)
  | |- is_vec ?h ?mn ?r ?x ?y ?z ?s ?d =>
      let r' := eval cbv -[Rplus Rminus Rmult Rdiv Rinv Ropp IZR sqrt sin cos atan2 atan asin exp Rabs PI
                           Rleb Rltb Reqb Rle_dec Rlt_dec Req_EM_T Rrint Int_part up] in r in
      change (is_vec h mn r' x y z s d)
  end.

(* the float class the kernels promise: float32 iff the data operand is float32 *)
Definition fdt (d : dtype) : dtype := match d with DF32 => DF32 | _ => DF64 end.
Definition fdt2 (a b : dtype) : dtype := match a, b with DF32, DF32 => DF32 | _, _ => DF64 end.

(* positivity of products / quotients of positive reals *)
Ltac pos :=
  first
    [ lra
    | assumption
    | apply PI_RGT_0
    | match goal with
      | |- 0 < ?a * ?b => apply Rmult_lt_0_compat; pos
      | |- ?a * ?b > 0 => apply Rmult_lt_0_compat; pos
      | |- 0 < ?a / ?b => apply Rdiv_lt_0_compat; pos
      | |- ?a / ?b > 0 => apply Rdiv_lt_0_compat; pos
      | |- 0 < / ?a => apply Rinv_0_lt_compat; pos
      | |- 0 < sqrt ?a => apply sqrt_lt_R0; pos
      | |- sqrt ?a > 0 => apply sqrt_lt_R0; pos
      end
    | idtac ].
Ltac nonneg := apply Rlt_le; pos.

Ltac nan_intro := eexists; split; [reflexivity|]; split.
Ltac qty_intro := unfold is_qty; eexists; eexists; split; [reflexivity|]; split; [reflexivity|]; split.

Lemma sqrt_scale a k b : 0 < k -> 0 <= b -> a * (k * k) = b * b -> sqrt a * k = b.
Proof.
  intros Hk Hb E.
  assert (Ha : 0 <= a).
  { assert (a = b * b / (k * k)) as -> by (rewrite <- E; field; lra).
    apply Rmult_le_pos; [nra|]. apply Rlt_le, Rinv_0_lt_compat; nra. }
  rewrite <- (sqrt_square k) at 1 by lra.
  rewrite <- sqrt_mult by nra.
  rewrite E. apply sqrt_square; lra.
Qed.
Lemma sqrt_eq_of_sq a b : 0 <= b -> a = b * b -> sqrt a = b.
Proof. intros Hb ->. apply sqrt_square; exact Hb. Qed.
Lemma sin_half_pos x : 0 < x <= PI -> 0 < sin (x / 2).
Proof.
  intros [H1 H2]. apply sin_gt_0; [lra|]. pose proof PI_RGT_0. lra.
Qed.
