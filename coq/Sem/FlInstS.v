(* FlInstS.v — a rounding-error instance for SINGLE (and mixed) precision.

   The semantic layer (Val.v) applies the same arithmetic record to float32 and
   float64 data and its [m_astype] has no rounding hook, so an instance cannot
   know where a cast to binary32 happens.  This instance is therefore
   SET-VALUED: a value carries

     sv : R -> Prop     the set of reals the computation may produce,
     sx : R             the exact real they approximate,
     se : R             a PROVED relative error bound valid for EVERY member of sv,
     sc : Prop          the side condition.

   The set of an operation contains every result obtained by
     - taking any member of each operand's set,
     - optionally casting it (to binary32 or binary64): a factor (1+c), |c| <= u32,
     - performing the operation exactly and rounding the result to binary32 or
       binary64 (or not at all): a factor (1+d), |d| <= u32,
   with u32 = 2^-24.  Hence whatever the dtypes of the operands are and wherever
   scipp / the kernel casts between float32 and float64, the value actually
   computed is a member (lemmas [*_contains] below state this for the concrete
   roundings rnd32 = Flocq FLX 24 and FlInst.rnd = FLX 53, both round-to-nearest-
   even with unbounded exponent range).  The price is a pessimistic bound: about
   3 u32 per operation.

   sin: the member is  sin(w) (1+d)  with w a (cast) member of the operand and
   |d| <= ksin * u32 — NAMED ASSUMPTION "libm sinf / sin within ksin/2 ulp"
   (ksin = 2: one ulp of a binary32 result is at most 2^-23 relative); no oracle
   is needed in a set-valued instance, the assumption is what makes the actual
   result a member.  The propagated part is FlInstT.sin_perturbation.

   Named assumption of the whole instance: no overflow / underflow.
   Comparisons decide on the EXACT values (there is no single computed value);
   a kernel that branches on computed numbers is outside this instance — none
   of the kernels it is used for compares numbers.
   + - cos atan2 asin exp abs rint are outside (side condition False). *)
From Coq Require Import Reals ZArith Lra Psatz.
From Flocq Require Import Core Relative.
From Verif.Sem Require Import Field FlInst FlInstT.
Open Scope R_scope.

Definition u32 : R := / 16777216.                               (* 2^-24 *)
Definition rnd32 (x : R) : R := round radix2 (FLX_exp 24) ZnearestE x.

Lemma u32_pos : 0 < u32.
Proof. unfold u32. lra. Qed.
Lemma u64_le_u32 : u64 <= u32.
Proof. rewrite u64_val. unfold u32. lra. Qed.

Lemma rnd32_model x : exists d, Rabs d <= u32 /\ rnd32 x = x * (1 + d).
Proof.
  unfold rnd32.
  destruct (relative_error_N_FLX_ex radix2 24 ltac:(lia) (fun z => negb (Z.even z)) x) as (d & Hd & E).
  exists d. split; [| exact E].
  eapply Rle_trans; [exact Hd|]. apply Req_le.
  change (- (24) + 1)%Z with (-23)%Z. unfold bpow, u32.
  change (Z.pow_pos radix2 23) with 8388608%Z. field.
Qed.

(* the roundings / casts that may occur at any point: none, to binary32, to binary64 *)
Inductive rounding : (R -> R) -> Prop :=
| r_none : rounding (fun x => x)
| r_b32 : rounding rnd32
| r_b64 : rounding rnd.
Lemma rounding_model r : rounding r -> forall x, exists d, Rabs d <= u32 /\ r x = x * (1 + d).
Proof.
  pose proof u32_pos. pose proof u64_le_u32.
  intros [] x.
  - exists 0. rewrite Rabs_R0. split; [lra | ring].
  - apply rnd32_model.
  - destruct (rnd_model x) as (d & Hd & E). exists d. split; [lra | exact E].
Qed.

Record sfl := mksfl {
  sv : R -> Prop; sx : R; se : R; sc : Prop;
  sok : sc -> (forall v, sv v -> Rabs (v - sx) <= se * Rabs sx) /\ 0 <= se
}.
Lemma sfl_bound (a : sfl) v : sc a -> sv a v -> Rabs (v - sx a) <= se a * Rabs (sx a).
Proof. intros C H. exact (proj1 (sok a C) v H). Qed.

Lemma two_factors s t a b : Rabs s <= a -> Rabs t <= b ->
  Rabs ((1 + s) * (1 + t) - 1) <= (1 + a) * (1 + b) - 1.
Proof.
  intros Hs Ht.
  assert (H0 : Rabs 0 <= 0) by (rewrite Rabs_R0; lra).
  pose proof (three_factors s t 0 a b 0 Hs Ht H0) as H.
  replace ((1 + s) * (1 + t) * (1 + 0) - 1) with ((1 + s) * (1 + t) - 1) in H by ring.
  replace ((1 + a) * (1 + b) * (1 + 0) - 1) with ((1 + a) * (1 + b) - 1) in H by ring.
  exact H.
Qed.

(* a member of an operand's set, possibly cast: factor (1+t) with |t| <= (1+e)(1+u32) - 1 *)
Definition ecast (e : R) : R := (1 + e) * (1 + u32) - 1.
Lemma ecast_nonneg e : 0 <= e -> 0 <= ecast e.
Proof.
  intros He. unfold ecast. pose proof u32_pos.
  assert (0 <= e * u32) by (apply Rmult_le_pos; lra). lra.
Qed.
Lemma operand_cast (a : sfl) va c :
  sc a -> sv a va -> Rabs c <= u32 ->
  exists t, Rabs t <= ecast (se a) /\ va * (1 + c) = sx a * (1 + t).
Proof.
  intros C Hv Hc. destruct (sok a C) as [Hb He].
  destruct (rel_to_factor _ _ _ (Hb va Hv) He) as (ta & Hta & Eqa).
  exists ((1 + ta) * (1 + c) - 1). split.
  - apply two_factors; assumption.
  - rewrite Eqa. ring.
Qed.

(* ---------- multiplication *)
Definition smul_set (a b : sfl) (v : R) : Prop :=
  exists va vb ca cb d, sv a va /\ sv b vb /\ Rabs ca <= u32 /\ Rabs cb <= u32 /\ Rabs d <= u32
    /\ v = va * (1 + ca) * (vb * (1 + cb)) * (1 + d).
Lemma smul_ok (a b : sfl) :
  sc a /\ sc b ->
  (forall v, smul_set a b v ->
     Rabs (v - sx a * sx b) <= ((1 + ecast (se a)) * (1 + ecast (se b)) * (1 + u32) - 1) * Rabs (sx a * sx b))
  /\ 0 <= (1 + ecast (se a)) * (1 + ecast (se b)) * (1 + u32) - 1.
Proof.
  intros [Ca Cb]. pose proof u32_pos.
  pose proof (ecast_nonneg _ (proj2 (sok a Ca))) as Ea.
  pose proof (ecast_nonneg _ (proj2 (sok b Cb))) as Eb.
  split.
  - intros v (va & vb & ca & cb & d & Ha & Hb & Hca & Hcb & Hd & ->).
    destruct (operand_cast a va ca Ca Ha Hca) as (ta & Hta & Eqa).
    destruct (operand_cast b vb cb Cb Hb Hcb) as (tb & Htb & Eqb).
    apply factor_to_rel with ((1 + ta) * (1 + tb) * (1 + d) - 1).
    + rewrite Eqa, Eqb. ring.
    + apply three_factors; assumption.
  - assert (0 <= ecast (se a) * ecast (se b)) by (apply Rmult_le_pos; assumption).
    assert (0 <= (ecast (se a) + ecast (se b) + ecast (se a) * ecast (se b)) * u32) by (apply Rmult_le_pos; lra).
    lra.
Qed.
Definition smul (a b : sfl) : sfl :=
  mksfl (smul_set a b) (sx a * sx b) ((1 + ecast (se a)) * (1 + ecast (se b)) * (1 + u32) - 1)
        (sc a /\ sc b) (smul_ok a b).

(* ---------- division *)
Definition sdiv_set (a b : sfl) (v : R) : Prop :=
  exists va vb ca cb d, sv a va /\ sv b vb /\ Rabs ca <= u32 /\ Rabs cb <= u32 /\ Rabs d <= u32
    /\ v = va * (1 + ca) / (vb * (1 + cb)) * (1 + d).
Lemma sdiv_ok (a b : sfl) :
  sc a /\ sc b /\ ecast (se b) < 1 /\ sx b <> 0 ->
  (forall v, sdiv_set a b v ->
     Rabs (v - sx a / sx b)
       <= ((1 + ecast (se a)) * (1 + ecast (se b) / (1 - ecast (se b))) * (1 + u32) - 1) * Rabs (sx a / sx b))
  /\ 0 <= (1 + ecast (se a)) * (1 + ecast (se b) / (1 - ecast (se b))) * (1 + u32) - 1.
Proof.
  intros (Ca & Cb & Hlt & Hnz). pose proof u32_pos.
  pose proof (ecast_nonneg _ (proj2 (sok a Ca))) as Ea.
  pose proof (ecast_nonneg _ (proj2 (sok b Cb))) as Eb.
  assert (Hq : 0 <= ecast (se b) / (1 - ecast (se b)))
    by (apply Rmult_le_pos; [lra | apply Rlt_le, Rinv_0_lt_compat; lra]).
  split.
  - intros v (va & vb & ca & cb & d & Ha & Hb & Hca & Hcb & Hd & ->).
    destruct (operand_cast a va ca Ca Ha Hca) as (ta & Hta & Eqa).
    destruct (operand_cast b vb cb Cb Hb Hcb) as (tb & Htb & Eqb).
    assert (H1tb : 0 < 1 + tb) by (pose proof (abs_le_lo _ _ Htb); lra).
    apply factor_to_rel with ((1 + ta) * (1 + (/ (1 + tb) - 1)) * (1 + d) - 1).
    + rewrite Eqa, Eqb. field. split; lra.
    + apply three_factors; try assumption. apply inv_factor; assumption.
  - assert (0 <= ecast (se a) * (ecast (se b) / (1 - ecast (se b)))) by (apply Rmult_le_pos; assumption).
    assert (0 <= (ecast (se a) + ecast (se b) / (1 - ecast (se b))
                  + ecast (se a) * (ecast (se b) / (1 - ecast (se b)))) * u32) by (apply Rmult_le_pos; lra).
    lra.
Qed.
Definition sdiv (a b : sfl) : sfl :=
  mksfl (sdiv_set a b) (sx a / sx b)
        ((1 + ecast (se a)) * (1 + ecast (se b) / (1 - ecast (se b))) * (1 + u32) - 1)
        (sc a /\ sc b /\ ecast (se b) < 1 /\ sx b <> 0) (sdiv_ok a b).

(* ---------- square root *)
Definition ssqrt_set (a : sfl) (v : R) : Prop :=
  exists va ca d, sv a va /\ Rabs ca <= u32 /\ Rabs d <= u32 /\ v = sqrt (va * (1 + ca)) * (1 + d).
Lemma ssqrt_ok (a : sfl) :
  sc a /\ ecast (se a) <= 1 /\ 0 <= sx a ->
  (forall v, ssqrt_set a v ->
     Rabs (v - sqrt (sx a)) <= ((1 + ecast (se a)) * (1 + 0) * (1 + u32) - 1) * Rabs (sqrt (sx a)))
  /\ 0 <= (1 + ecast (se a)) * (1 + 0) * (1 + u32) - 1.
Proof.
  intros (Ca & Hle & Hnn). pose proof u32_pos.
  pose proof (ecast_nonneg _ (proj2 (sok a Ca))) as Ea.
  split.
  - intros v (va & ca & d & Ha & Hca & Hd & ->).
    destruct (operand_cast a va ca Ca Ha Hca) as (ta & Hta & Eqa).
    assert (Hta' : -1 <= ta) by (pose proof (abs_le_lo _ _ Hta); lra).
    apply factor_to_rel with ((1 + (sqrt (1 + ta) - 1)) * (1 + 0) * (1 + d) - 1).
    + rewrite Eqa. rewrite sqrt_mult by lra. ring.
    + apply three_factors; try assumption.
      * eapply Rle_trans; [apply sqrt_factor; exact Hta' | exact Hta].
      * rewrite Rabs_R0; lra.
  - assert (0 <= ecast (se a) * u32) by (apply Rmult_le_pos; lra). lra.
Qed.
Definition ssqrt (a : sfl) : sfl :=
  mksfl (ssqrt_set a) (sqrt (sx a)) ((1 + ecast (se a)) * (1 + 0) * (1 + u32) - 1)
        (sc a /\ ecast (se a) <= 1 /\ 0 <= sx a) (ssqrt_ok a).

(* ---------- constants and operands *)
Definition sconst_set (x v : R) : Prop := exists d, Rabs d <= u32 /\ v = x * (1 + d).
Lemma sconst_ok (x : R) :
  True -> (forall v, sconst_set x v -> Rabs (v - x) <= u32 * Rabs x) /\ 0 <= u32.
Proof.
  intros _. pose proof u32_pos. split; [| lra].
  intros v (d & Hd & ->). apply factor_to_rel with d; [reflexivity | exact Hd].
Qed.
Definition sconst (x : R) : sfl := mksfl (sconst_set x) x u32 True (sconst_ok x).

Lemma sexact_ok (x : R) :
  True -> (forall v, v = x -> Rabs (v - x) <= 0 * Rabs x) /\ 0 <= 0.
Proof.
  intros _. split; [| lra]. intros v ->. rewrite Rminus_diag_eq by reflexivity. rewrite Rabs_R0. lra.
Qed.
Definition sexact (x : R) : sfl := mksfl (fun v => v = x) x 0 True (sexact_ok x).

Lemma sunknown_ok (x : R) :
  False -> (forall v, v = x -> Rabs (v - x) <= 0 * Rabs x) /\ 0 <= 0.
Proof. intros []. Qed.
Definition sunknown (x : R) : sfl := mksfl (fun v => v = x) x 0 False (sunknown_ok x).

Lemma sopp_ok (a : sfl) :
  sc a -> (forall v, (exists va, sv a va /\ v = - va) -> Rabs (v - - sx a) <= se a * Rabs (- sx a)) /\ 0 <= se a.
Proof.
  intros C. destruct (sok a C) as [H E]. split; [| exact E].
  intros v (va & Ha & ->).
  replace (- va - - sx a) with (- (va - sx a)) by ring.
  rewrite !Rabs_Ropp. apply H; exact Ha.
Qed.
Definition sopp (a : sfl) : sfl :=
  mksfl (fun v => exists va, sv a va /\ v = - va) (- sx a) (se a) (sc a) (sopp_ok a).

Section WithSin.
(* library sine (sinf on binary32, sin on binary64): relative error at most ksin * u32 *)
Variable ksin : R.
Hypothesis Hksin : 0 <= ksin.

Definition ssin_set (a : sfl) (v : R) : Prop :=
  exists va ca d, sv a va /\ Rabs ca <= u32 /\ Rabs d <= ksin * u32 /\ v = sin (va * (1 + ca)) * (1 + d).
Lemma ssin_ok (a : sfl) :
  sc a /\ 0 <= sx a <= PI / 2 ->
  (forall v, ssin_set a v ->
     Rabs (v - sin (sx a))
       <= ((1 + (ecast (se a) + 2 * (ecast (se a) * ecast (se a)))) * (1 + 0) * (1 + ksin * u32) - 1)
          * Rabs (sin (sx a)))
  /\ 0 <= (1 + (ecast (se a) + 2 * (ecast (se a) * ecast (se a)))) * (1 + 0) * (1 + ksin * u32) - 1.
Proof using Hksin.
  intros (Ca & Hr). pose proof u32_pos.
  pose proof (ecast_nonneg _ (proj2 (sok a Ca))) as Ea.
  assert (Hku : 0 <= ksin * u32) by (apply Rmult_le_pos; lra).
  assert (Hep : 0 <= ecast (se a) + 2 * (ecast (se a) * ecast (se a))).
  { assert (0 <= ecast (se a) * ecast (se a)) by (apply Rmult_le_pos; assumption). lra. }
  split.
  - intros v (va & ca & d & Ha & Hca & Hd & ->).
    destruct (operand_cast a va ca Ca Ha Hca) as (ta & Hta & Eqa).
    pose proof (sin_perturbation (sx a) ta (ecast (se a)) Hr Hta) as Hp. rewrite <- Eqa in Hp.
    destruct (rel_to_factor _ _ _ Hp Hep) as (tp & Htp & Eqp).
    apply factor_to_rel with ((1 + tp) * (1 + 0) * (1 + d) - 1).
    + rewrite Eqp. ring.
    + apply three_factors; try assumption. rewrite Rabs_R0; lra.
  - assert (0 <= (ecast (se a) + 2 * (ecast (se a) * ecast (se a))) * (ksin * u32))
      by (apply Rmult_le_pos; assumption).
    lra.
Qed.
Definition ssin (a : sfl) : sfl :=
  mksfl (ssin_set a) (sin (sx a))
        ((1 + (ecast (se a) + 2 * (ecast (se a) * ecast (se a)))) * (1 + 0) * (1 + ksin * u32) - 1)
        (sc a /\ 0 <= sx a <= PI / 2) (ssin_ok a).

Definition FlOpsS (h mn : R) : Fops :=
  mkFops sfl
    (fun a b => sunknown (sx a + sx b)) (fun a b => sunknown (sx a - sx b))
    smul sdiv sopp
    (fun z => sconst (IZR z)) ssqrt
    ssin (fun a => sunknown (cos (sx a)))
    (fun a b => sunknown 0) (fun a => sunknown (asin (sx a))) (fun a => sunknown (exp (sx a)))
    (fun a => sunknown (Rabs (sx a))) (sconst PI)
    (fun a b => if Rle_dec (sx a) (sx b) then true else false)
    (fun a b => if Rlt_dec (sx a) (sx b) then true else false)
    (fun a b => if Req_EM_T (sx a) (sx b) then true else false)
    (fun _ _ => true)
    (sconst h) (sconst mn) (fun a => sunknown (sx a)).

(* ---------- the sets contain the concrete computations: any casts r1 r2 of the operands, any
   rounding r3 of the result, each of them none / binary32 / binary64 *)
Lemma smul_contains (a b : sfl) r1 r2 r3 va vb :
  rounding r1 -> rounding r2 -> rounding r3 -> sv a va -> sv b vb ->
  sv (smul a b) (r3 (r1 va * r2 vb)).
Proof using.
  intros R1 R2 R3 Ha Hb.
  destruct (rounding_model _ R1 va) as (ca & Hca & E1).
  destruct (rounding_model _ R2 vb) as (cb & Hcb & E2).
  destruct (rounding_model _ R3 (r1 va * r2 vb)) as (d & Hd & E3).
  exists va, vb, ca, cb, d. repeat split; try assumption.
  rewrite E3, E1, E2. reflexivity.
Qed.
Lemma sdiv_contains (a b : sfl) r1 r2 r3 va vb :
  rounding r1 -> rounding r2 -> rounding r3 -> sv a va -> sv b vb ->
  sv (sdiv a b) (r3 (r1 va / r2 vb)).
Proof using.
  intros R1 R2 R3 Ha Hb.
  destruct (rounding_model _ R1 va) as (ca & Hca & E1).
  destruct (rounding_model _ R2 vb) as (cb & Hcb & E2).
  destruct (rounding_model _ R3 (r1 va / r2 vb)) as (d & Hd & E3).
  exists va, vb, ca, cb, d. repeat split; try assumption.
  rewrite E3, E1, E2. reflexivity.
Qed.
Lemma ssqrt_contains (a : sfl) r1 r3 va :
  rounding r1 -> rounding r3 -> sv a va -> sv (ssqrt a) (r3 (sqrt (r1 va))).
Proof using.
  intros R1 R3 Ha.
  destruct (rounding_model _ R1 va) as (ca & Hca & E1).
  destruct (rounding_model _ R3 (sqrt (r1 va))) as (d & Hd & E3).
  exists va, ca, d. repeat split; try assumption.
  rewrite E3, E1. reflexivity.
Qed.
Lemma sconst_contains x r : rounding r -> sv (sconst x) (r x).
Proof using.
  intros Rr. destruct (rounding_model _ Rr x) as (d & Hd & E). exists d. split; assumption.
Qed.
(* the library sine applied to the (cast) operand, under the named accuracy assumption on that call *)
Lemma ssin_contains (a : sfl) r1 va (libm_result : R) :
  rounding r1 -> sv a va ->
  Rabs (libm_result - sin (r1 va)) <= ksin * u32 * Rabs (sin (r1 va)) ->
  sv (ssin a) libm_result.
Proof using Hksin.
  intros R1 Ha Hacc. pose proof u32_pos.
  assert (Hku : 0 <= ksin * u32) by (apply Rmult_le_pos; lra).
  destruct (rounding_model _ R1 va) as (ca & Hca & E1).
  destruct (rel_to_factor _ _ _ Hacc Hku) as (d & Hd & Eqd).
  exists va, ca, d. repeat split; try assumption.
  rewrite Eqd, E1. reflexivity.
Qed.
End WithSin.
