(* RInst.v — the semantic layer instantiated at Coq's real numbers (proofs). *)
From Coq Require Import Reals ZArith.
From Verif.Sem Require Import Field.
Open Scope R_scope.

Definition Rleb (a b : R) : bool := if Rle_dec a b then true else false.
Definition Rltb (a b : R) : bool := if Rlt_dec a b then true else false.
Definition Reqb (a b : R) : bool := if Req_EM_T a b then true else false.

(* two-argument arctangent with values in (-PI, PI] *)
Definition atan2 (y x : R) : R :=
  if Rlt_dec 0 x then atan (y / x)
  else if Rlt_dec x 0 then (if Rle_dec 0 y then atan (y / x) + PI else atan (y / x) - PI)
  else if Rlt_dec 0 y then PI / 2
  else if Rlt_dec y 0 then - PI / 2
  else 0.

(* nearest integer, ties away from zero *)
Definition Rrint (x : R) : R :=
  if Rle_dec 0 x then IZR (Int_part (x + / 2)) else - IZR (Int_part (- x + / 2)).

(* the physical constants h and m_n are parameters: every theorem is stated
   for arbitrary positive values of them *)
(* Equality of unit MULTIPLIERS (same dimensions) is not decided in the R
   instance: [fclose] answers true, i.e. `a + b`, `a <= b`, `where` never raise
   UnitError here for operands of equal dimension, and the value is computed
   as if b were expressed in a's unit.  This is fail-closed for the theorems:
   they conclude a PHYSICAL value for arbitrary multipliers, which is false
   whenever two operands with different multipliers meet in + - <= where.  The
   executable Q instance decides the multipliers honestly (QInst.qclose), and
   the correspondence runs compare raised UnitErrors with the implementation.
   (Deciding it with Req_EM_T leaves stuck `if`s that make cbv blow up.) *)
Definition ROps (h mn : R) : Fops :=
  mkFops R Rplus Rminus Rmult Rdiv Ropp IZR sqrt sin cos atan2 asin exp Rabs PI
         Rleb Rltb Reqb (fun _ _ => true) h mn Rrint.

Lemma Rleb_true a b : a <= b -> Rleb a b = true.
Proof. unfold Rleb; destruct (Rle_dec a b); tauto. Qed.
Lemma Rleb_false a b : b < a -> Rleb a b = false.
Proof. unfold Rleb; destruct (Rle_dec a b); [intros; exfalso; eapply Rlt_irrefl, Rle_lt_trans; eauto | reflexivity]. Qed.
Lemma Rltb_true a b : a < b -> Rltb a b = true.
Proof. unfold Rltb; destruct (Rlt_dec a b); tauto. Qed.
Lemma Rltb_false a b : b <= a -> Rltb a b = false.
Proof. unfold Rltb; destruct (Rlt_dec a b); [intros; exfalso; eapply Rlt_irrefl, Rlt_le_trans; eauto | reflexivity]. Qed.
Lemma Reqb_true a b : a = b -> Reqb a b = true.
Proof. unfold Reqb; destruct (Req_EM_T a b); tauto. Qed.
Lemma Reqb_refl a : Reqb a a = true.
Proof. apply Reqb_true; reflexivity. Qed.
