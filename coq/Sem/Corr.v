(* Corr.v — shared pieces of the correspondence runs: how the implementation's
   observations are written down as Coq data, and how a value of the executable
   model (the Q instance) is compared with them INSIDE Coq. Definitions only. *)
From Coq Require Import QArith Qabs ZArith String List Bool DecimalString.
From Verif.Sem Require Import Field Val QInst.
Import ListNotations.
Open Scope string_scope.

Record inp := mkinp { iv : Q; isc : Q; idm : dims; idt : dtype }.
Inductive outcome :=
| OutVal (v : Q) (sc : Q) (dm : dims) (dt : dtype)     (* finite element, its unit, its dtype *)
| OutNaN (sc : Q) (dm : dims) (dt : dtype)
| OutInf (sc : Q) (dm : dims) (dt : dtype)
| OutVec (x y z : Q) (sc : Q) (dm : dims)
| OutErr (cls : string).

Section C.
Variable O : Fops.
Definition mkv (i : inp) (conv : Q -> F O) : val O :=
  VVar O (ENum O (conv (iv i)) None) (mkU O (conv (isc i)) (idm i)) (idt i).
End C.

Definition qid (q : Q) : Q := q.
Definition qv (h mn : Q) (i : inp) : val (QOps h mn) := mkv (QOps h mn) i qid.
Definition qvec (h mn : Q) (x y z sc : Q) (dm : dims) : val (QOps h mn) :=
  VVar (QOps h mn) (EVec (QOps h mn) x y z) (mkU (QOps h mn) sc dm) DVec3.

Definition rel_close (a b tol : Q) : bool :=
  Qle_bool (Qabs (a - b)) (tol * Qabs b).
Definition abs_close (a b tol : Q) : bool := Qle_bool (Qabs (a - b)) tol.

Definition dtype_name (d : dtype) : string :=
  match d with DF64 => "float64" | DF32 => "float32" | DI64 => "int64" | DI32 => "int32"
             | DBool => "bool" | DVec3 => "vector3" | DMat3 => "matrix" | DOther => "other" end.

(* "" = agreement; otherwise the reason *)
Definition cmp_out (h mn : Q) (model : val (QOps h mn)) (o : outcome) (tol : Q) : string :=
  match model, o with
  | VVar _ (ENum _ x _) u d, OutVal v sc dm dt =>
      if negb (deqb (ud _ u) dm) then "unit-dimension"
      else if negb (rel_close (us _ u) sc (1 # 1000000000000)) then "unit-multiplier"
      else if negb (dtype_eqb d dt) then "dtype:model=" ++ dtype_name d ++ ",impl=" ++ dtype_name dt
      else if rel_close (v * sc) (x * us _ u) tol then ""
      else if rel_close (v * sc) (x * us _ u) (2 # 1000000) then "value-single-precision-level"
      else "value"
  | VVar _ (ENaN _) u d, OutNaN sc dm dt =>
      if negb (deqb (ud _ u) dm) then "unit-dimension"
      else if negb (rel_close (us _ u) sc (1 # 1000000000000)) then "unit-multiplier"
      else if negb (dtype_eqb d dt) then "dtype" else ""
  | VVar _ (EVec _ x y z) u _, OutVec a b c sc dm =>
      if negb (deqb (ud _ u) dm) then "unit-dimension"
      else if negb (rel_close (us _ u) sc (1 # 1000000000000)) then "unit-multiplier"
      else
        let n := Qabs (x * us _ u) + Qabs (y * us _ u) + Qabs (z * us _ u) in
        if abs_close (a * sc) (x * us _ u) (tol * n) && abs_close (b * sc) (y * us _ u) (tol * n)
           && abs_close (c * sc) (z * us _ u) (tol * n) then "" else "value"
  | VErr _ e, OutErr cls => ""          (* both refuse; the class is reported separately *)
  | VErr _ e, _ => "model-raises-" ++ e
  | _, OutErr cls => "impl-raises-" ++ cls
  | VVar _ (ENum _ _ _) _ _, OutNaN _ _ _ => "impl-NaN"
  | VVar _ (ENaN _) _ _, OutVal _ _ _ _ => "model-NaN"
  | _, OutInf _ _ _ => "impl-infinite"
  | _, _ => "shape"
  end.

Definition nat_str (n : nat) : string := NilEmpty.string_of_uint (Nat.to_uint n).
Fixpoint report_aux (i : nat) (rs : list string) (acc : string) (nfail : nat) : string * nat :=
  match rs with
  | [] => (acc, nfail)
  | r :: rs' =>
      if String.eqb r "" then report_aux (S i) rs' acc nfail
      else report_aux (S i) rs' (acc ++ "F" ++ nat_str i ++ ":" ++ r ++ ";") (S nfail)
  end.
(* one line: "OK <n>" or "F<i>:<reason>;..." — the driver parses it *)
Definition report (rs : list string) : string :=
  let '(s, nf) := report_aux 0 rs "" 0 in
  if Nat.eqb nf 0 then "OK " ++ nat_str (List.length rs) else s.

(* one element-wise observation of a kernel: which kernel (or composition),
   the operands as stored by the implementation, what it returned, tolerance *)
Record kcase := mkc { kname : string; kins : list inp; kout : outcome; ktol : Q }.
