(* FlInst.v — a third instance of the arithmetic record: binary64 rounding with
   unbounded exponent range (Flocq: round radix2 (FLX_exp 53) ZnearestE), each
   value carrying the exact real it approximates and a PROVED relative error
   bound.  Evaluating a regenerated kernel at this instance yields, by
   construction, a theorem "for all inputs, every rounding step included, the
   computed value is within [er] (relative) of the exact value" — the standard
   model of floating-point arithmetic without overflow/underflow (that absence is
   the named assumption; the correspondence runs record magnitudes).
   Covered: * / sqrt, integer and decimal literals, the constants.  + - and the
   transcendental functions return a value whose bound is only valid under the
   (unprovable) side condition False, i.e. they are outside this instance. *)
From Coq Require Import Reals ZArith Lra Psatz.
From Flocq Require Import Core Relative.
From Verif.Sem Require Import Field.
Open Scope R_scope.

Definition u64 : R := / 2 * bpow radix2 (-53 + 1).          (* 2^-53 *)
Definition rnd (x : R) : R := round radix2 (FLX_exp 53) ZnearestE x.

Lemma u64_pos : 0 < u64.
Proof. unfold u64. apply Rmult_lt_0_compat; [lra | apply bpow_gt_0]. Qed.
Lemma rnd_model x : exists d, Rabs d <= u64 /\ rnd x = x * (1 + d).
Proof.
  unfold rnd, u64.
  apply (relative_error_N_FLX_ex radix2 53 ltac:(lia) (fun z => negb (Z.even z)) x).
Qed.

Lemma abs_le_lo t e : Rabs t <= e -> - e <= t.
Proof. unfold Rabs; destruct (Rcase_abs t); lra. Qed.
Lemma abs_le_hi t e : Rabs t <= e -> t <= e.
Proof. unfold Rabs; destruct (Rcase_abs t); lra. Qed.

(* value, exact counterpart, relative bound, side condition, proof *)
Record fl := mkfl {
  fv : R; ex : R; er : R; cond : Prop;
  fok : cond -> Rabs (fv - ex) <= er * Rabs ex /\ 0 <= er
}.

Lemma rel_to_factor a x e : Rabs (a - x) <= e * Rabs x -> 0 <= e ->
  exists t, Rabs t <= e /\ a = x * (1 + t).
Proof.
  intros H He. destruct (Req_dec x 0) as [->|Hx].
  - exists 0. rewrite Rabs_R0, Rmult_0_r, Rminus_0_r in H. split; [rewrite Rabs_R0; lra|].
    assert (Rabs a = 0) by (pose proof (Rabs_pos a); lra).
    destruct (Req_dec a 0) as [->|Hn]; [ring|]. pose proof (Rabs_no_R0 a Hn). lra.
  - exists ((a - x) / x). split; [| field; exact Hx].
    unfold Rdiv. rewrite Rabs_mult, Rabs_inv.
    apply Rmult_le_reg_r with (Rabs x); [apply Rabs_pos_lt; exact Hx|].
    rewrite Rmult_assoc, Rinv_l, Rmult_1_r by (apply Rabs_no_R0; exact Hx). exact H.
Qed.
Lemma factor_to_rel a x t e : a = x * (1 + t) -> Rabs t <= e -> Rabs (a - x) <= e * Rabs x.
Proof.
  intros -> Ht. replace (x * (1 + t) - x) with (t * x) by ring.
  rewrite Rabs_mult. apply Rmult_le_compat_r; [apply Rabs_pos | exact Ht].
Qed.

(* (1+t1)(1+t2)(1+d) = 1 + t with |t| <= (1+e1)(1+e2)(1+u) - 1 *)
Lemma three_factors t1 t2 d e1 e2 u : Rabs t1 <= e1 -> Rabs t2 <= e2 -> Rabs d <= u ->
  Rabs ((1 + t1) * (1 + t2) * (1 + d) - 1) <= (1 + e1) * (1 + e2) * (1 + u) - 1.
Proof.
  intros H1 H2 H3.
  pose proof (Rabs_pos t1); pose proof (Rabs_pos t2); pose proof (Rabs_pos d).
  replace ((1 + t1) * (1 + t2) * (1 + d) - 1)
    with (t1 + t2 + d + t1 * t2 + t1 * d + t2 * d + t1 * t2 * d) by ring.
  assert (Htri : Rabs (t1 + t2 + d + t1 * t2 + t1 * d + t2 * d + t1 * t2 * d)
                 <= Rabs t1 + Rabs t2 + Rabs d + Rabs (t1 * t2) + Rabs (t1 * d) + Rabs (t2 * d) + Rabs (t1 * t2 * d)).
  { repeat (eapply Rle_trans; [apply Rabs_triang|]; apply Rplus_le_compat; [| apply Rle_refl]). apply Rle_refl. }
  eapply Rle_trans; [exact Htri|].
  rewrite !Rabs_mult.
  assert (Rabs t1 * Rabs t2 <= e1 * e2) by (apply Rmult_le_compat; lra).
  assert (Rabs t1 * Rabs d <= e1 * u) by (apply Rmult_le_compat; lra).
  assert (Rabs t2 * Rabs d <= e2 * u) by (apply Rmult_le_compat; lra).
  assert (Rabs t1 * Rabs t2 * Rabs d <= e1 * e2 * u).
  { apply Rmult_le_compat; try lra. apply Rmult_le_pos; lra. }
  lra.
Qed.

Lemma fl_mul_ok (a b : fl) :
  cond a /\ cond b -> Rabs (rnd (fv a * fv b) - ex a * ex b) <= ((1 + er a) * (1 + er b) * (1 + u64) - 1) * Rabs (ex a * ex b) /\ 0 <= (1 + er a) * (1 + er b) * (1 + u64) - 1.
Proof.
  intros [Ca Cb]. destruct (fok a Ca) as [Ha Ea]. destruct (fok b Cb) as [Hb Eb].
  destruct (rel_to_factor _ _ _ Ha Ea) as (ta & Hta & Eqa).
  destruct (rel_to_factor _ _ _ Hb Eb) as (tb & Htb & Eqb).
  destruct (rnd_model (fv a * fv b)) as (d & Hd & Eqd).
  pose proof u64_pos.
  split.
  - apply factor_to_rel with ((1 + ta) * (1 + tb) * (1 + d) - 1).
    + rewrite Eqd, Eqa, Eqb. ring.
    + apply three_factors; assumption.
  - assert (0 <= er a * er b) by (apply Rmult_le_pos; assumption).
    assert (0 <= (er a + er b + er a * er b) * u64) by (apply Rmult_le_pos; lra). lra.
Qed.
Definition fl_mul (a b : fl) : fl :=
  mkfl (rnd (fv a * fv b)) (ex a * ex b) ((1 + er a) * (1 + er b) * (1 + u64) - 1) (cond a /\ cond b) (fl_mul_ok a b).

(* 1/(1+t) = 1 + s with |s| <= e/(1-e) for |t| <= e < 1 *)
Lemma inv_factor t e : Rabs t <= e -> e < 1 -> Rabs (/ (1 + t) - 1) <= e / (1 - e).
Proof.
  intros Ht He. pose proof (abs_le_lo _ _ Ht). pose proof (abs_le_hi _ _ Ht).
  assert (0 < 1 + t) by lra.
  replace (/ (1 + t) - 1) with (- t / (1 + t)) by (field; lra).
  unfold Rdiv. rewrite Rabs_mult, Rabs_Ropp, Rabs_inv.
  rewrite (Rabs_pos_eq (1 + t)) by lra.
  pose proof (Rabs_pos t).
  assert (1 - e <= 1 + t) by lra.
  apply Rmult_le_compat; try lra.
  - apply Rlt_le, Rinv_0_lt_compat; lra.
  - apply Rinv_le_contravar; lra.
Qed.

Lemma fl_div_ok (a b : fl) :
  cond a /\ cond b /\ er b < 1 /\ ex b <> 0 -> Rabs (rnd (fv a / fv b) - ex a / ex b) <= ((1 + er a) * (1 + er b / (1 - er b)) * (1 + u64) - 1) * Rabs (ex a / ex b) /\ 0 <= (1 + er a) * (1 + er b / (1 - er b)) * (1 + u64) - 1.
Proof.
  intros (Ca & Cb & Hlt & Hnz). destruct (fok a Ca) as [Ha Ea]. destruct (fok b Cb) as [Hb Eb].
  destruct (rel_to_factor _ _ _ Ha Ea) as (ta & Hta & Eqa).
  destruct (rel_to_factor _ _ _ Hb Eb) as (tb & Htb & Eqb).
  destruct (rnd_model (fv a / fv b)) as (d & Hd & Eqd).
  pose proof u64_pos.
  assert (Hq : 0 <= er b / (1 - er b)) by (apply Rmult_le_pos; [lra | apply Rlt_le, Rinv_0_lt_compat; lra]).
  assert (H1tb : 0 < 1 + tb).
  { pose proof (abs_le_lo _ _ Htb). lra. }
  split.
  - apply factor_to_rel with ((1 + ta) * (1 + (/ (1 + tb) - 1)) * (1 + d) - 1).
    + rewrite Eqd, Eqa, Eqb. field. split; lra.
    + apply three_factors; try assumption. apply inv_factor; assumption.
  - assert (0 <= er a * (er b / (1 - er b))) by (apply Rmult_le_pos; assumption).
    assert (0 <= (er a + er b / (1 - er b) + er a * (er b / (1 - er b))) * u64) by (apply Rmult_le_pos; lra). lra.
Qed.
Definition fl_div (a b : fl) : fl :=
  mkfl (rnd (fv a / fv b)) (ex a / ex b) ((1 + er a) * (1 + er b / (1 - er b)) * (1 + u64) - 1) (cond a /\ cond b /\ er b < 1 /\ ex b <> 0) (fl_div_ok a b).

(* sqrt(1+t) = 1 + s with |s| <= |t| for t >= -1 *)
Lemma sqrt_factor t : -1 <= t -> Rabs (sqrt (1 + t) - 1) <= Rabs t.
Proof.
  intros Ht. assert (0 <= sqrt (1 + t)) by apply sqrt_pos.
  assert (Hs : sqrt (1 + t) * sqrt (1 + t) = 1 + t) by (apply sqrt_sqrt; lra).
  destruct (Rle_dec 0 t) as [Hp | Hn].
  - assert (1 <= sqrt (1 + t)). { rewrite <- sqrt_1 at 1. apply sqrt_le_1_alt; lra. }
    rewrite !Rabs_pos_eq by lra. nra.
  - assert (sqrt (1 + t) <= 1). { rewrite <- sqrt_1 at 2. apply sqrt_le_1_alt; lra. }
    rewrite (Rabs_left1 (sqrt (1 + t) - 1)) by lra. rewrite (Rabs_left t) by lra. nra.
Qed.

Lemma fl_sqrt_ok (a : fl) :
  cond a /\ er a <= 1 /\ 0 <= ex a -> Rabs (rnd (sqrt (fv a)) - sqrt (ex a)) <= ((1 + er a) * (1 + 0) * (1 + u64) - 1) * Rabs (sqrt (ex a)) /\ 0 <= (1 + er a) * (1 + 0) * (1 + u64) - 1.
Proof.
  intros (Ca & Hle & Hnn). destruct (fok a Ca) as [Ha Ea].
  destruct (rel_to_factor _ _ _ Ha Ea) as (ta & Hta & Eqa).
  destruct (rnd_model (sqrt (fv a))) as (d & Hd & Eqd).
  pose proof u64_pos.
  assert (Hta' : -1 <= ta).
  { pose proof (abs_le_lo _ _ Hta). lra. }
  split.
  - apply factor_to_rel with ((1 + (sqrt (1 + ta) - 1)) * (1 + 0) * (1 + d) - 1).
    + rewrite Eqd, Eqa. rewrite sqrt_mult by lra. ring.
    + apply three_factors; try assumption.
      * eapply Rle_trans; [apply sqrt_factor; exact Hta' | exact Hta].
      * rewrite Rabs_R0; lra.
  - assert (0 <= er a * u64) by (apply Rmult_le_pos; lra). lra.
Qed.
Definition fl_sqrt (a : fl) : fl :=
  mkfl (rnd (sqrt (fv a))) (sqrt (ex a)) ((1 + er a) * (1 + 0) * (1 + u64) - 1) (cond a /\ er a <= 1 /\ 0 <= ex a) (fl_sqrt_ok a).

(* a real constant stored as the nearest float *)
Lemma fl_const_ok (x : R) :
  True -> Rabs (rnd x - x) <= (u64) * Rabs (x) /\ 0 <= u64.
Proof.
  intros _. destruct (rnd_model x) as (d & Hd & Eqd). pose proof u64_pos. split; [|lra].
  apply factor_to_rel with d; assumption.
Qed.
Definition fl_const (x : R) : fl :=
  mkfl (rnd x) (x) (u64) (True) (fl_const_ok x).
(* an operand that IS a float: exact *)
Lemma fl_exact_ok (x : R) :
  True -> Rabs (x - x) <= (0) * Rabs (x) /\ 0 <= 0.
Proof. intros _. rewrite Rminus_diag_eq by reflexivity. rewrite Rabs_R0. lra.
Qed.
Definition fl_exact (x : R) : fl :=
  mkfl (x) (x) (0) (True) (fl_exact_ok x).
(* outside the covered fragment *)
Lemma fl_unknown_ok (x : R) : False -> Rabs (x - x) <= 0 * Rabs x /\ 0 <= 0.
Proof. intros []. Qed.
Definition fl_unknown (x : R) : fl := mkfl x x 0 False (fl_unknown_ok x).

Lemma fl_opp_ok (a : fl) :
  cond a -> Rabs (- fv a - - ex a) <= (er a) * Rabs (- ex a) /\ 0 <= er a.
Proof.
  intros C. destruct (fok a C) as [H E]. split; [| exact E].
  replace (- fv a - - ex a) with (- (fv a - ex a)) by ring.
  rewrite !Rabs_Ropp. exact H.
Qed.
Definition fl_opp (a : fl) : fl :=
  mkfl (- fv a) (- ex a) (er a) (cond a) (fl_opp_ok a).

Definition FlOps (h mn : R) : Fops :=
  mkFops fl
    (fun a b => fl_unknown (fv a + fv b)) (fun a b => fl_unknown (fv a - fv b))
    fl_mul fl_div fl_opp
    (fun z => fl_const (IZR z)) fl_sqrt
    (fun a => fl_unknown (sin (fv a))) (fun a => fl_unknown (cos (fv a)))
    (fun a b => fl_unknown 0) (fun a => fl_unknown (asin (fv a))) (fun a => fl_unknown (exp (fv a)))
    (fun a => fl_unknown (Rabs (fv a))) (fl_const PI)
    (fun a b => if Rle_dec (fv a) (fv b) then true else false)
    (fun a b => if Rlt_dec (fv a) (fv b) then true else false)
    (fun a b => if Req_EM_T (fv a) (fv b) then true else false)
    (fun _ _ => true)
    (fl_const h) (fl_const mn) (fun a => fl_unknown (fv a)).

Lemma u64_val : u64 = / 9007199254740992.
Proof.
  unfold u64. change (-53 + 1)%Z with (-52)%Z. unfold bpow.
  change (Z.pow_pos radix2 52) with 4503599627370496%Z. field.
Qed.
(* the invariant, unpacked *)
Lemma fl_bound (x : fl) : cond x -> Rabs (fv x - ex x) <= er x * Rabs (ex x).
Proof. intros C; exact (proj1 (fok x C)). Qed.
