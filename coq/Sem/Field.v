(* Field.v — the abstract arithmetic the semantic layer is written over.
   One record of operations, instantiated at R (proofs, Sem/RInst.v) and at
   Q (execution under vm_compute, Sem/QInst.v).  No proofs in this file. *)
From Coq Require Import ZArith String List.
Import ListNotations.
Open Scope Z_scope.

Record Fops := mkFops {
  F : Type;
  fadd : F -> F -> F;
  fsub : F -> F -> F;
  fmul : F -> F -> F;
  fdiv : F -> F -> F;
  fopp : F -> F;
  fofZ : Z -> F;
  fsqrt : F -> F;
  fsin : F -> F;
  fcos : F -> F;
  fatan2 : F -> F -> F;       (* atan2 y x *)
  fasin : F -> F;
  fexp : F -> F;
  fabs : F -> F;
  fpi : F;
  fleb : F -> F -> bool;
  fltb : F -> F -> bool;
  feqb : F -> F -> bool;
  fclose : F -> F -> bool;     (* equality of unit multipliers: exact over R, to 1e-9 over Q *)
  c_h : F;                     (* Planck constant, J*s  (SI) *)
  c_mn : F;                    (* neutron mass, kg      (SI) *)
  frint : F -> F               (* nearest integer, ties away from zero (scipp's to_unit on integer dtypes) *)
}.

Section Derived.
  Variable O : Fops.
  Definition f0 : F O := fofZ O 0.
  Definition f1 : F O := fofZ O 1.
  Definition f2 : F O := fofZ O 2.
  (* decimal literal  m * 10^e  *)
  Definition fdec (m e : Z) : F O :=
    if (0 <=? e)%Z then fofZ O (m * 10 ^ e) else fdiv O (fofZ O m) (fofZ O (10 ^ (- e))).
  (* integer power with a literal (positive-binary) exponent *)
  Fixpoint fpow_pos (x : F O) (p : positive) : F O :=
    match p with
    | xH => x
    | xO p' => let y := fpow_pos x p' in fmul O y y
    | xI p' => let y := fpow_pos x p' in fmul O x (fmul O y y)
    end.
  Definition fpowZ (x : F O) (n : Z) : F O :=
    match n with
    | Z0 => f1
    | Zpos p => fpow_pos x p
    | Zneg p => fdiv O f1 (fpow_pos x p)
    end.
End Derived.
Arguments f0 {O}. Arguments f1 {O}. Arguments f2 {O}.
Arguments fdec {O}. Arguments fpowZ {O}. Arguments fpow_pos {O}.
