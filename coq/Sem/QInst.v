(* QInst.v — the semantic layer instantiated at exact rationals (execution
   under vm_compute for the correspondence runs).  + - * / are exact; sqrt,
   sin, cos, atan2, asin, exp are rational approximations with relative error
   far below 1e-30 (fixed-point series with 2^-140 resolution).  They are used
   only to compute the value the implementation's float result is compared
   with (tolerances >= 1e-13), never in a proof; their accuracy is validated
   against mpmath by tools/selftest_qinst.py.  Definitions only. *)
From Coq Require Import QArith ZArith Qround Qabs List.
From Verif.Sem Require Import Field.
Import ListNotations.
Open Scope Q_scope.

Definition PBITS : Z := 140.
Definition PP : positive := Pos.pow 2 140.
Definition qrnd (q : Q) : Q := Qred (Qmake (Qfloor (q * (Zpos PP # 1))) PP).

(* keep about 220 significant bits (relative rounding) *)
Definition qrel (q : Q) : Q :=
  let n := Qnum q in
  if (n =? 0)%Z then 0
  else let s := (220 - (Z.log2 (Z.abs n) - Z.log2 (Zpos (Qden q))))%Z in
       if (0 <=? s)%Z then Qred (Qmake (Qfloor (q * (Z.pow 2 s # 1))) (Z.to_pos (Z.pow 2 s)))
       else Qred ((Qfloor (q / (Z.pow 2 (- s) # 1)) * Z.pow 2 (- s))%Z # 1).

Definition qadd (a b : Q) := Qred (a + b).
Definition qsub (a b : Q) := Qred (a - b).
Definition qmul (a b : Q) := Qred (a * b).
Definition qdiv (a b : Q) := Qred (a / b).
Definition qopp (a : Q) := Qred (- a).
Definition qabs (a : Q) := Qred (Qabs a).
Definition qleb (a b : Q) := Qle_bool a b.
Definition qltb (a b : Q) := negb (Qle_bool b a).
Definition qeqb (a b : Q) := Qeq_bool a b.
Definition qclose (a b : Q) := Qle_bool (Qabs (a - b)) (Qabs b * (1 # 1000000000)).

Definition qsqrt (q : Q) : Q :=
  if Qle_bool q 0 then 0
  else let n := Qnum q in
       let d := Qden q in
       Qred (Qmake (Z.sqrt (n * Zpos d * Z.pow 4 PBITS)) (d * PP)).

Definition qpi : Q :=
  3141592653589793238462643383279502884197169399375105820974944592 # 1000000000000000000000000000000000000000000000000000000000000000.

(* ---- fixed-point kernels: a Z value z stands for z / 2^140 *)
Definition SH : Z := Z.pow 2 PBITS.
Definition to_fx (q : Q) : Z := (Qnum q * SH / Zpos (Qden q))%Z.
Definition of_fx (z : Z) : Q := Qmake z PP.
Definition fxmul (a b : Z) : Z := (a * b / SH)%Z.
Definition fxdiv (a b : Z) : Z := (a * SH / b)%Z.
Definition fxsqrt (a : Z) : Z := Z.sqrt (a * SH).

(* sum_{k} (-1)^k r^(2k+1)/(2k+1)!, |r| <= PI *)
Fixpoint sin_series (fuel : nat) (k : Z) (term r2 acc : Z) : Z :=
  match fuel with
  | O => acc
  | S f => sin_series f (k + 1)%Z (- fxmul term r2 / ((2 * k + 2) * (2 * k + 3)))%Z r2 (acc + term)%Z
  end.
Definition qsin (x : Q) : Q :=
  let twopi := 2 * qpi in
  let k := Qfloor (x / twopi + (1 # 2)) in
  let r := to_fx (x - (k # 1) * twopi) in
  of_fx (sin_series 30 0 r (fxmul r r) 0).
Definition qcos (x : Q) : Q := qsin (x + qpi / 2).

(* atan for 0 <= t <= 1 : three half-angle reductions, then the Gregory series *)
Fixpoint atan_series (fuel : nat) (k : Z) (pow t2 acc : Z) : Z :=
  match fuel with
  | O => acc
  | S f => atan_series f (k + 1)%Z (- fxmul pow t2)%Z t2 (acc + pow / (2 * k + 1))%Z
  end.
Definition atan_half (t : Z) : Z := fxdiv t (SH + fxsqrt (SH + fxmul t t)).
Definition qatan01 (t : Q) : Q :=
  let t3 := atan_half (atan_half (atan_half (to_fx t))) in
  of_fx (8 * atan_series 24 0 t3 (fxmul t3 t3) 0).
Definition qatan_pos (t : Q) : Q :=      (* t >= 0 *)
  if Qle_bool t 1 then qatan01 t else qpi / 2 - qatan01 (1 / t).
Definition qatan (t : Q) : Q :=
  if Qle_bool 0 t then qatan_pos t else - qatan_pos (- t).
Definition qatan2 (y x : Q) : Q :=
  if qltb 0 x then qatan (y / x)
  else if qltb x 0 then (if Qle_bool 0 y then qatan (y / x) + qpi else qatan (y / x) - qpi)
  else if qltb 0 y then qpi / 2
  else if qltb y 0 then - qpi / 2
  else 0.
Definition qasin (x : Q) : Q := qatan2 x (qsqrt (1 - x * x)).

Fixpoint exp_series (fuel : nat) (k : Z) (term y acc : Z) : Z :=
  match fuel with
  | O => acc
  | S f => exp_series f (k + 1)%Z (fxmul term y / (k + 1))%Z y (acc + term)%Z
  end.
Fixpoint sq_n (n : nat) (x : Q) : Q :=
  match n with O => x | S m => sq_n m (qrel (x * x)) end.
Definition qexp (x : Q) : Q :=
  let a := Qabs x in
  let k := if Qle_bool a (1 # 2) then 0%Z else (Z.log2_up (Qceiling a) + 1)%Z in
  let y := to_fx (x / (Z.pow 2 k # 1)) in
  sq_n (Z.to_nat k) (of_fx (exp_series 36 0 SH y 0)).

Definition qrint (x : Q) : Q :=
  if Qle_bool 0 x then (Qfloor (x + (1 # 2)) # 1) else - (Qfloor (- x + (1 # 2)) # 1).

Definition QOps (h mn : Q) : Fops :=
  mkFops Q qadd qsub qmul qdiv qopp (fun z => z # 1) qsqrt qsin qcos qatan2 qasin qexp qabs qpi
         qleb qltb qeqb qclose h mn qrint.
