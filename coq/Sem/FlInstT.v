(* FlInstT.v — the rounding-error instance of FlInst.v extended with the sine.

   Same carrier as FlInst.fl (binary64 value, the exact real it approximates, a
   PROVED relative error bound, a side condition); same * / sqrt - constants;
   additionally [fsin] is a real operation:

     value              fsin_impl (fv a)        -- the library sine applied to the computed argument
     exact counterpart  sin (ex a)
     side condition     cond a /\ is_f64 (fv a) /\ 0 <= ex a <= PI/2
     relative error     (1 + (er a + 2 (er a)^2)) (1 + ksin u64) - 1

   NAMED ASSUMPTION (an oracle, a Section variable — not an axiom): the library
   sine [fsin_impl] applied to a binary64 number returns sin of that number with
   relative error at most ksin * 2^-53.  An error of "1 ulp" of the result is at
   most 2^-52 relative, i.e. ksin = 2 (glibc documents < 1 ulp for sin in double
   precision); a correctly rounded sine has ksin = 1.

   Mathematics of the propagated part (proved below, for 0 <= x <= PI/2):
     sin(x + d) - sin x = sin x (cos d - 1) + cos x sin d,
     0 <= 1 - cos d <= d^2/2,  |sin d| <= |d|,  x cos x <= sin x  (tan x >= x),
   so with d = x t, |t| <= e:  |sin(x(1+t)) - sin x| <= (e + (PI^2/8) e^2) sin x,
   and PI^2/8 <= 2 (from the standard library's PI <= 4; the term is second
   order).  The relative condition number of sin on (0, PI/2] is x cot x <= 1,
   which is why the first-order term is e itself.
   Only the EXACT argument has to lie in [0, PI/2]; nothing is required of the
   computed argument except that it is a binary64 number.

   + - cos atan2 asin exp abs stay outside (fl_unknown), as in FlInst.v. *)
From Coq Require Import Reals ZArith Lra Psatz.
From Flocq Require Import Core Relative.
From Verif.Sem Require Import Field FlInst.
Open Scope R_scope.

(* ---------- binary64 numbers (unbounded exponent), closed under rnd *)
Definition is_f64 (y : R) : Prop := generic_format radix2 (FLX_exp 53) y.
Lemma is_f64_rnd z : is_f64 (rnd z).
Proof.
  unfold is_f64, rnd. apply generic_format_round.
  - apply FLX_exp_valid. unfold Prec_gt_0. lia.
  - apply valid_rnd_N.
Qed.

(* ---------- elementary facts about sin / cos *)
Lemma sin_sq_le y : sin y * sin y <= y * y.
Proof.
  assert (Hpos : forall z, 0 < z -> sin z * sin z <= z * z).
  { intros z Hz. pose proof (sin_lt_x z Hz). pose proof (SIN_bound z).
    destruct (Rle_dec 1 z) as [H1 | H1].
    - nra.
    - assert (0 < sin z) by (apply sin_gt_0; [lra | pose proof PI2_3_2; lra]). nra. }
  destruct (Rtotal_order y 0) as [Hn | [-> | Hp]].
  - pose proof (Hpos (- y) ltac:(lra)) as H. rewrite sin_neg in H. nra.
  - rewrite sin_0. lra.
  - apply Hpos; exact Hp.
Qed.

Lemma abs_sin_le y : Rabs (sin y) <= Rabs y.
Proof.
  apply Rsqr_le_abs_0. unfold Rsqr. apply sin_sq_le.
Qed.

Lemma one_minus_cos d : 0 <= 1 - cos d <= d * d / 2.
Proof.
  replace d with (2 * (d / 2)) at 1 2 by field.
  rewrite cos_2a_sin. pose proof (sin_sq_le (d / 2)).
  assert (0 <= sin (d / 2) * sin (d / 2)) by nra.
  split; nra.
Qed.

Lemma PI2_ub : PI / 2 <= 2.
Proof. pose proof PI_4. lra. Qed.

(* tan x >= x on [0, PI/2], in product form; from the alternating Taylor bounds of the standard library *)
Lemma x_cos_le_sin x : 0 <= x <= PI / 2 -> x * cos x <= sin x.
Proof.
  intros [H0 H1]. pose proof PI2_ub. pose proof PI_RGT_0.
  destruct (sin_bound x 0 H0 ltac:(lra)) as [Hs _].
  destruct (cos_bound x 0 ltac:(lra) H1) as [_ Hc].
  unfold sin_approx, sin_term in Hs. unfold cos_approx, cos_term in Hc.
  simpl in Hs, Hc.
  (* Hs : x - x^3/6 <= sin x ;  Hc : cos x <= 1 - x^2/2 + x^4/24 *)
  assert (Hs' : x - x * x * x / 6 <= sin x).
  { eapply Rle_trans; [| exact Hs]. apply Req_le. field. }
  assert (Hc' : cos x <= 1 - x * x / 2 + x * x * x * x / 24).
  { eapply Rle_trans; [exact Hc|]. apply Req_le. field. }
  assert (Hx2 : x * x <= 8) by nra.
  assert (Hxc : x * cos x <= x * (1 - x * x / 2 + x * x * x * x / 24))
    by (apply Rmult_le_compat_l; assumption).
  assert (Hcube : 0 <= x * x * x) by (repeat apply Rmult_le_pos; assumption).
  assert (0 <= x * x * x * (1 / 3 - x * x / 24)) by (apply Rmult_le_pos; lra).
  lra.
Qed.

(* the propagated part: a relative perturbation t of the argument *)
Lemma sin_perturbation x t e :
  0 <= x <= PI / 2 -> Rabs t <= e ->
  Rabs (sin (x * (1 + t)) - sin x) <= (e + 2 * (e * e)) * Rabs (sin x).
Proof.
  intros [H0 H1] Ht. pose proof PI2_ub. pose proof PI_RGT_0.
  assert (Hs : 0 <= sin x) by (apply sin_ge_0; lra).
  assert (Hc : 0 <= cos x) by (apply cos_ge_0; lra).
  pose proof (x_cos_le_sin x (conj H0 H1)) as Hxc.
  replace (x * (1 + t)) with (x + x * t) by ring.
  rewrite sin_plus.
  replace (sin x * cos (x * t) + cos x * sin (x * t) - sin x)
    with (- (sin x * (1 - cos (x * t))) + cos x * sin (x * t)) by ring.
  rewrite (Rabs_pos_eq (sin x)) by exact Hs.
  eapply Rle_trans; [apply Rabs_triang|].
  rewrite Rabs_Ropp, !Rabs_mult.
  rewrite (Rabs_pos_eq (sin x)) by exact Hs.
  rewrite (Rabs_pos_eq (cos x)) by exact Hc.
  destruct (one_minus_cos (x * t)) as [Hm0 Hm1].
  rewrite (Rabs_pos_eq (1 - cos (x * t))) by exact Hm0.
  pose proof (abs_sin_le (x * t)) as Hsd. rewrite Rabs_mult, (Rabs_pos_eq x) in Hsd by exact H0.
  pose proof (Rabs_pos t) as Hat.
  assert (Htt : t * t = Rabs t * Rabs t).
  { unfold Rabs. destruct (Rcase_abs t); ring. }
  assert (Hee : Rabs t * Rabs t <= e * e) by (apply Rmult_le_compat; lra).
  (* first term: sin x * (1 - cos (x t)) <= sin x * (2) e^2 *)
  assert (Hxx : x * x <= 4) by nra.
  assert (Hq : 1 - cos (x * t) <= 2 * (e * e)).
  { eapply Rle_trans; [exact Hm1|].
    replace (x * t * (x * t) / 2) with (x * x * (t * t) / 2) by field.
    rewrite Htt.
    assert (0 <= Rabs t * Rabs t) by (apply Rmult_le_pos; lra).
    assert (x * x * (Rabs t * Rabs t) <= 4 * (e * e)).
    { apply Rmult_le_compat; try lra. apply Rmult_le_pos; lra. }
    lra. }
  assert (T1 : sin x * (1 - cos (x * t)) <= sin x * (2 * (e * e)))
    by (apply Rmult_le_compat_l; assumption).
  (* second term: cos x * |sin (x t)| <= cos x * x * |t| <= sin x * e *)
  assert (T2 : cos x * Rabs (sin (x * t)) <= sin x * e).
  { eapply Rle_trans; [apply Rmult_le_compat_l; [exact Hc | exact Hsd]|].
    replace (cos x * (x * Rabs t)) with (x * cos x * Rabs t) by ring.
    apply Rmult_le_compat; try lra. apply Rmult_le_pos; lra. }
  lra.
Qed.

Section WithSin.
(* the oracle: libm's sine on binary64 numbers *)
Variable fsin_impl : R -> R.
Variable ksin : R.
Hypothesis Hksin : 0 <= ksin.
Hypothesis libm_sin_accurate :
  forall y, is_f64 y -> Rabs (fsin_impl y - sin y) <= ksin * u64 * Rabs (sin y).

Lemma fl_sin_ok (a : fl) :
  cond a /\ is_f64 (fv a) /\ 0 <= ex a <= PI / 2 ->
  Rabs (fsin_impl (fv a) - sin (ex a))
    <= ((1 + (er a + 2 * (er a * er a))) * (1 + 0) * (1 + ksin * u64) - 1) * Rabs (sin (ex a))
  /\ 0 <= (1 + (er a + 2 * (er a * er a))) * (1 + 0) * (1 + ksin * u64) - 1.
Proof using Hksin libm_sin_accurate.
  intros (Ca & Hf & Hr). destruct (fok a Ca) as [Ha Ea].
  destruct (rel_to_factor _ _ _ Ha Ea) as (ta & Hta & Eqa).
  pose proof u64_pos.
  assert (Hku : 0 <= ksin * u64) by (apply Rmult_le_pos; lra).
  assert (Hep : 0 <= er a + 2 * (er a * er a)).
  { assert (0 <= er a * er a) by (apply Rmult_le_pos; assumption). lra. }
  pose proof (sin_perturbation (ex a) ta (er a) Hr Hta) as Hp. rewrite <- Eqa in Hp.
  destruct (rel_to_factor _ _ _ Hp Hep) as (tp & Htp & Eqp).
  destruct (rel_to_factor _ _ _ (libm_sin_accurate (fv a) Hf) Hku) as (d & Hd & Eqd).
  split.
  - apply factor_to_rel with ((1 + tp) * (1 + 0) * (1 + d) - 1).
    + rewrite Eqd, Eqp. ring.
    + apply three_factors; try assumption. rewrite Rabs_R0; lra.
  - assert (0 <= (er a + 2 * (er a * er a)) * (ksin * u64)) by (apply Rmult_le_pos; assumption).
    lra.
Qed.
Definition fl_sin (a : fl) : fl :=
  mkfl (fsin_impl (fv a)) (sin (ex a))
       ((1 + (er a + 2 * (er a * er a))) * (1 + 0) * (1 + ksin * u64) - 1)
       (cond a /\ is_f64 (fv a) /\ 0 <= ex a <= PI / 2) (fl_sin_ok a).

(* FlOps with the sine covered; everything else as in FlInst.FlOps *)
Definition FlOpsT (h mn : R) : Fops :=
  mkFops fl
    (fun a b => fl_unknown (fv a + fv b)) (fun a b => fl_unknown (fv a - fv b))
    fl_mul fl_div fl_opp
    (fun z => fl_const (IZR z)) fl_sqrt
    fl_sin (fun a => fl_unknown (cos (fv a)))
    (fun a b => fl_unknown 0) (fun a => fl_unknown (asin (fv a))) (fun a => fl_unknown (exp (fv a)))
    (fun a => fl_unknown (Rabs (fv a))) (fl_const PI)
    (fun a b => if Rle_dec (fv a) (fv b) then true else false)
    (fun a b => if Rlt_dec (fv a) (fv b) then true else false)
    (fun a b => if Req_EM_T (fv a) (fv b) then true else false)
    (fun _ _ => true)
    (fl_const h) (fl_const mn) (fun a => fl_unknown (fv a)).
End WithSin.
