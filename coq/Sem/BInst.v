(* BInst.v — a fast executable instance of the arithmetic record for correspondence runs:
   fixed-point numbers  z / 2^200  with z a Bignums.BigZ integer (machine-word limbs under
   vm_compute).  Every operation truncates to the 2^-200 grid; sqrt/sin/cos/atan2/asin/exp go
   through the 2^-140 series of QInst.  Used ONLY to compute the value an observed float is
   compared with (tolerances >= 1e-12 relative on quantities >= 1e-12 in magnitude), never in a proof. *)
From Coq Require Import ZArith QArith List.
From Bignums Require Import BigZ.
From Verif.Sem Require Import Field QInst.
Local Open Scope bigZ_scope.

Definition BSH : bigZ := 200.
Definition BONE : bigZ := BigZ.shiftl 1 BSH.
Definition ZSH : Z := Z.pow 2 200.
Definition b_toQ (a : bigZ) : Q := Qmake (BigZ.to_Z a) (Z.to_pos ZSH).
Definition b_ofQ (q : Q) : bigZ := BigZ.of_Z (Qnum q * ZSH / Zpos (Qden q))%Z.
Definition badd (a b : bigZ) := a + b.
Definition bsub (a b : bigZ) := a - b.
Definition bmul (a b : bigZ) := BigZ.shiftr (a * b) BSH.
Definition bdiv (a b : bigZ) := BigZ.div (BigZ.shiftl a BSH) b.
Definition bsqrt (a : bigZ) := if BigZ.leb a 0 then 0 else BigZ.sqrt (BigZ.shiftl a BSH).
Definition bofZ (z : Z) : bigZ := BigZ.shiftl (BigZ.of_Z z) BSH.
Definition bviaQ (f : Q -> Q) (a : bigZ) : bigZ := b_ofQ (f (b_toQ a)).
Definition bclose (a b : bigZ) : bool :=
  BigZ.leb (BigZ.abs (a - b) * 1000000000) (BigZ.abs b).
Definition brint (a : bigZ) : bigZ := b_ofQ (qrint (b_toQ a)).
Definition BOps : Fops :=
  mkFops bigZ badd bsub bmul bdiv BigZ.opp bofZ bsqrt (bviaQ qsin) (bviaQ qcos)
         (fun y x => b_ofQ (qatan2 (b_toQ y) (b_toQ x))) (bviaQ qasin) (bviaQ qexp) BigZ.abs (b_ofQ qpi)
         BigZ.leb BigZ.ltb BigZ.eqb bclose BONE BONE brint.
