(* C15/ProofsFloat.v — the two numerical theorems of C15, for ALL inputs.

   F64 is Flocq's description of the binary64 values as real numbers:
   generic_format radix2 (FLT_exp (-1074) 53) = { m * 2^e | |m| < 2^53, e >= -1074 },
   i.e. every finite double, normal and subnormal (the format is not bounded
   above; a finite double is in particular a member, see [b64_in_format]).
   rnd is round-to-nearest, ties-to-even, into that format (= what a correctly
   rounded strtod / Python float() computes when the result is finite). *)
From Coq Require Import Reals ZArith Lra Lia Psatz.
From Flocq Require Import Core.
From Flocq Require IEEE754.Binary.
Open Scope R_scope.

Definition fexp64 := FLT_exp (-1074) 53.
Definition F64 (x : R) : Prop := generic_format radix2 fexp64 x.
Definition rnd64 (x : R) : R := round radix2 fexp64 ZnearestE x.
Definition radix10 : radix := Build_radix 10 (refl_equal true).
(* decimal exponent of x<>0 :  10^(e10 x) <= |x| < 10^(e10 x + 1) *)
Definition e10 (x : R) : Z := (mag radix10 x - 1)%Z.
(* what C's printf("%.18e") promises about the decimal D it prints for x:
   19 significant digits, correctly rounded: half a unit of the 19th digit *)
Definition printf18e_contract (x D : R) : Prop :=
  (x = 0 -> D = 0) /\ (x <> 0 -> Rabs (D - x) <= / 2 * bpow radix10 (e10 x - 18)).

Local Instance prec53_gt_0 : Prec_gt_0 53.
Proof. red. lia. Qed.
Local Instance fexp64_valid : Valid_exp fexp64.
Proof. unfold fexp64. apply FLT_exp_valid. exact prec53_gt_0. Qed.

Lemma two_pow_55 : bpow radix2 (-55) = / 36028797018963968.
Proof. simpl. unfold Z.pow_pos. simpl. reflexivity. Qed.
Lemma two_pow_53 : bpow radix2 (-53) = / 9007199254740992.
Proof. simpl. unfold Z.pow_pos. simpl. reflexivity. Qed.

Lemma ten_pow_18 : bpow radix10 (-18) = / 1000000000000000000.
Proof.
change (bpow radix10 (-18)) with (/ IZR (Z.pow_pos radix10 18)).
replace (Z.pow_pos radix10 18) with 1000000000000000000%Z by (vm_compute; reflexivity).
reflexivity.
Qed.

(* the relative form: a decimal within 5e-19*|x| of x rounds back to x *)
Lemma roundtrip_pos : forall x D, F64 x -> 0 < x ->
  Rabs (D - x) <= x * (5 / 10000000000000000000) -> rnd64 D = x.
Proof.
intros x D Fx Hx HD.
assert (Hu := ulp_FLT_gt radix2 (-1074) 53 x).
assert (Hp := ulp_FLT_gt radix2 (-1074) 53 (pred radix2 fexp64 x)).
assert (Hpp := pred_plus_ulp radix2 fexp64 x Hx Fx).
assert (Hp0 := pred_ge_0 radix2 fexp64 x Hx Fx).
assert (Hs := succ_eq_pos radix2 fexp64 x (Rlt_le _ _ Hx)).
fold fexp64 in Hu, Hp.
rewrite Rabs_pos_eq in Hu by lra.
rewrite Rabs_pos_eq in Hp by lra.
change (bpow radix2 (- (53))) with (bpow radix2 (-53)) in Hu, Hp.
rewrite two_pow_53 in Hu, Hp.
set (p := pred radix2 fexp64 x) in *.
set (w := ulp radix2 fexp64 p) in *.
set (u := ulp radix2 fexp64 x) in *.
apply Rabs_le_inv in HD.
apply Rle_antisym.
- apply round_N_le_midp; [exact fexp64_valid|exact Fx|]. rewrite Hs. fold u. lra.
- apply round_N_ge_midp; [exact fexp64_valid|exact Fx|]. fold p.
  assert (x = p + w) by (symmetry; exact Hpp).
  (* w > (x - w)/2^53  ->  w > x / (2^53+1) > x * 2^-54 *)
  lra.
Qed.

Theorem decimal19_roundtrip_rel : forall x D, F64 x ->
  Rabs (D - x) <= Rabs x * (5 / 10000000000000000000) -> rnd64 D = x.
Proof.
intros x D Fx HD.
destruct (Rtotal_order x 0) as [Hx|[Hx|Hx]].
- (* x < 0 : symmetry of round-to-nearest-even *)
  assert (H : rnd64 (- D) = - x).
  { apply roundtrip_pos. unfold F64. apply generic_format_opp. exact Fx. lra.
    rewrite (Rabs_left x) in HD by lra.
    replace (- D - - x) with (- (D - x)) by ring. now rewrite Rabs_Ropp. }
  unfold rnd64 in *. rewrite round_NE_opp in H. lra.
- subst x. rewrite Rabs_R0, Rmult_0_l, Rminus_0_r in HD.
  assert (D = 0). { destruct (Req_dec D 0); trivial. apply Rabs_pos_lt in H. lra. }
  subst D. unfold rnd64. apply round_0. apply valid_rnd_N.
- apply roundtrip_pos; trivial. rewrite (Rabs_pos_eq x) in HD by lra. exact HD.
Qed.

(* the printf contract implies the relative hypothesis *)
Lemma contract_rel : forall x D, printf18e_contract x D ->
  Rabs (D - x) <= Rabs x * (5 / 10000000000000000000).
Proof.
intros x D [H0 H1].
destruct (Req_dec x 0) as [Hx|Hx].
- rewrite (H0 Hx), Hx, Rminus_0_r, Rabs_R0. lra.
- eapply Rle_trans. apply (H1 Hx).
  unfold e10.
  destruct (mag radix10 x) as [e He]. simpl.
  specialize (He Hx). destruct He as [He _].
  replace (e - 1 - 18)%Z with ((e - 1) + (-18))%Z by lia.
  rewrite bpow_plus.
  rewrite ten_pow_18.
  assert (0 < bpow radix10 (e - 1)) by apply bpow_gt_0.
  lra.
Qed.

(* THE bit-for-bit theorem: whatever 19-significant-digit correctly rounded
   decimal is printed for a binary64 value x (normal or subnormal, either sign,
   zero), reading it back with round-to-nearest-even returns x. *)
Theorem decimal19_roundtrip : forall x D, F64 x -> printf18e_contract x D -> rnd64 D = x.
Proof. intros x D Fx H. apply decimal19_roundtrip_rel; trivial. now apply contract_rel. Qed.

(* every finite IEEE binary64 datum (Flocq's bit-level type) is covered *)
Lemma b64_in_format : forall f : Binary.binary_float 53 1024, F64 (Binary.B2R 53 1024 f).
Proof. intros f. unfold F64, fexp64. apply (Binary.generic_format_B2R 53 1024 f). Qed.

Theorem decimal19_roundtrip_b64 : forall (f : Binary.binary_float 53 1024) D,
  printf18e_contract (Binary.B2R 53 1024 f) D -> rnd64 D = Binary.B2R 53 1024 f.
Proof. intros f D. apply decimal19_roundtrip. apply b64_in_format. Qed.

(* satisfiability: x = 1, D = 1 + 1e-19 *)
Example decimal19_roundtrip_sat :
  F64 1 /\ printf18e_contract 1 (1 + / 10000000000000000000).
Proof.
split.
- unfold F64. replace 1 with (bpow radix2 0) by reflexivity.
  apply generic_format_bpow. unfold fexp64, FLT_exp. simpl. lia.
- split. intros; lra. intros _.
  replace (1 + / 10000000000000000000 - 1) with (/ 10000000000000000000) by ring.
  rewrite Rabs_pos_eq by lra.
  assert (E : e10 1 = 0%Z).
  { unfold e10. rewrite (mag_unique radix10 1 1). reflexivity.
    simpl. rewrite Rabs_pos_eq by lra. unfold Z.pow_pos; simpl. lra. }
  rewrite E. change (0 - 18)%Z with (-18)%Z. rewrite ten_pow_18. lra.
Qed.

(* ------------------------------------------------------------------ variances *)
(* standard model of floating-point arithmetic: every operation returns the
   exact result times (1+d), |d| <= u (plus, for the product, an absolute
   underflow term |e| <= eta; eta = 0 when the product is in the normal range).
   save:  s = fl(sqrt v) ;  load:  r = fl(s * s). *)
Theorem variance_roundtrip : forall u eta v d1 d2 e,
  0 <= v -> 0 <= u <= 1 -> Rabs d1 <= u -> Rabs d2 <= u -> Rabs e <= eta ->
  let s := sqrt v * (1 + d1) in
  let r := s * s * (1 + d2) + e in
  Rabs (r - v) <= v * (3 * u + 3 * u * u + u * u * u) + eta.
Proof.
intros u eta v d1 d2 e Hv Hu H1 H2 He s r.
assert (Hs : sqrt v * sqrt v = v) by now apply sqrt_sqrt.
unfold r, s.
set (q := sqrt v) in *.
assert (E : q * (1 + d1) * (q * (1 + d1)) * (1 + d2) + e - v
            = v * ((1 + d1) * (1 + d1) * (1 + d2) - 1) + e).
{ rewrite <- Hs. ring. }
rewrite E.
eapply Rle_trans. apply Rabs_triang.
apply Rplus_le_compat; trivial.
rewrite Rabs_mult, (Rabs_pos_eq v) by trivial.
apply Rmult_le_compat_l; trivial.
apply Rabs_le_inv in H1. apply Rabs_le_inv in H2.
apply Rabs_le.
set (a := 1 + d1) in *. set (b := 1 + d2) in *.
assert (Ha : 1 - u <= a <= 1 + u) by (unfold a; lra).
assert (Hb : 1 - u <= b <= 1 + u) by (unfold b; lra).
assert (Ha2 : (1 - u) * (1 - u) <= a * a <= (1 + u) * (1 + u)).
{ split.
  - assert (0 <= (a - (1 - u)) * (a + (1 - u))) by (apply Rmult_le_pos; lra). lra.
  - assert (0 <= ((1 + u) - a) * ((1 + u) + a)) by (apply Rmult_le_pos; lra). lra. }
assert (0 <= (1 - u) * (1 - u)) by (apply Rmult_le_pos; lra).
split.
- assert ((1 - u) * (1 - u) * (1 - u) <= a * a * b).
  { apply Rmult_le_compat; lra. }
  assert (0 <= u * u) by (apply Rmult_le_pos; lra).
  assert (0 <= u * u * u) by (apply Rmult_le_pos; lra).
  lra.
- assert (a * a * b <= (1 + u) * (1 + u) * (1 + u)).
  { apply Rmult_le_compat; lra. }
  lra.
Qed.

(* with u = 2^-53 the bound is below 3.0000000000000005 * 2^-53 * v, i.e. strictly
   less than 3.0000000000000005 ulp(v)  ("a few units in the last place") *)
Corollary variance_roundtrip_ulps : forall v d1 d2,
  F64 v -> 0 <= v -> Rabs d1 <= bpow radix2 (-53) -> Rabs d2 <= bpow radix2 (-53) ->
  let s := sqrt v * (1 + d1) in
  let r := s * s * (1 + d2) in
  Rabs (r - v) <= (3 + / 1000000000000000) * ulp radix2 fexp64 v.
Proof.
intros v d1 d2 Fv Hv H1 H2 s r.
assert (Hu1 : 0 <= bpow radix2 (-53) <= 1).
{ split. apply bpow_ge_0. rewrite two_pow_53. lra. }
assert (H := variance_roundtrip (bpow radix2 (-53)) 0 v d1 d2 0 Hv Hu1 H1 H2).
rewrite Rabs_R0 in H. specialize (H (Rle_refl 0)). simpl in H.
rewrite Rplus_0_r in H. fold s in H. fold r in H. rewrite Rplus_0_r in H.
assert (Hu := ulp_FLT_gt radix2 (-1074) 53 v). fold fexp64 in Hu.
rewrite Rabs_pos_eq in Hu by trivial.
change (bpow radix2 (- (53))) with (bpow radix2 (-53)) in Hu.
rewrite two_pow_53 in *.
set (w := ulp radix2 fexp64 v) in *.
nra.
Qed.

Example variance_roundtrip_sat : 0 <= 4 /\ 0 <= / 2 <= 1 /\ Rabs 0 <= / 2.
Proof. rewrite Rabs_R0. lra. Qed.
