(* C15/ProofsMain.v — the end-to-end statement: text layer + number layer.
   Oracles are Section variables with their contracts written as hypotheses:
     fmt      C printf("%.18e") as used by numpy.savetxt's default format
     tokval   the exact real value of a decimal token
     strtod   := round-to-nearest-even of tokval   (correctly rounded reader)
     fl_sqrt / fl_sq   numpy.sqrt and x**2 on binary64 (any functions; their accuracy is
              the subject of variance_roundtrip, here only "sqrt returns a double") *)
From Coq Require Import Reals List String Ascii Bool.
From Flocq Require Import Core.
From Verif.C15 Require Import Model ProofsFloat ProofsText.
Import ListNotations.
Local Open Scope list_scope.

Section EndToEnd.
Variable fmt : R -> text.
Variable tokval : text -> R.
Variable fl_sqrt fl_sq : R -> R.
Hypothesis fmt_contract : forall x, F64 x -> printf18e_contract x (tokval (fmt x)).
Hypothesis fmt_clean : forall x, F64 x -> clean (fmt x).
Hypothesis sqrt_double : forall v, F64 v -> F64 (fl_sqrt v).
Definition strtod (t : text) : R := rnd64 (tokval t).

Record xyv := mkxyv { cx : R; cy : R; cv : R }.
Definition doubles (r : xyv) : Prop := F64 (cx r) /\ F64 (cy r) /\ F64 (cv r).

(* save_xye's table and load_xye's post-processing on top of the text model *)
Definition save_model (h : text) (rows : list xyv) : text :=
  savetxt h (map (fun r => [fmt (cx r); fmt (cy r); fmt (fl_sqrt (cv r))]) rows).
Definition load_model (rd : reader) (reshape : bool) (ic iy ie : nat) (s : text)
  : option (list R * list R * list R) :=
  match load_tokens rd reshape ic iy ie s with
  | Some (c, y, e) => Some (map strtod c, map strtod y, map (fun t => fl_sq (strtod t)) e)
  | None => None
  end.

Lemma strtod_fmt : forall x, F64 x -> strtod (fmt x) = x.
Proof using fmt_contract. intros x Fx. apply decimal19_roundtrip; auto. Qed.

Theorem xye_roundtrip : forall rd h rows,
  (rd = LFOnly \/ ~ In cr h) -> rows <> [] -> Forall doubles rows ->
  load_model rd true 0 1 2 (save_model h rows) =
  Some (map cx rows, map cy rows, map (fun r => fl_sq (fl_sqrt (cv r))) rows).
Proof using fmt_contract fmt_clean sqrt_double.
intros rd h rows Hrd Hn Hd. unfold load_model, save_model.
pose (trip := map (fun r => (fmt (cx r), fmt (cy r), fmt (fl_sqrt (cv r)))) rows).
assert (E : map (fun r => [fmt (cx r); fmt (cy r); fmt (fl_sqrt (cv r))]) rows
            = map (fun r : text * text * text => [fst (fst r); snd (fst r); snd r]) trip).
{ unfold trip. rewrite map_map. reflexivity. }
rewrite E, file_roundtrip_tokens; trivial.
- unfold trip. rewrite !map_map. simpl.
  f_equal. f_equal; [f_equal|]; apply map_ext_in; intros r Hr;
    rewrite Forall_forall in Hd; destruct (Hd r Hr) as [A [B C]]; simpl.
  + now apply strtod_fmt.
  + now apply strtod_fmt.
  + f_equal. apply strtod_fmt. now apply sqrt_double.
- unfold trip. destruct rows; simpl; congruence.
- unfold trip. rewrite Forall_forall. intros t Ht. apply in_map_iff in Ht.
  destruct Ht as [r [<- Hr]]. rewrite Forall_forall in Hd. destruct (Hd r Hr) as [A [B C]]. simpl.
  repeat split; try (apply fmt_clean; auto); apply fmt_clean; auto.
Qed.
End EndToEnd.
