(* C15/ProofsGuard.v — specification of "what the XYE format can represent", the
   documented refusal for everything else, and the proof method for a guard list
   (used in coq-run/C15/Tie.v on the list REGENERATED from xye.py on every run). *)
From Coq Require Import List String Bool Arith Lia.
From Verif.C15 Require Import Model.
Import ListNotations.
Open Scope string_scope.

(* independent statement of the property's last sentence *)
Definition representable (f : facts) : Prop :=
  has_variances f = true /\ ndim f = 1 /\ nmasks f = 0 /\ ncoords f >= 1 /\
  chosen_is_edges f = false /\
  (coord_given f = true \/ ncoords f = 1 \/ dim_in_coords f = true).

Definition representable_b (f : facts) : bool :=
  has_variances f && Nat.eqb (ndim f) 1 && Nat.eqb (nmasks f) 0 && Nat.leb 1 (ncoords f) &&
  negb (chosen_is_edges f) && (coord_given f || Nat.eqb (ncoords f) 1 || dim_in_coords f).

Lemma representable_b_spec : forall f, representable_b f = true <-> representable f.
Proof.
intros f. unfold representable_b, representable.
rewrite !andb_true_iff, !orb_true_iff, negb_true_iff, !Nat.eqb_eq, Nat.leb_le. intuition.
Qed.

(* documented exception per unrepresentable class, in the documented order
   (docstring + messages of save_xye / _deduce_coord) *)
Definition documented_refusal (f : facts) : option string :=
  if negb (has_variances f) then Some "sc.VariancesError"
  else if negb (Nat.eqb (ndim f) 1) then Some "sc.DimensionError"
  else if negb (Nat.eqb (nmasks f) 0) then Some "ValueError"
  else if Nat.eqb (ncoords f) 0 then Some "ValueError"
  else if negb (coord_given f) && Nat.ltb 1 (ncoords f) && negb (dim_in_coords f) then Some "ValueError"
  else if chosen_is_edges f then Some "sc.CoordError"
  else None.
Definition documented_outcome (f : facts) : outcome :=
  match documented_refusal f with None => Saved | Some e => Raised e end.

Lemma documented_saved_iff : forall f, documented_outcome f = Saved <-> representable f.
Proof.
intros f. rewrite <- representable_b_spec. unfold documented_outcome, documented_refusal, representable_b.
destruct f as [hv nd nm nc cg dc ed]; simpl.
destruct hv, cg, dc, ed; destruct nd as [|[|nd]]; destruct nm as [|nm]; destruct nc as [|[|nc]];
  simpl; split; intros H; try reflexivity; try discriminate.
Qed.

(* the guard sequence as it stands in the source today (for reference and for the
   syntactic tie; the semantic theorems are re-proved on the regenerated list) *)
Definition model_guards : list step := [
  Guard CNoVariances "sc.VariancesError";
  Guard (CNdim ONe 1) "sc.DimensionError";
  Guard CHasMasks "ValueError";
  Guard (CLenCoords OEq 0) "ValueError";
  DeduceUnlessGiven;
  Guard CIsEdges "sc.CoordError" ].
Definition model_deduce : list dstep := [
  DReturnFirstIf (CLenCoords OEq 1);
  DRaiseIf (CAnd (CLenCoords OGt 1) CDimNotInCoords) "ValueError";
  DReturnDim ].

(* decide  forall f, run_guards f ds ss = documented_outcome f  for concrete lists: all
   booleans are enumerated, the three counters are split into 0, 1, 2, >= 3 (the lists
   compare them with small constants only, so the residual symbolic case computes) *)
Ltac guard_table :=
  let f := fresh "f" in
  intros f; destruct f as [hv nd nm nc cg dc ed];
  destruct hv, cg, dc, ed;
  destruct nd as [|[|[|nd]]]; destruct nm as [|[|[|nm]]]; destruct nc as [|[|[|nc]]];
  reflexivity.

Lemma model_guards_table : forall f, run_guards f model_deduce model_guards = documented_outcome f.
Proof. guard_table. Qed.

(* finite decision table (all 2^4 * 4^3 = 1024 valuations with counters 0..3), by computation *)
Definition all_bools := [true; false].
Definition small := [0; 1; 2; 3].
Definition grid : list facts :=
  flat_map (fun hv => flat_map (fun nd => flat_map (fun nm => flat_map (fun nc =>
  flat_map (fun cg => flat_map (fun dc => map (fun ed => mkfacts hv nd nm nc cg dc ed)
  all_bools) all_bools) all_bools) small) small) small) all_bools.
Definition outcome_eqb (a b : outcome) : bool :=
  match a, b with
  | Saved, Saved => true
  | Raised x, Raised y => String.eqb x y
  | _, _ => false
  end.
Definition table_ok (ds : list dstep) (ss : list step) : bool :=
  forallb (fun f => outcome_eqb (run_guards f ds ss) (documented_outcome f)) grid.
Lemma model_table_ok : table_ok model_deduce model_guards = true.
Proof. vm_compute. reflexivity. Qed.

Lemma refusals_from_table : forall ds ss,
  (forall f, run_guards f ds ss = documented_outcome f) ->
  forall f, run_guards f ds ss = Saved <-> representable f.
Proof. intros ds ss H f. rewrite H. apply documented_saved_iff. Qed.

Example representable_sat : representable (mkfacts true 1 0 1 false true false).
Proof. unfold representable; simpl. intuition. Qed.
