(* C15/ProofsText.v — lemmas about the text side of the XYE round trip
   (header prefixing, line splitting, token splitting, shape rule); all by
   induction over arbitrary texts / row lists, no finite enumeration. *)
From Coq Require Import List String Ascii Bool Arith Lia.
From Verif.C15 Require Import Model.
Import ListNotations.
Local Open Scope list_scope.

Definition starts_hash (s : text) : Prop := exists t, s = hash :: t.
(* a printed number: non-empty, free of blank, newline, carriage return and '#' *)
Definition clean (t : text) : Prop :=
  t <> [] /\ ~ In sp t /\ ~ In nl t /\ ~ In cr t /\ ~ In hash t.

Lemma eqb_refl' : forall c, Ascii.eqb c c = true.
Proof. intros. apply Ascii.eqb_eq. reflexivity. Qed.
Lemma eqb_neq' : forall a b, a <> b -> Ascii.eqb a b = false.
Proof. intros. apply Ascii.eqb_neq. assumption. Qed.

(* ------------------------------------------------------------------ split *)
Lemma split_not_nil : forall d s, split d s <> [].
Proof.
intros d s. destruct s as [|c t]; simpl. discriminate.
destruct (Ascii.eqb c d). discriminate. destruct (split d t); discriminate.
Qed.

Lemma split_sep : forall d a b, split d (a ++ d :: b) = split d a ++ split d b.
Proof.
intros d a b. induction a as [|c a IH]; simpl.
- rewrite eqb_refl'. reflexivity.
- destruct (Ascii.eqb c d). now rewrite IH.
  rewrite IH. destruct (split d a) eqn:E. now apply split_not_nil in E. reflexivity.
Qed.

Lemma split_free : forall d w, ~ In d w -> split d w = [w].
Proof.
intros d w. induction w as [|c w IH]; intros H; simpl. reflexivity.
rewrite eqb_neq' by (intros ->; apply H; now left).
rewrite IH by (intros X; apply H; now right). reflexivity.
Qed.

Lemma split_join : forall d ws, ws <> [] -> Forall (fun w => ~ In d w) ws ->
  split d (join d ws) = ws.
Proof.
intros d ws. induction ws as [|w ws IH]; intros Hn Hf. congruence.
inversion Hf as [|? ? Hw Hws]; subst.
destruct ws as [|w2 ws]. simpl. now apply split_free.
change (join d (w :: w2 :: ws)) with (w ++ d :: join d (w2 :: ws)).
rewrite split_sep, split_free by assumption. rewrite IH. reflexivity. discriminate. assumption.
Qed.

(* ------------------------------------------------------------------ str.replace of one character *)
Lemma replace1_cons : forall c new x t,
  py_replace [c] new (x :: t) =
  if Ascii.eqb c x then new ++ py_replace [c] new t else x :: py_replace [c] new t.
Proof. intros. unfold py_replace. simpl. rewrite andb_true_r. reflexivity. Qed.

Lemma replace1_in : forall c new s x, In x (py_replace [c] new s) -> In x new \/ (In x s /\ x <> c).
Proof.
intros c new s x. induction s as [|y t IH]. simpl. tauto.
rewrite replace1_cons. destruct (Ascii.eqb c y) eqn:E.
- intros H. apply in_app_or in H. destruct H. now left. destruct (IH H). now left. right. simpl. tauto.
- apply Ascii.eqb_neq in E. intros [H|H]. right. split. now left. congruence.
  destruct (IH H). now left. right. simpl. tauto.
Qed.

(* replacing every occurrence of a character by a text that does not contain it removes it *)
Lemma replace1_removes : forall c new s, ~ In c new -> ~ In c (py_replace [c] new s).
Proof. intros c new s H X. apply replace1_in in X. destruct X as [X|[_ X]]; tauto. Qed.

Lemma apply_replacements_app : forall a b s,
  apply_replacements (a ++ b) s = apply_replacements b (apply_replacements a s).
Proof. intros. unfold apply_replacements. apply fold_left_app. Qed.

(* a replacement pipeline whose last step rewrites "\r" to a CR-free text yields a CR-free text *)
Lemma pipeline_no_cr : forall rs new s, ~ In cr new ->
  ~ In cr (apply_replacements (rs ++ [([cr], new)]) s).
Proof. intros. rewrite apply_replacements_app. simpl. now apply replace1_removes. Qed.

Definition decode_replacements (l : list (list nat * list nat)) : list (text * text) :=
  map (fun p => (map ascii_of_nat (fst p), map ascii_of_nat (snd p))) l.
Definition last_removes_cr (rs : list (text * text)) : bool :=
  match rev rs with
  | ([c], n) :: _ => Ascii.eqb c cr && negb (existsb (Ascii.eqb cr) n)
  | _ => false
  end.
Lemma pipeline_no_cr_b : forall rs, last_removes_cr rs = true ->
  forall s, ~ In cr (apply_replacements rs s).
Proof.
intros rs H s. unfold last_removes_cr in H.
destruct (rev rs) as [|[p n] l] eqn:E. discriminate.
destruct p as [|c [|? ?]]; try discriminate.
apply andb_true_iff in H. destruct H as [Hc Hn]. apply Ascii.eqb_eq in Hc. subst c.
assert (R : rs = rev l ++ [([cr], n)]).
{ rewrite <- (rev_involutive rs), E. reflexivity. }
rewrite R. apply pipeline_no_cr.
intros X. apply negb_true_iff in Hn.
assert (existsb (Ascii.eqb cr) n = true).
{ apply existsb_exists. exists cr. split. exact X. apply eqb_refl'. }
congruence.
Qed.

(* ------------------------------------------------------------------ header *)
Definition hdr_body (h : text) : text := comments ++ py_replace [nl] (nl :: comments) h.

Lemma savetxt_header_eq : forall h, h <> [] -> savetxt_header h = hdr_body h ++ [nl].
Proof. intros [|c t] H. congruence. unfold savetxt_header, hdr_body. now rewrite <- app_assoc. Qed.

Lemma header_lines_aux : forall h pre, ~ In nl pre -> starts_hash pre ->
  Forall starts_hash (split nl (pre ++ py_replace [nl] (nl :: comments) h)).
Proof.
induction h as [|c h IH]; intros pre Hn Hs.
- unfold py_replace. simpl. rewrite app_nil_r, split_free by assumption. now constructor.
- rewrite replace1_cons. destruct (Ascii.eqb nl c) eqn:E.
  + change ((nl :: comments) ++ py_replace [nl] (nl :: comments) h)
      with (nl :: (comments ++ py_replace [nl] (nl :: comments) h)).
    rewrite split_sep, split_free by assumption. constructor. assumption.
    apply IH. unfold comments, nl, hash, sp. simpl. intros [X|[X|[]]]; discriminate.
    now exists [sp].
  + apply Ascii.eqb_neq in E.
    replace (pre ++ c :: py_replace [nl] (nl :: comments) h)
      with ((pre ++ [c]) ++ py_replace [nl] (nl :: comments) h) by now rewrite <- app_assoc.
    apply IH.
    * intros X. apply in_app_or in X. destruct X as [X|[X|[]]]. tauto. congruence.
    * destruct Hs as [t ->]. now exists (t ++ [c]).
Qed.

(* header_inert, LF form: whatever the header text, every line numpy writes for it begins with '#' *)
Lemma header_lines_hash : forall h, Forall starts_hash (split nl (hdr_body h)).
Proof.
intros h. unfold hdr_body. apply header_lines_aux.
unfold comments, nl, hash, sp. simpl. intros [X|[X|[]]]; discriminate. now exists [sp].
Qed.

Lemma hdr_body_in : forall h x, In x (hdr_body h) -> x = hash \/ x = sp \/ x = nl \/ In x h.
Proof.
intros h x H. unfold hdr_body in H. apply in_app_or in H. destruct H as [H|H].
- simpl in H. intuition.
- apply replace1_in in H. destruct H as [H|[H _]]. simpl in H. intuition. tauto.
Qed.

(* ------------------------------------------------------------------ universal newlines *)
Lemma univ_id : forall s, ~ In cr s -> univ s = s.
Proof.
induction s as [|c t IH]; intros H. reflexivity. simpl.
rewrite eqb_neq' by (intros ->; apply H; now left).
rewrite IH by (intros X; apply H; now right). reflexivity.
Qed.

(* ------------------------------------------------------------------ comment stripping *)
Lemma strip_hash : forall s, starts_hash s -> strip_comment s = [].
Proof. intros s [t ->]. reflexivity. Qed.
Lemma strip_free : forall s, ~ In hash s -> strip_comment s = s.
Proof.
induction s as [|c t IH]; intros H. reflexivity. simpl.
rewrite eqb_neq' by (intros ->; apply H; now left).
rewrite IH by (intros X; apply H; now right). reflexivity.
Qed.
Lemma filter_header_lines : forall ls, Forall starts_hash ls ->
  filter nonempty (map strip_comment ls) = [].
Proof. induction 1; simpl. reflexivity. rewrite strip_hash by assumption. assumption. Qed.

(* ------------------------------------------------------------------ rows *)
Definition clean_row (r : list text) : Prop := r <> [] /\ Forall clean r.

Lemma join_in : forall d ws x, In x (join d ws) -> x = d \/ exists w, In w ws /\ In x w.
Proof.
intros d ws x. induction ws as [|w ws IH]. simpl. tauto.
destruct ws as [|w2 ws]. simpl. intros H. right. exists w. simpl. tauto.
change (join d (w :: w2 :: ws)) with (w ++ d :: join d (w2 :: ws)).
intros H. apply in_app_or in H. destruct H as [H|[H|H]].
- right. exists w. simpl. tauto.
- now left.
- destruct (IH H) as [E|[w' [A B]]]. now left. right. exists w'. simpl in *. tauto.
Qed.

Lemma join_nonempty : forall d r, clean_row r -> join d r <> [].
Proof.
intros d [|w ws] [Hn Hc]. congruence. inversion Hc as [|? ? [Hw _] _]; subst.
destruct ws; simpl; destruct w; try congruence; discriminate.
Qed.

Lemma join_free : forall r x, clean_row r -> x <> sp -> (forall w, clean w -> ~ In x w) -> ~ In x (join sp r).
Proof.
intros r x [_ Hc] Hx Hw H. apply join_in in H. destruct H as [H|[w [A B]]]. congruence.
rewrite Forall_forall in Hc. exact (Hw w (Hc w A) B).
Qed.

Lemma body_lines : forall rows, Forall clean_row rows ->
  split nl (List.concat (map row_line rows)) = map (join sp) rows ++ [[]].
Proof.
induction 1 as [|r rows Hr Hrs IH]. reflexivity.
simpl. unfold row_line at 1. rewrite <- app_assoc. simpl.
rewrite split_sep, IH, split_free. reflexivity.
apply join_free; trivial. discriminate. intros w Hw. apply Hw.
Qed.

Lemma data_lines_kept : forall rows, Forall clean_row rows ->
  filter nonempty (map strip_comment (map (join sp) rows ++ [[]])) = map (join sp) rows.
Proof.
induction 1 as [|r rows Hr Hrs IH]. reflexivity.
simpl. rewrite strip_free.
2:{ apply join_free; trivial. discriminate. intros w Hw. apply Hw. }
destruct (join sp r) eqn:E. now apply join_nonempty in E. simpl. now rewrite IH.
Qed.

Lemma rows_back : forall rows, Forall clean_row rows -> map (split sp) (map (join sp) rows) = rows.
Proof.
induction 1 as [|r rows [Hn Hc] Hrs IH]. reflexivity.
simpl. rewrite IH, split_join; trivial.
eapply Forall_impl; [|exact Hc]. intros w Hw. apply Hw.
Qed.

Lemma body_in : forall rows x, Forall clean_row rows -> In x (List.concat (map row_line rows)) ->
  x = nl \/ x = sp \/ exists r w, In r rows /\ In w r /\ In x w.
Proof.
induction 1 as [|r rows Hr Hrs IH]. simpl. tauto.
simpl. intros H. apply in_app_or in H. destruct H as [H|H].
- unfold row_line in H. apply in_app_or in H. destruct H as [H|[H|[]]].
  + apply join_in in H. destruct H as [H|[w [A B]]]. tauto. right. right. exists r, w. tauto.
  + now left.
- destruct (IH H) as [E|[E|[r' [w [A [B C]]]]]]. tauto. tauto. right. right. exists r', w. tauto.
Qed.

(* the rows numpy.loadtxt sees are exactly the rows that were written: the header
   (ANY text h, as long as the reader does not turn a carriage return of h into a line
   break) contributes nothing *)
Theorem rows_of_savetxt : forall rd h rows,
  (rd = LFOnly \/ ~ In cr h) -> Forall clean_row rows ->
  rows_of rd (savetxt h rows) = rows.
Proof.
intros rd h rows Hrd Hrows.
assert (U : phys_lines rd (savetxt h rows) = split nl (savetxt h rows) \/ rd = LFOnly).
{ destruct rd. 2: now right. left. unfold phys_lines. rewrite univ_id. reflexivity.
  destruct Hrd as [|Hcr]. discriminate.
  unfold savetxt. intros X. apply in_app_or in X. destruct X as [X|X].
  - destruct h as [|c t]. exact X. rewrite savetxt_header_eq in X by discriminate.
    apply in_app_or in X. destruct X as [X|[X|[]]]. 2: discriminate.
    apply hdr_body_in in X. destruct X as [X|[X|[X|X]]]; try discriminate. tauto.
  - apply body_in in X; trivial. destruct X as [X|[X|[r [w [A [B C]]]]]]; try discriminate.
    rewrite Forall_forall in Hrows. destruct (Hrows r A) as [_ Hc].
    rewrite Forall_forall in Hc. destruct (Hc w B) as [_ [_ [_ [Hcr' _]]]]. tauto. }
assert (P : phys_lines rd (savetxt h rows) = split nl (savetxt h rows)).
{ destruct U as [U|U]. exact U. subst rd. reflexivity. }
unfold rows_of. rewrite P. unfold savetxt.
destruct h as [|c t].
- simpl. rewrite body_lines, data_lines_kept, rows_back by assumption. reflexivity.
- rewrite savetxt_header_eq by discriminate. rewrite <- app_assoc. simpl ([nl] ++ _).
  rewrite split_sep, map_app, filter_app, filter_header_lines by apply header_lines_hash.
  simpl. rewrite body_lines, data_lines_kept, rows_back by assumption. reflexivity.
Qed.

(* ------------------------------------------------------------------ shape *)
Section Shape.
Context {A : Type} (d : A).

(* table_shape: n >= 1 rows of three entries come back as three columns of length n;
   for n = 1 this is the work of the `ndim == 1` branch of load_xye *)
Theorem table_shape : forall rows : list (list A),
  rows <> [] -> Forall (fun r => List.length r = 3) rows ->
  xye_post true 0 1 2 (loadtxt_unpack d rows) =
  Some (map (fun r => nth 0 r d) rows, map (fun r => nth 1 r d) rows, map (fun r => nth 2 r d) rows).
Proof.
intros rows Hn Hf. destruct rows as [|r1 rows]. congruence.
inversion Hf as [|? ? H1 Hr]; subst.
destruct r1 as [|a [|b [|c [|? ?]]]]; try discriminate.
destruct rows as [|r2 rows].
- reflexivity.
- reflexivity.
Qed.

(* without the reshape branch a one-row file cannot be loaded *)
Lemma table_shape_needs_reshape : forall a b c : A,
  xye_post false 0 1 2 (loadtxt_unpack d [[a; b; c]]) = None.
Proof. reflexivity. Qed.
End Shape.

Example table_shape_sat : ([[1;2;3]] : list (list nat)) <> [] /\ Forall (fun r => List.length r = 3) [[1;2;3]].
Proof. split. discriminate. repeat constructor. Qed.

(* whole text path: save n >= 1 rows of three clean tokens under ANY header, load: the three
   token columns come back *)
Theorem file_roundtrip_tokens : forall rd h (rows : list (text * text * text)),
  (rd = LFOnly \/ ~ In cr h) -> rows <> [] ->
  Forall (fun r => clean (fst (fst r)) /\ clean (snd (fst r)) /\ clean (snd r)) rows ->
  load_tokens rd true 0 1 2
    (savetxt h (map (fun r => [fst (fst r); snd (fst r); snd r]) rows)) =
  Some (map (fun r => fst (fst r)) rows, map (fun r => snd (fst r)) rows, map (fun r => snd r) rows).
Proof.
intros rd h rows Hrd Hn Hc. unfold load_tokens.
rewrite rows_of_savetxt; trivial.
- rewrite table_shape.
  + rewrite !map_map. reflexivity.
  + destruct rows; simpl; congruence.
  + rewrite Forall_forall. intros r Hr. apply in_map_iff in Hr. destruct Hr as [x [<- _]]. reflexivity.
- rewrite Forall_forall. intros r Hr. apply in_map_iff in Hr. destruct Hr as [x [<- Hx]].
  rewrite Forall_forall in Hc. destruct (Hc x Hx) as [A1' [A2' A3']].
  split. discriminate. constructor; [assumption|constructor; [assumption|constructor; [assumption|constructor]]].
Qed.

(* header_inert_refuted: with raw numpy prefixing and a reader that applies universal
   newlines, a header containing a lone carriage return produces a line that does not
   start with '#' — here it even injects a data row *)
Definition s2t (s : string) : text := list_ascii_of_string s.
Lemma header_cr_injects_row :
  rows_of Universal (savetxt (s2t "a" ++ cr :: s2t "1 2 3") [[s2t "4"; s2t "5"; s2t "6"]])
  = [[s2t "1"; s2t "2"; s2t "3"]; [s2t "4"; s2t "5"; s2t "6"]].
Proof. vm_compute. reflexivity. Qed.
Lemma header_cr_line_without_hash :
  exists h, ~ Forall starts_hash (filter nonempty (phys_lines Universal (savetxt_header h))).
Proof.
exists (s2t "a" ++ cr :: s2t "b"). vm_compute. intros H.
inversion H as [|? ? _ H2]; subst. inversion H2 as [|? ? [t Ht] _]; subst. discriminate.
Qed.
