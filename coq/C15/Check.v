(* C15/Check.v — executable comparison functions for the correspondence run
   (definitions only).  Observations of the real save_xye / load_xye are written as
   Coq data; everything is decided here by vm_compute:
     * the physical lines the MODEL reader (Model.rows_of) finds in the file text are
       exactly one per saved row, three tokens each; every line that contains '#' starts with it;
     * each printed token, read as an exact rational D, satisfies the hypothesis of
       decimal19_roundtrip in its relative form  |D - x| <= 5e-19 |x|   (x = the binary64
       value that was saved, decoded from its bit pattern) — this validates the printf oracle;
     * the bit patterns that load_xye returned for coordinate and value equal the saved ones;
     * the variance obeys the bound of variance_roundtrip with u = 2^-53, eta = 2^-1075, and
       the two roundings obey the standard model (hypotheses of that theorem). *)
From Coq Require Import List String Ascii Bool Arith ZArith QArith Qabs DecimalString.
From Verif.C15 Require Import Model.
Import ListNotations.
Local Open Scope list_scope.

Definition s2t (s : string) : text := list_ascii_of_string s.
Definition codes (l : list nat) : text := map ascii_of_nat l.

(* ------------------------------------------------------------------ exact dyadic arithmetic
   All quantities compared here are of the form m * 2^e (binary64 values, their products, 2^-53,
   2^-1075) or M * 10^k (printed decimals; 10^k = 5^k * 2^k), so exact arithmetic on pairs
   (mantissa, binary exponent) suffices and stays cheap under vm_compute (alignment = shifts). *)
Local Open Scope Z_scope.
Record dy := mkdy { dm : Z; de : Z }.          (* value dm * 2^de *)
Definition dy_mul (a b : dy) : dy := mkdy (dm a * dm b) (de a + de b).
Definition dy_align (a b : dy) : Z * Z * Z :=
  let e := Z.min (de a) (de b) in (Z.shiftl (dm a) (de a - e), Z.shiftl (dm b) (de b - e), e).
Definition dy_sub (a b : dy) : dy := let '(x, y, e) := dy_align a b in mkdy (x - y) e.
Definition dy_add (a b : dy) : dy := let '(x, y, e) := dy_align a b in mkdy (x + y) e.
Definition dy_abs (a : dy) : dy := mkdy (Z.abs (dm a)) (de a).
Definition dy_leb (a b : dy) : bool := let '(x, y, _) := dy_align a b in x <=? y.
Definition dy_int (n : Z) : dy := mkdy n 0.
Definition dy_to_Q (a : dy) : Q :=
  if 0 <=? de a then inject_Z (dm a * 2 ^ de a) else Qmake (dm a) (Z.to_pos (2 ^ (- de a))).

(* binary64 bit pattern -> exact value *)
Definition b64_to_dy (b : Z) : option dy :=
  let s := Z.shiftr b 63 in
  let e := Z.land (Z.shiftr b 52) 2047 in
  let m := Z.land b (2 ^ 52 - 1) in
  if e =? 2047 then None
  else
    let mag := if e =? 0 then mkdy m (-1074) else mkdy (2 ^ 52 + m) (e - 1075) in
    Some (if s =? 1 then mkdy (- dm mag) (de mag) else mag).

(* ------------------------------------------------------------------ decimal token -> mantissa, decimal exponent *)
Definition digit_of (c : ascii) : option Z :=
  let n := Z.of_nat (nat_of_ascii c) in
  if (48 <=? n) && (n <=? 57) then Some (n - 48) else None.
Fixpoint digits_acc (acc : Z) (s : text) : option Z :=
  match s with
  | [] => Some acc
  | c :: t => match digit_of c with Some d => digits_acc (acc * 10 + d) t | None => None end
  end.
Definition digits_val (s : text) : option Z :=
  match s with [] => None | _ => digits_acc 0 s end.
Definition signed_int (s : text) : option Z :=
  match s with
  | c :: t => if Ascii.eqb c "-" then option_map Z.opp (digits_val t)
              else if Ascii.eqb c "+" then digits_val t else digits_val s
  | [] => None
  end.
(* [-]d+.d+e[+-]d+  (what "%.18e" prints)  ->  (M, k, number of significant digits), value M * 10^k *)
Definition parse_token (t : text) : option (Z * Z * nat) :=
  let '(neg, t1) := match t with
                    | c :: r => if Ascii.eqb c "-" then (true, r) else (false, t)
                    | [] => (false, t)
                    end in
  match split "e" t1 with
  | [mant; ex] =>
      match split "." mant with
      | [ip; fp] =>
          match digits_val ip, digits_val fp, signed_int ex with
          | Some a, Some b, Some E =>
              let k := Z.of_nat (List.length fp) in
              let M := a * 10 ^ k + b in
              Some (if neg then - M else M, E - k, (List.length ip + List.length fp)%nat)
          | _, _, _ => None
          end
      | _ => None
      end
  | _ => None
  end.

(* hypothesis of decimal19_roundtrip_rel:  |D - x| <= |x| * 5e-19  with D = M * 10^k, decided exactly:
   k >= 0:  D = (M 5^k) 2^k is dyadic;   k < 0: both sides are multiplied by 10^-k = 5^-k 2^-k *)
Definition contract_ok (M k : Z) (x : dy) : bool :=
  let '(D', x') :=
    if 0 <=? k then (mkdy (M * 5 ^ k) k, x)
    else (dy_int M, mkdy (dm x * 5 ^ (- k)) (de x - k)) in
  dy_leb (dy_mul (dy_abs (dy_sub D' x')) (dy_int 10000000000000000000)) (dy_mul (dy_int 5) (dy_abs x')).

Definition u53 : dy := mkdy 1 (-53).
Definition eta : dy := mkdy 1 (-1075).
Definition three : dy := dy_int 3.
(* v * (3u + 3u^2 + u^3) + eta *)
Definition var_bound (v : dy) : dy :=
  dy_add (dy_mul v (dy_add (dy_mul three u53)
                   (dy_add (dy_mul three (dy_mul u53 u53)) (dy_mul u53 (dy_mul u53 u53))))) eta.

(* the same contract over Q, for cross-checking the dyadic decision procedure (Example below) *)
Definition contract_ok_Q (M k : Z) (x : dy) : bool :=
  let D := if 0 <=? k then inject_Z (M * 10 ^ k) else Qmake M (Z.to_pos (10 ^ (- k))) in
  Qle_bool (Qabs (D - dy_to_Q x)) (Qabs (dy_to_Q x) * (5 # 10000000000000000000)).
Local Close Scope Z_scope.

Record row := mkrow {
  r_x : Z; r_y : Z; r_v : Z;        (* saved: coordinate, value, variance (bit patterns) *)
  r_s : Z;                          (* numpy.sqrt(variance), computed by the harness *)
  l_x : Z; l_y : Z; l_v : Z         (* what load_xye returned *)
}.
Local Open Scope string_scope.
Definition check_num (what : string) (tok : text) (bits : Z) : string :=
  match parse_token tok, b64_to_dy bits with
  | Some (M, k, nd), Some x =>
      if negb (contract_ok M k x) then "printf-contract:" ++ what
      else if negb (Nat.eqb nd 19) then "digits:" ++ what else ""
  | None, _ => "token-syntax:" ++ what
  | _, None => "nonfinite-input:" ++ what
  end.
Definition first_err (l : list string) : string :=
  match filter (fun s => negb (String.eqb s "")) l with [] => "" | e :: _ => e end.
Definition two : dy := dy_int 2.
Definition check_row (toks : list text) (r : row) : string :=
  match toks with
  | [tx; ty; te] =>
      first_err [
        check_num "x" tx (r_x r); check_num "y" ty (r_y r); check_num "e" te (r_s r);
        (if Z.eqb (l_x r) (r_x r) then "" else "coord-bits");
        (if Z.eqb (l_y r) (r_y r) then "" else "value-bits");
        match b64_to_dy (r_v r), b64_to_dy (r_s r), b64_to_dy (l_v r) with
        | Some v, Some s, Some v' =>
            let ss := dy_mul s s in
            (* |s^2 - v| <= v (2u + u^2) ;  |v' - s^2| <= u s^2 + eta ;  |v' - v| <= v(3u+3u^2+u^3) + eta *)
            if negb (dy_leb (dy_abs (dy_sub ss v)) (dy_mul v (dy_add (dy_mul two u53) (dy_mul u53 u53)))) then "sqrt-model"
            else if negb (dy_leb (dy_abs (dy_sub v' ss)) (dy_add (dy_mul ss u53) eta)) then "square-model"
            else if negb (dy_leb (dy_abs (dy_sub v' v)) (var_bound v)) then "variance-bound"
            else ""
        | _, _, _ => "variance-nonfinite"
        end ]
  | _ => "tokens"
  end.

Inductive loaded := LRows (n_total : Z) | LErr (cls : string).
Record chunk := mkchunk {
  ck_rd : reader;
  ck_text : text;            (* this part of the file, verbatim (header included in the first part) *)
  ck_rows : list row;        (* the rows saved in this part / loaded at the same positions *)
  ck_total_saved : Z;
  ck_loaded : loaded
}.
Fixpoint zip_check (ls : list (list text)) (rs : list row) : string :=
  match ls, rs with
  | [], [] => ""
  | l :: ls', r :: rs' => match check_row l r with "" => zip_check ls' rs' | e => e end
  | _, _ => "row-count-in-text"
  end.
Definition hash_lines_ok (rd : reader) (s : text) : bool :=
  forallb (fun l => match l with
                    | c :: _ => Ascii.eqb c hash || negb (existsb (Ascii.eqb hash) l)
                    | [] => true end) (phys_lines rd s).
Definition check_chunk (c : chunk) : string :=
  match ck_loaded c with
  | LErr cls => "load-raises-" ++ cls
  | LRows n =>
      if negb (Z.eqb n (ck_total_saved c)) then "row-count-loaded"
      else if negb (hash_lines_ok (ck_rd c) (ck_text c)) then "header-line-without-hash"
      else zip_check (rows_of (ck_rd c) (ck_text c)) (ck_rows c)
  end.

(* one line per shard: "OK <n>" or "F<i>:<reason>;..." (the driver parses it) *)
Definition nat_str (n : nat) : string := NilEmpty.string_of_uint (Nat.to_uint n).
Fixpoint report_aux (i : nat) (rs : list string) (acc : string) (nfail : nat) : string * nat :=
  match rs with
  | [] => (acc, nfail)
  | r :: rs' =>
      if String.eqb r "" then report_aux (S i) rs' acc nfail
      else report_aux (S i) rs' (acc ++ "F" ++ nat_str i ++ ":" ++ r ++ ";") (S nfail)
  end.
Definition report (rs : list string) : string :=
  let '(s, nf) := report_aux 0 rs "" 0 in
  if Nat.eqb nf 0 then "OK " ++ nat_str (List.length rs) else s.

(* several chunks per shard entry: "" or "<id>=<reason>|<id>=<reason>|..." *)
Fixpoint check_group (g : list (nat * chunk)) : string :=
  match g with
  | [] => ""
  | (i, c) :: g' =>
      match check_chunk c with
      | "" => check_group g'
      | e => nat_str i ++ "=" ++ e ++ "|" ++ check_group g'
      end
  end.

(* ------------------------------------------------------------------ refusals *)
Record rcase := mkrcase { rc_facts : facts; rc_observed : outcome }.
Definition outcome_str (o : outcome) : string :=
  match o with Saved => "saved" | Raised e => "raises " ++ e | Stuck s => "stuck " ++ s end.
Definition outcome_eqb (a b : outcome) : bool := String.eqb (outcome_str a) (outcome_str b).

(* the dyadic decision procedure agrees with plain rational arithmetic (spot check by computation:
   1.0 printed exactly, 1.0 off by 6 units of the 19th digit, min subnormal, max double, a tie) *)
Example contract_dy_agrees_with_Q :
  map (fun '(M, k, b) => match b64_to_dy b with Some x => (contract_ok M k x, contract_ok_Q M k x) | None => (false, true) end)
      [ (1000000000000000000, -18, 4607182418800017408);
        (1000000000000000006, -18, 4607182418800017408);
        (10000000000000000005, -19, 4607182418800017408);
        (4940656458412465442, -342, 1);
        (4940656458412465445, -342, 1);
        (1797693134862315708, 290, 9218868437227405311);
        (1797693134862315700, 290, 9218868437227405311);
        (-1000001907348632812, -18, 13830554464244727808) ]%Z
  = [ (true, true); (false, false); (true, true); (true, true); (false, false); (true, true); (false, false); (true, true) ].
Proof. vm_compute. reflexivity. Qed.
