(* C15/Model.v — executable models (definitions only, no proofs).

   Text side.  A file is a list of characters.
     numpy.savetxt(fname, X, delimiter=' ', header=h)       [numpy/lib/_npyio_impl.py]
        if len(header) > 0:
            header = header.replace('\n', '\n' + comments)   (comments = '# ')
            fh.write(comments + header + newline)
        for row in X: fh.write(' '.join(fmt % v for v in row) + '\n')
     numpy.loadtxt(fname, delimiter=' ', unpack=True)
        physical lines: text-mode reading of a path / an open()ed file translates
        "\r\n" and a lone "\r" to "\n" (universal newlines, [Universal]); an
        io.StringIO target is split at "\n" only ([LFOnly]);
        each line is cut at the first '#', lines that are then empty are skipped,
        the rest is split at every ' ';   the r x c table is squeezed
        (axes of length 1 removed) and, with unpack=True, transposed.
   These contracts are ORACLES (numpy is not verified); the correspondence run
   compares them with the real numpy on every run. *)
From Coq Require Import List String Ascii Bool Arith.
Import ListNotations.
Local Open Scope list_scope.

Definition nl : ascii := "010"%char.
Definition cr : ascii := "013"%char.
Definition hash : ascii := "#"%char.
Definition sp : ascii := " "%char.
Definition text := list ascii.
Definition comments : text := [hash; sp].

(* ---------------------------------------------------------------- str.replace *)
Fixpoint prefixb (p s : text) : bool :=
  match p, s with
  | [], _ => true
  | a :: p', b :: s' => Ascii.eqb a b && prefixb p' s'
  | _ :: _, [] => false
  end.
(* Python's s.replace(pat, new) for a non-empty pat: leftmost, non-overlapping *)
Fixpoint replace_aux (pat new : text) (skip : nat) (s : text) : text :=
  match s with
  | [] => []
  | c :: t =>
      match skip with
      | S k => replace_aux pat new k t
      | O => if prefixb pat s then new ++ replace_aux pat new (List.length pat - 1) t
             else c :: replace_aux pat new 0 t
      end
  end.
Definition py_replace (pat new s : text) : text := replace_aux pat new 0 s.
Definition apply_replacements (rs : list (text * text)) (s : text) : text :=
  fold_left (fun acc r => py_replace (fst r) (snd r) acc) rs s.

(* ---------------------------------------------------------------- numpy.savetxt *)
Definition savetxt_header (h : text) : text :=
  match h with
  | [] => []
  | _ => comments ++ py_replace [nl] (nl :: comments) h ++ [nl]
  end.
Fixpoint join (d : ascii) (ws : list text) : text :=
  match ws with
  | [] => []
  | [w] => w
  | w :: ws' => w ++ d :: join d ws'
  end.
Definition row_line (r : list text) : text := join sp r ++ [nl].
Definition savetxt (h : text) (rows : list (list text)) : text :=
  savetxt_header h ++ List.concat (map row_line rows).

(* ---------------------------------------------------------------- numpy.loadtxt *)
Inductive reader := Universal | LFOnly.
Fixpoint univ (s : text) : text :=
  match s with
  | [] => []
  | c :: t =>
      if Ascii.eqb c cr then
        match t with
        | n :: _ => if Ascii.eqb n nl then univ t else nl :: univ t
        | [] => [nl]
        end
      else c :: univ t
  end.
Fixpoint split (d : ascii) (s : text) : list text :=
  match s with
  | [] => [[]]
  | c :: t =>
      if Ascii.eqb c d then [] :: split d t
      else match split d t with
           | [] => [[c]]
           | w :: ws => (c :: w) :: ws
           end
  end.
Definition phys_lines (rd : reader) (s : text) : list text :=
  split nl (match rd with Universal => univ s | LFOnly => s end).
Fixpoint strip_comment (s : text) : text :=
  match s with
  | [] => []
  | c :: t => if Ascii.eqb c hash then [] else c :: strip_comment t
  end.
Definition nonempty (s : text) : bool := match s with [] => false | _ => true end.
Definition rows_of (rd : reader) (s : text) : list (list text) :=
  map (split sp) (filter nonempty (map strip_comment (phys_lines rd s))).

Section Shape.
Context {A : Type} (d : A).
Inductive nd := A0 (x : A) | A1 (v : list A) | A2 (m : list (list A)).
Definition all_len1 (m : list (list A)) : bool :=
  forallb (fun r => Nat.eqb (List.length r) 1) m.
(* numpy.squeeze of an r x c table *)
Definition squeeze (m : list (list A)) : nd :=
  match m with
  | [[x]] => A0 x
  | [r] => A1 r
  | _ => if all_len1 m then A1 (map (fun r => hd d r) m) else A2 m
  end.
Definition transpose (m : list (list A)) : list (list A) :=
  map (fun j => map (fun r => nth j r d) m) (seq 0 (List.length (hd [] m))).
Definition loadtxt_unpack (rows : list (list A)) : nd :=
  match squeeze rows with A2 m => A2 (transpose m) | a => a end.

(* load_xye, lines 145-150:   if loaded.ndim == 1: loaded = loaded[:, np.newaxis]
   then loaded[ic] is the coordinate, loaded[iy] the values, loaded[ie] (squared) the variances.
   [reshape] = the ndim == 1 branch is present in the source (regenerated flag). *)
Definition xye_post (reshape : bool) (ic iy ie : nat) (a : nd) : option (list A * list A * list A) :=
  let m := match a with
           | A1 v => if reshape then Some (map (fun x => [x]) v) else None
           | A2 m => Some m
           | A0 _ => None
           end in
  match m with
  | Some m =>
      match nth_error m ic, nth_error m iy, nth_error m ie with
      | Some c, Some y, Some e => Some (c, y, e)
      | _, _, _ => None
      end
  | None => None
  end.
End Shape.

(* the whole path on token level: file text -> three columns of tokens *)
Definition load_tokens (rd : reader) (reshape : bool) (ic iy ie : nat) (s : text)
  : option (list text * list text * list text) :=
  xye_post reshape ic iy ie (loadtxt_unpack ([] : text) (rows_of rd s)).

(* ---------------------------------------------------------------- save_xye guards *)
(* what the guards look at *)
Record facts := mkfacts {
  has_variances : bool;      (* da.variances is not None *)
  ndim : nat;                (* da.ndim *)
  nmasks : nat;              (* len(da.masks) *)
  ncoords : nat;             (* len(da.coords) *)
  coord_given : bool;        (* the coord argument is not None *)
  dim_in_coords : bool;      (* da.dim in da.coords *)
  chosen_is_edges : bool     (* da.coords.is_edges(<the coordinate that gets written>) *)
}.
Inductive cmpop := OEq | ONe | OLt | OLe | OGt | OGe.
Inductive cond :=
| CNoVariances                 (* da.variances is None *)
| CNdim (op : cmpop) (n : nat) (* da.ndim <op> n *)
| CHasMasks                    (* da.masks (truthy) *)
| CLenCoords (op : cmpop) (n : nat)   (* len(da.coords) <op> n *)
| CDimNotInCoords              (* da.dim not in da.coords *)
| CDimInCoords
| CIsEdges                     (* da.coords.is_edges(coord) *)
| CAnd (a b : cond) | COr (a b : cond) | CNot (a : cond)
| CUnknown (src : string).
(* first-order decision list extracted from the source (tools/harness/c15_extract.py) *)
Inductive dstep :=
| DReturnFirstIf (c : cond)    (* if c: return next(iter(da.coords)) *)
| DRaiseIf (c : cond) (exc : string)
| DReturnDim                   (* return da.dim *)
| DUnknown (src : string).
Inductive step :=
| Guard (c : cond) (exc : string)   (* if c: raise exc(...) *)
| DeduceUnlessGiven                 (* coord = _deduce_coord(da) if coord is None else coord *)
| SUnknown (src : string).

Definition cmp (op : cmpop) (a b : nat) : bool :=
  match op with
  | OEq => Nat.eqb a b | ONe => negb (Nat.eqb a b)
  | OLt => Nat.ltb a b | OLe => Nat.leb a b
  | OGt => Nat.ltb b a | OGe => Nat.leb b a
  end.
Fixpoint evalc (f : facts) (c : cond) : bool :=
  match c with
  | CNoVariances => negb (has_variances f)
  | CNdim op n => cmp op (ndim f) n
  | CHasMasks => negb (Nat.eqb (nmasks f) 0)
  | CLenCoords op n => cmp op (ncoords f) n
  | CDimNotInCoords => negb (dim_in_coords f)
  | CDimInCoords => dim_in_coords f
  | CIsEdges => chosen_is_edges f
  | CAnd a b => evalc f a && evalc f b
  | COr a b => evalc f a || evalc f b
  | CNot a => negb (evalc f a)
  | CUnknown _ => false
  end.
Inductive outcome := Saved | Raised (exc : string) | Stuck (why : string).
(* _deduce_coord: None = a coordinate name was returned *)
Fixpoint run_deduce (f : facts) (ds : list dstep) : option outcome :=
  match ds with
  | [] => Some (Stuck "deduce-falls-through")
  | DReturnFirstIf c :: r => if evalc f c then None else run_deduce f r
  | DRaiseIf c e :: r => if evalc f c then Some (Raised e) else run_deduce f r
  | DReturnDim :: _ => None
  | DUnknown s :: _ => Some (Stuck s)
  end.
Fixpoint run_guards (f : facts) (ds : list dstep) (ss : list step) : outcome :=
  match ss with
  | [] => Saved
  | Guard c e :: r => if evalc f c then Raised e else run_guards f ds r
  | DeduceUnlessGiven :: r =>
      if coord_given f then run_guards f ds r
      else match run_deduce f ds with Some o => o | None => run_guards f ds r end
  | SUnknown s :: _ => Stuck s
  end.
