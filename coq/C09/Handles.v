(* C09/Handles.v — factories, combinators and lookups as a state machine.

   State: the contents of the module-level tables, of the lru_cache entries and of the
   objects stored in them, as a store  location -> content  (content 0 = the pristine
   content; a mutation writes a non-zero tag), plus the list of handles handed out so far.
   An operation descriptor says, for ONE factory / combinator / lookup,
     - which stored object it reads (op_src; the key is the call argument),
     - whether the object it returns IS the stored one (top_shared: the table itself, or an
       lru_cache hit) and whether a caller can change that object structurally
       (top_mutable: dict / list / non-frozen instance),
     - the attribute paths under which the result holds mutable variables, and for each
       whether the stored variable itself is handed out (true) or a copy (false).
   The descriptors of the CURRENT source are computed on every run (Run.TieHandles) from
   the alias analysis of the regenerated function bodies (Alias.ret_top_fresh, ...) and
   from the decorators / dataclass declarations read by tools/alias2coq.py.

   Actions: Call op key (hands out handle number = position among the calls) and
   Mutate handle path tag (what a caller can do to an object it was given: insert / delete
   keys, append, in-place arithmetic on a variable reached through `path`).
   A mutation through a shared path lands in the stored object, through a private path in a
   location only that handle owns.  The observable result of a call is the content of the
   stored object (and of its attribute variables) at the time of the call. *)
From Coq Require Import List String Bool NArith Arith Lia.
Import ListNotations.
Open Scope string_scope.

Record opdesc := mkop {
  op_name : string;
  op_src : N;
  top_shared : bool;
  top_mutable : bool;
  accs : list (string * bool)
}.

Definition path := option string.
Inductive loc :=
| LSrc (src key : N) (p : path)
| LPriv (h : nat) (p : path).
Definition path_eqb (a b : path) : bool :=
  match a, b with
  | None, None => true
  | Some x, Some y => String.eqb x y
  | _, _ => false
  end.
Definition loc_eqb (a b : loc) : bool :=
  match a, b with
  | LSrc s k p, LSrc s' k' p' => N.eqb s s' && N.eqb k k' && path_eqb p p'
  | LPriv h p, LPriv h' p' => Nat.eqb h h' && path_eqb p p'
  | _, _ => false
  end.
Definition store := list (loc * N).
Fixpoint read (s : store) (l : loc) : N :=
  match s with
  | [] => 0%N
  | (l', v) :: r => if loc_eqb l l' then v else read r l
  end.
Definition write (s : store) (l : loc) (v : N) : store := (l, v) :: s.

Inductive action :=
| Call (op : nat) (key : N)
| Mutate (h : nat) (p : path) (tag : N).

Fixpoint acc_find (a : string) (l : list (string * bool)) : option bool :=
  match l with [] => None | (x, b) :: r => if String.eqb a x then Some b else acc_find a r end.
(* does a mutation through path p of a result of d reach the stored object? *)
Definition path_shared (d : opdesc) (p : path) : bool :=
  match p with
  | None => top_shared d && top_mutable d
  | Some a => match acc_find a (accs d) with Some b => b | None => false end
  end.
(* can a caller mutate through p at all *)
Definition path_valid (d : opdesc) (p : path) : bool :=
  match p with
  | None => top_mutable d
  | Some a => match acc_find a (accs d) with Some _ => true | None => false end
  end.
Definition op_private (d : opdesc) : bool :=
  negb (top_shared d && top_mutable d) && forallb (fun a => negb (snd a)) (accs d).

Section M.
Variable ops : list opdesc.

Definition paths_of (d : opdesc) : list path := None :: map (fun a => Some (fst a)) (accs d).
Definition observe (s : store) (i : nat) (k : N) : list N :=
  match nth_error ops i with
  | Some d => map (fun p => read s (LSrc (op_src d) k p)) (paths_of d)
  | None => []
  end.
Definition mutate (hs : list (nat * N)) (s : store) (h : nat) (p : path) (t : N) : store :=
  match nth_error hs h with
  | Some (i, k) =>
      match nth_error ops i with
      | Some d => if path_valid d p
                  then write s (if path_shared d p then LSrc (op_src d) k p else LPriv h p) t
                  else s
      | None => s
      end
  | None => s
  end.
Fixpoint exec_hist (hs : list (nat * N)) (s : store) (hist : list action) : list (list N) :=
  match hist with
  | [] => []
  | Call i k :: r => observe s i k :: exec_hist (hs ++ [(i, k)]) s r
  | Mutate h p t :: r => exec_hist hs (mutate hs s h p t) r
  end.
Definition observations (hist : list action) : list (list N) := exec_hist [] [] hist.
Definition pristine (o : list N) : Prop := Forall (fun v => v = 0%N) o.
Definition pristineb (o : list N) : bool := forallb (N.eqb 0%N) o.

Definition private_at (i : nat) : bool :=
  match nth_error ops i with Some d => op_private d | None => true end.

Lemma acc_private : forall l a b, forallb (fun x : string * bool => negb (snd x)) l = true -> acc_find a l = Some b -> b = false.
Proof.
  induction l as [|[x y] r IH]; simpl; intros a b H F; [discriminate|].
  apply andb_true_iff in H. destruct H as [H1 H2]. simpl in H1.
  destruct (String.eqb a x).
  - inversion F. subst. destruct b; [discriminate|reflexivity].
  - eapply IH; eauto.
Qed.
Lemma private_not_shared : forall d p, op_private d = true -> path_shared d p = false.
Proof.
  unfold op_private, path_shared. intros d p H. apply andb_true_iff in H. destruct H as [H1 H2].
  destruct p as [a|].
  - destruct (acc_find a (accs d)) eqn:E; [|reflexivity]. eapply acc_private; eauto.
  - apply negb_true_iff in H1. exact H1.
Qed.

Definition src_clean (s : store) : Prop := forall a k p, read s (LSrc a k p) = 0%N.
Definition handles_private (hs : list (nat * N)) : Prop := forall h i k, nth_error hs h = Some (i, k) -> private_at i = true.

Lemma mutate_clean : forall hs s h p t, src_clean s -> handles_private hs -> src_clean (mutate hs s h p t).
Proof.
  unfold mutate. intros hs s h p t Hc Hp.
  destruct (nth_error hs h) as [[i k]|] eqn:E; [|assumption].
  destruct (nth_error ops i) as [d|] eqn:Ed; [|assumption].
  destruct (path_valid d p); [|assumption].
  assert (Hd : op_private d = true). { specialize (Hp _ _ _ E). unfold private_at in Hp. rewrite Ed in Hp. exact Hp. }
  rewrite (private_not_shared d p Hd).
  intros a k' p'. unfold write. simpl. apply Hc.
Qed.
Lemma observe_clean : forall s i k, src_clean s -> pristine (observe s i k).
Proof.
  unfold observe, pristine. intros s i k Hc. destruct (nth_error ops i) as [d|]; [|constructor].
  apply Forall_forall. intros v Hv. apply in_map_iff in Hv. destruct Hv as [p [Hp _]]. rewrite <- Hp. apply Hc.
Qed.
Lemma handles_snoc : forall hs i k, handles_private hs -> private_at i = true -> handles_private (hs ++ [(i, k)]).
Proof.
  unfold handles_private. intros hs i k H Hi h i' k' E.
  destruct (Nat.lt_ge_cases h (List.length hs)) as [L|L].
  - rewrite nth_error_app1 in E by assumption. eapply H; eauto.
  - rewrite nth_error_app2 in E by assumption.
    destruct (h - List.length hs) as [|m]; simpl in E.
    + inversion E. subst. assumption.
    + destruct m; discriminate.
Qed.
Lemma exec_clean : forall hist hs s,
  src_clean s -> handles_private hs ->
  (forall i k, In (Call i k) hist -> private_at i = true) ->
  Forall pristine (exec_hist hs s hist).
Proof.
  induction hist as [|a r IH]; intros hs s Hc Hp Hall; simpl; [constructor|].
  destruct a as [i k|h p t].
  - constructor; [apply observe_clean; assumption|].
    apply IH; [assumption| |intros i' k' Hin; apply (Hall i' k'); right; assumption].
    apply handles_snoc; [assumption|]. apply (Hall i k). left. reflexivity.
  - apply IH; [apply mutate_clean; assumption|assumption|intros i' k' Hin; apply (Hall i' k'); right; assumption].
Qed.

(* for every history (any length, any interleaving of calls and mutations of earlier results) that only
   calls operations whose results are private, every result equals the pristine one *)
Theorem history_independent_on : forall hist,
  (forall i k, In (Call i k) hist -> private_at i = true) ->
  Forall pristine (observations hist).
Proof.
  intros hist H. unfold observations. apply exec_clean; [intros a k p; reflexivity| |assumption].
  intros h i k E. destruct h; discriminate.
Qed.
Theorem history_independent : forallb op_private ops = true ->
  forall hist, Forall pristine (observations hist).
Proof.
  intros H hist. apply history_independent_on. intros i k _. unfold private_at.
  destruct (nth_error ops i) as [d|] eqn:E; [|reflexivity].
  rewrite forallb_forall in H. apply H. eapply nth_error_In; eauto.
Qed.
End M.

(* the model variant of pre-finding F8: an lru_cached frozen dataclass whose public attributes are the
   stored variables themselves *)
Definition cached_dataclass_as_is (name : string) (src : N) (fields : list string) : opdesc :=
  mkop name src true false (map (fun f => (f, true)) fields).
(* ... and what Atom does: properties that return copies *)
Definition cached_dataclass_copying (name : string) (src : N) (fields : list string) : opdesc :=
  mkop name src true false (map (fun f => (f, false)) fields).

Theorem shared_attribute_refuted : forall name src f rest (k : N),
  exists hist, List.length hist = 3%nat /\
    ~ Forall (pristine) (observations [cached_dataclass_as_is name src (f :: rest)] hist).
Proof.
  intros name src f rest k.
  exists [Call 0 k; Mutate 0 (Some f) 99%N; Call 0 k]. split; [reflexivity|].
  intro H. unfold observations in H. simpl in H.
  inversion H as [|x l _ H2]. subst. inversion H2 as [|y l2 Hy _]. subst. clear H H2.
  unfold observe in Hy. simpl in Hy. inversion Hy as [|z l3 _ H4]. subst. inversion H4 as [|w l4 Hw _]. subst.
  unfold mutate in Hw. simpl in Hw. rewrite String.eqb_refl in Hw. simpl in Hw.
  rewrite !N.eqb_refl in Hw. rewrite String.eqb_refl in Hw. simpl in Hw. discriminate.
Qed.
(* the name used in DESIGN.md: ScatteringParams.for_isotope as found in the pinned tree; the 2-step history
   lookup; mutate absorption_cross_section; lookup *)
Theorem scattering_params_shared_refuted :
  exists hist, hist = [Call 0 0%N; Mutate 0 (Some "absorption_cross_section") 99%N; Call 0 0%N] /\
    ~ Forall pristine (observations [cached_dataclass_as_is "ScatteringParams.for_isotope" 2 ["absorption_cross_section"]] hist).
Proof.
  eexists. split; [reflexivity|]. intro H. unfold observations in H. simpl in H.
  inversion H as [|x l _ H2]. subst. inversion H2 as [|y l2 Hy _]. subst. clear H H2.
  unfold observe in Hy. simpl in Hy. inversion Hy as [|z l3 _ H4]. subst. inversion H4 as [|w l4 Hw _]. subst.
  vm_compute in Hw. discriminate.
Qed.
Example copying_is_private : op_private (cached_dataclass_copying "Atom.for_isotope" 1 ["atomic_weight"; "atomic_mass"]) = true.
Proof. reflexivity. Qed.
Example as_is_is_not_private : op_private (cached_dataclass_as_is "ScatteringParams.for_isotope" 2 ["absorption_cross_section"]) = false.
Proof. reflexivity. Qed.

(* executable form used by the correspondence: the model's prediction for one history *)
Definition predict (ops : list opdesc) (hist : list action) : list bool := map pristineb (observations ops hist).
