(* C09/Alias.v — a tiny statement language for "which objects does this function
   write", its symbolic interpreter, and the finite enumeration of aliasing
   configurations.  Definitions + the generic soundness lemmas of the
   enumeration.  The TERMS of this language are regenerated from /repo on every
   run by tools/alias2coq.py (Run.GenAlias); nothing here mentions a concrete
   scippneutron function.

   Model (DESIGN 3.7).  Every Python object is an abstract object id (nat):
     0..499     objects reachable from the parameters of the analysed function
                (parameter j: 4j, and for a DataArray parameter 4j+1 data,
                4j+2 coords, 4j+3 masks),
     500..999   module-level objects (tables, caches) of the analysed modules,
     >= 1000    allocation sites (one id per syntactic site, assigned by the
                generator).
   An object without a heap entry is a BLOB: it stands for itself and
   everything reachable from it (reading any attribute / element of a blob
   gives the blob, writing into it writes the blob).  Containers that the code
   builds itself (dict / list / tuple literals, dataclass instances, objects
   initialised by an analysed __init__, shallow copies) are STRUCTS with named
   fields and a summary "rest" set.
   A value is a finite set of object ids (may-point-to set).
   Every primitive call is classified by the generator:
     EFresh        returns a new object (arithmetic, copy(), to(copy=True), sc.norm ...)
     EMaybe s ..   returns its argument iff configuration bit s holds
                   (to/astype/to_unit(copy=False), as_float_type, slicing,
                   .fields.x, sc.values, transpose/flatten/...)
     EShallow      new container, same content (copy(deep=False), dict(d), list(l))
     EOut          f(..., out=o): writes o and returns o
     EMut          container mutators (append/extend/update/pop/del d[k])
   and statements SAug (op=), SSetElem (x[...] = v), SSetField (x.a = v).
   [run] executes a function symbolically under a configuration and collects
   the ids of all objects written.  The classification table is the MODEL of
   scipp's aliasing behaviour; the C09 harness validates every row against the
   real scipp with numpy.shares_memory. *)
From Coq Require Import List String Bool Arith PeanoNat NArith Lia.
Import ListNotations.
Open Scope string_scope.

(* ------------------------------------------------------------------ id sets *)
Definition ids := list N.
Fixpoint mem (n : N) (l : ids) : bool :=
  match l with [] => false | x :: r => if N.eqb n x then true else mem n r end.
Definition add (n : N) (l : ids) : ids := if mem n l then l else n :: l.
Definition union (a b : ids) : ids := fold_right add b a.
Definition unions (l : list ids) : ids := fold_right union [] l.
Definition subset (a b : ids) : bool := forallb (fun x => mem x b) a.
Definition seteq (a b : ids) : bool := subset a b && subset b a.
Definition disjoint (a b : ids) : bool := forallb (fun x => negb (mem x b)) a.
Definition remove_all (a b : ids) : ids := filter (fun x => negb (mem x a)) b.

(* ------------------------------------------------------------------ syntax *)
(* reserved interned names *)
Definition F_DATA : N := 0.      (* attribute "data" (DataArray semantics of op=) *)
Definition F_SELF : N := 1.      (* parameter "self" *)
Definition F_COORDS : N := 2.
Definition F_MASKS : N := 3.

Inductive expr :=
| ENone                                               (* immutable Python values: numbers, strings, None, units *)
| EVar (x : N)                                        (* names are interned by the generator (see the comments in Run.GenAlias) *)
| EGlobal (g : N)                                   (* module-level object, id in 500..999 *)
| EFresh (a : N) (subs : list expr)                 (* new object at site a; subs evaluated for their effects *)
| EMaybe (s a : N) (e : expr) (subs : list expr)    (* e's object iff cfg s, else a new object at site a *)
| EField (e : expr) (f : N)                      (* attribute / constant key / constant index *)
| EElem (e : expr)                                    (* any element / value of a container; a view of a blob *)
| ESub (e : expr)                                     (* e[...]: an element of a container, a view of a blob or of a
                                                         DataArray-like struct (a struct with a "data" field) *)
| ERecord (a : N) (fs : list (N * expr)) (rest spread : list expr)
| EShallow (a : N) (e : expr)
| EOut (o : expr) (subs : list expr)
| ECall (fs : list N) (args : list (N * expr))        (* one of the analysed functions (by fid) *)
| EMeth (cands : list (N * N)) (self : expr) (args : list (N * expr))
   (* method call: candidates (class tag, fid); those whose class tag the receiver may have are called; a receiver
      of unknown class (blob) selects all *)
| ENew (a : N) (cls : N) (inits : list N) (args : list (N * expr))
| EMut (recv : expr) (vals : list expr)
| EUnion (es : list expr)
| EEff (subs : list expr) (e : expr).

Inductive stmt :=
| SAssign (x : N) (e : expr)
| SAug (tgt rhs : expr)                               (* tgt op= rhs : in-place write into tgt's buffer *)
| SSetField (ob : expr) (f : N) (rhs : expr)     (* ob.f = rhs, ob['const'] = rhs *)
| SSetElem (ob rhs : expr)                            (* ob[...] = rhs *)
| SExpr (e : expr)
| SReturn (e : expr)
| SIf (a b : list stmt)
| SLoop (body : list stmt).

Inductive pkind := PBlob | PScalar | PDA.
Record fundef := mkfun {
  fid : N;               (* index used by ECall / ENew *)
  fname : string;
  fparams : list (N * pkind);
  fbody : list stmt;
  fsites : ids;          (* MaybeAlias sites reachable from this function (through calls) *)
  fallowed : list N      (* parameters documented as modified in place / consumed *)
}.

(* ------------------------------------------------------------------ heap *)
Record obj := mkobj { ofields : list (N * ids); orest : ids; ouniq : bool; ocls : ids }.
(* ocls: class tags of the object (0 = built-in container made by a literal; [] = unknown) *)
Definition heap := list (N * obj).

Fixpoint hfind (i : N) (h : heap) : option obj :=
  match h with [] => None | (j, o) :: r => if N.eqb i j then Some o else hfind i r end.
Definition blob (i : N) : obj := mkobj [] [i] false [].
Definition hget (i : N) (h : heap) : obj := match hfind i h with Some o => o | None => blob i end.
Fixpoint hset (i : N) (o : obj) (h : heap) : heap :=
  match h with
  | [] => [(i, o)]
  | (j, p) :: r => if N.eqb i j then (i, o) :: r else (j, p) :: hset i o r
  end.
Fixpoint ffind (f : N) (l : list (N * ids)) : option ids :=
  match l with [] => None | (g, v) :: r => if N.eqb f g then Some v else ffind f r end.
Fixpoint fset (f : N) (v : ids) (l : list (N * ids)) : list (N * ids) :=
  match l with
  | [] => [(f, v)]
  | (g, w) :: r => if N.eqb f g then (f, v) :: r else (g, w) :: fset f v r
  end.
Definition fget (o : obj) (f : N) : ids :=
  match ffind f (ofields o) with Some v => v | None => orest o end.
Definition oelems (o : obj) : ids := union (unions (map snd (ofields o))) (orest o).
Definition get_field (h : heap) (v : ids) (f : N) : ids := unions (map (fun i => fget (hget i h) f) v).
Definition get_elems (h : heap) (v : ids) : ids := unions (map (fun i => oelems (hget i h)) v).
Definition get_sub (h : heap) (v : ids) : ids :=
  unions (map (fun i => let o := hget i h in
                        match ffind F_DATA (ofields o) with Some _ => [i] | None => oelems o end) v).
(* the objects an in-place arithmetic / out= / slice assignment on object i writes: a blob: itself; a
   struct with a "data" field (DataArray semantics: op= writes the data, not the coords): the data
   objects and what they contain; any other struct: itself and everything in it *)
Definition wtargets (h : heap) (i : N) : ids :=
  match hfind i h with
  | None => [i]
  | Some o => match ffind F_DATA (ofields o) with
              | Some d => unions (map (fun j => add j (oelems (hget j h))) d)
              | None => add i (oelems o)
              end
  end.

(* ob[...] = v : a slice assignment into a buffer (blob / the data of a DataArray-like struct), or a store
   into a container built by the code itself: that replaces an element, it does not write into one *)
Definition stargets (h : heap) (i : N) : ids :=
  match hfind i h with
  | None => [i]
  | Some o => match ffind F_DATA (ofields o) with
              | Some d => unions (map (fun j => add j (oelems (hget j h))) d)
              | None => [i]
              end
  end.

Fixpoint sadd (k : N) (l : list N) : list N :=
  match l with [] => [k] | x :: r => if N.eqb k x then l else x :: sadd k r end.
Definition skeys (a b : list N) : list N := fold_left (fun acc k => sadd k acc) b (fold_left (fun acc k => sadd k acc) a []).
Definition ojoin (a b : obj) : obj :=
  mkobj (map (fun k => (k, union (fget a k) (fget b k))) (skeys (map fst (ofields a)) (map fst (ofields b))))
        (union (orest a) (orest b)) (ouniq a && ouniq b) (union (ocls a) (ocls b)).
Definition oeqb (a b : obj) : bool :=
  forallb (fun k => seteq (fget a k) (fget b k)) (skeys (map fst (ofields a)) (map fst (ofields b)))
  && seteq (orest a) (orest b) && Bool.eqb (ouniq a) (ouniq b) && seteq (ocls a) (ocls b).
Definition hkeys (a b : heap) : ids := union (map fst a) (map fst b).
Definition hjoin (a b : heap) : heap :=
  map (fun i => (i, match hfind i a, hfind i b with
                    | Some x, Some y => ojoin x y
                    | Some x, None => x
                    | None, Some y => y
                    | None, None => blob i
                    end)) (hkeys a b).
Definition heqb (a b : heap) : bool :=
  forallb (fun i => match hfind i a, hfind i b with
                    | Some x, Some y => oeqb x y
                    | None, None => true
                    | _, _ => false
                    end) (hkeys a b).

(* ------------------------------------------------------------------ state *)
Record st := mkst { env : list (N * ids); hp : heap; wr : ids; rt : ids; qs : ids; ok : bool; bt : bool }.
(* bt: the call-depth bound was reached somewhere (the run used the bottom element for a call) *)
Definition eget (x : N) (e : list (N * ids)) : ids := match ffind x e with Some v => v | None => [] end.
Definition poison (s : st) : st := mkst (env s) (hp s) (wr s) (rt s) (qs s) false (bt s).
Definition bottomed (s : st) : st := mkst (env s) (hp s) (wr s) (rt s) (qs s) (ok s) true.
Definition set_env (s : st) e := mkst e (hp s) (wr s) (rt s) (qs s) (ok s) (bt s).
Definition set_hp (s : st) h := mkst (env s) h (wr s) (rt s) (qs s) (ok s) (bt s).
Definition add_wr (w : ids) (s : st) := mkst (env s) (hp s) (union w (wr s)) (rt s) (qs s) (ok s) (bt s).
Definition add_rt (v : ids) (s : st) := mkst (env s) (hp s) (wr s) (union v (rt s)) (qs s) (ok s) (bt s).
Definition add_q (q : N) (s : st) := mkst (env s) (hp s) (wr s) (rt s) (add q (qs s)) (ok s) (bt s).
Definition ejoin (a b : list (N * ids)) : list (N * ids) :=
  map (fun k => (k, union (eget k a) (eget k b))) (skeys (map fst a) (map fst b)).
Definition eeqb (a b : list (N * ids)) : bool :=
  forallb (fun k => seteq (eget k a) (eget k b)) (skeys (map fst a) (map fst b)).
Definition join_st (a b : st) : st :=
  mkst (ejoin (env a) (env b)) (hjoin (hp a) (hp b)) (union (wr a) (wr b)) (union (rt a) (rt b))
       (union (qs a) (qs b)) (ok a && ok b) (bt a || bt b).
Definition st_eqb (a b : st) : bool :=
  eeqb (env a) (env b) && heqb (hp a) (hp b) && seteq (wr a) (wr b) && seteq (rt a) (rt b)
  && seteq (qs a) (qs b) && Bool.eqb (ok a) (ok b) && Bool.eqb (bt a) (bt b).

(* ------------------------------------------------------------------ interpreter *)
Section Interp.
Variable P : list fundef.
Variable LS : ids.       (* allocation sites that sit inside a loop / comprehension *)
Variable cfg : ids.      (* the MaybeAlias sites whose condition holds *)

Definition find_fun (name : N) : option fundef := find (fun f => N.eqb (fid f) name) P.

(* a site allocates a UNIQUE object (strong updates allowed) iff it is executed once: in the root
   frame, outside loops, for the first time *)
Definition alloc (top : bool) (a : N) (o : obj) (s : st) : st :=
  match hfind a (hp s) with
  | Some old => set_hp s (hset a (ojoin old (mkobj (ofields o) (orest o) false (ocls o))) (hp s))
  | None => set_hp s (hset a (mkobj (ofields o) (orest o) (top && negb (mem a LS)) (ocls o)) (hp s))
  end.
Definition oshallow (h : heap) (v : ids) : obj :=
  match v with
  | [] => mkobj [] [] true [0%N]
  | i :: r => fold_left (fun acc j => ojoin acc (hget j h)) r (hget i h)
  end.
Definition weak_set (f : N) (v : ids) (h : heap) (i : N) : heap :=
  let o := hget i h in hset i (mkobj (fset f (union v (fget o f)) (ofields o)) (orest o) (ouniq o) (ocls o)) h.
Definition add_rest (v : ids) (h : heap) (i : N) : heap :=
  let o := hget i h in hset i (mkobj (ofields o) (union v (orest o)) (ouniq o) (ocls o)) h.
Definition bind_params (ps : list (N * pkind)) (av : list (N * ids)) : list (N * ids) :=
  map (fun p => (fst p, eget (fst p) av)) ps.

Fixpoint eval (top : bool) (d n : nat) (e : expr) (s : st) {struct n} : ids * st :=
  match n with
  | 0 => ([], poison s)
  | S n' =>
    let effs := fun (l : list expr) (s0 : st) => fold_left (fun acc x => snd (eval top d n' x acc)) l s0 in
    let vals := fun (l : list expr) (s0 : st) =>
      fold_left (fun (p : ids * st) x => let r := eval top d n' x (snd p) in (union (fst r) (fst p), snd r)) l ([], s0) in
    let args_of := fun (l : list (N * expr)) (s0 : st) =>
      fold_left (fun (p : list (N * ids) * st) kv =>
                   let r := eval top d n' (snd kv) (snd p) in
                   (fset (fst kv) (union (fst r) (eget (fst kv) (fst p))) (fst p), snd r)) l ([], s0) in
    let call := fun (extra : list (N * ids)) (fs : list N) (av : list (N * ids)) (s1 : st) =>
      match d with
      | 0 => ([], bottomed s1)                            (* bottom of the Kleene iteration over call depth *)
      | S d' =>
        fold_left (fun (p : ids * st) name =>
          let sacc := snd p in
          match find_fun name with
          | None => (fst p, poison sacc)
          | Some f =>
            let s_in := mkst ((extra ++ bind_params (fparams f) av)%list) (hp sacc) (wr sacc) [] (qs sacc) (ok sacc) (bt sacc) in
            let s_out := fold_left (fun acc t => exec false d' n' t acc) (fbody f) s_in in
            (union (rt s_out) (fst p), mkst (env sacc) (hp s_out) (wr s_out) (rt sacc) (qs s_out) (ok s_out) (bt s_out))
          end) fs ([], s1)
      end in
    match e with
    | ENone => ([], s)
    | EVar x => (eget x (env s), s)
    | EGlobal g => ([g], s)
    | EFresh a subs => ([a], effs subs s)
    | EMaybe si a e1 subs =>
        let r := eval top d n' e1 s in
        let s2 := add_q si (effs subs (snd r)) in
        (if mem si cfg then fst r else [a], s2)
    | EField e1 f => let r := eval top d n' e1 s in (get_field (hp (snd r)) (fst r) f, snd r)
    | EElem e1 => let r := eval top d n' e1 s in (get_elems (hp (snd r)) (fst r), snd r)
    | ESub e1 => let r := eval top d n' e1 s in (get_sub (hp (snd r)) (fst r), snd r)
    | ERecord a fs rest spread =>
        let r1 := fold_left (fun (p : list (N * ids) * st) kv =>
                    let r := eval top d n' (snd kv) (snd p) in (fset (fst kv) (fst r) (fst p), snd r)) fs ([], s) in
        let r2 := vals rest (snd r1) in
        let r3 := vals spread (snd r2) in
        ([a], alloc top a (mkobj (fst r1) (union (fst r2) (get_elems (hp (snd r3)) (fst r3))) true [0%N]) (snd r3))
    | EShallow a e1 =>
        let r := eval top d n' e1 s in
        ([a], alloc top a (oshallow (hp (snd r)) (fst r)) (snd r))
    | EOut o subs =>
        let s1 := effs subs s in
        let r := eval top d n' o s1 in
        (fst r, add_wr (unions (map (wtargets (hp (snd r))) (fst r))) (snd r))
    | EMut recv vs =>
        let r := eval top d n' recv s in
        let r2 := vals vs (snd r) in
        let h' := fold_left (add_rest (fst r2)) (fst r) (hp (snd r2)) in
        (get_elems h' (fst r), add_wr (fst r) (set_hp (snd r2) h'))
    | EUnion es => vals es s
    | EEff subs e1 => eval top d n' e1 (effs subs s)
    | ECall fs args =>
        let r := args_of args s in
        call [] fs (fst r) (snd r)
    | EMeth cands self args =>
        let rs := eval top d n' self s in
        let r := args_of args (snd rs) in
        let h := hp (snd r) in
        let known := unions (map (fun i => ocls (hget i h)) (fst rs)) in
        let unknown := existsb (fun i => match ocls (hget i h) with [] => true | _ => false end) (fst rs) in
        let sel := fold_right (fun c acc => if unknown || mem (fst c) known then add (snd c) acc else acc) [] cands in
        call [(F_SELF, fst rs)] sel (fst r) (snd r)
    | ENew a cls inits args =>
        let r := args_of args s in
        let s1 := alloc top a (mkobj [] [] true [cls]) (snd r) in
        let r2 := call [(F_SELF, [a])] inits (fst r) s1 in
        ([a], snd r2)
    end
  end
with exec (top : bool) (d n : nat) (t : stmt) (s : st) {struct n} : st :=
  match n with
  | 0 => poison s
  | S n' =>
    match t with
    | SAssign x e => let r := eval top d n' e s in set_env (snd r) (fset x (fst r) (env (snd r)))
    | SAug tgt rhs =>
        let s1 := snd (eval top d n' rhs s) in
        let r := eval top d n' tgt s1 in
        add_wr (unions (map (wtargets (hp (snd r))) (fst r))) (snd r)
    | SSetField ob f rhs =>
        let r := eval top d n' rhs s in
        let ro := eval top d n' ob (snd r) in
        let h := hp (snd ro) in
        let h' := match fst ro with
                  | [i] => let o := hget i h in
                           if ouniq o then hset i (mkobj (fset f (fst r) (ofields o)) (orest o) true (ocls o)) h
                           else weak_set f (fst r) h i
                  | l => fold_left (weak_set f (fst r)) l h
                  end in
        add_wr (fst ro) (set_hp (snd ro) h')
    | SSetElem ob rhs =>
        let r := eval top d n' rhs s in
        let ro := eval top d n' ob (snd r) in
        let h := hp (snd ro) in
        add_wr (unions (map (stargets h) (fst ro))) (set_hp (snd ro) (fold_left (add_rest (fst r)) (fst ro) h))
    | SExpr e => snd (eval top d n' e s)
    | SReturn e => let r := eval top d n' e s in add_rt (fst r) (snd r)
    | SIf a b =>
        join_st (fold_left (fun acc t' => exec top d n' t' acc) a s)
                (fold_left (fun acc t' => exec top d n' t' acc) b s)
    | SLoop body =>
        (fix iter (k : nat) (s0 : st) {struct k} : st :=
           match k with
           | 0 => poison s0
           | S k' =>
               let s' := join_st s0 (fold_left (fun acc t' => exec top d n' t' acc) body s0) in
               if st_eqb s0 s' then s' else iter k' s'
           end) 10 s
    end
  end.

(* ------------------------------------------------------------------ root frame *)
Fixpoint init_params (j : N) (ps : list (N * pkind)) : list (N * ids) * heap * ids :=
  match ps with
  | [] => ([], [], [])
  | (x, k) :: r =>
      let '(e, h, p) := init_params (N.succ j) r in
      let b := (4 * j)%N in
      match k with
      | PScalar => ((x, []) :: e, h, p)
      | PBlob => ((x, [b]) :: e, h, b :: p)
      | PDA => ((x, [b]) :: e,
                (b, mkobj [(F_DATA, [b + 1]); (F_COORDS, [b + 2]); (F_MASKS, [b + 3])]
                          [b + 1; b + 2; b + 3] false [])%N :: h,
                (b :: b + 1 :: b + 2 :: b + 3 :: p)%N)
      end
  end.
Definition param_ids (f : fundef) : ids := snd (init_params 0%N (fparams f)).
Definition is_global (w : N) : bool := (500 <=? w)%N && (w <? 1000)%N.
(* ids of the parameters listed in fallowed *)
Fixpoint allowed_ids (j : N) (ps : list (N * pkind)) (al : list N) : ids :=
  match ps with
  | [] => []
  | (x, k) :: r =>
      let b := (4 * j)%N in
      ((if existsb (N.eqb x) al
        then match k with PScalar => [] | PBlob => [b] | PDA => [b; b + 1; b + 2; b + 3]%N end
        else []) ++ allowed_ids (N.succ j) r al)%list
  end.
(* the objects that must not be written: reachable from a parameter (except the documented in-place
   parameters) or module-level *)
Definition protected_params (f : fundef) : ids := remove_all (allowed_ids 0%N (fparams f) (fallowed f)) (param_ids f).
Definition protectedb (f : fundef) (w : N) : bool := mem w (protected_params f) || is_global w.
Definition none_protected (f : fundef) (l : ids) : bool := forallb (fun w => negb (protectedb f w)) l.
Definition nonlocalb (f : fundef) (w : N) : bool := mem w (param_ids f) || is_global w.
Definition all_local (f : fundef) (l : ids) : bool := forallb (fun w => negb (nonlocalb f w)) l.

Definition run_d (d n : nat) (f : fundef) : st :=
  let '(e, h, _) := init_params 0%N (fparams f) in
  fold_left (fun acc t => exec true d n t acc) (fbody f) (mkst e h [] [] [] true false).
End Interp.

Definition FUEL := 400.
(* call-depth bounds tried in turn; the result at a bound is used only if the bound was never reached or one
   more level changes nothing (then it is the least fixpoint of the recursion equations) *)
Definition DEPTHS : list nat := [6; 8; 11].
Definition run (P : list fundef) (LS cfg : ids) (d : nat) (f : fundef) : st := run_d P LS cfg d FUEL f.
Definition writes (P : list fundef) (LS cfg : ids) (d : nat) (f : fundef) : ids := wr (run P LS cfg d f).
Definition returned (P : list fundef) (LS cfg : ids) (d : nat) (f : fundef) : ids := rt (run P LS cfg d f).
Definition closed (P : list fundef) (LS cfg : ids) (d : nat) (f : fundef) : bool :=
  let s := run P LS cfg d f in if bt s then st_eqb s (run P LS cfg (S d) f) else true.
(* NB vm_compute is call-by-value: [if] (not [||] / [&&]) keeps the second run from being evaluated when
   it is not needed *)

(* what is checked for ONE configuration *)
Definition safe_b (P : list fundef) (LS : ids) (d : nat) (f : fundef) (cfg : ids) : bool :=
  let s := run P LS cfg d f in
  if ok s                                            (* no fuel exhaustion, no unknown callee, loops reached a fixpoint *)
     && none_protected f (wr s)                      (* nothing reachable from a parameter / no module object is written *)
     && subset (qs s) (fsites f)                     (* the run consulted no configuration bit outside fsites f *)
  then closed P LS cfg d f                           (* the recursion over call depth is closed at d *)
  else false.
Definition safe (P : list fundef) (LS : ids) (d : nat) (f : fundef) (cfg : ids) : Prop :=
  let s := run P LS cfg d f in
  ok s = true
  /\ (forall w, In w (wr s) -> protectedb f w = false)
  /\ (forall q, In q (qs s) -> In q (fsites f))
  /\ closed P LS cfg d f = true.

(* ------------------------------------------------------------------ all configurations *)
Fixpoint powerset (l : ids) : list ids :=
  match l with
  | [] => [[]]
  | x :: r => let p := powerset r in (map (cons x) p ++ p)%list
  end.
Definition check_at (P : list fundef) (LS : ids) (d : nat) (f : fundef) : bool := forallb (safe_b P LS d f) (powerset (fsites f)).
Fixpoint first_ok (g : nat -> bool) (l : list nat) : bool :=
  match l with [] => false | d :: r => if g d then true else first_ok g r end.
Definition check (P : list fundef) (LS : ids) (f : fundef) : bool := first_ok (fun d => check_at P LS d f) DEPTHS.
Definition first_bad (P : list fundef) (LS : ids) (d : nat) (f : fundef) : option ids :=
  find (fun c => negb (safe_b P LS d f c)) (powerset (fsites f)).

Lemma mem_In : forall n l, mem n l = true <-> In n l.
Proof.
  induction l as [|x r IH]; simpl.
  - split; [discriminate|tauto].
  - destruct (N.eqb n x) eqn:E.
    + apply N.eqb_eq in E. subst. split; auto.
    + apply N.eqb_neq in E. rewrite IH. split; [auto|intros [H|H]; [congruence|auto]].
Qed.
Lemma disjoint_spec : forall a b, disjoint a b = true -> forall x, In x a -> ~ In x b.
Proof.
  unfold disjoint. intros a b H x Hx Hb. rewrite forallb_forall in H. specialize (H x Hx).
  apply mem_In in Hb. rewrite Hb in H. discriminate.
Qed.
Lemma subset_spec : forall a b, subset a b = true -> forall x, In x a -> In x b.
Proof. unfold subset. intros a b H x Hx. rewrite forallb_forall in H. apply mem_In. auto. Qed.
Lemma filter_in_powerset : forall (c : N -> bool) l, In (filter c l) (powerset l).
Proof.
  induction l as [|x r IH]; simpl; [auto|].
  apply in_or_app. destruct (c x); [left; apply in_map; exact IH|right; exact IH].
Qed.
Lemma safe_b_safe : forall P LS d f cfg, safe_b P LS d f cfg = true -> safe P LS d f cfg.
Proof.
  unfold safe_b, safe. intros P LS d f cfg H.
  destruct (ok (run P LS cfg d f) && none_protected f (wr (run P LS cfg d f)) && subset (qs (run P LS cfg d f)) (fsites f)) eqn:E;
    [|discriminate].
  repeat (apply andb_true_iff in E; destruct E as [E ?]).
  repeat split; auto.
  - intros w Hw. unfold none_protected in *.
    match goal with H : forallb _ (wr _) = true |- _ => rewrite forallb_forall in H; specialize (H w Hw) end.
    apply negb_true_iff. assumption.
  - apply subset_spec; assumption.
Qed.
(* for EVERY assignment c of truth values to the MaybeAlias sites *)
Lemma check_sound : forall P LS f, check P LS f = true ->
  exists d, forall c : N -> bool, safe P LS d f (filter c (fsites f)).
Proof.
  unfold check, check_at. intros P LS f H.
  assert (Hd : exists d, forallb (safe_b P LS d f) (powerset (fsites f)) = true).
  { induction DEPTHS as [|d r IH]; simpl in H; [discriminate|].
    destruct (forallb (safe_b P LS d f) (powerset (fsites f))) eqn:E; [exists d; exact E|auto]. }
  destruct Hd as [d Hd]. exists d. intros c. rewrite forallb_forall in Hd. clear H. rename Hd into H.
  apply safe_b_safe. apply H. apply filter_in_powerset.
Qed.
Lemma powerset_length : forall l, List.length (powerset l) = 2 ^ List.length l.
Proof.
  induction l as [|x r IH]; [reflexivity|].
  change (powerset (x :: r)) with ((map (cons x) (powerset r) ++ powerset r)%list).
  unfold ids in *. rewrite app_length, map_length, IH.
  change (List.length (x :: r)) with (S (List.length r)). rewrite Nat.pow_succ_r'. lia.
Qed.

(* ------------------------------------------------------------------ result freshness (used by C09/Handles) *)
(* the returned object itself (top) / everything reachable from it in two steps (deep) is disjoint from
   the parameters and the module-level objects, for every configuration *)
Definition ret_top_fresh (P : list fundef) (LS : ids) (f : fundef) : bool :=
  forallb (fun c => let s := run P LS c 8 f in if ok s && all_local f (rt s) then closed P LS c 8 f else false) (powerset (fsites f)).
Definition ret_deep_fresh (P : list fundef) (LS : ids) (f : fundef) : bool :=
  forallb (fun c => let s := run P LS c 8 f in
                    let r1 := union (rt s) (get_elems (hp s) (rt s)) in
                    let r2 := union r1 (get_elems (hp s) r1) in
                    if ok s && all_local f r2 then closed P LS c 8 f else false) (powerset (fsites f)).
(* the object stored in attribute a of the returned object *)
Definition ret_field_fresh (P : list fundef) (LS : ids) (f : fundef) (a : N) : bool :=
  forallb (fun c => let s := run P LS c 8 f in
                    let r1 := get_field (hp s) (rt s) a in
                    if ok s && all_local f r1 then closed P LS c 8 f else false) (powerset (fsites f)).
(* for some configuration a parameter in fallowed IS written (the documented in-place effect is real) *)
Definition writes_allowed (P : list fundef) (LS : ids) (f : fundef) : bool :=
  existsb (fun c => negb (disjoint (wr (run P LS c 8 f)) (allowed_ids 0 (fparams f) (fallowed f)))) (powerset (fsites f)).
