(* C18/ProofsScalar.v — real-number lemmas used by the geometric proofs. *)
From Coq Require Import Reals Lra Lia Psatz.
From Verif.C18 Require Import Spec.
Open Scope R_scope.

Lemma sqrt_le_iff x r : 0 <= x -> 0 <= r -> (sqrt x <= r <-> x <= r * r).
Proof.
  intros Hx Hr. split; intro H.
  - rewrite <- (sqrt_sqrt x Hx). apply Rmult_le_compat; auto using sqrt_pos.
  - rewrite <- (sqrt_square r Hr). apply sqrt_le_1_alt. exact H.
Qed.

Lemma abs_le_sqrt y D : 0 <= D -> (y * y <= D <-> - sqrt D <= y <= sqrt D).
Proof.
  intros HD. pose proof (sqrt_pos D) as Hs. pose proof (sqrt_sqrt D HD) as Hss.
  split; intro H.
  - split; nra.
  - nra.
Qed.

(* the solution set of  N t^2 - 2 m t + K <= 0  for N > 0 *)
Lemma quad_interval N m K t : 0 < N ->
  (N * (t * t) - 2 * m * t + K <= 0
   <-> 0 <= m * m - N * K /\
       (m - sqrt (m * m - N * K)) / N <= t <= (m + sqrt (m * m - N * K)) / N).
Proof.
  intros HN. set (D := m * m - N * K).
  assert (E : N * (N * (t * t) - 2 * m * t + K) = (N * t - m) * (N * t - m) - D) by (unfold D; ring).
  split.
  - intro H.
    assert (HD : (N * t - m) * (N * t - m) <= D) by nra.
    assert (D0 : 0 <= D) by (pose proof (Rle_0_sqr (N * t - m)) as Q; unfold Rsqr in Q; lra).
    split; [exact D0|].
    apply (abs_le_sqrt _ _ D0) in HD. destruct HD as [H1 H2].
    split.
    + apply Rmult_le_reg_r with N; [lra|]. unfold Rdiv. rewrite Rmult_assoc, Rinv_l by lra. lra.
    + apply Rmult_le_reg_r with N; [lra|]. unfold Rdiv. rewrite Rmult_assoc, Rinv_l by lra. lra.
  - intros [D0 [H1 H2]].
    assert (H1' : m - sqrt D <= N * t).
    { apply Rmult_le_compat_r with (r := N) in H1; [|lra].
      unfold Rdiv in H1. rewrite Rmult_assoc, Rinv_l in H1 by lra. lra. }
    assert (H2' : N * t <= m + sqrt D).
    { apply Rmult_le_compat_r with (r := N) in H2; [|lra].
      unfold Rdiv in H2. rewrite Rmult_assoc, Rinv_l in H2 by lra. lra. }
    assert (HD : (N * t - m) * (N * t - m) <= D) by (apply (abs_le_sqrt _ _ D0); lra).
    nra.
Qed.

Lemma sum_sq3_zero x y z : x * x + y * y + z * z = 0 -> x = 0 /\ y = 0 /\ z = 0.
Proof. intros H. repeat split; nra. Qed.

(* the length of {t >= 0 : lo <= t <= hi} *)
Lemma clipped_segment_length lo hi :
  segment_length (fun t => 0 <= t /\ lo <= t <= hi) (Rmax 0 (Rmax 0 hi - Rmax 0 lo)).
Proof.
  unfold segment_length.
  destruct (Rle_dec (Rmax 0 lo) hi) as [H|H].
  - left. exists (Rmax 0 lo), hi. split; [exact H|]. split.
    + intro t. unfold Rmax in *. destruct (Rle_dec 0 lo); split; intros; lra.
    + unfold Rmax in *. destruct (Rle_dec 0 lo), (Rle_dec 0 hi); try lra;
        destruct (Rle_dec 0 (hi - lo)); try lra; destruct (Rle_dec 0 (hi - 0)); lra.
  - right. split.
    + intros t Ht. apply H. unfold Rmax. destruct (Rle_dec 0 lo); lra.
    + unfold Rmax in *. destruct (Rle_dec 0 lo), (Rle_dec 0 hi); try lra;
        repeat match goal with |- context [Rle_dec ?a ?b] => destruct (Rle_dec a b) end; lra.
Qed.

Lemma segment_length_ext (S S' : R -> Prop) len :
  (forall t, S t <-> S' t) -> segment_length S' len -> segment_length S len.
Proof.
  intros E [[lo [hi [H1 [H2 H3]]]] | [H1 H2]].
  - left. exists lo, hi. split; [exact H1|]. split; [|exact H3]. intro t. rewrite E. apply H2.
  - right. split; [|exact H2]. intros t Ht. apply (H1 t). apply E. exact Ht.
Qed.

Lemma segment_length_empty (S : R -> Prop) : (forall t, ~ S t) -> segment_length S 0.
Proof. intro H. right. split; [exact H | reflexivity]. Qed.

(* the length is determined by the set *)
Lemma segment_length_unique (S : R -> Prop) l1 l2 :
  segment_length S l1 -> segment_length S l2 -> l1 = l2.
Proof.
  intros [[lo [hi [A [B C]]]] | [A B]] [[lo' [hi' [A' [B' C']]]] | [A' B']].
  - assert (lo' <= lo <= hi') by (apply B', B; lra).
    assert (lo' <= hi <= hi') by (apply B', B; lra).
    assert (lo <= lo' <= hi) by (apply B, B'; lra).
    assert (lo <= hi' <= hi) by (apply B, B'; lra). lra.
  - exfalso. apply (A' lo). apply B. lra.
  - exfalso. apply (A lo'). apply B'. lra.
  - lra.
Qed.
