(* C18/ProofsTrans.v — the transmission (weighted mean of exp(-mu L)) for ANY finite rule with
   positive weights and non-negative path lengths: range, no attenuation, monotonicity. *)
From Coq Require Import Reals Lra Psatz Bool List.
From Verif.Sem Require Import Field RInst.
From Verif.C18 Require Import Model Spec ProofsScalar ProofsGeom ProofsRot ProofsQuad.
Import ListNotations.
Open Scope R_scope.

Lemma exp_le a b : a <= b -> exp a <= exp b.
Proof. intros [H | ->]; [left; apply exp_increasing; exact H | right; reflexivity]. Qed.
Lemma exp_neg_le_1 x : 0 <= x -> exp (- x) <= 1.
Proof. intro H. rewrite <- exp_0. apply exp_le. lra. Qed.

(* a rule: (weight, path length) *)
Definition wl_ok (wl : list (R * R)) : Prop := Forall (fun p => 0 < fst p /\ 0 <= snd p) wl.

Lemma wes_R mu (wl : list (R * R)) :
  weighted_exp_sum RO mu wl = Rsum (map (fun p : R * R => exp (- (mu * snd p)) * fst p) wl).
Proof. unfold weighted_exp_sum. rewrite fsum_Rsum. reflexivity. Qed.

Lemma wes_pos mu (wl : list (R * R)) : wl_ok wl -> wl <> [] -> 0 < weighted_exp_sum RO mu wl.
Proof.
  rewrite wes_R. intros Hok Hne. induction wl as [| p wl IH]; [contradiction|].
  inversion Hok as [| ? ? [Hw HL] Hok']; subst. cbn [map Rsum].
  assert (0 < exp (- (mu * snd p)) * fst p) by (apply Rmult_lt_0_compat; [apply exp_pos | exact Hw]).
  destruct wl as [| p' wl]; [cbn; lra|].
  assert (0 < Rsum (map (fun p : R * R => exp (- (mu * snd p)) * fst p) (p' :: wl))) by (apply IH; [exact Hok' | discriminate]).
  lra.
Qed.
Lemma wes_le mu (wl : list (R * R)) : 0 <= mu -> wl_ok wl -> weighted_exp_sum RO mu wl <= Rsum (map fst wl).
Proof.
  rewrite wes_R. intros Hmu Hok. induction wl as [| p wl IH]; [cbn; lra|].
  inversion Hok as [| ? ? [Hw HL] Hok']; subst. cbn [map Rsum]. specialize (IH Hok').
  assert (exp (- (mu * snd p)) <= 1) by (apply exp_neg_le_1; nra).
  assert (0 < exp (- (mu * snd p))) by apply exp_pos. nra.
Qed.
Lemma wes_zero (wl : list (R * R)) : weighted_exp_sum RO 0 wl = Rsum (map fst wl).
Proof.
  rewrite wes_R. apply Rsum_map_ext. intro p. cbv beta. rewrite Rmult_0_l, Ropp_0, exp_0. ring.
Qed.
Lemma wes_mono mu1 mu2 (wl : list (R * R)) : mu1 <= mu2 -> wl_ok wl -> weighted_exp_sum RO mu2 wl <= weighted_exp_sum RO mu1 wl.
Proof.
  rewrite !wes_R. intros Hmu Hok. induction wl as [| p wl IH]; [cbn; lra|].
  inversion Hok as [| ? ? [Hw HL] Hok']; subst. cbn [map Rsum]. specialize (IH Hok').
  assert (exp (- (mu2 * snd p)) <= exp (- (mu1 * snd p))) by (apply exp_le; nra). nra.
Qed.

Section T.
Variables (wl : list (R * R)) (V : R).
Hypothesis Hok : wl_ok wl.
Hypothesis Hne : wl <> [].
Hypothesis HV : 0 < V.

Theorem transmission_bounds mu : 0 <= mu ->
  0 < transmission RO mu wl V <= Rsum (map fst wl) / V.
Proof using Hok Hne HV.
  intro Hmu. unfold transmission. change (fdiv RO ?a ?b) with (a / b). split.
  - apply Rdiv_lt_0_compat; [apply wes_pos; assumption | exact HV].
  - unfold Rdiv. apply Rmult_le_compat_r; [left; apply Rinv_0_lt_compat; exact HV | apply wes_le; assumption].
Qed.
Theorem transmission_in_unit_interval mu : 0 <= mu -> Rsum (map fst wl) = V ->
  0 < transmission RO mu wl V <= 1.
Proof using Hok Hne HV.
  intros Hmu HS. pose proof (transmission_bounds mu Hmu) as [H1 H2]. split; [exact H1|].
  rewrite HS in H2. assert (E : V / V = 1) by (unfold Rdiv; apply Rinv_r; lra). rewrite E in H2. exact H2.
Qed.
Theorem transmission_no_attenuation : transmission RO 0 wl V = Rsum (map fst wl) / V.
Proof using. unfold transmission. rewrite wes_zero. reflexivity. Qed.
Theorem transmission_no_attenuation_1 : Rsum (map fst wl) = V -> transmission RO 0 wl V = 1.
Proof using HV. intro HS. rewrite transmission_no_attenuation, HS. unfold Rdiv. apply Rinv_r. lra. Qed.
Theorem transmission_monotone mu1 mu2 : mu1 <= mu2 ->
  transmission RO mu2 wl V <= transmission RO mu1 wl V.
Proof using Hok HV.
  intro Hmu. unfold transmission. change (fdiv RO ?a ?b) with (a / b). unfold Rdiv.
  apply Rmult_le_compat_r; [left; apply Rinv_0_lt_compat; exact HV | apply wes_mono; assumption].
Qed.
(* the model's transmission is the specification's weighted mean when V is the sum of the weights *)
Theorem transmission_is_weighted_mean mu : Rsum (map fst wl) = V ->
  transmission RO mu wl V = weighted_transmission mu wl.
Proof using.
  intro HS. unfold transmission, weighted_transmission. rewrite wes_R, HS.
  change (fdiv RO ?a ?b) with (a / b). f_equal. apply Rsum_map_ext. intro p. cbv beta. ring.
Qed.
End T.

(* ---------------------------------------------------------------- the map computed by the model *)
Lemma e_max0_nonneg (x : ext RO) : 0 <= ext_val RO (e_max0 RO x).
Proof.
  destruct x as [| v | |]; unfold e_max0, e_maximum, ext_leb; cbn; try lra.
  change (fleb RO f0 v) with (Rleb 0 v). unfold Rleb. destruct (Rle_dec 0 v); cbn; lra.
Qed.
Lemma beam_nonneg (c : cylinder RO) (s n : vec RO) : 0 <= ext_val RO (beam_intersection RO c s n).
Proof.
  unfold beam_intersection.
  destruct (line_cyl RO (cy_axis c) (vminus RO (cy_base c) s) (cy_r c) n) as [[ci cl] cr].
  destruct (line_slab RO (cy_axis c) (vminus RO (cy_base c) s) (cy_h c) n) as [[si sl] sr].
  destruct (ci && si); [apply e_max0_nonneg | cbn; lra].
Qed.

Definition map_rule md (c : cylinder RO) (quad : list (vec RO * R)) (to_det : R) (beam det : vec RO)
  : list (R * R) :=
  map (fun q : vec RO * R => (snd q, scatter_distance RO c (fst q) beam (scatter_dir RO to_det det (fst q))))
      (quadrature RO md c quad).

Lemma map_rule_ok md (c : cylinder RO) (quad : list (vec RO * R)) (to_det : R) (beam det : vec RO) :
  0 < cy_r c -> 0 < cy_h c -> Forall (fun q : vec RO * R => 0 < snd q) quad ->
  wl_ok (map_rule md c quad to_det beam det).
Proof.
  intros Hr Hh Hq. unfold map_rule, wl_ok. apply Forall_forall. intros p Hin.
  apply in_map_iff in Hin. destruct Hin as [q [<- Hin]]. cbn [fst snd]. split.
  - pose proof (weights_positive md c quad Hr Hh Hq) as W. rewrite Forall_forall in W. exact (W q Hin).
  - unfold scatter_distance. change (fadd RO ?a ?b) with (a + b).
    pose proof (beam_nonneg c (fst q) (vopp RO beam)). pose proof (beam_nonneg c (fst q) (scatter_dir RO to_det det (fst q))). lra.
Qed.

Lemma transmission_map_unfold md (c : cylinder RO) (quad : list (vec RO * R)) (mu to_det : R) (beam det : vec RO) :
  transmission_map RO md c quad mu to_det beam det
  = transmission RO mu (map_rule md c quad to_det beam det) (volume RO c).
Proof. reflexivity. Qed.

Lemma volume_R (c : cylinder RO) : volume RO c = cyl_volume (cy_r c) (cy_h c).
Proof. unfold volume, cyl_volume. ops. ring. Qed.

Lemma map_rule_weights md (c : cylinder RO) (quad : list (vec RO * R)) (to_det : R) (beam det : vec RO) :
  map fst (map_rule md c quad to_det beam det) = map snd (quadrature RO md c quad).
Proof. unfold map_rule. rewrite map_map. reflexivity. Qed.

(* 0 < T <= (sum of weights) / volume, T = that ratio without attenuation, T decreasing in mu;
   the ratio is 1 when the rule's weights sum to the volume (ProofsQuad.weights_sum_volume) *)
Theorem transmission_map_properties md (c : cylinder RO) (quad : list (vec RO * R)) (to_det : R) (beam det : vec RO) :
  0 < cy_r c -> 0 < cy_h c -> Forall (fun q : vec RO * R => 0 < snd q) quad -> quad <> [] ->
  let T := fun mu => transmission_map RO md c quad mu to_det beam det in
  let ratio := Rsum (map snd (quadrature RO md c quad)) / cyl_volume (cy_r c) (cy_h c) in
  (forall mu, 0 <= mu -> 0 < T mu <= ratio) /\ T 0 = ratio /\
  (forall mu1 mu2, mu1 <= mu2 -> T mu2 <= T mu1).
Proof.
  intros Hr Hh Hq Hne T ratio. unfold T, ratio. clear T ratio.
  pose proof (map_rule_ok md c quad to_det beam det Hr Hh Hq) as Hok.
  assert (Hne' : map_rule md c quad to_det beam det <> []).
  { unfold map_rule, quadrature. destruct quad; [contradiction | discriminate]. }
  assert (HV : 0 < volume RO c).
  { rewrite volume_R. unfold cyl_volume. pose proof PI_RGT_0.
    apply Rmult_lt_0_compat; [apply Rmult_lt_0_compat; [apply Rmult_lt_0_compat|]|]; assumption. }
  rewrite <- volume_R, <- (map_rule_weights md c quad to_det beam det).
  split; [| split].
  - intros mu Hmu. rewrite transmission_map_unfold. apply transmission_bounds; assumption.
  - rewrite transmission_map_unfold. apply transmission_no_attenuation.
  - intros mu1 mu2 Hmu. rewrite !transmission_map_unfold. apply transmission_monotone; assumption.
Qed.
