(* C18/ProofsBoundary.v — rays that start ON the boundary of the solid (over R).
   The solid of Spec.inside is CLOSED: the two end faces, the edge circles and the lateral surface belong to it.
   Consequences of path_length_is_measure for the model's beam_intersection:
     - a ray exactly perpendicular to the axis that starts anywhere in the closed slab 0 <= z <= h (the base plane
       z = 0 and the top plane z = h included) has the length of its part inside the DISK of radius r about the
       axis; the value is the same at every such height (end faces = mid-plane);
     - from center_of_base, and from the centre of the top face, such a ray has length r;
     - a ray exactly parallel to the axis that starts anywhere in the closed solid (lateral surface and edge
       circles included) at height z has length h - z (direction +axis) and z (direction -axis). *)
From Coq Require Import Reals Lra Psatz Nsatz Bool.
From Verif.Sem Require Import Field RInst.
From Verif.C18 Require Import Model Spec ProofsScalar ProofsGeom ProofsRigid.
Open Scope R_scope.

(* distance of p from the axis line through base with unit direction a *)
Definition radial3 (a base p : V3) : R :=
  let d := sub3 p base in norm3 (sub3 d (scale3 (dot3 d a) a)).
Definition axial3 (a base p : V3) : R := dot3 (sub3 p base) a.

Lemma inside_axial_radial a base r h p :
  inside a base r h p <-> (0 <= axial3 a base p <= h) /\ radial3 a base p <= r.
Proof. unfold inside, axial3, radial3. cbv zeta. tauto. Qed.

(* along a ray perpendicular to the axis the axial coordinate is constant ... *)
Lemma axial_perp_ray a base s n t : dot3 n a = 0 -> axial3 a base (ray s n t) = axial3 a base s.
Proof.
  destruct a, base, s, n. unfold axial3, ray, dot3, sub3, add3, scale3. cbn. intro H. nsatz.
Qed.
(* ... and moving the start point along the axis does not change the distance from the axis *)
Lemma radial_axial_shift a base p k : unit3 a -> radial3 a base (add3 p (scale3 k a)) = radial3 a base p.
Proof.
  destruct a as [a1 a2 a3], base as [b1 b2 b3], p as [p1 p2 p3].
  unfold radial3, unit3, norm3, dot3, sub3, add3, scale3. cbn. intro Ha. f_equal. nsatz.
Qed.
Lemma axial_axial_shift a base p k : unit3 a -> axial3 a base (add3 p (scale3 k a)) = axial3 a base p + k.
Proof.
  destruct a as [a1 a2 a3], base as [b1 b2 b3], p as [p1 p2 p3].
  unfold axial3, unit3, dot3, sub3, add3, scale3. cbn. intro Ha. nsatz.
Qed.
Lemma ray_shift s n k a t : ray (add3 s (scale3 k a)) n t = add3 (ray s n t) (scale3 k a).
Proof. destruct s, n, a. unfold ray, add3, scale3. cbn. f_equal; ring. Qed.

(* 1. the end-face planes cut nothing off a perpendicular ray: its path length is the length of its part within
      the radius, whenever the start point lies in the CLOSED slab *)
Theorem perpendicular_ray_sees_the_disk (c : cylinder RO) (s n : vec RO) :
  wf_cyl c -> unit3 (tov n) -> dot3 (tov n) (tov (cy_axis c)) = 0 ->
  0 <= axial3 (tov (cy_axis c)) (tov (cy_base c)) (tov s) <= cy_h c ->
  exists L, beam_intersection RO c s n = @Fin RO L /\
    segment_length (fun t => 0 <= t /\ radial3 (tov (cy_axis c)) (tov (cy_base c)) (ray (tov s) (tov n) t) <= cy_r c) L.
Proof.
  intros Hc Hn Hp Hz.
  destruct (path_length_is_measure c s n Hc Hn) as [L [E [_ S]]].
  exists L. split; [exact E|].
  eapply segment_length_ext; [| exact S].
  intro t. cbv beta. rewrite inside_axial_radial, (axial_perp_ray _ _ _ _ t Hp). tauto.
Qed.

(* 2. ... and it is the same at every height of the closed slab: the end faces behave as the mid-plane *)
Theorem perpendicular_ray_same_at_every_height (c : cylinder RO) (s n : vec RO) (k : R) :
  wf_cyl c -> unit3 (tov n) -> dot3 (tov n) (tov (cy_axis c)) = 0 ->
  0 <= axial3 (tov (cy_axis c)) (tov (cy_base c)) (tov s) <= cy_h c ->
  0 <= axial3 (tov (cy_axis c)) (tov (cy_base c)) (tov s) + k <= cy_h c ->
  beam_intersection RO c (ofv (add3 (tov s) (scale3 k (tov (cy_axis c))))) n = beam_intersection RO c s n.
Proof.
  intros Hc Hn Hp Hz Hz'. pose proof Hc as [Ha _].
  destruct (perpendicular_ray_sees_the_disk c s n Hc Hn Hp Hz) as [L [E S]].
  assert (Hz2 : 0 <= axial3 (tov (cy_axis c)) (tov (cy_base c)) (tov (ofv (add3 (tov s) (scale3 k (tov (cy_axis c)))))) <= cy_h c).
  { rewrite tov_ofv, (axial_axial_shift _ _ _ _ Ha). exact Hz'. }
  destruct (perpendicular_ray_sees_the_disk c _ n Hc Hn Hp Hz2) as [L' [E' S']].
  rewrite E, E'. f_equal.
  eapply segment_length_unique; [| exact S].
  eapply segment_length_ext; [| exact S'].
  intro t. cbv beta. rewrite tov_ofv, ray_shift, (radial_axial_shift _ _ _ _ Ha). tauto.
Qed.

(* 3. from center_of_base (the point the solid is defined by) across the base face: the radius *)
Lemma radial_from_axis_point a base n t : unit3 a -> unit3 n -> dot3 n a = 0 -> 0 <= t ->
  radial3 a base (ray base n t) = t.
Proof.
  destruct a as [a1 a2 a3], base as [b1 b2 b3], n as [n1 n2 n3].
  unfold radial3, unit3, norm3, ray, dot3, sub3, add3, scale3. cbn. intros Ha Hn Hp Ht.
  transitivity (sqrt (t * t)); [f_equal | apply sqrt_square; exact Ht].
  replace ((b1 + t * n1 - b1) * a1 + (b2 + t * n2 - b2) * a2 + (b3 + t * n3 - b3) * a3)
    with (t * (n1 * a1 + n2 * a2 + n3 * a3)) by ring.
  rewrite Hp. replace (t * t) with (t * t * (n1 * n1 + n2 * n2 + n3 * n3)) by (rewrite Hn; ring). ring.
Qed.
Theorem center_of_base_perpendicular_ray (c : cylinder RO) (n : vec RO) :
  wf_cyl c -> unit3 (tov n) -> dot3 (tov n) (tov (cy_axis c)) = 0 ->
  beam_intersection RO c (cy_base c) n = @Fin RO (cy_r c).
Proof.
  intros Hc Hn Hp. pose proof Hc as [Ha [Hr Hh]].
  assert (Hz : 0 <= axial3 (tov (cy_axis c)) (tov (cy_base c)) (tov (cy_base c)) <= cy_h c).
  { replace (axial3 (tov (cy_axis c)) (tov (cy_base c)) (tov (cy_base c))) with 0; [lra|].
    destruct (tov (cy_axis c)), (tov (cy_base c)). unfold axial3, dot3, sub3. cbn. ring. }
  destruct (perpendicular_ray_sees_the_disk c (cy_base c) n Hc Hn Hp Hz) as [L [E S]].
  rewrite E. f_equal.
  eapply segment_length_unique; [exact S|].
  left. exists 0, (cy_r c). split; [exact Hr|]. split; [| cbv [RO ROps F]; lra].
  intro t. split.
  - intros [Ht H]. rewrite (radial_from_axis_point _ _ _ _ Ha Hn Hp Ht) in H. lra.
  - intros [Ht H]. split; [exact Ht|]. rewrite (radial_from_axis_point _ _ _ _ Ha Hn Hp Ht). exact H.
Qed.
Theorem top_centre_perpendicular_ray (c : cylinder RO) (n : vec RO) :
  wf_cyl c -> unit3 (tov n) -> dot3 (tov n) (tov (cy_axis c)) = 0 ->
  beam_intersection RO c (ofv (add3 (tov (cy_base c)) (scale3 (cy_h c) (tov (cy_axis c))))) n = @Fin RO (cy_r c).
Proof.
  intros Hc Hn Hp. pose proof Hc as [Ha [Hr Hh]].
  assert (Z0 : axial3 (tov (cy_axis c)) (tov (cy_base c)) (tov (cy_base c)) = 0).
  { destruct (tov (cy_axis c)), (tov (cy_base c)). unfold axial3, dot3, sub3. cbn. ring. }
  rewrite (perpendicular_ray_same_at_every_height c (cy_base c) n (cy_h c) Hc Hn Hp); [| rewrite Z0; lra | rewrite Z0; lra].
  exact (center_of_base_perpendicular_ray c n Hc Hn Hp).
Qed.

(* 4. rays exactly parallel to the axis from any point of the closed solid -- the lateral surface and the edge
      circles included -- run to the end face they point at *)
Lemma axial_along_axis a base s t sg : unit3 a -> sg * sg = 1 ->
  axial3 a base (ray s (scale3 sg a) t) = axial3 a base s + sg * t.
Proof.
  destruct a as [a1 a2 a3], base as [b1 b2 b3], s as [s1 s2 s3].
  unfold axial3, unit3, ray, dot3, sub3, add3, scale3. cbn. intros Ha Hs. nsatz.
Qed.
Lemma radial_along_axis a base s t sg : unit3 a ->
  radial3 a base (ray s (scale3 sg a) t) = radial3 a base s.
Proof.
  destruct a as [a1 a2 a3], base as [b1 b2 b3], s as [s1 s2 s3].
  unfold radial3, unit3, norm3, ray, dot3, sub3, add3, scale3. cbn. intros Ha. f_equal. nsatz.
Qed.
Lemma unit_scale a sg : unit3 a -> sg * sg = 1 -> unit3 (scale3 sg a).
Proof.
  destruct a as [a1 a2 a3]. unfold unit3, dot3, scale3. cbn. intros Ha Hs.
  replace (sg * a1 * (sg * a1) + sg * a2 * (sg * a2) + sg * a3 * (sg * a3))
    with (sg * sg * (a1 * a1 + a2 * a2 + a3 * a3)) by ring.
  rewrite Hs, Ha. ring.
Qed.
Theorem axial_ray_from_closed_solid (c : cylinder RO) (s : vec RO) :
  wf_cyl c ->
  let z := axial3 (tov (cy_axis c)) (tov (cy_base c)) (tov s) in
  0 <= z <= cy_h c -> radial3 (tov (cy_axis c)) (tov (cy_base c)) (tov s) <= cy_r c ->
  beam_intersection RO c s (ofv (scale3 1 (tov (cy_axis c)))) = @Fin RO (cy_h c - z) /\
  beam_intersection RO c s (ofv (scale3 (-1) (tov (cy_axis c)))) = @Fin RO z.
Proof.
  intros Hc z Hz Hrad. pose proof Hc as [Ha [Hr Hh]].
  assert (U : forall sg, sg * sg = 1 -> unit3 (tov (ofv (scale3 sg (tov (cy_axis c)))))).
  { intros sg Hs. rewrite tov_ofv. apply unit_scale; assumption. }
  split.
  - destruct (path_length_is_measure c s _ Hc (U 1 ltac:(ring))) as [L [E [_ S]]].
    rewrite E. f_equal. eapply segment_length_unique; [exact S|].
    left. exists 0, (cy_h c - z). split; [lra|]. split; [| cbv [RO ROps F]; lra].
    intro t. rewrite tov_ofv, inside_axial_radial, (axial_along_axis _ _ _ _ 1 Ha ltac:(ring)), (radial_along_axis _ _ _ _ 1 Ha).
    fold z. split; intros; [lra | split; [lra | split; [lra | exact Hrad]]].
  - destruct (path_length_is_measure c s _ Hc (U (-1) ltac:(ring))) as [L [E [_ S]]].
    rewrite E. f_equal. eapply segment_length_unique; [exact S|].
    left. exists 0, z. split; [lra|]. split; [| cbv [RO ROps F]; lra].
    intro t. rewrite tov_ofv, inside_axial_radial, (axial_along_axis _ _ _ _ (-1) Ha ltac:(ring)), (radial_along_axis _ _ _ _ (-1) Ha).
    fold z. split; intros; [lra | split; [lra | split; [lra | exact Hrad]]].
Qed.

(* the hypotheses are satisfiable: the unit cylinder about z, the ray from the centre of its base along x *)
Example boundary_hypotheses_satisfiable :
  let c := @mkcyl RO (@mkvec RO 0 0 1) (@mkvec RO 0 0 0) 1 1 in
  let n : vec RO := @mkvec RO 1 0 0 in
  wf_cyl c /\ unit3 (tov n) /\ dot3 (tov n) (tov (cy_axis c)) = 0 /\
  0 <= axial3 (tov (cy_axis c)) (tov (cy_base c)) (tov (cy_base c)) <= cy_h c /\
  radial3 (tov (cy_axis c)) (tov (cy_base c)) (tov (cy_base c)) <= cy_r c.
Proof.
  cbv zeta. unfold wf_cyl, unit3, axial3, radial3, norm3, dot3, sub3, scale3, tov. cbn.
  repeat split; try lra; try (ring_simplify; lra).
  match goal with |- sqrt ?w <= 1 => replace w with 0 by ring end.
  rewrite sqrt_0. lra.
Qed.
