(* C18/Model.v — HAND-WRITTEN executable model of
     scippneutron/absorption/cylinder.py  (Cylinder.beam_intersection, center, volume,
       quadrature, _cylinder_quadrature_from_product, _minimum/_maximum/_max0,
       _positive_interval_intersection, _line_infinite_cylinder_intersection,
       _line_slab_intersection, the weight normalisation of _select_quadrature_points)
     scippneutron/absorption/base.py  (_single_scatter_distance_through_sample,
       _transmission_fraction, _integrate_transmission_fraction, compute_transmission_map)
   generic over the arithmetic record [Fops] (coq/Sem/Field.v): reasoned about at R
   (C18/Proofs*.v), executed at Q (coq-run/C18/Corr.v).  Definitions only, no proofs.

   All lengths of one cylinder are numbers in ONE unit (scipp refuses base - start,
   nxa^2 r^2 - (b.nxa)^2 ... for operands of different units).
   Modelled library behaviour (validated by the correspondence):
     sc.cross / sc.dot / sc.norm component formulas; sc.where = selection;
     IEEE +-inf / NaN ordering and inf - inf = NaN ([ext]);
     sc.spatial.rotations_from_rotvecs(u) * p = Rodrigues rotation of p about u/|u| by |u|;
     numpy repeat / tile / comprehension order of the product rule. *)
From Coq Require Import ZArith List Bool.
From Verif.Sem Require Import Field.
Import ListNotations.

Inductive angle_mode := AngAsin | AngAtan2.

Section M.
Variable O : Fops.
Local Notation F := (F O).
Local Notation "a +! b" := (fadd O a b) (at level 50, left associativity).
Local Notation "a -! b" := (fsub O a b) (at level 50, left associativity).
Local Notation "a *! b" := (fmul O a b) (at level 40, left associativity).
Local Notation "a /! b" := (fdiv O a b) (at level 40, left associativity).

(* ---------------------------------------------------------------- vectors *)
Record vec := mkvec { vx : F; vy : F; vz : F }.
Definition vplus (a b : vec) := mkvec (vx a +! vx b) (vy a +! vy b) (vz a +! vz b).
Definition vminus (a b : vec) := mkvec (vx a -! vx b) (vy a -! vy b) (vz a -! vz b).
Definition vopp (a : vec) := mkvec (fopp O (vx a)) (fopp O (vy a)) (fopp O (vz a)).
Definition smul (k : F) (a : vec) := mkvec (k *! vx a) (k *! vy a) (k *! vz a).
Definition sdiv (a : vec) (k : F) := mkvec (vx a /! k) (vy a /! k) (vz a /! k).
Definition dot (a b : vec) : F := vx a *! vx b +! vy a *! vy b +! vz a *! vz b.
Definition cross (a b : vec) : vec :=
  mkvec (vy a *! vz b -! vz a *! vy b) (vz a *! vx b -! vx a *! vz b) (vx a *! vy b -! vy a *! vx b).
Definition norm (a : vec) : F := fsqrt O (dot a a).
Definition sq (x : F) : F := x *! x.

(* ---------------------------------------------------------------- IEEE extended values *)
Inductive ext := NInf | Fin (x : F) | PInf | XNaN.
Definition ext_leb (a b : ext) : bool :=
  match a, b with
  | XNaN, _ | _, XNaN => false
  | NInf, _ => true
  | _, PInf => true
  | Fin x, Fin y => fleb O x y
  | _, _ => false
  end.
(* _minimum(x, y) = where(x <= y, x, y);  _maximum(x, y) = where(x >= y, x, y) *)
Definition e_minimum (x y : ext) : ext := if ext_leb x y then x else y.
Definition e_maximum (x y : ext) : ext := if ext_leb y x then x else y.
Definition e_max0 (x : ext) : ext := e_maximum x (Fin f0).
Definition e_sub (a b : ext) : ext :=
  match a, b with
  | XNaN, _ | _, XNaN => XNaN
  | Fin x, Fin y => Fin (x -! y)
  | PInf, PInf | NInf, NInf => XNaN
  | PInf, _ => PInf
  | NInf, _ => NInf
  | Fin _, PInf => NInf
  | Fin _, NInf => PInf
  end.
(* _positive_interval_intersection(a, b) *)
Definition pos_interval_intersection (a0 a1 b0 b1 : ext) : ext :=
  let left := e_maximum a0 b0 in
  let right := e_minimum a1 b1 in
  e_max0 (e_sub (e_max0 right) (e_max0 left)).

(* ---------------------------------------------------------------- line / solid intersections *)
(* _line_infinite_cylinder_intersection(a, b, r, n) *)
Definition line_cyl (a b : vec) (r : F) (n : vec) : bool * ext * ext :=
  let nxa := cross n a in
  let nxa_square := dot nxa nxa in
  let parallel := feqb O nxa_square f0 in
  let s2 := nxa_square *! sq r -! sq (dot b nxa) in
  let s := fsqrt O s2 in
  let m := dot nxa (cross b a) in
  let intersection := fleb O f0 s2 in
  let left := if parallel then NInf else Fin ((m -! s) /! nxa_square) in
  let right := if parallel then PInf else Fin ((m +! s) /! nxa_square) in
  let origin_in_cylinder := fleb O (norm (vminus b (smul (dot b a) a))) r in
  ((if parallel then origin_in_cylinder else intersection), left, right).

(* _line_slab_intersection(a, b, h, n) *)
Definition line_slab (a b : vec) (h : F) (n : vec) : bool * ext * ext :=
  let ndota := dot n a in
  let bdota := dot b a in
  let origin_in_plane := fleb O bdota f0 && fleb O (fopp O h) bdota in
  let parallel := feqb O (fabs O ndota) f0 in
  let t0 := bdota /! ndota in
  let t1 := t0 +! h /! ndota in
  let left := e_minimum (Fin t0) (Fin t1) in
  let right := e_maximum (Fin t1) (Fin t0) in
  (origin_in_plane || negb parallel,
   (if parallel then NInf else left),
   (if parallel then PInf else right)).

Record cylinder := mkcyl { cy_axis : vec; cy_base : vec; cy_r : F; cy_h : F }.

(* Cylinder.beam_intersection(start_point, direction) *)
Definition beam_intersection (c : cylinder) (start dir : vec) : ext :=
  let base_point := vminus (cy_base c) start in
  let '(ci, cl, cr) := line_cyl (cy_axis c) base_point (cy_r c) dir in
  let '(si, sl, sr) := line_slab (cy_axis c) base_point (cy_h c) dir in
  if ci && si then pos_interval_intersection sl sr cl cr else Fin f0.

Definition center (c : cylinder) : vec := vplus (cy_base c) (sdiv (smul (cy_h c) (cy_axis c)) f2).
Definition volume (c : cylinder) : F := sq (cy_r c) *! cy_h c *! fpi O.

(* ---------------------------------------------------------------- quadrature *)
(* a disk rule: (x, y, weight); a line rule: (x, weight) *)
Definition disk_rule := list (F * F * F).
Definition line_rule := list (F * F).
Fixpoint fsum (l : list F) : F := match l with [] => f0 | x :: l' => x +! fsum l' end.

(* `w *= (1 - x**2) ** 0.5 ; w /= sum(w) / 2`  (kinds 'medium' and 'expensive') *)
Definition cheb_line (raw : line_rule) : line_rule :=
  let w1 := map (fun p => (fst p, snd p *! fsqrt O (f1 -! sq (fst p)))) raw in
  let s := fsum (map snd w1) /! f2 in
  map (fun p => (fst p, snd p /! s)) w1.

(* `disk_weights * (np.pi / disk_weights.sum())`: the tabulated disk weights (8 digits for disk55 and
   disk256_cheb) normalised to the area of the unit disk *)
Definition norm_disk (disk : disk_rule) : disk_rule :=
  let k := fpi O /! fsum (map (fun d : F * F * F => snd d) disk) in
  map (fun d : F * F * F => (fst d, snd d *! k)) disk.

(* the product of a disk rule and a line rule: ((x, y, z), weight), disk-major order *)
Definition product_rule (disk : disk_rule) (line : line_rule) : list (vec * F) :=
  flat_map (fun d => let '(x, y, dw) := d in
                     map (fun l => (mkvec x y (fst l), dw *! snd l)) line) disk.
(* _cylinder_quadrature_from_product *)
Definition cyl_product_rule (disk : disk_rule) (line : line_rule) : list (vec * F) :=
  product_rule (norm_disk disk) line.

Definition rot_angle (md : angle_mode) (un c : F) : F :=
  match md with AngAsin => fasin O un | AngAtan2 => fatan2 O un c end.

(* rotation about the unit vector k by an angle with cosine c and sine s (Rodrigues) *)
Definition rot_cs (k : vec) (c s : F) (p : vec) : vec :=
  vplus (vplus (smul c p) (smul s (cross k p))) (smul (dot k p *! (f1 -! c)) k).
Definition rotate_about (k : vec) (th : F) (p : vec) : vec := rot_cs k (fcos O th) (fsin O th) p.

Definition zhat : vec := mkvec f0 f0 f1.
Definition rot_threshold : F := fdec 1 (-10).

(* the rotation applied by Cylinder.quadrature to the z-aligned rule.  (Written so that under
   call-by-value evaluation the angle, its cosine and sine are computed once per cylinder.) *)
Definition axis_rotation (md : angle_mode) (a : vec) : vec -> vec :=
  let u := cross zhat a in
  let un := norm u in
  if fleb O rot_threshold un
  then (let k := sdiv u un in
        let th := rot_angle md un (dot zhat a) in
        let c := fcos O th in
        let s := fsin O th in
        fun p => rot_cs k c s p)
  else (fun p => p).

(* Cylinder.quadrature given the unit-cylinder product rule selected for the kind *)
Definition quadrature (md : angle_mode) (c : cylinder) (quad : list (vec * F)) : list (vec * F) :=
  let rot := axis_rotation md (cy_axis c) in
  let cen := center c in
  let wk := sq (cy_r c) *! cy_h c /! f2 in
  map (fun q =>
         let p := fst q in
         let scaled := mkvec (vx p *! cy_r c) (vy p *! cy_r c) (vz p *! cy_h c /! f2) in
         (vplus (rot scaled) cen, snd q *! wk)) quad.

(* ---------------------------------------------------------------- transmission *)
Definition ext_val (e : ext) : F := match e with Fin x => x | _ => f0 end.
(* _single_scatter_distance_through_sample *)
Definition scatter_distance (c : cylinder) (p beam dir : vec) : F :=
  ext_val (beam_intersection c p (vopp beam)) +! ext_val (beam_intersection c p dir).
(* weighted sum of exp(-mu L) over the rule, divided by the volume;  mu is the attenuation
   coefficient per unit of the cylinder's length unit *)
Definition weighted_exp_sum (mu : F) (wl : list (F * F)) : F :=
  fsum (map (fun p => fexp O (fopp O (mu *! snd p)) *! fst p) wl).
Definition transmission (mu : F) (wl : list (F * F)) (V : F) : F := weighted_exp_sum mu wl /! V.

(* compute_transmission_map for one detector position and one wavelength.
   [to_det] = (multiplier of the cylinder's unit) / (multiplier of the detector unit):
   the points are converted to the detector's unit before the direction is formed. *)
Definition scatter_dir (to_det : F) (det p : vec) : vec :=
  let d := vminus det (smul to_det p) in sdiv d (norm d).
Definition transmission_map (md : angle_mode) (c : cylinder) (quad : list (vec * F))
           (mu to_det : F) (beam det : vec) : F :=
  let pw := quadrature md c quad in
  transmission mu
    (map (fun q => (snd q, scatter_distance c (fst q) beam (scatter_dir to_det det (fst q)))) pw)
    (volume c).
End M.

Arguments mkvec {O}. Arguments vx {O}. Arguments vy {O}. Arguments vz {O}.
Arguments NInf {O}. Arguments PInf {O}. Arguments XNaN {O}. Arguments Fin {O}.
Arguments mkcyl {O}. Arguments cy_axis {O}. Arguments cy_base {O}. Arguments cy_r {O}. Arguments cy_h {O}.
