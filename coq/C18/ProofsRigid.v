(* C18/ProofsRigid.v — path lengths are invariant under rigid motions of the whole scene and
   under describing the same solid from its other end. *)
From Coq Require Import Reals Lra Psatz Nsatz Bool.
From Verif.Sem Require Import Field RInst.
From Verif.C18 Require Import Model Spec ProofsScalar ProofsGeom.
Open Scope R_scope.

Lemma dot_orth M u v : orthogonal M -> dot3 (mulMv M u) (mulMv M v) = dot3 u v.
Proof.
  destruct M, u as [u1 u2 u3], v as [w1 w2 w3]. unfold orthogonal, dot3, mulMv, col1, col2, col3. cbn.
  intros [H1 [H2 [H3 [H4 [H5 H6]]]]]. nsatz.
Qed.
Lemma mulMv_sub M u v : mulMv M (sub3 u v) = sub3 (mulMv M u) (mulMv M v).
Proof. destruct M, u, v. unfold mulMv, sub3. cbn. f_equal; ring. Qed.
Lemma mulMv_add M u v : mulMv M (add3 u v) = add3 (mulMv M u) (mulMv M v).
Proof. destruct M, u, v. unfold mulMv, add3. cbn. f_equal; ring. Qed.
Lemma mulMv_scale M k u : mulMv M (scale3 k u) = scale3 k (mulMv M u).
Proof. destruct M, u. unfold mulMv, scale3. cbn. f_equal; ring. Qed.

Lemma rigid_ray M tr s n t : rigid M tr (ray s n t) = ray (rigid M tr s) (mulMv M n) t.
Proof.
  unfold rigid, ray. rewrite mulMv_add, mulMv_scale.
  destruct (mulMv M s), (mulMv M n), tr. unfold add3, scale3. cbn. f_equal; ring.
Qed.
Lemma rigid_sub M tr p q : sub3 (rigid M tr p) (rigid M tr q) = mulMv M (sub3 p q).
Proof.
  unfold rigid. rewrite mulMv_sub. destruct (mulMv M p), (mulMv M q), tr. unfold add3, sub3. cbn. f_equal; ring.
Qed.

(* membership in the solid is preserved when solid and point are moved together *)
Lemma inside_rigid M tr a base r h p : orthogonal M ->
  (inside (mulMv M a) (rigid M tr base) r h (rigid M tr p) <-> inside a base r h p).
Proof.
  intro HM. unfold inside. cbv zeta. rewrite rigid_sub, (dot_orth M _ _ HM).
  rewrite <- mulMv_scale, <- mulMv_sub. unfold norm3. rewrite (dot_orth M _ _ HM). tauto.
Qed.

(* the same solid described from its other end *)
Lemma inside_flip a base r h p : unit3 a ->
  (inside (scale3 (-1) a) (add3 base (scale3 h a)) r h p <-> inside a base r h p).
Proof.
  intro Ha. unfold inside. cbv zeta.
  set (d := sub3 p base).
  assert (E1 : dot3 (sub3 p (add3 base (scale3 h a))) (scale3 (-1) a) = h - dot3 d a).
  { unfold d. destruct p, base, a. unfold unit3, dot3, sub3, add3, scale3 in *. cbn in *. nsatz. }
  assert (E2 : sub3 (sub3 p (add3 base (scale3 h a)))
                    (scale3 (dot3 (sub3 p (add3 base (scale3 h a))) (scale3 (-1) a)) (scale3 (-1) a))
               = sub3 d (scale3 (dot3 d a) a)).
  { rewrite E1. unfold d. destruct p, base, a. unfold dot3, sub3, add3, scale3. cbn. f_equal; ring. }
  rewrite E2, E1. split; intros [[H1 H2] H3]; (split; [split; lra | exact H3]).
Qed.

Definition move_cyl (M : M3) (tr : V3) (c : cylinder RO) : cylinder RO :=
  mkcyl (ofv (mulMv M (tov (cy_axis c)))) (ofv (rigid M tr (tov (cy_base c)))) (cy_r c) (cy_h c).
Definition flip_cyl (c : cylinder RO) : cylinder RO :=
  mkcyl (ofv (scale3 (-1) (tov (cy_axis c)))) (ofv (add3 (tov (cy_base c)) (scale3 (cy_h c) (tov (cy_axis c)))))
        (cy_r c) (cy_h c).

Lemma tov_ofv v : tov (ofv v) = v.
Proof. destruct v; reflexivity. Qed.
Lemma wf_move M tr c : orthogonal M -> wf_cyl c -> wf_cyl (move_cyl M tr c).
Proof.
  intros HM [Ha H]. split; [|exact H]. unfold move_cyl. cbn [cy_axis]. rewrite tov_ofv.
  unfold unit3 in *. rewrite (dot_orth M _ _ HM). exact Ha.
Qed.
Lemma wf_flip c : wf_cyl c -> wf_cyl (flip_cyl c).
Proof.
  intros [Ha H]. split; [|exact H]. unfold flip_cyl. cbn [cy_axis]. rewrite tov_ofv.
  destruct (tov (cy_axis c)). unfold unit3, dot3, scale3 in *. cbn in *. nra.
Qed.

Theorem rigid_motion_paths (M : M3) (tr : V3) (c : cylinder RO) (s n : vec RO) :
  orthogonal M -> wf_cyl c -> unit3 (tov n) ->
  beam_intersection RO (move_cyl M tr c) (ofv (rigid M tr (tov s))) (ofv (mulMv M (tov n)))
  = beam_intersection RO c s n.
Proof.
  intros HM Hc Hn.
  destruct (path_length_is_measure c s n Hc Hn) as [L [E [_ S]]].
  assert (Hn' : unit3 (tov (ofv (mulMv M (tov n))))).
  { rewrite tov_ofv. unfold unit3 in *. rewrite (dot_orth M _ _ HM). exact Hn. }
  destruct (path_length_is_measure (move_cyl M tr c) (ofv (rigid M tr (tov s))) (ofv (mulMv M (tov n)))
              (wf_move M tr c HM Hc) Hn') as [L' [E' [_ S']]].
  rewrite E, E'. f_equal.
  eapply segment_length_unique; [| exact S].
  eapply segment_length_ext; [| exact S'].
  intro t. cbv beta. unfold move_cyl. cbn [cy_axis cy_base cy_r cy_h]. rewrite !tov_ofv.
  rewrite <- rigid_ray, (inside_rigid M tr _ _ _ _ _ HM). tauto.
Qed.

Theorem other_end_paths (c : cylinder RO) (s n : vec RO) :
  wf_cyl c -> unit3 (tov n) ->
  beam_intersection RO (flip_cyl c) s n = beam_intersection RO c s n.
Proof.
  intros Hc Hn.
  destruct (path_length_is_measure c s n Hc Hn) as [L [E [_ S]]].
  destruct (path_length_is_measure (flip_cyl c) s n (wf_flip c Hc) Hn) as [L' [E' [_ S']]].
  rewrite E, E'. f_equal.
  eapply segment_length_unique; [| exact S].
  eapply segment_length_ext; [| exact S'].
  intro t. cbv beta. unfold flip_cyl. cbn [cy_axis cy_base cy_r cy_h]. rewrite !tov_ofv.
  destruct Hc as [Ha _]. rewrite (inside_flip _ _ _ _ _ Ha). tauto.
Qed.
