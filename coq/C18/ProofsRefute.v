(* C18/ProofsRefute.v — pre-finding F8b: with the angle asin|z x a| (the formula in the source
   before the repair) the rotation sends z-hat to (a_x, a_y, |a_z|), the mirror image of the
   axis when a_z < 0; quadrature points then leave the solid. *)
From Coq Require Import Reals Lra Psatz Nsatz Bool List.
From Verif.Sem Require Import Field RInst.
From Verif.C18 Require Import Model Spec ProofsScalar ProofsGeom ProofsRot ProofsQuad.
Import ListNotations.
Open Scope R_scope.

Lemma axis_rotation_asin (a : vec RO) :
  unit3 (tov a) -> rot_threshold RO <= un_of a ->
  exists k1 k2 k3 c s,
    (forall p, axis_rotation RO AngAsin a p = rot_cs RO (@mkvec RO k1 k2 k3) c s p) /\
    rot_cs RO (@mkvec RO k1 k2 k3) c s (zhat RO) = @mkvec RO (vx a) (vy a) (Rabs (vz a)).
Proof.
  destruct a as [a1 a2 a3]. intros Ha Hun.
  pose proof (un_of_sq a1 a2 a3) as Hsq.
  set (un := un_of (@mkvec RO a1 a2 a3)) in *.
  assert (Hpos : 0 < un) by (rewrite rot_threshold_R in Hun; lra).
  assert (Ha' : a1 * a1 + a2 * a2 + a3 * a3 = 1) by (revert Ha; ops; intro Ha; exact Ha).
  assert (Hle : -1 <= un <= 1) by (split; nra).
  assert (Hcos : cos (asin un) = Rabs a3).
  { rewrite cos_asin by exact Hle. rewrite <- sqrt_Rsqr_abs. f_equal. unfold Rsqr. lra. }
  assert (Hsin : sin (asin un) = un) by (apply sin_asin; exact Hle).
  set (u := cross RO (zhat RO) (@mkvec RO a1 a2 a3)).
  exists (vx (sdiv RO u un)), (vy (sdiv RO u un)), (vz (sdiv RO u un)), (cos (asin un)), (sin (asin un)).
  set (iu := / un). assert (Hiu : un * iu = 1) by (unfold iu; field; lra).
  split.
  - intro p. unfold axis_rotation. fold u. change (norm RO u) with un.
    change (fleb RO (rot_threshold RO) un) with (Rleb (rot_threshold RO) un).
    rewrite Rleb_true by exact Hun. unfold rotate_about, rot_angle.
    destruct (sdiv RO u un). reflexivity.
  - rewrite Hcos, Hsin. cbn [vx vy vz]. set (ab := Rabs a3). unfold u, zhat, rot_cs. ops. unfold Rdiv. fold iu.
    clearbody un iu ab. clear - Hiu. f_equal; nsatz.
Qed.

(* the full rotation statement is FALSE for the asin formula: every admissible axis below the
   equator is sent to its mirror image *)
Theorem rotation_asin_refuted_all (a : vec RO) :
  unit3 (tov a) -> rot_threshold RO <= un_of a -> vz a < 0 ->
  axis_rotation RO AngAsin a (zhat RO) <> a.
Proof.
  intros Ha Hun Hz H.
  destruct (axis_rotation_asin a Ha Hun) as [k1 [k2 [k3 [c [s [Hf Hzh]]]]]].
  rewrite Hf, Hzh in H. apply (f_equal (@vz RO)) in H. cbn [vz] in H.
  rewrite Rabs_left in H by exact Hz. lra.
Qed.

Definition a_wit : vec RO := @mkvec RO 0 (3 / 5) (- 4 / 5).
Lemma a_wit_unit : unit3 (tov a_wit).
Proof. unfold a_wit. ops. field. Qed.
Lemma a_wit_un : un_of a_wit = 3 / 5.
Proof.
  pose proof (un_of_sq 0 (3 / 5) (- 4 / 5)) as H. fold a_wit in H.
  assert (0 <= un_of a_wit) by (unfold un_of, norm; apply sqrt_pos). nra.
Qed.

Theorem rotation_asin_refuted :
  exists a : vec RO, unit3 (tov a) /\ rot_threshold RO <= un_of a /\
                     axis_rotation RO AngAsin a (zhat RO) <> a.
Proof.
  exists a_wit. split; [exact a_wit_unit|]. split; [rewrite a_wit_un, rot_threshold_R; lra|].
  apply rotation_asin_refuted_all; [exact a_wit_unit | rewrite a_wit_un, rot_threshold_R; lra | cbn; lra].
Qed.

(* ... and a point of the rule (the node (0,0,1), on the axis at the end face) is placed outside
   the cylinder  axis (0, 0.6, -0.8), base 0, r = 1, h = 4:  it lands 1.92 r from the axis *)
Definition c_wit : cylinder RO := @mkcyl RO a_wit (@mkvec RO 0 0 0) 1 4.
Definition q_wit : vec RO * R := (@mkvec RO 0 0 1, 1).

Theorem quadrature_asin_refuted :
  wf_cyl c_wit /\ axis_admissible (cy_axis c_wit) /\ Forall node_ok [q_wit] /\
  ~ Forall (fun pw => inside (tov (cy_axis c_wit)) (tov (cy_base c_wit)) (cy_r c_wit) (cy_h c_wit) (tov (fst pw)))
           (quadrature RO AngAsin c_wit [q_wit]).
Proof.
  split; [| split; [| split]].
  - split; [exact a_wit_unit | cbn; lra].
  - right. cbn [cy_axis c_wit]. rewrite a_wit_un, rot_threshold_R. lra.
  - constructor; [| constructor]. unfold node_ok, q_wit. cbn. lra.
  - intro H. inversion H as [| ? ? Hin _]; subst. clear H. revert Hin.
    unfold quadrature. cbn [map fst snd q_wit cy_axis cy_r cy_h cy_base c_wit vx vy vz].
    assert (Hthr : rot_threshold RO <= un_of a_wit) by (rewrite a_wit_un, rot_threshold_R; lra).
    destruct (axis_rotation_asin a_wit a_wit_unit Hthr) as [k1 [k2 [k3 [c [s [Hf Hzh]]]]]].
    rewrite Hf.
    replace (@mkvec RO (0 * 1) (0 * 1) (1 * 4 / 2)) with (smul RO 2 (zhat RO))
      by (unfold zhat; ops; f_equal; field).
    rewrite rot_cs_smul, Hzh. unfold a_wit. cbn [vx vy vz].
    rewrite Rabs_left by lra.
    unfold inside, center, c_wit, a_wit. cbn [cy_axis cy_base cy_r cy_h]. ops. cbv zeta.
    intros [_ Hrad].
    match type of Hrad with sqrt ?W <= 1 => assert (E : W = (48 / 25) * (48 / 25)) by field end.
    rewrite E, sqrt_square in Hrad by lra. lra.
Qed.
