(* C18/Spec.v — INDEPENDENT specification the C18 theorems are stated against.
   Plain real Euclidean geometry; nothing here mentions the model (C18/Model.v). *)
From Coq Require Import Reals List.
Import ListNotations.
Open Scope R_scope.

Record V3 := v3 { X : R; Y : R; Z : R }.
Definition add3 (a b : V3) := v3 (X a + X b) (Y a + Y b) (Z a + Z b).
Definition sub3 (a b : V3) := v3 (X a - X b) (Y a - Y b) (Z a - Z b).
Definition scale3 (k : R) (a : V3) := v3 (k * X a) (k * Y a) (k * Z a).
Definition dot3 (a b : V3) : R := X a * X b + Y a * Y b + Z a * Z b.
Definition norm3 (a : V3) : R := sqrt (dot3 a a).
Definition unit3 (a : V3) : Prop := dot3 a a = 1.

(* the solid cylinder with unit axis a, centre of the base [base], radius r, height h *)
Definition inside (a base : V3) (r h : R) (p : V3) : Prop :=
  let d := sub3 p base in
  (0 <= dot3 d a <= h) /\ norm3 (sub3 d (scale3 (dot3 d a) a)) <= r.

(* the ray from s in direction n *)
Definition ray (s n : V3) (t : R) : V3 := add3 s (scale3 t n).

(* [len] is the length (Lebesgue measure) of the subset S of the line, when S is a closed
   segment [lo, hi] (length hi - lo) or empty (length 0).  Convexity of the cylinder makes
   every {t >= 0 : inside (ray t)} one of the two. *)
Definition segment_length (S : R -> Prop) (len : R) : Prop :=
  (exists lo hi, lo <= hi /\ (forall t, S t <-> lo <= t <= hi) /\ len = hi - lo)
  \/ ((forall t, ~ S t) /\ len = 0).

(* 3x3 matrices, orthogonal maps, rigid motions *)
Record M3 := m3 { m11 : R; m12 : R; m13 : R; m21 : R; m22 : R; m23 : R; m31 : R; m32 : R; m33 : R }.
Definition mulMv (M : M3) (v : V3) : V3 :=
  v3 (m11 M * X v + m12 M * Y v + m13 M * Z v)
     (m21 M * X v + m22 M * Y v + m23 M * Z v)
     (m31 M * X v + m32 M * Y v + m33 M * Z v).
Definition col1 (M : M3) := v3 (m11 M) (m21 M) (m31 M).
Definition col2 (M : M3) := v3 (m12 M) (m22 M) (m32 M).
Definition col3 (M : M3) := v3 (m13 M) (m23 M) (m33 M).
(* M^T M = I *)
Definition orthogonal (M : M3) : Prop :=
  dot3 (col1 M) (col1 M) = 1 /\ dot3 (col2 M) (col2 M) = 1 /\ dot3 (col3 M) (col3 M) = 1 /\
  dot3 (col1 M) (col2 M) = 0 /\ dot3 (col1 M) (col3 M) = 0 /\ dot3 (col2 M) (col3 M) = 0.
Definition rigid (M : M3) (tr : V3) (p : V3) : V3 := add3 (mulMv M p) tr.

Definition cyl_volume (r h : R) : R := PI * r * r * h.

(* sums over finite rules *)
Fixpoint Rsum (l : list R) : R := match l with [] => 0 | x :: l' => x + Rsum l' end.
(* weighted mean of exp(-mu L) : the transmission for weights w_i and path lengths L_i *)
Definition weighted_transmission (mu : R) (wl : list (R * R)) : R :=
  Rsum (map (fun p => fst p * exp (- (mu * snd p))) wl) / Rsum (map fst wl).
