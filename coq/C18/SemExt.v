(* C18/SemExt.v — semantic-domain extension for the translated helpers of C18 (no proofs).
   Dataclass instances (Cylinder, Material, ScatteringParams) are modelled as records of their
   attributes, `VDict O [(name, value); ...]`; `py_attr` selects an attribute of such a record and
   is Verif.Sem.Val.py_attr on everything else.  The generated modules import this file AFTER
   Verif.Sem.Val, so the unqualified `py_attr` in the generated text denotes this definition. *)
From Coq Require Import ZArith String List.
From Verif.Sem Require Import Field Val.
Import ListNotations.
Open Scope string_scope.

Definition py_attr (O : Fops) (v : val O) (name : string) : val O :=
  match v with
  | VDict _ l => match assoc name l with
                 | Some x => x
                 | None => VErr O "AttributeError"
                 end
  | _ => Val.py_attr O v name
  end.

Definition mk_cylinder (O : Fops) (axis base r h : val O) : val O :=
  VDict O [("symmetry_line", axis); ("center_of_base", base); ("radius", r); ("height", h)].
Definition mk_material (O : Fops) (n sigma_s sigma_a : val O) : val O :=
  VDict O [("scattering_params",
            VDict O [("total_scattering_cross_section", sigma_s);
                     ("absorption_cross_section", sigma_a)]);
           ("effective_sample_number_density", n)].
