(* C18/ProofsQuad.v — the product rule placed by Cylinder.quadrature: points inside the solid,
   positive weights, sums and low-degree moments (over R). *)
From Coq Require Import Reals Lra Psatz Nsatz Bool List.
From Verif.Sem Require Import Field RInst.
From Verif.C18 Require Import Model Spec ProofsScalar ProofsGeom ProofsRot.
Import ListNotations.
Open Scope R_scope.

(* a point of the unit-cylinder rule, scaled, turned by a rotation that maps z-hat to +-a,
   moved to the centre: inside the solid *)
Lemma placed_point_inside k1 k2 k3 c s sg (cyl : cylinder RO) x y z :
  k1 * k1 + k2 * k2 + k3 * k3 = 1 -> c * c + s * s = 1 -> sg * sg = 1 ->
  rot_cs RO (@mkvec RO k1 k2 k3) c s (zhat RO) = smul RO sg (cy_axis cyl) ->
  0 <= cy_r cyl -> 0 <= cy_h cyl ->
  x * x + y * y <= 1 -> -1 <= z <= 1 ->
  inside (tov (cy_axis cyl)) (tov (cy_base cyl)) (cy_r cyl) (cy_h cyl)
    (tov (vplus RO (rot_cs RO (@mkvec RO k1 k2 k3) c s
                      (@mkvec RO (x * cy_r cyl) (y * cy_r cyl) (z * cy_h cyl / 2)))
                   (center RO cyl))).
Proof.
  destruct cyl as [[a1 a2 a3] [o1 o2 o3] r h]. cbn [cy_axis cy_base cy_r cy_h].
  intros Hk Hcs Hsg Hz Hr Hh Hxy Hzz.
  set (q := @mkvec RO (x * r) (y * r) (z * h / 2)).
  set (Rot := rot_cs RO (@mkvec RO k1 k2 k3) c s) in *.
  assert (F1 : dot RO (Rot q) (Rot (zhat RO)) = z * h / 2).
  { unfold Rot. rewrite (rot_cs_dot k1 k2 k3 c s Hk Hcs). unfold q, zhat. ops. ring. }
  assert (F2 : dot RO (Rot (zhat RO)) (Rot (zhat RO)) = 1).
  { unfold Rot. rewrite (rot_cs_dot k1 k2 k3 c s Hk Hcs). unfold zhat. ops. ring. }
  assert (F3 : dot RO (vminus RO (Rot q) (smul RO (z * h / 2) (Rot (zhat RO))))
                      (vminus RO (Rot q) (smul RO (z * h / 2) (Rot (zhat RO))))
               = (x * r) * (x * r) + (y * r) * (y * r)).
  { unfold Rot. rewrite <- rot_cs_smul, <- rot_cs_sub, (rot_cs_dot k1 k2 k3 c s Hk Hcs).
    unfold q, zhat. ops. ring. }
  destruct (Rot q) as [g1 g2 g3]. destruct (Rot (zhat RO)) as [e1 e2 e3].
  injection Hz as Z1 Z2 Z3. clear Rot q.
  unfold inside, center. cbn [cy_axis cy_base cy_r cy_h]. ops. cbv zeta.
  assert (A1 : a1 = sg * e1) by (rewrite Z1, <- Rmult_assoc, Hsg; ring).
  assert (A2 : a2 = sg * e2) by (rewrite Z2, <- Rmult_assoc, Hsg; ring).
  assert (A3 : a3 = sg * e3) by (rewrite Z3, <- Rmult_assoc, Hsg; ring).
  match goal with |- (0 <= ?D <= h) /\ _ => set (D0 := D) end.
  match goal with |- _ /\ sqrt ?W <= r => set (W0 := W) end.
  assert (E1 : D0 = sg * (z * h / 2) + h / 2).
  { unfold D0. rewrite A1, A2, A3. clear - F1 F2 Hsg. unfold Rdiv in *. set (hf := / 2) in *.
    assert (Hhf : 2 * hf = 1) by (unfold hf; lra). clearbody hf. nsatz. }
  assert (E2 : W0 = (x * r) * (x * r) + (y * r) * (y * r)).
  { unfold W0. rewrite E1, A1, A2, A3. clear - F1 F2 F3 Hsg. unfold Rdiv in *. set (hf := / 2) in *.
    assert (Hhf : 2 * hf = 1) by (unfold hf; lra). clearbody hf. nsatz. }
  split.
  - rewrite E1. assert (sg = 1 \/ sg = -1) as [-> | ->] by (assert (H : (sg - 1) * (sg + 1) = 0) by nra;
      destruct (Rmult_integral _ _ H); [left | right]; lra); nra.
  - rewrite E2. apply sqrt_le_iff; [nra | exact Hr |]. nra.
Qed.

(* ---------------------------------------------------------------- all points of the rule *)
Definition node_ok (q : vec RO * R) : Prop :=
  vx (fst q) * vx (fst q) + vy (fst q) * vy (fst q) <= 1 /\ -1 <= vz (fst q) <= 1.
Definition axis_admissible (a : vec RO) : Prop := un_of a = 0 \/ rot_threshold RO <= un_of a.

Lemma identity_is_rot (p : vec RO) : rot_cs RO (zhat RO) 1 0 p = p.
Proof. destruct p as [p1 p2 p3]. unfold rot_cs, zhat. ops. f_equal; ring. Qed.

(* what axis_rotation does for an admissible unit axis (atan2 angle) *)
Lemma axis_rotation_cases (a : vec RO) :
  unit3 (tov a) -> axis_admissible a ->
  exists k1 k2 k3 c s sg,
    k1 * k1 + k2 * k2 + k3 * k3 = 1 /\ c * c + s * s = 1 /\ sg * sg = 1 /\
    (forall p, axis_rotation RO AngAtan2 a p = rot_cs RO (@mkvec RO k1 k2 k3) c s p) /\
    rot_cs RO (@mkvec RO k1 k2 k3) c s (zhat RO) = smul RO sg a.
Proof.
  intros Ha [H0 | Hthr].
  - destruct a as [a1 a2 a3].
    pose proof (un_of_sq a1 a2 a3) as Hsq. rewrite H0 in Hsq.
    assert (a1 = 0 /\ a2 = 0) as [-> ->] by (split; nra).
    assert (Ha3 : a3 * a3 = 1) by (revert Ha; ops; intro Ha; lra).
    exists 0, 0, 1, 1, 0, a3. repeat split; try ring; try exact Ha3.
    + intro p. unfold axis_rotation.
      change (norm RO (cross RO (zhat RO) (@mkvec RO 0 0 a3))) with (un_of (@mkvec RO 0 0 a3)).
      rewrite H0. change (fleb RO (rot_threshold RO) 0) with (Rleb (rot_threshold RO) 0).
      rewrite Rleb_false by (rewrite rot_threshold_R; lra).
      symmetry. apply identity_is_rot.
    + change (@mkvec RO 0 0 1) with (zhat RO). rewrite identity_is_rot. unfold zhat. ops. f_equal; try ring. lra.
  - destruct (axis_rotation_atan2 a Ha Hthr) as [k1 [k2 [k3 [c [s [Hk [Hcs [Hf Hz]]]]]]]].
    exists k1, k2, k3, c, s, 1. repeat split; try assumption; try ring.
    rewrite Hz. destruct a. ops. f_equal; ring.
Qed.

Theorem quadrature_points_inside_model (c : cylinder RO) (quad : list (vec RO * R)) :
  wf_cyl c -> axis_admissible (cy_axis c) -> Forall node_ok quad ->
  Forall (fun pw => inside (tov (cy_axis c)) (tov (cy_base c)) (cy_r c) (cy_h c) (tov (fst pw)))
         (quadrature RO AngAtan2 c quad).
Proof.
  intros [Ha [Hr Hh]] Hadm Hq.
  destruct (axis_rotation_cases (cy_axis c) Ha Hadm) as [k1 [k2 [k3 [cc [s [sg [Hk [Hcs [Hsg [Hf Hz]]]]]]]]]].
  unfold quadrature. apply Forall_forall. intros pw Hin. apply in_map_iff in Hin.
  destruct Hin as [q [<- Hin]]. cbn [fst].
  rewrite Forall_forall in Hq. destruct (Hq q Hin) as [Hxy Hzz].
  rewrite Hf.
  exact (placed_point_inside k1 k2 k3 cc s sg c (vx (fst q)) (vy (fst q)) (vz (fst q)) Hk Hcs Hsg Hz Hr Hh Hxy Hzz).
Qed.

(* the product rule inherits the node facts of its factors *)
Lemma product_rule_nodes (disk : list (R * R * R)) (line : list (R * R)) :
  Forall (fun d => fst (fst d) * fst (fst d) + snd (fst d) * snd (fst d) <= 1) disk ->
  Forall (fun l => -1 <= fst l <= 1) line ->
  Forall node_ok (product_rule RO disk line).
Proof.
  intros Hd Hl. unfold product_rule. apply Forall_forall. intros q Hin.
  apply in_flat_map in Hin. destruct Hin as [[[x y] dw] [Hind Hin]].
  apply in_map_iff in Hin. destruct Hin as [l [<- Hinl]].
  rewrite Forall_forall in Hd, Hl. unfold node_ok. cbn. split; [exact (Hd _ Hind) | exact (Hl _ Hinl)].
Qed.
Lemma cheb_line_nodes (raw : list (R * R)) : map fst (cheb_line RO raw) = map fst raw.
Proof. unfold cheb_line. rewrite !map_map. cbn. reflexivity. Qed.

(* ---------------------------------------------------------------- sums *)
Lemma fsum_Rsum (l : list R) : fsum RO l = Rsum l.
Proof. induction l as [| x l IH]; [reflexivity|]. cbn [fsum Rsum]. rewrite IH. reflexivity. Qed.
Lemma Rsum_app l1 l2 : Rsum (l1 ++ l2) = Rsum l1 + Rsum l2.
Proof. induction l1 as [| x l IH]; cbn; [ring | rewrite IH; ring]. Qed.
Lemma Rsum_map_ext {A} (f g : A -> R) l : (forall a, f a = g a) -> Rsum (map f l) = Rsum (map g l).
Proof. intro H. induction l as [| a l IH]; cbn; [reflexivity | rewrite H, IH; reflexivity]. Qed.
Lemma Rsum_map_scale {A} (f : A -> R) k l : Rsum (map (fun a => k * f a) l) = k * Rsum (map f l).
Proof. induction l as [| a l IH]; cbn; [ring | rewrite IH; ring]. Qed.

Lemma flat_map_cons' {A B} (f : A -> list B) a l : flat_map f (a :: l) = f a ++ flat_map f l.
Proof. reflexivity. Qed.

(* sums over the product rule factorise into a disk sum and a line sum *)
Lemma sum_product_rule (gd : R -> R -> R) (gl : R -> R) (disk : list (R * R * R)) (line : list (R * R)) :
  Rsum (map (fun q : vec RO * R => snd q * (gd (vx (fst q)) (vy (fst q)) * gl (vz (fst q))))
            (product_rule RO disk line))
  = Rsum (map (fun d : R * R * R => snd d * gd (fst (fst d)) (snd (fst d))) disk)
    * Rsum (map (fun l : R * R => snd l * gl (fst l)) line).
Proof.
  unfold product_rule. induction disk as [| [[x y] dw] disk IH]; [cbn; ring|].
  rewrite flat_map_cons', map_app, Rsum_app.
  match goal with |- ?A + _ = _ =>
    transitivity (A + Rsum (map (fun d : R * R * R => snd d * gd (fst (fst d)) (snd (fst d))) disk)
                      * Rsum (map (fun l : R * R => snd l * gl (fst l)) line));
      [f_equal; exact IH|] end.
  cbn [map Rsum fst snd].
  match goal with |- ?A + _ = _ =>
    assert (E : A = dw * gd x y * Rsum (map (fun l : R * R => snd l * gl (fst l)) line)) end.
  { clear IH. induction line as [| [lx lw] line IHl]; [cbn; ring|].
    cbn [map Rsum fst snd vx vy vz]. rewrite IHl. change (fmul RO dw lw) with (dw * lw). ring. }
  rewrite E. ring.
Qed.

(* ---------------------------------------------------------------- weights *)
Lemma quadrature_weights md (c : cylinder RO) quad :
  map snd (quadrature RO md c quad) = map (fun q => snd q * (cy_r c * cy_r c * cy_h c / 2)) quad.
Proof. unfold quadrature. rewrite map_map. reflexivity. Qed.

Lemma product_rule_weights_pos (disk : list (R * R * R)) (line : list (R * R)) :
  Forall (fun d => 0 < snd d) disk -> Forall (fun l => 0 < snd l) line ->
  Forall (fun q => 0 < snd q) (product_rule RO disk line).
Proof.
  intros Hd Hl. unfold product_rule. apply Forall_forall. intros q Hin.
  apply in_flat_map in Hin. destruct Hin as [[[x y] dw] [Hind Hin]].
  apply in_map_iff in Hin. destruct Hin as [l [<- Hinl]].
  rewrite Forall_forall in Hd, Hl. cbn. change (0 < dw * snd l).
  apply Rmult_lt_0_compat; [exact (Hd _ Hind) | exact (Hl _ Hinl)].
Qed.

(* the normalised Chebyshev-node rule of 'medium' / 'expensive': positive weights that sum to 2 *)
Lemma Rsum_pos (l : list (R * R)) : Forall (fun p => 0 < snd p) l -> l <> [] -> 0 < Rsum (map snd l).
Proof.
  induction l as [| a l IH]; [contradiction|]. intros Hw _. inversion Hw; subst.
  destruct l as [| b l]; [cbn; lra|].
  assert (0 < Rsum (map snd (b :: l))) by (apply IH; [assumption | discriminate]).
  change (0 < snd a + Rsum (map snd (b :: l))). lra.
Qed.
Lemma normalise_sum (w1 : list (R * R)) :
  Forall (fun p => 0 < snd p) w1 -> w1 <> [] ->
  let S := Rsum (map snd w1) / 2 in
  Forall (fun p => 0 < snd p) (map (fun p : R * R => (fst p, snd p / S)) w1)
  /\ Rsum (map snd (map (fun p : R * R => (fst p, snd p / S)) w1)) = 2.
Proof.
  intros Hw Hne S. pose proof (Rsum_pos w1 Hw Hne) as Hs.
  assert (HS : 0 < S) by (unfold S; lra).
  split.
  - apply Forall_forall. intros l Hin. apply in_map_iff in Hin. destruct Hin as [p [<- Hp]].
    rewrite Forall_forall in Hw. cbn [snd]. apply Rdiv_lt_0_compat; [exact (Hw _ Hp) | exact HS].
  - rewrite map_map. cbn [snd].
    rewrite (Rsum_map_ext _ (fun p : R * R => / S * snd p)) by (intro; unfold Rdiv; ring).
    rewrite Rsum_map_scale. unfold S. field. lra.
Qed.
Lemma cheb_line_sum (raw : list (R * R)) :
  Forall (fun l => 0 < snd l /\ -1 < fst l < 1) raw -> raw <> [] ->
  Forall (fun l => 0 < snd l) (cheb_line RO raw) /\ Rsum (map snd (cheb_line RO raw)) = 2.
Proof.
  intros Hraw Hne. unfold cheb_line. cbv zeta.
  set (w1 := map (fun p : R * R => (fst p, snd p * sqrt (1 - fst p * fst p))) raw).
  assert (Hw1 : Forall (fun l => 0 < snd l) w1).
  { unfold w1. apply Forall_forall. intros l Hin. apply in_map_iff in Hin. destruct Hin as [p [<- Hp]].
    rewrite Forall_forall in Hraw. destruct (Hraw p Hp) as [Hw Hx]. cbn [snd fst].
    apply Rmult_lt_0_compat; [exact Hw|]. apply sqrt_lt_R0. nra. }
  assert (Hne1 : w1 <> []) by (unfold w1; destruct raw; [contradiction | discriminate]).
  pose proof (normalise_sum w1 Hw1 Hne1) as Q. cbv zeta in Q.
  rewrite <- (fsum_Rsum (map snd w1)) in Q. exact Q.
Qed.

(* the disk rule normalised by _cylinder_quadrature_from_product: same nodes, positive weights that sum to PI *)
Lemma norm_disk_nodes (disk : list (R * R * R)) : map fst (norm_disk RO disk) = map fst disk.
Proof. unfold norm_disk. rewrite map_map. reflexivity. Qed.
Lemma Rsum3_pos (l : list (R * R * R)) : Forall (fun p => 0 < snd p) l -> l <> [] -> 0 < Rsum (map snd l).
Proof.
  induction l as [| a l IH]; [contradiction|]. intros Hw _. inversion Hw; subst.
  destruct l as [| b l]; [cbn; lra|].
  assert (0 < Rsum (map snd (b :: l))) by (apply IH; [assumption | discriminate]).
  change (0 < snd a + Rsum (map snd (b :: l))). lra.
Qed.
Lemma norm_disk_sum (disk : list (R * R * R)) :
  Forall (fun d => 0 < snd d) disk -> disk <> [] ->
  Forall (fun d => 0 < snd d) (norm_disk RO disk) /\ Rsum (map snd (norm_disk RO disk)) = PI.
Proof.
  intros Hw Hne. pose proof (Rsum3_pos disk Hw Hne) as Hs. pose proof PI_RGT_0 as Hpi.
  unfold norm_disk. cbv zeta. rewrite fsum_Rsum. ops.
  set (S := Rsum (map snd disk)) in *.
  split.
  - apply Forall_forall. intros d Hin. apply in_map_iff in Hin. destruct Hin as [p [<- Hp]].
    rewrite Forall_forall in Hw. cbn [snd]. apply Rmult_lt_0_compat; [exact (Hw _ Hp)|].
    apply Rdiv_lt_0_compat; assumption.
  - rewrite map_map. cbn [snd].
    rewrite (Rsum_map_ext _ (fun p : R * R * R => (PI / S) * snd p)) by (intro; ring).
    rewrite Rsum_map_scale. fold S. field. lra.
Qed.
Lemma norm_disk_nodes_ok (disk : list (R * R * R)) :
  Forall (fun d => fst (fst d) * fst (fst d) + snd (fst d) * snd (fst d) <= 1) disk ->
  Forall (fun d => fst (fst d) * fst (fst d) + snd (fst d) * snd (fst d) <= 1) (norm_disk RO disk).
Proof.
  intro H. unfold norm_disk. cbv zeta. apply Forall_forall. intros d Hin. apply in_map_iff in Hin.
  destruct Hin as [p [<- Hp]]. rewrite Forall_forall in H. cbn [fst]. exact (H _ Hp).
Qed.
Lemma norm_disk_nonempty (disk : list (R * R * R)) : disk <> [] -> norm_disk RO disk <> [].
Proof. destruct disk; [contradiction | discriminate]. Qed.

Theorem weights_positive md (c : cylinder RO) quad :
  0 < cy_r c -> 0 < cy_h c -> Forall (fun q => 0 < snd q) quad ->
  Forall (fun pw => 0 < snd pw) (quadrature RO md c quad).
Proof.
  intros Hr Hh Hq. unfold quadrature. apply Forall_forall. intros pw Hin.
  apply in_map_iff in Hin. destruct Hin as [q [<- Hin]]. rewrite Forall_forall in Hq. cbn [snd]. ops.
  apply Rmult_lt_0_compat; [exact (Hq _ Hin)|]. apply Rdiv_lt_0_compat; [|lra].
  apply Rmult_lt_0_compat; [apply Rmult_lt_0_compat|]; assumption.
Qed.

(* sum of the weights = (disk sum) (line sum) r^2 h / 2 *)
Theorem weights_sum md (c : cylinder RO) (disk : list (R * R * R)) (line : list (R * R)) :
  Rsum (map snd (quadrature RO md c (product_rule RO disk line)))
  = Rsum (map snd disk) * Rsum (map snd line) * (cy_r c * cy_r c * cy_h c / 2).
Proof.
  rewrite quadrature_weights.
  rewrite (Rsum_map_ext (fun q : vec RO * R => snd q * (cy_r c * cy_r c * cy_h c / 2))
                        (fun q : vec RO * R => (cy_r c * cy_r c * cy_h c / 2) * (snd q * (1 * 1)))) by (intro; cbv beta; ring).
  rewrite Rsum_map_scale.
  rewrite (sum_product_rule (fun _ _ => 1) (fun _ => 1)).
  rewrite (Rsum_map_ext (fun d : R * R * R => snd d * 1) snd) by (intro; cbv beta; ring).
  rewrite (Rsum_map_ext (fun l : R * R => snd l * 1) snd) by (intro; cbv beta; ring). apply Rmult_comm.
Qed.

Corollary weights_sum_volume md (c : cylinder RO) (disk : list (R * R * R)) (line : list (R * R)) :
  Rsum (map snd disk) = PI -> Rsum (map snd line) = 2 ->
  Rsum (map snd (quadrature RO md c (product_rule RO disk line))) = cyl_volume (cy_r c) (cy_h c).
Proof. intros Hd Hl. rewrite weights_sum, Hd, Hl. unfold cyl_volume. field. Qed.

(* _cylinder_quadrature_from_product normalises the disk weights: the placed weights sum to the volume
   for ANY positive disk table, whatever its rounding *)
Corollary weights_sum_volume_normalised md (c : cylinder RO) (disk : list (R * R * R)) (line : list (R * R)) :
  Forall (fun d => 0 < snd d) disk -> disk <> [] -> Rsum (map snd line) = 2 ->
  Rsum (map snd (quadrature RO md c (cyl_product_rule RO disk line))) = cyl_volume (cy_r c) (cy_h c).
Proof.
  intros Hw Hne Hl. unfold cyl_product_rule. apply weights_sum_volume; [|exact Hl].
  exact (proj2 (norm_disk_sum disk Hw Hne)).
Qed.

(* with the table sums only approximately pi and 2 *)
Corollary weights_sum_volume_approx md (c : cylinder RO) (disk : list (R * R * R)) (line : list (R * R)) ed el :
  0 <= cy_r c -> 0 <= cy_h c ->
  Rabs (Rsum (map snd disk) - PI) <= ed -> Rabs (Rsum (map snd line) - 2) <= el ->
  Rabs (Rsum (map snd (quadrature RO md c (product_rule RO disk line))) - cyl_volume (cy_r c) (cy_h c))
  <= (ed * (2 + el) + PI * el) * (cy_r c * cy_r c * cy_h c / 2).
Proof.
  intros Hr Hh Hd Hl. rewrite weights_sum. unfold cyl_volume.
  set (Sd := Rsum (map snd disk)) in *. set (Sl := Rsum (map snd line)) in *.
  set (k := cy_r c * cy_r c * cy_h c / 2).
  assert (Hk : 0 <= k) by (unfold k; apply Rmult_le_pos; [apply Rmult_le_pos; [nra | exact Hh] | lra]).
  replace (Sd * Sl * k - PI * cy_r c * cy_r c * cy_h c) with (((Sd - PI) * Sl + PI * (Sl - 2)) * k) by (unfold k; field).
  rewrite Rabs_mult, (Rabs_right k) by lra.
  apply Rmult_le_compat_r; [exact Hk|].
  eapply Rle_trans; [apply Rabs_triang|]. rewrite !Rabs_mult.
  pose proof PI_RGT_0. rewrite (Rabs_right PI) by lra.
  assert (Rabs Sl <= 2 + el).
  { replace Sl with (2 + (Sl - 2)) by ring. eapply Rle_trans; [apply Rabs_triang|]. rewrite (Rabs_right 2) by lra. lra. }
  pose proof (Rabs_pos (Sd - PI)). pose proof (Rabs_pos (Sl - 2)). pose proof (Rabs_pos Sl). nra.
Qed.

(* ---------------------------------------------------------------- moments *)
Lemma rot_cs_matrix (k : vec RO) c s : exists M, forall p, tov (rot_cs RO k c s p) = mulMv M (tov p).
Proof.
  destruct k as [k1 k2 k3].
  exists (m3 (c + k1 * k1 * (1 - c)) (- s * k3 + k1 * k2 * (1 - c)) (s * k2 + k1 * k3 * (1 - c))
             (s * k3 + k2 * k1 * (1 - c)) (c + k2 * k2 * (1 - c)) (- s * k1 + k2 * k3 * (1 - c))
             (- s * k2 + k3 * k1 * (1 - c)) (s * k1 + k3 * k2 * (1 - c)) (c + k3 * k3 * (1 - c))).
  intros [p1 p2 p3]. unfold rot_cs, mulMv. ops. cbn. f_equal; change (F RO) with R; ring.
Qed.
(* whatever the angle formula, the map applied to the rule is linear *)
Lemma axis_rotation_matrix md (a : vec RO) :
  exists M, forall p, tov (axis_rotation RO md a p) = mulMv M (tov p).
Proof.
  unfold axis_rotation. cbv zeta.
  match goal with |- context [if ?c then _ else _] => destruct c end.
  - unfold rotate_about. apply rot_cs_matrix.
  - exists (m3 1 0 0 0 1 0 0 0 1). intros [p1 p2 p3]. unfold mulMv. ops. cbn. f_equal; ring.
Qed.

Definition mom0 (quad : list (vec RO * R)) : R := Rsum (map snd quad).
Definition momx (quad : list (vec RO * R)) : R := Rsum (map (fun q : vec RO * R => snd q * vx (fst q)) quad).
Definition momy (quad : list (vec RO * R)) : R := Rsum (map (fun q : vec RO * R => snd q * vy (fst q)) quad).
Definition momz (quad : list (vec RO * R)) : R := Rsum (map (fun q : vec RO * R => snd q * vz (fst q)) quad).

Lemma sum_affine (quad : list (vec RO * R)) al be ga de ka :
  Rsum (map (fun q : vec RO * R => (snd q * ka) * (al * vx (fst q) + be * vy (fst q) + ga * vz (fst q) + de)) quad)
  = ka * (al * momx quad + be * momy quad + ga * momz quad + de * mom0 quad).
Proof.
  unfold momx, momy, momz, mom0. induction quad as [| q quad IH]; cbn [map Rsum]; [ring|].
  rewrite IH. ring.
Qed.

(* the placed point as an affine function of the rule point *)
Lemma placed_point_affine md (c : cylinder RO) :
  exists M, forall q : vec RO * R,
    let p := tov (fst q) in
    tov (vplus RO (axis_rotation RO md (cy_axis c)
                     (@mkvec RO (X p * cy_r c) (Y p * cy_r c) (Z p * cy_h c / 2))) (center RO c))
    = add3 (mulMv M (v3 (X p * cy_r c) (Y p * cy_r c) (Z p * cy_h c / 2))) (tov (center RO c)).
Proof.
  destruct (axis_rotation_matrix md (cy_axis c)) as [M HM]. exists M. intro q. cbv zeta.
  set (scq := @mkvec RO (X (tov (fst q)) * cy_r c) (Y (tov (fst q)) * cy_r c) (Z (tov (fst q)) * cy_h c / 2)).
  change (v3 (X (tov (fst q)) * cy_r c) (Y (tov (fst q)) * cy_r c) (Z (tov (fst q)) * cy_h c / 2)) with (tov scq).
  rewrite <- (HM scq). destruct (axis_rotation RO md (cy_axis c) scq), (center RO c). reflexivity.
Qed.

(* degree <= 1: the weighted sum of the points is (sum of weights) * centre *)
Theorem centroid_exact md (c : cylinder RO) (quad : list (vec RO * R)) :
  momx quad = 0 -> momy quad = 0 -> momz quad = 0 ->
  let pw := quadrature RO md c quad in
  Rsum (map (fun p : vec RO * R => snd p * X (tov (fst p))) pw) = X (tov (center RO c)) * Rsum (map snd pw) /\
  Rsum (map (fun p : vec RO * R => snd p * Y (tov (fst p))) pw) = Y (tov (center RO c)) * Rsum (map snd pw) /\
  Rsum (map (fun p : vec RO * R => snd p * Z (tov (fst p))) pw) = Z (tov (center RO c)) * Rsum (map snd pw).
Proof.
  intros Hx Hy Hz pw. unfold pw.
  destruct (placed_point_affine md c) as [M HM]. cbv zeta in HM.
  rewrite quadrature_weights. unfold quadrature. rewrite !map_map. cbn [fst snd].
  set (ka := cy_r c * cy_r c * cy_h c / 2).
  assert (S0 : Rsum (map (fun q : vec RO * R => snd q * ka) quad) = ka * mom0 quad).
  { unfold mom0. rewrite <- Rsum_map_scale. apply Rsum_map_ext. intro. ring. }
  rewrite S0.
  repeat split.
  - rewrite (Rsum_map_ext _ (fun q : vec RO * R => (snd q * ka) *
        (m11 M * cy_r c * vx (fst q) + m12 M * cy_r c * vy (fst q) + m13 M * (cy_h c / 2) * vz (fst q)
         + X (tov (center RO c))))).
    + rewrite sum_affine, Hx, Hy, Hz. ring.
    + intro q. cbv beta. apply (f_equal2 Rmult); [reflexivity|].
      etransitivity; [exact (f_equal X (HM q))|]. unfold add3, mulMv. cbn [X Y Z tov]. unfold Rdiv. ring.
  - rewrite (Rsum_map_ext _ (fun q : vec RO * R => (snd q * ka) *
        (m21 M * cy_r c * vx (fst q) + m22 M * cy_r c * vy (fst q) + m23 M * (cy_h c / 2) * vz (fst q)
         + Y (tov (center RO c))))).
    + rewrite sum_affine, Hx, Hy, Hz. ring.
    + intro q. cbv beta. apply (f_equal2 Rmult); [reflexivity|].
      etransitivity; [exact (f_equal Y (HM q))|]. unfold add3, mulMv. cbn [X Y Z tov]. unfold Rdiv. ring.
  - rewrite (Rsum_map_ext _ (fun q : vec RO * R => (snd q * ka) *
        (m31 M * cy_r c * vx (fst q) + m32 M * cy_r c * vy (fst q) + m33 M * (cy_h c / 2) * vz (fst q)
         + Z (tov (center RO c))))).
    + rewrite sum_affine, Hx, Hy, Hz. ring.
    + intro q. cbv beta. apply (f_equal2 Rmult); [reflexivity|].
      etransitivity; [exact (f_equal Z (HM q))|]. unfold add3, mulMv. cbn [X Y Z tov]. unfold Rdiv. ring.
Qed.

(* the coordinate of a placed point along the axis, measured from the centre (atan2 angle) *)
Lemma axial_coordinate (c : cylinder RO) :
  wf_cyl c -> axis_admissible (cy_axis c) ->
  exists sg, sg * sg = 1 /\ forall q : vec RO * R,
    dot3 (sub3 (tov (vplus RO (axis_rotation RO AngAtan2 (cy_axis c)
                                 (@mkvec RO (vx (fst q) * cy_r c) (vy (fst q) * cy_r c) (vz (fst q) * cy_h c / 2)))
                              (center RO c)))
               (tov (center RO c))) (tov (cy_axis c))
    = sg * (vz (fst q) * cy_h c / 2).
Proof.
  intros [Ha [Hr Hh]] Hadm.
  destruct (axis_rotation_cases (cy_axis c) Ha Hadm) as [k1 [k2 [k3 [cc [s [sg [Hk [Hcs [Hsg [Hf Hz]]]]]]]]]].
  exists sg. split; [exact Hsg|]. intro q. rewrite Hf.
  set (sq0 := @mkvec RO (vx (fst q) * cy_r c) (vy (fst q) * cy_r c) (vz (fst q) * cy_h c / 2)).
  set (Rot := rot_cs RO (@mkvec RO k1 k2 k3) cc s) in *.
  assert (F1 : dot RO (Rot sq0) (Rot (zhat RO)) = vz (fst q) * cy_h c / 2).
  { unfold Rot. rewrite (rot_cs_dot k1 k2 k3 cc s Hk Hcs). unfold sq0, zhat. ops. ring. }
  destruct (cy_axis c) as [a1 a2 a3]. destruct (center RO c) as [o1 o2 o3].
  destruct (Rot sq0) as [g1 g2 g3]. destruct (Rot (zhat RO)) as [e1 e2 e3].
  injection Hz as Z1 Z2 Z3. revert F1 Z1 Z2 Z3. ops. intros F1 Z1 Z2 Z3.
  assert (A1 : a1 = sg * e1) by (rewrite Z1, <- Rmult_assoc, Hsg; ring).
  assert (A2 : a2 = sg * e2) by (rewrite Z2, <- Rmult_assoc, Hsg; ring).
  assert (A3 : a3 = sg * e3) by (rewrite Z3, <- Rmult_assoc, Hsg; ring).
  rewrite A1, A2, A3, <- F1. ring.
Qed.

Definition momz2 (quad : list (vec RO * R)) : R := Rsum (map (fun q : vec RO * R => snd q * (vz (fst q) * vz (fst q))) quad).
Definition momz3 (quad : list (vec RO * R)) : R :=
  Rsum (map (fun q : vec RO * R => snd q * (vz (fst q) * vz (fst q) * vz (fst q))) quad).

(* degree 2 and 3 along the axis: the cylinder's axial moments are (h/2)^k times the rule's *)
Theorem axial_moments (c : cylinder RO) (quad : list (vec RO * R)) :
  wf_cyl c -> axis_admissible (cy_axis c) ->
  let pw := quadrature RO AngAtan2 c quad in
  let ax := fun p : vec RO * R => dot3 (sub3 (tov (fst p)) (tov (center RO c))) (tov (cy_axis c)) in
  let ka := cy_r c * cy_r c * cy_h c / 2 in
  exists sg, sg * sg = 1 /\
    Rsum (map (fun p => snd p * (ax p * ax p)) pw) = ka * (cy_h c / 2) * (cy_h c / 2) * momz2 quad /\
    Rsum (map (fun p => snd p * (ax p * ax p * ax p)) pw)
      = sg * ka * (cy_h c / 2) * (cy_h c / 2) * (cy_h c / 2) * momz3 quad.
Proof.
  intros Hc Hadm pw ax ka.
  destruct (axial_coordinate c Hc Hadm) as [sg [Hsg Hax]].
  exists sg. split; [exact Hsg|]. unfold pw, quadrature, momz2, momz3. rewrite !map_map. split.
  - rewrite <- Rsum_map_scale. apply Rsum_map_ext. intro q. unfold ax. cbn [fst snd].
    etransitivity; [apply (f_equal2 Rmult); [reflexivity | apply (f_equal2 Rmult); exact (Hax q)] |].
    change (fmul RO (snd q) (fdiv RO (fmul RO (sq RO (cy_r c)) (cy_h c)) f2)) with (snd q * ka).
    unfold ka, Rdiv. change (F RO) with R in *. generalize (/ 2) (snd q) (vz (fst q)) (cy_r c) (cy_h c). clear - Hsg. intros. nsatz.
  - rewrite <- Rsum_map_scale. apply Rsum_map_ext. intro q. unfold ax. cbn [fst snd].
    etransitivity; [apply (f_equal2 Rmult); [reflexivity | apply (f_equal2 Rmult); [apply (f_equal2 Rmult)|]; exact (Hax q)] |].
    change (fmul RO (snd q) (fdiv RO (fmul RO (sq RO (cy_r c)) (cy_h c)) f2)) with (snd q * ka).
    unfold ka, Rdiv. change (F RO) with R in *. generalize (/ 2) (snd q) (vz (fst q)) (cy_r c) (cy_h c). clear - Hsg. intros. nsatz.
Qed.
