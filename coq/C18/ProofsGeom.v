(* C18/ProofsGeom.v — the model's intersection intervals are exactly the parameter set of the
   ray inside the solid (over R). *)
From Coq Require Import Reals Lra Psatz Nsatz Bool.
From Verif.Sem Require Import Field RInst.
From Verif.C18 Require Import Model Spec ProofsScalar.
Open Scope R_scope.

Definition RO : Fops := ROps 1 1.
Definition tov (v : vec RO) : V3 := v3 (vx v) (vy v) (vz v).
Definition ofv (v : V3) : vec RO := mkvec (X v : F RO) (Y v) (Z v).

(* l <= t and t <= r for the model's extended values *)
Definition ext_le_t (l : ext RO) (t : R) : Prop :=
  match l with NInf => True | Fin x => x <= t | _ => False end.
Definition t_le_ext (t : R) (r : ext RO) : Prop :=
  match r with PInf => True | Fin x => t <= x | _ => False end.

Lemma Rleb_iff a b : Rleb a b = true <-> a <= b.
Proof. unfold Rleb. destruct (Rle_dec a b); split; intros; auto; discriminate. Qed.
Lemma Reqb_iff a b : Reqb a b = true <-> a = b.
Proof. unfold Reqb. destruct (Req_EM_T a b); split; intros; auto; discriminate. Qed.
Lemma Reqb_false_iff a b : Reqb a b = false <-> a <> b.
Proof. unfold Reqb. destruct (Req_EM_T a b); split; intros; auto; try discriminate; contradiction. Qed.

Lemma sumsq_nonneg x y z : 0 <= x * x + y * y + z * z.
Proof. pose proof (Rle_0_sqr x); pose proof (Rle_0_sqr y); pose proof (Rle_0_sqr z). unfold Rsqr in *. lra. Qed.

Ltac ops :=
  cbv [RO ROps F fadd fsub fmul fdiv fopp fofZ fsqrt fsin fcos fatan2 fasin fexp fabs fpi fleb fltb feqb
       f0 f1 f2 sq vx vy vz dot cross norm vplus vminus vopp smul sdiv tov
       X Y Z add3 sub3 scale3 dot3 norm3 unit3] in *.

(* ---------------------------------------------------------------- polynomial identities *)
Section Identities.
Variables a1 a2 a3 b1 b2 b3 n1 n2 n3 r t : R.
Let u1 := n2 * a3 - n3 * a2. Let u2 := n3 * a1 - n1 * a3. Let u3 := n1 * a2 - n2 * a1.
Let N := u1 * u1 + u2 * u2 + u3 * u3.
Let v1 := b2 * a3 - b3 * a2. Let v2 := b3 * a1 - b1 * a3. Let v3 := b1 * a2 - b2 * a1.
Let m := u1 * v1 + u2 * v2 + u3 * v3.
Let C := v1 * v1 + v2 * v2 + v3 * v3.
Let ba := b1 * a1 + b2 * a2 + b3 * a3.
Let da := (t * n1 - b1) * a1 + (t * n2 - b2) * a2 + (t * n3 - b3) * a3.
Hypothesis Ha : a1 * a1 + a2 * a2 + a3 * a3 = 1.
(* squared distance of the point t n - b from the axis: a quadratic in t *)
Lemma geom_I1 :
  (t * n1 - b1 - da * a1) * (t * n1 - b1 - da * a1) + (t * n2 - b2 - da * a2) * (t * n2 - b2 - da * a2)
  + (t * n3 - b3 - da * a3) * (t * n3 - b3 - da * a3) = N * (t * t) - 2 * m * t + C.
Proof using Ha. unfold N, m, C, da, u1, u2, u3, v1, v2, v3. nsatz. Qed.
(* the code's s2 is the reduced discriminant of that quadratic minus r^2 *)
Lemma geom_I2 :
  N * (r * r) - (b1 * u1 + b2 * u2 + b3 * u3) * (b1 * u1 + b2 * u2 + b3 * u3) = m * m - N * (C - r * r).
Proof using Ha. unfold N, m, C, u1, u2, u3, v1, v2, v3. nsatz. Qed.
Lemma geom_I3 :
  (b1 - ba * a1) * (b1 - ba * a1) + (b2 - ba * a2) * (b2 - ba * a2) + (b3 - ba * a3) * (b3 - ba * a3) = C.
Proof using Ha. unfold C, ba, v1, v2, v3. nsatz. Qed.
(* Lagrange: |n x a|^2 = |n|^2 |a|^2 - (n.a)^2 *)
Lemma geom_lagrange :
  N = (n1 * n1 + n2 * n2 + n3 * n3) * (a1 * a1 + a2 * a2 + a3 * a3)
      - (n1 * a1 + n2 * a2 + n3 * a3) * (n1 * a1 + n2 * a2 + n3 * a3).
Proof using. unfold N, u1, u2, u3. ring. Qed.
End Identities.

(* ---------------------------------------------------------------- infinite cylinder *)
Lemma line_cyl_spec (a b n : vec RO) r t :
  unit3 (tov a) -> 0 <= r ->
  let d := sub3 (scale3 t (tov n)) (tov b) in
  let res := line_cyl RO a b r n in
  (norm3 (sub3 d (scale3 (dot3 d (tov a)) (tov a))) <= r
   <-> fst (fst res) = true /\ ext_le_t (snd (fst res)) t /\ t_le_ext t (snd res)).
Proof.
  destruct a as [a1 a2 a3], b as [b1 b2 b3], n as [n1 n2 n3].
  intros Ha Hr. unfold line_cyl. ops. cbv zeta.
  set (u1 := n2 * a3 - n3 * a2). set (u2 := n3 * a1 - n1 * a3). set (u3 := n1 * a2 - n2 * a1).
  set (N := u1 * u1 + u2 * u2 + u3 * u3).
  set (v1 := b2 * a3 - b3 * a2). set (v2 := b3 * a1 - b1 * a3). set (v3 := b1 * a2 - b2 * a1).
  set (m := u1 * v1 + u2 * v2 + u3 * v3).
  set (C := v1 * v1 + v2 * v2 + v3 * v3).
  set (s2 := N * (r * r) - (b1 * u1 + b2 * u2 + b3 * u3) * (b1 * u1 + b2 * u2 + b3 * u3)).
  set (ba := b1 * a1 + b2 * a2 + b3 * a3).
  set (da := (t * n1 - b1) * a1 + (t * n2 - b2) * a2 + (t * n3 - b3) * a3).
  match goal with |- sqrt ?W <= r <-> _ => set (W0 := W) end.
  assert (I1 : W0 = N * (t * t) - 2 * m * t + C)
    by (exact (geom_I1 a1 a2 a3 b1 b2 b3 n1 n2 n3 t Ha)).
  assert (I2 : s2 = m * m - N * (C - r * r))
    by (exact (geom_I2 a1 a2 a3 b1 b2 b3 n1 n2 n3 r Ha)).
  assert (W0pos : 0 <= W0) by (apply sumsq_nonneg).
  rewrite (sqrt_le_iff W0 r W0pos Hr), I1.
  destruct (Reqb N 0) eqn:EN; cbn [fst snd ext_le_t t_le_ext].
  - (* the line is parallel to the axis *)
    apply Reqb_iff in EN.
    destruct (sum_sq3_zero u1 u2 u3 EN) as [U1 [U2 U3]].
    assert (m0 : m = 0) by (unfold m; rewrite U1, U2, U3; ring).
    match goal with |- _ <-> Rleb (sqrt ?W) r = true /\ _ => set (W1 := W) end.
    assert (I3 : W1 = C) by (exact (geom_I3 a1 a2 a3 b1 b2 b3 Ha)).
    assert (W1pos : 0 <= W1) by (apply sumsq_nonneg).
    rewrite Rleb_iff, (sqrt_le_iff W1 r W1pos Hr), I3, EN, m0.
    split; [intro; split; [lra | tauto] | intros [H _]; lra].
  - apply Reqb_false_iff in EN.
    assert (Npos : 0 < N) by (unfold N in *; nra).
    rewrite Rleb_iff, I2.
    pose proof (quad_interval N m (C - r * r) t Npos) as Q.
    split.
    + intro H. apply Q. lra.
    + intro H. apply Q in H. lra.
Qed.

(* ---------------------------------------------------------------- slab *)
Lemma slab_scalar na ba h t : 0 <= h -> na <> 0 ->
  let t0 := ba / na in
  let t1 := t0 + h / na in
  (0 <= t * na - ba <= h
   <-> (if Rleb t0 t1 then t0 else t1) <= t /\ t <= (if Rleb t0 t1 then t1 else t0)).
Proof.
  intros Hh Hna t0 t1.
  set (x := t - t0). set (y := h / na).
  assert (E1 : t * na - ba = x * na) by (unfold x, t0; field; exact Hna).
  assert (E2 : h = y * na) by (unfold y; field; exact Hna).
  assert (E3 : t1 = t0 + y) by reflexivity.
  rewrite E1. rewrite E2 at 1.
  destruct (Rtotal_order na 0) as [Hn | [Hn | Hn]]; [| contradiction |].
  - (* na < 0 : y <= 0, t1 <= t0 *)
    assert (Hy : y <= 0).
    { unfold y, Rdiv. assert (/ na < 0) by (apply Rinv_lt_0_compat; exact Hn). nra. }
    unfold Rleb. destruct (Rle_dec t0 t1) as [L | L].
    + assert (y = 0) by lra. unfold x. split; intros; nra.
    + unfold x. split; intros; nra.
  - assert (Hy : 0 <= y).
    { unfold y, Rdiv. assert (0 < / na) by (apply Rinv_0_lt_compat; exact Hn). nra. }
    unfold Rleb. destruct (Rle_dec t0 t1) as [L | L]; [| lra].
    unfold x. split; intros; nra.
Qed.

Lemma line_slab_spec (a b n : vec RO) h t :
  0 <= h ->
  let d := sub3 (scale3 t (tov n)) (tov b) in
  let res := line_slab RO a b h n in
  (0 <= dot3 d (tov a) <= h
   <-> fst (fst res) = true /\ ext_le_t (snd (fst res)) t /\ t_le_ext t (snd res)).
Proof.
  destruct a as [a1 a2 a3], b as [b1 b2 b3], n as [n1 n2 n3].
  intros Hh. unfold line_slab, e_minimum, e_maximum, ext_leb. ops. cbv zeta.
  set (na := n1 * a1 + n2 * a2 + n3 * a3).
  set (ba := b1 * a1 + b2 * a2 + b3 * a3).
  replace ((t * n1 - b1) * a1 + (t * n2 - b2) * a2 + (t * n3 - b3) * a3) with (t * na - ba)
    by (unfold na, ba; ring).
  destruct (Reqb (Rabs na) 0) eqn:EN; cbn [fst snd ext_le_t t_le_ext negb].
  - apply Reqb_iff in EN.
    assert (na0 : na = 0).
    { destruct (Req_dec na 0) as [E | E]; [exact E|]. apply Rabs_no_R0 in E. contradiction. }
    rewrite na0, orb_false_r, andb_true_iff, !Rleb_iff. split; intros; [split; [split|]|]; try tauto; lra.
  - apply Reqb_false_iff in EN.
    assert (na0 : na <> 0) by (intro E; apply EN; rewrite E; apply Rabs_R0).
    rewrite orb_true_r.
    pose proof (slab_scalar na ba h t Hh na0) as Q. cbv zeta in Q.
    destruct (Rleb (ba / na) (ba / na + h / na)); cbn [ext_le_t t_le_ext]; tauto.
Qed.

(* ---------------------------------------------------------------- extended min / max *)
Definition lowerlike (x : ext RO) : Prop := match x with NInf | Fin _ => True | _ => False end.
Definition upperlike (x : ext RO) : Prop := match x with PInf | Fin _ => True | _ => False end.

Lemma emax_le x y t : lowerlike x -> lowerlike y ->
  (ext_le_t (e_maximum RO x y) t <-> ext_le_t x t /\ ext_le_t y t).
Proof.
  destruct x as [| x | |], y as [| y | |]; cbn; try tauto.
  intros _ _. unfold e_maximum, ext_leb. change (fleb RO y x) with (Rleb y x). unfold Rleb.
  destruct (Rle_dec y x); cbn; intuition lra.
Qed.
Lemma emin_le x y t : upperlike x -> upperlike y ->
  (t_le_ext t (e_minimum RO x y) <-> t_le_ext t x /\ t_le_ext t y).
Proof.
  destruct x as [| x | |], y as [| y | |]; cbn; try tauto.
  intros _ _. unfold e_minimum, ext_leb. change (fleb RO x y) with (Rleb x y). unfold Rleb.
  destruct (Rle_dec x y); cbn; intuition lra.
Qed.

Lemma line_cyl_shape a b r n :
  lowerlike (snd (fst (line_cyl RO a b r n))) /\ upperlike (snd (line_cyl RO a b r n)).
Proof.
  unfold line_cyl. cbv zeta. cbn [fst snd].
  match goal with |- context [if ?c then NInf else _] => destruct c end; cbn; tauto.
Qed.
Lemma line_slab_shape a b h n :
  lowerlike (snd (fst (line_slab RO a b h n))) /\ upperlike (snd (line_slab RO a b h n)).
Proof.
  unfold line_slab, e_minimum, e_maximum, ext_leb. cbv zeta. cbn [fst snd].
  match goal with |- context [if ?c then NInf else _] => destruct c end; cbn; [tauto|].
  match goal with |- context [if ?c then Fin _ else _] => destruct c end; cbn; tauto.
Qed.

(* ---------------------------------------------------------------- the ray inside the solid *)
Definition wf_cyl (c : cylinder RO) : Prop :=
  unit3 (tov (cy_axis c)) /\ 0 <= cy_r c /\ 0 <= cy_h c.

Lemma ray_rel (s n base : vec RO) t :
  sub3 (ray (tov s) (tov n) t) (tov base) = sub3 (scale3 t (tov n)) (tov (vminus RO base s)).
Proof. destruct s, n, base. unfold ray. ops. f_equal; ring. Qed.

Theorem ray_inside_iff_interval (c : cylinder RO) (s n : vec RO) (t : R) :
  wf_cyl c ->
  let b := vminus RO (cy_base c) s in
  let rc := line_cyl RO (cy_axis c) b (cy_r c) n in
  let rs := line_slab RO (cy_axis c) b (cy_h c) n in
  (inside (tov (cy_axis c)) (tov (cy_base c)) (cy_r c) (cy_h c) (ray (tov s) (tov n) t)
   <-> fst (fst rc) = true /\ fst (fst rs) = true
       /\ ext_le_t (e_maximum RO (snd (fst rs)) (snd (fst rc))) t
       /\ t_le_ext t (e_minimum RO (snd rs) (snd rc))).
Proof.
  intros [Ha [Hr Hh]] b rc rs. unfold inside. cbv zeta. rewrite ray_rel. fold b.
  pose proof (line_cyl_spec (cy_axis c) b n (cy_r c) t Ha Hr) as Qc. cbv zeta in Qc. fold rc in Qc.
  pose proof (line_slab_spec (cy_axis c) b n (cy_h c) t Hh) as Qs. cbv zeta in Qs. fold rs in Qs.
  destruct (line_cyl_shape (cy_axis c) b (cy_r c) n) as [Lc Uc]. fold rc in Lc, Uc.
  destruct (line_slab_shape (cy_axis c) b (cy_h c) n) as [Ls Us]. fold rs in Ls, Us.
  rewrite (emax_le _ _ t Ls Lc), (emin_le _ _ t Us Uc), Qc, Qs. tauto.
Qed.

(* ---------------------------------------------------------------- path length *)
Lemma e_max0_fin v : e_max0 RO (Fin v) = @Fin RO (Rmax 0 v).
Proof.
  unfold e_max0, e_maximum, ext_leb. change (fleb RO f0 v) with (Rleb 0 v).
  unfold Rleb, Rmax. destruct (Rle_dec 0 v); reflexivity.
Qed.

Lemma pos_interval_fin sl sr cl cr lo hi :
  e_maximum RO sl cl = Fin lo -> e_minimum RO sr cr = Fin hi ->
  pos_interval_intersection RO sl sr cl cr = @Fin RO (Rmax 0 (Rmax 0 hi - Rmax 0 lo)).
Proof.
  intros E1 E2. unfold pos_interval_intersection. rewrite E1, E2, !e_max0_fin.
  cbn [e_sub]. rewrite e_max0_fin. reflexivity.
Qed.

(* for unit axis and unit direction the line cannot be parallel to the axis and to the end planes *)
Lemma finite_ends (a b n : vec RO) r h :
  unit3 (tov a) -> unit3 (tov n) ->
  exists lo hi,
    e_maximum RO (snd (fst (line_slab RO a b h n))) (snd (fst (line_cyl RO a b r n))) = Fin lo /\
    e_minimum RO (snd (line_slab RO a b h n)) (snd (line_cyl RO a b r n)) = Fin hi.
Proof.
  destruct a as [a1 a2 a3], b as [b1 b2 b3], n as [n1 n2 n3]. intros Ha Hn.
  unfold line_cyl, line_slab. cbv zeta. cbn [fst snd].
  match goal with |- context [if ?c then NInf else Fin _] => destruct c eqn:Ec end;
  match goal with |- context [if ?c then NInf else e_minimum _ _ _] => destruct c eqn:Es end.
  - exfalso. revert Ec Es. ops. intros Ec Es. apply Reqb_iff in Ec, Es.
    rewrite (geom_lagrange a1 a2 a3 n1 n2 n3), Ha, Hn in Ec.
    set (na := n1 * a1 + n2 * a2 + n3 * a3) in *.
    assert (na = 0).
    { destruct (Req_dec na 0) as [E | E]; [exact E|]. apply Rabs_no_R0 in E. contradiction. }
    nra.
  - unfold e_minimum, e_maximum, ext_leb.
    cbv beta iota;
      repeat (match goal with |- context [fleb RO ?x ?y] => destruct (fleb RO x y) end; cbv beta iota);
      eexists; eexists; split; reflexivity.
  - unfold e_minimum, e_maximum, ext_leb.
    cbv beta iota;
      repeat (match goal with |- context [fleb RO ?x ?y] => destruct (fleb RO x y) end; cbv beta iota);
      eexists; eexists; split; reflexivity.
  - unfold e_minimum, e_maximum, ext_leb.
    cbv beta iota;
      repeat (match goal with |- context [fleb RO ?x ?y] => destruct (fleb RO x y) end; cbv beta iota);
      eexists; eexists; split; reflexivity.
Qed.

Theorem path_length_is_measure (c : cylinder RO) (s n : vec RO) :
  wf_cyl c -> unit3 (tov n) ->
  exists L, beam_intersection RO c s n = @Fin RO L /\ 0 <= L /\
    segment_length
      (fun t => 0 <= t /\ inside (tov (cy_axis c)) (tov (cy_base c)) (cy_r c) (cy_h c) (ray (tov s) (tov n) t)) L.
Proof.
  intros Hc Hn. pose proof Hc as [Ha [Hr Hh]].
  pose proof (fun t => ray_inside_iff_interval c s n t Hc) as Q. cbv zeta in Q.
  unfold beam_intersection.
  set (b := vminus RO (cy_base c) s) in *.
  destruct (finite_ends (cy_axis c) b n (cy_r c) (cy_h c) Ha Hn) as [lo [hi [E1 E2]]].
  destruct (line_cyl RO (cy_axis c) b (cy_r c) n) as [[ci cl] cr].
  destruct (line_slab RO (cy_axis c) b (cy_h c) n) as [[si sl] sr].
  cbn [fst snd] in *.
  destruct (ci && si) eqn:Eflag.
  - apply andb_true_iff in Eflag. destruct Eflag as [-> ->].
    rewrite (pos_interval_fin sl sr cl cr lo hi E1 E2).
    eexists. split; [reflexivity|]. split; [apply Rmax_l|].
    eapply segment_length_ext; [| apply (clipped_segment_length lo hi)].
    intro t. cbv beta. rewrite Q, E1, E2. cbn [ext_le_t t_le_ext]. tauto.
  - exists 0. split; [reflexivity|]. split; [lra|].
    apply segment_length_empty. intros t [_ H]. apply Q in H. destruct H as [H1 [H2 _]].
    rewrite H1, H2 in Eflag. discriminate.
Qed.
