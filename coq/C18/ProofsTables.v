(* C18/ProofsTables.v — lifting finite facts about rational tables (checked by vm_compute on the
   tables REGENERATED from the source each run) to the real-number hypotheses of ProofsQuad. *)
From Coq Require Import Reals QArith Qreals Lra List Bool.
From Verif.C18 Require Import Spec.
Import ListNotations.

Definition toR3 (d : Q * Q * Q) : R * R * R := (Q2R (fst (fst d)), Q2R (snd (fst d)), Q2R (snd d)).
Definition toR2 (d : Q * Q) : R * R := (Q2R (fst d), Q2R (snd d)).

Definition Qltb (a b : Q) : bool := negb (Qle_bool b a).
Lemma Qltb_lt a b : Qltb a b = true -> (a < b)%Q.
Proof.
  unfold Qltb. intro H. apply negb_true_iff in H. apply Qnot_le_lt. intro L.
  apply Qle_bool_iff in L. rewrite L in H. discriminate.
Qed.

Definition disk_nodes_ok (t : list (Q * Q * Q)) : bool :=
  forallb (fun d => Qle_bool (fst (fst d) * fst (fst d) + snd (fst d) * snd (fst d)) 1) t.
Definition disk_w_pos (t : list (Q * Q * Q)) : bool := forallb (fun d => Qltb 0 (snd d)) t.
Definition line_nodes_ok (t : list (Q * Q)) : bool :=
  forallb (fun d => Qle_bool (-1) (fst d) && Qle_bool (fst d) 1) t.
Definition line_nodes_strict (t : list (Q * Q)) : bool :=
  forallb (fun d => Qltb (-1) (fst d) && Qltb (fst d) 1) t.
Definition line_w_pos (t : list (Q * Q)) : bool := forallb (fun d => Qltb 0 (snd d)) t.
Fixpoint qsum (l : list Q) : Q := match l with [] => 0%Q | x :: l' => (x + qsum l')%Q end.

Open Scope R_scope.
Lemma Q2R_1 : Q2R 1 = 1.
Proof. unfold Q2R. cbn. lra. Qed.
Lemma Q2R_0 : Q2R 0 = 0.
Proof. unfold Q2R. cbn. lra. Qed.
Lemma Q2R_m1 : Q2R (-1) = -1.
Proof. unfold Q2R. cbn. lra. Qed.

Lemma lift_disk_nodes t : disk_nodes_ok t = true ->
  Forall (fun d : R * R * R => fst (fst d) * fst (fst d) + snd (fst d) * snd (fst d) <= 1) (map toR3 t).
Proof.
  unfold disk_nodes_ok. rewrite forallb_forall. intro H. apply Forall_forall. intros d Hin.
  apply in_map_iff in Hin. destruct Hin as [q [<- Hq]]. specialize (H q Hq).
  apply Qle_bool_iff, Qle_Rle in H. rewrite Q2R_plus, !Q2R_mult, Q2R_1 in H. exact H.
Qed.
Lemma lift_disk_w_pos t : disk_w_pos t = true -> Forall (fun d : R * R * R => 0 < snd d) (map toR3 t).
Proof.
  unfold disk_w_pos. rewrite forallb_forall. intro H. apply Forall_forall. intros d Hin.
  apply in_map_iff in Hin. destruct Hin as [q [<- Hq]]. specialize (H q Hq).
  apply Qltb_lt, Qlt_Rlt in H. rewrite Q2R_0 in H. exact H.
Qed.
Lemma lift_line_nodes t : line_nodes_ok t = true -> Forall (fun l : R * R => -1 <= fst l <= 1) (map toR2 t).
Proof.
  unfold line_nodes_ok. rewrite forallb_forall. intro H. apply Forall_forall. intros d Hin.
  apply in_map_iff in Hin. destruct Hin as [q [<- Hq]]. specialize (H q Hq).
  apply andb_true_iff in H. destruct H as [H1 H2].
  apply Qle_bool_iff, Qle_Rle in H1. apply Qle_bool_iff, Qle_Rle in H2.
  rewrite Q2R_m1 in H1. rewrite Q2R_1 in H2. cbn [toR2 fst]. lra.
Qed.
Lemma lift_line_strict t : line_nodes_strict t = true -> line_w_pos t = true ->
  Forall (fun l : R * R => 0 < snd l /\ -1 < fst l < 1) (map toR2 t).
Proof.
  unfold line_nodes_strict, line_w_pos. rewrite !forallb_forall. intros H W. apply Forall_forall. intros d Hin.
  apply in_map_iff in Hin. destruct Hin as [q [<- Hq]]. specialize (H q Hq). specialize (W q Hq).
  apply andb_true_iff in H. destruct H as [H1 H2].
  apply Qltb_lt, Qlt_Rlt in H1. apply Qltb_lt, Qlt_Rlt in H2. apply Qltb_lt, Qlt_Rlt in W.
  rewrite Q2R_m1 in H1. rewrite Q2R_1 in H2. rewrite Q2R_0 in W. cbn [toR2 fst snd]. lra.
Qed.
Lemma lift_line_w_pos t : line_w_pos t = true -> Forall (fun l : R * R => 0 < snd l) (map toR2 t).
Proof.
  unfold line_w_pos. rewrite forallb_forall. intro H. apply Forall_forall. intros d Hin.
  apply in_map_iff in Hin. destruct Hin as [q [<- Hq]]. specialize (H q Hq).
  apply Qltb_lt, Qlt_Rlt in H. rewrite Q2R_0 in H. exact H.
Qed.
Lemma lift_sum3 t : Rsum (map snd (map toR3 t)) = Q2R (qsum (map snd t)).
Proof. induction t as [| d t IH]; cbn; [rewrite Q2R_0; reflexivity | rewrite Q2R_plus, <- IH; reflexivity]. Qed.
Lemma lift_sum2 t : Rsum (map snd (map toR2 t)) = Q2R (qsum (map snd t)).
Proof. induction t as [| d t IH]; cbn; [rewrite Q2R_0; reflexivity | rewrite Q2R_plus, <- IH; reflexivity]. Qed.
Lemma nonempty_map {A B} (f : A -> B) (l : list A) : l <> [] -> map f l <> [].
Proof. destruct l; [contradiction | discriminate]. Qed.

(* |s - c| <= e, decided on rationals, lifted to the reals *)
Definition qnear (s c e : Q) : bool := Qle_bool (c - e) s && Qle_bool s (c + e).
Lemma lift_qnear s c e : qnear s c e = true -> Rabs (Q2R s - Q2R c) <= Q2R e.
Proof.
  unfold qnear. intro H. apply andb_true_iff in H. destruct H as [H1 H2].
  apply Qle_bool_iff, Qle_Rle in H1. apply Qle_bool_iff, Qle_Rle in H2.
  rewrite Q2R_minus in H1. rewrite Q2R_plus in H2.
  apply Rabs_le. lra.
Qed.
Lemma Q2R_2 : Q2R 2 = 2.
Proof. unfold Q2R. cbn. lra. Qed.
Lemma Rabs_le_inv' a b : Rabs a <= b -> - b <= a <= b.
Proof. unfold Rabs. destruct (Rcase_abs a); lra. Qed.
