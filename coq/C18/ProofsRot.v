(* C18/ProofsRot.v — the rotation Cylinder.quadrature applies to the z-aligned rule.
   With the angle atan2(|z x a|, z.a) it is orthogonal and maps z-hat to the axis a, for EVERY
   unit axis; with the angle asin(|z x a|) it maps z-hat to (a_x, a_y, |a_z|) (refuted below). *)
From Coq Require Import Reals Lra Psatz Nsatz Bool.
From Verif.Sem Require Import Field RInst.
From Verif.C18 Require Import Model Spec ProofsScalar ProofsGeom.
Open Scope R_scope.

(* ---------------------------------------------------------------- atan2 on the unit circle *)
Lemma sqrt_1_plus_sq y x : x <> 0 -> x * x + y * y = 1 -> sqrt (1 + (y / x)²) = / Rabs x.
Proof.
  intros Hx H.
  assert (Hax : 0 < Rabs x) by (apply Rabs_pos_lt; exact Hx).
  assert (E : 1 + (y / x)² = (/ Rabs x)²).
  { unfold Rsqr. assert (Rabs x * Rabs x = x * x) by (unfold Rabs; destruct (Rcase_abs x); ring).
    replace (/ Rabs x * / Rabs x) with (/ (x * x)) by (rewrite <- H0; field; lra).
    transitivity ((x * x + y * y) / (x * x)); [field; exact Hx | rewrite H; field; exact Hx]. }
  rewrite E. apply sqrt_Rsqr. left. apply Rinv_0_lt_compat. exact Hax.
Qed.

Lemma atan2_cos_sin y x : x * x + y * y = 1 ->
  cos (atan2 y x) = x /\ sin (atan2 y x) = y.
Proof.
  intro H. unfold atan2.
  destruct (Rlt_dec 0 x) as [Hx | Hx].
  - rewrite cos_atan, sin_atan, (sqrt_1_plus_sq y x) by (lra || assumption).
    rewrite Rabs_right by lra. split; field; lra.
  - destruct (Rlt_dec x 0) as [Hx' | Hx'].
    + assert (Hax : Rabs x = - x) by (apply Rabs_left; exact Hx').
      destruct (Rle_dec 0 y).
      * rewrite neg_cos, neg_sin, cos_atan, sin_atan, (sqrt_1_plus_sq y x) by (lra || assumption).
        rewrite Hax. split; field; lra.
      * unfold Rminus. rewrite cos_plus, sin_plus, cos_neg, sin_neg, cos_PI, sin_PI.
        rewrite cos_atan, sin_atan, (sqrt_1_plus_sq y x) by (lra || assumption).
        rewrite Hax. split; field; lra.
    + assert (x = 0) by lra. subst x.
      destruct (Rlt_dec 0 y).
      * rewrite cos_PI2, sin_PI2. split; nra.
      * destruct (Rlt_dec y 0).
        -- replace (- PI / 2) with (- (PI / 2)) by field. rewrite cos_neg, sin_neg, cos_PI2, sin_PI2. split; nra.
        -- exfalso. nra.
Qed.

(* ---------------------------------------------------------------- Rodrigues rotation *)
Section Rod.
Variables k1 k2 k3 c s : R.
Hypothesis Hk : k1 * k1 + k2 * k2 + k3 * k3 = 1.
Hypothesis Hcs : c * c + s * s = 1.
Notation k := (@mkvec RO k1 k2 k3).

Lemma rot_cs_dot (p q : vec RO) :
  dot RO (rot_cs RO k c s p) (rot_cs RO k c s q) = dot RO p q.
Proof using Hk Hcs.
  destruct p as [p1 p2 p3], q as [q1 q2 q3]. unfold rot_cs. ops. nsatz.
Qed.
Lemma rot_cs_sub (p q : vec RO) :
  rot_cs RO k c s (vminus RO p q) = vminus RO (rot_cs RO k c s p) (rot_cs RO k c s q).
Proof using.
  destruct p as [p1 p2 p3], q as [q1 q2 q3]. unfold rot_cs. ops. f_equal; ring.
Qed.
Lemma rot_cs_smul (x : R) (p : vec RO) :
  rot_cs RO k c s (smul RO x p) = smul RO x (rot_cs RO k c s p).
Proof using.
  destruct p as [p1 p2 p3]. unfold rot_cs. ops. f_equal; ring.
Qed.
End Rod.

(* ---------------------------------------------------------------- the axis rotation *)
Lemma rot_threshold_R : rot_threshold RO = 1 / 10000000000.
Proof. unfold rot_threshold, fdec. cbn. lra. Qed.

Definition un_of (a : vec RO) : R := norm RO (cross RO (zhat RO) a).

Lemma un_of_sq a1 a2 a3 : un_of (@mkvec RO a1 a2 a3) * un_of (@mkvec RO a1 a2 a3) = a1 * a1 + a2 * a2.
Proof.
  unfold un_of, zhat. ops.
  rewrite sqrt_sqrt by apply sumsq_nonneg. ring.
Qed.

(* with the atan2 angle: a rotation (orthogonal, linear) that maps z-hat to the axis *)
Lemma axis_rotation_atan2 (a : vec RO) :
  unit3 (tov a) -> rot_threshold RO <= un_of a ->
  exists k1 k2 k3 c s,
    k1 * k1 + k2 * k2 + k3 * k3 = 1 /\ c * c + s * s = 1 /\
    (forall p, axis_rotation RO AngAtan2 a p = rot_cs RO (@mkvec RO k1 k2 k3) c s p) /\
    rot_cs RO (@mkvec RO k1 k2 k3) c s (zhat RO) = a.
Proof.
  destruct a as [a1 a2 a3]. intros Ha Hun.
  pose proof (un_of_sq a1 a2 a3) as Hsq.
  set (un := un_of (@mkvec RO a1 a2 a3)) in *.
  assert (Hpos : 0 < un) by (rewrite rot_threshold_R in Hun; lra).
  set (c3 := dot RO (zhat RO) (@mkvec RO a1 a2 a3)).
  assert (Hc3 : c3 = a3) by (unfold c3, zhat; ops; ring).
  assert (Hcirc : c3 * c3 + un * un = 1) by (rewrite Hc3, Hsq; revert Ha; ops; intro Ha; lra).
  destruct (atan2_cos_sin un c3 Hcirc) as [Hcos Hsin].
  set (u := cross RO (zhat RO) (@mkvec RO a1 a2 a3)).
  exists (vx (sdiv RO u un)), (vy (sdiv RO u un)), (vz (sdiv RO u un)), (cos (atan2 un c3)), (sin (atan2 un c3)).
  set (iu := / un). assert (Hiu : un * iu = 1) by (unfold iu; field; lra).
  split; [| split; [| split]].
  - unfold u, zhat. ops. unfold Rdiv. fold iu. clearbody un iu. clear - Hiu Hsq. nsatz.
  - rewrite Hcos, Hsin. exact Hcirc.
  - intro p. unfold axis_rotation. fold u. change (norm RO u) with un.
    change (fleb RO (rot_threshold RO) un) with (Rleb (rot_threshold RO) un).
    rewrite Rleb_true by exact Hun. unfold rotate_about, rot_angle. fold c3.
    destruct (sdiv RO u un). reflexivity.
  - rewrite Hcos, Hsin, Hc3. unfold u, zhat, rot_cs. ops. unfold Rdiv. fold iu. clearbody un iu. clear - Hiu Hsq Ha. f_equal; nsatz.
Qed.
