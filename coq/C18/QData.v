(* C18/QData.v — how the correspondence data are written down (definitions only).
   binary64 values are exact dyadic numbers m * 2^e:
     [dq m e]     as a rational (quadrature tables, model inputs),
     [P m e], [N m e]  with a primitive-integer mantissa (bulk data: thousands of points),
   and an exact dyadic arithmetic (no gcd, no denominators) for the bulk tests. *)
From Coq Require Import ZArith QArith Uint63 List Bool.
Import ListNotations.
Open Scope Z_scope.

Definition dq (m e : Z) : Q :=
  if 0 <=? e then Qmake (m * 2 ^ e) 1 else Qmake m (Z.to_pos (2 ^ (- e))).

Record dy := D { dm : Z; de : Z }.
Definition P (m : int) (e : Z) : dy := D (Uint63.to_Z m) e.
Definition N (m : int) (e : Z) : dy := D (- Uint63.to_Z m) e.
Definition dyQ (a : dy) : Q := dq (dm a) (de a).
Definition dmul (a b : dy) : dy := D (dm a * dm b) (de a + de b).
Definition dalign (a b : dy) : Z * Z * Z :=
  let e := Z.min (de a) (de b) in (Z.shiftl (dm a) (de a - e), Z.shiftl (dm b) (de b - e), e).
Definition dadd (a b : dy) : dy := let '(x, y, e) := dalign a b in D (x + y) e.
Definition dsub (a b : dy) : dy := let '(x, y, e) := dalign a b in D (x - y) e.
Definition dleb (a b : dy) : bool := let '(x, y, e) := dalign a b in x <=? y.
Definition dltb (a b : dy) : bool := let '(x, y, e) := dalign a b in x <? y.
Definition dabs (a : dy) : dy := D (Z.abs (dm a)) (de a).
Definition dmax (a b : dy) : dy := if dleb a b then b else a.
Definition d0 : dy := D 0 0.
(* 10^-k rounded down to 200 fractional bits (tolerances only) *)
Definition dpow10 (k : Z) : dy := D (2 ^ 200 / 10 ^ k) (-200).

Definition v3d := (dy * dy * dy)%type.
Definition ddot (a b : v3d) : dy :=
  let '(a1, a2, a3) := a in let '(b1, b2, b3) := b in dadd (dadd (dmul a1 b1) (dmul a2 b2)) (dmul a3 b3).
Definition dsub3 (a b : v3d) : v3d :=
  let '(a1, a2, a3) := a in let '(b1, b2, b3) := b in (dsub a1 b1, dsub a2 b2, dsub a3 b3).

(* the EXACT membership test of C18/Spec.inside for a (nearly) unit axis a, widened by tol:
     -tol <= d.a <= h + tol   and   |d|^2 |a|^2 - (d.a)^2 <= (r + tol)^2 |a|^2 ,  d = p - base
   (for |a| = 1 the second is |d - (d.a) a| <= r + tol).  No square root, no rounding. *)
Definition inside_d (a base : v3d) (r h tol : dy) (p : v3d) : bool :=
  let d := dsub3 p base in
  let aa := ddot a a in
  let da := ddot d a in
  dleb (dsub d0 tol) da && dleb da (dadd h tol)
  && dleb (dsub (dmul (ddot d d) aa) (dmul da da)) (dmul (dmul (dadd r tol) (dadd r tol)) aa).

Fixpoint dsum (l : list dy) : dy := match l with [] => d0 | x :: l' => dadd x (dsum l') end.
