(* C08/Spec.v — the defining algebra of the momentum-transfer vector and of hkl, over R,
   on the Euclidean library Vec/Vec3.v.  Independent of the code. *)
From Coq Require Import Reals Lra.
From Verif.Sem Require Import RInst RLemmas.
From Verif.Vec Require Import Vec3.
Open Scope R_scope.

(* Q = (2 pi / lambda) (e_i - e_f), e = direction of the beam *)
Definition Qspec (lam : R) (bi bf : vec) : vec := vsc (2 * PI / lam) (vminus (dir bi) (dir bf)).

(* |Q| = 4 pi sin(theta) / lambda with 2 theta = angle(b_i, b_f)   (the scalar Q of C01) *)
Lemma Qspec_norm lam bi bf : lam > 0 -> bi <> v0 -> bf <> v0 ->
  norm (Qspec lam bi bf) = 4 * PI * sin (angle bi bf / 2) / lam.
Proof.
  intros Hl Hi Hf. pose proof PI_RGT_0.
  unfold Qspec. rewrite norm_vsc_pos by (apply Rdiv_lt_0_compat; lra).
  rewrite dir_diff_norm by assumption. field; lra.
Qed.

(* independent of the lengths of the beams *)
Lemma Qspec_scale lam bi bf k1 k2 : k1 > 0 -> k2 > 0 -> bi <> v0 -> bf <> v0 ->
  Qspec lam (vsc k1 bi) (vsc k2 bf) = Qspec lam bi bf.
Proof. intros; unfold Qspec; rewrite !dir_vsc by assumption; reflexivity. Qed.

(* rotates with the beamline (any orthogonal map) *)
Lemma Qspec_orth M lam bi bf : orthogonal M ->
  Qspec lam (mapp M bi) (mapp M bf) = mapp M (Qspec lam bi bf).
Proof.
  intros HM; unfold Qspec. rewrite !dir_orth by exact HM.
  rewrite <- mapp_vminus, mapp_vsc; reflexivity.
Qed.

(* hkl = (R UB)^-1 Q / (2 pi)   satisfies   2 pi R UB hkl = Q   whenever det(R UB) <> 0 *)
Definition hkl_spec (R UB : mat) (Q : vec) : vec := vsc (/ (2 * PI)) (mapp (minv (mmul R UB)) Q).
Lemma hkl_inverse_spec R UB Q : mdet (mmul R UB) <> 0 ->
  vsc (2 * PI) (mapp (mmul R UB) (hkl_spec R UB Q)) = Q.
Proof.
  intros Hd. pose proof PI_RGT_0. unfold hkl_spec.
  rewrite mapp_vsc, mapp_minv by exact Hd.
  apply vec_eq; simpl; field; lra.
Qed.
(* and it is the only solution *)
Lemma hkl_unique R UB Q hv : mdet (mmul R UB) <> 0 ->
  vsc (2 * PI) (mapp (mmul R UB) hv) = Q -> hv = hkl_spec R UB Q.
Proof.
  intros Hd E. pose proof PI_RGT_0. unfold hkl_spec. rewrite <- E.
  rewrite mapp_vsc, minv_mapp by exact Hd.
  apply vec_eq; simpl; field; lra.
Qed.
Lemma mdet_msc k A : mdet (msc k A) = k * k * k * mdet A.
Proof. unfold mdet, msc; simpl; ring. Qed.

(* units: R = sR * Rm, UB = sU * UBm, Q = sq * q  (stored numbers times unit multipliers) *)
Lemma hkl_scale R UB q sR sU sq : sR <> 0 -> sU <> 0 -> mdet (mmul R UB) <> 0 ->
  hkl_spec (msc sR R) (msc sU UB) (vsc sq q) = vsc (sq / (sR * sU)) (hkl_spec R UB q).
Proof.
  intros HR HU Hd. pose proof PI_RGT_0.
  destruct R, UB, q; unfold hkl_spec, minv, madj, mdet, mmul, msc, mapp, vsc in *; simpl in *.
  apply vec_eq; simpl; field; repeat split; try lra; try assumption.
  all: intro E; apply Hd; clear Hd.
  all: match goal with E : ?p = 0 |- ?d = 0 =>
         assert (F : p = sR * sR * sR * (sU * sU * sU) * d) by ring; rewrite F in E;
         apply Rmult_integral in E; destruct E as [E|E]; [exfalso|exact E] end.
  all: assert (sR * sR * sR <> 0) by (repeat apply Rmult_integral_contrapositive_currified; assumption).
  all: assert (sU * sU * sU <> 0) by (repeat apply Rmult_integral_contrapositive_currified; assumption).
  all: apply Rmult_integral in E; tauto.
Qed.
Lemma mdet_scaled R UB sR sU : sR <> 0 -> sU <> 0 -> mdet (mmul R UB) <> 0 ->
  mdet (mmul (msc sR R) (msc sU UB)) <> 0.
Proof.
  intros HR HU Hd. rewrite mdet_mmul, !mdet_msc. rewrite mdet_mmul in Hd.
  repeat apply Rmult_integral_contrapositive_currified; try assumption.
  all: intro E; apply Hd; rewrite E; ring.
Qed.
