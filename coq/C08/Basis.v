(* C08/Basis.v — change of the reciprocal basis and its handedness, over R (library Vec/Vec3.v, C08/Spec.v).
   Independent of the code.

   A B matrix holds the reciprocal basis vectors a*, b*, c* as its columns.  Re-labelling or mirroring the basis
   (b* and c* interchanged, l -> -l, all axes inverted ...) is B -> B P with an invertible P; det(B P) = det(B) det(P),
   so for det(P) = -1 the new B has a NEGATIVE determinant — the basis is left-handed — and is exactly as
   non-singular and as well conditioned as B.  The defining relation 2 pi R U B hkl = Q does not care:
   hkl transforms with P^-1.  Nothing here needs det(B) > 0. *)
From Coq Require Import Reals Lra.
From Verif.Sem Require Import RInst RLemmas.
From Verif.Vec Require Import Vec3.
From Verif.C08 Require Import Spec.
Open Scope R_scope.

(* hkl in the basis B P is P^-1 applied to hkl in the basis B, for every invertible P of either handedness *)
Lemma rebased_nonsingular R UB P : mdet (mmul R UB) <> 0 -> mdet P <> 0 -> mdet (mmul R (mmul UB P)) <> 0.
Proof.
  intros Hd HP. rewrite <- mmul_assoc, mdet_mmul. apply Rmult_integral_contrapositive_currified; assumption.
Qed.

Lemma hkl_change_of_basis R UB P Q : mdet (mmul R UB) <> 0 -> mdet P <> 0 ->
  hkl_spec R (mmul UB P) Q = mapp (minv P) (hkl_spec R UB Q).
Proof.
  intros Hd HP. symmetry. apply hkl_unique.
  - apply rebased_nonsingular; assumption.
  - rewrite <- mmul_assoc, mapp_mmul, mapp_minv by exact HP. apply hkl_inverse_spec, Hd.
Qed.

(* the sign of det(B) is the handedness of the basis: the re-labellings below flip it and keep |det| *)
Definition Pswap12 : mat := mkM 0 1 0 1 0 0 0 0 1.
Definition Pswap13 : mat := mkM 0 0 1 0 1 0 1 0 0.
Definition Pswap23 : mat := mkM 1 0 0 0 0 1 0 1 0.
Definition Pinv1 : mat := mkM (-1) 0 0 0 1 0 0 0 1.
Definition Pinv2 : mat := mkM 1 0 0 0 (-1) 0 0 0 1.
Definition Pinv3 : mat := mkM 1 0 0 0 1 0 0 0 (-1).
Definition Pneg : mat := mkM (-1) 0 0 0 (-1) 0 0 0 (-1).
Definition Pcyc : mat := mkM 0 0 1 1 0 0 0 1 0.

Definition mirror (P : mat) : Prop :=
  P = Pswap12 \/ P = Pswap13 \/ P = Pswap23 \/ P = Pinv1 \/ P = Pinv2 \/ P = Pinv3 \/ P = Pneg.

Lemma mirror_det P : mirror P -> mdet P = -1.
Proof. intros [->|[->|[->|[->|[->|[->| ->]]]]]]; unfold mdet; simpl; ring. Qed.
Lemma mirror_involution P : mirror P -> minv P = P.
Proof.
  intros [->|[->|[->|[->|[->|[->| ->]]]]]]; unfold minv, madj, mdet; apply mat_eq; simpl; field.
Qed.
Lemma mirrored_det B P : mirror P -> mdet (mmul B P) = - mdet B.
Proof. intros HP. rewrite mdet_mmul, (mirror_det P HP). ring. Qed.
(* mirroring the rows instead (a mirrored Cartesian crystal frame) *)
Lemma mirrored_rows_det B P : mirror P -> mdet (mmul P B) = - mdet B.
Proof. intros HP. rewrite mdet_mmul, (mirror_det P HP). ring. Qed.
Lemma Pcyc_det : mdet Pcyc = 1.
Proof. unfold mdet; simpl; ring. Qed.

(* every non-singular B has a mirrored partner with the opposite sign of the determinant: a statement about
   "every non-singular B" that is only exercised for det(B) > 0 misses half of them *)
Lemma left_handed_partner B : mdet B <> 0 ->
  forall P, mirror P -> mdet (mmul B P) <> 0 /\ mdet (mmul B P) * mdet B < 0.
Proof.
  intros HB P HP. rewrite (mirrored_det B P HP). split; [lra|].
  assert (0 < mdet B * mdet B) by (destruct (Rtotal_order (mdet B) 0) as [H|[H|H]]; [|contradiction|]; nra). nra.
Qed.

(* left-handed basis, concretely: hkl of B with b*, c* interchanged is hkl of B with k and l interchanged;
   hkl of B with c* -> -c* is hkl of B with l -> -l *)
Lemma hkl_swap23 R UB Q : mdet (mmul R UB) <> 0 ->
  let H := hkl_spec R UB Q in hkl_spec R (mmul UB Pswap23) Q = mkV (vx H) (vz H) (vy H).
Proof.
  intros Hd H. assert (M : mirror Pswap23) by (unfold mirror; tauto).
  rewrite hkl_change_of_basis by (try exact Hd; rewrite (mirror_det _ M); lra).
  rewrite (mirror_involution _ M). apply vec_eq; simpl; ring.
Qed.
Lemma hkl_inv3 R UB Q : mdet (mmul R UB) <> 0 ->
  let H := hkl_spec R UB Q in hkl_spec R (mmul UB Pinv3) Q = mkV (vx H) (vy H) (- vz H).
Proof.
  intros Hd H. assert (M : mirror Pinv3) by (unfold mirror; tauto).
  rewrite hkl_change_of_basis by (try exact Hd; rewrite (mirror_det _ M); lra).
  rewrite (mirror_involution _ M). apply vec_eq; simpl; ring.
Qed.

(* hypotheses satisfiable: the Busing-Levy B of a cubic cell a = 4 with b*, c* interchanged: det = -1/64 *)
Example left_handed_B_example :
  let B := mkM (1 / 4) 0 0 0 (1 / 4) 0 0 0 (1 / 4) in
  mirror Pswap23 /\ mdet B <> 0 /\ mdet (mmul B Pswap23) = - (1 / 64) /\ mdet (mmul mI (mmul mI B)) <> 0.
Proof. repeat split; try (unfold mirror; tauto); unfold mdet, mmul, Pswap23, mI; simpl; lra. Qed.
