(* C11/Spec.v — what "transmitted by a chopper cascade" means, independent of the polygon code.

   A neutron is a pair (t0, lambda): emission time at the source (distance 0) and wavelength.
   It moves with inverse velocity alpha*lambda (alpha = m_n/h in the units used; alpha > 0),
   so it is at distance d at time  t0 + alpha*lambda*d.
   A chopper is (distance, list of closed windows (open, close)).  A neutron passes a chopper
   iff its arrival time at the chopper's distance lies in one of the windows; it is transmitted
   by a cascade iff it passes every chopper.
   Reach r cs d (t, lambda): some neutron of the source rectangle r with wavelength lambda that
   is transmitted by cs is at distance d at time t. *)
From Coq Require Import Reals List.
Import ListNotations.
Open Scope R_scope.

Record rect := mkrect { r_tmin : R; r_tmax : R; r_wmin : R; r_wmax : R }.
Definition neutron : Type := (R * R)%type.                 (* (t0, lambda) *)
Definition schopper : Type := (R * list (R * R))%type.     (* (distance, windows) *)

Section S.
Variable alpha : R.
Definition arrival (n : neutron) (d : R) : R := fst n + alpha * snd n * d.
Definition in_rect (r : rect) (n : neutron) : Prop :=
  r_tmin r <= fst n <= r_tmax r /\ r_wmin r <= snd n <= r_wmax r.
Definition passes (c : schopper) (n : neutron) : Prop :=
  Exists (fun w => fst w <= arrival n (fst c) <= snd w) (snd c).
Definition transmitted (cs : list schopper) (n : neutron) : Prop :=
  Forall (fun c => passes c n) cs.
Definition Reach (r : rect) (cs : list schopper) (d : R) (p : R * R) : Prop :=
  exists n : neutron,
    in_rect r n /\ transmitted cs n /\ fst p = arrival n d /\ snd p = snd n.
End S.
