(* C11/Multi.v — model of a frame propagated to a RANGE of distances in one call
   (`propagate_times`: "distance: Distance to propagate. Can be a range of distances"):
   Frame.propagate_to(sc.array(dims=[...], values=[d_1, ..., d_n])) / FrameSequence.propagate_to.
   The vertex times then carry the extra distance dimension(s), the wavelengths do not.

   Python                                            model
   ----------------------------------------------    -------------------------------------------
   Frame.propagate_to(array of distances)            propagate_multi ds fr: one frame per distance;
                                                     element k is (element-wise arithmetic) the frame
                                                     propagated to the single distance d_k
   Subframe.time / wavelength of subframe i          multi_sub ds fr: per subframe the polygon at each distance
   Subframe.is_regular (min/max over ALL dims,       is_regular_multi: is_regular of all (distance, vertex)
     `==` broadcast, `.any()`)                       points of the subframe taken together
   Frame.bounds()  (start_time/end_time keep the     bounds_multi: per distance the bounds of that distance's
     distance dims, wavelengths have none)           frame; None = exception (no subframes)
   Frame.subbounds()                                 subbounds_multi: per distance, per subframe; inr true =
                                                     NotImplementedError, inr false = other exception
   Definitions only — no proofs in this file. *)
From Coq Require Import List Bool.
From Verif.C11 Require Import Clip.
Import ListNotations.

Section Multi.
Variable O : COps.
Notation T := (T O).

Definition propagate_multi (ds : list T) (fr : frame O) : list (frame O) :=
  map (fun d => propagate_to O d fr) ds.

(* subframe i of the propagated frame: its polygon at every distance (same wavelengths everywhere) *)
Definition multi_sub (ds : list T) (fr : frame O) : list (list (poly O)) :=
  map (fun V => map (fun d => shear O (sub O d (fdist fr)) V) ds) (fpolys fr).

Definition is_regular_multi (Vs : list (poly O)) : bool := is_regular O (concat Vs).

Definition f4 : Type := (T * T * T * T)%type.

Definition bounds_multi (ds : list T) (fr : frame O) : option (list (option f4)) :=
  match fpolys fr with
  | [] => None
  | _ => Some (map (bounds O) (propagate_multi ds fr))
  end.

Definition sub_bounds_list (fr : frame O) : list f4 :=
  flat_map (fun V => match sub_bounds O V with Some b => [b] | None => [] end) (fpolys fr).

Definition subbounds_multi (ds : list T) (fr : frame O) : (list (list f4)) + bool :=
  match fpolys fr with
  | [] => inr false
  | _ =>
      if forallb is_regular_multi (multi_sub ds fr)
      then inl (map sub_bounds_list (propagate_multi ds fr))
      else inr true
  end.
End Multi.
