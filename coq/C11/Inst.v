(* C11/Inst.v — the three instances of the arithmetic record of Clip.v.  Definitions only. *)
From Coq Require Import Reals QArith ZArith List Bool.
From Coq Require Import PrimFloat Uint63 FloatOps SpecFloat.
From Verif.Sem Require Import RInst.
From Verif.C11 Require Import Clip.
Import ListNotations.

(* ---- real numbers: m_n, h and the unit factor are parameters (theorems hold for all positive values) *)
Definition ROps (mn h sc : R) : COps :=
  mkCOps R Rplus Rminus Rmult Rdiv 0%R 1%R Rleb Rltb Reqb mn h (fun x => (x * sc)%R) true.

(* ---- exact rationals *)
Definition qltb (a b : Q) : bool := negb (Qle_bool b a).
Definition QOps (mn h : Q) : COps :=
  mkCOps Q (fun a b => Qred (a + b)) (fun a b => Qred (a - b)) (fun a b => Qred (a * b))
         (fun a b => Qred (a / b)) 0%Q 1%Q Qle_bool qltb Qeq_bool mn h
         (fun x => Qred (x * (1 # 10000000000))) true.

(* ---- binary64 (Coq primitive floats: IEEE-754 + - * / and comparisons, bit for bit).
   scipp multiplies by the double nearest to 1e-10 for the angstrom*kg/(J*s) -> s/m conversion
   (probed: 100000/100000 random wavelengths bit-identical). *)
Definition f_1em10 : float := 0x1.b7cdfd9d7bdbbp-34%float.
Definition FOpsV (fixed : bool) (mn h : float) : COps :=
  mkCOps float PrimFloat.add PrimFloat.sub PrimFloat.mul PrimFloat.div 0%float 1%float
         PrimFloat.leb PrimFloat.ltb PrimFloat.eqb mn h (fun x => PrimFloat.mul x f_1em10) fixed.
Definition FOps : float -> float -> COps := FOpsV true.      (* the text with C11_regular.patch *)
Definition FOps0 : float -> float -> COps := FOpsV false.    (* the text before it *)

(* exact rational value of a finite binary64 number (0 for nan/inf, which never occur in the runs;
   the correspondence checks finiteness separately with [ffinite]) *)
Definition QofF (x : float) : Q :=
  match Prim2SF x with
  | S754_finite s m e =>
      let z := if s then Zneg m else Zpos m in
      if (0 <=? e)%Z then inject_Z (z * 2 ^ e) else Qred (Qmake z (Pos.pow 2 (Z.to_pos (- e))))
  | _ => 0%Q
  end.
Definition ffinite (x : float) : bool :=
  match Prim2SF x with S754_finite _ _ _ | S754_zero _ => true | _ => false end.

(* ---- dyadic numbers m * 2^e with results truncated to 200 significant bits: a fast stand-in for the
   exact rationals in the correspondence runs (gcd-free; + - * exact up to the truncation, comparisons
   exact).  The relative error per operation is below 2^-199, far below the 1.5e-11 tolerance of the
   comparisons it feeds; never used in a proof. *)
Definition D : Type := (Z * Z)%type.
Definition DPREC : Z := 200.
Definition dnorm (x : D) : D :=
  let (m, e) := x in
  let s := (Z.log2 (Z.abs m) - DPREC)%Z in
  if (0 <? s)%Z then (Z.shiftr m s, (e + s)%Z) else x.
Definition dalign (a b : D) : Z * Z * Z :=        (* both mantissas at the smaller exponent *)
  let (m1, e1) := a in let (m2, e2) := b in
  let e := Z.min e1 e2 in (Z.shiftl m1 (e1 - e), Z.shiftl m2 (e2 - e), e).
Definition dadd (a b : D) : D :=
  if (fst a =? 0)%Z then b else if (fst b =? 0)%Z then a
  else let '(m1, m2, e) := dalign a b in dnorm ((m1 + m2)%Z, e).
Definition dopp (a : D) : D := ((- fst a)%Z, snd a).
Definition dsub (a b : D) : D := dadd a (dopp b).
Definition dmul (a b : D) : D := dnorm ((fst a * fst b)%Z, (snd a + snd b)%Z).
Definition ddiv (a b : D) : D :=
  if (fst b =? 0)%Z then (0%Z, 0%Z) else if (fst a =? 0)%Z then (0%Z, 0%Z)
  else let k := Z.max 0 (DPREC + 2 + Z.log2 (Z.abs (fst b)) - Z.log2 (Z.abs (fst a)))%Z in
       dnorm ((Z.shiftl (fst a) k / fst b)%Z, (snd a - snd b - k)%Z).
Definition dcmp (a b : D) : comparison :=
  if (fst a =? 0)%Z then Z.compare 0 (fst b) else if (fst b =? 0)%Z then Z.compare (fst a) 0
  else let '(m1, m2, _) := dalign a b in Z.compare m1 m2.
Definition dleb (a b : D) : bool := match dcmp a b with Gt => false | _ => true end.
Definition dltb (a b : D) : bool := match dcmp a b with Lt => true | _ => false end.
Definition deqb (a b : D) : bool := match dcmp a b with Eq => true | _ => false end.
Definition DofF (x : float) : D :=
  match Prim2SF x with
  | S754_finite s m e => ((if s then Zneg m else Zpos m), e)
  | _ => (0%Z, 0%Z)
  end.
Definition DtoQ (x : D) : Q :=
  let (m, e) := x in
  if (0 <=? e)%Z then inject_Z (m * 2 ^ e) else Qmake m (Pos.shiftl 1 (Z.to_N (- e))).
Definition DOps (mn h : D) : COps :=
  mkCOps D dadd dsub dmul ddiv (0%Z, 0%Z) (1%Z, 0%Z) dleb dltb deqb mn h
         (fun x => ddiv x (10000000000%Z, 0%Z)) true.
