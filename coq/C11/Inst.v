(* C11/Inst.v — the three instances of the arithmetic record of Clip.v.  Definitions only. *)
From Coq Require Import Reals QArith ZArith List Bool.
From Coq Require Import PrimFloat Uint63 FloatOps SpecFloat.
From Verif.Sem Require Import RInst.
From Verif.C11 Require Import Clip.
Import ListNotations.

(* ---- real numbers: m_n, h and the unit factor are parameters (theorems hold for all positive values) *)
Definition ROps (mn h sc : R) : COps :=
  mkCOps R Rplus Rminus Rmult Rdiv 0%R 1%R Rleb Rltb Reqb mn h (fun x => (x * sc)%R).

(* ---- exact rationals *)
Definition qltb (a b : Q) : bool := negb (Qle_bool b a).
Definition QOps (mn h : Q) : COps :=
  mkCOps Q (fun a b => Qred (a + b)) (fun a b => Qred (a - b)) (fun a b => Qred (a * b))
         (fun a b => Qred (a / b)) 0%Q 1%Q Qle_bool qltb Qeq_bool mn h
         (fun x => Qred (x * (1 # 10000000000))).

(* ---- binary64 (Coq primitive floats: IEEE-754 + - * / and comparisons, bit for bit).
   scipp multiplies by the double nearest to 1e-10 for the angstrom*kg/(J*s) -> s/m conversion
   (probed: 100000/100000 random wavelengths bit-identical). *)
Definition f_1em10 : float := 0x1.b7cdfd9d7bdbbp-34%float.
Definition FOps (mn h : float) : COps :=
  mkCOps float PrimFloat.add PrimFloat.sub PrimFloat.mul PrimFloat.div 0%float 1%float
         PrimFloat.leb PrimFloat.ltb PrimFloat.eqb mn h (fun x => PrimFloat.mul x f_1em10).

(* exact rational value of a finite binary64 number (0 for nan/inf, which never occur in the runs;
   the correspondence checks finiteness separately with [ffinite]) *)
Definition QofF (x : float) : Q :=
  match Prim2SF x with
  | S754_finite s m e =>
      let z := if s then Zneg m else Zpos m in
      if (0 <=? e)%Z then inject_Z (z * 2 ^ e) else Qred (Qmake z (Pos.pow 2 (Z.to_pos (- e))))
  | _ => 0%Q
  end.
Definition ffinite (x : float) : bool :=
  match Prim2SF x with S754_finite _ _ _ | S754_zero _ => true | _ => false end.
