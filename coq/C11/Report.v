(* C11/Report.v — one result line per correspondence shard: "OK <n>" or "F<i>:<reason>;..." *)
From Coq Require Import String List DecimalString.
Import ListNotations.
Open Scope string_scope.
Definition nat_str (n : nat) : string := NilEmpty.string_of_uint (Nat.to_uint n).
Fixpoint report_aux (i : nat) (rs : list string) (acc : string) (nfail : nat) : string * nat :=
  match rs with
  | [] => (acc, nfail)
  | r :: rs' =>
      if String.eqb r "" then report_aux (S i) rs' acc nfail
      else report_aux (S i) rs' (acc ++ "F" ++ nat_str i ++ ":" ++ r ++ ";") (S nfail)
  end.
Definition report (rs : list string) : string :=
  let '(s, nf) := report_aux 0 rs "" 0 in
  if Nat.eqb nf 0 then "OK " ++ nat_str (List.length rs) else s.
