(* C11/ProofsMulti.v — a frame propagated to a RANGE of distances in one call (Verif.C11.Multi).

   multi_pointwise / bounds_multi_pointwise / subbounds_multi_pointwise: entry k of the propagated
     frame, of bounds() and of subbounds() is that of the frame propagated to the single distance d_k
     (so frames_are_reach / program_reach / regular_R apply distance by distance), and there is one
     entry per distance;
   regular_multi_R: over the reals, for a source band of non-negative wavelengths, every subframe of a
     cascade propagated DOWNSTREAM to any non-empty range of distances passes Subframe.is_regular
     (whose min / max then run over all distances and vertices together), so subbounds() does not take
     its NotImplementedError branch: per-subframe bounds are available at every distance. *)
From Coq Require Import Reals List Bool Lra Psatz.
From Verif.Sem Require Import RInst.
From Verif.C11 Require Import Clip Inst Spec ProofsClip ProofsConvex ProofsCascade ProofsRegular Multi.
Import ListNotations.
Open Scope R_scope.

(* ---- entry k is the single-distance result: holds for every instance of the arithmetic *)
Section Pointwise.
Variable O : COps.
Lemma multi_pointwise (ds : list (T O)) (fr : frame O) k :
  nth_error (propagate_multi O ds fr) k = option_map (fun d => propagate_to O d fr) (nth_error ds k).
Proof. unfold propagate_multi. revert k. induction ds as [|d ds IH]; intros [|k]; simpl; auto. Qed.
Lemma multi_length (ds : list (T O)) (fr : frame O) : length (propagate_multi O ds fr) = length ds.
Proof. apply map_length. Qed.
Lemma nth_error_map' {A B} (f : A -> B) (l : list A) k : nth_error (map f l) k = option_map f (nth_error l k).
Proof. revert k. induction l as [|a l IH]; intros [|k]; simpl; auto. Qed.
Lemma bounds_multi_pointwise (ds : list (T O)) (fr : frame O) l :
  bounds_multi O ds fr = Some l ->
  length l = length ds /\
  forall k d, nth_error ds k = Some d -> nth_error l k = Some (bounds O (propagate_to O d fr)).
Proof.
  unfold bounds_multi. destruct (fpolys fr); [discriminate|]. intros E; inversion E; subst l. split.
  - rewrite map_length. apply multi_length.
  - intros k d Hk. rewrite nth_error_map', multi_pointwise, Hk. reflexivity.
Qed.
Lemma subbounds_multi_pointwise (ds : list (T O)) (fr : frame O) l :
  subbounds_multi O ds fr = inl l ->
  length l = length ds /\
  forall k d, nth_error ds k = Some d -> nth_error l k = Some (sub_bounds_list O (propagate_to O d fr)).
Proof.
  unfold subbounds_multi. destruct (fpolys fr); [discriminate|].
  destruct (forallb _ _); [|discriminate]. intros E; inversion E; subst l. split.
  - rewrite map_length. apply multi_length.
  - intros k d Hk. rewrite nth_error_map', multi_pointwise, Hk. reflexivity.
Qed.
(* ... and sub_bounds_list is what subbounds returns for a single distance *)
Lemma subbounds_single (fr : frame O) l : subbounds O fr = inl l -> l = sub_bounds_list O fr.
Proof.
  unfold subbounds, sub_bounds_list. destruct (fpolys fr); [discriminate|].
  destruct (forallb _ _); [|discriminate]. intros E; inversion E; reflexivity.
Qed.
End Pointwise.

Section MultiR.
Variables mn h sc : R.
Notation O := (ROps mn h sc).
Notation al := (alpha mn h sc).
Implicit Types (V : list P2) (p : P2) (fr : frame O).

Lemma list_min_ex : forall (l : list R), l <> [] -> exists k, In k l /\ forall x, In x l -> k <= x.
Proof.
  induction l as [|a l IH]; [congruence|]. intros _. destruct l as [|b l'].
  - exists a. split; [left; auto|]. intros x [<- | []]. lra.
  - destruct IH as (k & Hk & Lk); [discriminate|].
    destruct (Rle_dec a k).
    + exists a. split; [left; auto|]. intros x [<- | Hx]; [lra|]. specialize (Lk x Hx). lra.
    + exists k. split; [right; auto|]. intros x [<- | Hx]; [lra|]. apply Lk; auto.
Qed.
Lemma list_max_ex : forall (l : list R), l <> [] -> exists k, In k l /\ forall x, In x l -> x <= k.
Proof.
  induction l as [|a l IH]; [congruence|]. intros _. destruct l as [|b l'].
  - exists a. split; [left; auto|]. intros x [<- | []]. lra.
  - destruct IH as (k & Hk & Lk); [discriminate|].
    destruct (Rle_dec k a).
    + exists a. split; [left; auto|]. intros x [<- | Hx]; [lra|]. specialize (Lk x Hx). lra.
    + exists k. split; [right; auto|]. intros x [<- | Hx]; [lra|]. apply Lk; auto.
Qed.

Definition sheared (ks : list R) V : list P2 := concat (map (fun k => map (shearp k) V) ks).
Lemma in_sheared ks V p : In p (sheared ks V) <-> exists k w, In k ks /\ In w V /\ p = shearp k w.
Proof.
  unfold sheared. rewrite in_concat. split.
  - intros (L & HL & Hp). apply in_map_iff in HL. destruct HL as (k & <- & Hk).
    apply in_map_iff in Hp. destruct Hp as (w & <- & Hw). exists k, w. auto.
  - intros (k & w & Hk & Hw & ->). exists (map (shearp k) V). split; [apply in_map_iff; exists k; auto|].
    apply in_map; auto.
Qed.

(* the union over several non-negative shears of a regular polygon of non-negative wavelengths has a
   vertex that is minimal in time and wavelength (smallest shear of the low vertex) and one that is
   maximal in both (largest shear of the high vertex) *)
Lemma regular_sheared ks V : ks <> [] -> (forall k, In k ks -> 0 <= k) -> (forall w, In w V -> 0 <= snd w) ->
  (exists m, lo V m) /\ (exists M, hi V M) ->
  (exists m, lo (sheared ks V) m) /\ (exists M, hi (sheared ks V) M).
Proof.
  intros Hne Hpos Hw [(m & Hm & Lm) (M & HM & LM)].
  destruct (list_min_ex ks Hne) as (k0 & Hk0 & Lk0). destruct (list_max_ex ks Hne) as (k1 & Hk1 & Lk1).
  split.
  - exists (shearp k0 m). split; [apply in_sheared; exists k0, m; auto|].
    intros p Hp. apply in_sheared in Hp. destruct Hp as (k & w & Hk & Hw' & ->).
    destruct (Lm w Hw') as [A B]. pose proof (Lk0 k Hk) as C. pose proof (Hpos k0 Hk0) as D.
    pose proof (Hw m Hm) as E. unfold shearp; simpl. split; [|lra].
    assert (k0 * snd m <= k * snd w) by (apply Rmult_le_compat; lra). lra.
  - exists (shearp k1 M). split; [apply in_sheared; exists k1, M; auto|].
    intros p Hp. apply in_sheared in Hp. destruct Hp as (k & w & Hk & Hw' & ->).
    destruct (LM w Hw') as [A B]. pose proof (Lk1 k Hk) as C. pose proof (Hpos k Hk) as D.
    pose proof (Hw w Hw') as E. unfold shearp; simpl. split; [|lra].
    assert (k * snd w <= k1 * snd M) by (apply Rmult_le_compat; lra). lra.
Qed.

Lemma multi_sub_sheared (ds : list R) fr V :
  map (fun d => shear O (sub O d (fdist fr)) V) ds = map (fun k => map (shearp k) V) (map (fun d => (d - fdist fr) * al) ds).
Proof. rewrite map_map. apply map_ext. intros d. rewrite shear_map. reflexivity. Qed.

Theorem regular_multi_R t0 t1 w0 w1 (cs : list (chopper O)) s : 0 <= al -> t0 <= t1 -> 0 <= w0 -> w0 <= w1 ->
  seq_chop O cs (source O t0 t1 w0 w1) = Some s ->
  forall fr (ds : list R), In fr s -> ds <> [] -> (forall d, In d ds -> fdist fr <= d) ->
    forallb (is_regular_multi O) (multi_sub O ds fr) = true /\
    subbounds_multi O ds fr <> inr true.
Proof.
  intros Ha Ht Hw0 Hw E fr ds Hfr Hds Hfwd.
  destruct (regular_frames mn h sc t0 t1 w0 w1 cs s Ha Ht Hw E fr Hfr) as [R1 _].
  assert (NE : frame_ne mn h sc fr).
  { unfold seq_chop in E.
    destruct (cascade_go O (last_frame O (source O t0 t1 w0 w1)) (sort O cs)) as [fs|] eqn:Eg; [|discriminate].
    inversion E; subst s. simpl in Hfr. destruct Hfr as [<- | Hfr].
    - intros V [<- | []]. discriminate.
    - eapply ne_cascade; eauto. }
  assert (B : forall V v, In V (fpolys fr) -> In v V -> 0 <= snd v).
  { intros V v HV Hv.
    assert (Er : run O (source O t0 t1 w0 w1) [CChop cs] = Some s) by (simpl; rewrite E; reflexivity).
    destruct (within_band mn h sc t0 t1 w0 w1 [CChop cs] s Ht Hw Er fr V v Hfr HV Hv). lra. }
  assert (F : forallb (is_regular_multi O) (multi_sub O ds fr) = true).
  { apply forallb_forall. intros Vs HVs. unfold multi_sub in HVs. apply in_map_iff in HVs.
    destruct HVs as (V & <- & HV). unfold is_regular_multi. rewrite multi_sub_sheared.
    set (ks := map (fun d => (d - fdist fr) * al) ds).
    change (concat (map (fun k => map (shearp k) V) ks)) with (sheared ks V).
    assert (Hks : ks <> []) by (unfold ks; destruct ds; [congruence | discriminate]).
    assert (Hpos : forall k, In k ks -> 0 <= k).
    { intros k Hk. unfold ks in Hk. apply in_map_iff in Hk. destruct Hk as (d & <- & Hd).
      apply Rmult_le_pos; auto. specialize (Hfwd d Hd). lra. }
    pose proof (NE V HV) as HVne.
    assert (Une : sheared ks V <> []).
    { destruct (list_min_ex ks Hks) as (k & Hk & _). intros Hnil.
      destruct V as [|v V'] eqn:EV; [apply HVne; reflexivity|].
      assert (Hin : In (shearp k v) (sheared ks (v :: V'))) by (apply in_sheared; exists k, v; simpl; auto).
      rewrite Hnil in Hin. inversion Hin. }
    apply (is_regular_iff mn h sc); [exact Une|].
    apply regular_sheared; auto.
    - intros w Hw'. eapply B; eauto.
    - destruct (R1 V HV) as [-> | H]; [congruence | exact H]. }
  split; [exact F|].
  unfold subbounds_multi. destruct (fpolys fr); [discriminate|]. rewrite F. discriminate.
Qed.
End MultiR.
