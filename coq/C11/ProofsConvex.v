(* C11/ProofsConvex.v — clipping and shearing keep a polygon convex (counter-clockwise,
   every vertex on the left of every edge); the source rectangle is convex. *)
From Coq Require Import Reals List Bool Lra Psatz.
From Verif.Sem Require Import RInst.
From Verif.C11 Require Import Clip Inst ProofsClip.
Import ListNotations.
Open Scope R_scope.

(* all consecutive pairs of (prev ++ l) satisfy G *)
Fixpoint lingood {A} (G : A -> A -> Prop) (prev : option A) (l : list A) : Prop :=
  match l with
  | [] => True
  | x :: r => match prev with Some e => G e x | None => True end /\ lingood G (Some x) r
  end.

Lemma lingood_pairs {A} (G : A -> A -> Prop) l : forall prev p q,
  lingood G prev l -> In (p, q) (pairs l) -> G p q.
Proof.
  induction l as [|x [|y r] IH]; simpl; intros prev p q H Hin; try tauto.
  destruct H as (_ & Hxy & Hr). destruct Hin as [E | Hin].
  - inversion E; subst; auto.
  - apply (IH (Some x) p q); simpl; auto.
Qed.

Lemma edges_sub_double {A} (l : list A) e : In e (edges l) -> In e (pairs (l ++ l)).
Proof.
  destruct l as [|x r]; simpl; [tauto|]. intros H.
  change (In e (pairs ((x :: r) ++ x :: r))). rewrite <- pairs_app_mid.
  apply in_or_app. left. exact H.
Qed.

Lemma edges_double {A} (l : list A) : exists m, edges l ++ edges l = pairs m.
Proof.
  destruct l as [|f r]; [exists []; reflexivity|].
  exists ((f :: r) ++ f :: r ++ [f]). exact (pairs_app_mid (f :: r) (r ++ [f]) f).
Qed.

Lemma cross_mix_edge (u v w : P2) s1 s2 :
  cross (mix s1 u v) (mix s2 u v) w = (s2 - s1) * cross u v w.
Proof. unfold cross, mix; simpl; ring. Qed.
Lemma mix_1 (p q : P2) : mix 1 p q = q.
Proof. destruct q; unfold mix; simpl. apply pair_eq; ring. Qed.

Section ConvR.
Variables mn h sc : R.
Notation O := (ROps mn h sc).
Implicit Types a : R.

Section OneClip.
Variable ge : bool.
Variable a : R.
Variable V : list P2.
Hypothesis C : convex V.

Definition Good (p q : P2) : Prop :=
  forall w, hull V w -> side ge a (fst w) -> 0 <= cross p q w.
Definition top (e : P2) : Prop :=
  fst e = a /\ forall x, hull V x -> fst x = a -> if ge then snd x <= snd e else snd e <= snd x.
Definition onedge (e u : P2) : Prop :=
  exists u' s, In (u', u) (edges V) /\ s <= 1 /\ e = mix s u' u.
Definition St (prev : option P2) (u : P2) : Prop :=
  match prev with
  | None => True
  | Some e => if inside O ge a u then onedge e u else top e
  end.

Lemma good_A u v s1 s2 : In (u, v) (edges V) -> s1 <= s2 -> Good (mix s1 u v) (mix s2 u v).
Proof using C.
  intros He Hs w Hw _. rewrite cross_mix_edge.
  pose proof (convex_hull V u v w C He Hw). nra.
Qed.
Lemma good_B (p q : P2) : fst p = a -> fst q = a ->
  (if ge then snd q <= snd p else snd p <= snd q) -> Good p q.
Proof.
  intros Hp Hq Ho w _ Sw. unfold cross. rewrite Hp, Hq. unfold side in Sw.
  destruct ge; nra.
Qed.

Lemma onedge_good e u : onedge e u -> Good e u.
Proof using C.
  intros (u' & s & He & Hs & ->). rewrite <- (mix_1 u' u) at 2. apply good_A; auto.
Qed.

Lemma cut_top (u v : P2) : In (u, v) (edges V) ->
  inside O ge a u = true -> inside O ge a v = false -> top (cut O a u v).
Proof using C.
  intros He Iu Iv. split; [reflexivity|]. intros x Hx Ha.
  assert (X : xorb (inside O ge a u) (inside O ge a v) = true) by (rewrite Iu, Iv; reflexivity).
  pose proof (cut_cross mn h sc ge a u v x X Ha) as E.
  pose proof (convex_hull V u v x C He Hx) as G. rewrite <- E in G.
  apply inside_true in Iu. apply inside_false in Iv. unfold side, strictly_out in *.
  destruct ge.
  - apply prod_neg in G; [|lra]. simpl in G |- *. lra.
  - apply prod_pos in G; [|lra]. simpl in G |- *. lra.
Qed.

Lemma chain (m : list P2) : forall prev,
  (forall e, In e (pairs m) -> In e (edges V)) ->
  match m with x :: _ => St prev x | [] => True end ->
  lingood Good prev (flat_map (step O ge a) (pairs m)).
Proof using C.
  induction m as [|x [|y r] IH]; intros prev Hin HSt; simpl; auto.
  assert (He : In (x, y) (edges V)) by (apply Hin; left; reflexivity).
  assert (Hin' : forall e, In e (pairs (y :: r)) -> In e (edges V)) by (intros e H; apply Hin; right; exact H).
  change (lingood Good prev (step O ge a (x, y) ++ flat_map (step O ge a) (pairs (y :: r)))).
  unfold step; simpl fst; simpl snd.
  destruct (inside O ge a x) eqn:Ix, (inside O ge a y) eqn:Iy; simpl.
  - (* in, in *)
    split.
    + destruct prev as [e|]; auto. simpl in HSt. rewrite Ix in HSt. apply onedge_good; auto.
    + apply IH; auto. simpl. rewrite Iy. exists x, 0. split; auto. split; [lra|]. rewrite mix_0; reflexivity.
  - (* in, out *)
    assert (X : xorb (inside O ge a x) (inside O ge a y) = true) by (rewrite Ix, Iy; reflexivity).
    destruct (cut_is_mix mn h sc ge a x y X) as (_ & s & Hs & _ & Ec).
    split; [|split].
    + destruct prev as [e|]; auto. simpl in HSt. rewrite Ix in HSt. apply onedge_good; auto.
    + rewrite Ec. rewrite <- (mix_0 x y) at 1. apply good_A; auto; lra.
    + apply IH; auto. simpl. rewrite Iy. apply cut_top; auto.
  - (* out, in *)
    assert (X : xorb (inside O ge a x) (inside O ge a y) = true) by (rewrite Ix, Iy; reflexivity).
    destruct (cut_is_mix mn h sc ge a x y X) as (_ & s & Hs & _ & Ec).
    split.
    + destruct prev as [e|]; auto. simpl in HSt. rewrite Ix in HSt. destruct HSt as [Hea Htop].
      apply good_B; auto.
      assert (Hc : hull V (cut O a x y)).
      { rewrite Ec. destruct (edges_in _ _ _ He). apply hull_mix; auto; apply hull_v; auto. }
      exact (Htop _ Hc eq_refl).
    + apply IH; auto. simpl. rewrite Iy. exists x, s. split; auto. split; [lra | exact Ec].
  - (* out, out *)
    apply IH; auto. simpl. destruct prev as [e|]; simpl; auto. simpl in HSt. rewrite Ix in HSt.
    rewrite Iy. exact HSt.
Qed.

Theorem clip_convex : convex (clip O ge a V).
Proof using C.
  intros p q w Hpq Hw.
  destruct (clip_vertex mn h sc ge a V w Hw) as [HVw Sw].
  cut (Good p q); [intros G; apply G; auto|].
  apply edges_sub_double in Hpq.
  unfold clip in Hpq. rewrite <- flat_map_app in Hpq.
  destruct (edges_double V) as (m & EE).
  assert (Hpq' : In (p, q) (pairs (flat_map (step O ge a) (pairs m))))
    by (rewrite <- EE; exact Hpq).
  apply (lingood_pairs Good (flat_map (step O ge a) (pairs m)) None p q); [|exact Hpq'].
  apply chain; [|destruct m; simpl; auto].
  intros e He. rewrite <- EE in He. apply in_app_or in He. tauto.
Qed.
End OneClip.

(* ---- shear *)
Definition alpha : R := mn / h * sc.
Lemma ivel_alpha (w : R) : ivel O w = alpha * w.
Proof. unfold ivel, alpha; simpl. unfold Rdiv. ring. Qed.

Definition shearp (k : R) (p : P2) : P2 := (fst p + k * snd p, snd p).
Lemma shear_map (d : R) (V : list P2) : shear O d V = map (shearp (d * alpha)) V.
Proof.
  unfold shear. apply map_ext. intros p. unfold shearp. rewrite ivel_alpha. simpl.
  apply pair_eq; [ring | reflexivity].
Qed.
Lemma cross_shear k u v w : cross (shearp k u) (shearp k v) (shearp k w) = cross u v w.
Proof. unfold cross, shearp; simpl; ring. Qed.
Lemma mix_shear k s p q : shearp k (mix s p q) = mix s (shearp k p) (shearp k q).
Proof. unfold mix, shearp; simpl. apply pair_eq; ring. Qed.
Lemma shearp_inv k p : shearp (- k) (shearp k p) = p.
Proof. destruct p; unfold shearp; simpl. apply pair_eq; ring. Qed.
Lemma shearp_inv' k p : shearp k (shearp (- k) p) = p.
Proof. destruct p; unfold shearp; simpl. apply pair_eq; ring. Qed.

Lemma hull_shear_fwd k V p : hull V p -> hull (map (shearp k) V) (shearp k p).
Proof.
  revert p. apply hull_ind_conv.
  - intros v Hv. apply hull_v, in_map, Hv.
  - intros p q s Hp Hq Hs. rewrite mix_shear. apply hull_mix; auto.
Qed.
(* shear commutes with the hull *)
Theorem shear_hull k V p : hull (map (shearp k) V) p <-> hull V (shearp (- k) p).
Proof.
  split.
  - intros H. apply (hull_shear_fwd (- k)) in H. rewrite map_map in H.
    erewrite map_ext, map_id in H; [exact H|]. intros; apply shearp_inv.
  - intros H. apply (hull_shear_fwd k) in H. rewrite shearp_inv' in H. exact H.
Qed.

Theorem shear_convex k V : convex V -> convex (map (shearp k) V).
Proof.
  intros C u v w He Hw. rewrite edges_map in He. apply in_map_iff in He.
  destruct He as ((u0, v0) & E & He). simpl in E. inversion E; subst u v.
  apply in_map_iff in Hw. destruct Hw as (w0 & <- & Hw).
  rewrite cross_shear. apply C; auto.
Qed.

(* ---- the source rectangle *)
Definition rect_poly (t0 t1 w0 w1 : R) : list P2 := [(t0, w0); (t1, w0); (t1, w1); (t0, w1)].

Lemma rect_convex t0 t1 w0 w1 : t0 <= t1 -> w0 <= w1 -> convex (rect_poly t0 t1 w0 w1).
Proof.
  intros Ht Hw u v w He Hin. unfold rect_poly, edges in He. simpl in He, Hin.
  unfold cross.
  destruct He as [E | [E | [E | [E | []]]]]; inversion E; subst u v; clear E;
    destruct Hin as [E | [E | [E | [E | []]]]]; subst w; simpl; nra.
Qed.

Lemma rect_hull t0 t1 w0 w1 (p : P2) : t0 <= t1 -> w0 <= w1 ->
  (hull (rect_poly t0 t1 w0 w1) p <-> t0 <= fst p <= t1 /\ w0 <= snd p <= w1).
Proof.
  intros Ht Hw. split.
  - revert p. apply hull_ind_conv.
    + intros v Hv. simpl in Hv. destruct Hv as [E | [E | [E | [E | []]]]]; subst v; simpl; lra.
    + intros p q s Hp Hq Hs. unfold mix; simpl. nra.
  - intros [H1 H2].
    set (V := rect_poly t0 t1 w0 w1).
    (* bottom and top points at the time of p, then p between them *)
    assert (Hb : hull V (fst p, w0)).
    { destruct (Req_dec t0 t1) as [E | N].
      - replace (fst p) with t0 by lra. apply hull_v. left; reflexivity.
      - apply (hull_seg V (t0, w0) (t1, w0)); try (apply hull_v; simpl; auto).
        exists ((fst p - t0) / (t1 - t0)). split; [apply frac01; lra|].
        unfold mix; simpl. apply pair_eq; field; lra. }
    assert (Htop : hull V (fst p, w1)).
    { destruct (Req_dec t0 t1) as [E | N].
      - replace (fst p) with t0 by lra. apply hull_v. simpl; auto.
      - apply (hull_seg V (t0, w1) (t1, w1)); try (apply hull_v; simpl; auto).
        exists ((fst p - t0) / (t1 - t0)). split; [apply frac01; lra|].
        unfold mix; simpl. apply pair_eq; field; lra. }
    destruct (Req_dec w0 w1) as [E | N].
    + replace p with (fst p, w0); auto. destruct p; simpl in *. apply pair_eq; lra.
    + apply (hull_seg V (fst p, w0) (fst p, w1)); auto.
      exists ((snd p - w0) / (w1 - w0)). split; [apply frac01; lra|].
      destruct p; unfold mix; simpl. apply pair_eq; field; lra.
Qed.
End ConvR.
