(* C11/ProofsRegular.v — over the reals every subframe produced from a source rectangle by
   forward propagation and chopping is "regular": one vertex has both the minimal time and the
   minimal wavelength, one has both maxima (what Subframe.is_regular tests with ==), so
   Frame.subbounds never takes its NotImplementedError branch. *)
From Coq Require Import Reals List Bool Lra Psatz Permutation Sorted.
From Verif.Sem Require Import RInst.
From Verif.C11 Require Import Clip Inst Spec ProofsClip ProofsConvex ProofsCascade.
Import ListNotations.
Open Scope R_scope.

Definition lo (V : list P2) (m : P2) : Prop := In m V /\ forall w, In w V -> fst m <= fst w /\ snd m <= snd w.
Definition hi (V : list P2) (M : P2) : Prop := In M V /\ forall w, In w V -> fst w <= fst M /\ snd w <= snd M.
Definition regular (V : list P2) : Prop := V = [] \/ ((exists m, lo V m) /\ (exists M, hi V M)).

Lemma lo_hull V m : lo V m -> forall w, hull V w -> fst m <= fst w /\ snd m <= snd w.
Proof. intros [_ H]. apply hull_ind_conv; auto. intros p q s Hp Hq Hs. unfold mix; simpl. nra. Qed.
Lemma hi_hull V M : hi V M -> forall w, hull V w -> fst w <= fst M /\ snd w <= snd M.
Proof. intros [_ H]. apply hull_ind_conv; auto. intros p q s Hp Hq Hs. unfold mix; simpl. nra. Qed.

Lemma flat_map_nil {A B} (f : A -> list B) l : (forall e, In e l -> f e = []) -> flat_map f l = [].
Proof. induction l as [|a l IH]; simpl; intros H; auto. rewrite (H a), IH; auto. Qed.

Lemma subbounds_regular (O : COps) (fr : frame O) :
  forallb (is_regular O) (fpolys fr) = true -> subbounds O fr <> inr true.
Proof.
  unfold subbounds. intros H. destruct (fpolys fr) eqn:Ep; [discriminate|]. rewrite H. discriminate.
Qed.

Section RegR.
Variables mn h sc : R.
Notation O := (ROps mn h sc).
Notation al := (alpha mn h sc).
Implicit Types (a d : R) (V : list P2) (p : P2) (fr : frame O).

Lemma clip_all_out ge a V : (forall v, In v V -> inside O ge a v = false) -> clip O ge a V = [].
Proof.
  intros H. unfold clip. apply flat_map_nil. intros (u, v) He.
  destruct (edges_in _ _ _ He) as [Hu Hv]. unfold step; simpl. rewrite (H u Hu), (H v Hv). reflexivity.
Qed.

(* the crossing point of an out -> in edge is the other end of the polygon's section by the line *)
Lemma cut_bot ge a V (u v x : P2) : convex V -> In (u, v) (edges V) ->
  inside O ge a u = false -> inside O ge a v = true -> hull V x -> fst x = a ->
  if ge then snd (cut O a u v) <= snd x else snd x <= snd (cut O a u v).
Proof.
  intros C He Iu Iv Hx Ha.
  assert (X : xorb (inside O ge a u) (inside O ge a v) = true) by (rewrite Iu, Iv; reflexivity).
  pose proof (cut_cross mn h sc ge a u v x X Ha) as E.
  pose proof (convex_hull V u v x C He Hx) as G. rewrite <- E in G.
  apply inside_true in Iv. apply inside_false in Iu. unfold side, strictly_out in *.
  destruct ge.
  - apply prod_pos in G; [|lra]. simpl in G |- *. lra.
  - apply prod_neg in G; [|lra]. simpl in G |- *. lra.
Qed.

Lemma cross_pt ge a (p q : P2) : strictly_out ge a (fst p) -> side ge a (fst q) ->
  exists s0, 0 <= s0 <= 1 /\ fst (mix s0 p q) = a.
Proof.
  intros Op Sq. exists ((a - fst p) / (fst q - fst p)).
  assert (fst q - fst p <> 0) by (unfold side, strictly_out in *; destruct ge; lra).
  split.
  - apply frac01. unfold side, strictly_out in *; destruct ge; lra.
  - unfold mix; simpl. field; auto.
Qed.

Lemma existsb_false_all {A} (f : A -> bool) l : existsb f l = false -> forall x, In x l -> f x = false.
Proof.
  intros H x Hx. destruct (f x) eqn:E; auto.
  assert (existsb f l = true) by (apply existsb_exists; eauto). congruence.
Qed.

Theorem regular_clip ge a V : convex V -> regular V -> regular (clip O ge a V).
Proof.
  intros C [-> | [(m & Hm) (M & HM)]]; [left; reflexivity|].
  destruct (clip O ge a V) as [|c0 cl] eqn:Ec; [left; reflexivity|]. right. rewrite <- Ec.
  assert (Hne : clip O ge a V <> []) by (rewrite Ec; discriminate). clear Ec c0 cl.
  pose proof (lo_hull V m Hm) as Lm. pose proof (hi_hull V M HM) as LM.
  (* there is a vertex on the kept side *)
  assert (Hin : exists z, In z V /\ inside O ge a z = true).
  { destruct (existsb (inside O ge a) V) eqn:E.
    - apply existsb_exists in E. exact E.
    - exfalso. apply Hne. apply clip_all_out. apply existsb_false_all; auto. }
  destruct Hin as (z & Hz & Iz).
  (* an extreme vertex that is cut off is replaced by the crossing point of an out -> in edge *)
  assert (Hcut : forall y, In y V -> inside O ge a y = false ->
            exists u v, In (u, v) (edges V) /\ inside O ge a u = false /\ inside O ge a v = true /\
                        In (cut O a u v) (clip O ge a V)).
  { intros y Hy Iy. destruct (cyclic_transitions (A:=P2) (inside O ge a) V z y Hz Iz Hy Iy) as [_ (u & v & He & Iu & Iv)].
    exists u, v. repeat split; auto. apply clip_in_cut; auto. rewrite Iu, Iv; reflexivity. }
  assert (Hv : forall w, In w (clip O ge a V) -> hull V w /\ side ge a (fst w)) by (apply clip_vertex).
  destruct ge.
  - (* keep time >= a *)
    split.
    + destruct (inside O true a m) eqn:Im.
      * exists m. split; [apply clip_in_kept; [apply Hm | exact Im]|]. intros w Hw. apply Lm, Hv, Hw.
      * destruct (Hcut m (proj1 Hm) Im) as (u & v & He & Iu & Iv & Hc).
        exists (cut O a u v). split; auto. intros w Hw. destruct (Hv w Hw) as [HVw Sw].
        apply inside_false in Im.
        destruct (cross_pt true a m w Im Sw) as (s0 & Hs0 & Ex).
        assert (Hx : hull V (mix s0 m w)) by (apply hull_mix; auto; apply hull_v, Hm).
        pose proof (cut_bot true a V u v _ C He Iu Iv Hx Ex) as B. simpl in B.
        destruct (Lm w HVw) as [_ Lw]. unfold side in Sw. split; [exact Sw|].
        simpl snd in *. simpl in B. nra.
    + destruct (inside O true a M) eqn:IM.
      * exists M. split; [apply clip_in_kept; [apply HM | exact IM]|]. intros w Hw. apply LM, Hv, Hw.
      * exfalso. apply inside_false in IM. apply inside_true in Iz. unfold side, strictly_out in *.
        destruct (LM z (hull_v _ _ Hz)). lra.
  - (* keep time <= a *)
    split.
    + destruct (inside O false a m) eqn:Im.
      * exists m. split; [apply clip_in_kept; [apply Hm | exact Im]|]. intros w Hw. apply Lm, Hv, Hw.
      * exfalso. apply inside_false in Im. apply inside_true in Iz. unfold side, strictly_out in *.
        destruct (Lm z (hull_v _ _ Hz)). lra.
    + destruct (inside O false a M) eqn:IM.
      * exists M. split; [apply clip_in_kept; [apply HM | exact IM]|]. intros w Hw. apply LM, Hv, Hw.
      * destruct (Hcut M (proj1 HM) IM) as (u & v & He & Iu & Iv & Hc).
        exists (cut O a u v). split; auto. intros w Hw. destruct (Hv w Hw) as [HVw Sw].
        apply inside_false in IM.
        destruct (cross_pt false a M w IM Sw) as (s0 & Hs0 & Ex).
        assert (Hx : hull V (mix s0 M w)) by (apply hull_mix; auto; apply hull_v, HM).
        pose proof (cut_bot false a V u v _ C He Iu Iv Hx Ex) as B. simpl in B.
        destruct (LM w HVw) as [_ Lw]. unfold side in Sw. split; [exact Sw|].
        simpl snd in *. simpl in B. nra.
Qed.

Theorem regular_shear k V : 0 <= k -> regular V -> regular (map (shearp k) V).
Proof.
  intros Hk [-> | [(m & Hm & Lm) (M & HM & LM)]]; [left; reflexivity|]. right. split.
  - exists (shearp k m). split; [apply in_map; auto|]. intros w Hw. apply in_map_iff in Hw.
    destruct Hw as (w0 & <- & Hw0). destruct (Lm w0 Hw0). unfold shearp; simpl. nra.
  - exists (shearp k M). split; [apply in_map; auto|]. intros w Hw. apply in_map_iff in Hw.
    destruct Hw as (w0 & <- & Hw0). destruct (LM w0 Hw0). unfold shearp; simpl. nra.
Qed.

Lemma regular_rect t0 t1 w0 w1 : t0 <= t1 -> w0 <= w1 -> regular (rect_poly t0 t1 w0 w1).
Proof.
  intros Ht Hw. right. split.
  - exists (t0, w0). split; [simpl; auto|]. intros w [<- | [<- | [<- | [<- | []]]]]; simpl; lra.
  - exists (t1, w1). split; [simpl; auto|]. intros w [<- | [<- | [<- | [<- | []]]]]; simpl; lra.
Qed.

(* ---- frames *)
Definition frame_regular fr : Prop := forall V, In V (fpolys fr) -> regular V.
Definition frame_cr fr : Prop := frame_convex mn h sc fr /\ frame_regular fr.

Lemma cr_propagate fr d : 0 <= al -> fdist fr <= d -> frame_cr fr -> frame_cr (propagate_to O d fr).
Proof.
  intros Ha Hd [C Rg]. split; intros V HV; unfold propagate_to in HV; simpl in HV;
    apply in_map_iff in HV; destruct HV as (V0 & <- & HV0); rewrite shear_map.
  - apply shear_convex; auto.
  - apply regular_shear; auto. apply Rmult_le_pos; auto. simpl. lra.
Qed.

Lemma cr_chop (c : chopper O) fr f : 0 <= al -> frame_cr fr -> chop_frame O c fr = Some f -> frame_cr f.
Proof.
  intros Ha CR E. apply chop_frame_some in E. destruct E as [Hd ->].
  destruct (cr_propagate fr (cdist c) Ha Hd CR) as [C Rg].
  split; intros V HV; simpl in HV; apply in_flat_map in HV; destruct HV as (V0 & HV0 & HV);
    apply in_flat_map in HV; destruct HV as (w & Hw & HV).
  - eapply chop1_convex; eauto.
  - apply chop1_in in HV. destruct HV as [-> _].
    apply regular_clip; [apply clip_convex; auto|]. apply regular_clip; auto.
Qed.

Lemma cr_cascade : forall (cs : list (chopper O)) fr fs, 0 <= al -> frame_cr fr ->
  cascade_go O fr cs = Some fs -> forall f, In f fs -> frame_cr f.
Proof.
  induction cs as [|c cs IH]; simpl; intros fr fs Ha CR E f Hf.
  - inversion E; subst. inversion Hf.
  - destruct (chop_frame O c fr) as [f1|] eqn:Ec; [|discriminate].
    destruct (cascade_go O f1 cs) as [fs'|] eqn:Eg; [|discriminate]. inversion E; subst fs.
    pose proof (cr_chop c fr f1 Ha CR Ec) as CR1.
    destruct Hf as [<- | Hf]; auto. eapply IH; eauto.
Qed.

(* regular_R, geometric form *)
Theorem regular_frames t0 t1 w0 w1 (cs : list (chopper O)) s : 0 <= al -> t0 <= t1 -> w0 <= w1 ->
  seq_chop O cs (source O t0 t1 w0 w1) = Some s ->
  forall fr, In fr s ->
    frame_regular fr /\ forall d, fdist fr <= d -> frame_regular (propagate_to O d fr).
Proof.
  intros Ha Ht Hw E fr Hfr.
  assert (CR0 : frame_cr (mkframe (O:=O) 0 [rect_poly t0 t1 w0 w1])).
  { split; intros V [<- | []]; [apply rect_convex | apply regular_rect]; auto. }
  assert (CR : frame_cr fr).
  { unfold seq_chop in E.
    destruct (cascade_go O (last_frame O (source O t0 t1 w0 w1)) (sort O cs)) as [fs|] eqn:Eg; [|discriminate].
    inversion E; subst s. simpl in Hfr. destruct Hfr as [<- | Hfr]; auto.
    eapply cr_cascade; eauto. }
  split; [apply CR|]. intros d Hd. apply (cr_propagate fr d Ha Hd CR).
Qed.

(* ---- the boolean test of the model (== on reals) decides the geometric notion *)
Lemma minl_spec : forall (l : list R) x, In (minl O x l) (x :: l) /\ forall y, In y (x :: l) -> minl O x l <= y.
Proof.
  induction l as [|b l IH]; intros x.
  - simpl. split; auto. intros y [<- | []]; lra.
  - change (minl O x (b :: l)) with (minl O (tmin2 O x b) l). destruct (IH (tmin2 O x b)) as [H1 H2].
    assert (Hm : (tmin2 O x b = x \/ tmin2 O x b = b) /\ tmin2 O x b <= x /\ tmin2 O x b <= b).
    { unfold tmin2; simpl. unfold Rleb. destruct (Rle_dec b x); split; auto; lra. }
    destruct Hm as [Hm1 [Hm2 Hm3]]. split.
    + destruct H1 as [H1 | H1]; [rewrite <- H1; destruct Hm1 as [-> | ->]; simpl; auto | simpl; auto].
    + intros y [<- | [<- | Hy]].
      * eapply Rle_trans; [apply H2; left; reflexivity | exact Hm2].
      * eapply Rle_trans; [apply H2; left; reflexivity | exact Hm3].
      * apply H2. right; exact Hy.
Qed.
Lemma maxl_spec : forall (l : list R) x, In (maxl O x l) (x :: l) /\ forall y, In y (x :: l) -> y <= maxl O x l.
Proof.
  induction l as [|b l IH]; intros x.
  - simpl. split; auto. intros y [<- | []]; lra.
  - change (maxl O x (b :: l)) with (maxl O (tmax2 O x b) l). destruct (IH (tmax2 O x b)) as [H1 H2].
    assert (Hm : (tmax2 O x b = x \/ tmax2 O x b = b) /\ x <= tmax2 O x b /\ b <= tmax2 O x b).
    { unfold tmax2; simpl. unfold Rleb. destruct (Rle_dec x b); split; auto; lra. }
    destruct Hm as [Hm1 [Hm2 Hm3]]. split.
    + destruct H1 as [H1 | H1]; [rewrite <- H1; destruct Hm1 as [-> | ->]; simpl; auto | simpl; auto].
    + intros y [<- | [<- | Hy]].
      * eapply Rle_trans; [exact Hm2 | apply H2; left; reflexivity].
      * eapply Rle_trans; [exact Hm3 | apply H2; left; reflexivity].
      * apply H2. right; exact Hy.
Qed.

Lemma Reqb_iff (x y : R) : Reqb x y = true <-> x = y.
Proof. unfold Reqb. destruct (Req_EM_T x y); split; auto; discriminate. Qed.

Lemma is_regular_iff V : V <> [] ->
  (is_regular O V = true <-> (exists m, lo V m) /\ (exists M, hi V M)).
Proof.
  intros Hne. destruct V as [|v0 V']; [congruence|]. set (V := v0 :: V').
  unfold is_regular. change (map fst V) with (fst v0 :: map fst V'). change (map snd V) with (snd v0 :: map snd V').
  simpl min_of. simpl max_of.
  destruct (minl_spec (map fst V') (fst v0)) as [T0in T0le].
  destruct (maxl_spec (map fst V') (fst v0)) as [T1in T1le].
  destruct (minl_spec (map snd V') (snd v0)) as [W0in W0le].
  destruct (maxl_spec (map snd V') (snd v0)) as [W1in W1le].
  change (fst v0 :: map fst V') with (map fst V) in *. change (snd v0 :: map snd V') with (map snd V) in *.
  set (t0 := minl O (fst v0) (map fst V')) in *. set (t1 := maxl O (fst v0) (map fst V')) in *.
  set (w0 := minl O (snd v0) (map snd V')) in *. set (w1 := maxl O (snd v0) (map snd V')) in *.
  rewrite andb_true_iff, !existsb_exists.
  assert (Hf : forall w : P2, In w V -> In (fst w) (map fst V)) by (intros; apply in_map; auto).
  assert (Hs : forall w : P2, In w V -> In (snd w) (map snd V)) by (intros; apply in_map; auto).
  split.
  - intros [(m & Hm & Em) (M & HM & EM)].
    apply andb_true_iff in Em, EM. destruct Em as [Em1 Em2], EM as [EM1 EM2].
    simpl in Em1, Em2, EM1, EM2. apply Reqb_iff in Em1, Em2, EM1, EM2. split.
    + exists m. split; auto. intros w Hw. rewrite Em1, Em2. split; [apply T0le | apply W0le]; auto.
    + exists M. split; auto. intros w Hw. rewrite EM1, EM2. split; [apply T1le | apply W1le]; auto.
  - intros [(m & Hm & Lm) (M & HM & LM)]. split.
    + exists m. split; auto. apply andb_true_iff. simpl.
      apply in_map_iff in T0in, W0in. destruct T0in as (p1 & E1 & Hp1), W0in as (p2 & E2 & Hp2).
      split; apply Reqb_iff; apply Rle_antisym.
      * rewrite <- E1. apply Lm; auto. * apply T0le; auto.
      * rewrite <- E2. apply Lm; auto. * apply W0le; auto.
    + exists M. split; auto. apply andb_true_iff. simpl.
      apply in_map_iff in T1in, W1in. destruct T1in as (p1 & E1 & Hp1), W1in as (p2 & E2 & Hp2).
      split; apply Reqb_iff; apply Rle_antisym.
      * apply T1le; auto. * rewrite <- E1. apply LM; auto.
      * apply W1le; auto. * rewrite <- E2. apply LM; auto.
Qed.

(* no produced subframe is empty *)
Definition frame_ne fr : Prop := forall V, In V (fpolys fr) -> V <> [].
Lemma ne_propagate fr d : frame_ne fr -> frame_ne (propagate_to O d fr).
Proof.
  intros H V HV. unfold propagate_to in HV; simpl in HV. apply in_map_iff in HV.
  destruct HV as (V0 & <- & HV0). specialize (H V0 HV0). destruct V0; [exfalso; apply H; reflexivity | discriminate].
Qed.
Lemma ne_chop (c : chopper O) fr f : chop_frame O c fr = Some f -> frame_ne f.
Proof.
  intros E. apply chop_frame_some in E. destruct E as [_ ->]. intros V HV. simpl in HV.
  apply in_flat_map in HV. destruct HV as (V0 & _ & HV). apply in_flat_map in HV. destruct HV as (w & _ & HV).
  apply chop1_in in HV. tauto.
Qed.
Lemma ne_cascade : forall (cs : list (chopper O)) fr fs,
  cascade_go O fr cs = Some fs -> forall f, In f fs -> frame_ne f.
Proof.
  induction cs as [|c cs IH]; simpl; intros fr fs E f Hf.
  - inversion E; subst. inversion Hf.
  - destruct (chop_frame O c fr) as [f1|] eqn:Ec; [|discriminate].
    destruct (cascade_go O f1 cs) as [fs'|] eqn:Eg; [|discriminate]. inversion E; subst fs.
    destruct Hf as [<- | Hf]; [eapply ne_chop; eauto | eapply IH; eauto].
Qed.

(* regular_R: is_regular() is True for every subframe of every frame of a cascade, also after
   propagating further downstream; hence subbounds() does not take its NotImplementedError branch *)
Theorem regular_R t0 t1 w0 w1 (cs : list (chopper O)) s : 0 <= al -> t0 <= t1 -> w0 <= w1 ->
  seq_chop O cs (source O t0 t1 w0 w1) = Some s ->
  forall fr d, In fr s -> fdist fr <= d ->
    forallb (is_regular O) (fpolys fr) = true /\
    forallb (is_regular O) (fpolys (propagate_to O d fr)) = true /\
    subbounds O (propagate_to O d fr) <> inr true.
Proof.
  intros Ha Ht Hw E fr d Hfr Hd.
  destruct (regular_frames t0 t1 w0 w1 cs s Ha Ht Hw E fr Hfr) as [R1 R2]. specialize (R2 d Hd).
  assert (NE : frame_ne fr).
  { unfold seq_chop in E.
    destruct (cascade_go O (last_frame O (source O t0 t1 w0 w1)) (sort O cs)) as [fs|] eqn:Eg; [|discriminate].
    inversion E; subst s. simpl in Hfr. destruct Hfr as [<- | Hfr].
    - intros V [<- | []]. discriminate.
    - eapply ne_cascade; eauto. }
  assert (F : forall f, frame_ne f -> frame_regular f -> forallb (is_regular O) (fpolys f) = true).
  { intros f N Rg. apply forallb_forall. intros V HV. apply is_regular_iff; [apply N; auto|].
    destruct (Rg V HV) as [EV | H]; [exfalso; apply (N V HV EV) | exact H]. }
  pose proof (F fr NE R1) as F1. pose proof (F _ (ne_propagate fr d NE) R2) as F2.
  repeat split; auto. apply subbounds_regular; exact F2.
Qed.
End RegR.
