(* C11/Clip.v — hand-written executable model of src/scippneutron/tof/chopper_cascade.py
   (tie B: run against the implementation on every check, coq-run/C11/Corr.v).

   The algorithms only use + - * / and comparisons of scalars, so the model is written
   over a record [COps] of those operations and instantiated at
     R          (proofs: the Verif.C11.Proofs files),
     Q          (exact execution),
     PrimFloat  (binary64, bit for bit — used for the tie-sensitive facts: vertex
                 order/number, `is_regular`).
   Definitions only — no proofs in this file.

   Python                                         model
   -------------------------------------------    ----------------------------------------
   wavelength_to_inverse_velocity(w)              ivel w  = to_s_per_m ((w * m_n) / h)
   propagate_times(t, w, d)                       t + d * ivel w
   Subframe.propagate_by(delta)                   shear delta poly
   Frame.propagate_to(d)                          propagate_to d fr   (delta = d - fr.distance)
   _chop(frame, time, close_to_open)              clip ge time poly    (ge = close_to_open)
   Frame.chop(chopper)                            chop_frame c fr      (None = ValueError)
   FrameSequence.from_source_pulse                source
   FrameSequence.chop / propagate_to / [d]        seq_chop / seq_prop / getitem
   Subframe.is_regular, Frame.bounds/subbounds    is_regular, bounds, subbounds

   A polygon is the list of its vertices (time [s], wavelength [angstrom]) in the order
   of the `vertex` dimension. *)
From Coq Require Import List Bool.
Import ListNotations.

Record COps := mkCOps {
  T : Type;
  add : T -> T -> T;
  sub : T -> T -> T;
  mul : T -> T -> T;
  div : T -> T -> T;
  zero : T;                    (* source distance sc.scalar(0, unit='m') *)
  one : T;                     (* the literal 1 in `1 - t` *)
  leb : T -> T -> bool;        (* a <= b *)
  ltb : T -> T -> bool;        (* a < b *)
  eqb : T -> T -> bool;        (* a == b *)
  c_mn : T;                    (* sc.constants.m_n [kg] *)
  c_h : T;                     (* sc.constants.h [J*s] *)
  to_s_per_m : T -> T;         (* .to(unit='s/m') of an angstrom*kg/(J*s) value: times 1e-10 *)
  reuse_equal : bool           (* which text of `_chop` is modelled: true = the wavelength of an edge with
                                  equal end wavelengths is reused at the intersection (notes/fixes/
                                  C11_regular.patch); false = always interpolated (the text before the fix,
                                  kept for regular_float_refuted and for diagnosing an unfixed tree) *)
}.

(* consecutive pairs of a list: pairs [a;b;c] = [(a,b);(b,c)] *)
Fixpoint pairs {A : Type} (l : list A) : list (A * A) :=
  match l with
  | x :: ((y :: _) as r) => (x, y) :: pairs r
  | _ => []
  end.
(* `for i in range(n): j = (i + 1) % n` — the pairs (v_i, v_j), wrapping from last to first *)
Definition edges {A : Type} (l : list A) : list (A * A) :=
  match l with
  | [] => []
  | f :: _ => pairs (l ++ [f])
  end.

Section Model.
Variable O : COps.
Notation T := (T O).
Definition pt : Type := (T * T)%type.        (* (time, wavelength) *)
Definition poly : Type := list pt.

Definition ivel (w : T) : T := to_s_per_m O (div O (mul O w (c_mn O)) (c_h O)).
(* propagate_times: time + distance * inverse_velocity *)
Definition shear (d : T) (V : poly) : poly :=
  map (fun p => (add O (fst p) (mul O d (ivel (snd p))), snd p)) V.

(* inside = frame.time >= time if close_to_open else frame.time <= time *)
Definition inside (ge : bool) (a : T) (p : pt) : bool :=
  if ge then leb O a (fst p) else leb O (fst p) a.
(* t = (time - time[i]) / (time[j] - time[i])
   if wav[i] == wav[j]: v = wav[i]  else: v = (1 - t) * wav[i] + t * wav[j]
   output (time, v) *)
Definition cut (a : T) (p q : pt) : pt :=
  let s := div O (sub O a (fst p)) (sub O (fst q) (fst p)) in
  (a, if reuse_equal O && eqb O (snd p) (snd q) then snd p
      else add O (mul O (sub O (one O) s) (snd p)) (mul O s (snd q))).
Definition step (ge : bool) (a : T) (e : pt * pt) : list pt :=
  (if inside ge a (fst e) then [fst e] else [])
  ++ (if xorb (inside ge a (fst e)) (inside ge a (snd e)) then [cut a (fst e) (snd e)] else []).
(* _chop: the output list ([] stands for `return None`) *)
Definition clip (ge : bool) (a : T) (V : poly) : poly := flat_map (step ge a) (edges V).

(* one opening (open, close) applied to one subframe: 0 or 1 subframes *)
Definition chop1 (w : T * T) (V : poly) : list poly :=
  match clip true (fst w) V with
  | [] => []
  | V1 => match clip false (snd w) V1 with
          | [] => []
          | V2 => [V2]
          end
  end.

Record chopper := mkchopper { cdist : T; cwin : list (T * T) }.   (* distance, zip(time_open, time_close) *)
Record frame := mkframe { fdist : T; fpolys : list poly }.

Definition propagate_to (d : T) (fr : frame) : frame :=
  mkframe d (map (shear (sub O d (fdist fr))) (fpolys fr)).

(* Frame.chop; None = ValueError (chopper before the frame) *)
Definition chop_frame (c : chopper) (fr : frame) : option frame :=
  if ltb O (cdist c) (fdist fr) then None
  else
    let fr' := propagate_to (cdist c) fr in
    Some (mkframe (cdist c)
            (flat_map (fun V => flat_map (fun w => chop1 w V) (cwin c)) (fpolys fr'))).

(* sorted(choppers, key=distance): stable insertion sort *)
Fixpoint insert (c : chopper) (l : list chopper) : list chopper :=
  match l with
  | [] => [c]
  | y :: r => if ltb O (cdist y) (cdist c) then y :: insert c r else c :: y :: r
  end.
Fixpoint sort (l : list chopper) : list chopper :=
  match l with
  | [] => []
  | c :: r => insert c (sort r)
  end.

(* frames appended by `for chopper in choppers: frames.append(frames[-1].chop(chopper))` *)
Fixpoint cascade_go (fr : frame) (cs : list chopper) : option (list frame) :=
  match cs with
  | [] => Some []
  | c :: r =>
      match chop_frame c fr with
      | None => None
      | Some f => match cascade_go f r with
                  | None => None
                  | Some fs => Some (f :: fs)
                  end
      end
  end.

Definition source (tmin tmax wmin wmax : T) : list frame :=
  [mkframe (zero O) [[(tmin, wmin); (tmax, wmin); (tmax, wmax); (tmin, wmax)]]].

Definition empty_frame : frame := mkframe (zero O) [].
Definition last_frame (s : list frame) : frame := last s empty_frame.

Definition seq_chop (cs : list chopper) (s : list frame) : option (list frame) :=
  match cascade_go (last_frame s) (sort cs) with
  | None => None
  | Some fs => Some (s ++ fs)
  end.
Definition seq_prop (d : T) (s : list frame) : list frame :=
  s ++ [propagate_to d (last_frame s)].

(* __getitem__(distance): the last frame of the leading run of frames with distance <= d,
   propagated to d; None = AttributeError on None *)
Fixpoint frame_before (d : T) (s : list frame) (acc : option frame) : option frame :=
  match s with
  | [] => acc
  | f :: r => if ltb O d (fdist f) then acc else frame_before d r (Some f)
  end.
Definition getitem (d : T) (s : list frame) : option frame :=
  match frame_before d s None with
  | None => None
  | Some f => Some (propagate_to d f)
  end.

(* programs of FrameSequence calls *)
Inductive cmd := CChop (cs : list chopper) | CProp (d : T).
Fixpoint run (s : list frame) (p : list cmd) : option (list frame) :=
  match p with
  | [] => Some s
  | CChop cs :: r => match seq_chop cs s with None => None | Some s' => run s' r end
  | CProp d :: r => run (seq_prop d s) r
  end.

(* ---- reductions *)
Definition tmin2 (a b : T) : T := if leb O b a then b else a.
Definition tmax2 (a b : T) : T := if leb O a b then b else a.
Definition minl (x : T) (l : list T) : T := fold_left tmin2 l x.
Definition maxl (x : T) (l : list T) : T := fold_left tmax2 l x.
Definition min_of (l : list T) : option T := match l with [] => None | x :: r => Some (minl x r) end.
Definition max_of (l : list T) : option T := match l with [] => None | x :: r => Some (maxl x r) end.

(* Subframe.is_regular *)
Definition is_regular (V : poly) : bool :=
  match min_of (map fst V), max_of (map fst V), min_of (map snd V), max_of (map snd V) with
  | Some t0, Some t1, Some w0, Some w1 =>
      existsb (fun p => eqb O (fst p) t0 && eqb O (snd p) w0) V
      && existsb (fun p => eqb O (fst p) t1 && eqb O (snd p) w1) V
  | _, _, _, _ => false
  end.

(* (start_time, end_time, start_wavelength, end_wavelength) of one subframe *)
Definition sub_bounds (V : poly) : option (T * T * T * T) :=
  match min_of (map fst V), max_of (map fst V), min_of (map snd V), max_of (map snd V) with
  | Some t0, Some t1, Some w0, Some w1 => Some (t0, t1, w0, w1)
  | _, _, _, _ => None
  end.
(* Frame.bounds: None = exception (no subframes) *)
Definition bounds (fr : frame) : option (T * T * T * T) :=
  let ts := flat_map (fun V => map fst V) (fpolys fr) in
  let ws := flat_map (fun V => map snd V) (fpolys fr) in
  match min_of ts, max_of ts, min_of ws, max_of ws with
  | Some t0, Some t1, Some w0, Some w1 => Some (t0, t1, w0, w1)
  | _, _, _, _ => None
  end.
(* Frame.subbounds: inl = the per-subframe bounds, inr true = NotImplementedError (irregular
   subframe), inr false = another exception (no subframes: sc.concat of an empty list) *)
Definition subbounds (fr : frame) : (list (T * T * T * T)) + bool :=
  match fpolys fr with
  | [] => inr false
  | _ =>
      if forallb is_regular (fpolys fr)
      then inl (flat_map (fun V => match sub_bounds V with Some b => [b] | None => [] end) (fpolys fr))
      else inr true
  end.
End Model.

Arguments mkchopper {O}. Arguments cdist {O}. Arguments cwin {O}.
Arguments mkframe {O}. Arguments fdist {O}. Arguments fpolys {O}.
Arguments CChop {O}. Arguments CProp {O}.
