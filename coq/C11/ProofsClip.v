(* C11/ProofsClip.v — the Sutherland-Hodgman step of `_chop` over the reals:
   soundness, completeness for convex polygons, preservation of convexity. *)
From Coq Require Import Reals List Bool Lra Psatz.
From Verif.Sem Require Import RInst.
From Verif.C11 Require Import Clip Inst.
Import ListNotations.
Open Scope R_scope.

Definition P2 : Type := (R * R)%type.

(* ------------------------------------------------------------------ convex hull *)
Definition mix (s : R) (p q : P2) : P2 :=
  ((1 - s) * fst p + s * fst q, (1 - s) * snd p + s * snd q).

(* the smallest set containing the vertices and closed under segments *)
Inductive hull (V : list P2) : P2 -> Prop :=
| hull_v : forall v, In v V -> hull V v
| hull_mix : forall p q s, hull V p -> hull V q -> 0 <= s <= 1 -> hull V (mix s p q).

Lemma hull_ind_conv (V : list P2) (Pr : P2 -> Prop) :
  (forall v, In v V -> Pr v) ->
  (forall p q s, Pr p -> Pr q -> 0 <= s <= 1 -> Pr (mix s p q)) ->
  forall p, hull V p -> Pr p.
Proof. intros Hv Hm p H. induction H; auto. Qed.

Lemma hull_sub V W : (forall v, In v V -> hull W v) -> forall p, hull V p -> hull W p.
Proof. intros H. apply hull_ind_conv; auto. intros; apply hull_mix; auto. Qed.

Lemma hull_incl V W : incl V W -> forall p, hull V p -> hull W p.
Proof. intros H. apply hull_sub. intros v Hv. apply hull_v, H, Hv. Qed.

Lemma hull_nil p : ~ hull [] p.
Proof. intro H. induction H; auto. Qed.

Lemma pair_eq (a b c d : R) : a = c -> b = d -> (a, b) = (c, d).
Proof. intros; subst; reflexivity. Qed.

(* a point of the segment [p,q] written as a mix *)
Lemma hull_seg V p q x : hull V p -> hull V q ->
  (exists s, 0 <= s <= 1 /\ x = mix s p q) -> hull V x.
Proof. intros Hp Hq (s & Hs & ->). apply hull_mix; auto. Qed.

(* twice the signed area of (u, v, w): >= 0 iff w is on the left of (or on) the directed line u -> v *)
Definition cross (u v w : P2) : R :=
  (fst v - fst u) * (snd w - snd u) - (snd v - snd u) * (fst w - fst u).

Lemma cross_mix u v p q s :
  cross u v (mix s p q) = (1 - s) * cross u v p + s * cross u v q.
Proof. unfold cross, mix; simpl; ring. Qed.

(* ------------------------------------------------------------------ lists of consecutive pairs *)
Lemma pairs_cons2 {A} (x y : A) r : pairs (x :: y :: r) = (x, y) :: pairs (y :: r).
Proof. reflexivity. Qed.

Lemma pairs_in {A} (l : list A) u v : In (u, v) (pairs l) -> In u l /\ In v l.
Proof.
  induction l as [|x [|y r] IH]; simpl; try tauto.
  intros [E | H]. - inversion E; subst; auto.
  - destruct (IH H); simpl in *; tauto.
Qed.

Lemma pairs_app_mid {A} (l1 l2 : list A) x :
  pairs (l1 ++ [x]) ++ pairs (x :: l2) = pairs (l1 ++ x :: l2).
Proof.
  induction l1 as [|a [|b r] IH]; simpl; auto.
  simpl in IH. rewrite <- IH. reflexivity.
Qed.

Lemma pairs_map {A B} (f : A -> B) (l : list A) :
  pairs (map f l) = map (fun e => (f (fst e), f (snd e))) (pairs l).
Proof. induction l as [|x [|y r] IH]; simpl; auto. simpl in IH. rewrite IH. reflexivity. Qed.

Lemma edges_in {A} (l : list A) u v : In (u, v) (edges l) -> In u l /\ In v l.
Proof.
  destruct l as [|f r]; simpl; [tauto|]. intros H.
  change (In (u, v) (pairs ((f :: r) ++ [f]))) in H. apply pairs_in in H.
  destruct H as [H1 H2]. rewrite in_app_iff in H1, H2. simpl in *. tauto.
Qed.

Lemma edges_map {A B} (f : A -> B) (l : list A) :
  edges (map f l) = map (fun e => (f (fst e), f (snd e))) (edges l).
Proof.
  destruct l as [|x r]; simpl; auto.
  change (pairs (map f (x :: r) ++ [f x]) = map (fun e => (f (fst e), f (snd e))) (pairs ((x :: r) ++ [x]))).
  rewrite <- pairs_map, map_app. reflexivity.
Qed.

(* every vertex starts an edge: the first components of the edges are the vertices *)
Lemma pairs_fst {A} (l : list A) (x : A) : map fst (pairs (l ++ [x])) = l.
Proof. induction l as [|a [|b r] IH]; simpl; auto. simpl in IH. rewrite IH. reflexivity. Qed.
Lemma edges_fst {A} (l : list A) : map fst (edges l) = l.
Proof. destruct l as [|f r]; simpl; auto. change (map fst (pairs ((f :: r) ++ [f])) = f :: r). apply pairs_fst. Qed.

(* a chain that starts with a P and contains a non-P has a P -> non-P step *)
Lemma trans_from_head {A} (P : A -> bool) (m : list A) x y :
  hd_error m = Some x -> P x = true -> In y m -> P y = false ->
  exists u v, In (u, v) (pairs m) /\ P u = true /\ P v = false.
Proof.
  revert x. induction m as [|a m IH]; simpl; intros x Hx Px Hy Py; [discriminate|].
  inversion Hx; subst a. destruct Hy as [-> | Hy]; [congruence|].
  destruct m as [|z m']; [inversion Hy|].
  destruct (P z) eqn:Pz.
  - destruct (IH z eq_refl Pz Hy Py) as (u & v & H & ?). exists u, v. split; auto. right; exact H.
  - exists x, z. simpl; auto.
Qed.
(* a chain that ends with a P and contains a non-P has a non-P -> P step *)
Lemma trans_to_last {A} (P : A -> bool) (m : list A) x y :
  P x = true -> In y (m ++ [x]) -> P y = false ->
  exists u v, In (u, v) (pairs (m ++ [x])) /\ P u = false /\ P v = true.
Proof.
  intros Px. revert y. induction m as [|a m IH]; simpl; intros y Hy Py.
  - destruct Hy as [-> | []]; congruence.
  - assert (Hne : exists z r, m ++ [x] = z :: r).
    { destruct m; simpl; eauto. }
    destruct Hne as (z & r & E).
    destruct Hy as [-> | Hy].
    + destruct (P z) eqn:Pz.
      * exists y, z. rewrite E. simpl; auto.
      * assert (Hz : In z (m ++ [x])) by (rewrite E; left; reflexivity).
        destruct (IH z Hz Pz) as (u & v & H & ?). exists u, v. split; auto.
        rewrite E in *. right; exact H.
    + destruct (IH y Hy Py) as (u & v & H & ?). exists u, v. split; auto.
      rewrite E in *. right; exact H.
Qed.

(* in a cyclic list with a P and a non-P vertex both kinds of transition occur *)
Lemma cyclic_transitions {A} (P : A -> bool) (l : list A) x y :
  In x l -> P x = true -> In y l -> P y = false ->
  (exists u v, In (u, v) (edges l) /\ P u = true /\ P v = false) /\
  (exists u v, In (u, v) (edges l) /\ P u = false /\ P v = true).
Proof.
  intros Hx Px Hy Py. destruct l as [|f r]; [inversion Hx|].
  unfold edges. set (l := f :: r) in *.
  destruct (P f) eqn:Pf.
  - split.
    + apply (trans_from_head P (l ++ [f]) f y); auto. apply in_or_app; auto.
    + apply (trans_to_last P l f y); auto. apply in_or_app; auto.
  - split.
    + destruct (trans_to_last (fun a => negb (P a)) l f x) as (u & v & H & Hu & Hv).
      * rewrite Pf; reflexivity. * apply in_or_app; auto. * rewrite Px; reflexivity.
      * exists u, v. split; auto. split; [destruct (P u) | destruct (P v)]; simpl in *; congruence.
    + destruct (trans_from_head (fun a => negb (P a)) (l ++ [f]) f x) as (u & v & H & Hu & Hv); auto.
      * rewrite Pf; reflexivity. * apply in_or_app; auto. * rewrite Px; reflexivity.
      * exists u, v. split; auto. split; [destruct (P u) | destruct (P v)]; simpl in *; congruence.
Qed.
