(* C11/ProofsClip.v — the Sutherland-Hodgman step of `_chop` over the reals:
   soundness, completeness for convex polygons, preservation of convexity. *)
From Coq Require Import Reals List Bool Lra Psatz.
From Verif.Sem Require Import RInst.
From Verif.C11 Require Import Clip Inst.
Import ListNotations.
Open Scope R_scope.

Definition P2 : Type := (R * R)%type.

(* ------------------------------------------------------------------ convex hull *)
Definition mix (s : R) (p q : P2) : P2 :=
  ((1 - s) * fst p + s * fst q, (1 - s) * snd p + s * snd q).

(* the smallest set containing the vertices and closed under segments *)
Inductive hull (V : list P2) : P2 -> Prop :=
| hull_v : forall v, In v V -> hull V v
| hull_mix : forall p q s, hull V p -> hull V q -> 0 <= s <= 1 -> hull V (mix s p q).

Lemma hull_ind_conv (V : list P2) (Pr : P2 -> Prop) :
  (forall v, In v V -> Pr v) ->
  (forall p q s, Pr p -> Pr q -> 0 <= s <= 1 -> Pr (mix s p q)) ->
  forall p, hull V p -> Pr p.
Proof. intros Hv Hm p H. induction H; auto. Qed.

Lemma hull_sub V W : (forall v, In v V -> hull W v) -> forall p, hull V p -> hull W p.
Proof. intros H. apply hull_ind_conv; auto. intros; apply hull_mix; auto. Qed.

Lemma hull_incl V W : incl V W -> forall p, hull V p -> hull W p.
Proof. intros H. apply hull_sub. intros v Hv. apply hull_v, H, Hv. Qed.

Lemma hull_nil p : ~ hull [] p.
Proof. intro H. induction H; auto. Qed.

Lemma pair_eq (a b c d : R) : a = c -> b = d -> (a, b) = (c, d).
Proof. intros; subst; reflexivity. Qed.

(* a point of the segment [p,q] written as a mix *)
Lemma hull_seg V p q x : hull V p -> hull V q ->
  (exists s, 0 <= s <= 1 /\ x = mix s p q) -> hull V x.
Proof. intros Hp Hq (s & Hs & ->). apply hull_mix; auto. Qed.

(* twice the signed area of (u, v, w): >= 0 iff w is on the left of (or on) the directed line u -> v *)
Definition cross (u v w : P2) : R :=
  (fst v - fst u) * (snd w - snd u) - (snd v - snd u) * (fst w - fst u).

Lemma cross_mix u v p q s :
  cross u v (mix s p q) = (1 - s) * cross u v p + s * cross u v q.
Proof. unfold cross, mix; simpl; ring. Qed.

(* ------------------------------------------------------------------ lists of consecutive pairs *)
Lemma pairs_cons2 {A} (x y : A) r : pairs (x :: y :: r) = (x, y) :: pairs (y :: r).
Proof. reflexivity. Qed.

Lemma pairs_in {A} (l : list A) u v : In (u, v) (pairs l) -> In u l /\ In v l.
Proof.
  induction l as [|x [|y r] IH]; simpl; try tauto.
  intros [E | H]. - inversion E; subst; auto.
  - destruct (IH H); simpl in *; tauto.
Qed.

Lemma pairs_app_mid {A} (l1 l2 : list A) x :
  pairs (l1 ++ [x]) ++ pairs (x :: l2) = pairs (l1 ++ x :: l2).
Proof.
  induction l1 as [|a [|b r] IH]; simpl; auto.
  simpl in IH. rewrite <- IH. reflexivity.
Qed.

Lemma pairs_map {A B} (f : A -> B) (l : list A) :
  pairs (map f l) = map (fun e => (f (fst e), f (snd e))) (pairs l).
Proof. induction l as [|x [|y r] IH]; simpl; auto. simpl in IH. rewrite IH. reflexivity. Qed.

Lemma edges_in {A} (l : list A) u v : In (u, v) (edges l) -> In u l /\ In v l.
Proof.
  destruct l as [|f r]; simpl; [tauto|]. intros H.
  change (In (u, v) (pairs ((f :: r) ++ [f]))) in H. apply pairs_in in H.
  destruct H as [H1 H2]. rewrite in_app_iff in H1, H2. simpl in *. tauto.
Qed.

Lemma edges_map {A B} (f : A -> B) (l : list A) :
  edges (map f l) = map (fun e => (f (fst e), f (snd e))) (edges l).
Proof.
  destruct l as [|x r]; simpl; auto.
  change (pairs (map f (x :: r) ++ [f x]) = map (fun e => (f (fst e), f (snd e))) (pairs ((x :: r) ++ [x]))).
  rewrite <- pairs_map, map_app. reflexivity.
Qed.

(* every vertex starts an edge: the first components of the edges are the vertices *)
Lemma pairs_fst {A} (l : list A) (x : A) : map fst (pairs (l ++ [x])) = l.
Proof. induction l as [|a [|b r] IH]; simpl; auto. simpl in IH. rewrite IH. reflexivity. Qed.
Lemma edges_fst {A} (l : list A) : map fst (edges l) = l.
Proof. destruct l as [|f r]; simpl; auto. change (map fst (pairs ((f :: r) ++ [f])) = f :: r). apply pairs_fst. Qed.

(* a chain that starts with a P and contains a non-P has a P -> non-P step *)
Lemma trans_from_head {A} (P : A -> bool) (m : list A) x y :
  hd_error m = Some x -> P x = true -> In y m -> P y = false ->
  exists u v, In (u, v) (pairs m) /\ P u = true /\ P v = false.
Proof.
  revert x. induction m as [|a m IH]; simpl; intros x Hx Px Hy Py; [discriminate|].
  inversion Hx; subst a. destruct Hy as [-> | Hy]; [congruence|].
  destruct m as [|z m']; [inversion Hy|].
  destruct (P z) eqn:Pz.
  - destruct (IH z eq_refl Pz Hy Py) as (u & v & H & ?). exists u, v. split; auto. right; exact H.
  - exists x, z. simpl; auto.
Qed.
(* a chain that ends with a P and contains a non-P has a non-P -> P step *)
Lemma trans_to_last {A} (P : A -> bool) (m : list A) x y :
  P x = true -> In y (m ++ [x]) -> P y = false ->
  exists u v, In (u, v) (pairs (m ++ [x])) /\ P u = false /\ P v = true.
Proof.
  intros Px. revert y. induction m as [|a m IH]; simpl; intros y Hy Py.
  - destruct Hy as [-> | []]; congruence.
  - assert (Hne : exists z r, m ++ [x] = z :: r).
    { destruct m; simpl; eauto. }
    destruct Hne as (z & r & E).
    destruct Hy as [-> | Hy].
    + destruct (P z) eqn:Pz.
      * exists y, z. rewrite E. simpl; auto.
      * assert (Hz : In z (m ++ [x])) by (rewrite E; left; reflexivity).
        destruct (IH z Hz Pz) as (u & v & H & ?). exists u, v. split; auto.
        rewrite E in *. right; exact H.
    + destruct (IH y Hy Py) as (u & v & H & ?). exists u, v. split; auto.
      rewrite E in *. right; exact H.
Qed.

(* in a cyclic list with a P and a non-P vertex both kinds of transition occur *)
Lemma cyclic_transitions {A} (P : A -> bool) (l : list A) x y :
  In x l -> P x = true -> In y l -> P y = false ->
  (exists u v, In (u, v) (edges l) /\ P u = true /\ P v = false) /\
  (exists u v, In (u, v) (edges l) /\ P u = false /\ P v = true).
Proof.
  intros Hx Px Hy Py. destruct l as [|f r]; [inversion Hx|].
  unfold edges. set (l := f :: r) in *.
  destruct (P f) eqn:Pf.
  - split.
    + apply (trans_from_head P (l ++ [f]) f y); auto. apply in_or_app; auto.
    + apply (trans_to_last P l f y); auto. apply in_or_app; auto.
  - split.
    + destruct (trans_to_last (fun a => negb (P a)) l f x) as (u & v & H & Hu & Hv).
      * rewrite Pf; reflexivity. * apply in_or_app; auto. * rewrite Px; reflexivity.
      * exists u, v. split; auto. split; [destruct (P u) | destruct (P v)]; simpl in *; congruence.
    + destruct (trans_from_head (fun a => negb (P a)) (l ++ [f]) f x) as (u & v & H & Hu & Hv); auto.
      * rewrite Pf; reflexivity. * apply in_or_app; auto. * rewrite Px; reflexivity.
      * exists u, v. split; auto. split; [destruct (P u) | destruct (P v)]; simpl in *; congruence.
Qed.

Lemma flat_map_single {A B} (f : A -> list B) (g : A -> B) (l : list A) :
  (forall e, In e l -> f e = [g e]) -> flat_map f l = map g l.
Proof.
  induction l as [|a l IH]; simpl; intros H; auto.
  rewrite (H a) by auto. simpl. rewrite IH; auto.
Qed.

(* ------------------------------------------------------------------ the model over R *)
Section ClipR.
Variables mn h sc : R.
Notation O := (ROps mn h sc).
Implicit Types a : R.

Definition side (ge : bool) (a t : R) : Prop := if ge then a <= t else t <= a.
Definition strictly_out (ge : bool) (a t : R) : Prop := if ge then t < a else a < t.

Lemma inside_true ge a (p : P2) : inside O ge a p = true <-> side ge a (fst p).
Proof.
  unfold inside, side; destruct ge; simpl; unfold Rleb;
    match goal with |- context [Rle_dec ?x ?y] => destruct (Rle_dec x y) end;
    split; intros H; auto; try discriminate; exfalso; auto.
Qed.
Lemma inside_false ge a (p : P2) : inside O ge a p = false <-> strictly_out ge a (fst p).
Proof.
  unfold inside, strictly_out; destruct ge; simpl; unfold Rleb;
    match goal with |- context [Rle_dec ?x ?y] => destruct (Rle_dec x y) end;
    split; intros H; auto; try discriminate; try lra; exfalso; lra.
Qed.

Lemma side_mix ge a (p q : P2) s : 0 <= s <= 1 ->
  side ge a (fst p) -> side ge a (fst q) -> side ge a (fst (mix s p q)).
Proof. unfold side, mix; destruct ge; simpl; intros; nra. Qed.
Lemma out_mix ge a (p q : P2) s : 0 <= s <= 1 ->
  strictly_out ge a (fst p) -> strictly_out ge a (fst q) -> strictly_out ge a (fst (mix s p q)).
Proof.
  unfold strictly_out, mix; destruct ge; simpl; intros Hs Hp Hq.
  - destruct (Rle_dec (fst p) (fst q)).
    + assert (0 <= (1 - s) * (fst q - fst p)) by (apply Rmult_le_pos; lra). lra.
    + assert (0 <= s * (fst p - fst q)) by (apply Rmult_le_pos; lra). lra.
  - destruct (Rle_dec (fst p) (fst q)).
    + assert (0 <= s * (fst q - fst p)) by (apply Rmult_le_pos; lra). lra.
    + assert (0 <= (1 - s) * (fst p - fst q)) by (apply Rmult_le_pos; lra). lra.
Qed.
Lemma side_not_out ge a t : side ge a t -> strictly_out ge a t -> False.
Proof. unfold side, strictly_out; destruct ge; lra. Qed.
Lemma side_or_out ge a t : side ge a t \/ strictly_out ge a t.
Proof. unfold side, strictly_out; destruct ge; lra. Qed.

Lemma frac01 x y : (0 <= x <= y /\ 0 < y) \/ (y <= x <= 0 /\ y < 0) -> 0 <= x / y <= 1.
Proof.
  intros [[H Hy] | [H Hy]].
  - split. + apply Rmult_le_pos; [lra | left; apply Rinv_0_lt_compat; lra].
    + apply (Rmult_le_reg_r y); auto. unfold Rdiv. rewrite Rmult_assoc, Rinv_l by lra. lra.
  - replace (x / y) with ((- x) / (- y)) by (field; lra).
    split. + apply Rmult_le_pos; [lra | left; apply Rinv_0_lt_compat; lra].
    + apply (Rmult_le_reg_r (- y)); [lra|]. unfold Rdiv. rewrite Rmult_assoc, Rinv_l by lra. lra.
Qed.

(* an edge that crosses the line: the emitted vertex is the point of the edge on the line *)
Lemma crossing_cases ge a (u v : P2) :
  xorb (inside O ge a u) (inside O ge a v) = true ->
  (side ge a (fst u) /\ strictly_out ge a (fst v)) \/ (strictly_out ge a (fst u) /\ side ge a (fst v)).
Proof.
  destruct (inside O ge a u) eqn:Eu, (inside O ge a v) eqn:Ev; simpl; try discriminate; intros _.
  - left. split; [apply inside_true | apply inside_false]; auto.
  - right. split; [apply inside_false | apply inside_true]; auto.
Qed.

Lemma cut_is_mix ge a (u v : P2) :
  xorb (inside O ge a u) (inside O ge a v) = true ->
  fst v - fst u <> 0 /\
  exists s, 0 <= s <= 1 /\ s = (a - fst u) / (fst v - fst u) /\ cut O a u v = mix s u v.
Proof.
  intros X. apply crossing_cases in X.
  assert (Hne : fst v - fst u <> 0) by (unfold side, strictly_out in X; destruct ge; lra).
  split; auto. exists ((a - fst u) / (fst v - fst u)). split; [|split; auto].
  - apply frac01. unfold side, strictly_out in X; destruct ge; lra.
  - unfold cut, mix; simpl. apply pair_eq; [field; auto|].
    unfold Reqb. destruct (Req_EM_T (snd u) (snd v)) as [E | N]; [rewrite <- E; ring | reflexivity].
Qed.

Lemma cut_fst a (u v : P2) : fst (cut O a u v) = a.
Proof. reflexivity. Qed.

(* every emitted vertex is a kept vertex or the point of an edge on the line *)
Lemma clip_vertex ge a (V : list P2) p :
  In p (clip O ge a V) -> hull V p /\ side ge a (fst p).
Proof.
  unfold clip. rewrite in_flat_map. intros ((u, v) & He & Hp).
  destruct (edges_in _ _ _ He) as [Hu Hv].
  unfold step in Hp; simpl in Hp. apply in_app_or in Hp. destruct Hp as [Hp | Hp].
  - destruct (inside O ge a u) eqn:E; [|inversion Hp]. destruct Hp as [<- | []].
    split; [apply hull_v; auto | apply inside_true; auto].
  - destruct (xorb _ _) eqn:X; [|inversion Hp]. destruct Hp as [<- | []].
    destruct (cut_is_mix ge a u v X) as (_ & s & Hs & _ & E). split.
    + rewrite E. apply hull_mix; auto; apply hull_v; auto.
    + rewrite cut_fst. unfold side; destruct ge; lra.
Qed.

(* clip_sound: the clipped polygon lies in the polygon and on the kept side of the line *)
Theorem clip_sound ge a (V : list P2) p :
  hull (clip O ge a V) p -> hull V p /\ side ge a (fst p).
Proof.
  revert p. apply hull_ind_conv.
  - apply clip_vertex.
  - intros p q s [Hp Sp] [Hq Sq] Hs. split; [apply hull_mix; auto | apply side_mix; auto].
Qed.

Lemma clip_all_inside ge a (V : list P2) :
  (forall v, In v V -> inside O ge a v = true) -> clip O ge a V = V.
Proof.
  intros H. unfold clip. rewrite (flat_map_single _ fst).
  - apply edges_fst.
  - intros (u, v) He. destruct (edges_in _ _ _ He) as [Hu Hv].
    unfold step; simpl. rewrite (H u Hu), (H v Hv). reflexivity.
Qed.

Lemma clip_in_kept ge a (V : list P2) u : In u V -> inside O ge a u = true -> In u (clip O ge a V).
Proof.
  intros Hu Iu. unfold clip. apply in_flat_map.
  assert (Hf : In u (map fst (edges V))) by (rewrite edges_fst; auto).
  apply in_map_iff in Hf. destruct Hf as ((u', v) & E & He). simpl in E; subst u'.
  exists (u, v). split; auto. unfold step; simpl. rewrite Iu. left; reflexivity.
Qed.
Lemma clip_in_cut ge a (V : list P2) u v :
  In (u, v) (edges V) -> xorb (inside O ge a u) (inside O ge a v) = true -> In (cut O a u v) (clip O ge a V).
Proof.
  intros He X. unfold clip. apply in_flat_map. exists (u, v). split; auto.
  unfold step; simpl. rewrite X. apply in_or_app. right. left; reflexivity.
Qed.

(* ---- convex polygons: counter-clockwise, every vertex on the left of (or on) every edge *)
Definition convex (V : list P2) : Prop :=
  forall u v w, In (u, v) (edges V) -> In w V -> 0 <= cross u v w.

Lemma convex_hull V u v w : convex V -> In (u, v) (edges V) -> hull V w -> 0 <= cross u v w.
Proof.
  intros C He. revert w. apply hull_ind_conv.
  - intros w Hw. apply (C u v w); auto.
  - intros p q s Hp Hq Hs. rewrite cross_mix. nra.
Qed.

(* on the cut line the crossing point of an edge bounds the polygon *)
Lemma cut_cross ge a (u v x : P2) :
  xorb (inside O ge a u) (inside O ge a v) = true -> fst x = a ->
  (fst v - fst u) * (snd x - snd (cut O a u v)) = cross u v x.
Proof.
  intros X Hx. destruct (cut_is_mix ge a u v X) as (Hne & s & _ & Es & Ec).
  rewrite Ec. unfold cross, mix; simpl. rewrite Hx, Es. field. auto.
Qed.

Lemma forallb_false_ex {A} (f : A -> bool) l : forallb f l = false -> exists x, In x l /\ f x = false.
Proof.
  induction l as [|a l IH]; simpl; [discriminate|].
  destruct (f a) eqn:E; simpl; intros H.
  - destruct (IH H) as (x & ? & ?); eauto.
  - eauto.
Qed.

Lemma prod_neg (d e : R) : 0 <= d * e -> d < 0 -> e <= 0.
Proof. intros; nra. Qed.
Lemma prod_pos (d e : R) : 0 <= d * e -> 0 < d -> 0 <= e.
Proof. intros; nra. Qed.

Lemma hull_all_out ge a (V : list P2) :
  (forall v, In v V -> inside O ge a v = false) -> forall y, hull V y -> strictly_out ge a (fst y).
Proof.
  intros H. apply hull_ind_conv.
  - intros v Hv. apply inside_false; auto.
  - intros; apply out_mix; auto.
Qed.

Lemma between_on_line (W : list P2) a (p q x : P2) :
  fst p = a -> fst q = a -> fst x = a -> snd p <= snd x <= snd q ->
  hull W p -> hull W q -> hull W x.
Proof.
  intros Hp Hq Hx Hb Wp Wq.
  destruct (Req_dec (snd p) (snd q)) as [E | N].
  - replace x with p; auto. destruct x, p; simpl in *. apply pair_eq; lra.
  - apply (hull_seg W p q); auto. exists ((snd x - snd p) / (snd q - snd p)). split.
    + apply frac01. lra.
    + destruct x as [xt xl]; unfold mix; simpl in *. apply pair_eq.
      * rewrite Hp, Hq, Hx. ring.
      * field. lra.
Qed.

(* points of a convex polygon that lie ON the line are in the clipped polygon *)
Lemma clip_line ge a (V : list P2) x :
  convex V -> hull V x -> fst x = a -> hull (clip O ge a V) x.
Proof.
  intros C Hx Ha.
  destruct (forallb (inside O ge a) V) eqn:Fa.
  { rewrite clip_all_inside; auto. intros v Hv. rewrite forallb_forall in Fa; auto. }
  destruct (forallb_false_ex (A:=P2) _ _ Fa) as (y & Hy & Iy).
  destruct (existsb (inside O ge a) V) eqn:Fe.
  2:{ exfalso. apply (side_not_out ge a (fst x)).
      - rewrite Ha. unfold side; destruct ge; lra.
      - apply (hull_all_out ge a V); auto. intros v Hv.
        destruct (inside O ge a v) eqn:E; auto.
        assert (existsb (inside O ge a) V = true) by (apply existsb_exists; eauto). congruence. }
  apply existsb_exists in Fe. destruct Fe as (z & Hz & Iz).
  destruct (cyclic_transitions (A:=P2) (inside O ge a) V z y Hz Iz Hy Iy)
    as [(u & v & He & Iu & Iv) (u' & v' & He' & Iu' & Iv')].
  assert (X1 : xorb (inside O ge a u) (inside O ge a v) = true) by (rewrite Iu, Iv; reflexivity).
  assert (X2 : xorb (inside O ge a u') (inside O ge a v') = true) by (rewrite Iu', Iv'; reflexivity).
  pose proof (clip_in_cut ge a V u v He X1) as In1.
  pose proof (clip_in_cut ge a V u' v' He' X2) as In2.
  pose proof (cut_cross ge a u v x X1 Ha) as E1.
  pose proof (cut_cross ge a u' v' x X2 Ha) as E2.
  pose proof (convex_hull V u v x C He Hx) as G1.
  pose proof (convex_hull V u' v' x C He' Hx) as G2.
  apply inside_true in Iu, Iv'. apply inside_false in Iv, Iu'.
  rewrite <- E1 in G1. rewrite <- E2 in G2.
  unfold side, strictly_out in *.
  destruct ge.
  - apply (between_on_line _ a (cut O a u' v') (cut O a u v) x); auto; try (apply hull_v; auto).
    apply prod_neg in G1; [|lra]. apply prod_pos in G2; [|lra]. simpl in G1, G2 |- *. split; lra.
  - apply (between_on_line _ a (cut O a u v) (cut O a u' v') x); auto; try (apply hull_v; auto).
    apply prod_pos in G1; [|lra]. apply prod_neg in G2; [|lra]. simpl in G1, G2 |- *. split; lra.
Qed.

Lemma mix_sym s (p q : P2) : mix s p q = mix (1 - s) q p.
Proof. unfold mix. apply pair_eq; ring. Qed.
Lemma mix_0 (p q : P2) : mix 0 p q = p.
Proof. destruct p; unfold mix; simpl. apply pair_eq; ring. Qed.

(* a segment from the kept side to the other side: its kept part ends on the line *)
Lemma seg_clip ge a (p q : P2) s (W : list P2) :
  0 <= s <= 1 -> side ge a (fst p) -> strictly_out ge a (fst q) ->
  side ge a (fst (mix s p q)) -> hull W p ->
  (forall x, (exists s0, 0 <= s0 <= 1 /\ x = mix s0 p q) -> fst x = a -> hull W x) ->
  hull W (mix s p q).
Proof.
  intros Hs Sp Oq Sr Wp K.
  destruct (Req_dec s 0) as [-> | Hs0]; [rewrite mix_0; auto|].
  set (D := fst q - fst p).
  assert (HD : D <> 0) by (unfold D, side, strictly_out in *; destruct ge; lra).
  set (s0 := (a - fst p) / D).
  assert (H01 : 0 <= s0 <= 1).
  { apply frac01. unfold D, side, strictly_out in *; destruct ge; lra. }
  assert (Es0 : s0 * D = a - fst p) by (unfold s0; field; auto).
  assert (Hle : s <= s0).
  { unfold side, strictly_out, mix in *; simpl in *. fold D in Oq.
    destruct ge; [assert (D < 0) by (unfold D; lra) | assert (0 < D) by (unfold D; lra)]; unfold D in *; nra. }
  assert (Hpos : 0 < s0) by lra.
  assert (Wx : hull W (mix s0 p q)).
  { apply K; [exists s0; auto|]. unfold mix; simpl. unfold D in Es0. lra. }
  apply (hull_seg W p (mix s0 p q)); auto.
  exists (s / s0). split.
  - apply frac01. lra.
  - unfold mix; simpl. apply pair_eq; field; lra.
Qed.

(* clip_complete: for a convex polygon, everything of the polygon on the kept side survives *)
Theorem clip_complete ge a (V : list P2) p :
  convex V -> hull V p -> side ge a (fst p) -> hull (clip O ge a V) p.
Proof.
  intros C Hp S.
  cut (hull V p /\ (side ge a (fst p) -> hull (clip O ge a V) p)); [tauto|]. clear S.
  revert p Hp. apply (hull_ind_conv V (fun p => hull V p /\ (side ge a (fst p) -> hull (clip O ge a V) p))).
  - intros v Hv. split; [apply hull_v; auto|]. intros S. apply hull_v, clip_in_kept; auto. apply inside_true; auto.
  - intros p q s [Hp IHp] [Hq IHq] Hs. split; [apply hull_mix; auto|]. intros S.
    assert (K : forall p' q', hull V p' -> hull V q' ->
                forall x, (exists s0, 0 <= s0 <= 1 /\ x = mix s0 p' q') -> fst x = a -> hull (clip O ge a V) x).
    { intros p' q' Hp' Hq' x (s0 & H0 & ->) Hx. apply clip_line; auto. apply hull_mix; auto. }
    destruct (side_or_out ge a (fst p)) as [Sp | Op], (side_or_out ge a (fst q)) as [Sq | Oq].
    + apply hull_mix; auto.
    + apply (seg_clip ge a); auto. apply K; auto.
    + rewrite mix_sym. apply (seg_clip ge a); auto; try lra.
      * rewrite <- mix_sym; auto.
      * apply K; auto.
    + exfalso. eapply side_not_out; [exact S | apply out_mix; auto].
Qed.
End ClipR.
